// oracle/sph_sum.hpp -- reference model for property C19.
//
// (1) sph::  the spherical harmonic sum of SphericalHarmonic.hpp evaluated *directly from its definition*
//
//        V(x,y,z) = sum_{n=0..nmx} q^(n+1) sum_{m=0..min(n,mmx)} (C[n,m] cos(m lam) + S[n,m] sin(m lam)) P[n,m](cos theta)
//
//     in __float128, term by term.  The associated Legendre functions come from the definition of the Ferrers
//     function (DLMF 14.7.10)   P_n^m(t) = (-1)^m (1-t^2)^(m/2) d^m P_n(t)/dt^m   so that, with the stated
//     normalisations (the (-1)^m cancels),
//
//        P[n,m](cos theta) = Nrm(n,m) * sin(theta)^m * T[n,m](cos theta),      T[n,m] = d^m P_n / dt^m ,
//        Nrm_full = sqrt(k (2n+1) (n-m)!/(n+m)!),  Nrm_schmidt = sqrt(k (n-m)!/(n+m)!),  k = 1 (m = 0) or 2.
//
//     T[n,m] is a polynomial obtained from  T[m,m] = (2m-1)!!,  (n-m) T[n,m] = (2n-1) t T[n-1,m] - (n+m-1) T[n-2,m]
//     (the m-th derivative of Bonnet's recursion; integer coefficients, no square-root tables, no scaling).
//     Because sin(theta)^m cos(m lam) = Re (x+iy)^m / r^m, every term is a regular function of the Cartesian
//     coordinates,
//
//        term = a^(n+1) Nrm r^-(n+m+1) T[n,m](z/r) { Re | Im } (x+iy)^m ,
//
//     and its gradient is written down analytically (product rule; d/dt T[n,m] = T[n,m+1]); nothing is singular on
//     the polar axis.  The gradient formula is itself verified against 8th-order central differences of the value
//     and the Legendre functions against boost::math::legendre_p in oracle/selftest_sph.cpp.
//
//     Independent of: Clenshaw summation (both sums), the sqrt table, the scale() factor, the pole offset eps(),
//     CircularEngine, the packed coefficient layout (the oracle is handed C(n,m), S(n,m) as functions).
//
// (2) sph::ng  closed-form normal gravity of a level ellipsoid of revolution (Heiskanen & Moritz 1967, sec. 2-7..2-9)
//     in __float128 for f >= 0: U0, gamma_e, gamma_p, J2, J_2n, V0(X,Y,Z).
//
// Header only; needs -lquadmath.
#pragma once
#include <quadmath.h>
#include <vector>
#include <cmath>
#include <cstdio>
#include <string>

namespace sph {

typedef __float128 Q;
enum { FULL = 0, SCHMIDT = 1 };

inline Q qabs(Q x) { return fabsq(x); }
inline Q qmax(Q a, Q b) { return a > b ? a : b; }
inline std::string qstr(Q x, int digits = 36) { char b[128]; quadmath_snprintf(b, sizeof b, "%.*Qg", digits, x); return b; }
inline Q qpi() { return M_PIq; }

// n! for n <= 1600 (float128 holds up to ~1e4932)
inline Q factorial(int n) {
  static std::vector<Q> f(1, Q(1));
  while ((int)f.size() <= n) f.push_back(f.back() * Q((int)f.size()));
  return f[n];
}
inline Q normfac(int norm, int n, int m) {
  static std::vector<Q> cache[2];                          // memo, index n(n+1)/2 + m; 0 = not yet computed
  size_t idx = size_t(n) * (n + 1) / 2 + m;
  std::vector<Q>& c = cache[norm == FULL ? 0 : 1];
  if (c.size() <= idx) c.resize(idx + 1024, Q(0));
  if (c[idx] != 0) return c[idx];
  Q k = m ? 2 : 1;
  Q v = k * factorial(n - m) / factorial(n + m);
  if (norm == FULL) v *= Q(2 * n + 1);
  return c[idx] = sqrtq(v);
}

// One (n,m) pair of basis functions: value and gradient of the unit-C term ("c") and the unit-S term ("s"), and the
// magnitudes used for the tolerance "k eps sum |terms|":
//   amp   |A| E[n,m] p^m, E >= |T[n,m]|       (the term without its trigonometric factor; E = magnitudes of the two
//                                            terms of the recurrence defining T[n,m], equal to |T| away from its zeros)
//   gamp  sum of the magnitudes of the three pieces of the gradient (radial, Legendre, azimuthal), vector norm bound
//   sup   q^(n+1) B_n (n+1)^2, B_n = sup over the sphere of |P[n,m]|  (sqrt(2n+1) full, 1 Schmidt; addition theorem)
struct Term { int n, m; Q c, s, gc[3], gs[3], amp, gamp, sup; };

struct Point {               // geometry shared by all terms
  Q x, y, z, r, t, p;
};

// sum of the magnitudes of the terms of the recurrence defining T[m][n]
inline Q env(const std::vector<std::vector<Q>>& T, int m, int n, Q t) {
  if (m > n) return 0;
  if (n < m + 2) return qabs(T[m][n]);
  return (qabs(Q(2 * n - 1) * t * T[m][n - 1]) + qabs(Q(n + m - 1) * T[m][n - 2])) / Q(n - m);
}

// Calls f(const Term&) for every 0 <= n <= nmx, 0 <= m <= min(n, mmx).
template <class F>
inline void for_each_term(int norm, Q a, int nmx, int mmx, Q x, Q y, Q z, F f) {
  if (nmx < 0 || mmx < 0) return;
  if (mmx > nmx) mmx = nmx;
  Q p2 = x * x + y * y, r2 = p2 + z * z, r = sqrtq(r2), p = sqrtq(p2), t = z / r, q = a / r;
  int M1 = mmx + 1;
  // T[m][n], m <= mmx+1
  std::vector<std::vector<Q>> T(M1 + 1, std::vector<Q>(nmx + 2, Q(0)));
  Q dfact = 1;                                             // (2m-1)!!
  for (int m = 0; m <= M1; ++m) {
    if (m > 0) dfact *= Q(2 * m - 1);
    if (m <= nmx) T[m][m] = dfact;
    if (m + 1 <= nmx) T[m][m + 1] = Q(2 * m + 1) * t * dfact;
    for (int n = m + 2; n <= nmx; ++n) T[m][n] = (Q(2 * n - 1) * t * T[m][n - 1] - Q(n + m - 1) * T[m][n - 2]) / Q(n - m);
  }
  std::vector<Q> re(mmx + 1), im(mmx + 1), pm(mmx + 1), rim(mmx + 1), qn(nmx + 1);
  re[0] = 1; im[0] = 0; pm[0] = 1; rim[0] = 1;
  for (int m = 1; m <= mmx; ++m) { re[m] = re[m - 1] * x - im[m - 1] * y; im[m] = re[m - 1] * y + im[m - 1] * x; pm[m] = pm[m - 1] * p; rim[m] = rim[m - 1] / r; }
  qn[0] = q; for (int n = 1; n <= nmx; ++n) qn[n] = qn[n - 1] * q;
  Q dt[3] = {-t * x / r2, -t * y / r2, p2 / (r2 * r)};       // grad of t = z/r
  Q xi[3] = {x, y, z};
  for (int n = 0; n <= nmx; ++n) for (int m = 0; m <= (n < mmx ? n : mmx); ++m) {
    Term tm; tm.n = n; tm.m = m;
    Q A = qn[n] * normfac(norm, n, m) * rim[m];
    Q Tv = T[m][n], Tp = T[m + 1][n];                       // T[n,m], d/dt T[n,m] (0 when m+1 > n)
    tm.c = A * Tv * re[m]; tm.s = A * Tv * im[m];
    Q dre[3] = {0, 0, 0}, dim[3] = {0, 0, 0};
    if (m > 0) { dre[0] = Q(m) * re[m - 1]; dre[1] = -Q(m) * im[m - 1]; dim[0] = Q(m) * im[m - 1]; dim[1] = Q(m) * re[m - 1]; }
    for (int i = 0; i < 3; ++i) {
      Q dA = -Q(n + m + 1) * A * xi[i] / r2;
      tm.gc[i] = dA * Tv * re[m] + A * Tp * dt[i] * re[m] + A * Tv * dre[i];
      tm.gs[i] = dA * Tv * im[m] + A * Tp * dt[i] * im[m] + A * Tv * dim[i];
    }
    // magnitudes: |T[n,m]| is replaced by the sum of the magnitudes of the two terms of its defining recurrence
    // (>= |T[n,m]|), so that a point that happens to lie near a zero of P[n,m] does not get a vanishing tolerance
    Q Ev = env(T, m, n, t), Ep = env(T, m + 1, n, t);
    tm.amp = qabs(A) * Ev * pm[m];
    tm.gamp = qabs(A) * (Q(n + m + 1) / r * Ev * pm[m] + Ep * pm[m] * (p / r2) + (m > 0 ? Ev * Q(m) * pm[m - 1] : Q(0)));
    Q Bn = norm == FULL ? sqrtq(Q(2 * n + 1)) : Q(1);
    tm.sup = qn[n] * Bn * Q(n + 1) * Q(n + 1);
    f(tm);
  }
}

// Result of a sum: value, gradient and the tolerance scales.
struct Sum {
  Q v = 0, g[3] = {0, 0, 0};
  Q sv = 0;      // sum |terms| (value)
  Q sg = 0;      // sum |gradient pieces|
  Q sh = 0;      // bound for the second derivatives: sum 2(n+2)/r * gradient pieces (for position-rounding allowances)
  Q ssup = 0;    // sum q^(n+1) B_n (n+1)^2 (|C|+|S|)   : floor for the value   (multiply by eps^1.5)
  Q ssupg = 0;   // same * (n+1)/r                       : floor for the gradient
  int nmax = 0;  // highest degree with a non-zero coefficient
  void add(const Term& t, Q C, Q S, Q absC, Q absS, Q r) {
    if ((absC != 0 || (t.m && absS != 0)) && t.n > nmax) nmax = t.n;
    v += C * t.c + S * t.s;
    for (int i = 0; i < 3; ++i) g[i] += C * t.gc[i] + S * t.gs[i];
    Q w = absC + (t.m ? absS : Q(0));
    sv += w * t.amp; sg += w * t.gamp; sh += w * t.gamp * Q(2 * (t.n + 2)) / r;
    ssup += w * t.sup; ssupg += w * t.sup * Q(t.n + 1) / r;
  }
  void axpy(Q f, const Sum& o) {        // this += f * o   (magnitudes with |f|)
    v += f * o.v; for (int i = 0; i < 3; ++i) g[i] += f * o.g[i];
    if (f != 0 && o.nmax > nmax) nmax = o.nmax;
    Q af = qabs(f); sv += af * o.sv; sg += af * o.sg; sh += af * o.sh; ssup += af * o.ssup; ssupg += af * o.ssupg;
  }
};

// coef(n, m, C, S) must deliver the coefficients; the sum runs over n <= nmx, m <= min(n, mmx).
template <class CF>
inline Sum eval(int norm, Q a, int nmx, int mmx, Q x, Q y, Q z, CF coef) {
  Sum s; Q r = sqrtq(x * x + y * y + z * z);
  for_each_term(norm, a, nmx, mmx, x, y, z, [&](const Term& t) {
    double C = 0, S = 0; coef(t.n, t.m, C, S);
    s.add(t, Q(C), Q(S), qabs(Q(C)), qabs(Q(S)), r);
  });
  return s;
}

// 8th-order central difference of a scalar function of position (used by the self test and for normal gravity)
template <class F>
inline void grad_fd8(F fun, Q x, Q y, Q z, Q h, Q g[3]) {
  static const Q c[4] = {Q(4) / 5, -Q(1) / 5, Q(4) / 105, -Q(1) / 280};
  for (int i = 0; i < 3; ++i) {
    Q s = 0;
    for (int k = 1; k <= 4; ++k) {
      Q d[3] = {0, 0, 0}; d[i] = h * Q(k);
      s += c[k - 1] * (fun(x + d[0], y + d[1], z + d[2]) - fun(x - d[0], y - d[1], z - d[2]));
    }
    g[i] = s / h;
  }
}

// Table of all basis terms at one point (unit-vector enumeration: every case is a table look-up)
struct Table {
  int nmx; std::vector<Term> t; Q r;
  Table(int norm, Q a, int nmx_, Q x, Q y, Q z) : nmx(nmx_), t((nmx_ + 1) * (nmx_ + 1)) {
    r = sqrtq(x * x + y * y + z * z);
    for_each_term(norm, a, nmx, nmx, x, y, z, [&](const Term& tm) { t[tm.n * (nmx + 1) + tm.m] = tm; });
  }
  const Term& at(int n, int m) const { return t[n * (nmx + 1) + m]; }
};

// ---------------------------------------------------------------------------------------------------------------
// geodetic -> geocentric and the local east/north/up basis, from the definitions
struct Geo { Q X, Y, Z; Q e[3], n[3], u[3]; };
inline Geo geodetic(Q a, Q f, Q latdeg, Q londeg, Q h) {
  Q phi = latdeg * qpi() / 180, lam = londeg * qpi() / 180;
  Q sp = sinq(phi), cp = cosq(phi), sl = sinq(lam), cl = cosq(lam);
  if (latdeg == 90) { sp = 1; cp = 0; } else if (latdeg == -90) { sp = -1; cp = 0; }
  Q e2 = f * (2 - f), nu = a / sqrtq(1 - e2 * sp * sp);
  Geo g; g.X = (nu + h) * cp * cl; g.Y = (nu + h) * cp * sl; g.Z = (nu * (1 - e2) + h) * sp;
  g.e[0] = -sl; g.e[1] = cl; g.e[2] = 0;
  g.n[0] = -sp * cl; g.n[1] = -sp * sl; g.n[2] = cp;
  g.u[0] = cp * cl; g.u[1] = cp * sl; g.u[2] = sp;
  return g;
}
inline Q dot3(const Q a[3], const Q b[3]) { return a[0] * b[0] + a[1] * b[1] + a[2] * b[2]; }

// ---------------------------------------------------------------------------------------------------------------
namespace ng {
// q(z) = ((1 + 3/z^2) atan z - 3/z)/2 (H+M 2-57 with z = E/u) and q'(z) = 3 (1 + 1/z^2)(1 - atan(z)/z) - 1 (H+M 2-67);
// for small z the closed forms cancel (leading terms z^3 2/15 and z^2 2/5), there the Maclaurin series are summed instead
inline Q qfun(Q z) {
  if (z > Q(0.2)) return ((1 + 3 / (z * z)) * atanq(z) - 3 / z) / 2;
  Q s = 0, zp = z * z * z, z2 = z * z;                       // sum_{k>=1} (-1)^(k+1) 2k z^(2k+1) / ((2k+1)(2k+3))
  for (int k = 1; k < 200; ++k) { Q t = Q(2 * k) * zp / (Q(2 * k + 1) * Q(2 * k + 3)); s += (k & 1) ? t : -t; zp *= z2; if (t < Q(1e-45) * qabs(s)) break; }
  return s;
}
inline Q qpfun(Q z) {
  if (z > Q(0.2)) return 3 * (1 + 1 / (z * z)) * (1 - atanq(z) / z) - 1;
  Q s = 0, zp = z * z, z2 = z * z;                           // sum_{k>=1} (-1)^(k+1) 6 z^(2k) / ((2k+1)(2k+3))
  for (int k = 1; k < 200; ++k) { Q t = 6 * zp / (Q(2 * k + 1) * Q(2 * k + 3)); s += (k & 1) ? t : -t; zp *= z2; if (t < Q(1e-45) * qabs(s)) break; }
  return s;
}
// The same functions of the signed square z2 = z^2 (analytic continuation to z2 < 0, the prolate ellipsoid, where
// atan(z)/z becomes atanh(w)/w, w^2 = -z2):  A = atan(z)/z,  q(z)/z = ((1 + 3/z2) A - 3/z2)/2,  q'(z) = 3 (1 + 1/z2)(1 - A) - 1
inline Q Afun2(Q z2) { if (z2 == 0) return 1; Q w = sqrtq(qabs(z2)); return z2 > 0 ? atanq(w) / w : atanhq(w) / w; }
inline Q qz2(Q z2) {
  if (qabs(z2) > Q(0.04)) return ((1 + 3 / z2) * Afun2(z2) - 3 / z2) / 2;
  Q s = 0, zp = z2;                                          // sum_{k>=1} (-1)^(k+1) 2k z2^k / ((2k+1)(2k+3))
  for (int k = 1; k < 200; ++k) { Q t = Q(2 * k) * zp / (Q(2 * k + 1) * Q(2 * k + 3)); s += (k & 1) ? t : -t; zp *= z2; if (qabs(t) < Q(1e-45) * qabs(s)) break; }
  return s;
}
inline Q qp2(Q z2) {
  if (qabs(z2) > Q(0.04)) return 3 * (1 + 1 / z2) * (1 - Afun2(z2)) - 1;
  Q s = 0, zp = z2;                                          // sum_{k>=1} (-1)^(k+1) 6 z2^k / ((2k+1)(2k+3))
  for (int k = 1; k < 200; ++k) { Q t = 6 * zp / (Q(2 * k + 1) * Q(2 * k + 3)); s += (k & 1) ? t : -t; zp *= z2; if (qabs(t) < Q(1e-45) * qabs(s)) break; }
  return s;
}
// Level ellipsoid (a, GM, omega, f); H+M = Heiskanen & Moritz, Physical Geodesy (1967).  The constants (U0, gamma_e, gamma_p,
// J2, J_n, Somigliana) are available for every f < 1 (prolate by the continuation above); the field V0(X,Y,Z) for f >= 0 only.
struct Ell {
  Q a, GM, omega, f, b, E, e2, ep, m, q0, q0p, U0, gammae, gammap, J2;
  bool sphere, prolate;
  Ell(Q a_, Q GM_, Q omega_, Q f_) : a(a_), GM(GM_), omega(omega_), f(f_) {
    b = a * (1 - f); e2 = f * (2 - f); sphere = (f == 0); prolate = (f < 0);
    E = prolate ? Q(0) / Q(0) : a * sqrtq(e2);                            // linear eccentricity (imaginary, unused, when prolate)
    m = omega * omega * a * a * b / GM;                                  // H+M 2-70
    if (!sphere) {
      Q z2 = (a * a - b * b) / (b * b);                                   // e'^2, signed
      ep = sqrtq(qabs(z2));
      Q qz = qz2(z2);                                                     // q0 / e'        (H+M 2-58)
      q0p = qp2(z2);                                                      // q0'            (H+M 2-67 at u = b)
      q0 = qz * ep;
      U0 = GM / b * Afun2(z2) + omega * omega * a * a / 3;               // H+M 2-61: GM/E atan(E/b) = GM/b A
      Q w = m * q0p / qz;                                                 // m e' q0'/q0
      gammae = GM / (a * b) * (1 - m - w / 6);                            // H+M 2-73
      gammap = GM / (a * a) * (1 + w / 3);                                // H+M 2-74
      J2 = e2 / 3 * (1 - Q(2) / 15 * m / qz);                             // H+M 2-90: e'/q0 = 1/(q0/e')
    } else {
      ep = 0; q0 = 0; q0p = 0;
      U0 = GM / a + omega * omega * a * a / 3;
      gammae = GM / (a * a) * (1 - m - m / 2);                            // limits e' q0'/q0 -> 3
      gammap = GM / (a * a) * (1 + m);
      J2 = -m / 3;                                                        // e2/3 - (2/45) m e' e2 / q0, e'^3/q0 -> 15/2
    }
  }
  // H+M 2-92: J_2k
  Q Jn(int n) const {
    if (n & 1 || n < 0) return 0;
    int k = n / 2;
    if (k == 0) return -1;
    if (k == 1) return J2;
    if (sphere) return 0;
    Q e2k = powq(e2, k);
    return ((k & 1) ? Q(1) : Q(-1)) * 3 * e2k / (Q(2 * k + 1) * Q(2 * k + 3)) * (1 - k + 5 * k * J2 / e2);
  }
  // H+M 2-62 without the centrifugal term, with (u, beta) from H+M 6-8
  Q V0(Q X, Q Y, Q Z) const {
    if (prolate) return Q(0) / Q(0);                                       // not implemented
    Q p2 = X * X + Y * Y, r2 = p2 + Z * Z;
    if (sphere) { Q r = sqrtq(r2), sb2 = Z * Z / r2; return GM / r + omega * omega * a * a / 2 * (a / r) * (a / r) * (a / r) * (sb2 - Q(1) / 3); }
    Q Qd = r2 - E * E, u2 = (Qd + sqrtq(Qd * Qd + 4 * E * E * Z * Z)) / 2, u = sqrtq(u2);
    Q sb2 = Z * Z / u2;                                                    // sin^2 beta
    Q qq = qfun(E / u);                                                    // H+M 2-57
    return GM / E * atanq(E / u) + omega * omega * a * a / 2 * qq / q0 * (sb2 - Q(1) / 3);
  }
  Q U(Q X, Q Y, Q Z) const { return V0(X, Y, Z) + omega * omega * (X * X + Y * Y) / 2; }
  // Somigliana (H+M 2-76)
  Q surface_gravity(Q latdeg) const {
    Q phi = latdeg * qpi() / 180, s = sinq(phi), c = cosq(phi);
    if (latdeg == 90 || latdeg == -90) { c = 0; s = latdeg > 0 ? 1 : -1; }
    return (a * gammae * c * c + b * gammap * s * s) / sqrtq(a * a * c * c + b * b * s * s);
  }
  // zonal series of V0 truncated at even degree <= nmax: GM/r (1 - sum_{n=2,4..} J_n (a/r)^n P_n(cos theta))
  Q V0_series(Q X, Q Y, Q Z, int nmax) const {
    Q r = sqrtq(X * X + Y * Y + Z * Z), t = Z / r, s = 1;
    Q Pm2 = 1, Pm1 = t;                                                    // P_0, P_1
    for (int n = 2; n <= nmax; ++n) {
      Q Pn = (Q(2 * n - 1) * t * Pm1 - Q(n - 1) * Pm2) / Q(n);
      if (!(n & 1)) s -= Jn(n) * powq(a / r, n) * Pn;
      Pm2 = Pm1; Pm1 = Pn;
    }
    return GM / r * s;
  }
};
// flattening of the level ellipsoid with the given J2 (oblate branch, 0 <= f < 0.9), by bisection on the closed form above
inline Q f_from_J2(Q a, Q GM, Q omega, Q J2) {
  Q lo = 0, hi = Q(0.9);
  if (!(Ell(a, GM, omega, lo).J2 <= J2 && J2 <= Ell(a, GM, omega, hi).J2)) return Q(-1);   // not on the oblate branch
  for (int i = 0; i < 130; ++i) { Q mid = (lo + hi) / 2; if (Ell(a, GM, omega, mid).J2 < J2) lo = mid; else hi = mid; }
  return (lo + hi) / 2;
}
}  // namespace ng
}  // namespace sph
