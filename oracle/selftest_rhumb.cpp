// oracle/selftest_rhumb.cpp -- stand-alone self-test of oracle/rhumb_q.hpp (run by `bin/check --setup`).
// Every quantity of the rhumb oracle is checked against a second, differently formulated evaluation.
// Does not touch /repo.  Exit status != 0 on failure.
#include "oracle/rhumb_q.hpp"
#include <cstdio>
#include <boost/multiprecision/float128.hpp>
#include <boost/math/special_functions/ellint_2.hpp>
using namespace rhq;
static int bad = 0;
static void chk(const char* what, Q got, Q want, Q reltol, Q abstol = 0) {
  Q err = fabsq(got - want), tol = reltol * fabsq(want) + abstol;
  if (!(err <= tol)) {
    char b1[64], b2[64], b3[64];
    quadmath_snprintf(b1, sizeof b1, "%.30Qg", got); quadmath_snprintf(b2, sizeof b2, "%.30Qg", want); quadmath_snprintf(b3, sizeof b3, "%.3Qg", err);
    printf("FAIL %s: got %s want %s err %s\n", what, b1, b2, b3); ++bad;
  }
}
int main() {
  // 1. the quadrature rule: weights sum to 2, x^78 integrated exactly, x^2 = 2/3
  { const GL& g = gl(); Q s0 = 0, s2 = 0, s78 = 0; for (int i = 0; i < GL::N; ++i) { s0 += g.w[i]; s2 += g.w[i] * g.x[i] * g.x[i]; s78 += g.w[i] * powq(g.x[i], 78); }
    chk("gl.sum", s0, 2, 1e-32Q); chk("gl.x2", s2, Q(2) / 3, 1e-32Q); chk("gl.x78", s78, Q(2) / 79, 1e-31Q); }
  struct EF { double a, f; } ells[] = {{6378137, 1 / 298.257223563}, {6378137, 0}, {6378137, -1 / 298.257223563}, {6378137, 0.01}, {6378137, -0.01},
    {6378137, 0.2}, {6378137, -0.2}, {6378137, 0.5}, {6378137, -0.5}, {1, 1 / 150.0}, {1e9, -1 / 150.0}, {6378137, 0.1}, {6378137, -0.05}, {6378137, 0.75}, {6378137, -1.0}, {6378137, 0.3}};
  double lats[] = {-89.9999, -45, -1e-9, 0, 1e-9, 30, 30 + 1e-9, 30 + 1e-6, 60, 89, 89.9999};
  for (auto ef : ells) {
    Ell E(ef.a, ef.f);
    char tag[64]; snprintf(tag, sizeof tag, "a=%g f=%g", ef.a, ef.f);
    // 2. meridian distance: (a) parametric-latitude integrand with finer panels, (b) Boost incomplete elliptic integral (oblate)
    for (double lat : lats) {
      Lat p(lat);
      Q m = E.merid(0, p.phi);
      Q beta = atan2q((1 - E.f) * p.s, p.c);
      Q a2 = E.a * E.a, b2 = E.b * E.b;
      Q mb = integrate([&](Q be) { Q sb = sinq(be), cb = cosq(be); return sqrtq(a2 * sb * sb + b2 * cb * cb); }, Q(0), beta, M_PIq / 24);
      chk((std::string("merid.beta ") + tag).c_str(), m, mb, 1e-30Q, 1e-33Q * E.a);
      if (ef.f > 0) {
        typedef boost::multiprecision::float128 F;
        F k = F(E.ae), ph = F(p.phi);
        F e = boost::math::ellint_2(k, ph);
        Q me = E.a * (Q(e.backend().value()) - E.e2 * p.s * p.c / sqrtq(1 - E.e2 * p.s * p.s));
        chk((std::string("merid.ellint ") + tag).c_str(), m, me, 1e-29Q, 1e-31Q * E.a);
      }
      // 3. isometric latitude: closed form against quadrature of its defining differential in phi (moderate latitudes)
      if (std::fabs(lat) <= 89) {
        Q ps = E.psi_t(p.t);
        Q pq = integrate([&](Q x) { Q s = sinq(x), c = cosq(x); return (1 - E.e2) / ((1 - E.e2 * s * s) * c); }, Q(0), p.phi, M_PIq / 256);
        chk((std::string("psi.quad ") + tag).c_str(), ps, pq, 1e-28Q, 1e-33Q);
      }
      // 4. zone area: closed form against int M R dphi
      { Q A = E.zoneA(p.s);
        Q Aq = integrate([&](Q x) { Q s = sinq(x), c = cosq(x); return E.M(s) * E.R(s, c); }, Q(0), p.phi, M_PIq / 16);
        chk((std::string("zoneA.quad ") + tag).c_str(), A, Aq, 1e-29Q, 1e-33Q * E.a * E.a); }
    }
    // 5. segment(): dpsi (t-quadrature) against the closed form, area integral against quadrature in phi
    for (double l1 : lats) for (double l2 : lats) {
      if (l1 == l2) continue;
      Lat p1(l1), p2(l2);
      Seg g = segment(E, p1, p2);
      Q dps = E.psi_t(p2.t) - E.psi_t(p1.t);
      chk((std::string("seg.dpsi ") + tag).c_str(), g.dpsi, dps, 1e-30Q, 2e-32Q * (fabsq(E.psi_t(p2.t)) + fabsq(E.psi_t(p1.t))));
      if (std::fabs(l1) <= 89 && std::fabs(l2) <= 89) {
        Q ia = integrate([&](Q x) { Q s = sinq(x), c = cosq(x); return E.zoneA(s) * (1 - E.e2) / ((1 - E.e2 * s * s) * c); }, p1.phi, p2.phi, M_PIq / 256);
        chk((std::string("seg.area ") + tag).c_str(), g.meanA * g.dpsi, ia, 1e-27Q + 1e-32Q / fabsq(p2.phi - p1.phi), 1e-45Q * E.a * E.a);
      }
      // mean of A lies between the end values
      Q A1 = E.zoneA(p1.s), A2 = E.zoneA(p2.s);
      if (!(g.meanA >= fminq(A1, A2) && g.meanA <= fmaxq(A1, A2))) { printf("FAIL meanA outside end values %s %g %g\n", tag, l1, l2); ++bad; }
      // 6. inverse then direct reproduces the second point
      Inv iv = inverse(E, l1, 10, l2, 75);
      Dir d = direct_sc(E, Lat(l1), sinq(iv.azi12 * deg()), cosq(iv.azi12 * deg()), iv.s12);
      chk((std::string("inv-dir.lat ") + tag).c_str(), d.lat2, Q(l2), 0, 1e-24Q);
      chk((std::string("inv-dir.lon ") + tag).c_str(), d.dlon, Q(65), 0, 1e-20Q);
      chk((std::string("inv-dir.S12 ") + tag).c_str(), d.S12, iv.S12, 1e-22Q, 1e-26Q * E.a * E.a);
    }
    // 7. sphere: closed forms
    if (ef.f == 0) {
      chk("sphere.area", E.area(), 4 * M_PIq * E.a * E.a, 1e-32Q);
      chk("sphere.quarter", E.quarter(), M_PI_2q * E.a, 1e-31Q);
      Inv iv = inverse(E, 20, 0, 50, 40);
      Lat p1(20.0), p2(50.0);
      Q dps = asinhq(p2.t) - asinhq(p1.t), lam = 40 * deg();
      chk("sphere.s12", iv.s12, E.a * (p2.phi - p1.phi) * hypotq(lam, dps) / dps, 1e-30Q);
      chk("sphere.S12", iv.S12, E.a * E.a * lam * logq(p1.c / p2.c) / dps, 1e-30Q);
      chk("sphere.azi", iv.azi12, atan2q(lam, dps) / deg(), 1e-31Q);
    }
    // 8. ellipsoid area against the textbook formula 2 pi a^2 + pi b^2/e * log((1+e)/(1-e)) (oblate)
    if (ef.f > 0) chk((std::string("area.textbook ") + tag).c_str(), E.area(), 2 * M_PIq * E.a * E.a + M_PIq * E.b * E.b / E.ae * logq((1 + E.ae) / (1 - E.ae)), 1e-30Q);
    // 9. tiny interval: the derivative branch and the quadrature branch agree across the switch-over
    { Lat p1(30.0), pa(Q(30) * deg() + Q(0.9e-16Q), 0), pb(Q(30) * deg() + Q(1.1e-16Q), 0);
      Seg ga = segment(E, p1, pa), gb = segment(E, p1, pb);
      chk((std::string("tiny.dmdpsi ") + tag).c_str(), ga.dmdpsi, gb.dmdpsi, 1e-15Q);
      chk((std::string("tiny.meanA ") + tag).c_str(), ga.meanA, gb.meanA, 1e-15Q); }
    // 10. direct past the pole: symmetric continuation, and the inverse meridian solve
    { Q Qm = E.quarter();
      Dir d = direct(E, 30, 0, (double)(2 * Qm));     // half-way round the meridian ellipse: lat -> -30 ... on the far side: reflected
      if (!d.pastpole) { printf("FAIL pastpole flag %s\n", tag); ++bad; }
      chk((std::string("pastpole.lat ") + tag).c_str(), d.lat2, Q(-30), 0, 1e-8Q);
      Dir d4 = direct(E, 30, 0, (double)(4 * Qm));
      chk((std::string("fullcircle.lat ") + tag).c_str(), d4.lat2, Q(30), 0, 1e-8Q); }
  }
  // 11. longitude difference: ties and reduction
  { bool tie; Q d;
    d = lon_diff(0, -180, tie); if (!(tie && d == 180)) { printf("FAIL tie -180\n"); ++bad; }
    d = lon_diff(10, -170, tie); if (!(tie && d == 180)) { printf("FAIL tie 10,-170\n"); ++bad; }
    d = lon_diff(100, 281, tie); if (!(!tie && d == -179)) { printf("FAIL 181\n"); ++bad; }
    d = lon_diff(0, 1e-9, tie); if (!(!tie && d == Q(1e-9))) { printf("FAIL small\n"); ++bad; } }
  printf("rhumb oracle selftest: %s\n", bad ? "FAILED" : "ok");
  return bad ? 1 : 0;
}
