// oracle/selftest.cpp -- run by `bin/check --setup`: every oracle checks itself against a second formulation.
// Does not touch /repo.  Each oracle contributes one header with a function returning the number of failures.
#include <cstdio>
#include "oracle/geod_ode_selftest.hpp"
int main() {
  int bad = 0;
  bad += geod_ode::selftest();
  printf("oracle selftest: %s\n", bad ? "FAILED" : "ok");
  return bad ? 1 : 0;
}
