// oracle/tm_ode.hpp -- independent reference for the transverse Mercator (Gauss-Krueger) projection.
//
// Definition used.  With psi the isometric latitude and lambda the longitude from the central meridian,
// w = psi + i lambda is an isothermal coordinate on the ellipsoid (ds^2 = (nu cos phi)^2 |dw|^2).  The
// Gauss-Krueger map is THE analytic function z(w) = xi + i eta (northing + i easting, for k0 = 1) that
// reduces on the central meridian (w real) to the meridian distance M(phi(psi)).  So z(w) is the analytic
// continuation of M o phi, and it satisfies the autonomous system
//        dphi/dw = (1 - e^2 sin^2 phi) cos phi / (1 - e^2),      dz/dw = a cos phi / sqrt(1 - e^2 sin^2 phi)
// which is integrated here along a polyline in the w plane starting on the real axis, where phi is the (real)
// latitude and z = M(phi) is obtained from the defining integral by Gauss-Legendre quadrature.
//   scale        k     = |dz/dw| / (nu cos phi)      (nu cos phi = radius of the parallel of the end point)
//   convergence  gamma = -arg(dz/dw)                  (bearing of grid north, clockwise from true north)
// Nothing of Krueger's series (alpha/beta tables, Clenshaw sums), of the conformal-latitude (tau') maps or of
// Lee's elliptic-function formulation is used.
//
// State and integrator.  To make the right-hand side rational (no complex trigonometric functions, no complex
// square-root branch to choose) the state is (S, C, s, z) = (sin phi, cos phi, sqrt(1 - e^2 sin^2 phi), z/a):
//        S' = C Q,   C' = -S Q,   s' = -e^2 S S'/s,   z' = C/s,     Q = s^2 C/(1 - e^2)  ( = phi')
// s is continued analytically along the path (it is NOT re-evaluated with a principal square root).
// Taylor-series method of order N: the coefficients follow from Cauchy products; the step is chosen from the
// size of the last two coefficients so that the truncation error is below `tol` relative; the step shrinks
// automatically near the singularities of the map (the branch point psi = 0, lambda = (1-e) 90d, where
// phi -> i inf).  If more than `maxsteps` steps would be needed the result is flagged !ok.
// Invariants S^2 + C^2 = 1 and s^2 = 1 - e^2 S^2 are evaluated at the end point (field `inv`).
//
// Paths (lambda >= 0, the other signs follow from the parities which the *caller* applies or checks):
//   standard  psi -> psi + i lambda                      straight up from the central meridian.  For psi > 0
//             and lambda beyond the branch point this passes on the pole side of the branch point, which is
//             the "standard" convention of TransverseMercatorExact (cut along the equator beyond the branch
//             point); it continues analytically through lambda = 90d to the far side (xi > quarter meridian).
//   via-north psi0 -> psi0 + i lambda -> psi + i lambda  (psi0 > 0, psi <= 0): reaches southern latitudes by
//             crossing the equator EAST of the branch point: the `extendp = true' convention of
//             TransverseMercatorExact for lat <= 0, lambda in [(1-e) 90d, 90d].
//
// Types: T = long double (bulk) or __float128 (self checks).  a is taken as 1; multiply by a (and k0).
#pragma once
#include <cmath>
#include <quadmath.h>
#include <vector>

namespace tm_ode {

typedef long double ld;
typedef __float128 f128;

namespace fn {
inline ld Sqrt(ld x) { return sqrtl(x); }       inline f128 Sqrt(f128 x) { return sqrtq(x); }
inline ld Sin(ld x) { return sinl(x); }         inline f128 Sin(f128 x) { return sinq(x); }
inline ld Cos(ld x) { return cosl(x); }         inline f128 Cos(f128 x) { return cosq(x); }
inline ld Tan(ld x) { return tanl(x); }         inline f128 Tan(f128 x) { return tanq(x); }
inline ld Atan(ld x) { return atanl(x); }       inline f128 Atan(f128 x) { return atanq(x); }
inline ld Atan2(ld y, ld x) { return atan2l(y, x); } inline f128 Atan2(f128 y, f128 x) { return atan2q(y, x); }
inline ld Atanh(ld x) { return atanhl(x); }     inline f128 Atanh(f128 x) { return atanhq(x); }
inline ld Asinh(ld x) { return asinhl(x); }     inline f128 Asinh(f128 x) { return asinhq(x); }
inline ld Log(ld x) { return logl(x); }         inline f128 Log(f128 x) { return logq(x); }
inline ld Exp(ld x) { return expl(x); }         inline f128 Exp(f128 x) { return expq(x); }
inline ld Fabs(ld x) { return fabsl(x); }       inline f128 Fabs(f128 x) { return fabsq(x); }
inline ld Hypot(ld x, ld y) { return hypotl(x, y); } inline f128 Hypot(f128 x, f128 y) { return hypotq(x, y); }
inline ld Pow(ld x, ld y) { return powl(x, y); } inline f128 Pow(f128 x, f128 y) { return powq(x, y); }
inline ld Pi(ld) { return 3.141592653589793238462643383279502884L; }
inline f128 Pi(f128) { return M_PIq; }
inline ld Eps(ld) { return 1.0842021724855044e-19L; }
inline f128 Eps(f128) { return FLT128_EPSILON; }
}  // namespace fn

template <class T> inline T pi() { return fn::Pi(T(0)); }
template <class T> inline T deg() { return fn::Pi(T(0)) / T(180); }

// sin and cos of an angle given in degrees as a double; exact reduction, exact values at multiples of 90
template <class T> inline void sincosd(double x, T& s, T& c) {
  int q = 0;
  double r = std::remquo(x, 90.0, &q);       // exact
  T rr = T(r) * deg<T>();
  T s1 = r == 0 ? T(0) : fn::Sin(rr), c1 = r == 0 ? T(1) : fn::Cos(rr);
  switch (unsigned(q) & 3u) {
  case 0u: s = s1; c = c1; break;
  case 1u: s = c1; c = -s1; break;
  case 2u: s = -s1; c = -c1; break;
  default: s = -c1; c = s1; break;
  }
  if (s == 0) s = T(0);
  if (c == 0) c = T(0);
}

// ------------------------------------------------------------------ Gauss-Legendre nodes on [-1,1]
template <class T> inline void gauss_legendre(int n, T* x, T* w) {
  for (int i = 0; i < n; ++i) {
    T z = fn::Cos(pi<T>() * (T(i) + T(0.75)) / (T(n) + T(0.5)));
    T pp = 0;
    for (int it = 0; it < 100; ++it) {
      T p1 = 1, p2 = 0;
      for (int j = 0; j < n; ++j) { T p3 = p2; p2 = p1; p1 = ((T(2 * j + 1)) * z * p2 - T(j) * p3) / T(j + 1); }
      pp = T(n) * (z * p1 - p2) / (z * z - 1);
      T dz = p1 / pp; z -= dz;
      if (fn::Fabs(dz) < 4 * fn::Eps(T(0))) break;
    }
    // recompute pp at the converged node
    T p1 = 1, p2 = 0;
    for (int j = 0; j < n; ++j) { T p3 = p2; p2 = p1; p1 = ((T(2 * j + 1)) * z * p2 - T(j) * p3) / T(j + 1); }
    pp = T(n) * (z * p1 - p2) / (z * z - 1);
    x[i] = z; w[i] = 2 / ((1 - z * z) * pp * pp);
  }
}
template <class T> struct GL {
  enum { N = 32 };
  T x[N], w[N];
  GL() { gauss_legendre<T>(N, x, w); }
  static const GL& get() { static const GL g; return g; }
};

// integral of f over [lo, hi] with `panels` equal panels of 32-point Gauss-Legendre
template <class T, class F> inline T integrate(F f, T lo, T hi, int panels) {
  const GL<T>& g = GL<T>::get();
  T sum = 0, h = (hi - lo) / T(panels);
  for (int p = 0; p < panels; ++p) {
    T c = lo + (T(p) + T(0.5)) * h, acc = 0;
    for (int i = 0; i < GL<T>::N; ++i) acc += g.w[i] * f(c + g.x[i] * h / 2);
    sum += acc * h / 2;
  }
  return sum;
}

// ------------------------------------------------------------------ meridian quantities (a = 1), e2 may be < 0
// meridian distance from the equator to latitude phi (radians, |phi| <= pi/2): the defining integral
//   M = (1-e^2) Int_0^phi (1 - e^2 sin^2 t)^(-3/2) dt
template <class T> inline T meridian_distance(T e2, T phi, int panels = 8) {
  return (1 - e2) * integrate<T>([&](T t) { T s = fn::Sin(t); T u = 1 - e2 * s * s; return 1 / (u * fn::Sqrt(u)); }, T(0), phi, panels);
}
template <class T> inline T quarter_meridian(T e2, int panels = 8) { return meridian_distance<T>(e2, pi<T>() / 2, panels); }

// isometric latitude from sin, cos of the latitude:  psi = asinh(tan phi) - e atanh(e sin phi)
template <class T> inline T isometric(T e2, T sphi, T cphi) {
  T t = fn::Asinh(sphi / cphi);
  if (e2 > 0) { T e = fn::Sqrt(e2); return t - e * fn::Atanh(e * sphi); }
  if (e2 < 0) { T e = fn::Sqrt(-e2); return t + e * fn::Atan(e * sphi); }
  return t;
}

// the branch point of the projection on the equator, (1 - e) * 90 degrees (oblate only), in degrees
template <class T> inline T branch_lon_deg(T e2) { return e2 > 0 ? (1 - fn::Sqrt(e2)) * 90 : T(90); }

// Easting of the branch point / a:  K(m') - E(m'), m' = 1 - e^2, = Int_0^{pi/2} m' sin^2 t / sqrt(1 - m' sin^2 t) dt
// written with t -> pi/2 - t so that the near-singular end is at 0, and integrated on geometrically graded panels.
template <class T> inline T branch_easting(T e2) {
  T mp = 1 - e2, sum = 0, hi = pi<T>() / 2;
  auto f = [&](T t) { T c = fn::Cos(t), s = fn::Sin(t); return mp * c * c / fn::Sqrt(e2 * c * c + s * s); };   // 1 - m' cos^2 = s^2 + e^2 c^2
  for (int lev = 0; lev < 40; ++lev) { T lo = hi / 2; sum += integrate<T>(f, lo, hi, 2); hi = lo; }
  sum += integrate<T>(f, T(0), hi, 2);
  return sum;
}

// ------------------------------------------------------------------ tiny complex type
template <class T> struct Cx {
  T re, im;
  Cx(T r = 0, T i = 0) : re(r), im(i) {}
};
template <class T> inline Cx<T> operator+(Cx<T> a, Cx<T> b) { return Cx<T>(a.re + b.re, a.im + b.im); }
template <class T> inline Cx<T> operator-(Cx<T> a, Cx<T> b) { return Cx<T>(a.re - b.re, a.im - b.im); }
template <class T> inline Cx<T> operator-(Cx<T> a) { return Cx<T>(-a.re, -a.im); }
template <class T> inline Cx<T> operator*(Cx<T> a, Cx<T> b) { return Cx<T>(a.re * b.re - a.im * b.im, a.re * b.im + a.im * b.re); }
template <class T> inline Cx<T> operator*(Cx<T> a, T b) { return Cx<T>(a.re * b, a.im * b); }
template <class T> inline Cx<T> operator/(Cx<T> a, T b) { return Cx<T>(a.re / b, a.im / b); }
template <class T> inline T norm2(Cx<T> a) { return a.re * a.re + a.im * a.im; }
template <class T> inline T cabs(Cx<T> a) { return fn::Hypot(a.re, a.im); }
template <class T> inline Cx<T> operator/(Cx<T> a, Cx<T> b) {
  // Smith's algorithm
  if (fn::Fabs(b.re) >= fn::Fabs(b.im)) { T r = b.im / b.re, d = b.re + b.im * r; return Cx<T>((a.re + a.im * r) / d, (a.im - a.re * r) / d); }
  T r = b.re / b.im, d = b.re * r + b.im; return Cx<T>((a.re * r + a.im) / d, (a.im * r - a.re) / d);
}

// ------------------------------------------------------------------ Taylor integrator
struct Options {
  int order = 28;            // Taylor order N
  double tol = 1e-20;        // relative size allowed for the last retained term
  int maxsteps = 3000;
};

template <class T> struct State { Cx<T> S, C, s, z; };

template <class T> struct Integrator {
  T e2; Options opt; int steps = 0; bool ok = true;
  std::vector<Cx<T>> S, C, s, z, P, Q, G, W, H, V, U;
  Integrator(T e2_, const Options& o) : e2(e2_), opt(o) {
    int n = o.order + 2;
    S.resize(n); C.resize(n); s.resize(n); z.resize(n); P.resize(n); Q.resize(n); G.resize(n); W.resize(n); H.resize(n); V.resize(n); U.resize(n);
  }
  static Cx<T> conv(const std::vector<Cx<T>>& a, const std::vector<Cx<T>>& b, int k) {
    Cx<T> r; for (int j = 0; j <= k; ++j) r = r + a[j] * b[k - j]; return r;
  }
  // Taylor coefficients (in w - w0) of the solution through st, up to order N
  void coeffs(const State<T>& st) {
    const int N = opt.order; const T e2m = 1 - e2;
    S[0] = st.S; C[0] = st.C; s[0] = st.s; z[0] = st.z;
    for (int k = 0; k < N; ++k) {
      P[k] = conv(s, s, k);                                   // s^2
      Q[k] = conv(P, C, k) / e2m;                             // phi'
      G[k] = conv(C, Q, k);                                   // S'
      W[k] = conv(S, Q, k);                                   // -C'
      H[k] = conv(S, G, k);                                   // S S'
      { Cx<T> acc = H[k]; for (int j = 1; j <= k; ++j) acc = acc - s[j] * V[k - j]; V[k] = acc / s[0]; }   // S S'/s
      { Cx<T> acc = C[k]; for (int j = 1; j <= k; ++j) acc = acc - s[j] * U[k - j]; U[k] = acc / s[0]; }   // C/s
      T kk = T(k + 1);
      S[k + 1] = G[k] / kk; C[k + 1] = -W[k] / kk; s[k + 1] = V[k] * (-e2) / kk; z[k + 1] = U[k] / kk;
    }
  }
  static Cx<T> horner(const std::vector<Cx<T>>& c, int N, Cx<T> d) { Cx<T> r = c[N]; for (int k = N - 1; k >= 0; --k) r = r * d + c[k]; return r; }
  T stepsize() const {
    const int N = opt.order; T h = T(1e30);
    auto lim = [&](const std::vector<Cx<T>>& c, T floor_) {
      T sc = cabs(c[0]); if (sc < floor_) sc = floor_;
      for (int n = N - 1; n <= N; ++n) {
        T m = cabs(c[n]); if (!(m > 0)) continue;
        T hh = fn::Exp(fn::Log(T(opt.tol) * sc / m) / T(n));
        if (hh < h) h = hh;
      }
    };
    lim(S, T(1e-3)); lim(C, T(0)); lim(s, T(1e-3)); lim(z, T(1e-3));
    return h;
  }
  // advance along the straight segment of complex length dw
  void segment(State<T>& st, Cx<T> dw) {
    T len = cabs(dw); if (!(len > 0)) return;
    Cx<T> dir = dw / len; T done = 0;
    while (done < len) {
      if (++steps > opt.maxsteps) { ok = false; return; }
      coeffs(st);
      T h = stepsize();
      if (!(h > 0) || !(h == h)) { ok = false; return; }
      if (h < len * T(1e-12)) { ok = false; return; }
      bool last = false;
      if (done + h >= len) { h = len - done; last = true; }
      else if (done + T(1.5) * h >= len) h = (len - done) / 2;       // avoid a tiny last step
      Cx<T> d = dir * h;
      const int N = opt.order;
      State<T> nx; nx.S = horner(S, N, d); nx.C = horner(C, N, d); nx.s = horner(s, N, d); nx.z = horner(z, N, d);
      st = nx; done = last ? len : done + h;
    }
  }
};

template <class T> struct Result {
  bool ok = false;
  T xi = 0, eta = 0;        // northing, easting for a = 1, k0 = 1
  T gamma_deg = 0, k = 0;   // convergence (degrees, in (-180,180]), scale for k0 = 1
  T inv = 0;                // max violation of the invariants at the end point
  T absS = 0;               // |sin phi| at the end point (phi complex): d log(dz/dw)/dw = -sin phi, the sensitivity of
                            // convergence (radians) and of log(scale) to a displacement dw = ds/(nu cos phi)
  int steps = 0;
};

enum Path { STANDARD = 0, VIA_NORTH = 1 };

// Forward map for latitude lat (degrees, |lat| < 90) and longitude offset dlon (degrees, >= 0).
// VIA_NORTH: start latitude lat0_deg > 0 (default 30) on the central meridian, up to lambda, then west/south to psi(lat).
template <class T> inline Result<T> forward(T e2, double lat, double dlon, const Options& opt = Options(), Path path = STANDARD, double lat0_deg = 30) {
  Result<T> r;
  if (!(std::fabs(lat) < 90) || !(dlon >= 0)) return r;
  T sphi, cphi; sincosd<T>(lat, sphi, cphi);
  if (std::fabs(lat) > 45) { T s2, c2; sincosd<T>(lat > 0 ? 90 - lat : -90 - lat, s2, c2); cphi = fn::Fabs(s2); }    // cos via the co-latitude (exact subtraction)
  T lam = T(dlon) * deg<T>();
  Integrator<T> in(e2, opt);
  State<T> st;
  if (path == STANDARD) {
    T phi = T(lat) * deg<T>();
    st.S = Cx<T>(sphi); st.C = Cx<T>(cphi); st.s = Cx<T>(fn::Sqrt(1 - e2 * sphi * sphi));
    st.z = Cx<T>(meridian_distance<T>(e2, phi));
    in.segment(st, Cx<T>(0, lam));
  } else {
    T s0, c0; sincosd<T>(lat0_deg, s0, c0);
    st.S = Cx<T>(s0); st.C = Cx<T>(c0); st.s = Cx<T>(fn::Sqrt(1 - e2 * s0 * s0));
    st.z = Cx<T>(meridian_distance<T>(e2, T(lat0_deg) * deg<T>()));
    in.segment(st, Cx<T>(0, lam));
    T dpsi = isometric<T>(e2, sphi, cphi) - isometric<T>(e2, s0, c0);
    if (in.ok) in.segment(st, Cx<T>(dpsi, 0));
  }
  r.steps = in.steps; r.ok = in.ok;
  if (!r.ok) return r;
  r.xi = st.z.re; r.eta = st.z.im;
  Cx<T> dz = st.C / st.s;                                       // dz/dw (a = 1)
  T srl = fn::Sqrt(1 - e2 * sphi * sphi);
  r.k = cabs(dz) * srl / cphi;
  r.gamma_deg = -fn::Atan2(dz.im, dz.re) / deg<T>();
  r.absS = cabs(st.S);
  Cx<T> i1 = st.S * st.S + st.C * st.C - Cx<T>(1), i2 = st.s * st.s - (Cx<T>(1) - st.S * st.S * e2);
  T sc1 = norm2(st.S) + norm2(st.C), sc2 = norm2(st.s) + fn::Fabs(e2) * norm2(st.S) + 1;
  T a1 = cabs(i1) / sc1, a2 = cabs(i2) / sc2;
  r.inv = a1 > a2 ? a1 : a2;
  return r;
}

// Sphere (e2 = 0) closed form, for the self test and as a second reference at f = 0:
//   xi = atan2(tan phi, cos lam), eta = atanh(cos phi sin lam), gamma = atan(tan lam sin phi), k = 1/sqrt(1 - (cos phi sin lam)^2)
template <class T> inline Result<T> sphere(double lat, double dlon) {
  Result<T> r; T sp, cp, sl, cl; sincosd<T>(lat, sp, cp); sincosd<T>(dlon, sl, cl);
  if (std::fabs(lat) > 45) { T s2, c2; sincosd<T>(lat > 0 ? 90 - lat : -90 - lat, s2, c2); cp = fn::Fabs(s2); }
  // 1 - (cos phi sin lam)^2 = sin^2 phi + cos^2 phi cos^2 lam  (no cancellation near the singular point phi = 0, lam = 90)
  T den = fn::Sqrt(sp * sp + cp * cp * cl * cl);
  r.ok = true; r.xi = fn::Atan2(sp, cp * cl); r.eta = fn::Asinh(cp * sl / den);
  r.gamma_deg = fn::Atan2(sp * sl, cl) / deg<T>(); r.k = 1 / den;
  // |sin phi(w)| = |tanh(psi + i lam)| = sqrt((sinh^2 psi + sin^2 lam)/(sinh^2 psi + cos^2 lam)), sinh psi = tan phi
  { T n = sp * sp + sl * sl * cp * cp, d = sp * sp + cl * cl * cp * cp; r.absS = d > 0 ? fn::Sqrt(n / d) : T(1e30); }
  return r;
}

}  // namespace tm_ode
