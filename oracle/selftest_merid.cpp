// oracle/selftest_merid.cpp -- stand-alone self-test of oracle/merid.hpp (run by `bin/check --setup`).
// Every quantity is compared with a second formulation:
//   meridian arc in geographic latitude  vs  arc in parametric latitude, int sqrt(a^2 sin^2 b + b^2 cos^2 b) db
//   quarter meridian  vs  pi a/2 (sphere),  Bessel's series in n (WGS84),  a E(e) by the ellf oracle
//   isometric latitude closed form  vs  its defining integral
//   authalic latitude by zone-area quadrature  vs  the classical closed form q(phi)/q(pi/2)
//   ellipsoid area by quadrature  vs  the classical closed forms (oblate log form, prolate asin form)
//   inverse conversions: to_aux(from_aux(x)) = x over 60 orders of magnitude
// Does not touch /repo.  Exit status 0 = ok.
#include "oracle/merid.hpp"
#include "oracle/ellf.hpp"
#include <cstdio>

using merid::Q;
static int bad = 0; static double worst = 0;
static void cmp(const char* what, Q got, Q want, double tol) {
  double e = (double)(fabsq(got - want) / (fabsq(want) > 0 ? fabsq(want) : 1));
  if (e > worst) worst = e;
  if (!(e <= tol)) { ++bad; printf("FAIL %s: got %s want %s rel %.3g > %.3g\n", what, q128::str(got).c_str(), q128::str(want).c_str(), e, tol); }
}

int main() {
  char nm[200];
  const double a = 6378137;
  const double ba[] = {0.01, 0.5, 1 - 1 / 150.0, 1 - 1 / 298.257223563, 1, 1 + 1 / 150.0, 2, 100};
  for (double r : ba) {
    double f = 1 - r;
    merid::Ell E = merid::ell(a, f);
    // area
    snprintf(nm, sizeof nm, "area b/a=%g", r); cmp(nm, merid::area(E), merid::area_closed_form(E), 1e-26);
    // quarter meridian vs a E(e) (oblate) or b E(e_b) (prolate), ellf quadrature in the parametric latitude
    {
      Q M2;
      if (E.e2 >= 0) { ellf::Mod m; m.k2 = E.e2; m.kp2 = E.e2m; m.a2 = 0; m.ap2 = 1; M2 = E.a * ellf::complete(ellf::kE, m); }
      else { ellf::Mod m; m.k2 = 1 - E.a * E.a / (E.b * E.b); m.kp2 = E.a * E.a / (E.b * E.b); m.a2 = 0; m.ap2 = 1; M2 = E.b * ellf::complete(ellf::kE, m); }
      snprintf(nm, sizeof nm, "quarter meridian b/a=%g", r); cmp(nm, E.M, M2, 1e-27);
    }
    for (double t : {1e-300, 1e-20, 1e-3, 0.57735026918962573, 1.0, 57295.779, 1e20}) {
      Q T = t;
      // arc in parametric latitude
      Q tb = E.fm1 * T, beta = atanq(tb);
      Q m2 = q128::integrate([&](Q x) { Q s, c; sincosq(x, &s, &c); return sqrtq(E.a * E.a * s * s + E.b * E.b * c * c); }, 0, beta);
      snprintf(nm, sizeof nm, "meridian distance b/a=%g t=%g", r, t); cmp(nm, merid::meridian_distance(E, T), m2, 1e-26);
      // isometric latitude: defining integral (only where cos stays away from 0 in the quadrature variable: t <= 1e5)
      if (t <= 1e5) {
        Q psi2 = q128::integrate([&](Q x) { Q s, c; sincosq(x, &s, &c); return E.e2m / (merid::w_from_sin(E, s, c) * c); }, 0, atanq(T));
        snprintf(nm, sizeof nm, "isometric b/a=%g t=%g", r, t); cmp(nm, merid::psi_iso(E, T), psi2, t > 1e4 ? 1e-22 : 1e-25);
      }
      // authalic closed form (moderate latitudes: the closed form cancels near the pole)
      if (t <= 1.0 && E.e2 != 0) {
        auto q = [&](Q s) { Q e = sqrtq(fabsq(E.e2)); return E.e2m * (s / (1 - E.e2 * s * s) + (E.e2 > 0 ? atanhq(e * s) : atanq(e * s)) / e); };
        Q s = T / hypotq(1, T), sxi = q(s) / q(1), txi = sxi / sqrtq((1 - sxi) * (1 + sxi));
        snprintf(nm, sizeof nm, "authalic b/a=%g t=%g", r, t); cmp(nm, merid::to_aux(E, merid::XI, T), txi, 1e-24);
      }
      // inverse round trip
      for (int aux = 1; aux < 6; ++aux) {
        Q back = merid::to_aux(E, aux, merid::from_aux(E, aux, T));
        snprintf(nm, sizeof nm, "roundtrip aux=%d b/a=%g t=%g", aux, r, t); cmp(nm, back, T, 1e-28);
      }
      // oddness
      cmp("odd", merid::convert(E, merid::MU, merid::XI, -T), -merid::convert(E, merid::MU, merid::XI, T), 0);
    }
    // pole-side consistency: mu and xi computed from both sides at t = 1 (tan_mu switches at 1, tan_xi at sin = .75)
    {
      Q hp = q128::pi() / 2;
      cmp("mu both sides", hp * merid::arc_from_equator(E, atanq((Q)1)) / E.M, hp - hp * merid::arc_to_pole(E, atanq((Q)1)) / E.M, 1e-28);
      cmp("xi both sides", merid::zoneA(E, 0.75Q), E.A1 - merid::zoneC(E, 0.25Q), 1e-28);
    }
  }
  {
    merid::Ell S = merid::ell(a, 0);
    cmp("sphere quarter meridian", S.M, q128::pi() * a / 2, 1e-30);
    cmp("sphere mu", merid::to_aux(S, merid::MU, 0.3Q), 0.3Q, 1e-29);
    cmp("sphere xi", merid::to_aux(S, merid::XI, 1e20Q), 1e20Q, 1e-29);
    merid::Ell W = merid::ell(a, 1 / 298.257223563);
    Q n = W.f / (2 - W.f), n2 = n * n;
    cmp("Bessel series", W.M, q128::pi() / 2 * (W.a + W.b) / 2 * (1 + n2 / 4 + n2 * n2 / 64 + n2 * n2 * n2 / 256 + 25 * n2 * n2 * n2 * n2 / 16384), 1e-29);
    cmp("volume", merid::volume(W), 4 * q128::pi() / 3 * W.a * W.a * W.b, 1e-33);
  }
  {
    Q s, c;
    merid::sincosd(90, s, c); if (s != 1 || c != 0) { ++bad; printf("FAIL sincosd 90\n"); }
    merid::sincosd(-180, s, c); if (s != 0 || c != -1) { ++bad; printf("FAIL sincosd -180\n"); }
    merid::sincosd(30, s, c); cmp("sind 30", s, 0.5Q, 1e-33);
    merid::sincosd(720.5, s, c); cmp("cosd 720.5", c, cosq(q128::pi() / 360), 1e-33);
    cmp("tand 45", merid::tand(45), 1, 1e-33);
  }
  printf("oracle selftest merid: %s (worst relative difference %.3g, %d failures)\n", bad ? "FAILED" : "ok", worst, bad);
  return bad ? 1 : 0;
}
