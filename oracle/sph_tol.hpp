// oracle/sph_tol.hpp -- the tolerance schedule of property C19 (DESIGN Appendix B, spherical-harmonic sums) and the
// comparison of a library result with a reference sum of oracle/sph_sum.hpp.  Shared by props/C19.cpp and
// props/C19_models.cpp.
#pragma once
#include "oracle/sph_sum.hpp"
#include <limits>
#include <cstdlib>
#include <string>
namespace sphtol {
using sph::Q;
static const double EPS = std::numeric_limits<double>::epsilon();
static const double EPS15 = EPS * std::sqrt(EPS);
// Tolerance factor K(N) = 64 + N^2/16 (N = highest degree present).  64: DESIGN Appendix B.  The N^2 term is "calibrated then
// frozen" (worst observed on the unchanged tree, in units of eps*sum|terms|: 7 at N <= 6, 67 at N = 60, 471 at N = 200, 1842 at
// N = 360, always on or next to the polar axis; 4 x 1842 = 7368 < K(360) = 8164).  The growth is the conditioning of P_n(t)
// at t = +-1 (d log P_n/dt = n(n+1)/2): the recurrences are driven by t = z/r, every rounding of t * (..) acts like a
// perturbation of t.
inline double KTOL_of(int nmax) { return 64 + double(nmax) * nmax / 16; }
inline double Kof(const sph::Sum& s) { return KTOL_of(s.nmax); }
// tolerances of a value / of a gradient component; extra = additional absolute allowance (e.g. position rounding)
inline Q tol_v(const sph::Sum& s, Q extra = 0) { return Q(Kof(s) * EPS) * s.sv + Q(EPS15) * s.ssup + extra; }
inline Q tol_g(const sph::Sum& s, Q extra = 0) { return Q(Kof(s) * EPS) * s.sg + Q(EPS15) * s.ssupg + extra; }

// ---------------------------------------------------------------- comparison
struct Ratio { double r; double in_eps; };
// error / tolerance of a value; extra = additional absolute allowance (position rounding)
inline Ratio rat_v(double got, const sph::Sum& s, Q extra = 0) {
  Q err = sph::qabs(Q(got) - s.v), tol = tol_v(s, extra);
  Ratio r;
  r.r = tol > 0 ? double(err / tol) : (err == 0 ? 0.0 : INFINITY);
  r.in_eps = Q(Kof(s) * EPS) * s.sv > 16 * (Q(EPS15) * s.ssup + extra) ? double(err / (Q(EPS) * s.sv)) : 0;   // only where the floor is negligible
  if (!(got == got)) r.r = INFINITY;
  return r;
}
inline Ratio rat_g(const double got[3], const sph::Sum& s, Q extra = 0) {
  Q tol = tol_g(s, extra);
  Ratio r{0, 0};
  for (int i = 0; i < 3; ++i) {
    Q err = sph::qabs(Q(got[i]) - s.g[i]);
    double x = tol > 0 ? double(err / tol) : (err == 0 ? 0.0 : INFINITY);
    if (!(got[i] == got[i])) x = INFINITY;
    if (x > r.r) r.r = x;
    double y = Q(Kof(s) * EPS) * s.sg > 16 * (Q(EPS15) * s.ssupg + extra) ? double(err / (Q(EPS) * s.sg)) : 0;
    if (y > r.in_eps) r.in_eps = y;
  }
  return r;
}
inline std::string dfmt(double x) { char b[64]; snprintf(b, sizeof b, "%.17g", x); return b; }
inline std::string q3(const Q g[3]) { return "(" + sph::qstr(g[0], 20) + "," + sph::qstr(g[1], 20) + "," + sph::qstr(g[2], 20) + ")"; }
inline std::string d3(const double g[3]) { return "(" + dfmt(g[0]) + "," + dfmt(g[1]) + "," + dfmt(g[2]) + ")"; }

}  // namespace sphtol
