// oracle/proj_cf.hpp -- textbook closed forms (J. P. Snyder, Map Projections: A Working Manual, USGS PP 1395, 1987) of
//   * polar stereographic                    (eqs 21-33, 21-34, 21-32; k0 at the pole)
//   * Lambert conformal conic, ellipsoid     (eqs 15-7 ... 15-11, 14-15, 15-9a), 1 or 2 standard parallels,
//       with the Mercator limit n = 0 (eqs 7-6 ... 7-8) and the polar limit |n| = 1 (= polar stereographic)
//   * Albers equal-area conic, ellipsoid     (eqs 14-12 ... 14-15, 3-12), 1 or 2 standard parallels, with the
//       cylindrical limit n = 0 (Lambert cylindrical equal area, eqs 10-?? ellipsoid: x = a k' lam, y = a q/(2 k'))
//       and the azimuthal limit |n| = 1 (Lambert azimuthal equal area, polar aspect, eq 24-23)
// evaluated naively -- plain differences of logarithms etc. -- in __float128 (113 bits), which leaves > 20 digits
// after the cancellations that the library's divided-difference code is designed to avoid in double.
// Nothing of the library's formulation (tan(chi)/tan(xi) variables, Dasinh/Dexp/Dsn..., Newton inversions) is used.
//
// Conventions (the library's, which are Snyder's): lam = longitude from the central meridian, theta = n lam,
//   x = rho sin theta,  y = rho0 - rho cos theta,  gamma = theta (convergence),  k = rho n / (a m).
// The origin latitude phi0 (where y = 0 on the central meridian) is
//   LCC    the latitude of tangency / of minimum scale:              sin phi0 = n
//   Albers the latitude of minimum azimuthal scale k:                (C - n q(phi0)) sin phi0 = n m(phi0)^2
// (both are what the class documentation states; for one standard parallel phi0 = that parallel).
// A scale k1 on the standard parallel(s) multiplies rho (LCC); for Albers the azimuthal scale k1 multiplies theta
// by k1^2 and divides rho by k1, i.e. (n, C) -> (k1^2 n, k1^2 C), so that areas are still preserved.
// Prolate ellipsoids (e^2 < 0): e atanh(e x) -> -|e| atan(|e| x)  ("atan forms").
//
// Rotation and magnification of the *oracle* map are obtained by central differences of the closed-form map in
// __float128 (step 2^-30 rad; truncation error ~1e-18 relative, round-off ~1e-25), not from Snyder's k formulas.
#pragma once
#include <cmath>
#include <quadmath.h>

namespace proj_cf {

typedef __float128 Q;

inline Q pi() { return M_PIq; }
inline Q deg() { return M_PIq / 180; }
inline Q sq(Q x) { return x * x; }

// exact-reduction sin/cos of degrees given as a double
inline void sincosd(double x, Q& s, Q& c) {
  int q = 0; double r = std::remquo(x, 90.0, &q);
  Q rr = Q(r) * deg(), s1 = r == 0 ? Q(0) : sinq(rr), c1 = r == 0 ? Q(1) : cosq(rr);
  switch (unsigned(q) & 3u) { case 0u: s = s1; c = c1; break; case 1u: s = c1; c = -s1; break; case 2u: s = -s1; c = -c1; break; default: s = -c1; c = s1; }
  if (s == 0) s = 0; if (c == 0) c = 0;
}

struct Ell {
  Q a, f, e2;
  Ell(double a_, double f_) : a(a_), f(f_) { e2 = f * (2 - f); }
  // e atanh(e x), in the form valid for the sign of e^2
  Q eatanhe(Q x) const {
    if (e2 > 0) { Q e = sqrtq(e2); return e * atanhq(e * x); }
    if (e2 < 0) { Q e = sqrtq(-e2); return -e * atanq(e * x); }
    return 0;
  }
  // atanh(e x)/e  ( -> x as e -> 0 )
  Q atanhee(Q x) const {
    if (e2 > 0) { Q e = sqrtq(e2); return atanhq(e * x) / e; }
    if (e2 < 0) { Q e = sqrtq(-e2); return atanq(e * x) / e; }
    return x;
  }
  Q m(Q s, Q c) const { return c / sqrtq(1 - e2 * s * s); }                       // Snyder 14-15
  // Snyder 15-9a:  t = tan(pi/4 - phi/2) / [(1 - e sin)/(1 + e sin)]^(e/2)  = (cos/(1+sin)) exp(e atanh(e sin))
  Q t(Q s, Q c) const { Q tn = s >= 0 ? c / (1 + s) : (1 - s) / c; return tn * expq(eatanhe(s)); }
  Q psi(Q s, Q c) const { return -logq(t(s, c)); }                                 // isometric latitude
  Q lnt(Q s, Q c) const { return -psi(s, c); }
  // Snyder 3-12:  q = (1-e^2) [ sin/(1 - e^2 sin^2) - (1/2e) ln((1 - e sin)/(1 + e sin)) ]
  Q q(Q s) const { return (1 - e2) * (s / (1 - e2 * s * s) + atanhee(s)); }
  Q qp() const { return q(Q(1)); }
  Q Mrad(Q s) const { Q u = 1 - e2 * s * s; return a * (1 - e2) / (u * sqrtq(u)); }   // meridional radius of curvature
  Q Nrad(Q s) const { return a / sqrtq(1 - e2 * s * s); }                            // prime-vertical radius
};

struct XY { Q x, y; bool finite; };

// latitude as (sin, cos) with cos >= 0
struct Lat { Q s, c; };
inline Lat latd(double lat) {
  Lat L; sincosd(lat, L.s, L.c);
  if (std::fabs(lat) > 45) { Q s2, c2; sincosd(lat > 0 ? 90 - lat : -90 - lat, s2, c2); L.c = fabsq(s2); }   // cos from the exact co-latitude
  return L;
}
inline Lat latr(Q phi) { Lat L; L.s = sinq(phi); L.c = cosq(phi); if (L.c < 0) L.c = 0; return L; }

// ------------------------------------------------------------------ polar stereographic
struct PolarStereo {
  Ell E; Q k0; bool northp;
  PolarStereo(const Ell& E_, double k0_, bool northp_) : E(E_), k0(k0_), northp(northp_) {}
  // Snyder 21-33:  rho = 2 a k0 t / sqrt((1+e)^(1+e) (1-e)^(1-e));   the radical = sqrt(1-e^2) exp(e atanh e)
  Q rho(Lat L) const {
    Q s = northp ? L.s : -L.s;
    Q den = sqrtq(1 - E.e2) * expq(E.eatanhe(Q(1)));
    if (s == -1) return HUGE_VALQ;
    return 2 * E.a * k0 * E.t(s, L.c) / den;
  }
  XY fwd(Lat L, Q lam) const {
    Q r = rho(L); XY p; p.finite = finiteq(r);
    p.x = r * sinq(lam); p.y = (northp ? -r : r) * cosq(lam);
    return p;
  }
  Q k(Lat L) const { if (L.c == 0 && (northp ? L.s > 0 : L.s < 0)) return k0; return rho(L) / (E.a * E.m(L.s, L.c)); }    // 21-32
  Q gamma(Q lam) const { return northp ? lam : -lam; }
  // scale k at latitude L given: the k0 that produces it
  static Q k0_for(const Ell& E, Lat L, double k) { PolarStereo p(E, 1.0, true); return Q(k) / p.k(L); }
};

// ------------------------------------------------------------------ Lambert conformal conic
struct LCC {
  Ell E; Q n, F, rho0, phi0, k1; int kind;   // kind 0 conic, 1 Mercator (n == 0), 2 polar (|n| == 1)
  Q kmerc;                                   // Mercator: a k' = equatorial scale * a
  // standard parallels given as (sin, cos); k1 = scale on them
  LCC(const Ell& E_, Lat L1, Lat L2, double k1_) : E(E_), k1(k1_) {
    bool same = (L1.s == L2.s && L1.c == L2.c);
    Q m1 = E.m(L1.s, L1.c), m2 = E.m(L2.s, L2.c);
    if (same) n = L1.s;
    else n = (logq(m1) - logq(m2)) / (logq(E.t(L1.s, L1.c)) - logq(E.t(L2.s, L2.c)));          // 15-8
    if (same && L1.c == 0) { kind = 2; n = L1.s > 0 ? 1 : -1; phi0 = n * pi() / 2; rho0 = 0; F = 0; return; }
    if (n == 0 || (!same && L1.s == -L2.s)) {                                                   // symmetric pair or equator
      kind = 1; n = 0; phi0 = 0; kmerc = E.a * k1 * m1; rho0 = 0; F = 0; return;               // 7-6..7-8 with the scale k1 at +-phi1
    }
    kind = 0;
    F = m1 / (n * powq_(E.t(L1.s, L1.c), n));                                                   // 15-10
    phi0 = asinq(n);
    Lat L0 = latr(phi0);
    rho0 = rho(L0);
    // cancellation-free evaluation (needed for nearly cylindrical cones, |n| down to 1e-320): n rho0 = a k1 m1 (t0/t1)^n stays finite,
    // rho0 - rho = -rho0 expm1(n (ln t - ln t0)),  rho0 (1 - cos theta) = n rho0 * 2 sin^2(theta/2)/n,  rho sin theta = n rho * sin(n lam)/n
    lt0 = E.lnt(L0.s, L0.c);
    nr0 = E.a * k1 * m1 * expq(n * (lt0 - E.lnt(L1.s, L1.c)));
    rho0 = nr0 / n;
  }
  Q lt0 = 0, nr0 = 0;
  static Q powq_(Q t, Q n) { return expq(n * logq(t)); }
  Q rho(Lat L) const {                                                                          // 15-7 (x k1)
    if (kind == 2) { PolarStereo ps(E, 1.0, n > 0); ps.k0 = k1; return ps.rho(L); }     // r >= 0
    Q tt = E.t(L.s, L.c);
    if (tt == 0) return n > 0 ? Q(0) : HUGE_VALQ;
    if (!finiteq(tt)) return n > 0 ? HUGE_VALQ : Q(0);
    return E.a * k1 * F * powq_(tt, n);
  }
  XY fwd(Lat L, Q lam) const {
    XY p; p.finite = true;
    if (kind == 1) {
      p.x = kmerc * lam;
      if (L.c == 0) { p.finite = false; p.y = L.s > 0 ? HUGE_VALQ : -HUGE_VALQ; return p; }
      p.y = kmerc * E.psi(L.s, L.c); return p;
    }
    if (kind == 2) { Q r = rho(L); p.finite = finiteq(r); p.x = r * sinq(lam); p.y = -n * r * cosq(lam); return p; }   // 21-30, 21-31
    Q th = n * lam;
    if (L.c == 0) { Q r = rho(L); p.finite = finiteq(r); p.x = r * sinq(th); p.y = rho0 - r * cosq(th); return p; }   // a pole: rho = 0 or infinite (14-1, 14-2)
    Q D = n * (E.lnt(L.s, L.c) - lt0), sh = sinq(th / 2);
    p.x = nr0 * expq(D) * (sinq(th) / n);                                                       // rho sin theta
    p.y = nr0 * (2 * sh * sh / n) - nr0 * (expm1q(D) / n) * cosq(th);                           // rho0 (1 - cos theta) + (rho0 - rho) cos theta
    return p;
  }
  Q gamma(Q lam) const { return kind == 1 ? Q(0) : n * lam; }
  Q k(Lat L) const {                                                                            // k = rho n/(a m)
    if (kind == 1) return kmerc / (E.a * E.m(L.s, L.c));
    if (kind == 2) { PolarStereo p(E, 1.0, n > 0); p.k0 = k1; return p.k(L); }
    if (L.c == 0) return rho(L) * n / (E.a * E.m(L.s, L.c));
    return nr0 * expq(n * (E.lnt(L.s, L.c) - lt0)) / (E.a * E.m(L.s, L.c));
  }
};

// ------------------------------------------------------------------ Albers equal area
struct Albers {
  Ell E; Q n, C, rho0, phi0, k1; int kind;     // kind 0 conic (incl. azimuthal |n0| = 1), 1 cylindrical
  Q n0s, C0s;                                  // Snyder's n, C for k1 = 1
  Q kcyl;                                      // cylindrical: k' = k1 m1
  Albers(const Ell& E_, Lat L1, Lat L2, double k1_) : E(E_), k1(k1_) {
    bool same = (L1.s == L2.s && L1.c == L2.c);
    Q m1 = E.m(L1.s, L1.c), m2 = E.m(L2.s, L2.c), q1 = E.q(L1.s), q2 = E.q(L2.s);
    if (same) n0s = L1.s; else n0s = (m1 * m1 - m2 * m2) / (q2 - q1);                           // 14-14
    if (n0s == 0 || (!same && L1.s == -L2.s)) { kind = 1; n = n0s = 0; phi0 = 0; kcyl = k1 * m1; rho0 = 0; C = C0s = 0; return; }
    kind = 0;
    C0s = m1 * m1 + n0s * q1;                                                                   // 14-13
    n = sq(k1) * n0s; C = sq(k1) * C0s;
    // origin: latitude of minimum azimuthal scale, g(phi) = (C - n q) sin phi - n m^2 = 0, bracketed by the parallels
    if (same) phi0 = atan2q(L1.s, L1.c);
    else {
      Q lo = atan2q(L1.s, L1.c), hi = atan2q(L2.s, L2.c); if (lo > hi) { Q t_ = lo; lo = hi; hi = t_; }
      auto g = [&](Q ph) { Lat L = latr(ph); return (C0s - n0s * E.q(L.s)) * L.s - n0s * sq(E.m(L.s, L.c)); };    // sign of d(k^2)/d(phi)
      // one parallel at a pole: g vanishes identically there (rho = 0, m = 0); use a point just inside to decide whether there is an interior minimum
      const Q din = (hi - lo) * ldexpq(Q(1), -20);      // g = O(colat^4) near the pole: far enough inside for its sign to be above round-off
      Q a_ = lo, b_ = hi, ga = g(lo), gb = g(hi);
      if (L1.c == 0 || L2.c == 0) { if (fabsq(lo) > fabsq(hi)) { a_ = lo + din; ga = g(a_); } else { b_ = hi - din; gb = g(b_); } }
      if ((ga > 0) == (gb > 0)) phi0 = (ga > 0) ? lo : hi;        // k monotonic between the parallels: the minimum is at the end (the pole)
      else {
        for (int i = 0; i < 130; ++i) { Q mid = (a_ + b_) / 2, gm = g(mid); if ((gm > 0) == (gb > 0)) { b_ = mid; gb = gm; } else { a_ = mid; ga = gm; } }
        phi0 = (a_ + b_) / 2;
      }
    }
    rho0 = rho(latr(phi0)); q0 = E.q(latr(phi0).s);
    if (same && L1.c == 0) rho0 = 0;
    if (!same && ((L1.c == 0 && phi0 == atan2q(L1.s, L1.c)) || (L2.c == 0 && phi0 == atan2q(L2.s, L2.c)))) rho0 = 0;   // origin at a pole that is a standard parallel: C - n q_p = 0
  }
  Q rho(Lat L) const { Q u = C - n * E.q(L.s); if (u < 0) u = 0; return E.a * sqrtq(u) / n; }   // 14-12 (sign of n carried)
  XY fwd(Lat L, Q lam) const {
    XY p; p.finite = true;
    if (kind == 1) { p.x = E.a * kcyl * lam; p.y = E.a * E.q(L.s) / (2 * kcyl); return p; }
    // cancellation-free (nearly cylindrical cones): n rho = a s, s = sqrt(C - n q);  rho0 - rho = a (q - q0)/(s0 + s);  (1 - cos theta)/n = 2 sin^2(theta/2)/n
    Q th = n * lam, s_ = sroot(L.s), s0_ = n * rho0 / E.a, sh = sinq(th / 2);
    Q dr = (s0_ + s_) > 0 ? E.a * (E.q(L.s) - q0) / (s0_ + s_) : Q(0);
    p.x = E.a * s_ * (sinq(th) / n);
    p.y = E.a * s0_ * (2 * sh * sh / n) + dr * cosq(th);
    return p;
  }
  Q sroot(Q sphi) const { Q u = C - n * E.q(sphi); if (u < 0) u = 0; return sqrtq(u); }
  Q gamma(Q lam) const { return kind == 1 ? Q(0) : n * lam; }
  Q k(Lat L) const {                                                                            // azimuthal scale rho n/(a m) = s/m
    if (kind == 1) return kcyl / E.m(L.s, L.c);
    return sroot(L.s) / E.m(L.s, L.c);
  }
  Q q0 = 0;
};

// ------------------------------------------------------------------ numerical Jacobian of an oracle map
// Returns the images of the unit north and unit east vectors (per metre on the ellipsoid) at latitude phi (radians).
struct Jac { Q nx, ny, ex, ey; };      // d(x,y)/d(north metre), d(x,y)/d(east metre)
template <class P> inline Jac jacobian(const P& pr, const Ell& E, Q phi, Q lam) {
  const Q h = ldexpq(Q(1), -30);
  XY a = pr.fwd(latr(phi + h), lam), b = pr.fwd(latr(phi - h), lam);
  XY c = pr.fwd(latr(phi), lam + h), d = pr.fwd(latr(phi), lam - h);
  Q s = sinq(phi), co = cosq(phi);
  Q Mr = E.Mrad(s), Rp = E.Nrad(s) * co;
  Jac J; J.nx = (a.x - b.x) / (2 * h * Mr); J.ny = (a.y - b.y) / (2 * h * Mr);
  J.ex = (c.x - d.x) / (2 * h * Rp); J.ey = (c.y - d.y) / (2 * h * Rp);
  return J;
}

}  // namespace proj_cf
