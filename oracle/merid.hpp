// oracle/merid.hpp -- auxiliary latitudes and ellipsoid measures from their definitions, in __float128 (C15).
//
// An ellipsoid of revolution is given by (a, f) exactly as the doubles handed to the library; b = a (1-f),
// e^2 = f (2-f) (negative for prolate).  Every latitude is handled through its TANGENT so that relative accuracy is
// kept from the equator (tan -> 0, denormal tangents included) to the poles (tan -> inf):
//   parametric  tan beta  = (1-f) tan phi
//   geocentric  tan theta = (1-f)^2 tan phi
//   rectifying  mu = (pi/2) m(phi)/m(pi/2),  m(phi) = int_0^phi a (1-e^2) / (1 - e^2 sin^2 t)^(3/2) dt   (meridian arc; quadrature;
//               for |tan phi| > 1 the arc is measured from the pole, so that pi/2 - mu keeps its relative accuracy)
//   conformal   tan chi = sinh psi,  psi = asinh(tan phi) - e atanh(e sin phi)   (isometric latitude; for e^2 < 0 the
//               analytic continuation  + |e| atan(|e| sin phi));  the closed form is checked against the defining
//               integral psi = int (1-e^2) / ((1-e^2 sin^2 t) cos t) dt in oracle/selftest_merid.cpp
//   authalic    sin xi = A(sin phi)/A(1),  A(s) = int_0^s 2 du / (1 - e^2 u^2)^2   (area of the zone from the equator divided by
//               2 pi a^2 (1-e^2) ... the zone area is  2 pi int nu cos(phi) rho dphi);  cos xi from the complementary zone
//               int_s^1, evaluated in v = 1 - u so that the polar cap keeps its relative accuracy
// Inverse conversions (aux -> phi) are obtained by solving the forward relation for tan phi in log-log variables by a
// bracketed secant iteration in __float128 (the relation is monotone).
// Ellipsoid measures: quarter meridian m(pi/2); area 2 pi a^2 (1-e^2) A(1) (and the classical closed forms, compared
// in the self-test); volume 4 pi a^2 b / 3; radii of curvature rho, nu, Euler's formula for the normal section.
// Nothing here comes from AuxLatitude.cpp / Ellipsoid.cpp.
#pragma once
#include "oracle/quad128.hpp"
#include <cmath>

namespace merid {
using q128::Q;

enum { PHI = 0, BETA = 1, THETA = 2, MU = 3, CHI = 4, XI = 5 };

struct Ell {
  Q a, f, b, fm1, e2, e2m;     // e2m = 1 - e2 = (1-f)^2
  Q M;                         // quarter meridian
  Q A1;                        // A(1)
  Q ceq[6], cpole[6];          // limiting slopes tan(aux)/tan(phi) at the equator and at the pole (for brackets)
};

inline Q w_from_sin(const Ell& E, Q s, Q c) { return E.e2 > 0 ? E.e2m + E.e2 * c * c : 1 - E.e2 * s * s; }   // 1 - e^2 sin^2
// meridian arc from the equator to phi = atan(t), t <= ~1 ; and from phi to the pole
inline Q arc_from_equator(const Ell& E, Q phi) {
  return q128::integrate([&](Q t) { Q s, c; sincosq(t, &s, &c); Q w = w_from_sin(E, s, c); return E.a * E.e2m / (w * sqrtq(w)); }, 0, phi);
}
inline Q arc_to_pole(const Ell& E, Q delta) {          // delta = pi/2 - phi
  return q128::integrate([&](Q x) { Q s, c; sincosq(x, &c, &s); Q w = w_from_sin(E, s, c); return E.a * E.e2m / (w * sqrtq(w)); }, 0, delta);
}
// A(s) = int_0^s 2 du/(1-e^2 u^2)^2  and the complement C(d) = int_{1-d}^1, in v = 1-u:  1 - e^2 (1-v)^2 = (1-e^2) + e^2 v (2-v)
inline Q zoneA(const Ell& E, Q s) {
  return q128::integrate([&](Q u) { Q w = 1 - E.e2 * u * u; return 2 / (w * w); }, 0, s);
}
inline Q zoneC(const Ell& E, Q d) {
  return q128::integrate([&](Q v) { Q w = E.e2m + E.e2 * v * (2 - v); return 2 / (w * w); }, 0, d);
}

inline Q tan_mu(const Ell& E, Q t) {
  Q hp = q128::pi() / 2;
  if (t <= 1) { Q mu = hp * arc_from_equator(E, atanq(t)) / E.M; return tanq(mu); }
  Q cm = hp * arc_to_pole(E, atanq(1 / t)) / E.M;      // pi/2 - mu
  return 1 / tanq(cm);
}
inline Q psi_iso(const Ell& E, Q t) {                    // isometric latitude (radians) for tan phi = t >= 0
  Q s = t / hypotq(1, t);
  if (E.e2 == 0) return asinhq(t);
  if (E.e2 > 0) { Q e = sqrtq(E.e2); return asinhq(t) - e * atanhq(e * s); }
  Q e = sqrtq(-E.e2); return asinhq(t) + e * atanq(e * s);
}
inline Q tan_chi(const Ell& E, Q t) { return sinhq(psi_iso(E, t)); }
inline Q tan_xi(const Ell& E, Q t) {
  Q sc = hypotq(1, t), s = t / sc, d = 1 / (sc * (sc + t));       // d = 1 - sin phi without cancellation
  Q A, C;
  if (s <= 0.75Q) { A = zoneA(E, s); C = E.A1 - A; } else { C = zoneC(E, d); A = E.A1 - C; }
  return A / sqrtq(C * (E.A1 + A));
}
// tan(aux) for tan(phi) = t (any sign; 0 and +-inf are fixed points)
inline Q to_aux(const Ell& E, int aux, Q t) {
  if (t == 0 || isinfq(t) || isnanq(t)) return t;
  Q at = fabsq(t), r;
  switch (aux) {
  case PHI: r = at; break;
  case BETA: r = E.fm1 * at; break;
  case THETA: r = E.e2m * at; break;
  case MU: r = tan_mu(E, at); break;
  case CHI: r = tan_chi(E, at); break;
  default: r = tan_xi(E, at); break;
  }
  return t < 0 ? -r : r;
}
// tan(phi) for tan(aux) = tz
inline Q from_aux(const Ell& E, int aux, Q tz) {
  if (tz == 0 || isinfq(tz) || isnanq(tz)) return tz;
  Q az = fabsq(tz), r;
  if (aux == PHI) r = az;
  else if (aux == BETA) r = az / E.fm1;
  else if (aux == THETA) r = az / E.e2m;
  else {
    Q ly = logq(az);
    Q cmax = E.ceq[aux] > E.cpole[aux] ? E.ceq[aux] : E.cpole[aux], cmin = E.ceq[aux] < E.cpole[aux] ? E.ceq[aux] : E.cpole[aux];
    Q ua = ly - logq(cmax) - 1e-6Q, ub = ly - logq(cmin) + 1e-6Q;       // bracket in u = log tan phi
    auto g = [&](Q u) { return logq(to_aux(E, aux, expq(u))) - ly; };
    Q ga = g(ua), gb = g(ub);
    // widen if the limiting slopes do not bracket (cannot happen for a monotone log-log slope between the two limits, but be safe)
    for (int k = 0; k < 60 && ga > 0; ++k) { ua -= 1; ga = g(ua); }
    for (int k = 0; k < 60 && gb < 0; ++k) { ub += 1; gb = g(ub); }
    Q u = ua;
    if (ga == 0) u = ua; else if (gb == 0) u = ub;
    else {
      int side = 0;
      for (int it = 0; it < 200; ++it) {
        Q un = (ua * gb - ub * ga) / (gb - ga);               // regula falsi with Illinois modification
        if (!(un > ua && un < ub)) un = (ua + ub) / 2;
        Q gn = g(un); u = un;
        if (gn == 0 || fabsq(gn) < 1e-30Q || ub - ua < 1e-33Q * (1 + fabsq(u))) break;
        if (gn < 0) { ua = un; ga = gn; if (side == -1) gb /= 2; side = -1; }
        else { ub = un; gb = gn; if (side == 1) ga /= 2; side = 1; }
      }
    }
    r = expq(u);
  }
  return tz < 0 ? -r : r;
}
inline Q convert(const Ell& E, int from, int to, Q tz) { return from == to ? tz : to_aux(E, to, from_aux(E, from, tz)); }

inline Ell ell(double a, double f) {
  Ell E; E.a = a; E.f = f; E.fm1 = 1 - (Q)f; E.b = E.a * E.fm1; E.e2 = (Q)f * (2 - (Q)f); E.e2m = E.fm1 * E.fm1;
  E.M = arc_from_equator(E, 1) + arc_to_pole(E, q128::pi() / 2 - 1);
  E.A1 = zoneA(E, 0.75Q) + zoneC(E, 0.25Q);
  for (int k = 0; k < 6; ++k) { E.ceq[k] = E.cpole[k] = 1; }
  for (int k = 1; k < 6; ++k) { E.ceq[k] = to_aux(E, k, 1e-40Q) / 1e-40Q; E.cpole[k] = to_aux(E, k, 1e40Q) / 1e40Q; }
  return E;
}

// ---- measures
inline Q quarter_meridian(const Ell& E) { return E.M; }
inline Q rectifying_radius(const Ell& E) { return 2 * E.M / q128::pi(); }
inline Q meridian_distance(const Ell& E, Q t) {              // from the equator to tan phi = t (signed)
  if (t == 0) return 0;
  Q at = fabsq(t), m = isinfq(at) ? E.M : (at <= 1 ? arc_from_equator(E, atanq(at)) : E.M - arc_to_pole(E, atanq(1 / at)));
  return t < 0 ? -m : m;
}
inline Q authalic_radius2(const Ell& E) { return E.a * E.a * E.e2m * E.A1 / 2; }
inline Q area(const Ell& E) { return 4 * q128::pi() * authalic_radius2(E); }
inline Q area_closed_form(const Ell& E) {
  Q pi = q128::pi();
  if (E.e2 == 0) return 4 * pi * E.a * E.a;
  if (E.e2 > 0) { Q e = sqrtq(E.e2); return 2 * pi * E.a * E.a + pi * E.b * E.b / e * logq((1 + e) / (1 - e)); }
  Q ep = sqrtq(1 - E.a * E.a / (E.b * E.b));                  // prolate: eccentricity of the meridian ellipse w.r.t. b
  return 2 * pi * E.a * E.a + 2 * pi * E.a * E.b * asinq(ep) / ep;
}
inline Q volume(const Ell& E) { return 4 * q128::pi() * E.a * E.a * E.b / 3; }
// radii of curvature at sin/cos of the geographic latitude
inline Q rho(const Ell& E, Q s, Q c) { Q w = w_from_sin(E, s, c); return E.a * E.e2m / (w * sqrtq(w)); }
inline Q nu(const Ell& E, Q s, Q c) { return E.a / sqrtq(w_from_sin(E, s, c)); }
inline Q normal_section(const Ell& E, Q s, Q c, Q salp, Q calp) { return 1 / (calp * calp / rho(E, s, c) + salp * salp / nu(E, s, c)); }   // Euler
inline Q circle_radius(const Ell& E, Q s, Q c) { return nu(E, s, c) * c; }
inline Q circle_height(const Ell& E, Q s, Q c) { return nu(E, s, c) * E.e2m * s; }

// ---- exact degree arithmetic: sin, cos of an angle given in degrees as a double (reduction mod 90 is exact)
inline void sincosd(double deg, Q& s, Q& c) {
  Q r = fmodq((Q)deg, 360);                      // exact
  int qd = (int)rintq(r / 90); r -= 90 * (Q)qd;  // exact, |r| <= 45
  Q sr, cr; sincosq(r * q128::pi() / 180, &sr, &cr);
  switch (((qd % 4) + 4) % 4) { case 0: s = sr; c = cr; break; case 1: s = cr; c = -sr; break; case 2: s = -sr; c = -cr; break; default: s = -cr; c = sr; }
  if (r == 0) { if (((qd % 2) + 2) % 2 == 0) s = 0 * s; else c = 0 * c; }       // exact zeros at multiples of 90
}
inline Q tand(double deg) { Q s, c; sincosd(deg, s, c); return c == 0 ? (s > 0 ? HUGE_VALQ : -HUGE_VALQ) : s / c; }
inline Q atand(Q t) { return atanq(t) * 180 / q128::pi(); }
}  // namespace merid
