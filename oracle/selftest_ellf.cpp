// oracle/selftest_ellf.cpp -- stand-alone self-test of oracle/ellf.hpp (run by `bin/check --setup`).
// The quadrature-of-the-definition oracle is compared with
//   (a) Boost.Math in long double (an independent implementation: Carlson duplication / Landen), parameter
//       conventions: ellint_1(k, phi), ellint_2(k, phi), ellint_d(k, phi), ellint_3(k, n = alpha^2, phi),
//       jacobi_elliptic(k, u, &cn, &dn) -> sn, ellint_rf/rd/rj/rc/rg(x, y, z[, p]);
//   (b) closed forms (k = 0, k = 1, RC, RF(x,x,x), imaginary-modulus transformation for k^2 < 0);
//   (c) itself: inversion round trips, Legendre's relation.
// Does not touch /repo.  Exit status 0 = ok.
#include "oracle/ellf.hpp"
#include <boost/math/special_functions/ellint_1.hpp>
#include <boost/math/special_functions/ellint_2.hpp>
#include <boost/math/special_functions/ellint_3.hpp>
#include <boost/math/special_functions/ellint_d.hpp>
#include <boost/math/special_functions/ellint_rf.hpp>
#include <boost/math/special_functions/ellint_rd.hpp>
#include <boost/math/special_functions/ellint_rj.hpp>
#include <boost/math/special_functions/ellint_rc.hpp>
#include <boost/math/special_functions/ellint_rg.hpp>
#include <boost/math/special_functions/jacobi_elliptic.hpp>
#include <cstdio>

using ellf::Q;
static int bad = 0; static double worst = 0;
static void cmp(const char* what, Q got, Q want, double tol) {
  double e = (double)(fabsq(got - want) / (fabsq(want) > 0 ? fabsq(want) : 1));
  if (e > worst) worst = e;
  if (!(e <= tol)) { ++bad; printf("FAIL %s: got %s want %s rel %.3g > %.3g\n", what, q128::str(got).c_str(), q128::str(want).c_str(), e, tol); }
}

int main() {
  typedef long double L;
  const double LD = 2e-18;              // what long double Boost can confirm
  char nm[200];
  // (a) Legendre forms vs Boost, 0 <= k^2 < 1
  for (double k2 : {1e-10, 0.5, 0.99, 0.999}) {      // (k^2 -> 1 is ill-conditioned in Boost's parameter k; see (b))
    L k = sqrtl((L)k2);
    for (double a2 : {-3.0, -0.1, 0.0, 0.3, 0.99}) {
      ellf::Mod m = ellf::mod(k2, a2);
      for (double phi : {1e-8, 0.5, 1.2, 1.5707963, 3.0, -20.0}) {
        L f = boost::math::ellint_1(k, (L)phi), e = boost::math::ellint_2(k, (L)phi), d = boost::math::ellint_d(k, (L)phi),
          p = boost::math::ellint_3(k, (L)a2, (L)phi);
        snprintf(nm, sizeof nm, "F k2=%g phi=%g", k2, phi); cmp(nm, ellf::incomplete(ellf::kF, m, phi), f, 40 * LD);
        snprintf(nm, sizeof nm, "E k2=%g phi=%g", k2, phi); cmp(nm, ellf::incomplete(ellf::kE, m, phi), e, 40 * LD);
        snprintf(nm, sizeof nm, "D k2=%g phi=%g", k2, phi); cmp(nm, ellf::incomplete(ellf::kD, m, phi), d, 400 * LD);
        snprintf(nm, sizeof nm, "Pi k2=%g a2=%g phi=%g", k2, a2, phi); cmp(nm, ellf::incomplete(ellf::kPi, m, phi), p, 400 * LD);
        // G and H from the documented combinations of F and Pi
        if (a2 != 0) {
          L g = (L)k2 / (L)a2 * f + (1 - (L)k2 / (L)a2) * p, h = f / (L)a2 + (1 - 1 / (L)a2) * p;
          snprintf(nm, sizeof nm, "G k2=%g a2=%g phi=%g", k2, a2, phi); cmp(nm, ellf::incomplete(ellf::kG, m, phi), g, 4000 * LD);
          snprintf(nm, sizeof nm, "H k2=%g a2=%g phi=%g", k2, a2, phi); cmp(nm, ellf::incomplete(ellf::kH, m, phi), h, 4000 * LD);
        } else {
          cmp("G(alpha=0)=E", ellf::incomplete(ellf::kG, m, phi), e, 40 * LD);
          cmp("H(alpha=0)=F-D", ellf::incomplete(ellf::kH, m, phi), f - d, 4000 * LD);
        }
      }
    }
    // complete + Legendre's relation E K' + E' K - K K' = pi/2 (a property of the definitions)
    ellf::Mod m = ellf::mod(k2), mc = ellf::mod4(1 - k2, 0, k2, 1);
    Q K = ellf::complete(ellf::kF, m), E = ellf::complete(ellf::kE, m), Kc = ellf::complete(ellf::kF, mc), Ec = ellf::complete(ellf::kE, mc);
    cmp("K vs boost", K, boost::math::ellint_1(k), 40 * LD);
    cmp("E vs boost", E, boost::math::ellint_2(k), 40 * LD);
    if (k2 > 1e-9 && k2 < 0.9999) cmp("Legendre relation", E * Kc + Ec * K - K * Kc, q128::pi() / 2, 1e-28);
    // Jacobi functions
    for (double x : {1e-8, 0.5, 1.3, 3.0, -20.0}) {
      L cn, dn, sn = boost::math::jacobi_elliptic(k, (L)x, &cn, &dn);
      Q s, c, d; ellf::sncndn(m, x, s, c, d);
      snprintf(nm, sizeof nm, "sn k2=%g x=%g", k2, x); cmp(nm, s, sn, 4000 * LD / (double)fabsl(sn) * (1 + fabs(x)));
      snprintf(nm, sizeof nm, "cn k2=%g x=%g", k2, x); cmp(nm, c, cn, 4000 * LD / (double)fabsl(cn) * (1 + fabs(x)));
      snprintf(nm, sizeof nm, "dn k2=%g x=%g", k2, x); cmp(nm, d, dn, 4000 * LD);
      // inversion round trip at full precision
      cmp("F(am(x)) = x", ellf::incomplete(ellf::kF, m, ellf::am(m, x)), x, 1e-27);
      cmp("E(Einv(x)) = x", ellf::incomplete(ellf::kE, m, ellf::Einv(m, x)), x, 1e-27);
    }
  }
  // (b) closed forms
  {
    ellf::Mod m0 = ellf::mod(0, 0), m1 = ellf::mod(1, 0);
    for (double phi : {0.3, 1.0, 1.5, -2.5, 7.0}) {
      cmp("F k=0", ellf::incomplete(ellf::kF, m0, phi), phi, 1e-30);
      cmp("D k=0", ellf::incomplete(ellf::kD, m0, phi), ((Q)phi - sinq(2 * (Q)phi) / 2) / 2, 1e-29);
    }
    for (double phi : {0.3, 1.0, 1.5, 1.5707963267}) {
      cmp("F k=1", ellf::incomplete(ellf::kF, m1, phi), asinhq(tanq((Q)phi)), 1e-23);   // tanq near pi/2 is the limiting factor
      cmp("E k=1", ellf::incomplete(ellf::kE, m1, phi), sinq((Q)phi), 1e-29);
      cmp("H k=1 a=0", ellf::incomplete(ellf::kH, m1, phi), sinq((Q)phi), 1e-29);
    }
    cmp("E(k=1) complete", ellf::complete(ellf::kE, m1), 1, 1e-30);
    if (!isinfq(ellf::complete(ellf::kF, m1)) || !isinfq(ellf::complete(ellf::kPi, ellf::mod(0.5, 1)))) { ++bad; printf("FAIL divergent complete integrals\n"); }
    cmp("H(alpha=1) = K", ellf::complete(ellf::kH, ellf::mod(0.5, 1)), ellf::complete(ellf::kF, ellf::mod(0.5)), 1e-28);
    // Pi(alpha2, 0) = pi/(2 sqrt(1-alpha2)),  H(alpha2,0) = pi/(2 (1+sqrt(1-alpha2)))
    for (double a2 : {-1e4, -1.0, 0.5, 0.99, 1 - 1e-12}) {
      Q s = sqrtq(1 - (Q)a2);
      cmp("Pi(a2,0)", ellf::complete(ellf::kPi, ellf::mod(0, a2)), q128::pi() / (2 * s), 1e-27);
      cmp("H(a2,0)", ellf::complete(ellf::kH, ellf::mod(0, a2)), q128::pi() / (2 * (1 + s)), 1e-27);
    }
    // imaginary modulus: F(phi, i kappa) with k2 = -kappa^2:  K(i kappa) = K(kappa/sqrt(1+kappa^2)) / sqrt(1+kappa^2)   (DLMF 19.7.5)
    for (double k2 : {-1e4, -1.0, -0.1}) {
      L kap2 = -k2, k1 = sqrtl(kap2 / (1 + kap2)), sc = sqrtl(1 + kap2);
      cmp("K(k2<0) vs boost", ellf::complete(ellf::kF, ellf::mod(k2)), boost::math::ellint_1(k1) / sc, 40 * LD);
      cmp("E(k2<0) vs boost", ellf::complete(ellf::kE, ellf::mod(k2)), boost::math::ellint_2(k1) * sc, 40 * LD);
    }
  }
  // Carlson forms
  {
    const double al[] = {0, 1e-300, 1e-10, 1, 2, 1e10, 1e300};
    // vs Boost long double on a sub-lattice (Boost's own domain: finite non-overflowing arguments)
    for (double x : {0.0, 1e-10, 1.0, 2.0, 1e10}) for (double y : {1e-10, 1.0, 2.0, 1e10}) for (double z : {1e-10, 1.0, 2.0, 1e10}) {
      snprintf(nm, sizeof nm, "RF(%g,%g,%g)", x, y, z); cmp(nm, ellf::RF(x, y, z), boost::math::ellint_rf((L)x, (L)y, (L)z), 100 * LD);
      snprintf(nm, sizeof nm, "RD(%g,%g,%g)", x, y, z); cmp(nm, ellf::RD(x, y, z), boost::math::ellint_rd((L)x, (L)y, (L)z), 100 * LD);
      snprintf(nm, sizeof nm, "RG(%g,%g,%g)", x, y, z); cmp(nm, ellf::RG(x, y, z), boost::math::ellint_rg((L)x, (L)y, (L)z), 100 * LD);
      for (double p : {1e-10, 1.0, 3.0, 1e10}) {
        snprintf(nm, sizeof nm, "RJ(%g,%g,%g,%g)", x, y, z, p); cmp(nm, ellf::RJ(x, y, z, p), boost::math::ellint_rj((L)x, (L)y, (L)z, (L)p), 1000 * LD);
      }
    }
    // closed forms over the whole alphabet incl. 1e-300 / 1e300
    for (double x : al) if (x > 0) {
      Q X = x;
      cmp("RF(x,x,x)", ellf::RF(X, X, X), 1 / sqrtq(X), 1e-27);
      cmp("RD(x,x,x)", ellf::RD(X, X, X), 1 / (X * sqrtq(X)), 1e-27);
      cmp("RJ(x,x,x,x)", ellf::RJ(X, X, X, X), 1 / (X * sqrtq(X)), 1e-27);
      cmp("RG(x,x,x)", ellf::RG(X, X, X), sqrtq(X), 1e-27);
      cmp("RG(0,x,x)", ellf::RG(0, X, X), q128::pi() / 4 * sqrtq(X), 1e-27);
      cmp("RF(0,x,x)", ellf::RF(0, X, X), q128::pi() / 2 / sqrtq(X), 1e-27);
    }
    for (double x : al) for (double y : al) if (y > 0) {
      Q X = x, Y = y, want;
      if (x == y) want = 1 / sqrtq(Y);
      else if (x < y) want = atanq(sqrtq((Y - X) / X)) / sqrtq(Y - X);          // DLMF 19.2.18 (x = 0: pi/2/sqrt(y))
      else want = asinhq(sqrtq((X - Y) / Y)) / sqrtq(X - Y);                      // DLMF 19.2.19 (asinh form: well conditioned)
      if (x == 0) want = q128::pi() / 2 / sqrtq(Y);
      snprintf(nm, sizeof nm, "RC(%g,%g)", x, y); cmp(nm, ellf::RC(X, Y), want, 1e-26);
    }
    // homogeneity over the huge range: RF(s x, s y, s z) = RF(x,y,z)/sqrt(s)
    { Q s = ldexpq(1, 996), t = ldexpq(1, -996);
      cmp("RF homogeneity", ellf::RF(s, 2 * s, 0), ellf::RF(1, 2, 0) / sqrtq(s), 1e-27);
      cmp("RJ homogeneity", ellf::RJ(t, 2 * t, 0, 3 * t), ellf::RJ(1, 2, 0, 3) / (t * sqrtq(t)), 1e-27);
      cmp("RD homogeneity", ellf::RD(0, 2 * s, t), ellf::RD(0, 2 * s * s, 1) / (t * sqrtq(t)), 1e-27);
      cmp("RG homogeneity", ellf::RG(s, 2 * t, 0), ellf::RG(s * s, 2, 0) * sqrtq(t), 1e-27); }
    // k^2 -> 1: K = ln(4/k') + (k'^2/4)(ln(4/k') - 1) + O(k'^4 ln k')   (DLMF 19.12.1)
    { Q kp2 = 1e-12Q; ellf::Mod m = ellf::mod4(1, 0, 1e-12, 1); m.kp2 = kp2; m.k2 = 1 - kp2;
      Q L4 = logq(4 / sqrtq(kp2));
      cmp("K near k=1", ellf::complete(ellf::kF, m), L4 + kp2 / 4 * (L4 - 1), 1e-21);
      cmp("E near k=1", ellf::complete(ellf::kE, m), 1 + kp2 / 2 * (L4 - 0.5Q), 1e-21); }
  }
  printf("oracle selftest ellf: %s (worst relative difference %.3g, %d failures)\n", bad ? "FAILED" : "ok", worst, bad);
  return bad ? 1 : 0;
}
