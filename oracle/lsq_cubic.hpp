// oracle/lsq_cubic.hpp -- reference for the "cubic" interpolation of GeographicLib::Geoid, written from the
// documented definition only (Geoid.hpp / geoid.dox "Interpolating the geoid data", comment block at the top of
// Geoid.cpp):
//
//   the height in the cell [0,1] x [0,1] (x east, y south, in units of the grid spacing) is the cubic polynomial
//   p(x,y) = sum_{i+j<=3} c_ij x^i y^j that minimises   sum_k w_k (p(x_k,y_k) - v_k)^2   over the 12-point stencil
//
//          x: -1  0  1  2
//      y=-1    .  1  1  .
//      y= 0    1  2  2  1          (numbers = weights w_k)
//      y= 1    1  2  2  1
//      y= 2    .  1  1  .
//
//   in a cell whose northern edge is the pole row (y = 0 is the pole) the fit is constrained to be independent of
//   longitude at the pole, i.e. the terms x, x^2, x^3 are dropped from the basis; in a cell whose southern edge is
//   the pole row the same is done in the reflected variable y' = 1 - y.
//
// The normal equations  (sum_k w_k b(k) b(k)^T) c = sum_k w_k v_k b(k)  are solved here EXACTLY in rational
// arithmetic (Gauss-Jordan over __int128 fractions, overflow-checked) once per variant, giving an integer transfer
// matrix over a common denominator; applying it to the integer pixel values is exact, and the polynomial is then
// evaluated in __float128.  Nothing is taken from the library's c3_/c3n_/c3s_ tables.
#pragma once
#include <quadmath.h>
#include <cstdlib>
#include <cstdio>
#include <string>
#include <vector>

namespace oracle {

typedef __int128 i128;

struct Rat {
  i128 n, d;                                   // d > 0, gcd(n,d) = 1
  static i128 gcd(i128 a, i128 b) { if (a < 0) a = -a; if (b < 0) b = -b; while (b) { i128 t = a % b; a = b; b = t; } return a; }
  static i128 mul(i128 a, i128 b) { i128 r; if (__builtin_mul_overflow(a, b, &r)) { fprintf(stderr, "lsq_cubic: rational overflow\n"); abort(); } return r; }
  static i128 add(i128 a, i128 b) { i128 r; if (__builtin_add_overflow(a, b, &r)) { fprintf(stderr, "lsq_cubic: rational overflow\n"); abort(); } return r; }
  Rat(i128 n_ = 0, i128 d_ = 1) : n(n_), d(d_) { norm(); }
  void norm() { if (d < 0) { n = -n; d = -d; } i128 g = gcd(n, d); if (g > 1) { n /= g; d /= g; } if (n == 0) d = 1; }
  bool zero() const { return n == 0; }
  friend Rat operator*(const Rat& a, const Rat& b) { i128 g1 = gcd(a.n, b.d), g2 = gcd(b.n, a.d); if (!g1) g1 = 1; if (!g2) g2 = 1; return Rat(mul(a.n / g1, b.n / g2), mul(a.d / g2, b.d / g1)); }
  friend Rat operator/(const Rat& a, const Rat& b) { return a * Rat(b.d, b.n); }
  friend Rat operator-(const Rat& a, const Rat& b) { i128 g = gcd(a.d, b.d); i128 l = b.d / g, r = a.d / g; return Rat(add(mul(a.n, l), -mul(b.n, r)), mul(a.d, l)); }
  friend Rat operator+(const Rat& a, const Rat& b) { return a - Rat(-b.n, b.d); }
  friend bool operator==(const Rat& a, const Rat& b) { return a.n == b.n && a.d == b.d; }
};

class LsqCubic {
 public:
  static const int NS = 12;                    // stencil points
  struct Pt { int x, y, w; };
  // stencil in the order: row y=-1 (x=0,1), row y=0 (x=-1..2), row y=1 (x=-1..2), row y=2 (x=0,1)
  static const Pt* stencil() {
    static const Pt s[NS] = {{0, -1, 1}, {1, -1, 1},
                             {-1, 0, 1}, {0, 0, 2}, {1, 0, 2}, {2, 0, 1},
                             {-1, 1, 1}, {0, 1, 2}, {1, 1, 2}, {2, 1, 1},
                             {0, 2, 1}, {1, 2, 1}};
    return s;
  }
  enum { GENERIC = 0, NORTH = 1, SOUTH = 2 };
  struct Variant {
    int nterms; int ex[10], ey[10]; bool flipy;      // term i = x^ex[i] * Y^ey[i],  Y = flipy ? 1 - y : y
    long long T[NS][10]; long long den;              // coefficient_i = sum_k T[k][i] v_k / den
  };
  Variant var[3];

  static const LsqCubic& get() { static LsqCubic L; return L; }

  // value of the fitted polynomial at (x, y) for stencil values v[0..11] (integers stored in doubles)
  __float128 eval(int variant, const double* v, __float128 x, __float128 y) const {
    const Variant& V = var[variant];
    __float128 Y = V.flipy ? 1 - y : y, s = 0;
    for (int i = 0; i < V.nterms; ++i) {
      i128 num = 0;
      for (int k = 0; k < NS; ++k) num += (i128)V.T[k][i] * (i128)(long long)v[k];      // exact
      __float128 c = (__float128)num / (__float128)V.den, t = c;
      for (int a = 0; a < V.ex[i]; ++a) t *= x;
      for (int b = 0; b < V.ey[i]; ++b) t *= Y;
      s += t;
    }
    return s;
  }

  // exact self-checks; returns "" when everything holds
  std::string selftest() const {
    const Pt* S = stencil();
    for (int vi = 0; vi < 3; ++vi) {
      const Variant& V = var[vi];
      auto basis = [&](int i, int k) -> i128 { i128 r = 1; int Y = V.flipy ? 1 - S[k].y : S[k].y; for (int a = 0; a < V.ex[i]; ++a) r *= S[k].x; for (int b = 0; b < V.ey[i]; ++b) r *= Y; return r; };
      // (a) every polynomial of the basis is reproduced exactly
      for (int m = 0; m < V.nterms; ++m) for (int i = 0; i < V.nterms; ++i) {
        i128 s = 0; for (int k = 0; k < NS; ++k) s += (i128)V.T[k][i] * basis(m, k);
        if (s != (i == m ? (i128)V.den : 0)) return "variant " + std::to_string(vi) + ": basis polynomial " + std::to_string(m) + " not reproduced";
      }
      // (b) normal equations: the weighted residual of the fit to each unit data vector is orthogonal to the basis
      for (int u = 0; u < NS; ++u) for (int j = 0; j < V.nterms; ++j) {
        i128 s = 0;
        for (int k = 0; k < NS; ++k) {
          i128 fit = 0; for (int i = 0; i < V.nterms; ++i) fit += (i128)V.T[u][i] * basis(i, k);      // den * p(x_k,y_k)
          s += (i128)S[k].w * basis(j, k) * (fit - (k == u ? (i128)V.den : 0));
        }
        if (s != 0) return "variant " + std::to_string(vi) + ": normal equations violated";
      }
    }
    // (c) the south variant is the mirror image of the north one (rows reversed)
    static const int mirror[NS] = {10, 11, 6, 7, 8, 9, 2, 3, 4, 5, 0, 1};
    if (var[NORTH].den != var[SOUTH].den) return "north/south denominators differ";
    for (int k = 0; k < NS; ++k) for (int i = 0; i < var[NORTH].nterms; ++i)
      if (var[NORTH].T[k][i] != var[SOUTH].T[mirror[k]][i]) return "south variant is not the mirror image of the north variant";
    // (d) the generic fit is symmetric under the same mirror: p(x, 1-y) with mirrored data == p(x,y)
    {
      double v[NS], vm[NS];
      for (int k = 0; k < NS; ++k) v[k] = (k * k * 7 + 3 * k + 1) % 23;
      for (int k = 0; k < NS; ++k) vm[mirror[k]] = v[k];
      __float128 a = eval(GENERIC, v, 0.3Q, 0.8Q), b = eval(GENERIC, vm, 0.3Q, 0.2Q);
      if (fabsq(a - b) > 1e-28Q) return "generic fit not mirror symmetric";
      // at the pole the constrained fits do not depend on x
      __float128 n1 = eval(NORTH, v, 0.0Q, 0.0Q), n2 = eval(NORTH, v, 0.7Q, 0.0Q), s1 = eval(SOUTH, v, 0.1Q, 1.0Q), s2 = eval(SOUTH, v, 0.9Q, 1.0Q);
      if (fabsq(n1 - n2) > 1e-28Q || fabsq(s1 - s2) > 1e-28Q) return "pole-row fit depends on x at the pole";
    }
    return "";
  }

 private:
  LsqCubic() {
    static const int PX[10] = {0, 1, 0, 2, 1, 0, 3, 2, 1, 0}, PY[10] = {0, 0, 1, 0, 1, 2, 0, 1, 2, 3};
    for (int vi = 0; vi < 3; ++vi) {
      Variant& V = var[vi]; V.nterms = 0; V.flipy = vi == SOUTH;
      for (int i = 0; i < 10; ++i) {
        if (vi != GENERIC && PX[i] > 0 && PY[i] == 0) continue;        // no x, x^2, x^3 in the pole-row variants
        V.ex[V.nterms] = PX[i]; V.ey[V.nterms] = PY[i]; ++V.nterms;
      }
      build(V);
    }
  }
  static void build(Variant& V) {
    const Pt* S = stencil(); const int n = V.nterms;
    auto basis = [&](int i, int k) -> i128 { i128 r = 1; int Y = V.flipy ? 1 - S[k].y : S[k].y; for (int a = 0; a < V.ex[i]; ++a) r *= S[k].x; for (int b = 0; b < V.ey[i]; ++b) r *= Y; return r; };
    // augmented matrix [ M | R ],  M_ij = sum_k w_k b_i b_j,  R_iu = w_u b_i(u)   (right-hand side for unit data e_u)
    std::vector<std::vector<Rat>> A(n, std::vector<Rat>(n + NS));
    for (int i = 0; i < n; ++i) {
      for (int j = 0; j < n; ++j) { i128 s = 0; for (int k = 0; k < NS; ++k) s += (i128)S[k].w * basis(i, k) * basis(j, k); A[i][j] = Rat(s); }
      for (int u = 0; u < NS; ++u) A[i][n + u] = Rat((i128)S[u].w * basis(i, u));
    }
    for (int c = 0; c < n; ++c) {
      int p = -1; for (int r = c; r < n; ++r) if (!A[r][c].zero()) { p = r; break; }
      if (p < 0) { fprintf(stderr, "lsq_cubic: singular normal matrix\n"); abort(); }
      std::swap(A[p], A[c]);
      Rat piv = A[c][c];
      for (int j = c; j < n + NS; ++j) A[c][j] = A[c][j] / piv;
      for (int r = 0; r < n; ++r) if (r != c && !A[r][c].zero()) {
        Rat f = A[r][c];
        for (int j = c; j < n + NS; ++j) A[r][j] = A[r][j] - f * A[c][j];
      }
    }
    i128 den = 1;
    for (int i = 0; i < n; ++i) for (int u = 0; u < NS; ++u) { i128 d = A[i][n + u].d; den = den / Rat::gcd(den, d) * d; }
    V.den = (long long)den;
    for (int u = 0; u < NS; ++u) for (int i = 0; i < 10; ++i) V.T[u][i] = 0;
    for (int i = 0; i < n; ++i) for (int u = 0; u < NS; ++u) V.T[u][i] = (long long)(A[i][n + u].n * (den / A[i][n + u].d));
  }
};

}  // namespace oracle
