// oracle/c16_ref.hpp -- reference models for property C16 (angle arithmetic, error-free sum, Accumulator).
//
// Everything here is independent of the library and exact by construction where the property demands
// exactness:
//   * reduce(x, M): x = M*N + r with N = rint(x/M) (ties to even), |r| <= M/2, computed with INTEGER
//     arithmetic on the significand/exponent of x (no libm remainder/remquo involved; the harness
//     cross-checks it against std::remquo on every float as an oracle self-test);
//   * Dy: exact dyadic rationals n*2^k on boost::multiprecision::cpp_int (unbounded), used for
//     s + t == u + v, d + e == (y - x) mod 360 and the exact Accumulator sum;
//   * degree trig references: exact reduction FIRST (|r| <= 45 deg and the quadrant), only then sin/cos of the
//     reduced angle in long double (for float) or __float128 (for double / long double).  Skipping the exact
//     quadrant step produces phantom 1e7-ulp errors at multiples of 180 (DESIGN.md C16) -- do not "simplify".
#pragma once
#include <quadmath.h>
#include <cmath>
#include <cstdint>
#include <cstring>
#include <cstdio>
#include <limits>
#include <string>
#include <boost/multiprecision/cpp_int.hpp>

namespace c16 {

typedef __float128 f128;
typedef unsigned __int128 u128;
typedef __int128 i128;
using boost::multiprecision::cpp_int;

// ------------------------------------------------------------------ decomposition
// ax = m * 2^e exactly, 2^63 <= m < 2^64, for finite ax > 0 (float, double and x87 long double all fit)
inline void decomp(long double ax, uint64_t& m, int& e) {
  int ex; long double f = frexpl(ax, &ex);          // ax = f * 2^ex, f in [0.5, 1)
  m = (uint64_t)ldexpl(f, 64); e = ex - 64;         // exact: 64-bit significand
}

// ------------------------------------------------------------------ exact argument reduction
struct Red { int n; long double r; };   // x = M*N + r, n = N mod 8 (0..7), r exact, |r| <= M/2, zero r carries the sign of x
inline unsigned pow2mod(int e, unsigned P) {
  uint64_t res = 1 % P, b = 2 % P;
  while (e > 0) { if (e & 1) res = res * b % P; b = b * b % P; e >>= 1; }
  return (unsigned)res;
}
// M in {90, 360}.  x finite.
inline Red reduce(long double x, int M) {
  Red o; long double ax = fabsl(x); bool neg = std::signbit(x);
  if (ax + ax <= (long double)M) { o.n = 0; o.r = x; return o; }     // |x| <= M/2: N = 0 (a tie at M/2 goes to the even N = 0)
  uint64_t m; int e; decomp(ax, m, e);
  const unsigned P = 8u * (unsigned)M;
  uint64_t n;
  if (e >= 0) {                                   // ax is an integer: work modulo 8M
    uint64_t R = ((m % P) * (uint64_t)pow2mod(e, P)) % P;
    n = R / (unsigned)M; long long rm = (long long)(R - n * (unsigned)M);
    if (2 * rm > M || (2 * rm == M && (n & 1))) { ++n; rm -= M; }
    o.r = (long double)rm;
  } else {                                        // ax > M/2 >= 45 so e >= -58: scale everything by 2^-e
    int sh = -e;
    u128 Mod = (u128)P << sh, Ms = (u128)(unsigned)M << sh;
    u128 R = (u128)m % Mod;
    n = (uint64_t)(R / Ms); i128 rm = (i128)(R - (u128)n * Ms);
    if (2 * rm > (i128)Ms || (2 * rm == (i128)Ms && (n & 1))) { ++n; rm -= (i128)Ms; }
    o.r = ldexpl((long double)rm, -sh);           // exact: r is a multiple of 2^e not larger than ax
  }
  o.n = (int)(n & 7);
  if (neg) { o.r = -o.r; o.n = (8 - o.n) & 7; }
  if (o.r == 0) o.r = neg ? -0.0L : 0.0L;
  return o;
}

// ------------------------------------------------------------------ exact dyadic numbers
struct Dy {
  cpp_int n; long k;                       // value = n * 2^k
  Dy() : n(0), k(0) {}
  Dy(const cpp_int& n_, long k_) : n(n_), k(k_) {}
  static Dy of(long double x) {            // x finite
    Dy d; if (x == 0) return d;
    uint64_t m; int e; decomp(fabsl(x), m, e);
    int tz = __builtin_ctzll(m); m >>= tz; e += tz;
    d.n = m; if (x < 0) d.n = -d.n; d.k = e; return d;
  }
  static Dy ofi(long long v) { return Dy(cpp_int(v), 0); }
  static cpp_int p2(unsigned long s) { return cpp_int(1) << s; }
  Dy operator+(const Dy& o) const {
    if (n == 0) return o; if (o.n == 0) return *this;
    if (k == o.k) return Dy(n + o.n, k);
    if (k < o.k) return Dy(n + o.n * p2((unsigned long)(o.k - k)), k);
    return Dy(n * p2((unsigned long)(k - o.k)) + o.n, o.k);
  }
  Dy operator-() const { return Dy(-n, k); }
  Dy operator-(const Dy& o) const { return *this + (-o); }
  Dy operator*(const Dy& o) const { return Dy(n * o.n, n == 0 || o.n == 0 ? 0 : k + o.k); }
  Dy scale2(long s) const { return Dy(n, n == 0 ? 0 : k + s); }     // * 2^s
  Dy abs() const { return Dy(n < 0 ? cpp_int(-n) : n, k); }
  int sgn() const { return n.sign(); }
  bool zero() const { return n == 0; }
  void norm() {
    if (n == 0) { k = 0; return; }
    cpp_int a = n < 0 ? cpp_int(-n) : n; unsigned long tz = lsb(a);
    if (tz) { n = n / p2(tz); k += (long)tz; }
  }
  // nearest long double (only for reporting / moderate magnitudes)
  long double approx() const {
    if (n == 0) return 0;
    cpp_int a = n < 0 ? cpp_int(-n) : n; unsigned long hb = msb(a); long kk = k;
    if (hb > 100) { a = a / p2(hb - 100); kk += (long)(hb - 100); }
    long double v = a.convert_to<long double>();
    if (kk > 20000) return n < 0 ? -INFINITY : INFINITY;
    if (kk < -20000) return 0;
    v = ldexpl(v, (int)kk); return n < 0 ? -v : v;
  }
  std::string key() const {                // canonical byte string (normalise first)
    Dy c = *this; c.norm();
    cpp_int a = c.n < 0 ? cpp_int(-c.n) : c.n;
    return std::string(c.n < 0 ? "-" : "") + a.str(0, std::ios_base::hex) + "p" + std::to_string(c.k);
  }
};
inline int cmp(const Dy& a, const Dy& b) { return (a - b).sgn(); }
inline bool operator==(const Dy& a, const Dy& b) { return cmp(a, b) == 0; }

// z = D mod 360 in [-180, 180], exact; at the tie (|z| = 180) +180 is returned and `tie` is set
inline Dy mod360(const Dy& D, bool& tie) {
  tie = false;
  if (D.n == 0) return Dy();
  cpp_int N, Mod; long k;
  if (D.k >= 0) { N = D.n * Dy::p2((unsigned long)D.k); Mod = 360; k = 0; }
  else { N = D.n; Mod = cpp_int(360) * Dy::p2((unsigned long)(-D.k)); k = D.k; }
  cpp_int R = N % Mod; if (R < 0) R += Mod;              // 0 <= R < Mod
  cpp_int twoR = R * 2;
  if (twoR == Mod) tie = true;
  else if (twoR > Mod) R -= Mod;
  return Dy(R, k);
}

// ------------------------------------------------------------------ reference arithmetic on long double / f128
inline long double r_sin(long double x) { return sinl(x); }   inline f128 r_sin(f128 x) { return sinq(x); }
inline long double r_cos(long double x) { return cosl(x); }   inline f128 r_cos(f128 x) { return cosq(x); }
inline long double r_atan(long double x) { return atanl(x); } inline f128 r_atan(f128 x) { return atanq(x); }
inline long double r_atan2(long double y, long double x) { return atan2l(y, x); } inline f128 r_atan2(f128 y, f128 x) { return atan2q(y, x); }
inline long double r_abs(long double x) { return fabsl(x); }  inline f128 r_abs(f128 x) { return fabsq(x); }
inline int r_ilogb(long double x) { return ilogbl(x); }       inline int r_ilogb(f128 x) { return ilogbq(x); }
inline long double r_scalbn(long double x, int e) { return scalbnl(x, e); } inline f128 r_scalbn(f128 x, int e) { return scalbnq(x, e); }
inline bool r_isnan(long double x) { return std::isnan(x); }  inline bool r_isnan(f128 x) { return isnanq(x); }
inline bool r_isinf(long double x) { return std::isinf(x); }  inline bool r_isinf(f128 x) { return isinfq(x); }
template <class R> inline R r_pi();
template <> inline long double r_pi<long double>() { return 3.141592653589793238462643383279502884L; }
template <> inline f128 r_pi<f128>() { return M_PIq; }

// sin and cos of x degrees: exact reduction first, then the reduced angle (|r| <= 45) in R
template <class R> inline void sincosd_ref(long double x, const Red& q, R& s, R& c) {
  R rr = (R)q.r * (r_pi<R>() / (R)180);
  R s0 = r_sin(rr), c0 = r_cos(rr);
  switch (q.n & 3) {
  case 0: s = s0; c = c0; break;
  case 1: s = c0; c = -s0; break;
  case 2: s = -s0; c = -c0; break;
  default: s = -c0; c = s0; break;
  }
  (void)x;
}

// error of `got` (type T) against the reference in units of the T-ulp at the reference value (ulp of the
// smallest subnormal below the normal range)
template <class T, class R> inline double err_ulp(T got, R ref) {
  if (!(got == got)) return INFINITY;
  if (std::isinf(got)) return INFINITY;
  R a = r_abs(ref);
  int lo = std::numeric_limits<T>::min_exponent - 1;
  int ex = a == 0 ? lo : r_ilogb(a);
  if (ex < lo) ex = lo;
  R u = r_scalbn((R)1, ex - (std::numeric_limits<T>::digits - 1));
  return (double)(r_abs((R)got - ref) / u);
}
template <class T, class R> inline R ulp_at(R ref) {
  R a = r_abs(ref);
  int lo = std::numeric_limits<T>::min_exponent - 1;
  int ex = a == 0 ? lo : r_ilogb(a);
  if (ex < lo) ex = lo;
  return r_scalbn((R)1, ex - (std::numeric_limits<T>::digits - 1));
}

// ------------------------------------------------------------------ specifications written out independently
// AngRound: sign kept (incl. +-0), identity for |x| >= 1/16 and for NaN; below that |x| is snapped with ONE
// round-to-nearest-even to the absolute grid g = 2^(-4-p) of the numbers just below 1/16
// (equals 1/16 - RN(1/16 - |x|); both subtractions' results are exactly representable).
template <class T> inline T anground_spec(T x) {
  if (!(x == x)) return x;
  T ax = std::fabs(x);
  if (ax >= T(1) / T(16)) return x;
  const int p = std::numeric_limits<T>::digits;
  f128 y = scalbnq((f128)ax, 4 + p);          // exact, < 2^p
  f128 k = rintq(y);                          // the single rounding (default mode: nearest even)
  T r = (T)scalbnq(k, -(4 + p));              // exact: k has at most p bits
  return std::copysign(r, x);
}
// LatFix: x if |x| <= 90 else NaN
template <class T> inline bool latfix_in(T x) { return std::fabs(x) <= T(90); }

// is s == RN(s + t) (round to nearest, ties to even) ?  s finite, t finite
template <class T> inline bool mant_even(T s);
template <> inline bool mant_even<float>(float s) { uint32_t u; memcpy(&u, &s, 4); return !(u & 1); }
template <> inline bool mant_even<double>(double s) { uint64_t u; memcpy(&u, &s, 8); return !(u & 1); }
template <> inline bool mant_even<long double>(long double s) { uint64_t u; memcpy(&u, &s, 8); return !(u & 1); }
template <class T> inline bool is_rn(T s, T t) {
  if (t == 0) return true;
  const T inf = std::numeric_limits<T>::infinity();
  T up = std::nextafter(s, inf), dn = std::nextafter(s, -inf);
  T gu = up - s, gd = s - dn;                 // exact (adjacent numbers)
  if (std::isinf(up)) gu = gd; if (std::isinf(dn)) gd = gu;
  T t2 = t + t;                               // exact (|t| is at most half a gap)
  if (t > 0) return t2 < gu || (t2 == gu && mant_even(s));
  return -t2 < gd || (-t2 == gd && mant_even(s));
}

// ------------------------------------------------------------------ conformal latitude (closed forms in f128)
// e atanh(e x) for real e (es > 0) and the analytic continuation to e^2 < 0 (es < 0, e = i|es|): -|es| atan(|es| x)
inline f128 eatanhe_ref(f128 x, f128 es) {
  if (es > 0) return es * atanhq(es * x);
  if (es < 0) return -(-es) * atanq((-es) * x);
  return 0;
}
// tan(chi) = sinh(psi), psi = asinh(tau) - e atanh(e sin(phi)), sin(phi) = tau / sqrt(1 + tau^2)  (isometric latitude)
inline f128 taupf_ref(f128 tau, f128 es) {
  if (isnanq(tau) || isinfq(tau)) return tau;
  f128 sphi = tau / hypotq(1, tau);
  return sinhq(asinhq(tau) - eatanhe_ref(sphi, es));
}
// inverse by Newton on the reference itself; returns NaN if the residual test fails (self-validating)
inline f128 tauf_ref(f128 taup, f128 es) {
  if (isnanq(taup) || isinfq(taup)) return taup;
  if (taup == 0) return taup;
  f128 e2m = 1 - es * fabsq(es);                          // 1 - e^2 with e^2 = sign(es) es^2 (es < 0: prolate)
  f128 tau = fabsq(taup) > 70 ? taup * expq(eatanhe_ref(1, es)) : taup / e2m;
  for (int i = 0; i < 200; ++i) {
    f128 tpa = taupf_ref(tau, es);
    f128 dtau = (taup - tpa) * (1 + e2m * tau * tau) / (e2m * hypotq(1, tau) * hypotq(1, tpa));
    tau += dtau;
    if (fabsq(dtau) <= fabsq(tau) * 1e-33Q) break;
  }
  f128 res = taupf_ref(tau, es) - taup;
  if (!(fabsq(res) <= fabsq(taup) * 1e-30Q)) return nanq("");
  return tau;
}

// ------------------------------------------------------------------ formatting
inline std::string hx(long double x) { char b[64]; snprintf(b, sizeof b, "%La", x); return b; }
inline std::string hxd(long double x) { char b[96]; snprintf(b, sizeof b, "%.21Lg(%La)", x, x); return b; }
inline std::string q2s(f128 x) { char b[96]; quadmath_snprintf(b, sizeof b, "%.36Qg", x); return b; }
inline std::string q2s(long double x) { char b[96]; snprintf(b, sizeof b, "%.21Lg", x); return b; }

}  // namespace c16
