// oracle/ellf.hpp -- elliptic integrals and functions FROM THEIR DEFINITIONS, in __float128 (C15).
//
// Legendre forms (DLMF 19.2, and the documented definitions in EllipticFunction.hpp):
//   F(phi,k)  = int_0^phi 1/sqrt(1-k^2 sin^2 t) dt            E = int sqrt(1-k^2 sin^2 t) dt
//   D         = int sin^2 t / sqrt(1-k^2 sin^2 t) dt           Pi = int 1/((1-alpha^2 sin^2 t) sqrt(1-k^2 sin^2 t)) dt
//   G         = int sqrt(1-k^2 sin^2 t)/(1-alpha^2 sin^2 t) dt H = int cos^2 t/((1-alpha^2 sin^2 t) sqrt(1-k^2 sin^2 t)) dt
// evaluated by adaptive 24-point Gauss-Legendre quadrature of the integrand (q128::integrate).  The only facts used
// beyond the definition are that the integrand is even and pi-periodic, so  I(phi) = 2 n I(pi/2) + I(phi - n pi).
// Parameters are passed as k^2 (any value <= 1, negative allowed) and alpha^2 (<= 1) as in the library; the
// complements k'^2 = 1-k^2, alpha'^2 = 1-alpha^2 are carried separately so that k^2 -> 1 is represented exactly.
// Divergent complete integrals return +inf.
//
// Carlson forms from their defining integrals over t in (0,inf) with t = exp(u) (this turns the algebraic end-point
// singularity at t = 0 and the algebraic decay at infinity into exponential decay; the integrand is analytic in
// |Im u| < pi, so the trapezoid rule converges geometrically; q128::trap_range halves the step until agreement).
//
// Jacobi am, sn, cn, dn: inversion of F by safeguarded Newton on the quadrature; Einv likewise on E.
//
// Boost.Math (ellint_1(k,phi), ellint_3(k, n = alpha^2, phi), ellint_rj ...) is used as a second opinion only in
// oracle/selftest_ellf.cpp; nothing here depends on it.  Nothing here comes from EllipticFunction.cpp.
#pragma once
#include "oracle/quad128.hpp"
#include <cmath>

namespace ellf {
using q128::Q;

inline Q inf() { return HUGE_VALQ; }

struct Mod { Q k2, kp2, a2, ap2; };
// the two-argument constructor of the library: complements formed exactly
inline Mod mod(double k2, double alpha2 = 0) { Mod m; m.k2 = k2; m.kp2 = 1 - (Q)k2; m.a2 = alpha2; m.ap2 = 1 - (Q)alpha2; return m; }
// the four-argument constructor: the caller supplies both members of each pair, "to enable accuracy to be maintained
// when k is very close to unity"; the smaller member of each pair is taken as exact and the other one recomputed
inline Mod mod4(double k2, double alpha2, double kp2, double alphap2) {
  Mod m;
  if (std::fabs(kp2) < std::fabs(k2)) { m.kp2 = kp2; m.k2 = 1 - (Q)kp2; } else { m.k2 = k2; m.kp2 = 1 - (Q)k2; }
  if (std::fabs(alphap2) < std::fabs(alpha2)) { m.ap2 = alphap2; m.a2 = 1 - (Q)alphap2; } else { m.a2 = alpha2; m.ap2 = 1 - (Q)alpha2; }
  return m;
}

enum Kind { kF = 0, kE, kD, kPi, kG, kH };

// 1 - k^2 sin^2 and 1 - alpha^2 sin^2 without cancellation (s = sin, c = cos)
inline Q delta2(const Mod& m, Q s, Q c) { return m.k2 > 0 ? m.kp2 + m.k2 * c * c : 1 - m.k2 * s * s; }
inline Q alf2(const Mod& m, Q s, Q c) { return m.a2 > 0 ? m.ap2 + m.a2 * c * c : 1 - m.a2 * s * s; }
inline Q integrand_sc(Kind kd, const Mod& m, Q s, Q c) {
  Q d = sqrtq(delta2(m, s, c));
  switch (kd) {
  case kF: return 1 / d;
  case kE: return d;
  case kD: return s * s / d;
  case kPi: return 1 / (alf2(m, s, c) * d);
  case kG: return d / alf2(m, s, c);
  default: return m.kp2 == 0 ? fabsq(c) / alf2(m, s, c)          // k = 1: cos^2/|cos| exactly
                             : c * c / (alf2(m, s, c) * d);
  }
}
inline Q integrand(Kind kd, const Mod& m, Q t) { Q s, c; sincosq(t, &s, &c); return integrand_sc(kd, m, s, c); }

inline bool complete_diverges(Kind kd, const Mod& m) {
  bool k1 = m.kp2 == 0, a1 = m.ap2 == 0;
  switch (kd) {
  case kF: case kD: return k1;
  case kE: return false;
  case kPi: return k1 || a1;
  case kG: return a1;
  default: return a1 && k1;            // alpha = 1: H = K(k)
  }
}
// integral over [0, r], 0 <= r <= pi/2.  The interval is integrated in the variable x = pi/2 - t near the top so that
// cos is evaluated from a small argument.
inline Q incomplete0(Kind kd, const Mod& m, Q r, long* ev = nullptr) {
  if (r <= 0) return 0;
  Q hp = q128::pi() / 2;
  if (r >= hp && complete_diverges(kd, m)) return inf();
  Q split = r < 1 ? r : 1;
  Q lo = q128::integrate([&](Q t) { return integrand(kd, m, t); }, 0, split, ev);
  if (r <= 1) return lo;
  // x = pi/2 - t runs from pi/2 - r (>= 0) up to pi/2 - 1
  Q x0 = hp - r; if (x0 < 0) x0 = 0;
  Q hi = q128::integrate([&](Q x) { Q s, c; sincosq(x, &c, &s); return integrand_sc(kd, m, s, c); }, x0, hp - 1, ev);
  return lo + hi;
}
inline Q complete(Kind kd, const Mod& m) { return incomplete0(kd, m, q128::pi() / 2); }

// any real amplitude.  phi is taken as an exact number.
inline Q incomplete(Kind kd, const Mod& m, Q phi) {
  Q n = rintq(phi / q128::pi()), r = phi - n * q128::pi();
  Q v = incomplete0(kd, m, fabsq(r));
  if (r < 0) v = -v;
  if (n != 0) {
    Q C = complete(kd, m);
    if (isinfq(C)) return n > 0 ? inf() : -inf();
    v += 2 * n * C;
  }
  return v;
}
// d/dphi of the incomplete integral (for condition-aware tolerances)
inline Q deriv(Kind kd, const Mod& m, Q phi) { return integrand(kd, m, phi); }

// ---- inversion: phi in [0, pi/2] with I(phi) = x, 0 <= x <= I(pi/2); I increasing with derivative `integrand`
inline Q invert0(Kind kd, const Mod& m, Q x, Q guess) {
  Q hp = q128::pi() / 2;
  if (x <= 0) return 0;
  Q lo = 0, Ilo = 0, hi = hp;                 // bracket; I(lo) = Ilo <= x
  Q phi = guess; if (!(phi > 0)) phi = hp / 2; if (phi >= hp) phi = hp * (1 - 1e-3Q);
  Q I = incomplete0(kd, m, phi);
  for (int it = 0; it < 200; ++it) {
    if (I <= x) { lo = phi; Ilo = I; } else hi = phi;
    Q d = (x - I) / integrand(kd, m, phi);
    if (fabsq(d) <= 1e-32Q * phi) { phi += d; break; }            // converged: the last correction is below round-off
    Q nphi = phi + d;
    if (!(nphi > lo && nphi < hi)) nphi = (lo + hi) / 2;
    // incremental integral between phi and nphi (in the variable pi/2 - t near the top)
    Q inc = (nphi > 1 && phi > 1)
      ? -q128::integrate([&](Q xx) { Q s, c; sincosq(xx, &c, &s); return integrand_sc(kd, m, s, c); }, hp - phi, hp - nphi)
      : q128::integrate([&](Q t) { return integrand(kd, m, t); }, phi, nphi);
    I += inc;
    phi = nphi;
    if (hi - lo <= 1e-33Q * hi) break;
  }
  return phi;
}
// Jacobi amplitude am(x,k): F(am) = x
inline Q am(const Mod& m, Q x) {
  if (x == 0) return 0;
  Q K = complete(kF, m), ax = fabsq(x), n = 0, hp = q128::pi() / 2;
  if (!isinfq(K)) { n = rintq(ax / (2 * K)); ax -= 2 * n * K; }       // ax in [-K, K]
  Q sgn = 1; if (ax < 0) { sgn = -1; ax = -ax; }
  Q guess = isinfq(K) ? atanq(sinhq(ax)) : hp * ax / K;
  Q phi = ax >= K ? hp : invert0(kF, m, ax, guess);
  Q r = n * q128::pi() + sgn * phi;
  return x < 0 ? -r : r;
}
inline void sncndn(const Mod& m, Q x, Q& sn, Q& cn, Q& dn) {
  Q phi = am(m, x); sincosq(phi, &sn, &cn); dn = sqrtq(delta2(m, sn, cn));
}
// inverse of E(phi,k) over the whole line
inline Q Einv(const Mod& m, Q x) {
  if (x == 0) return 0;
  Q Ec = complete(kE, m), ax = fabsq(x), hp = q128::pi() / 2;
  Q n = rintq(ax / (2 * Ec)); ax -= 2 * n * Ec;
  Q sgn = 1; if (ax < 0) { sgn = -1; ax = -ax; }
  Q phi = ax >= Ec ? hp : invert0(kE, m, ax, hp * ax / Ec);
  Q r = n * q128::pi() + sgn * phi;
  return x < 0 ? -r : r;
}

// ---------------------------------------------------------------- Carlson symmetric forms, defining integrals
namespace detail {
inline void range(std::initializer_list<Q> args, Q& uL, Q& uR) {
  Q mn = 0, mx = 0; bool first = true;
  for (Q a : args) if (a > 0) { if (first) { mn = mx = a; first = false; } else { if (a < mn) mn = a; if (a > mx) mx = a; } }
  uL = logq(mn) - 220; uR = logq(mx) + 220;
}
}
// RF(x,y,z) = 1/2 int_0^inf dt / sqrt((t+x)(t+y)(t+z));  at most one argument zero
inline Q RF(Q x, Q y, Q z) {
  Q uL, uR; detail::range({x, y, z}, uL, uR);
  return q128::trap_range([&](Q u) { Q t = expq(u); return t / sqrtq((t + x) * (t + y) * (t + z)); }, uL, uR) / 2;
}
// RC(x,y) = 1/2 int_0^inf dt / (sqrt(t+x) (t+y)),  x >= 0, y > 0
inline Q RC(Q x, Q y) {
  Q uL, uR; detail::range({x, y}, uL, uR);
  return q128::trap_range([&](Q u) { Q t = expq(u); return t / (sqrtq(t + x) * (t + y)); }, uL, uR) / 2;
}
// RJ(x,y,z,p) = 3/2 int_0^inf dt / (sqrt((t+x)(t+y)(t+z)) (t+p)),  p > 0
inline Q RJ(Q x, Q y, Q z, Q p) {
  Q uL, uR; detail::range({x, y, z, p}, uL, uR);
  return q128::trap_range([&](Q u) { Q t = expq(u); return t / (sqrtq((t + x) * (t + y) * (t + z)) * (t + p)); }, uL, uR) * 3 / 2;
}
// RD(x,y,z) = 3/2 int_0^inf dt / (sqrt((t+x)(t+y)) (t+z)^(3/2)),  z > 0
inline Q RD(Q x, Q y, Q z) {
  Q uL, uR; detail::range({x, y, z}, uL, uR);
  return q128::trap_range([&](Q u) { Q t = expq(u); Q tz = t + z; return t / (sqrtq((t + x) * (t + y) * tz) * tz); }, uL, uR) * 3 / 2;
}
// RG(x,y,z) = 1/4 int_0^inf [(t+x)(t+y)(t+z)]^(-1/2) ( x/(t+x) + y/(t+y) + z/(t+z) ) t dt   (Carlson 1995 eq 1.5)
inline Q RG(Q x, Q y, Q z) {
  Q uL, uR; detail::range({x, y, z}, uL, uR);
  return q128::trap_range([&](Q u) {
    Q t = expq(u);
    return t * t * (x / (t + x) + y / (t + y) + z / (t + z)) / sqrtq((t + x) * (t + y) * (t + z)); }, uL, uR) / 4;
}
}  // namespace ellf
