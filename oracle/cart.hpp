// oracle/cart.hpp -- geocentric coordinates from the definitions, in __float128 (C07).
//
//  forward():  the closed form  X = (nu + h) cos(phi) cos(lam), Y = (nu + h) cos(phi) sin(lam), Z = ((1-e^2) nu + h) sin(phi),
//              nu = a / sqrt(1 - e^2 sin^2 phi); the trigonometric functions of the DEGREE arguments are formed after an
//              exact reduction mod 90 (so lon = 720.5 or lat = 90 are handled exactly).
//  closest():  "height of least magnitude" decided geometrically: the signed distance from (R, Z), R = hypot(X, Y), to
//              the meridian ellipse (a cos b, B sin b): the parametric latitude b is scanned over [-pi/2, pi/2] (R >= 0, so the
//              nearest point of the full ellipse lies there), every sampled local minimum of the squared distance is
//              refined by three nested 64-point rescans and a final bracketed Newton iteration on the derivative, and the
//              global minimum is taken.  The squared distance is compared through
//                 D(b) = -2 a R cos b - 2 B Z sin b + (a^2 - B^2) cos^2 b      (= dist^2 - R^2 - Z^2 - B^2)
//              so that astronomically distant points (|X| ~ 1e300) do not lose the dependence on b to cancellation.
//              No cubic, no Vermeille/Karney formulas.
//  enu():      the east/north/up unit vectors at (lat, lon) as columns of a row-major 3x3 matrix (the documented M:
//              v_geocentric = M v_enu).
#pragma once
#include <quadmath.h>
#include <vector>
#include <cmath>

namespace cart {
typedef __float128 Q;

inline void sincosd(double deg, Q& s, Q& c) {
  Q r = fmodq((Q)deg, 360);                      // exact
  int qd = (int)rintq(r / 90); r -= 90 * (Q)qd;  // exact, |r| <= 45
  Q sr, cr; sincosq(r * M_PIq / 180, &sr, &cr);
  switch (((qd % 4) + 4) % 4) { case 0: s = sr; c = cr; break; case 1: s = cr; c = -sr; break; case 2: s = -sr; c = -cr; break; default: s = -cr; c = sr; }
  if (r == 0) { if (((qd % 2) + 2) % 2 == 0) s = 0; else c = 0; }       // exact zeros at multiples of 90
}

struct Ell { Q a, f, b, e2, e2m; };
inline Ell ell(double a, double f) { Ell E; E.a = a; E.f = f; E.b = E.a * (1 - E.f); E.e2 = E.f * (2 - E.f); E.e2m = (1 - E.f) * (1 - E.f); return E; }

inline void forward(const Ell& E, double lat, double lon, Q h, Q& X, Q& Y, Q& Z) {
  Q sp, cp, sl, cl; sincosd(lat, sp, cp); sincosd(lon, sl, cl);
  Q w = E.e2 > 0 ? E.e2m + E.e2 * cp * cp : 1 - E.e2 * sp * sp;     // 1 - e^2 sin^2 without cancellation
  Q nu = E.a / sqrtq(w);
  Z = (E.e2m * nu + h) * sp;
  Q r = (nu + h) * cp;
  X = r * cl; Y = r * sl;
}
// M (row-major): columns = east, north, up in geocentric coordinates
inline void enu(double lat, double lon, Q M[9]) {
  Q sp, cp, sl, cl; sincosd(lat, sp, cp); sincosd(lon, sl, cl);
  M[0] = -sl; M[1] = -cl * sp; M[2] = cl * cp;
  M[3] = cl;  M[4] = -sl * sp; M[5] = sl * cp;
  M[6] = 0;   M[7] = cp;       M[8] = sp;
}
// documented lower bound of the returned height:  h >= -a (1-e^2)/sqrt(1-e^2 sin^2 lat)   (= -rho-like radius  (1-e^2) nu)
inline Q hmin(const Ell& E, double lat) {
  Q sp, cp; sincosd(lat, sp, cp);
  Q w = E.e2 > 0 ? E.e2m + E.e2 * cp * cp : 1 - E.e2 * sp * sp;
  return -E.a * E.e2m / sqrtq(w);
}

struct Foot { Q beta, dist; };                 // a local minimum: parametric latitude and (unsigned) distance
struct Closest {
  Q dist;                 // global minimum distance (unsigned)
  Q beta;                 // its parametric latitude
  bool inside;            // strictly inside the ellipsoid
  std::vector<Foot> minima;   // candidate feet examined (the local minima, possibly also bracket end points): diagnostics only
};

namespace detail {
struct Scan {
  static const int N = 2048;
  Q s[N + 1], c[N + 1];
  Scan() { for (int i = 0; i <= N; ++i) { Q b = -M_PIq / 2 + M_PIq * i / N; sincosq(b, &s[i], &c[i]); } c[0] = c[N] = 0; s[0] = -1; s[N] = 1; }
};
inline const Scan& scan() { static const Scan S; return S; }
}

inline Closest closest(const Ell& E, Q R, Q Z) {
  const Q a = E.a, B = E.b, A2 = a * a - B * B;
  auto D = [&](Q sb, Q cb) { return -2 * a * R * cb - 2 * B * Z * sb + A2 * cb * cb; };
  auto Db = [&](Q b) { Q sb, cb; sincosq(b, &sb, &cb); return D(sb, cb); };
  // derivative /2:  g(b) = a R sin b - B Z cos b - (a^2-B^2) sin b cos b ; g' = a R cos b + B Z sin b - (a^2-B^2) cos 2b
  auto g = [&](Q b) { Q sb, cb; sincosq(b, &sb, &cb); return a * R * sb - B * Z * cb - A2 * sb * cb; };
  auto gp = [&](Q b) { Q sb, cb; sincosq(b, &sb, &cb); return a * R * cb + B * Z * sb - A2 * (cb * cb - sb * sb); };
  const detail::Scan& S = detail::scan();
  const int N = detail::Scan::N;
  const Q hp = M_PIq / 2;
  std::vector<Q> v(N + 1);
  for (int i = 0; i <= N; ++i) v[i] = D(S.s[i], S.c[i]);
  struct Br { Q lo, hi; };
  std::vector<Br> brs;
  for (int i = 0; i <= N; ++i) {
    bool lm = (i == 0 || v[i] <= v[i - 1]) && (i == N || v[i] <= v[i + 1]);
    if (!lm) continue;
    if (i > 0 && v[i] == v[i - 1] && !brs.empty()) { brs.back().hi = -hp + M_PIq * (i + 1 > N ? N : i + 1) / N; continue; }   // plateau: extend
    brs.push_back({-hp + M_PIq * (i > 0 ? i - 1 : 0) / N, -hp + M_PIq * (i < N ? i + 1 : N) / N});
  }
  Closest out; out.dist = HUGE_VALQ; out.beta = 0;
  for (const Br& br0 : brs) {
    // nested rescans; several sub-minima inside one bracket are all followed
    std::vector<Br> cur{br0};
    for (int level = 0; level < 3; ++level) {
      std::vector<Br> nxt;
      for (const Br& br : cur) {
        const int K = 64; Q w[K + 1];
        for (int k = 0; k <= K; ++k) w[k] = Db(br.lo + (br.hi - br.lo) * k / K);
        for (int k = 0; k <= K; ++k) {
          bool lm = (k == 0 || w[k] <= w[k - 1]) && (k == K || w[k] <= w[k + 1]);
          if (!lm) continue;
          if (k > 0 && w[k] == w[k - 1] && !nxt.empty()) { nxt.back().hi = br.lo + (br.hi - br.lo) * (k + 1 > K ? K : k + 1) / K; continue; }
          nxt.push_back({br.lo + (br.hi - br.lo) * (k > 0 ? k - 1 : 0) / K, br.lo + (br.hi - br.lo) * (k < K ? k + 1 : K) / K});
        }
      }
      if (nxt.empty()) nxt = cur;
      cur.swap(nxt);
    }
    for (const Br& br : cur) {
      // final: root of g in [lo,hi] if it changes sign there (g<0 left of a minimum, >0 right), else the better end point
      Q lo = br.lo, hi = br.hi, glo = g(lo), ghi = g(hi), b;
      if (glo <= 0 && ghi >= 0 && hi > lo) {
        b = (lo + hi) / 2;
        for (int it = 0; it < 200; ++it) {
          Q gb = g(b);
          if (gb < 0) lo = b; else hi = b;
          Q d = gp(b), nb = d > 0 ? b - gb / d : (lo + hi) / 2;
          if (!(nb > lo && nb < hi)) nb = (lo + hi) / 2;
          if (nb == b || hi - lo < 1e-33Q) { b = nb; break; }
          b = nb;
        }
      } else b = Db(lo) <= Db(hi) ? lo : hi;
      Q sb, cb; sincosq(b, &sb, &cb);
      if (b <= -hp) { sb = -1; cb = 0; } else if (b >= hp) { sb = 1; cb = 0; }
      Foot ft; ft.beta = b; ft.dist = hypotq(a * cb - R, B * sb - Z);
      bool dup = false;
      for (auto& m : out.minima) if (fabsq(m.beta - ft.beta) < 1e-25Q) dup = true;
      if (!dup) out.minima.push_back(ft);
      if (ft.dist < out.dist) { out.dist = ft.dist; out.beta = b; }
    }
  }
  Q u = R / a, w = Z / B;
  out.inside = u * u + w * w < 1;
  return out;
}
}  // namespace cart
