// oracle/selftest_cart.cpp -- stand-alone self-test of oracle/cart.hpp (run by `bin/check --setup`).
//   * closest() against the construction it must invert: P = forward(lat, lon, h) with h above the documented principal
//     bound has distance |h| from the ellipsoid and is inside iff h < 0 (oblate, prolate, extreme eccentricities, heights
//     from nanometres to 1e300);
//   * closest() against an independent derivative-free search (scan of the distance + ternary search) (points inside the evolute, where
//     several local minima compete);
//   * forward()/enu(): orthonormality, finite-difference tangents (east = dP/dlon, north = dP/dlat, up = dP/dh), exact
//     degree reduction.
// Does not touch /repo.  Exit status 0 = ok.
#include "oracle/cart.hpp"
#include <cstdio>
#include <string>
using cart::Q;
static int bad = 0; static double worst = 0;
static std::string str(Q x) { char b[128]; quadmath_snprintf(b, sizeof b, "%.30Qg", x); return b; }
static void cmpabs(const char* what, Q got, Q want, Q tol) {
  Q e = fabsq(got - want); double r = (double)(e / tol);
  if (r > worst) worst = r;
  if (!(e <= tol)) { ++bad; printf("FAIL %s: got %s want %s\n", what, str(got).c_str(), str(want).c_str()); }
}
int main() {
  char nm[200];
  struct EF { double a, f; } efs[] = {{6378137, 1 / 298.257223563}, {1, 0}, {6.4e6, 0.5}, {6.4e6, -1}, {1, 0.99}, {6.4e6, 1e-10}, {6.4e6, -99}};
  for (auto ef : efs) {
    cart::Ell E = cart::ell(ef.a, ef.f);
    for (double lat : {-90.0, -89.999999, -45.0, -1e-9, 0.0, 1e-300, 30.0, 60.0, 89.9999999, 90.0}) {
      // (lat, h) is the nearest-point inverse of P as long as P lies before the equatorial plane (oblate: h > -(1-e^2) nu, the
      // documented bound), before the axis (prolate: h > -nu) and before the centre of curvature of the meridian (h > -rho)
      Q sp, cp; cart::sincosd(lat, sp, cp);
      Q w = E.e2 > 0 ? E.e2m + E.e2 * cp * cp : 1 - E.e2 * sp * sp;
      Q rho = E.a * E.e2m / (w * sqrtq(w)), nu = E.a / sqrtq(w);
      Q lim = rho < nu ? rho : nu; if (E.e2m * nu < lim) lim = E.e2m * nu;
      if (E.e2 >= 0) cmpabs("documented bound", -cart::hmin(E, lat), lim, 1e-30Q * E.a);
      for (double hs : {-0.999, -0.5, -1e-3, -1e-12, 0.0, 1e-15, 1e-9, 1e-3, 1.0, 1e4, 1e14, 1e294}) {
        Q h = hs < 0 ? (Q)hs * lim : (Q)hs * E.a;
        Q X, Y, Z; cart::forward(E, lat, 37.5, h, X, Y, Z);
        cart::Closest c = cart::closest(E, hypotq(X, Y), Z);
        snprintf(nm, sizeof nm, "closest a=%g f=%g lat=%g h=%g*", ef.a, ef.f, lat, hs);
        Q scale = fabsq(h) > E.a ? fabsq(h) : E.a;
        cmpabs(nm, c.dist, fabsq(h), 1e-28Q * scale);
        if (fabsq(h) > 1e-20Q * E.a && c.inside != (h < 0)) { ++bad; printf("FAIL %s: inside flag\n", nm); }
      }
    }
    // brute force inside the evolute / singular disc
    for (double rr : {0.0, 1e-6, 0.3, 0.9, 0.999999, 1.0, 1.000001, 1.1}) for (double zz : {0.0, 1e-9, 1e-3, 0.2, 0.7}) {
      Q Rc = (E.a * E.a - E.b * E.b) / E.a, Zc = (E.a * E.a - E.b * E.b) / E.b;       // cusps of the evolute (signed for prolate)
      Q R = fabsq(Rc) * (Q)rr, Z = fabsq(Zc) * (Q)zz;
      if (E.e2 == 0) { R = E.a * (Q)rr / 2; Z = E.a * (Q)zz / 2; }
      cart::Closest c = cart::closest(E, R, Z);
      // independent search: coarse scan of the distance itself, then ternary search around the best sample and around every
      // other sampled local minimum (no derivatives)
      auto dist = [&](Q b) { Q sb, cb; sincosq(b, &sb, &cb); return hypotq(E.a * cb - R, E.b * sb - Z); };
      const int N = 1 << 12; std::vector<Q> d(N + 1);
      for (int i = 0; i <= N; ++i) d[i] = dist(-M_PIq / 2 + M_PIq * i / N);
      Q best = HUGE_VALQ;
      for (int i = 0; i <= N; ++i) {
        if (!((i == 0 || d[i] <= d[i - 1]) && (i == N || d[i] <= d[i + 1]))) continue;
        Q lo = -M_PIq / 2 + M_PIq * (i > 0 ? i - 1 : 0) / N, hi = -M_PIq / 2 + M_PIq * (i < N ? i + 1 : N) / N;
        for (int it = 0; it < 300; ++it) { Q m1 = lo + (hi - lo) / 3, m2 = hi - (hi - lo) / 3; if (dist(m1) <= dist(m2)) hi = m2; else lo = m1; }
        Q v = dist((lo + hi) / 2); if (v < best) best = v;
      }
      snprintf(nm, sizeof nm, "brute a=%g f=%g R=%g*cusp Z=%g*cusp", ef.a, ef.f, rr, zz);
      // ternary search on a flat minimum resolves the abscissa only to sqrt(eps): the VALUE is good to ~1e-30 relative
      cmpabs(nm, c.dist, best, 1e-26Q * (E.a + best));
    }
  }
  // forward / enu
  {
    cart::Ell E = cart::ell(6378137, 1 / 298.257223563);
    Q M[9]; cart::enu(33.3, -77.7, M);
    for (int i = 0; i < 3; ++i) for (int j = 0; j < 3; ++j) { Q d = 0; for (int k = 0; k < 3; ++k) d += M[3 * k + i] * M[3 * k + j]; cmpabs("orthonormal", d, i == j ? 1 : 0, 1e-32Q); }
    Q P0[3], P1[3]; const double lat = 33.3, lon = -77.7, h = 1234.5, dl = 9.5367431640625e-7;
    cart::forward(E, lat, lon, h, P0[0], P0[1], P0[2]);
    Q sp, cp; cart::sincosd(lat, sp, cp); Q w = E.e2m + E.e2 * cp * cp, nu = E.a / sqrtq(w), rho = E.a * E.e2m / (w * sqrtq(w));
    cart::forward(E, lat, lon + dl, h, P1[0], P1[1], P1[2]);
    for (int k = 0; k < 3; ++k) cmpabs("east", (P1[k] - P0[k]) / (dl * M_PIq / 180 * (nu + h) * cp), M[3 * k + 0], 1e-7Q);
    cart::forward(E, lat + dl, lon, h, P1[0], P1[1], P1[2]);
    for (int k = 0; k < 3; ++k) cmpabs("north", (P1[k] - P0[k]) / (dl * M_PIq / 180 * (rho + h)), M[3 * k + 1], 1e-7Q);
    cart::forward(E, lat, lon, h + 1, P1[0], P1[1], P1[2]);
    for (int k = 0; k < 3; ++k) cmpabs("up", P1[k] - P0[k], M[3 * k + 2], 1e-26Q);
    Q X, Y, Z; cart::forward(E, 90, 720.5, 0, X, Y, Z);
    cmpabs("pole X", X, 0, 0); cmpabs("pole Z", Z, E.b, 1e-26Q);
    cart::forward(E, 0, 180, 0, X, Y, Z); cmpabs("X at lon 180", X, -E.a, 0); cmpabs("Y at lon 180", Y, 0, 0);
  }
  printf("oracle selftest cart: %s (worst error/tolerance %.3g, %d failures)\n", bad ? "FAILED" : "ok", worst, bad);
  return bad ? 1 : 0;
}
