// oracle/geod_ode.hpp -- independent reference for geodesics on an ellipsoid of revolution.
//
// The geodesic is integrated as constrained motion in R^3 on  x^2/a^2 + y^2/a^2 + z^2/b^2 = 1 :
//     r' = t ,   t' = -kappa_n n^ ,   kappa_n = (t.Qt)/|Qr| ,  n^ = Qr/|Qr| ,  Q = diag(a^-2, a^-2, b^-2)
// i.e.  t' = -(t.Qt)/(Qr.Qr) Qr.  Together with the Jacobi equation  u'' + K u = 0,
// K = 1/(a^4 b^2 |Qr|^4)  (Gaussian curvature of the quadric) with initial data (0,1) -> m12, M21 = u'
// and (1,0) -> M12.  Nothing of the classical reduction (auxiliary sphere, series in f, elliptic
// integrals) is used for position, azimuth, m12, M12, M21.
//
// Integrator: Taylor-series method of order N (default 30) with a step chosen from the size of the last
// coefficients (the right-hand side is rational, so the Taylor coefficients follow from Cauchy products),
// lengths in units of a.  Type T is long double for bulk work, __float128 for the self checks.
//
// Area S12 (between the segment and the equator):  dS = c^2 sin(xi) dlambda with xi the authalic latitude
// (closed-form zone area).  Because dlambda is singular at the poles the exact identity
// d(alpha) = sin(phi) dlambda (valid on every geodesic of a surface of revolution) is used to write
//     S12 = c^2 (alpha2 - alpha1) + c^2 L Int  H(sin phi) w ds ,   H(u) = (sin xi - u)/(1-u^2), w = 1/|Qr|^2
// with L = x t_y - y t_x the conserved angular momentum; the integrand is smooth everywhere and is
// integrated by Gauss-Legendre on the dense Taylor output.  (selftest.cpp checks it against the direct
// c^2 sin(xi) dlambda form.)
//
// The arc length on the auxiliary sphere is a *defined* quantity (sigma), so for it the definition is used:
//     s/b = Int sqrt(1 + k^2 sin^2 sigma) d sigma ,  k^2 = e'^2 cos^2 alpha0   (adaptive Gauss-Legendre).
#pragma once
#include <cmath>
#include <cstdio>
#include <quadmath.h>
#include <vector>

namespace geod_ode {

typedef long double ld;
typedef __float128 f128;

namespace fn {
inline ld Sqrt(ld x) { return sqrtl(x); }       inline f128 Sqrt(f128 x) { return sqrtq(x); }
inline ld Sin(ld x) { return sinl(x); }         inline f128 Sin(f128 x) { return sinq(x); }
inline ld Cos(ld x) { return cosl(x); }         inline f128 Cos(f128 x) { return cosq(x); }
inline ld Atan(ld x) { return atanl(x); }       inline f128 Atan(f128 x) { return atanq(x); }
inline ld Atan2(ld y, ld x) { return atan2l(y, x); } inline f128 Atan2(f128 y, f128 x) { return atan2q(y, x); }
inline ld Atanh(ld x) { return atanhl(x); }     inline f128 Atanh(f128 x) { return atanhq(x); }
inline ld Fabs(ld x) { return fabsl(x); }       inline f128 Fabs(f128 x) { return fabsq(x); }
inline ld Floor(ld x) { return floorl(x); }     inline f128 Floor(f128 x) { return floorq(x); }
inline ld Hypot(ld x, ld y) { return hypotl(x, y); } inline f128 Hypot(f128 x, f128 y) { return hypotq(x, y); }
inline ld Pi(ld) { return 3.141592653589793238462643383279502884L; }
inline f128 Pi(f128) { return M_PIq; }
inline ld Eps(ld) { return 1.0842021724855044e-19L; }
inline f128 Eps(f128) { return FLT128_EPSILON; }
}  // namespace fn

template <class T> inline T pi() { return fn::Pi(T(0)); }
template <class T> inline T deg() { return fn::Pi(T(0)) / T(180); }

// sin and cos of an angle given in degrees as a double; the reduction to [-45,45] is exact (IEEE remquo),
// so multiples of 90 give exact 0 / +-1.
template <class T> inline void sincosd(double x, T& s, T& c) {
  int q = 0;
  double r = std::remquo(x, 90.0, &q);       // exact
  T rr = T(r) * deg<T>();
  T s1 = r == 0 ? T(0) : fn::Sin(rr), c1 = r == 0 ? T(1) : fn::Cos(rr);
  switch (unsigned(q) & 3u) {
  case 0u: s = s1; c = c1; break;
  case 1u: s = c1; c = -s1; break;
  case 2u: s = -s1; c = -c1; break;
  default: s = -c1; c = s1; break;
  }
  if (s == 0) s = T(0);                       // drop the sign of zero
  if (c == 0) c = T(0);
}

// ------------------------------------------------------------------ Gauss-Legendre nodes on [-1,1]
template <class T> inline void gauss_legendre(int n, T* x, T* w) {
  for (int i = 0; i < n; ++i) {
    T z = fn::Cos(pi<T>() * (T(i) + T(0.75)) / (T(n) + T(0.5)));
    T pp = 0;
    for (int it = 0; it < 100; ++it) {
      T p1 = 1, p2 = 0;
      for (int j = 0; j < n; ++j) { T p3 = p2; p2 = p1; p1 = ((T(2 * j + 1)) * z * p2 - T(j) * p3) / T(j + 1); }
      pp = T(n) * (z * p1 - p2) / (z * z - 1);
      T dz = p1 / pp; z -= dz;
      if (fn::Fabs(dz) < 4 * fn::Eps(T(0))) break;
    }
    { T p1 = 1, p2 = 0;
      for (int j = 0; j < n; ++j) { T p3 = p2; p2 = p1; p1 = ((T(2 * j + 1)) * z * p2 - T(j) * p3) / T(j + 1); }
      pp = T(n) * (z * p1 - p2) / (z * z - 1); }
    x[i] = z; w[i] = 2 / ((1 - z * z) * pp * pp);
  }
}
template <class T, int NG> struct GL {
  T x[NG], w[NG];
  GL() { gauss_legendre<T>(NG, x, w); }
  static const GL& get() { static const GL g; return g; }
  template <class F> T panel(F f, T a, T b) const {
    T c = (a + b) / 2, h = (b - a) / 2, s = 0;
    for (int i = 0; i < NG; ++i) s += w[i] * f(c + h * x[i]);
    return s * h;
  }
};
// adaptive: whole panel against its two halves.  The acceptance threshold never drops below the round-off level of the panel
// itself (16 eps |integral|), and the recursion is at most 14 deep (a 16-point rule on 1/16384 of a panel is far beyond resolved),
// so the cost is bounded whatever the integrand.
template <class T, class F> inline T adapt(F f, T a, T b, T abstol, int depth = 0) {
  const GL<T, 16>& g = GL<T, 16>::get();
  T m = (a + b) / 2;
  T i1 = g.panel(f, a, b), i2 = g.panel(f, a, m) + g.panel(f, m, b);
  T thr = 16 * fn::Eps(T(0)) * fn::Fabs(i2); if (abstol > thr) thr = abstol;
  if (fn::Fabs(i1 - i2) <= thr || depth >= 14) return i2;
  return adapt<T, F>(f, a, m, abstol / 2, depth + 1) + adapt<T, F>(f, m, b, abstol / 2, depth + 1);
}

// ------------------------------------------------------------------ ellipsoid
template <class T> struct Ellipsoid {
  T a, f, f1, b, e2, ep2, qz, c2n;      // qz = 1/f1^2; c2n = (authalic radius / a)^2
  Ellipsoid() {}
  Ellipsoid(double a_, double f_) {
    a = T(a_); f = T(f_); f1 = 1 - f; b = a * f1; e2 = f * (2 - f); ep2 = e2 / (f1 * f1); qz = 1 / (f1 * f1);
    c2n = (1 + f1 * f1 * Tf(T(1))) / 2;
  }
  // atanh(e x)/e continued to e^2 < 0
  T Tf(T x) const {
    if (e2 > 0) { T e = fn::Sqrt(e2); return fn::Atanh(e * x) / e; }
    if (e2 < 0) { T e = fn::Sqrt(-e2); return fn::Atan(e * x) / e; }
    return x;
  }
  T c2() const { return c2n * a * a; }                       // authalic radius squared (m^2)
  T area() const { return 4 * pi<T>() * c2(); }              // closed-form total area
  // b * Int_{s0}^{s0+ds} sqrt(1 + k2 sin^2 sigma) d sigma
  T arc(T k2, T s0, T ds) const {
    auto g = [&](T x) { T s = fn::Sin(x); return fn::Sqrt(1 + k2 * s * s); };
    T tol = 8 * fn::Eps(T(0));
    T P = pi<T>();
    // whole periods (period pi) are taken out
    T np = fn::Floor(fn::Fabs(ds) / P);
    T rem = ds - (ds < 0 ? -np : np) * P;
    T tot = 0;
    if (np > 0) {
      T half = 0;                                            // Int_0^{pi/2}
      const int NP = 8;
      for (int i = 0; i < NP; ++i) half += adapt<T>(g, P / 2 * T(i) / NP, P / 2 * T(i + 1) / NP, tol);
      tot += (ds < 0 ? -np : np) * 2 * half;
    }
    const int NP = 8;
    for (int i = 0; i < NP; ++i) tot += adapt<T>(g, s0 + rem * T(i) / NP, s0 + rem * T(i + 1) / NP, tol);
    return b * tot;
  }
  T quarter_meridian() const { return arc(ep2, T(0), pi<T>() / 2); }
  // H(u) = (sin xi(u) - u)/(1 - u^2) for u = sin(phi) >= 0, with omu = 1 - u supplied (stable near the pole)
  T Hfun(T u, T omu) const {
    if (e2 == 0) return T(0);
    // X = (A(1) - A(u))/(1-u) with A(u) = (f1^2/2)[u/(1-e2 u^2) + Tf(u)]
    T d = 1 - e2 * u;                                        // > 0
    T arg = omu / d;                                         // (1-u)/(1-e2 u)
    T dT;                                                    // (Tf(1) - Tf(u))/(1-u)
    if (omu == 0) dT = 1 / (1 - e2);
    else if (e2 > 0) { T e = fn::Sqrt(e2); dT = fn::Atanh(e * arg) / (e * omu); }
    else { T e = fn::Sqrt(-e2); dT = fn::Atan(e * arg) / (e * omu); }
    T X = (f1 * f1 / 2) * ((1 + e2 * u) / ((1 - e2) * (1 - e2 * u * u)) + dT);
    return (c2n - X) / (c2n * (1 + u));
  }
  // c^2 sin(xi)/a^2: zone area between equator and latitude with sin(phi) = u, per radian of longitude
  T zone(T u) const { return (f1 * f1 / 2) * (u / (1 - e2 * u * u) + Tf(u)); }
  // geodetic (degrees, doubles) -> Cartesian unit-a coordinates and the local north / east unit vectors
  void frame(double lat, double lon, T r[3], T N[3], T E[3]) const {
    T sp, cp, sl, cl; sincosd<T>(lat, sp, cp); sincosd<T>(lon, sl, cl);
    T nu = 1 / fn::Sqrt(1 - e2 * sp * sp);
    r[0] = nu * cp * cl; r[1] = nu * cp * sl; r[2] = nu * f1 * f1 * sp;
    N[0] = -sp * cl; N[1] = -sp * sl; N[2] = cp;
    E[0] = -sl; E[1] = cl; E[2] = 0;
  }
  void posdir(double lat, double lon, double azi, T r[3], T t[3]) const {
    T N[3], E[3], sa, ca; frame(lat, lon, r, N, E); sincosd<T>(azi, sa, ca);
    for (int i = 0; i < 3; ++i) t[i] = ca * N[i] + sa * E[i];
  }
};

// ------------------------------------------------------------------ result of following a geodesic
template <class T> struct Point {
  T s;                 // distance from point 1 (metres, signed)
  T r[3], t[3];        // position (metres) and unit tangent in the frame where lon1 = 0
  T sinlat, coslat;    // of the geodetic latitude
  T lon12;             // accumulated longitude difference (radians); for sense == 0 only |lon12| is defined
  T alp2;              // forward azimuth (radians), on the branch of the sense of rotation
  T m12, M12, M21;     // metres, 1, 1
  T S12;               // m^2; for sense == 0 only |S12| is defined; undefined if endpole
  T sig12;             // arc length on the auxiliary sphere (radians) by tracking (polish with Ellipsoid::arc)
  T sig1, k2;          // start arc and k^2 of the classical reduction
  int sense;           // +1 east, -1 west, 0 exactly meridional with sin(azi1) = 0
  bool meridional;     // L == 0 exactly
  bool endpole;        // end point closer than 1e-12 a to the axis
  long steps;
};

// ------------------------------------------------------------------ Taylor integrator
template <class T, int NMAX = 48> struct Traj {
  const Ellipsoid<T>* E;
  int N; T tol, hcap; bool want_area; int NGa;
  T r[3], t[3], jm[2], jM[2];
  T s;                      // unit-a signed arc position
  T L; int sense; bool meridional;
  T d[2];                   // meridional: unit direction in the xy-plane with (x,y) = rho_s d
  T lam0;                   // meridional: |longitude offset| of the plane from lon1 (0 unless pole start)
  int ncross; bool neg;     // meridional: pole crossings, current sign state of rho_s
  T lam, atprev;            // generic: accumulated longitude, previous atan2
  T sig, sgprev; bool sig_ok;
  T aint;                   // Int H w ds
  T alp1, sig1, k2, salp0, calp0;
  long steps;
  // Taylor coefficient arrays
  T R[3][NMAX + 2], Tt[3][NMAX + 2], A[NMAX + 2], B[NMAX + 2], W[NMAX + 2], C[NMAX + 2], K[NMAX + 2],
    U[2][NMAX + 2], V[2][NMAX + 2];

  Traj(const Ellipsoid<T>& e, int order = 30, T tol_ = T(1e-22L), T hcap_ = T(1), bool area = true)
    : E(&e), N(order), tol(tol_), hcap(hcap_), want_area(area) {}

  void init(double lat1, double azi1) {
    E->posdir(lat1, 0.0, azi1, r, t);
    jm[0] = 0; jm[1] = 1; jM[0] = 1; jM[1] = 0; s = 0; steps = 0; aint = 0;
    T sa, ca; sincosd<T>(azi1, sa, ca);
    alp1 = fn::Atan2(sa, ca);
    L = r[0] * t[1] - r[1] * t[0];
    meridional = (L == 0);
    sense = L > 0 ? 1 : (L < 0 ? -1 : (sa > 0 ? 1 : (sa < 0 ? -1 : 0)));
    T rho = fn::Hypot(r[0], r[1]);
    ncross = 0; neg = false; lam = 0; atprev = 0; lam0 = 0; started = false; polestart = false; hdir = 1;
    if (meridional) {
      if (rho > 0) { d[0] = 1; d[1] = 0; }
      else {
        polestart = true;
        T th = fn::Hypot(t[0], t[1]); d[0] = t[0] / th; d[1] = t[1] / th;
        T mu = fn::Atan2(d[1], d[0]);                       // leaving meridian relative to lon1
        if (sense > 0) { if (mu < 0) mu += 2 * pi<T>(); lam0 = mu; }
        else if (sense < 0) { if (mu > 0) mu -= 2 * pi<T>(); lam0 = -mu; }
        else lam0 = fn::Fabs(mu);                           // 0 or pi
      }
    }
    // classical reduction constants (for the arc length only)
    T sp, cp; sincosd<T>(lat1, sp, cp);
    T sb = E->f1 * sp, cb = cp; { T h = fn::Hypot(sb, cb); sb /= h; cb /= h; }
    salp0 = sa * cb; calp0 = fn::Hypot(ca, sa * sb);
    k2 = E->ep2 * calp0 * calp0;
    T y = sb, x = ca * cb;
    sig1 = (y == 0 && x == 0) ? T(0) : fn::Atan2(y, x);
    sig = 0; sgprev = sig1; sig_ok = true;
  }

  static T horner(const T* c, int n, T h) { T v = c[n]; for (int i = n - 1; i >= 0; --i) v = v * h + c[i]; return v; }

  void coeffs() {
    const T qz = E->qz, kf = E->qz;                         // K = w^2 / f1^2
    for (int i = 0; i < 3; ++i) { R[i][0] = r[i]; Tt[i][0] = t[i]; }
    U[0][0] = jm[0]; V[0][0] = jm[1]; U[1][0] = jM[0]; V[1][0] = jM[1];
    for (int k = 0; k <= N; ++k) {
      T a = 0, b = 0;
      for (int i = 0; i <= k; ++i) {
        a += Tt[0][i] * Tt[0][k - i] + Tt[1][i] * Tt[1][k - i] + qz * Tt[2][i] * Tt[2][k - i];
        b += R[0][i] * R[0][k - i] + R[1][i] * R[1][k - i] + qz * qz * R[2][i] * R[2][k - i];
      }
      A[k] = a; B[k] = b;
      if (k == 0) W[0] = 1 / B[0];
      else { T x = 0; for (int i = 1; i <= k; ++i) x += B[i] * W[k - i]; W[k] = -W[0] * x; }
      T c = 0, kk = 0;
      for (int i = 0; i <= k; ++i) { c += A[i] * W[k - i]; kk += W[i] * W[k - i]; }
      C[k] = c; K[k] = kk * kf;
      if (k == N) break;
      T D0 = 0, D1 = 0, D2 = 0, g0 = 0, g1 = 0;
      for (int i = 0; i <= k; ++i) {
        D0 += C[i] * R[0][k - i]; D1 += C[i] * R[1][k - i]; D2 += C[i] * R[2][k - i];
        g0 += K[i] * U[0][k - i]; g1 += K[i] * U[1][k - i];
      }
      T kp = T(k + 1);
      R[0][k + 1] = Tt[0][k] / kp; R[1][k + 1] = Tt[1][k] / kp; R[2][k + 1] = Tt[2][k] / kp;
      Tt[0][k + 1] = -D0 / kp; Tt[1][k + 1] = -D1 / kp; Tt[2][k + 1] = -qz * D2 / kp;
      U[0][k + 1] = V[0][k] / kp; U[1][k + 1] = V[1][k] / kp;
      V[0][k + 1] = -g0 / kp; V[1][k + 1] = -g1 / kp;
    }
  }
  T stepsize() const {
    auto nrm = [&](int k) {
      T m = 0;
      for (int i = 0; i < 3; ++i) { T x = fn::Fabs(R[i][k]); if (x > m) m = x; x = fn::Fabs(Tt[i][k]); if (x > m) m = x; }
      T um = fn::Fabs(U[0][0]) + fn::Fabs(V[0][0]) + 1, uM = fn::Fabs(U[1][0]) + fn::Fabs(V[1][0]) + 1;
      for (int j = 0; j < 2; ++j) {
        T sc = j == 0 ? um : uM;
        T x = fn::Fabs(U[j][k]) / sc; if (x > m) m = x; x = fn::Fabs(V[j][k]) / sc; if (x > m) m = x;
      }
      { T x = fn::Fabs(W[k]) / W[0]; if (x > m) m = x; }
      return m;
    };
    ld m1 = (ld)nrm(N), m2 = (ld)nrm(N - 1), tl = (ld)tol;
    ld h1 = m1 > 0 ? expl(logl(tl / m1) / N) : 1e9L, h2 = m2 > 0 ? expl(logl(tl / m2) / (N - 1)) : 1e9L;
    ld h = h1 < h2 ? h1 : h2;
    if (h > (ld)hcap) h = (ld)hcap;
    return T(h);
  }

  // integrand of the area at offset tau inside the current step
  T area_integrand(T tau) const {
    T x = horner(R[0], N, tau), y = horner(R[1], N, tau), z = horner(R[2], N, tau), w = horner(W, N, tau);
    T sw = fn::Sqrt(w);
    T u = z * E->qz * sw;                                  // sin(phi)
    T c2p = (x * x + y * y) * w;                           // cos^2(phi)
    T au = fn::Fabs(u);
    T omu = c2p / (1 + au);
    T H = E->Hfun(au, omu);
    return (u < 0 ? -H : H) * w;
  }

  // area integrand over [a,b] inside the current step: 20-point Gauss-Legendre, halved until the halves agree with the whole (the
  // step size is chosen from the geodesic alone; on very eccentric ellipsoids H(sin phi) varies faster than the geodesic near a pole)
  T area_panel(T a, T b, int depth) const {
    const GL<T, 20>& g = GL<T, 20>::get();
    auto gl = [&](T x0, T x1) { T c = (x0 + x1) / 2, hh = (x1 - x0) / 2, q = 0; for (int i = 0; i < 20; ++i) q += g.w[i] * area_integrand(c + hh * g.x[i]); return q * hh; };
    T m = (a + b) / 2, i1 = gl(a, b), i2 = gl(a, m) + gl(m, b);
    T thr = 64 * fn::Eps(T(0)) * (fn::Fabs(i2) + fn::Fabs(b - a) * T(1e-3L));
    if (fn::Fabs(i1 - i2) <= thr || depth >= 8) return i2;
    return area_panel(a, m, depth + 1) + area_panel(m, b, depth + 1);
  }

  void track() {
    // longitude
    if (meridional) {
      T rs = r[0] * d[0] + r[1] * d[1];
      bool ng = rs < 0;
      if (!started && polestart) neg = hdir < 0;            // the side first entered is not a crossing
      if (ng != neg) { ++ncross; neg = ng; }
    } else {
      T at = fn::Atan2(r[1], r[0]);
      T dl = (at - atprev) * T(sense) * (hdir < 0 ? -1 : 1);
      T P = pi<T>();
      while (dl < -P / 2) dl += 2 * P;
      while (dl >= 3 * P / 2) dl -= 2 * P;
      lam += dl * T(sense) * (hdir < 0 ? -1 : 1);
      atprev = at;
    }
    started = true;
    // arc on the auxiliary sphere
    T sb, cb, ca; betaalpha(sb, cb, ca);
    T y = sb, x = ca * cb;
    if (y == 0 && x == 0) { sig_ok = false; return; }
    T sg = fn::Atan2(y, x);
    T ds = (sg - sgprev) * (hdir < 0 ? -1 : 1);
    T P = pi<T>();
    while (ds < -P / 2) ds += 2 * P;
    while (ds >= 3 * P / 2) ds -= 2 * P;
    sig += ds * (hdir < 0 ? -1 : 1);
    sgprev = sg;
  }
  int hdir = 1; bool started = false, polestart = false;

  // reduced latitude and cos(azimuth) of the current state
  void betaalpha(T& sb, T& cb, T& ca) const {
    T q2 = r[2] * E->qz, rho = fn::Hypot(r[0], r[1]);
    T qn = fn::Hypot(rho, q2);
    T sp = q2 / qn, cp = rho / qn;
    sb = E->f1 * sp; cb = cp; { T h = fn::Hypot(sb, cb); sb /= h; cb /= h; }
    T rx, ry;
    if (meridional) { T rs = r[0] * d[0] + r[1] * d[1]; rx = rs < 0 ? -d[0] : d[0]; ry = rs < 0 ? -d[1] : d[1]; }
    else { rx = r[0] / rho; ry = r[1] / rho; }
    ca = -sp * (t[0] * rx + t[1] * ry) + cp * t[2];
  }

  // advance to unit-a arc position starg (monotone sequences of targets on either side of 0)
  void advance(T starg) {
    const GL<T, 20>& g = GL<T, 20>::get();
    while (s != starg) {
      coeffs();
      T h = stepsize();
      T rem = starg - s;
      hdir = rem < 0 ? -1 : 1;
      bool last = fn::Fabs(rem) <= h;
      if (last) h = rem; else if (fn::Fabs(rem) < 2 * h) h = rem / 2; else h = hdir * h;
      if (want_area && !meridional) aint += area_panel(T(0), h, 0);
      T nr[3], nt[3];
      for (int i = 0; i < 3; ++i) { nr[i] = horner(R[i], N, h); nt[i] = horner(Tt[i], N, h); }
      T u0 = horner(U[0], N, h), v0 = horner(V[0], N, h), u1 = horner(U[1], N, h), v1 = horner(V[1], N, h);
      for (int i = 0; i < 3; ++i) { r[i] = nr[i]; t[i] = nt[i]; }
      jm[0] = u0; jm[1] = v0; jM[0] = u1; jM[1] = v1;
      s = last ? starg : s + h;
      ++steps;
      track();
    }
  }

  Point<T> point() const {
    Point<T> p; const T a = E->a;
    p.s = s * a;
    for (int i = 0; i < 3; ++i) { p.r[i] = r[i] * a; p.t[i] = t[i]; }
    T q2 = r[2] * E->qz, rho = fn::Hypot(r[0], r[1]); T qn = fn::Hypot(rho, q2);
    p.sinlat = q2 / qn; p.coslat = rho / qn;
    p.endpole = rho < T(1e-12L);
    p.sense = sense; p.meridional = meridional; p.steps = steps;
    p.m12 = jm[0] * a; p.M21 = jm[1]; p.M12 = jM[0];
    p.sig1 = sig1; p.k2 = k2;
    p.sig12 = (sig_ok && fn::Fabs(k2) > T(1e-30L)) ? sig : s / E->f1;
    T sb, cb, ca;
    if (rho > 0 || meridional) const_cast<Traj*>(this)->betaalpha(sb, cb, ca); else ca = 1;
    if (meridional) {
      // forward: sense*(lam0 + pi n); backward from a pole the plane is entered on the other side (pi - lam0)
      T l0 = (polestart && started) ? (hdir < 0 ? pi<T>() - lam0 : lam0) : T(0);
      p.lon12 = (sense == 0 ? T(1) : T(sense)) * T(hdir) * (l0 + pi<T>() * T(ncross));
      // azimuth is 0 or +-pi
      T al2 = ca > 0 ? T(0) : (sense == 0 ? T(1) : T(sense)) * pi<T>();
      // alp1 on the same branch
      T a1 = alp1;
      if (sense == 0) a1 = fn::Fabs(alp1);                  // 0 or pi; only |S12| defined
      else if (sense > 0 && a1 < 0) a1 += 2 * pi<T>();      // azi1 = -180 cannot have sense>0; kept for safety
      else if (sense < 0 && a1 > 0) a1 -= 2 * pi<T>();
      p.alp2 = al2;
      p.S12 = E->c2() * (al2 - a1);
    } else {
      p.lon12 = lam;
      T sa2 = L / rho;
      p.alp2 = fn::Atan2(sa2, ca);
      p.S12 = E->c2() * ((p.alp2 - alp1) + L * aint);
    }
    return p;
  }
};

// one-shot convenience: follow from (lat1, lon = 0, azi1) for s12 metres
template <class T> inline Point<T> follow(const Ellipsoid<T>& e, double lat1, double azi1, T s12, bool area = true,
                                          int order = 30, T tol = T(1e-22L), T hcap = T(1)) {
  Traj<T> tr(e, order, tol, hcap, area);
  tr.init(lat1, azi1);
  tr.advance(s12 / e.a);
  return tr.point();
}

// distance corresponding to an arc length a12 (degrees) from (lat1, azi1): the definition of sigma
template <class T> inline T arc_to_dist(const Ellipsoid<T>& e, double lat1, double azi1, double a12) {
  Traj<T> tr(e); tr.init(lat1, azi1);
  return e.arc(tr.k2, tr.sig1, T(a12) * deg<T>());
}
// arc length (radians) for a distance: tracked value polished by Newton on the defining integral
template <class T> inline T dist_to_arc(const Ellipsoid<T>& e, const Point<T>& p, T* dsdsig = nullptr) {
  T sg = p.sig12;
  T der = 0;
  for (int it = 0; it < 4; ++it) {
    T F = e.arc(p.k2, p.sig1, sg);
    T ss = fn::Sin(p.sig1 + sg);
    der = e.b * fn::Sqrt(1 + p.k2 * ss * ss);
    T dsg = (F - p.s) / der;
    sg -= dsg;
    if (fn::Fabs(dsg) < 8 * fn::Eps(T(0)) * (1 + fn::Fabs(sg))) break;
  }
  if (dsdsig) *dsdsig = der;
  return sg;
}

}  // namespace geod_ode
