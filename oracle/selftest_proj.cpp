// oracle/selftest_proj.cpp -- self checks of oracle/tm_ode.hpp and oracle/proj_cf.hpp (stand-alone; run by `bin/check --setup`).
//   g++ -std=gnu++17 -O2 -I/verif oracle/selftest_proj.cpp -lquadmath ; exit status != 0 on failure.  Does not touch /repo.
// Every oracle is compared with a second formulation:
//  tm_ode  (1) long double vs __float128 integration, different orders/tolerances
//          (2) e = 0: the closed form of the spherical transverse Mercator
//          (3) the integrated complex latitude satisfies the closed-form isometric-latitude identity  psi(phi) = w  (complex asinh/atanh)
//          (4) integration along the real axis reproduces the Gauss-Legendre meridian distance; two quadrature panelings agree
//          (5) Cauchy-Riemann: numerical d z / d lambda = i dz/dw at the end point (k, gamma are consistent with the map)
//          (6) the via-north path agrees with the standard path where both are legitimate (lat > 0)
//          (7) branch-point easting K'-E' against the arithmetic-geometric-mean evaluation of the complete elliptic integrals
//  proj_cf (8) conformality of polar stereographic / LCC, area preservation of Albers by central differences; k, gamma closed forms = Jacobian
//          (9) k = k1 on the standard parallels, y = 0 at the origin latitude, origin = latitude of minimum scale (scan)
//         (10) limits: LCC(n -> 0) -> Mercator, LCC(n -> 1) -> polar stereographic; Albers(n -> 0) -> cylindrical, Albers(lat -> 90) -> azimuthal
//         (11) sphere: textbook spherical formulas (Snyder 15-1..15-4, 14-1..14-6, 21-5)
#include <cstdio>
#include <complex>
#include "oracle/tm_ode.hpp"
#include "oracle/proj_cf.hpp"

typedef long double ld;
typedef __float128 Q;
static int bad = 0;
static void expect(bool ok, const char* what, double v, double tol) {
  if (!ok) { ++bad; printf("selftest_proj FAIL: %s  value %.3e tolerance %.3e\n", what, v, tol); }
}

static void test_tm() {
  const ld e2s[] = {0.0066943799901413165L, 0.0199L, 0.19L, -0.0201L};
  tm_ode::Options o1, o2; o2.order = 20; o2.tol = 1e-19;
  tm_ode::Options oq; oq.order = 40; oq.tol = 1e-30;
  for (ld e2 : e2s) {
    ld lonb = tm_ode::branch_lon_deg<ld>(e2);
    for (double lat : {0.0, 1e-9, 10.0, 45.0, 80.0, 89.9}) for (double lon : {1e-6, 3.0, 35.0, 60.0, 80.0, 89.0, 90.0, 120.0, 179.0}) {
      if (e2 > 0 && lat < 1 && lon > (double)lonb - 0.5) continue;          // near / beyond the branch point on the equator
      if (e2 < 0 && lon > 75) continue;                                    // prolate: singular points near dlon = 90
      if (e2 > 0.1 && lat <= 10 && lon > (double)lonb - 5) continue;
      auto r1 = tm_ode::forward<ld>(e2, lat, lon, o1), r2 = tm_ode::forward<ld>(e2, lat, lon, o2);
      auto rq = tm_ode::forward<Q>((Q)e2, lat, lon, oq);
      expect(r1.ok && r2.ok && rq.ok, "tm_ode integration succeeded", lat, lon);
      if (!(r1.ok && r2.ok && rq.ok)) continue;
      double d12 = (double)(hypotl(r1.xi - r2.xi, r1.eta - r2.eta) / r1.k), d1q = (double)(hypotq(rq.xi - r1.xi, rq.eta - r1.eta) / rq.k);
      expect(d12 < 2e-17, "tm_ode: two long double settings agree (ground, a = 1)", d12, 2e-17);
      expect(d1q < 2e-17, "tm_ode: long double agrees with __float128 (ground, a = 1)", d1q, 2e-17);
      expect(fabsl(r1.k / (ld)rq.k - 1) < 1e-16L * (1 + r1.absS), "tm_ode: scale ld vs f128", (double)fabsl(r1.k / (ld)rq.k - 1), 1e-16);
      expect(fabsl(r1.gamma_deg - (ld)rq.gamma_deg) < 1e-14L * (1 + r1.absS), "tm_ode: convergence ld vs f128", (double)fabsl(r1.gamma_deg - (ld)rq.gamma_deg), 1e-14);
      // (5) Cauchy-Riemann / k, gamma = modulus and argument of the numerical derivative along the parallel
      if (lat > 0 && lat < 89 && lon >= 1 && lon < 170) {
        const double h = 1.0 / 8192;     // degrees; a power of two so that lon +- h, lon +- 2h are exact
        auto a = tm_ode::forward<ld>(e2, lat, lon + h, o1), b = tm_ode::forward<ld>(e2, lat, lon - h, o1);
        auto a2 = tm_ode::forward<ld>(e2, lat, lon + 2 * h, o1), b2 = tm_ode::forward<ld>(e2, lat, lon - 2 * h, o1);
        ld hh = h * tm_ode::deg<ld>();
        // 4th-order central difference of z = xi + i eta with respect to lambda;  dz/dlambda = i dz/dw
        ld dxi = (8 * (a.xi - b.xi) - (a2.xi - b2.xi)) / (12 * hh), deta = (8 * (a.eta - b.eta) - (a2.eta - b2.eta)) / (12 * hh);
        // dz/dw = deta - i dxi
        ld sphi, cphi; tm_ode::sincosd<ld>(lat, sphi, cphi);
        ld kk = hypotl(deta, dxi) * sqrtl(1 - e2 * sphi * sphi) / cphi, gg = -atan2l(-dxi, deta) / tm_ode::deg<ld>();
        ld dgg = fabsl(gg - r1.gamma_deg); if (dgg > 180) dgg = fabsl(dgg - 360);
        bool okk = fabsl(kk / r1.k - 1) < 1e-11L * (1 + r1.absS * r1.absS * r1.absS * r1.absS), okg = dgg < 1e-9L * (1 + r1.absS * r1.absS * r1.absS * r1.absS);
        if (!okk || !okg) printf("   at e2=%Lg lat=%g lon=%g: k %.15Lg fd %.15Lg gamma %.15Lg fd %.15Lg absS %Lg\n", e2, lat, lon, r1.k, kk, r1.gamma_deg, gg, r1.absS);
        expect(okk, "tm_ode: k equals the magnification of the map (finite differences)", (double)fabsl(kk / r1.k - 1), 1e-11);
        expect(okg, "tm_ode: gamma equals the rotation of the map (finite differences)", (double)dgg, 1e-9);
      }
      // (6) via-north path = standard path for lat > 0
      if (lat >= 10 && e2 >= 0) {
        auto v = tm_ode::forward<ld>(e2, lat, lon, o1, tm_ode::VIA_NORTH, 50);
        double d = (double)(hypotl(v.xi - r1.xi, v.eta - r1.eta) / r1.k);
        expect(v.ok && d < 5e-17, "tm_ode: via-north path agrees with the standard path", d, 5e-17);
      }
    }
    // (4) meridian distance: ODE along the real axis (via-north with lambda = 0 from 30 deg) vs quadrature, and two panelings
    for (double lat : {-80.0, -10.0, 0.0, 20.0, 60.0, 89.0}) {
      auto v = tm_ode::forward<ld>(e2, lat, 0.0, o1, tm_ode::VIA_NORTH, 30);
      ld m8 = tm_ode::meridian_distance<ld>(e2, (ld)lat * tm_ode::deg<ld>(), 8), m16 = tm_ode::meridian_distance<ld>(e2, (ld)lat * tm_ode::deg<ld>(), 19);
      expect(v.ok && fabsl(v.xi - m8) < 3e-18L, "tm_ode: real-axis integration reproduces the meridian distance", (double)fabsl(v.xi - m8), 3e-18);
      expect(fabsl(m8 - m16) < 2e-18L, "meridian distance: 8 and 19 quadrature panels agree", (double)fabsl(m8 - m16), 2e-18);
    }
  }
  // (2) sphere closed form
  for (double lat : {0.0, 1e-9, 30.0, 89.0}) for (double lon : {1e-9, 20.0, 89.0, 91.0, 150.0, 179.999}) {
    if (lat < 1 && lon > 89.5) continue;      // passing ~1e-11 from the logarithmic singularity at (0, 90): the ODE is not used there (closed form / validity gate)
    auto r = tm_ode::forward<ld>(0.0L, lat, lon, o1); auto s = tm_ode::sphere<ld>(lat, lon);
    double d = (double)(hypotl(r.xi - s.xi, r.eta - s.eta) / s.k);
    ld dg = fabsl(r.gamma_deg - s.gamma_deg); if (dg > 180) dg = fabsl(dg - 360);
    expect(r.ok && d < 3e-18 * (1 + (double)s.absS), "tm_ode (e = 0) equals the spherical closed form", d, 3e-18);
    expect(fabsl(r.k / s.k - 1) < 1e-17L * (1 + s.absS) && dg < 1e-15L * (1 + s.absS), "tm_ode (e = 0): k, gamma equal the spherical closed form", (double)fabsl(r.k / s.k - 1), 1e-17);
    expect(fabsl(r.absS / s.absS - 1) < 1e-15L, "tm_ode (e = 0): |sin phi| = |tanh w|", (double)fabsl(r.absS / s.absS - 1), 1e-15);
  }
  // (3) closed-form isometric latitude identity with std::complex<long double>:  asinh(tan phi) - e atanh(e sin phi) = psi + i lambda  (|Re phi| < pi/2)
  {
    ld e2 = e2s[0], e = sqrtl(e2);
    for (double lat : {5.0, 40.0, 70.0}) for (double lon : {10.0, 45.0, 80.0}) {
      ld sphi, cphi; tm_ode::sincosd<ld>(lat, sphi, cphi);
      tm_ode::Integrator<ld> in(e2, o1); tm_ode::State<ld> st;
      st.S = tm_ode::Cx<ld>(sphi); st.C = tm_ode::Cx<ld>(cphi); st.s = tm_ode::Cx<ld>(sqrtl(1 - e2 * sphi * sphi)); st.z = tm_ode::Cx<ld>(0);
      ld lam = lon * tm_ode::deg<ld>();
      in.segment(st, tm_ode::Cx<ld>(0, lam));
      std::complex<ld> S(st.S.re, st.S.im), C(st.C.re, st.C.im);
      std::complex<ld> w = std::asinh(S / C) - e * std::atanh(e * S);
      ld psi = tm_ode::isometric<ld>(e2, sphi, cphi);
      double d = (double)std::abs(w - std::complex<ld>(psi, lam));
      expect(in.ok && d < 5e-18, "tm_ode: complex latitude satisfies psi(phi) = psi + i lambda", d, 5e-18);
    }
  }
  // (7) branch easting K(m') - E(m') by the AGM
  for (ld e2 : {0.0066943799901413165L, 0.0199L, 0.19L}) {
    ld mp = 1 - e2, a = 1, b = sqrtl(1 - mp), c = sqrtl(mp), sum = c * c / 2, p2 = 1;
    for (int i = 0; i < 40; ++i) { ld an = (a + b) / 2, bn = sqrtl(a * b); c = (a - b) / 2; a = an; b = bn; sum += p2 * c * c; p2 *= 2; if (fabsl(c) < 1e-21L) break; }
    ld K = tm_ode::pi<ld>() / (2 * a), Eint = K * (1 - sum);
    ld ref = K - Eint, got = tm_ode::branch_easting<ld>(e2);
    expect(fabsl(got / ref - 1) < 1e-16L, "branch easting K'-E' equals the AGM value", (double)fabsl(got / ref - 1), 1e-16);
  }
}

using proj_cf::Lat; using proj_cf::XY; using proj_cf::Ell;
template <class P> static void jac_check(const P& pr, const Ell& E, bool conformal, double lat, double lon, const char* nm) {
  Q phi = Q(lat) * proj_cf::deg(), lam = Q(lon) * proj_cf::deg();
  proj_cf::Jac J = proj_cf::jacobian(pr, E, phi, lam);
  Q mN = hypotq(J.nx, J.ny), mE = hypotq(J.ex, J.ey), dot = (J.nx * J.ex + J.ny * J.ey) / (mN * mE), det = J.ex * J.ny - J.ey * J.nx;
  Lat L = proj_cf::latr(phi);
  Q k = pr.k(L), g = pr.gamma(lam), rot = -atan2q(J.nx, J.ny);
  char b[200];
  snprintf(b, sizeof b, "%s: closed-form k equals east-west stretch of the map", nm); expect(fabsq(k / mE - 1) < 1e-13Q, b, (double)fabsq(k / mE - 1), 1e-13);
  snprintf(b, sizeof b, "%s: closed-form gamma equals the rotation of the map", nm); expect(fabsq(remainderq(g - rot, 2 * M_PIq)) < 1e-13Q, b, (double)fabsq(remainderq(g - rot, 2 * M_PIq)), 1e-13);
  snprintf(b, sizeof b, "%s: meridians and parallels stay orthogonal", nm); expect(fabsq(dot) < 1e-13Q, b, (double)fabsq(dot), 1e-13);
  if (conformal) { snprintf(b, sizeof b, "%s: isotropic scale (conformal)", nm); expect(fabsq(mN / mE - 1) < 1e-13Q, b, (double)fabsq(mN / mE - 1), 1e-13); }
  else { snprintf(b, sizeof b, "%s: Jacobian determinant 1 and north-south stretch 1/k (equal area)", nm); expect(fabsq(det - 1) < 1e-13Q && fabsq(mN * mE - 1) < 1e-13Q, b, (double)fabsq(det - 1), 1e-13); }
}

static void test_cf() {
  for (double f : {1 / 298.257223563, 0.0, 0.1, -0.1}) {
    Ell E(6378137.0, f);
    // polar stereographic
    for (int np = 0; np < 2; ++np) { proj_cf::PolarStereo ps(E, 0.994, np); for (double lat : {-60.0, 10.0, 80.0}) for (double lon : {20.0, -150.0}) jac_check(ps, E, true, lat, lon, "polar stereographic");
      Lat P = proj_cf::latd(np ? 90 : -90); XY p = ps.fwd(P, 1); expect(p.x == 0 && p.y == 0 && ps.k(P) == Q(0.994), "polar stereographic: pole at the origin with k0", 0, 0); }
    struct PP { double l1, l2; };
    for (PP pp : {PP{40, 40}, PP{30, 60}, PP{-60, -20}, PP{-30, 30}, PP{0, 0}, PP{89, 89.9}, PP{45, 45.00001}, PP{-10, 40}}) {
      Lat L1 = proj_cf::latd(pp.l1), L2 = proj_cf::latd(pp.l2);
      proj_cf::LCC lc(E, L1, L2, 0.9); proj_cf::Albers al(E, L1, L2, 0.9);
      for (double lat : {-70.0, -5.0, 33.0, 85.0}) for (double lon : {25.0, -140.0}) { jac_check(lc, E, true, lat, lon, "LCC"); jac_check(al, E, false, lat, lon, "Albers"); }
      // (9) scale on the standard parallels, origin
      expect(fabsq(lc.k(L1) / Q(0.9) - 1) < 1e-25Q && fabsq(lc.k(L2) / Q(0.9) - 1) < 1e-25Q, "LCC: k = k1 on both standard parallels", (double)fabsq(lc.k(L1) / Q(0.9) - 1), 1e-25);
      expect(fabsq(al.k(L1) / Q(0.9) - 1) < 1e-25Q && fabsq(al.k(L2) / Q(0.9) - 1) < 1e-25Q, "Albers: k = k1 on both standard parallels", (double)fabsq(al.k(L1) / Q(0.9) - 1), 1e-25);
      expect(fabsq(lc.fwd(proj_cf::latr(lc.phi0), 0).y) < 1e-18Q && fabsq(al.fwd(proj_cf::latr(al.phi0), 0).y) < 1e-18Q, "y = 0 at the origin latitude", 0, 1e-18);
      // origin = latitude of minimum (azimuthal) scale: neighbours have larger k
      for (int s = -1; s <= 1; s += 2) {
        Q d = Q(s) * 1e-6Q;
        expect(lc.k(proj_cf::latr(lc.phi0 + d)) >= lc.k(proj_cf::latr(lc.phi0)), "LCC: origin latitude is the latitude of minimum scale", 0, 0);
        expect(al.k(proj_cf::latr(al.phi0 + d)) >= al.k(proj_cf::latr(al.phi0)), "Albers: origin latitude is the latitude of minimum azimuthal scale", 0, 0);
      }
    }
    // (10) limits
    {
      const double eps = 1e-7;
      proj_cf::LCC m0(E, proj_cf::latd(0), proj_cf::latd(0), 1.0), m1(E, proj_cf::latd(eps), proj_cf::latd(eps), 1.0);
      proj_cf::Albers c0(E, proj_cf::latd(0), proj_cf::latd(0), 1.0), c1(E, proj_cf::latd(eps), proj_cf::latd(eps), 1.0);
      proj_cf::LCC p0(E, proj_cf::latd(90), proj_cf::latd(90), 1.0), p1(E, proj_cf::latd(90 - eps), proj_cf::latd(90 - eps), 1.0);
      proj_cf::Albers z0(E, proj_cf::latd(90), proj_cf::latd(90), 1.0), z1(E, proj_cf::latd(90 - eps), proj_cf::latd(90 - eps), 1.0);
      for (double lat : {-50.0, 20.0, 70.0}) for (double lon : {40.0, -100.0}) {
        Lat L = proj_cf::latd(lat); Q lam = Q(lon) * proj_cf::deg();
        XY a = m0.fwd(L, lam), b = m1.fwd(L, lam), c = c0.fwd(L, lam), d = c1.fwd(L, lam), e = p0.fwd(L, lam), g = p1.fwd(L, lam), h = z0.fwd(L, lam), i = z1.fwd(L, lam);
        // a change of 1e-7 deg (1.1 cm) in the parallel moves points by O(a * 1e-7 deg * few)
        Q t = E.a * Q(eps) * proj_cf::deg() * 40;
        expect(hypotq(a.x - b.x, a.y - b.y) < t, "LCC(n -> 0) tends to Mercator", (double)hypotq(a.x - b.x, a.y - b.y), (double)t);
        expect(hypotq(c.x - d.x, c.y - d.y) < t, "Albers(n -> 0) tends to cylindrical equal area", (double)hypotq(c.x - d.x, c.y - d.y), (double)t);
        expect(hypotq(e.x - g.x, e.y - g.y) < t, "LCC(n -> 1) tends to polar stereographic", (double)hypotq(e.x - g.x, e.y - g.y), (double)t);
        expect(hypotq(h.x - i.x, h.y - i.y) < t, "Albers(n -> 1) tends to azimuthal equal area", (double)hypotq(h.x - i.x, h.y - i.y), (double)t);
      }
      // LCC with both parallels at the pole IS the polar stereographic oracle
      proj_cf::PolarStereo ps(E, 1.0, true);
      XY a = p0.fwd(proj_cf::latd(33), Q(0.7)), b = ps.fwd(proj_cf::latd(33), Q(0.7));
      expect(hypotq(a.x - b.x, a.y - b.y) < 1e-20Q * E.a, "LCC(90,90) equals polar stereographic", (double)hypotq(a.x - b.x, a.y - b.y), 1e-14);
    }
  }
  // (12) nearly cylindrical cones: the cancellation-free evaluation used by the oracle equals the naive Snyder forms where those still have > 15 spare digits (n ~ 1e-6),
  //      and tends to Mercator / cylindrical equal area with a difference O(n) for n ~ 1e-12 .. 1e-300
  for (double f : {1 / 298.257223563, -0.1}) {
    Ell E(6378137.0, f);
    for (double sl : {1e-4, -1e-4}) {
      Lat L1 = proj_cf::latd(sl); proj_cf::LCC lc(E, L1, L1, 0.994); proj_cf::Albers al(E, L1, L1, 0.994);
      for (double lat : {-80.0, -1.0, 0.0, 33.0, 89.0}) for (double lon : {1e-9, 40.0, -179.0}) {
        Lat L = proj_cf::latd(lat); Q lam = Q(lon) * proj_cf::deg();
        XY a = lc.fwd(L, lam); Q r = lc.rho(L), th = lc.n * lam, r0 = lc.rho(proj_cf::latr(lc.phi0));
        Q e1 = hypotq(a.x - r * sinq(th), a.y - (r0 - r * cosq(th)));
        expect(e1 < 1e-15Q, "LCC: cancellation-free form equals Snyder 14-1/14-2 (n = 1.7e-6)", (double)e1, 1e-15);
        XY b = al.fwd(L, lam); Q ra = al.rho(L), tha = al.n * lam, ra0 = al.rho(proj_cf::latr(al.phi0));
        Q e2 = hypotq(b.x - ra * sinq(tha), b.y - (ra0 - ra * cosq(tha)));
        expect(e2 < 1e-15Q, "Albers: cancellation-free form equals Snyder 14-1/14-2 (n = 1.7e-6)", (double)e2, 1e-15);
      }
    }
    proj_cf::LCC m0(E, proj_cf::latd(0), proj_cf::latd(0), 0.994); proj_cf::Albers c0(E, proj_cf::latd(0), proj_cf::latd(0), 0.994);
    for (double sl : {1e-10, -1e-10, 1e-300}) {
      Lat L1 = proj_cf::latd(sl); proj_cf::LCC lc(E, L1, L1, 0.994); proj_cf::Albers al(E, L1, L1, 0.994);
      for (double lat : {-80.0, 33.0, 89.0}) for (double lon : {40.0, -179.0}) {
        Lat L = proj_cf::latd(lat); Q lam = Q(lon) * proj_cf::deg();
        XY a = lc.fwd(L, lam), am = m0.fwd(L, lam), b = al.fwd(L, lam), bm = c0.fwd(L, lam);
        // y is measured from the origin latitude sl (not the equator): shift by the Mercator / cylindrical ordinate of sl
        Q sh1 = m0.fwd(L1, 0).y, sh2 = c0.fwd(L1, 0).y;
        Q t = E.a * fabsq(lc.n) * 400;
        expect(hypotq(a.x - am.x, a.y - (am.y - sh1)) < t + 1e-20Q, "LCC(n ~ 1e-12 .. 1e-302) tends to Mercator", (double)hypotq(a.x - am.x, a.y - (am.y - sh1)), (double)t);
        expect(hypotq(b.x - bm.x, b.y - (bm.y - sh2)) < t + 1e-20Q, "Albers(n ~ 1e-12 .. 1e-302) tends to cylindrical equal area", (double)hypotq(b.x - bm.x, b.y - (bm.y - sh2)), (double)t);
      }
    }
  }
  // (11) sphere: textbook spherical forms
  {
    Ell E(1.0, 0.0);
    Q p1 = 30 * proj_cf::deg(), p2 = 60 * proj_cf::deg(), ph = 41 * proj_cf::deg(), lam = Q(0.6);
    // Snyder 15-3, 15-2, 15-1: n = ln(cos p1/cos p2)/ln(tan(pi/4+p2/2)/tan(pi/4+p1/2)), F = cos p1 tan^n(pi/4+p1/2)/n, rho = F/tan^n(pi/4+phi/2)
    Q n = logq(cosq(p1) / cosq(p2)) / logq(tanq(M_PIq / 4 + p2 / 2) / tanq(M_PIq / 4 + p1 / 2));
    Q F = cosq(p1) * powq(tanq(M_PIq / 4 + p1 / 2), n) / n, rho = F / powq(tanq(M_PIq / 4 + ph / 2), n), rho0 = F / powq(tanq(M_PIq / 4 + asinq(n) / 2), n);
    proj_cf::LCC lc(E, proj_cf::latd(30), proj_cf::latd(60), 1.0);
    XY a = lc.fwd(proj_cf::latr(ph), lam);
    expect(fabsq(a.x - rho * sinq(n * lam)) < 1e-28Q && fabsq(a.y - (rho0 - rho * cosq(n * lam))) < 1e-28Q, "sphere: LCC equals Snyder 15-1..15-3", (double)fabsq(a.x - rho * sinq(n * lam)), 1e-28);
    // Snyder 14-6, 14-5, 14-3: n = (sin p1 + sin p2)/2, C = cos^2 p1 + 2 n sin p1, rho = sqrt(C - 2 n sin phi)/n
    Q na = (sinq(p1) + sinq(p2)) / 2, C = cosq(p1) * cosq(p1) + 2 * na * sinq(p1), ra = sqrtq(C - 2 * na * sinq(ph)) / na;
    proj_cf::Albers al(E, proj_cf::latd(30), proj_cf::latd(60), 1.0);
    XY b = al.fwd(proj_cf::latr(ph), lam); Q r0 = sqrtq(C - 2 * na * sinq(al.phi0)) / na;
    expect(fabsq(b.x - ra * sinq(na * lam)) < 1e-28Q && fabsq(b.y - (r0 - ra * cosq(na * lam))) < 1e-28Q, "sphere: Albers equals Snyder 14-1..14-6", (double)fabsq(b.x - ra * sinq(na * lam)), 1e-28);
    // Snyder 21-5..: polar stereographic rho = 2 k0 tan(pi/4 - phi/2)
    proj_cf::PolarStereo ps(E, 0.994, true); XY c = ps.fwd(proj_cf::latr(ph), lam); Q rp = 2 * Q(0.994) * tanq(M_PIq / 4 - ph / 2);
    expect(fabsq(c.x - rp * sinq(lam)) < 1e-28Q && fabsq(c.y + rp * cosq(lam)) < 1e-28Q, "sphere: polar stereographic equals Snyder 21-5", (double)fabsq(c.x - rp * sinq(lam)), 1e-28);
  }
}

int main() {
  test_tm();
  test_cf();
  printf("oracle selftest_proj: %s\n", bad ? "FAILED" : "ok");
  return bad ? 1 : 0;
}
