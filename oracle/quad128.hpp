// oracle/quad128.hpp -- quadrature core in __float128 shared by the oracles merid, ellf (C07/C15).
//   * Gauss-Legendre nodes/weights computed at start-up in __float128 (Newton on P_n)
//   * adaptive bisection: an interval is accepted when the n-point rule on it and on its two halves agree to
//     a LOCAL relative 1e-24; for an analytic integrand the two-halves value is then ~2^-2n closer, i.e. at the
//     113-bit round-off level.  Integrands handed to it are positive and analytic on the closed interval (near
//     singularities are resolved by the bisection; genuinely singular end points are removed analytically by
//     the caller or by the exp-substitution + trapezoid rule below).
//   * trapezoid rule on a long interval for integrands decaying exponentially at both ends and analytic in a strip
//     (used for Carlson's integrals after t = exp(u)); the step is halved until two results agree.
// Plain __float128 + libquadmath, no Boost.
#pragma once
#include <quadmath.h>
#include <vector>
#include <cstdio>
#include <string>

namespace q128 {
typedef __float128 Q;

inline Q pi() { return M_PIq; }
inline Q eps() { return FLT128_EPSILON; }
inline std::string str(Q x, int digits = 36) { char b[128]; quadmath_snprintf(b, sizeof b, "%.*Qg", digits, x); return b; }

struct GL {
  int n; std::vector<Q> x, w;           // nodes in (-1,1), weights
  explicit GL(int n_) : n(n_), x(n_), w(n_) {
    for (int i = 0; i < n; ++i) {
      Q z = cosq(pi() * (i + 0.75Q) / (n + 0.5Q)), pp = 0;
      for (int it = 0; it < 100; ++it) {
        Q p1 = 1, p2 = 0;
        for (int j = 1; j <= n; ++j) { Q p3 = p2; p2 = p1; p1 = ((2 * j - 1) * z * p2 - (j - 1) * p3) / j; }
        pp = n * (z * p1 - p2) / (z * z - 1);
        Q dz = p1 / pp; z -= dz;
        if (fabsq(dz) < 4 * eps()) { // one more evaluation of pp at the converged z
          p1 = 1; p2 = 0;
          for (int j = 1; j <= n; ++j) { Q p3 = p2; p2 = p1; p1 = ((2 * j - 1) * z * p2 - (j - 1) * p3) / j; }
          pp = n * (z * p1 - p2) / (z * z - 1);
          break;
        }
      }
      x[i] = z; w[i] = 2 / ((1 - z * z) * pp * pp);
    }
  }
};
inline const GL& gl() { static const GL g(24); return g; }

template <class F> inline Q panel(F& f, Q a, Q b) {
  const GL& g = gl(); Q c = (a + b) / 2, h = (b - a) / 2, s = 0;
  for (int i = 0; i < g.n; ++i) s += g.w[i] * f(c + h * g.x[i]);
  return s * h;
}
template <class F> inline Q adapt(F& f, Q a, Q b, Q whole, int depth, long& evals) {
  Q c = (a + b) / 2, l = panel(f, a, c), r = panel(f, c, b), two = l + r;
  evals += 2 * gl().n;
  Q d = fabsq(two - whole);
  if (d <= 1e-24Q * fabsq(two) || depth >= 1200 || !(fabsq(two) > 0)) return two;
  return adapt(f, a, c, l, depth + 1, evals) + adapt(f, c, b, r, depth + 1, evals);
}
// integral of f over [a,b] (a <= b or a > b both fine)
template <class F> inline Q integrate(F f, Q a, Q b, long* nevals = nullptr) {
  if (a == b) return 0;
  long ev = gl().n; Q w = panel(f, a, b);
  Q r = adapt(f, a, b, w, 0, ev);
  if (nevals) *nevals += ev;
  return r;
}

// integral over [uL,uR] of an integrand that is analytic in the strip |Im u| < pi, and negligible (relative
// 1e-40) outside [uL,uR], by the trapezoid rule (error ~ exp(-2 pi^2/h)); the step is halved until two results
// agree to 1e-28, so the rule validates itself
template <class F> inline Q trap_range(F f, Q uL, Q uR, Q h0 = 0.3Q) {
  long n = (long)ceilq((uR - uL) / h0); Q h = (uR - uL) / n;
  Q T = 0;
  for (long k = 0; k <= n; ++k) T += f(uL + k * h);
  T *= h;
  for (int it = 0; it < 10; ++it) {
    Q M = 0;
    for (long k = 0; k < n; ++k) M += f(uL + (k + 0.5Q) * h);
    M *= h;
    Q T2 = (T + M) / 2;
    bool ok = fabsq(T2 - T) <= 1e-28Q * fabsq(T2);
    T = T2; h /= 2; n *= 2;
    if (ok) break;
  }
  return T;
}
}  // namespace q128
