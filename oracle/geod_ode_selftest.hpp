// oracle/geod_ode_selftest.hpp -- self checks of oracle/geod_ode.hpp (no library code involved)
#pragma once
#include "oracle/geod_ode.hpp"
#include <cstdio>
namespace geod_ode {
inline int selftest() {
  int bad = 0;
  auto chk = [&](const char* what, ld err, ld tol) {
    bool ok = err <= tol && err == err;
    if (!ok) { ++bad; }
    printf("  geod_ode %-58s err %.3Lg tol %.3Lg %s\n", what, err, tol, ok ? "ok" : "FAIL");
  };
  const ld D = deg<ld>();
  // 1. sphere closed forms
  {
    double R = 6371000; Ellipsoid<ld> e(R, 0.0);
    ld worst = 0, wm = 0, wS = 0, wl = 0;
    double lats[] = {-60, 0, 33, 89}, azis[] = {10, 90, 135, -45, 180}, ss[] = {1e3, 5e6, 1.9e7, -8e6};
    for (double la : lats) for (double az : azis) for (double s : ss) {
      Point<ld> p = follow<ld>(e, la, az, (ld)s);
      ld sg = s / (ld)R, sp, cp, sa, ca; sincosd<ld>(la, sp, cp); sincosd<ld>(az, sa, ca);
      // great circle: r = cos(sg) r1 + sin(sg) t1
      ld r1[3] = {cp, 0, sp}, t1[3] = {-ca * sp, sa, ca * cp}, d = 0;
      for (int i = 0; i < 3; ++i) { ld x = R * (cosl(sg) * r1[i] + sinl(sg) * t1[i]) - p.r[i]; d += x * x; }
      worst = fmaxl(worst, sqrtl(d));
      wm = fmaxl(wm, fabsl(p.m12 - R * sinl(sg))); wm = fmaxl(wm, R * fabsl(p.M12 - cosl(sg))); wm = fmaxl(wm, R * fabsl(p.M21 - cosl(sg)));
      // area under a great-circle segment (only where the segment is shorter than half a turn in longitude)
      ld lat2 = asinl(p.sinlat), l12 = p.lon12;
      if (fabsl(l12) < 3 && az != 180) {
        ld S = 2 * atan2l(tanl(l12 / 2) * sinl((la * D + lat2) / 2), cosl((la * D - lat2) / 2)) * R * R;
        wS = fmaxl(wS, fabsl(S - p.S12) / (R * R));
      }
      // longitude: atan2 of the closed-form position
      ld x = cosl(sg) * r1[0] + sinl(sg) * t1[0], y = sinl(sg) * t1[1];
      if (sa != 0) { ld l = atan2l(y, x); ld dl = remainderl(l - l12, 2 * pi<ld>()); wl = fmaxl(wl, fabsl(dl)); }
    }
    chk("sphere: position vs great circle (m)", worst, 1e-10L);
    chk("sphere: m12, M12, M21 vs sin/cos (m)", wm, 1e-10L);
    chk("sphere: S12 vs spherical excess closed form (/R^2)", wS, 1e-16L);
    chk("sphere: accumulated longitude (rad)", wl, 1e-16L);
  }
  // 2. long double order 30 against __float128 order 44 with smaller steps; invariants
  {
    struct El { double a, f; } els[] = {{6378137, 1 / 298.257223563}, {6378137, -0.2}, {6378137, 0.2}, {6.4e6, 0.5}, {6.4e6, -1.0},
                                        {6.4e6, 15.0 / 16}, {6.4e6, -15.0}};
    double starts[][2] = {{40, 30}, {-89.5, 91}, {0.03125, 89.9}, {90, 77}, {-30, 0}, {5, -179}};
    ld wp = 0, wt = 0, wj = 0, wa = 0, wc = 0, wl = 0, xp = 0, xj = 0;
    for (auto& el : els) {
      bool ext = el.f > 0.6 || el.f < -1.5;      // b/a = 1/16, 16: lengths up to 5e8 m, |M12| up to 250
      Ellipsoid<ld> e(el.a, el.f); Ellipsoid<f128> eq(el.a, el.f);
      ld Q = e.quarter_meridian();
      for (auto& st : starts) for (double fr : {0.37, -2.9, 5.1}) {
        ld s = fr * Q;
        Point<ld> p = follow<ld>(e, st[0], st[1], s);
        Traj<f128> tq(eq, 44, (f128)1e-36L, (f128)0.6L, true); tq.init(st[0], st[1]); tq.advance((f128)s / eq.a);
        Point<f128> q = tq.point();
        ld d = 0, dt = 0;
        for (int i = 0; i < 3; ++i) { ld x = p.r[i] - (ld)q.r[i]; d += x * x; x = p.t[i] - (ld)q.t[i]; dt += x * x; }
        ld sc = fmaxl(1, fabsl(fr));
        ld ej = fmaxl(fabsl(p.m12 - (ld)q.m12), e.a * fmaxl(fabsl(p.M12 - (ld)q.M12), fabsl(p.M21 - (ld)q.M21))) / sc;
        if (ext) { xp = fmaxl(xp, fmaxl(sqrtl(d), sqrtl(dt) * e.a) / sc); xj = fmaxl(xj, ej / (1 + fabsl(p.M12) + fabsl(p.M21))); }
        else { wp = fmaxl(wp, sqrtl(d) / sc); wt = fmaxl(wt, sqrtl(dt) * e.a / sc); wj = fmaxl(wj, ej); }
        wa = fmaxl(wa, fabsl(p.S12 - (ld)q.S12) / (e.a * e.a));
        wl = fmaxl(wl, fabsl(p.lon12 - (ld)q.lon12));
        // invariants: on the surface, unit speed, tangent, Clairaut
        ld x = p.r[0] / e.a, y = p.r[1] / e.a, z = p.r[2] / e.a;
        wc = fmaxl(wc, fabsl(x * x + y * y + z * z * e.qz - 1));
        wc = fmaxl(wc, fabsl(p.t[0] * p.t[0] + p.t[1] * p.t[1] + p.t[2] * p.t[2] - 1));
        wc = fmaxl(wc, fabsl(x * p.t[0] + y * p.t[1] + z * e.qz * p.t[2]));
      }
    }
    chk("ld(order 30) vs float128(order 44, h<=0.6): position (m per half turn)", wp, 2e-10L);
    chk("ld vs float128: direction * a (m)", wt, 2e-10L);
    chk("ld vs float128: m12, a M12, a M21 (m)", wj, 2e-9L);
    chk("b/a = 1/16, 16 (documented 210 / 985 nm): position, direction (m per half turn)", xp, 1e-8L);
    chk("b/a = 1/16, 16: m12, a M12, a M21 relative to 1+|M12|+|M21| (m)", xj, 1e-8L);
    chk("ld vs float128: S12 / a^2", wa, 1e-15L);
    chk("ld vs float128: accumulated longitude (rad)", wl, 1e-14L);
    chk("invariants: surface, |t| = 1, t.n = 0", wc, 1e-16L);
  }
  // 3. meridian: following azimuth 0 from the equator for the quarter meridian (quadrature) reaches the pole;
  //    closed-form area against direct quadrature of the surface element
  {
    ld w = 0, wA = 0;
    for (double f : {1 / 298.257223563, 0.1, -0.1, 0.5, -1.0}) {
      Ellipsoid<ld> e(6378137, f);
      ld Q = e.quarter_meridian();
      Point<ld> p = follow<ld>(e, 0.0, 0.0, Q);
      w = fmaxl(w, hypotl(hypotl(p.r[0], p.r[1]), p.r[2] - e.b));
      auto g = [&](ld phi) { ld s = sinl(phi), c = cosl(phi), k = 1 - e.e2 * s * s; return e.a * e.a * (1 - e.e2) * c / (k * k); };
      ld A = 4 * pi<ld>() * adapt<ld>(g, 0.0L, pi<ld>() / 2, 1e-4L);
      wA = fmaxl(wA, fabsl(A - e.area()) / e.area());
    }
    chk("meridian arc (quadrature) vs ODE: distance from pole (m)", w, 1e-10L);
    chk("ellipsoid area closed form vs quadrature (relative)", wA, 1e-17L);
  }
  // 4. regularised area formula against the direct form  dS = c^2 sin(xi) dlambda  (Boole rule on a fine grid)
  {
    ld w = 0;
    for (double f : {1 / 298.257223563, 0.2, -0.5}) {
      Ellipsoid<ld> e(6378137, f);
      Traj<ld> tr(e); tr.init(20.0, 50.0);
      const int n = 4000; ld del = 1.2L / n, sum = 0; ld L = tr.L;
      static const ld bw[5] = {7, 32, 12, 32, 7};
      std::vector<ld> fv(n + 1);
      for (int i = 0; i <= n; ++i) {
        tr.advance(del * i);
        ld rho2 = tr.r[0] * tr.r[0] + tr.r[1] * tr.r[1]; ld q2 = tr.r[2] * e.qz;
        ld u = q2 / hypotl(sqrtl(rho2), q2);
        fv[i] = e.zone(u) * L / rho2;
      }
      for (int i = 0; i + 4 <= n; i += 4) for (int j = 0; j < 5; ++j) sum += bw[j] * fv[i + j];
      sum *= 2 * del / 45;
      Point<ld> p = tr.point();
      w = fmaxl(w, fabsl(sum * e.a * e.a - p.S12) / (e.a * e.a));
    }
    chk("area: Gauss-Bonnet-regularised vs direct zone-area form (/a^2)", w, 1e-13L);
  }
  // 5. arc length: tracked sigma against the defining integral, both directions
  {
    ld w = 0;
    for (double f : {1 / 298.257223563, 0.2, -1.0, 15.0 / 16}) {
      Ellipsoid<ld> e(6378137, f);
      for (double a12 : {33.0, 720.5, -275.0}) {
        ld s = arc_to_dist<ld>(e, -35.0, 65.0, a12);
        Point<ld> p = follow<ld>(e, -35.0, 65.0, s, false);
        ld sg = dist_to_arc<ld>(e, p);
        w = fmaxl(w, fabsl(sg / D - a12));
        w = fmaxl(w, fabsl(p.sig12 / D - a12));
      }
    }
    chk("arc length: distance(arc) then arc(distance) round trip (deg)", w, 1e-13L);
  }
  return bad;
}
}  // namespace geod_ode
