// oracle/rhumb_q.hpp -- reference model for rhumb lines (property C09), written from the DEFINITIONS:
//
//   meridian distance        m(phi)  = int_0^phi  a(1-e^2) / (1-e^2 sin^2)^(3/2) dphi       (Gauss-Legendre, __float128)
//   isometric latitude       psi(phi)= asinh(tan phi) - e atanh(e sin phi)                   (closed form; atan for prolate)
//   rhumb line of azimuth alpha: lambda is linear in psi,  dlambda = tan(alpha) dpsi,  ds = dm / cos(alpha)
//        => s12 = hypot(dlambda, dpsi) * (dm / dpsi),   azi12 = atan2(dlambda, dpsi);  east-west: s12 = |dlambda| N cos(phi)
//   area between course and equator:  S12 = (dlambda/dpsi) int A(phi(psi)) dpsi,  A(phi) = zone area per radian of longitude
//        A(phi) = b^2/2 ( sin phi/(1-e^2 sin^2 phi) + atanh(e sin phi)/e )                    (closed form)
//        evaluated in the variable t = asinh(tan phi) (sin phi = tanh t), where dpsi = (1-e^2)/(1-e^2 tanh^2 t) dt is smooth
//        up to the poles, by panelled 40-point Gauss-Legendre quadrature in __float128.
//   ellipsoid area = 4 pi A(pi/2).
//
// Nothing of the library is used: no auxiliary-latitude series, no divided differences, no Fourier/DST area tables, no
// elliptic-function code.  Differences between nearby points are formed without cancellation (integrals over the
// interval itself).  Self-test: oracle/selftest_rhumb.cpp.
#pragma once
#include <quadmath.h>
#include <cmath>
#include <vector>
#include <limits>

namespace rhq {

typedef __float128 Q;

inline Q pi() { return M_PIq; }
inline Q deg() { return M_PIq / 180; }
inline Q qabs(Q x) { return fabsq(x); }

// ---- 40-point Gauss-Legendre rule on [-1,1], computed once in __float128
struct GL {
  static const int N = 40;
  Q x[N], w[N];
  GL() {
    for (int i = 0; i < N; ++i) {
      Q z = cosq(M_PIq * (i + Q(0.75)) / (N + Q(0.5))), pp = 0;
      for (int it = 0; it < 100; ++it) {
        Q p1 = 1, p2 = 0;
        for (int j = 1; j <= N; ++j) { Q p3 = p2; p2 = p1; p1 = ((2 * j - 1) * z * p2 - (j - 1) * p3) / j; }
        pp = N * (z * p1 - p2) / (z * z - 1);
        Q dz = p1 / pp; z -= dz;
        if (fabsq(dz) < Q(1e-33)) break;
      }
      // one more evaluation for the derivative at the converged node
      Q p1 = 1, p2 = 0;
      for (int j = 1; j <= N; ++j) { Q p3 = p2; p2 = p1; p1 = ((2 * j - 1) * z * p2 - (j - 1) * p3) / j; }
      pp = N * (z * p1 - p2) / (z * z - 1);
      x[i] = z; w[i] = 2 / ((1 - z * z) * pp * pp);
    }
  }
};
inline const GL& gl() { static const GL g; return g; }

// integrate f over [lo, hi] with panels no wider than hmax (hi may be < lo: signed)
template <class F> inline Q integrate(F f, Q lo, Q hi, Q hmax) {
  if (lo == hi) return 0;
  Q len = hi - lo;
  int np = (int)ceilq(fabsq(len) / hmax); if (np < 1) np = 1;
  const GL& g = gl();
  Q sum = 0, h = len / np;
  for (int p = 0; p < np; ++p) {
    Q c = lo + h * (p + Q(0.5)), s = 0;
    for (int i = 0; i < GL::N; ++i) s += g.w[i] * f(c + g.x[i] * h / 2);
    sum += s * h / 2;
  }
  return sum;
}

// exact trigonometry of an angle given in degrees as a double: reduction to [-45,45] is exact in double
inline void sincosd(double d, Q& s, Q& c) {
  int q = 0;
  double r = std::remquo(d, 90.0, &q);      // exact
  Q x = Q(r) * deg(), sr = sinq(x), cr = cosq(x);
  if (r == 0) { sr = 0; cr = 1; }
  switch (unsigned(q) & 3u) {
  case 0: s = sr; c = cr; break;
  case 1: s = cr; c = -sr; break;
  case 2: s = -sr; c = -cr; break;
  default: s = -cr; c = sr; break;
  }
  if (s == 0) s = 0; if (c == 0) c = 0;     // no negative zeros
}

struct Ell {
  Q a, f, b, e2;        // e2 = f(2-f), negative for prolate
  Q ae;                 // sqrt|e2|
  Q hphi, ht;           // panel widths of the quadratures in phi and in t = asinh(tan phi)
  Ell(double a_, double f_) : a(a_), f(f_) {
    b = a * (1 - f); e2 = f * (2 - f); ae = sqrtq(fabsq(e2));
    // the integrands are analytic up to a distance d from the real axis: in phi d = acosh(1/e) (oblate), asinh(1/|e|)
    // (prolate); in t d = pi/2 (oblate), atan(1/|e|) (prolate).  A 40-point panel of half-width h converges like
    // ((d + sqrt(d^2+h^2))/h)^-80; h <= 0.7 d gives better than 1e-38.  (|f| <= 0.2: the widths are pi/8 and 1.)
    Q dphi = e2 == 0 ? Q(10) : (e2 > 0 ? acoshq(1 / ae) : asinhq(1 / ae));
    Q dt = e2 >= 0 ? M_PI_2q : atanq(1 / ae);
    hphi = fminq(M_PIq / 8, Q(1.4) * dphi); ht = fminq(Q(1), Q(1.4) * dt);
  }
  // meridional radius of curvature M and parallel radius R = N cos(phi), as functions of sin, cos
  Q M(Q sp) const { Q d = 1 - e2 * sp * sp; return a * (1 - e2) / (d * sqrtq(d)); }
  Q R(Q sp, Q cp) const { return a * cp / sqrtq(1 - e2 * sp * sp); }
  // signed meridian distance from phi1 to phi2 (radians)
  Q merid(Q phi1, Q phi2) const {
    return integrate([this](Q p) { return M(sinq(p)); }, phi1, phi2, hphi);
  }
  Q quarter() const { return merid(0, M_PI_2q); }
  // e atanh(e s) for oblate, -|e| atan(|e| s) for prolate  ( = e^2 * atanhee )
  Q eatanhe(Q s) const { return e2 == 0 ? Q(0) : (e2 > 0 ? ae * atanhq(ae * s) : -ae * atanq(ae * s)); }
  // isometric latitude of a non-polar latitude given by tan
  Q psi_t(Q t) const { Q s = t / sqrtq(1 + t * t); return asinhq(t) - eatanhe(s); }
  // zone area from the equator to sin(phi) = s per radian of longitude
  Q zoneA(Q s) const {
    Q at = e2 == 0 ? s : (e2 > 0 ? atanhq(ae * s) / ae : atanq(ae * s) / ae);
    return b * b / 2 * (s / (1 - e2 * s * s) + at);
  }
  Q area() const { return 4 * M_PIq * zoneA(1); }
  // phi2 with merid(phi1, phi2) = d (|phi| may not exceed pi/2: caller guarantees)
  Q merid_inv_from(Q phi1, Q d) const {
    // merid(phi1, .) is increasing: Newton's method safeguarded by a bracket (bisection when a step leaves it)
    Q lo = -M_PI_2q, hi = M_PI_2q;
    Q phi2 = phi1 + d / M(sinq(phi1));
    if (!(phi2 > lo && phi2 < hi)) phi2 = d > 0 ? (phi1 + hi) / 2 : (phi1 + lo) / 2;
    for (int it = 0; it < 200; ++it) {
      Q r = d - merid(phi1, phi2);
      if (r > 0) lo = phi2; else if (r < 0) hi = phi2; else break;
      Q st = r / M(sinq(phi2)), nx = phi2 + st;
      if (!(nx > lo && nx < hi)) {
        // the target may be the pole itself (or beyond by rounding): accept the bracket end when the residual there is nil
        nx = (lo + hi) / 2; st = nx - phi2;
      }
      phi2 = nx;
      if (fabsq(st) <= Q(1e-31) * (fabsq(phi2 - phi1) + Q(1e-300)) || fabsq(st) < Q(1e-40)) break;
      if (hi - lo < Q(1e-33)) break;
    }
    return phi2;
  }
};

// latitude in degrees (double, |lat| <= 90) -> radians, sin, cos, tan in Q; pole flag
struct Lat {
  Q phi, s, c, t; int pole;      // pole = +1/-1/0
  explicit Lat(double lat) {
    pole = lat == 90 ? 1 : (lat == -90 ? -1 : 0);
    sincosd(lat, s, c);
    phi = Q(lat) * deg();
    t = pole ? Q(pole) * HUGE_VALQ : s / c;
  }
  Lat(Q phi_, int) : phi(phi_) { s = sinq(phi); c = cosq(phi); pole = 0; t = s / c; }   // from radians (never exactly a pole)
};

// mean over psi of A between two non-polar latitudes, and dpsi, dm/dpsi without cancellation
struct Seg { Q dpsi, dm, dmdpsi, meanA; };
inline Seg segment(const Ell& E, const Lat& p1, const Lat& p2) {
  Seg g;
  g.dm = E.merid(p1.phi, p2.phi);
  Q dphi = p2.phi - p1.phi;
  if (fabsq(dphi) < Q(1e-16)) {
    // derivative limit; relative error O((dphi / distance to pole)^2) < 1e-20 for every lattice point
    Q sm = sinq((p1.phi + p2.phi) / 2), cm = cosq((p1.phi + p2.phi) / 2);
    g.dmdpsi = E.R(sm, cm);
    g.dpsi = g.dm / g.dmdpsi;
    g.meanA = E.zoneA(sm);
    return g;
  }
  // t = asinh(tan phi); dpsi = w(t) dt with w = (1-e^2)/(1-e^2 tanh^2 t).  The integrands are analytic in the strip
  // |Im t| < atan(1/|e|) (prolate) or pi/2 (oblate) >= 0.73 for |f| <= 0.5: panels of width 1 with 40 nodes converge to
  // better than 1e-38.  Both integrals are formed over the interval itself (no cancellation for nearby points).
  Q t1 = asinhq(p1.t), t2 = asinhq(p2.t), len = t2 - t1;
  int np = (int)ceilq(fabsq(len) / E.ht); if (np < 1) np = 1;
  const GL& gq = gl(); const Q e2 = E.e2;
  Q ig = 0, ia = 0, h = len / np;
  for (int p = 0; p < np; ++p) {
    Q c = t1 + h * (p + Q(0.5)), sg = 0, sa = 0;
    for (int i = 0; i < GL::N; ++i) {
      Q th = tanhq(c + gq.x[i] * h / 2), w = gq.w[i] * (1 - e2) / (1 - e2 * th * th);
      sg += w; sa += w * E.zoneA(th);
    }
    ig += sg * h / 2; ia += sa * h / 2;
  }
  g.dpsi = ig;                        // == psi(phi2) - psi(phi1)
  g.dmdpsi = g.dm / g.dpsi;
  g.meanA = ia / ig;
  return g;
}

// exact longitude difference lon2 - lon1 reduced to [-180, 180]; tie = the two points are on opposite meridians
inline Q lon_diff(double lon1, double lon2, bool& tie) {
  Q d = Q(lon2) - Q(lon1);              // exact in Q for the magnitudes used here
  d = remainderq(d, Q(360));
  tie = fabsq(d) == 180;
  if (tie) d = 180;                     // documented: the east-going course is chosen
  return d;
}

// ---- inverse problem.  InvCore depends on the two latitudes only (shared by all longitudes).
struct InvCore {
  int kind;                 // 0 generic, 1 same latitude (east-west), 2 one pole, 3 same pole twice, 4 opposite poles
  Q dpsi, dmdpsi, meanA;    // kind 0;  kind 1: dmdpsi = parallel radius, meanA = A(phi);  kind 2,3: meanA = A(pole)
  Q dm;                     // signed meridian distance
  Q R2;                     // parallel radius at point 2
};
inline InvCore inv_core(const Ell& E, const Lat& p1, const Lat& p2) {
  InvCore c; c.dpsi = 0; c.dmdpsi = 0; c.meanA = 0;
  c.R2 = E.R(p2.s, p2.c);
  c.dm = E.merid(p1.phi, p2.phi);
  if (p1.pole || p2.pole) {
    if (p1.pole && p2.pole) { c.kind = p1.pole == p2.pole ? 3 : 4; c.meanA = E.zoneA(Q(p1.pole)); }
    else { c.kind = 2; c.meanA = E.zoneA(Q(p1.pole ? p1.pole : p2.pole)); }
    return c;
  }
  if (p1.phi == p2.phi) { c.kind = 1; c.dmdpsi = E.R(p1.s, p1.c); c.meanA = E.zoneA(p1.s); return c; }
  Seg g = segment(E, p1, p2);
  c.kind = 0; c.dpsi = g.dpsi; c.dmdpsi = g.dmdpsi; c.meanA = g.meanA;
  return c;
}
struct Inv {
  Q s12, azi12, S12;            // metres, degrees, m^2
  bool azi_indet, area_indet;   // pole-to-same-pole / pole-to-opposite-pole
};
// lam = longitude difference in radians (already reduced to the short way)
inline Inv inv_eval(const InvCore& c, Q lam) {
  Inv r; r.azi_indet = r.area_indet = false;
  switch (c.kind) {
  case 0:
    r.s12 = hypotq(lam, c.dpsi) * c.dmdpsi; r.azi12 = atan2q(lam, c.dpsi) / deg(); r.S12 = lam * c.meanA; break;
  case 1:
    r.s12 = fabsq(lam) * c.dmdpsi; r.azi12 = lam == 0 ? Q(0) : (lam > 0 ? Q(90) : Q(-90)); r.S12 = lam * c.meanA; break;
  case 2:
    // a course into a pole: psi -> +-infinity, the azimuth tends to the meridian, the length to the meridian arc and
    // (lambda being linear in psi) the mean of A over psi to A(pole)
    r.s12 = fabsq(c.dm); r.azi12 = c.dm > 0 ? 0 : 180; r.S12 = lam * c.meanA; break;
  case 3:
    r.s12 = 0; r.azi12 = 0; r.azi_indet = true; r.S12 = lam * c.meanA; break;
  default:
    r.s12 = fabsq(c.dm); r.azi12 = c.dm > 0 ? 0 : 180; r.area_indet = true; r.S12 = 0; break;
  }
  return r;
}
inline Inv inverse(const Ell& E, double lat1, double lon1, double lat2, double lon2) {
  bool tie; Q lon12 = lon_diff(lon1, lon2, tie);
  return inv_eval(inv_core(E, Lat(lat1), Lat(lat2)), lon12 * deg());
}

// ---- direct problem
struct Dir {
  Q lat2, dlon, S12;            // degrees, degrees (unrolled lon2 - lon1), m^2
  bool pastpole;                // the course crosses a pole: lon2 and S12 indeterminate
  Q margin;                     // metres of meridian distance between the end point and the nearest pole crossing (>= 0)
  bool polestart;
  Q R2, M2;                     // parallel radius and meridional curvature radius at point 2
};

// azimuth given by its sine and cosine, distance in Q (the self-test closes the inverse/direct loop without rounding)
inline Dir direct_sc(const Ell& E, const Lat& p1, Q sa, Q ca, Q s12) {
  Dir r; r.pastpole = false; r.polestart = p1.pole != 0;
  Q Qm = E.quarter();
  Q m1 = E.merid(0, p1.phi), dm = s12 * ca, m2 = m1 + dm;
  r.margin = fabsq(Qm - fabsq(m2));
  Q phi2;
  if (fabsq(m2) > Qm) {
    r.pastpole = true;
    // continue along the meridian ellipse over the pole(s)
    Q u = remainderq(m2, 4 * Qm);                  // [-2Q, 2Q]
    if (u > Qm) u = 2 * Qm - u; else if (u < -Qm) u = -2 * Qm - u;
    r.margin = fminq(r.margin, fabsq(Qm - fabsq(u)));
    phi2 = E.merid_inv_from(0, u);
    r.lat2 = phi2 / deg(); r.dlon = 0; r.S12 = 0;
    Lat p2(phi2, 0); r.R2 = E.R(p2.s, p2.c); r.M2 = E.M(p2.s);
    return r;
  }
  if (p1.pole) {
    phi2 = E.merid_inv_from(p1.phi, dm);
    r.lat2 = phi2 / deg(); r.dlon = 0; r.S12 = 0;
    Lat p2(phi2, 0); r.R2 = E.R(p2.s, p2.c); r.M2 = E.M(p2.s);
    return r;
  }
  if (dm == 0) {                                   // s12 = 0 or exactly east-west
    r.lat2 = p1.phi / deg(); r.R2 = E.R(p1.s, p1.c); r.M2 = E.M(p1.s);
    Q lam = s12 * sa / r.R2;
    r.dlon = lam / deg(); r.S12 = lam * E.zoneA(p1.s);
    return r;
  }
  phi2 = E.merid_inv_from(p1.phi, dm);
  Lat p2(phi2, 0);
  r.R2 = E.R(p2.s, p2.c); r.M2 = E.M(p2.s);
  r.lat2 = phi2 / deg();
  if (fabsq(phi2) >= M_PI_2q) {                    // lands on the pole within oracle precision
    r.dlon = 0; r.S12 = 0; r.margin = 0; return r;
  }
  Seg g = segment(E, p1, p2);
  Q lam = s12 * sa / g.dmdpsi;                     // == tan(alpha) * dpsi
  r.dlon = lam / deg();
  r.S12 = lam * g.meanA;
  return r;
}
inline Dir direct(const Ell& E, double lat1, double azi12, double s12) {
  Q sa, ca; sincosd(azi12, sa, ca);
  return direct_sc(E, Lat(lat1), sa, ca, Q(s12));
}

// the latitude moved towards the equator by d radians (used to measure the conditioning of a case)
inline Lat toward_equator(const Lat& p, Q d) { return Lat(p.phi > 0 ? p.phi - d : p.phi + d, 0); }

}  // namespace rhq
