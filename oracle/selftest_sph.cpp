// Self test of oracle/sph_sum.hpp (stand-alone; run by bin/check --setup):
//   g++ -std=gnu++17 -O2 -I/verif oracle/selftest_sph.cpp -lquadmath
// Every check compares the oracle with a *second formulation*:
//   1. normalised Legendre functions  vs  boost::math::legendre_p (Ferrers function with Condon-Shortley phase) times
//      the normalisation factor written out with tgamma
//   2. low-degree closed forms (degree 0: a/r; degree 1 dipoles; degree 2) in both normalisations
//   3. the addition theorem  sum_m P[n,m](t1) P[n,m](t2) cos m(l1-l2) = (2n+1 | 1) P_n(cos gamma)
//   4. analytic gradient  vs  8th-order central differences of the value (also on the polar axis), Laplacian = 0
//   5. normal gravity: U constant on the ellipsoid, = U0; |grad U| at equator/pole = gamma_e/gamma_p; Somigliana at
//      45 deg; closed-form V0 = zonal J_n series; J2 of the sphere limit
#include "oracle/sph_sum.hpp"
#include <boost/math/special_functions/legendre.hpp>
#include <boost/math/special_functions/gamma.hpp>
#include <cstdio>
#include <cstdlib>

using sph::Q;
static int nfail = 0, nchk = 0;
static void chk(const char* what, Q got, Q want, Q tol) {
  ++nchk;
  Q e = fabsq(got - want);
  if (!(e <= tol)) { ++nfail; fprintf(stderr, "FAIL %s: got %s want %s err %s tol %s\n", what, sph::qstr(got).c_str(), sph::qstr(want).c_str(), sph::qstr(e, 6).c_str(), sph::qstr(tol, 6).c_str()); }
}

// P[n,m](t) of the oracle through its public interface: r = a, longitude 0 -> term.c = P[n,m](t)
static std::vector<std::vector<Q>> oracle_P(int norm, int N, Q t) {
  Q u = sqrtq(1 - t * t);
  std::vector<std::vector<Q>> P(N + 1, std::vector<Q>(N + 1, Q(0)));
  sph::for_each_term(norm, Q(1), N, N, u, Q(0), t, [&](const sph::Term& tm) { P[tm.n][tm.m] = tm.c; });
  return P;
}

int main() {
  const Q eps = 1e-30Q;
  // ---- 1. boost cross-check (long double is enough to expose any formula error; boost's float128 support is not needed)
  for (int norm = 0; norm < 2; ++norm) for (long double t : {-0.93L, -0.5L, -0.1L, 0.0L, 0.3L, 0.77L, 0.999L}) {
    auto P = oracle_P(norm, 14, Q(t));
    for (int n = 0; n <= 14; ++n) for (int m = 0; m <= n; ++m) {
      long double ferrers = boost::math::legendre_p(n, m, t);          // includes (-1)^m
      long double k = m ? 2 : 1;
      long double nf = sqrtl(k * (norm == sph::FULL ? 2 * n + 1 : 1) * boost::math::tgamma((long double)(n - m + 1)) / boost::math::tgamma((long double)(n + m + 1)));
      long double want = ((m & 1) ? -1 : 1) * nf * ferrers;
      char w[64]; snprintf(w, sizeof w, "legendre norm=%d n=%d m=%d t=%Lg", norm, n, m, t);
      chk(w, P[n][m], Q(want), Q(2e-16L) * (1 + fabsq(Q(want))));
    }
  }
  // ---- 2. closed forms
  {
    Q a = 3, x = 1.25Q, y = -2.5Q, z = 0.75Q, r = sqrtq(x * x + y * y + z * z);
    struct CF { int norm, n, m, cs; Q want; };
    Q s3 = sqrtq(Q(3)), s5 = sqrtq(Q(5)), s15 = sqrtq(Q(15));
    Q ct = z / r, r3 = r * r * r, r5 = r3 * r * r;
    std::vector<CF> L = {
      {0, 0, 0, 0, a / r}, {1, 0, 0, 0, a / r},
      {0, 1, 0, 0, s3 * a * a * z / r3}, {0, 1, 1, 0, s3 * a * a * x / r3}, {0, 1, 1, 1, s3 * a * a * y / r3},
      {1, 1, 0, 0, a * a * z / r3}, {1, 1, 1, 0, a * a * x / r3}, {1, 1, 1, 1, a * a * y / r3},
      {0, 2, 0, 0, s5 * a * a * a * (3 * z * z - r * r) / (2 * r5)}, {1, 2, 0, 0, a * a * a * (3 * z * z - r * r) / (2 * r5)},
      {0, 2, 1, 0, s15 * a * a * a * x * z / r5}, {1, 2, 1, 1, s3 * a * a * a * y * z / r5},
      {0, 2, 2, 0, s15 / 2 * a * a * a * (x * x - y * y) / r5}, {1, 2, 2, 1, s3 / 2 * a * a * a * 2 * x * y / r5},
    };
    for (auto& c : L) {
      sph::Sum s = sph::eval(c.norm, a, 2, 2, x, y, z, [&](int n, int m, double& C, double& S) { C = (n == c.n && m == c.m && c.cs == 0); S = (n == c.n && m == c.m && c.cs == 1); });
      char w[64]; snprintf(w, sizeof w, "closed form norm=%d n=%d m=%d cs=%d", c.norm, c.n, c.m, c.cs);
      chk(w, s.v, c.want, eps * (1 + fabsq(c.want)));
    }
    (void)ct;
  }
  // ---- 3. addition theorem, n <= 40
  for (int norm = 0; norm < 2; ++norm) {
    Q t1 = 0.37Q, t2 = -0.81Q, dl = 1.234Q;
    auto P1 = oracle_P(norm, 40, t1), P2 = oracle_P(norm, 40, t2);
    Q cg = t1 * t2 + sqrtq(1 - t1 * t1) * sqrtq(1 - t2 * t2) * cosq(dl);
    Q Pm2 = 1, Pm1 = cg;
    for (int n = 0; n <= 40; ++n) {
      Q Pn = n == 0 ? Q(1) : n == 1 ? cg : (Q(2 * n - 1) * cg * Pm1 - Q(n - 1) * Pm2) / Q(n);
      if (n >= 2) { Pm2 = Pm1; Pm1 = Pn; }
      Q s = 0; for (int m = 0; m <= n; ++m) s += P1[n][m] * P2[n][m] * cosq(m * dl);
      char w[64]; snprintf(w, sizeof w, "addition theorem norm=%d n=%d", norm, n);
      chk(w, s, (norm == sph::FULL ? Q(2 * n + 1) : Q(1)) * Pn, 1e-28Q * Q(2 * n + 1));
    }
  }
  // ---- 4. analytic gradient vs finite differences, Laplacian
  for (int norm = 0; norm < 2; ++norm) {
    const int N = 8; Q a = 2;
    auto coef = [&](int n, int m, double& C, double& S) { C = ((n * 7 + m * 13 + 3) % 11 - 5) / 8.0; S = m ? ((n * 5 + m * 3 + 1) % 13 - 6) / 16.0 : 0; };
    Q pts[6][3] = {{1.1Q, 0.7Q, -1.9Q}, {0, 0, 2.5Q}, {0, 0, -1.5Q}, {3, 0, 0}, {1e-12Q, 0, 1}, {-0.4Q, 2.2Q, 0.01Q}};
    for (auto& p : pts) {
      sph::Sum s = sph::eval(norm, a, N, N, p[0], p[1], p[2], coef);
      Q g[3]; Q h = 1e-4Q;
      sph::grad_fd8([&](Q x, Q y, Q z) { return sph::eval(norm, a, N, N, x, y, z, coef).v; }, p[0], p[1], p[2], h, g);
      for (int i = 0; i < 3; ++i) { char w[64]; snprintf(w, sizeof w, "gradient norm=%d comp=%d", norm, i); chk(w, s.g[i], g[i], 1e-22Q * s.sg); }
      // divergence of the analytic gradient
      Q div = 0;
      for (int i = 0; i < 3; ++i) {
        Q gi[3];
        sph::grad_fd8([&](Q x, Q y, Q z) { return sph::eval(norm, a, N, N, x, y, z, coef).g[i]; }, p[0], p[1], p[2], h, gi);
        div += gi[i];
      }
      chk("laplacian", div, 0, 1e-20Q * s.sg * 10);
      // the scale really bounds the terms
      chk("scale bounds value", fabsq(s.v) <= s.sv ? 0 : 1, 0, 0);
    }
  }
  // ---- 5. normal gravity
  {
    struct P { Q a, GM, om, f; };
    P sets[] = {{6378137, 3.986004418e14Q, 7.292115e-5Q, 1 / 298.257223563Q}, {6378137, 3.986004418e14Q, 7.292115e-5Q, 0.1Q},
                {1, 1, 0.05Q, 0.3Q}, {6378137, 3.986004418e14Q, 7.292115e-5Q, 0}, {6378137, 3.986004418e14Q, 0, 0.01Q}};
    for (auto& s : sets) {
      sph::ng::Ell E(s.a, s.GM, s.om, s.f);
      for (int lat = -90; lat <= 90; lat += 15) for (int lon : {0, 77}) {
        sph::Geo g = sph::geodetic(s.a, s.f, lat, lon, 0);
        chk("U constant on ellipsoid", E.U(g.X, g.Y, g.Z), E.U0, 1e-28Q * fabsq(E.U0));
        Q gr[3]; sph::grad_fd8([&](Q x, Q y, Q z) { return E.U(x, y, z); }, g.X, g.Y, g.Z, s.a * 1e-5Q, gr);
        Q gam = sqrtq(sph::dot3(gr, gr));
        chk("Somigliana = |grad U|", gam, E.surface_gravity(lat), 1e-24Q * gam);
        chk("gravity is normal to the ellipsoid (east)", sph::dot3(gr, g.e), 0, 1e-24Q * gam);
        chk("gravity is normal to the ellipsoid (north)", sph::dot3(gr, g.n), 0, 1e-24Q * gam);
        if (lat == 0) chk("gamma_e", gam, E.gammae, 1e-24Q * gam);
        if (lat == 90) chk("gamma_p", gam, E.gammap, 1e-24Q * gam);
      }
      for (Q rr : {Q(2), Q(5)}) {
        sph::Geo g = sph::geodetic(s.a, 0, 33, 10, (rr - 1) * s.a);
        Q v = E.V0(g.X, g.Y, g.Z);
        chk("V0 closed form = zonal series", E.V0_series(g.X, g.Y, g.Z, 120), v, 1e-26Q * fabsq(v));
      }
    }
    // sphere limit of J2, gamma_e, gamma_p against a tiny flattening
    sph::ng::Ell S0(6378137, 3.986004418e14Q, 7.292115e-5Q, 0), S1(6378137, 3.986004418e14Q, 7.292115e-5Q, 1e-9Q);
    chk("J2 sphere limit", S0.J2, S1.J2, 1e-8Q * fabsq(S0.J2) + 1e-9Q);
    // series and closed forms of q, q' agree where both are accurate
    for (Q z : {Q(0.19), Q(0.1), Q(0.05)}) {
      chk("q series = closed form", sph::ng::qfun(z), ((1 + 3 / (z * z)) * atanq(z) - 3 / z) / 2, 1e-27Q * z * z * z);
      chk("q' series = closed form", sph::ng::qpfun(z), 3 * (1 + 1 / (z * z)) * (1 - atanq(z) / z) - 1, 1e-28Q * z * z);
    }
    // signed-argument versions: agree with the oblate ones, series = closed form on both sides, continuous through the sphere
    for (Q z2 : {Q(0.09), Q(0.039), Q(-0.039), Q(-0.09), Q(-0.5)}) {
      Q A = sph::ng::Afun2(z2);
      if (z2 > 0) { Q z = sqrtq(z2); chk("q(z)/z", sph::ng::qz2(z2), sph::ng::qfun(z) / z, 1e-28Q); chk("q'(z)", sph::ng::qp2(z2), sph::ng::qpfun(z), 1e-28Q); }
      if (fabsq(z2) < Q(0.04)) { chk("q/z series = closed form", sph::ng::qz2(z2), ((1 + 3 / z2) * A - 3 / z2) / 2, 1e-26Q); chk("q' series = closed form", sph::ng::qp2(z2), 3 * (1 + 1 / z2) * (1 - A) - 1, 1e-27Q); }
    }
    {
      sph::ng::Ell Pm(6378137, 3.986004418e14Q, 7.292115e-5Q, -1e-9Q);
      chk("J2 continuous through f = 0 (prolate side)", Pm.J2, S0.J2, 1e-8Q * fabsq(S0.J2) + 1e-9Q);
      chk("gamma_e continuous through f = 0 (prolate side)", Pm.gammae, S0.gammae, 1e-7Q * S0.gammae);
      chk("gamma_p continuous through f = 0 (prolate side)", Pm.gammap, S0.gammap, 1e-7Q * S0.gammap);
      chk("U0 continuous through f = 0 (prolate side)", Pm.U0, S0.U0, 1e-7Q * S0.U0);
      // Pizzetti: 2 gamma_e/a + gamma_p/b = 3 GM/(a^2 b) - 2 omega^2, any f
      for (Q f : {Q(-0.5), Q(-0.2), Q(-0.01), Q(0.1)}) {
        sph::ng::Ell E(6378137, 3.986004418e14Q, 7.292115e-5Q, f);
        chk("Pizzetti", 2 * E.gammae / E.a + E.gammap / E.b, 3 * E.GM / (E.a * E.a * E.b) - 2 * E.omega * E.omega, 1e-30Q);
      }
    }
    chk("q continuous at the switch", sph::ng::qfun(Q(0.2)), sph::ng::qfun(Q(0.2) + Q(1e-30)), 1e-29Q);
    chk("q' continuous at the switch", sph::ng::qpfun(Q(0.2)), sph::ng::qpfun(Q(0.2) + Q(1e-30)), 1e-29Q);
    chk("gamma_e sphere limit", S0.gammae, S1.gammae, 1e-7Q * S0.gammae);
    chk("gamma_p sphere limit", S0.gammap, S1.gammap, 1e-7Q * S0.gammap);
  }
  if (nfail) { fprintf(stderr, "selftest_sph: %d of %d checks FAILED\n", nfail, nchk); return 1; }
  printf("selftest_sph: %d checks passed\n", nchk);
  return 0;
}
