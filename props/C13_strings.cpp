// C13 part (c) -- every string parser fed every short byte string.  Engine E4, flavour `san`.
//
// Space: for EVERY parser of the library (registry below)
//   * every byte string of length <= 2 over all 256 byte values (65 793 strings),
//   * every string of length 3 over a reduced alphabet (24 characters quick, 64 thorough),
//   * every single-edit neighbour (delete / substitute / insert over the 64-character alphabet / transpose) of
//     a set of valid strings per parser (12 quick, 50 thorough; produced by the library's own encoders),
//   * a fixed list of "nasty" long strings (very long digit runs, exponents, many signs, embedded NULs).
// Predicates: the call returns or throws GeographicErr / bad_alloc (nothing else); when it throws, every
// output argument still holds its sentinel bitwise; no ASan/UBSan report, signal or hang (fork isolation, the
// fatal case is identified through shared memory).  What the parser *accepts* is C04/C05/C10/C18's business.
#define FAULT_ALLOC_CAP_BYTES (512u << 20)
#include "mc/ctx.hpp"
#include "mc/fault.hpp"
#include <GeographicLib/DMS.hpp>
#include <GeographicLib/GeoCoords.hpp>
#include <GeographicLib/MGRS.hpp>
#include <GeographicLib/UTMUPS.hpp>
#include <GeographicLib/Geohash.hpp>
#include <GeographicLib/GARS.hpp>
#include <GeographicLib/Georef.hpp>
#include <GeographicLib/OSGB.hpp>
#include <GeographicLib/Utility.hpp>
#include <functional>

using namespace GeographicLib;
using mc::Ctx; using mc::fmt; using mc::fmti;
using fault::Report; using fault::Result; using fault::Thrown;

static const double DS = -12345.678; static const int IS = -777;
static bool dsame(double x) { return mc::same_bits(x, DS); }

// result of one parser call: how it ended, and which outputs were altered although it threw ("" = none)
struct PR { Thrown t; std::string altered; };
struct Parser {
  std::string name;
  std::function<PR(const std::string&)> run;
  std::vector<std::string> seeds;       // valid inputs (for the edit neighbourhoods)
};

// helpers to build PR
#define ALT(cond, nm) if (!(cond)) { if (!pr.altered.empty()) pr.altered += ","; pr.altered += nm; }

// g_gen: call the library's encoders to produce the valid seed strings.  Done in a forked child only (an encoder
// that crashes must not take the harness down); the parent builds the registry without seeds and receives them.
static bool g_gen = false;
static std::vector<Parser> make_parsers(bool T) {
  std::vector<Parser> P;
  const size_t NSEED = T ? 50 : 12;
  // position lattice used to produce valid strings
  std::vector<std::pair<double, double>> pos;
  for (double la : {-89.5, -72.25, -33.125, -0.5, 0.0, 12.75, 47.3, 56.0, 63.99, 71.5, 79.9, 84.5, 89.999})
    for (double lo : {-179.5, -120.25, -6.0, 0.0, 3.0, 9.5, 33.0, 75.125, 179.9})
      pos.push_back({la, lo});
  auto cap = [&](std::vector<std::string>& v) { if (v.size() > NSEED) { std::vector<std::string> w; for (size_t i = 0; i < NSEED; ++i) w.push_back(v[i * v.size() / NSEED]); v = w; } };

  { // ---- DMS::Decode(s, ind)
    Parser p; p.name = "DMS::Decode";
    p.run = [](const std::string& s) { PR pr; DMS::flag ind = DMS::flag(7); volatile double r = DS; pr.t = fault::guarded([&] { r = DMS::Decode(s, ind); }); if (pr.t.threw()) { ALT(int(ind) == 7, "ind"); } return pr; };
    if (g_gen) for (auto& q : pos) for (int prec : {0, 3, 7}) for (int tr : {0, 1, 2}) { p.seeds.push_back(DMS::Encode(q.first, DMS::component(tr), prec, DMS::LATITUDE)); p.seeds.push_back(DMS::Encode(q.second, DMS::component(tr), prec, DMS::LONGITUDE, ':')); }
    for (const char* s : {"1:2:3", "-0", "+1e2", "4d0'9\"", "4.5'", "-7.25\"S", "nan", "inf", "-infinity", "S33d", "1d+2'", "70:5W", "5\xc2\xb0" "3\xe2\x80\xb2" "2\xe2\x80\xb3N"}) p.seeds.push_back(s);
    cap(p.seeds); P.push_back(p);
  }
  for (int lf = 0; lf < 2; ++lf) for (int which = 0; which < 2; ++which) { // ---- DMS::DecodeLatLon(a, b, lat, lon, longfirst)
    Parser p; p.name = std::string("DMS::DecodeLatLon[") + (which ? "b" : "a") + (lf ? ",longfirst" : "") + "]";
    p.run = [lf, which](const std::string& s) { PR pr; double lat = DS, lon = DS; std::string other = which ? "40.5" : "70.25";
      pr.t = fault::guarded([&] { if (which) DMS::DecodeLatLon(other, s, lat, lon, lf != 0); else DMS::DecodeLatLon(s, other, lat, lon, lf != 0); });
      if (pr.t.threw()) { ALT(dsame(lat), "lat"); ALT(dsame(lon), "lon"); } return pr; };
    if (g_gen) for (auto& q : pos) for (int prec : {0, 4}) { p.seeds.push_back(DMS::Encode(q.first, prec, DMS::LATITUDE)); p.seeds.push_back(DMS::Encode(q.second, prec, DMS::LONGITUDE)); p.seeds.push_back(DMS::Encode(q.first, prec, DMS::NONE)); }
    for (const char* s : {"90", "-90", "90N", "91", "180E", "nan", "1e2"}) p.seeds.push_back(s);
    cap(p.seeds); P.push_back(p);
  }
  { Parser p; p.name = "DMS::DecodeAngle"; p.run = [](const std::string& s) { PR pr; volatile double r; pr.t = fault::guarded([&] { r = DMS::DecodeAngle(s); }); return pr; };
    if (g_gen) for (auto& q : pos) for (int prec : {0, 5}) p.seeds.push_back(DMS::Encode(q.second, prec, DMS::NUMBER)), p.seeds.push_back(DMS::Encode(q.first, prec, DMS::NONE));
    cap(p.seeds); P.push_back(p); }
  { Parser p; p.name = "DMS::DecodeAzimuth"; p.run = [](const std::string& s) { PR pr; volatile double r; pr.t = fault::guarded([&] { r = DMS::DecodeAzimuth(s); }); return pr; };
    if (g_gen) for (auto& q : pos) for (int prec : {0, 5}) p.seeds.push_back(DMS::Encode(q.second, prec, DMS::AZIMUTH)), p.seeds.push_back(DMS::Encode(q.second, prec, DMS::LONGITUDE));
    cap(p.seeds); P.push_back(p); }
  for (int lf = 0; lf < 2; ++lf) { // ---- GeoCoords(string)
    Parser p; p.name = std::string("GeoCoords(string)") + (lf ? "[longfirst]" : "");
    p.run = [lf](const std::string& s) { PR pr; pr.t = fault::guarded([&] { GeoCoords g(s, true, lf != 0); volatile double r = g.Latitude() + g.Easting(); (void)r; std::string a = g.GeoRepresentation(3) + g.DMSRepresentation(2) + g.MGRSRepresentation(1) + g.UTMUPSRepresentation(1) + g.AltUTMUPSRepresentation(0) + g.AltMGRSRepresentation(0); }); return pr; };
    if (g_gen) for (auto& q : pos) { GeoCoords g(q.first, q.second); p.seeds.push_back(g.GeoRepresentation(4)); p.seeds.push_back(g.DMSRepresentation(1)); p.seeds.push_back(g.MGRSRepresentation(2)); p.seeds.push_back(g.UTMUPSRepresentation(0)); p.seeds.push_back(g.UTMUPSRepresentation(2, false)); p.seeds.push_back(g.DMSRepresentation(0, true, ':')); }
    cap(p.seeds); P.push_back(p);
  }
  { // ---- GeoCoords::Reset(string) on a live object
    Parser p; p.name = "GeoCoords::Reset(string)";
    p.run = [](const std::string& s) { PR pr; GeoCoords g(10.5, 20.25); std::string before = g.GeoRepresentation(9) + g.UTMUPSRepresentation(9);
      pr.t = fault::guarded([&] { g.Reset(s); }); std::string after;
      Thrown t2 = fault::guarded([&] { after = g.GeoRepresentation(9) + g.UTMUPSRepresentation(9); }); if (!pr.t.threw() && t2.threw()) pr.t = t2;
      return pr; };
    if (g_gen) for (auto& q : pos) { GeoCoords g(q.first, q.second); p.seeds.push_back(g.MGRSRepresentation(-1)); p.seeds.push_back(g.MGRSRepresentation(5)); p.seeds.push_back(g.UTMUPSRepresentation(3)); }
    cap(p.seeds); P.push_back(p);
  }
  for (int cp = 0; cp < 2; ++cp) { // ---- MGRS::Reverse
    Parser p; p.name = std::string("MGRS::Reverse") + (cp ? "[centerp]" : "");
    p.run = [cp](const std::string& s) { PR pr; int zone = IS, prec = IS; double x = DS, y = DS; bool north[2] = {false, true};
      for (int k = 0; k < 2; ++k) { bool np = north[k]; zone = IS; prec = IS; x = DS; y = DS;
        pr.t = fault::guarded([&] { MGRS::Reverse(s, zone, np, x, y, prec, cp != 0); });
        if (!pr.t.threw()) break;
        ALT(zone == IS, "zone"); ALT(prec == IS, "prec"); ALT(dsame(x), "x"); ALT(dsame(y), "y"); ALT(np == north[k], "northp"); if (!pr.altered.empty()) break; }
      return pr; };
    if (g_gen) for (auto& q : pos) for (int prec : {-1, 0, 1, 5, 11}) { std::string m; int z; bool n; double x, y; UTMUPS::Forward(q.first, q.second, z, n, x, y); MGRS::Forward(z, n, x, y, q.first, prec, m); p.seeds.push_back(m); }
    p.seeds.push_back("INVALID"); p.seeds.push_back("INV");
    cap(p.seeds); P.push_back(p);
  }
  { // ---- MGRS::Decode
    Parser p; p.name = "MGRS::Decode";
    p.run = [](const std::string& s) { PR pr; std::string a = "<s1>", b = "<s2>", c = "<s3>", d = "<s4>";
      pr.t = fault::guarded([&] { MGRS::Decode(s, a, b, c, d); }); if (pr.t.threw()) { ALT(a == "<s1>", "gridzone"); ALT(b == "<s2>", "block"); ALT(c == "<s3>", "easting"); ALT(d == "<s4>", "northing"); } return pr; };
    if (g_gen) for (auto& q : pos) for (int prec : {-1, 0, 2, 5, 11}) { std::string m; int z; bool n; double x, y; UTMUPS::Forward(q.first, q.second, z, n, x, y); MGRS::Forward(z, n, x, y, q.first, prec, m); p.seeds.push_back(m); }
    cap(p.seeds); P.push_back(p);
  }
  { // ---- UTMUPS::DecodeZone
    Parser p; p.name = "UTMUPS::DecodeZone";
    p.run = [](const std::string& s) { PR pr; bool north[2] = {false, true};
      for (int k = 0; k < 2; ++k) { int zone = IS; bool np = north[k]; pr.t = fault::guarded([&] { UTMUPS::DecodeZone(s, zone, np); }); if (!pr.t.threw()) break; ALT(zone == IS, "zone"); ALT(np == north[k], "northp"); if (!pr.altered.empty()) break; }
      return pr; };
    if (g_gen) for (int z : {0, 1, 2, 9, 10, 31, 32, 59, 60}) for (int n = 0; n < 2; ++n) for (int abbrev = 0; abbrev < 2; ++abbrev) p.seeds.push_back(UTMUPS::EncodeZone(z, n != 0, abbrev != 0));
    for (const char* s : {"inv", "INV", "invalid", "n", "south", "01N", "1North"}) p.seeds.push_back(s);
    cap(p.seeds); P.push_back(p);
  }
  { // ---- Geohash::Reverse
    Parser p; p.name = "Geohash::Reverse";
    p.run = [](const std::string& s) { PR pr; double lat = DS, lon = DS; int len = IS; pr.t = fault::guarded([&] { Geohash::Reverse(s, lat, lon, len, true); }); if (pr.t.threw()) { ALT(dsame(lat), "lat"); ALT(dsame(lon), "lon"); ALT(len == IS, "len"); } return pr; };
    if (g_gen) for (auto& q : pos) for (int len : {1, 2, 5, 12, 18}) { std::string g; Geohash::Forward(q.first, q.second, len, g); p.seeds.push_back(g); }
    p.seeds.push_back("invalid"); p.seeds.push_back("nan");
    cap(p.seeds); P.push_back(p);
  }
  { Parser p; p.name = "GARS::Reverse";
    p.run = [](const std::string& s) { PR pr; double lat = DS, lon = DS; int prec = IS; pr.t = fault::guarded([&] { GARS::Reverse(s, lat, lon, prec, true); }); if (pr.t.threw()) { ALT(dsame(lat), "lat"); ALT(dsame(lon), "lon"); ALT(prec == IS, "prec"); } return pr; };
    if (g_gen) for (auto& q : pos) for (int prec : {0, 1, 2}) { std::string g; GARS::Forward(q.first, q.second, prec, g); p.seeds.push_back(g); }
    p.seeds.push_back("INVALID");
    cap(p.seeds); P.push_back(p); }
  { Parser p; p.name = "Georef::Reverse";
    p.run = [](const std::string& s) { PR pr; double lat = DS, lon = DS; int prec = IS; pr.t = fault::guarded([&] { Georef::Reverse(s, lat, lon, prec, false); }); if (pr.t.threw()) { ALT(dsame(lat), "lat"); ALT(dsame(lon), "lon"); ALT(prec == IS, "prec"); } return pr; };
    if (g_gen) for (auto& q : pos) for (int prec : {-1, 0, 2, 3, 11}) { std::string g; Georef::Forward(q.first, q.second, prec, g); p.seeds.push_back(g); }
    p.seeds.push_back("INVALID");
    cap(p.seeds); P.push_back(p); }
  { Parser p; p.name = "OSGB::GridReference(string)";
    p.run = [](const std::string& s) { PR pr; double x = DS, y = DS; int prec = IS; pr.t = fault::guarded([&] { OSGB::GridReference(s, x, y, prec, true); }); if (pr.t.threw()) { ALT(dsame(x), "x"); ALT(dsame(y), "y"); ALT(prec == IS, "prec"); } return pr; };
    if (g_gen) for (double x : {-999999.5, -1.0, 0.0, 123456.789, 400000.0, 651409.9, 1499999.0}) for (double y : {-499999.0, 0.5, 313177.27, 1999999.0}) for (int prec : {0, 1, 5, 11}) { std::string g; OSGB::GridReference(x, y, prec, g); p.seeds.push_back(g); }
    p.seeds.push_back("INVALID"); p.seeds.push_back("TG 51409 13177");
    cap(p.seeds); P.push_back(p); }
  // ---- Utility
  auto numseeds = [&](Parser& p) { for (const char* s : {"0", "-0", "1", "+1", "-12", "3.25", "1e3", "1E-3", ".5", "5.", "nan", "NaN", "inf", "-inf", "+infinity", "0x1p3", "1e308", "1e-320", "2147483647", "-2147483648", " 7 ", "1/2", "-1/298.257", "1e999", "4294967296"}) p.seeds.push_back(s); };
  { Parser p; p.name = "Utility::val<double>"; p.run = [](const std::string& s) { PR pr; volatile double r; pr.t = fault::guarded([&] { r = Utility::val<double>(s); }); return pr; }; numseeds(p); P.push_back(p); }
  { Parser p; p.name = "Utility::val<int>"; p.run = [](const std::string& s) { PR pr; volatile int r; pr.t = fault::guarded([&] { r = Utility::val<int>(s); }); return pr; }; numseeds(p); P.push_back(p); }
  { Parser p; p.name = "Utility::val<unsigned>"; p.run = [](const std::string& s) { PR pr; volatile unsigned r; pr.t = fault::guarded([&] { r = Utility::val<unsigned>(s); }); return pr; }; numseeds(p); P.push_back(p); }
  { Parser p; p.name = "Utility::val<long double>"; p.run = [](const std::string& s) { PR pr; volatile long double r; pr.t = fault::guarded([&] { r = Utility::val<long double>(s); }); return pr; }; numseeds(p); P.push_back(p); }
  { Parser p; p.name = "Utility::nummatch<double>"; p.run = [](const std::string& s) { PR pr; volatile double r; pr.t = fault::guarded([&] { r = Utility::nummatch<double>(s); }); return pr; }; numseeds(p); P.push_back(p); }
  { Parser p; p.name = "Utility::fract<double>"; p.run = [](const std::string& s) { PR pr; volatile double r; pr.t = fault::guarded([&] { r = Utility::fract<double>(s); }); return pr; }; numseeds(p); P.push_back(p); }
  { Parser p; p.name = "Utility::date(string)";
    p.run = [](const std::string& s) { PR pr; int y = IS, m = IS, d = IS; pr.t = fault::guarded([&] { Utility::date(s, y, m, d); }); if (pr.t.threw()) { ALT(y == IS, "y"); ALT(m == IS, "m"); ALT(d == IS, "d"); } return pr; };
    for (const char* s : {"2020", "2020-02", "2020-02-29", "1-1-1", "9999-12-31", "1582-10-15", "0001-01-01", "2019-2-3", "2000-12", "1900-02-28", "now", "2147483647-01-01", "2020-13-01", "2021-02-29"}) p.seeds.push_back(s);
    P.push_back(p); }
  { Parser p; p.name = "Utility::fractionalyear<double>"; p.run = [](const std::string& s) { PR pr; volatile double r; pr.t = fault::guarded([&] { r = Utility::fractionalyear<double>(s); }); return pr; };
    for (const char* s : {"2020", "2020.5", "2020-07-01", "1e3", "2020-02-29", "now", "-1", "0001-01-01", "9999-12-31", "nan", "2147483647-01-01", "2147483648-01-01"}) p.seeds.push_back(s);
    P.push_back(p); }
  for (int v = 0; v < 2; ++v) { Parser p; p.name = std::string("Utility::ParseLine") + (v ? "[=,#]" : "");
    p.run = [v](const std::string& s) { PR pr; std::string k = "<k>", val = "<v>"; pr.t = fault::guarded([&] { if (v) Utility::ParseLine(s, k, val, '=', '#'); else Utility::ParseLine(s, k, val); }); if (pr.t.threw()) { ALT(k == "<k>", "key"); ALT(val == "<v>", "value"); } return pr; };
    for (const char* s : {"Key value", "Key  value # comment", "  Key\tvalue  ", "#only comment", "key=val", "key = val # c", "=", "#", " ", "a b c", "k", "k=", "=v"}) p.seeds.push_back(s);
    P.push_back(p); }
  { Parser p; p.name = "Utility::trim+lookup"; p.run = [](const std::string& s) { PR pr; pr.t = fault::guarded([&] { std::string t = Utility::trim(s); volatile int r = 0; for (char c : s) { r = r + Utility::lookup(t, c) + Utility::lookup("0123456789ABCDEF", c) + Utility::lookup(s.c_str(), c); } }); return pr; };
    for (const char* s : {" a ", "\t\n x \v", "", "abc", "  "}) p.seeds.push_back(s);
    P.push_back(p); }
  return P;
}

// bounded, unique rendering of an input for keys and messages
static std::string skey(const std::string& s) {
  if (s.size() <= 48) return fault::show(s);
  return fault::show(s.substr(0, 40)) + "...[" + std::to_string(s.size()) + " bytes #" + std::to_string(std::hash<std::string>()(s) % 1000000) + "]";
}
// reduced alphabets
static std::string alpha64() {
  std::string a = "0123456789ABCDEFGHIJKLMNOPQRSTUVWXYZ";        // 36
  a += "adefimnosw";                                               // 46
  a += "+-.:/'\" ,";                                               // 55
  a += std::string(1, '\0'); a += "\t\n\xff\xc2\xb0=#_";           // 64
  return a;
}
static std::string alpha24() { std::string a = "019ANSZIndei+-.:'\" "; a += std::string(1, '\0'); a += "\xff/,x"; return a; }
static std::vector<std::string> nasty() {
  std::vector<std::string> v;
  v.push_back(std::string(5000, '9')); v.push_back("-" + std::string(400, '9') + "." + std::string(400, '9'));
  v.push_back("1e" + std::string(30, '9')); v.push_back("1e-" + std::string(30, '9')); v.push_back(std::string(3000, '-')); v.push_back(std::string(3000, '+'));
  v.push_back(std::string(2000, ':')); v.push_back(std::string(2000, 'd')); v.push_back(std::string(100, ' ') + "1" + std::string(100, ' '));
  v.push_back(std::string(64, '\0')); v.push_back("1" + std::string(1, '\0') + "2"); v.push_back(std::string(300, 'N')); v.push_back(std::string(300, 'A'));
  v.push_back("38S" + std::string(40, 'M')); v.push_back("38SMB" + std::string(60, '4')); v.push_back("38SMB" + std::string(23, '4')); v.push_back(std::string(19, 'z')); v.push_back(std::string(40, 'z'));
  v.push_back("GJ" + std::string(30, '1')); v.push_back("001AA" + std::string(30, '1')); v.push_back("TG" + std::string(30, '5')); v.push_back("TG" + std::string(23, '5'));
  v.push_back("99999999999999999999N"); v.push_back("4294967297n"); v.push_back("-2147483649s"); v.push_back("2147483648"); v.push_back("-2147483649");
  v.push_back("1:2:3:4:5:6"); v.push_back("1d2d3"); v.push_back("1'2'3"); v.push_back("1d2'3\"4"); v.push_back("1e3d"); v.push_back("0x7fffffff"); v.push_back("1e2147483648");
  v.push_back(std::string(200, '\xc2') + std::string(200, '\xb0')); v.push_back("\xe2\x80"); v.push_back("\xe2\x80\xb2\xe2\x80\xb2\xe2"); v.push_back("1\xc2");
  v.push_back("99999999999-01-01"); v.push_back("2020-99999999999-01"); v.push_back("2020-01-99999999999"); v.push_back("-2147483648-01-01"); v.push_back("2020-0-0"); v.push_back("2020--1--1");
  v.push_back("38n 1e308 1e308"); v.push_back("38n nan nan"); v.push_back("38n inf inf"); v.push_back("60n 1 2 3"); v.push_back("nan nan"); v.push_back("inf inf"); v.push_back("90 1e308"); v.push_back("1e308 0");
  v.push_back("2147483647n 5 5"); v.push_back("-1n 5 5"); v.push_back("n 2000000 2000000"); v.push_back("s 1e10 1e10"); v.push_back("38north 500000 0"); v.push_back("0n 2000000 2000000");
  return v;
}

int main(int argc, char** argv) {
  Ctx ctx(argc, argv);
  const bool T = ctx.thorough();
  std::string dir = fault::tmp_dir("C13");
  std::vector<Parser> P = make_parsers(T);       // without encoder-made seeds
  const std::string A256 = fault::all_bytes(), A64 = alpha64(), A3 = T ? A64 : alpha24();
  const std::vector<std::string> NASTY = nasty();
  const uint64_t n2 = fault::count_strings(256, 2), n3 = (uint64_t)A3.size() * A3.size() * A3.size();
  const size_t UNIT = 4096;
  ctx.bound("strings.parsers", (long long)P.size());
  ctx.bound("strings.bytes", "every byte string of length <= 2 over all 256 values (" + std::to_string(n2) + ") per parser");
  ctx.bound("strings.len3", "every string of length 3 over " + std::to_string(A3.size()) + " characters (" + std::to_string(n3) + ") per parser; alphabet: " + fault::show(A3));
  ctx.bound("strings.edits", "every single edit (delete, substitute, insert over the 64-character alphabet, transpose) of " + std::string(T ? "<= 50" : "<= 12") + " valid strings per parser");
  ctx.bound("strings.nasty", (long long)NASTY.size());

  fault::Isolator iso(dir, "strings");
  { // seed strings are produced by the library's encoders inside a child
    iso.batch = 1; iso.slot_bytes = 1 << 20;
    ctx.sub("strings-seed-generation");
    bool ok = false;
    iso.run(1, [&](size_t, Report& rep) { g_gen = true; std::vector<Parser> Q = make_parsers(T); for (size_t k = 0; k < Q.size(); ++k) for (auto& sd : Q[k].seeds) rep.data(std::to_string(k) + ":" + sd); },
      [&](size_t, const Result& r) {
        Ctx::Case cs(ctx); ctx.sig(r.oc);
        if (r.oc == fault::OK && !r.overflow) { ok = true; for (auto& pp : P) pp.seeds.clear(); for (auto& d : r.data) { size_t c = d.find(':'); P[atoi(d.substr(0, c).c_str())].seeds.push_back(d.substr(c + 1)); } }
        else ctx.fail("seed-generation", "producing the valid seed strings with the library's encoders -> " + r.describe(), {{"kind", r.oc == fault::SANITIZER ? "sanitizer" : "crash"}, {"parser", "seed-generation"}, {"check", r.check}, {"func", r.func}, {"where", r.where}});
      });
    (void)ok;
  }
  iso.batch = 4096; iso.slot_bytes = 768;
  for (auto& p : P) {
    ctx.sub("strings-" + p.name);
    // the full list of inputs for this parser is: [0, n2) bytes<=2 ; [n2, n2+n3) len 3 ; then edits ; then nasty
    std::vector<std::string> extra;
    for (auto& s : p.seeds) { extra.push_back(s); for (auto& e : fault::single_edits(s, A64)) extra.push_back(e); }
    for (auto& s : NASTY) extra.push_back(s);
    const uint64_t total = n2 + n3 + extra.size();
    ctx.count("seeds", p.seeds.size());
    auto input = [&](uint64_t i) -> std::string {
      if (i < n2) return fault::nth_string(A256, i);
      if (i < n2 + n3) { uint64_t k = i - n2; std::string s(3, ' '); s[2] = A3[k % A3.size()]; k /= A3.size(); s[1] = A3[k % A3.size()]; k /= A3.size(); s[0] = A3[k]; return s; }
      return extra[i - n2 - n3];
    };
    for (uint64_t u0 = 0; u0 < total; u0 += UNIT) {
      if (!ctx.take()) continue;
      uint64_t u1 = std::min(total, u0 + UNIT);
      iso.run(size_t(u1 - u0),
        [&](size_t i, Report& rep) {
          std::string s = input(u0 + i);
          PR pr = p.run(s);
          rep.sig(pr.t.oc);
          if (!fault::clean(pr.t.oc))
            rep.fail(p.name + "|" + skey(s) + "|exc", p.name + "(\"" + skey(s) + "\") threw " + pr.t.what, {{"kind", "foreign-exception"}, {"parser", p.name}, {"exception", pr.t.what.substr(0, pr.t.what.find(':'))}});
          if (!pr.altered.empty())
            rep.fail(p.name + "|" + skey(s) + "|out", p.name + "(\"" + skey(s) + "\") threw (" + pr.t.what + ") after altering " + pr.altered, {{"kind", "outputs-changed-on-throw"}, {"parser", p.name}, {"outputs", pr.altered}});
        },
        [&](size_t i, const Result& r) {
          Ctx::Case cs(ctx);
          ctx.sig(r.oc); for (auto s : r.sigs) ctx.sig(s);
          for (auto& f : r.fails) ctx.fail(f.key, f.msg, f.fields);
          if (r.slow) { ctx.count("slow-cases"); ctx.list("slow-cases (exceeded the 2 s watchdog, finished when re-run alone)", p.name + "(\"" + skey(input(u0 + i)) + "\")"); }
          if (getenv("C13_DEBUG") && (r.slow || r.fatal() || !r.fails.empty())) fprintf(stderr, "DBG %s(\"%s\") slow=%d %s nf=%zu\n", p.name.c_str(), skey(input(u0 + i)).c_str(), (int)r.slow, r.describe().c_str(), r.fails.size());
          if (r.overflow) ctx.note("report slot overflow in " + p.name);
          if (r.fatal()) {
            std::string s = input(u0 + i);
            ctx.fail(p.name + "|" + skey(s) + "|fatal", p.name + "(\"" + skey(s) + "\") -> " + r.describe(),
                     {{"kind", r.oc == fault::SANITIZER ? "sanitizer" : r.oc == fault::HANG ? "hang" : r.oc == fault::FOREIGN ? "foreign-exception" : "crash"}, {"parser", p.name}, {"check", r.check}, {"func", r.func}, {"where", r.where}});
          }
          if (ctx.want_sample() && (u0 + i) % 9973 == 77) ctx.sample(p.name + "(\"" + fault::show(input(u0 + i)) + "\") -> " + r.describe());
        });
    }
  }
  ctx.count("forks", iso.forks);
  fault::rm_tmp_dir(dir);
  return ctx.finish();
}
