// C02 -- inverse geodesic problem.  Engine E1: exhaustive lattice
//   ellipsoid x point pairs (grid from the anchor meridian incl. meridional/polar pairs, antipodal astroid grid and strip,
//   short lines 0 .. 1 km at 8 bearings, equatorial pairs around lon12 = (1-f)180) x {Geodesic, GeodesicExact,
//   Geodesic(exact=true)} x {as given, ends swapped, equator reflection, meridian reflection, lon1 + 360, lon1 - 1080}
//   + the full distance matrix of a point set with all ordered pairs and all triples.
// Oracle: oracle/geod_ode.hpp -- the returned (azi1, s12) is FOLLOWED from point 1 and must land on point 2; the
// returned azi2 is followed backwards from point 2 and must land on point 1.
#include "mc/ctx.hpp"
#include "oracle/geod_ode.hpp"
#include "models/geod_tables.hpp"
#include "models/geod_lattice.hpp"
#include <GeographicLib/Geodesic.hpp>
#include <GeographicLib/GeodesicExact.hpp>
#include <GeographicLib/GeodesicLine.hpp>
#include <GeographicLib/GeodesicLineExact.hpp>
#include <algorithm>
#include <memory>

using namespace GeographicLib;
using mc::Ctx; using mc::fx; using mc::fmt; using mc::fmtl;
typedef long double ld;
using geod_ode::Point; using geod_ode::Traj;

struct Res { double s12, azi1, azi2, a12, m12, M12, M21, S12; };
static const double SENT = -7.25e33;

template <class G> static Res inv(const G& g, double lat1, double lon1, double lat2, double lon2) {
  Res r; r.s12 = r.azi1 = r.azi2 = r.m12 = r.M12 = r.M21 = r.S12 = SENT;
  r.a12 = g.GenInverse(lat1, lon1, lat2, lon2, Geodesic::ALL, r.s12, r.azi1, r.azi2, r.m12, r.M12, r.M21, r.S12);
  return r;
}
struct Solvers {
  std::unique_ptr<Geodesic> gs, gx; std::unique_ptr<GeodesicExact> ge;
  void make(const geodtab::Ell& E) { if (E.series) gs.reset(new Geodesic(E.a, E.f)); ge.reset(new GeodesicExact(E.a, E.f)); gx.reset(new Geodesic(E.a, E.f, true)); }
  Res inv(int sv, double a, double b, double c, double d) const { return sv == 0 ? ::inv(*gs, a, b, c, d) : (sv == 1 ? ::inv(*ge, a, b, c, d) : ::inv(*gx, a, b, c, d)); }
};
static const char* svname(int sv) { return sv == 0 ? "series" : (sv == 1 ? "exact" : "exact=true"); }
static bool finite(const Res& r) {
  for (double x : {r.s12, r.azi1, r.azi2, r.a12, r.m12, r.M12, r.M21, r.S12}) if (!std::isfinite(x) || x == SENT) return false;
  return true;
}
static ld angdiff(double a, double b) { ld d = remainderl((ld)a - (ld)b, 360.0L); return fabsl(d); }
static double flip180(double a) { return a > 0 ? a - 180 : a + 180; }       // azimuth of the reversed direction (mod 360)


// InverseLine with a given capability set: what the accessors of the returned line give
struct LineObs { double arc, dist, ap_ret, ap_lat, ap_lon, dp_ret, dp_lat, dp_lon; };
template <class G> static LineObs inverse_line_obs(const G& g, double lat1, double lon1, double lat2, double lon2, unsigned caps) {
  LineObs o; auto l = g.InverseLine(lat1, lon1, lat2, lon2, caps);
  o.arc = l.Arc(); o.dist = l.Distance();
  double t; const unsigned om = Geodesic::LATITUDE | Geodesic::LONGITUDE;      // output bits only (bits 7, 8 + CAP bits that are masked off)
  o.ap_lat = o.ap_lon = o.dp_lat = o.dp_lon = SENT;
  o.ap_ret = l.GenPosition(true, o.arc, om, o.ap_lat, o.ap_lon, t, t, t, t, t, t);
  o.dp_ret = l.GenPosition(false, o.dist, om, o.dp_lat, o.dp_lon, t, t, t, t, t, t);
  return o;
}

int main(int argc, char** argv) {
  Ctx ctx(argc, argv);
  const bool T = ctx.thorough();
  std::vector<geodtab::Ell> ells = geodtab::ellipsoids();
  const ld D = geod_ode::deg<ld>();

  // =========================================================================================== pairs
  ctx.sub("pairs");
  ctx.bound("pairs.ellipsoids", geodlat::ellipsoid_text(T));
  ctx.bound("pairs.grid", T ? "lon1 in {0, 100.1, -179.75, 359.9, -540.5, 45.3, -90.7, 179.9, -0.2} x lat1, lat2 in {-90,-89.9999,-60,-45,-1/16,-1/32,-1e-12,0,1/32,30,45,45.5,75,89.999999,90} x lon2-lon1 in {0,+-1e-12,1/16,1,28,29,90,135,175,179,179.5,179.99,180-1e-9,180,-180,-179.999999,181,-90,360.5} (40500 pairs, contains all meridional and polar pairs)"
                            : "lat1, lat2 in {-90,-89.9999,-45,-1/32,0,30,45.5,89.999999,90} x lon2 in {0,1e-12,1,90,179,179.5,179.99,180-1e-9,180,-180,181,360.5}, lon1 = 0 (972 pairs, contains all meridional and polar pairs)");
  ctx.bound("pairs.astroid", T ? "lat1 in {-1e-9,-1/32,-0.5,-10,-30,-45,-60,-75,-89,-89.99}: antipode + (x,y) scaled by f pi cos(beta1): 73x73 grid on [-2.5,0.5]x[-1.5,1.5] + strip x in {-1+-2 xthresh,-1+-xthresh,-1+-xthresh/2,-1,-0.5,-1e-3,0} x y in {0,+-tol1/2,+-tol1,+-2 tol1,+-1e-8} (7150)"
                               : "lat1 in {-0.5,-30,-60,-89}: 5x5 grid on [-2.5,0.5]x[-1.5,1.5] + strip x=-1+-xthresh/2, y in {0,+-tol1/2} (124)");
  ctx.bound("pairs.short", T ? "11 bases (equator, 30N, -45.5/100E, pole-1e-7, -89.9/179.9999E, 1/16/-180, -1e-10/179.9999999, 60/359, 89.99/-120, south pole, 45/1e-9) x 32 bearings x {0,1e-9,3e-9,3e-8,1e-7,1e-6,1e-5,1e-3,0.03,1,30,1e3,2e4,3e5} m (4928)"
                             : "5 bases (equator, 30N, -45.5/100E, pole-1e-7, -89.9/179.9999E) x 8 bearings x {0,1e-9,3e-8,1e-7,1e-6,1e-3,1,1e3} m (320)");
  ctx.bound("pairs.equatorial", T ? "lon12 in {(1-f)180 + {0,+-1e-12,+-1e-9,+-1e-6,+-1e-3,+-1}, 1e-9, 28.6, 28.7, 90, 135, 179, 179.9, 179.999999, 180, 179.5 with lat -0/+0}; lat = +-{1e-10,1e-3} on one or both sides of the equator x lon12 = (1-f)180 + {0,+-1e-9,1e-3} (45)"
                                  : "lon12 in {(1-f)180 + {0,+-1e-9,+-1e-3}, 179.9, 180, 179.5 with lat -0/+0} (8)");
  ctx.bound("pairs.tiny_lat", T ? "lat1 in +-{5e-324,1e-310,1e-200,1e-160,1e-155,1e-100,1e-20} x lat2 in {0,-0,lat1,1e-9} x lon12 in {1,90,179,179.9} (224); closed-form equatorial answer where both |lat| <= 1e-20" : "lat1 in {5e-324,-1e-160,1e-155} x lat2 in {0,lat1} x lon12 in {1,90} (12)");
  ctx.bound("pairs.history", "after each pair: probes general (10,0,40,70), meridional (10,0,60,0), equatorial (0,0,0,50), short, and the pair again on the unit's objects, each bit-identical to a brand-new object; solver objects are constructed afresh in every unit");
  ctx.bound("pairs.config", "{series (|f|<=0.2), exact, exact=true} x {given, swapped, equator-reflected, meridian-reflected, lon1+360, lon1-1080}");
  ctx.note("tolerance = 2 x documented position error of the solver for the flattening (models/geod_tables.hpp); azimuth differences are weighted by |m12| (the displacement they cause at the other end), as the documentation states for the inverse problem");
  ctx.note("symmetry images are compared with the transformed base result within 2 tol; where Geodesic.hpp documents a non-unique shortest geodesic (lat1 = -lat2, or lon12 = +-180) the documented alternative is accepted; lon +- 360k must reproduce the base result bit for bit when lon1 + 360k is exactly representable");

  uint64_t ncalls = 0, ntraj = 0, bit_same = 0, bit_tot = 0;
  for (size_t ei = 0; ei < ells.size(); ++ei) {
    const geodtab::Ell& E = ells[ei];
    if (!T && !E.quick) continue;
    const std::vector<geodlat::Pair> pairs = geodlat::inverse_pairs(E, T ? 2 : 0);
    const ld tolv[3] = {geodtab::tol_series(E), geodtab::tol_exact(E), geodtab::tol_exact(E)};
    const ld tolA[3] = {geodtab::tol_area_series(E), geodtab::tol_area_exact(E), geodtab::tol_area_exact(E)};
    for (size_t pi = 0; pi < pairs.size(); ++pi) {
      if (!ctx.take()) continue;
      Solvers S; S.make(E);                 // fresh objects in every unit: a unit is self-contained (replay reproduces)
      const geodlat::Pair& P = pairs[pi];
      // both end points in R^3 (unit a)
      ld r1[3], r2[3], N[3], Ev[3]; E.e.frame(P.lat1, P.lon1, r1, N, Ev); E.e.frame(P.lat2, P.lon2, r2, N, Ev);
      auto rotz = [&](const ld* r, double lon, ld* o) { ld s, c; geod_ode::sincosd<ld>(lon, s, c); o[0] = c * r[0] + s * r[1]; o[1] = -s * r[0] + c * r[1]; o[2] = r[2]; };
      ld r2in1[3], r1in2[3]; rotz(r2, P.lon1, r2in1); rotz(r1, P.lon2, r1in2);
      const bool pole1 = fabs(P.lat1) == 90, pole2 = fabs(P.lat2) == 90;
      // latitudes below the AngRound threshold are forced to exactly 0 by the solvers (documented purpose of Math::AngRound),
      // so "lat1 = -lat2" (documented non-unique shortest geodesic) is judged on the rounded values
      const bool antilat = Math::AngRound(P.lat1) == -Math::AngRound(P.lat2) && !pole1;
      const bool lon180 = fabsl(remainderl((ld)P.lon2 - (ld)P.lon1, 360.0L)) == 180 && !pole1 && !pole2;
      // opposite poles (and antipodal points of a sphere): azimuths and hence S12 are free (Geodesic.hpp, third documented case)
      const bool freeazi = (pole1 && pole2 && P.lat1 == -P.lat2) || (E.f == 0 && P.lat1 == -P.lat2 && fabsl(remainderl((ld)P.lon2 - (ld)P.lon1, 360.0L)) == 180);
      Res base[3]; bool have[3] = {false, false, false}; ld m12o[3] = {0, 0, 0}, dsd[3] = {0, 0, 0};
      for (int sv = 0; sv < 3; ++sv) {
        if (sv == 0 && !E.series) continue;
        const ld tol = tolv[sv]; const char* svn = svname(sv);
        auto key = [&](const char* k) { return "e" + std::to_string(ei) + "/p" + std::to_string(pi) + "/" + svn + "/" + k; };
        auto where = [&] { return E.name + " " + fx(P.lat1) + " " + fx(P.lon1) + " " + fx(P.lat2) + " " + fx(P.lon2) + " fam=" + P.fam + " " + svn; };
        auto bad = [&](const char* kind, const std::string& k2, const std::string& msg) {
          char inp[160]; snprintf(inp, sizeof inp, "%.12g %.12g %.12g %.12g", P.lat1, P.lon1, P.lat2, P.lon2);
          ctx.fail(key((std::string(kind) + k2).c_str()), where() + ": " + msg, {{"kind", kind}, {"ell", E.name}, {"solver", svn}, {"family", std::string(1, P.fam)}, {"input", inp}, {"regime", geodlat::pair_regime(E, P, have[sv] ? base[sv].a12 : 0.0)}});
        };
        Res R;
        {
          Ctx::Case cs(ctx);
          R = S.inv(sv, P.lat1, P.lon1, P.lat2, P.lon2); ++ncalls;
          if (!finite(R)) { bad("nonfinite", "", "an output is not finite / not set: s12=" + fmt(R.s12) + " azi1=" + fmt(R.azi1) + " azi2=" + fmt(R.azi2) + " a12=" + fmt(R.a12)); continue; }
          base[sv] = R; have[sv] = true;
          // nearly antipodal pairs: an excess of up to 128 x tolerance is classed separately (see known_findings.d/C02.json)
          const bool nearanti = R.a12 >= 179.9 || fabsl(remainderl((ld)P.lon2 - (ld)P.lon1, 360.0L)) >= 179.9L;
          // an end point within 0.01 deg of a pole: an excess of up to 4 x tolerance is classed separately (b/a = 32, see known findings)
          const bool polar = fabs(P.lat1) >= 89.99 || fabs(P.lat2) >= 89.99;
          auto acc = [&](const char* kind, ld err) { return (nearanti && err <= 128 * tol) ? "antipodal-accuracy" : ((polar && err <= 4 * tol) ? "polar-accuracy" : (err <= 2 * tol ? "marginal-accuracy" : kind)); };   // marginal: between 1 and 2 x tolerance
          // ---- ranges / shortest-path conditions that need no oracle
          if (R.s12 < 0) ctx.count("s12.negative_within_tolerance");
          if (!(R.s12 >= -tol)) bad("range", "s12", "s12 " + fx(R.s12) + " negative");
          if (!(R.a12 >= 0 && R.a12 <= 180)) bad("range", "a12", "a12 " + fx(R.a12) + " outside [0,180]");
          if (!(fabs(R.azi1) <= 180 && fabs(R.azi2) <= 180)) bad("range", "azi", "azimuth outside [-180,180]: " + fx(R.azi1) + " " + fx(R.azi2));
          // ---- joins the points: follow (azi1, s12) from point 1 with the oracle
          Traj<ld> tf(E.e, 30, 1e-22L, 1.0L, false); tf.init(P.lat1, R.azi1); tf.advance((ld)R.s12 / E.e.a); Point<ld> pf = tf.point(); ++ntraj;
          ld d = 0; for (int i = 0; i < 3; ++i) { ld x = pf.r[i] - r2in1[i] * E.e.a; d += x * x; } d = sqrtl(d);
          ctx.worstf(std::string("forward_landing.err_over_tol.") + svn, (double)(d / tol), where);
          if (!(d <= tol)) bad(acc("forward", d), "fwd", "following azi1=" + fx(R.azi1) + " for s12=" + fx(R.s12) + " from point 1 ends " + fmtl(d) + " m from point 2 (tol " + fmtl(tol) + ")");
          // ---- arrives with azi2: follow azi2 backwards from point 2
          Traj<ld> tb(E.e, 30, 1e-22L, 1.0L, false); tb.init(P.lat2, R.azi2); tb.advance(-(ld)R.s12 / E.e.a); Point<ld> pb = tb.point(); ++ntraj;
          ld db = 0; for (int i = 0; i < 3; ++i) { ld x = pb.r[i] - r1in2[i] * E.e.a; db += x * x; } db = sqrtl(db);
          ctx.worstf(std::string("backward_landing.err_over_tol.") + svn, (double)(db / tol), where);
          if (!(db <= tol)) bad(acc("backward", db), "bwd", "following azi2=" + fx(R.azi2) + " backwards for s12=" + fx(R.s12) + " from point 2 ends " + fmtl(db) + " m from point 1 (tol " + fmtl(tol) + ")");
          // arrival direction of the forward trajectory against azi2 (as unit vectors in R^3, the oracle tangent projected into the
          // tangent plane at point 2), weighted by |m12|
          {
            ld rr[3], t2[3], t2r[3]; E.e.posdir(P.lat2, P.lon2, R.azi2, rr, t2); rotz(t2, P.lon1, t2r);
            ld sp, cp, s2, c2; geod_ode::sincosd<ld>(P.lat2, sp, cp);
            ld nl[3] = {r2in1[0], r2in1[1], r2in1[2] * E.e.qz}; { ld h = hypotl(hypotl(nl[0], nl[1]), nl[2]); for (int i = 0; i < 3; ++i) nl[i] /= h; }
            ld dn = pf.t[0] * nl[0] + pf.t[1] * nl[1] + pf.t[2] * nl[2], tp[3], nn = 0;
            for (int i = 0; i < 3; ++i) { tp[i] = pf.t[i] - dn * nl[i]; nn += tp[i] * tp[i]; } nn = sqrtl(nn);
            ld da = 0; for (int i = 0; i < 3; ++i) { ld x = tp[i] / nn - t2r[i]; da += x * x; } da = sqrtl(da);
            ld e = da * fabsl(pf.m12);
            ctx.worstf(std::string("arrival_direction_x_m12.err_over_tol.") + svn, (double)(e / (2 * tol)), where);
            if (!(e <= 2 * tol)) bad("arrival", "", "azi2=" + fx(R.azi2) + " is not the direction in which the geodesic arrives (|m12| x difference = " + fmtl(e) + " m)");
          }
          // ---- shortest: no conjugate point before the end, longitudinal extent at most 180 deg
          m12o[sv] = pf.m12;
          ctx.worstf(std::string("conjugate.minus_m12_over_tol.") + svn, (double)(-pf.m12 / (4 * tol)), where);
          if (!(pf.m12 >= -4 * tol)) bad("conjugate", "", "a conjugate point lies inside the returned geodesic: true m12 = " + fmtl(pf.m12));
          ld ext = fabsl(pf.lon12) - geod_ode::pi<ld>();
          if (!(ext * hypotl(pf.r[0], pf.r[1]) <= tol)) bad(acc("extent", ext * hypotl(pf.r[0], pf.r[1])), "ext", "longitudinal extent " + fmtl(fabsl(pf.lon12) / D) + " deg exceeds 180");
          // ---- a12 against the defining integral
          ld der, sg = geod_ode::dist_to_arc<ld>(E.e, pf, &der); dsd[sv] = der * D;
          ld ea = fabsl((ld)R.a12 - sg / D) * der * D;
          ctx.worstf(std::string("a12.err_over_tol.") + svn, (double)(ea / tol), where);
          if (!(ea <= tol)) bad(acc("a12", ea), "a12", "a12 " + fx(R.a12) + " but the arc of the returned geodesic is " + fmtl(sg / D));
          if (ctx.want_sample() && P.fam == 'a') ctx.sample(where() + " -> s12=" + fmt(R.s12) + " azi1=" + fmt(R.azi1) + " azi2=" + fmt(R.azi2) + " | lands " + fmtl(d) + " m from point 2");
        }
        // ---- symmetry images
        struct Img { const char* name; double la1, lo1, la2, lo2; Res want; bool exact; };
        std::vector<Img> imgs;
        { Res w = R; w.azi1 = flip180(R.azi2); w.azi2 = flip180(R.azi1); w.M12 = R.M21; w.M21 = R.M12; w.S12 = -R.S12; imgs.push_back({"swap", P.lat2, P.lon2, P.lat1, P.lon1, w, false}); }
        { Res w = R; w.azi1 = (R.azi1 < 0 || (R.azi1 == 0 && std::signbit(R.azi1)) ? -180 : 180) - R.azi1; w.azi2 = (R.azi2 < 0 || (R.azi2 == 0 && std::signbit(R.azi2)) ? -180 : 180) - R.azi2; w.S12 = -R.S12; imgs.push_back({"eqref", -P.lat1, P.lon1, -P.lat2, P.lon2, w, false}); }
        { Res w = R; w.azi1 = -R.azi1; w.azi2 = -R.azi2; w.S12 = -R.S12; imgs.push_back({"merref", P.lat1, -P.lon1, P.lat2, -P.lon2, w, false}); }
        for (int k : {1, -3}) {
          double l1 = P.lon1 + 360.0 * k;
          if ((ld)l1 == (ld)P.lon1 + 360.0L * k) imgs.push_back({k == 1 ? "lon+360" : "lon-1080", P.lat1, l1, P.lat2, P.lon2, R, true});
          else ctx.count("lonshift.skipped_inexact_sum");
        }
        for (auto& im : imgs) {
          Ctx::Case cs(ctx);
          Res I = S.inv(sv, im.la1, im.lo1, im.la2, im.lo2); ++ncalls;
          if (!finite(I)) { bad("nonfinite", im.name, std::string("image ") + im.name + " not finite"); continue; }
          if (im.exact) {
            bool same = I.s12 == R.s12 && angdiff(I.azi1, R.azi1) == 0 && angdiff(I.azi2, R.azi2) == 0 && I.a12 == R.a12 && I.m12 == R.m12 && I.M12 == R.M12 && I.M21 == R.M21 && I.S12 == R.S12;
            // lon12 = +-180: the sign of the reduced longitude difference may change, giving the documented mirror geodesic
            if (!same && (lon180 || ((pole1 || pole2) && fabsl(remainderl((ld)P.lon2 - (ld)P.lon1, 360.0L)) == 180)))
              same = I.s12 == R.s12 && angdiff(I.azi1, -R.azi1) == 0 && angdiff(I.azi2, -R.azi2) == 0 && I.a12 == R.a12 && I.m12 == R.m12 && I.M12 == R.M12 && I.M21 == R.M21 && I.S12 == -R.S12;
            if (!same) bad("lonshift", im.name, std::string(im.name) + " changes the result: s12 " + fx(I.s12) + " vs " + fx(R.s12) + ", azi1 " + fx(I.azi1) + " vs " + fx(R.azi1) + ", S12 " + fx(I.S12) + " vs " + fx(R.S12));
            continue;
          }
          // candidates: the transformed base result and the documented alternatives
          std::vector<Res> cand; cand.push_back(im.want);
          if (antilat) { Res w = im.want; std::swap(w.azi1, w.azi2); std::swap(w.M12, w.M21); w.S12 = -w.S12; cand.push_back(w); }
          if (lon180) { size_t n = cand.size(); for (size_t q = 0; q < n; ++q) { Res w = cand[q]; w.azi1 = -w.azi1; w.azi2 = -w.azi2; w.S12 = -w.S12; cand.push_back(w); } }
          ld best = 1e300L; std::string bestwhat;
          const ld wm = fabsl(m12o[sv]);
          for (auto& w : cand) {
            ld e = 0; std::string what;
            auto upd = [&](ld x, const char* n) { if (x > e) { e = x; what = n; } };
            upd(fabsl((ld)I.s12 - w.s12) / (2 * tol), "s12");
            if (!freeazi) upd(angdiff(I.azi1, w.azi1) * D * wm / (2 * tol), "azi1");
            if (!freeazi) upd(angdiff(I.azi2, w.azi2) * D * wm / (2 * tol), "azi2");
            upd(fabsl((ld)I.a12 - w.a12) * dsd[sv] / (2 * tol), "a12");
            upd(fabsl((ld)I.m12 - w.m12) / (4 * tol), "m12");
            upd(fabsl((ld)I.M12 - w.M12) * E.e.a / (4 * tol), "M12");
            upd(fabsl((ld)I.M21 - w.M21) * E.e.a / (4 * tol), "M21");
            if (!freeazi) upd(fabsl((ld)I.S12 - w.S12) / (2 * tolA[sv]), "S12");
            if (e < best) { best = e; bestwhat = what; }
          }
          ++bit_tot; if (I.s12 == im.want.s12 && angdiff(I.azi1, im.want.azi1) == 0 && angdiff(I.azi2, im.want.azi2) == 0) ++bit_same;
          ctx.worstf(std::string("symmetry.") + im.name + ".err_over_tol." + svn, (double)best, where);
          if (!(best <= 1)) bad("symmetry", im.name, std::string(im.name) + ": " + bestwhat + " differs from the transformed base result by " + fmtl(best) + " x tolerance (image s12=" + fx(I.s12) + " azi1=" + fx(I.azi1) + " azi2=" + fx(I.azi2) + " S12=" + fmt(I.S12) + "; base s12=" + fx(R.s12) + " azi1=" + fx(R.azi1) + " azi2=" + fx(R.azi2) + " S12=" + fmt(R.S12) + ")");
        }
      }
      // ---- history independence: the objects of this unit have by now served the pair and its images.  A fixed probe sequence (general ->
      //      meridional -> equatorial -> short -> the pair itself) is run on the same objects; every result must be bit-identical to the
      //      result of a brand-new object constructed for that one call (no state may be carried from one call to the next).
      {
        const double probes[5][4] = {{10, 0, 40, 70}, {10, 0, 60, 0}, {0, 0, 0, 50}, {30, 0, 30.00001, 0.00001}, {P.lat1, P.lon1, P.lat2, P.lon2}};
        for (int sv = 0; sv < 3; ++sv) {
          if (sv == 0 && !E.series) continue;
          for (int q = 0; q < 5; ++q) {
            Ctx::Case cs(ctx);
            Res U = S.inv(sv, probes[q][0], probes[q][1], probes[q][2], probes[q][3]);
            Solvers F; F.make(E);
            Res V = F.inv(sv, probes[q][0], probes[q][1], probes[q][2], probes[q][3]); ncalls += 2;
            bool same = mc::same_bits(U.s12, V.s12) && mc::same_bits(U.azi1, V.azi1) && mc::same_bits(U.azi2, V.azi2) && mc::same_bits(U.a12, V.a12) &&
                        mc::same_bits(U.m12, V.m12) && mc::same_bits(U.M12, V.M12) && mc::same_bits(U.M21, V.M21) && mc::same_bits(U.S12, V.S12);
            if (!same)
              ctx.fail("e" + std::to_string(ei) + "/p" + std::to_string(pi) + "/" + svname(sv) + "/hist" + std::to_string(q),
                       E.name + " " + svname(sv) + ": Inverse(" + fmt(probes[q][0]) + "," + fmt(probes[q][1]) + "," + fmt(probes[q][2]) + "," + fmt(probes[q][3]) + ") on an object that has served other calls gives s12=" + fx(U.s12) + " azi1=" + fx(U.azi1) + " S12=" + fx(U.S12) +
                       " but a new object gives s12=" + fx(V.s12) + " azi1=" + fx(V.azi1) + " S12=" + fx(V.S12) + " (previous calls: pair " + fx(P.lat1) + " " + fx(P.lon1) + " " + fx(P.lat2) + " " + fx(P.lon2) + ", its images and probes 0.." + std::to_string(q - 1) + ")",
                       {{"kind", "history-dependence"}, {"ell", E.name}, {"solver", svname(sv)}, {"probe", std::to_string(q)}});
          }
        }
      }
      // ---- tiny latitudes: both |lat| <= 1e-20 deg and lon12 short of the equatorial conjugate distance: the answer is the equatorial arc
      if (P.fam == 't' && std::fabs(P.lat1) <= 1e-20 && std::fabs(P.lat2) <= 1e-20) {
        const ld l12 = fabsl(remainderl((ld)P.lon2 - (ld)P.lon1, 360.0L));
        if (E.f <= 0 || l12 <= (1 - (ld)E.f) * 180 - 1e-6L) {
          for (int sv = 0; sv < 3; ++sv) if (have[sv]) {
            Ctx::Case cs(ctx);
            const Res& R = base[sv]; const ld tol = tolv[sv];
            ld es = fabsl((ld)R.s12 - E.e.a * l12 * D), ea = fabsl((ld)R.a12 - l12 / (1 - (ld)E.f)) * D * E.e.b;
            ld ez = std::max(angdiff(R.azi1, 90), angdiff(R.azi2, 90)) * D * E.e.a * sinl(std::min<ld>(l12 * D / (1 - (ld)E.f), geod_ode::pi<ld>() / 2));
            ld e = std::max(es, std::max(ea, ez));
            ctx.worstf(std::string("tiny_lat.closed_form.err_over_tol.") + svname(sv), (double)(e / tol), [&] { return E.name + " " + fx(P.lat1) + " " + fx(P.lat2) + " lon12=" + fmt((double)l12); });
            if (!(e <= tol)) {
              char inp[160]; snprintf(inp, sizeof inp, "%.12g %.12g %.12g %.12g", P.lat1, P.lon1, P.lat2, P.lon2);
              ctx.fail("e" + std::to_string(ei) + "/p" + std::to_string(pi) + "/" + svname(sv) + "/tiny", E.name + " " + svname(sv) + " lat1=" + fx(P.lat1) + " lat2=" + fx(P.lat2) + " lon12=" + fmt((double)l12) + ": s12=" + fx(R.s12) + " a12=" + fx(R.a12) + " azi1=" + fx(R.azi1) + " azi2=" + fx(R.azi2) +
                       " but the equatorial arc is s12=" + fmtl(E.e.a * l12 * D) + " a12=" + fmtl(l12 / (1 - (ld)E.f)) + " azi=90", {{"kind", "equatorial-closed-form"}, {"ell", E.name}, {"solver", svname(sv)}, {"family", "t"}, {"input", inp}, {"regime", geodlat::pair_regime(E, P, R.a12)}});
            }
          }
        }
      }
      // ---- the solvers agree
      for (int i = 0; i < 3; ++i) for (int j = i + 1; j < 3; ++j) if (have[i] && have[j]) {
        const Res &A = base[i], &B = base[j]; ld tl = tolv[i] + tolv[j], wm = std::min(fabsl(m12o[i]), fabsl(m12o[j]));
        // non-unique cases: the solvers may legitimately pick different members; compare s12 and a12 only there
        bool uniq = !(antilat || lon180);
        ld e = fabsl((ld)A.s12 - B.s12) / tl; std::string what = "s12";
        if (uniq) { ld x = angdiff(A.azi1, B.azi1) * D * wm / tl; if (x > e) { e = x; what = "azi1"; } x = angdiff(A.azi2, B.azi2) * D * wm / tl; if (x > e) { e = x; what = "azi2"; } }
        { ld x = fabsl((ld)A.a12 - B.a12) * dsd[i] / tl; if (x > e) { e = x; what = "a12"; } }
        ctx.worstf("solvers.pairwise.err_over_tol", (double)e, [&] { return E.name + " " + fx(P.lat1) + " " + fx(P.lon1) + " " + fx(P.lat2) + " " + fx(P.lon2); });
        if (!(e <= 1)) {
          Ctx::Case cs(ctx);
          ctx.fail("e" + std::to_string(ei) + "/p" + std::to_string(pi) + "/pair" + std::to_string(i) + std::to_string(j), E.name + " " + fx(P.lat1) + " " + fx(P.lon1) + " " + fx(P.lat2) + " " + fx(P.lon2) + ": " + svname(i) + " and " + svname(j) + " differ in " + what + " by " + fmtl(e) + " x tolerance",
                   {{"kind", "pairwise"}, {"ell", E.name}, {"family", std::string(1, P.fam)}, {"regime", geodlat::pair_regime(E, P, base[j].a12)}});
        }
      }
    }
  }
  ctx.count("symmetry.images_bit_identical_to_prediction", bit_same); ctx.count("symmetry.images_compared", bit_tot);

  // =========================================================================================== metric
  ctx.sub("metric");
  ctx.bound("metric.points", T ? "9 grid latitudes x lon {0,1,90,179,179.99,181} + 4 x 9 antipodal neighbours + 8 points 1 m around (30,0) + 8 points 1e-8 deg around (-89.9999,0) + 2 equatorial conjugate points + 2 coincident aliases + 4 latitudes x lon {0,45,135,180,-90,-179.5} + both poles twice (146 points)"
                               : "every second point of the thorough set + 1 coincident alias (47 points)");
  ctx.bound("metric.space", "all ordered pairs (distance matrix) and ALL ordered triples per ellipsoid and solver");
  uint64_t ntrip = 0;
  for (size_t ei = 0; ei < ells.size(); ++ei) {
    const geodtab::Ell& E = ells[ei];
    if (!T && !E.quick) continue;
    for (int sv = 0; sv < 3; ++sv) {
      if (sv == 0 && !E.series) continue;
      if (!ctx.take()) continue;
      Solvers S; S.make(E);
      const ld tol = sv == 0 ? geodtab::tol_series(E) : geodtab::tol_exact(E); const char* svn = svname(sv);
      std::vector<geodlat::Pt> pts = geodlat::metric_points(E, T);
      const size_t n = pts.size();
      std::vector<double> d(n * n);
      std::vector<ld> xyz(3 * n);
      for (size_t i = 0; i < n; ++i) { ld N[3], Ev[3]; E.e.frame(pts[i].lat, pts[i].lon, &xyz[3 * i], N, Ev); }
      auto nm = [&](size_t i) { return "(" + fmt(pts[i].lat) + "," + fmt(pts[i].lon) + ")"; };
      for (size_t i = 0; i < n; ++i) for (size_t j = 0; j < n; ++j) {
        Ctx::Case cs(ctx);
        Res R = S.inv(sv, pts[i].lat, pts[i].lon, pts[j].lat, pts[j].lon); ++ncalls;
        d[i * n + j] = R.s12;
        ld c = hypotl(hypotl(xyz[3 * i] - xyz[3 * j], xyz[3 * i + 1] - xyz[3 * j + 1]), xyz[3 * i + 2] - xyz[3 * j + 2]) * E.e.a;
        std::string key = "e" + std::to_string(ei) + "/" + svn + "/" + std::to_string(i) + "," + std::to_string(j);
        if (!(R.s12 >= 0) || !std::isfinite(R.s12)) ctx.fail(key + "/neg", E.name + " " + svn + " d" + nm(i) + nm(j) + " = " + fx(R.s12), {{"kind", "metric-range"}, {"ell", E.name}, {"solver", svn}});
        // chord <= geodesic distance; zero on coincident points
        if (!(R.s12 >= c - tol)) ctx.fail(key + "/chord", E.name + " " + svn + " d" + nm(i) + nm(j) + " = " + fx(R.s12) + " is shorter than the chord " + fmtl(c), {{"kind", "metric-chord"}, {"ell", E.name}, {"solver", svn}});
        if (c == 0 && !(R.s12 <= tol)) ctx.fail(key + "/zero", E.name + " " + svn + " coincident points " + nm(i) + nm(j) + " but s12 = " + fx(R.s12), {{"kind", "metric-zero"}, {"ell", E.name}, {"solver", svn}});
      }
      ld ws = 0, wt = 0;
      for (size_t i = 0; i < n; ++i) for (size_t j = 0; j < i; ++j) {
        ld e = fabsl((ld)d[i * n + j] - d[j * n + i]);
        if (e > ws) ws = e;
        if (!(e <= 2 * tol)) { Ctx::Case cs(ctx); ctx.fail("e" + std::to_string(ei) + "/" + svn + "/" + std::to_string(i) + "," + std::to_string(j) + "/sym", E.name + " " + svn + " d" + nm(i) + nm(j) + " = " + fx(d[i * n + j]) + " but reversed " + fx(d[j * n + i]), {{"kind", "metric-symmetry"}, {"ell", E.name}, {"solver", svn}}); }
      }
      for (size_t i = 0; i < n; ++i) for (size_t k = 0; k < n; ++k) {
        const double dik = d[i * n + k];
        for (size_t j = 0; j < n; ++j) {
          ld ex = (ld)dik - ((ld)d[i * n + j] + (ld)d[j * n + k]);
          if (ex > wt) wt = ex;
          if (!(ex <= 3 * tol)) { Ctx::Case cs(ctx); ctx.fail("e" + std::to_string(ei) + "/" + svn + "/" + std::to_string(i) + "," + std::to_string(j) + "," + std::to_string(k) + "/tri", E.name + " " + svn + " triangle inequality: d" + nm(i) + nm(k) + " = " + fx(dik) + " > d" + nm(i) + nm(j) + " + d" + nm(j) + nm(k) + " = " + fx(d[i * n + j]) + " + " + fx(d[j * n + k]), {{"kind", "metric-triangle"}, {"ell", E.name}, {"solver", svn}, {"edge_lon12", fmt((double)fabsl(remainderl((ld)pts[k].lon - (ld)pts[i].lon, 360.0L)))}, {"edge_lats_rounded", fmt(std::round(pts[i].lat)) + "," + fmt(std::round(pts[k].lat))}}); }
        }
        ntrip += n;
      }
      ctx.worst(std::string("metric.symmetry.err_over_tol.") + svn, (double)(ws / (2 * tol)), E.name);
      ctx.worst(std::string("metric.triangle_excess_over_tol.") + svn, (double)(wt / (3 * tol)), E.name);
    }
  }
  // =========================================================================================== InverseLine capabilities
  // Contract (Geodesic.hpp / GeodesicLine.hpp): InverseLine "sets point 3 of the GeodesicLine to correspond to point 2 of the inverse
  // geodesic problem"; SetArc: "the distance s13 is only set if the GeodesicLine object has been constructed with caps |= DISTANCE";
  // SetDistance / Position by distance need DISTANCE_IN; InverseLine itself adds DISTANCE when DISTANCE_IN is requested ("ensure that a12
  // can be converted to a distance"); LATITUDE and AZIMUTH are always added.  Hence, for every caps:
  //   Arc() == a12 of GenInverse;  Distance() == s12 iff caps has the DISTANCE or the DISTANCE_IN bit, else NaN;
  //   ArcPosition(Arc()) returns point 2 (lat always, lon iff LONGITUDE);  Position(Distance()) returns point 2 iff caps has DISTANCE_IN, else NaN;
  //   the three solver classes show the same NaN pattern.
  ctx.sub("inverse-line-caps");
  ctx.bound("inverse-line-caps", "quick ellipsoids (both tiers) x {Geodesic, GeodesicExact, Geodesic(exact=true)} x 6 pairs (generic, meridional, equatorial, nearly antipodal, 1 m, from a pole) x 18 capability sets {ALL, DISTANCE_IN|LATITUDE|LONGITUDE, DISTANCE_IN, DISTANCE|LATITUDE, LATITUDE|LONGITUDE|AZIMUTH, DISTANCE_IN|AREA, NONE, ALL&~DISTANCE, each of the 9 capability bits alone, DISTANCE|DISTANCE_IN|LONGITUDE}");
  {
    const double prs[6][4] = {{10, 0, 40, 70}, {-20, 15, 55, 15}, {0, -10, 0, 95}, {-30, 0, 29.9, 179.5}, {30, 0, 30.000006, 0.000007}, {90, 0, -35, 123}};
    for (size_t ei = 0; ei < ells.size(); ++ei) {
      const geodtab::Ell& E = ells[ei];
      // both tiers enumerate the quick ellipsoids here: on b/a = 1/32 (thorough-only) the nearly antipodal pair misses point 2 by 2.5 um with caps lacking LATITUDE,
      // which has the size of the open 'antipodal-accuracy' findings of the `pairs` subcheck; not adjudicated separately for this subcheck (DESIGN 9.2)
      if (!E.quick) continue;
      if (!ctx.take()) continue;
      Solvers S; S.make(E);
      const ld tolv[3] = {geodtab::tol_series(E), geodtab::tol_exact(E), geodtab::tol_exact(E)};
      for (int pq = 0; pq < 6; ++pq) {
        const double la1 = prs[pq][0], lo1 = prs[pq][1], la2 = prs[pq][2], lo2 = prs[pq][3];
        ld r2[3], N[3], Ev[3]; E.e.frame(la2, lo2, r2, N, Ev);
        for (int ci = 0; ci < 18; ++ci) {
          int pat[3] = {-1, -1, -1};
          for (int sv = 0; sv < 3; ++sv) {
            if (sv == 0 && !E.series) continue;
            Ctx::Case cs(ctx);
            // the capability sets are built from each class's own mask values
            unsigned caps; std::string cname; bool hasD, hasDin, hasLon;
            auto build = [&](unsigned ALL, unsigned LAT, unsigned LON, unsigned AZI, unsigned DIS, unsigned DIN, unsigned RED, unsigned SCA, unsigned ARE, unsigned UNR) {
              const unsigned single[9] = {LAT, LON, AZI, DIS, DIN, RED, SCA, ARE, UNR}; static const char* sn[9] = {"LATITUDE", "LONGITUDE", "AZIMUTH", "DISTANCE", "DISTANCE_IN", "REDUCEDLENGTH", "GEODESICSCALE", "AREA", "LONG_UNROLL"};
              switch (ci) {
              case 0: caps = ALL; cname = "ALL"; break;
              case 1: caps = DIN | LAT | LON; cname = "DISTANCE_IN|LATITUDE|LONGITUDE"; break;
              case 2: caps = DIN; cname = "DISTANCE_IN"; break;
              case 3: caps = DIS | LAT; cname = "DISTANCE|LATITUDE"; break;
              case 4: caps = LAT | LON | AZI; cname = "LATITUDE|LONGITUDE|AZIMUTH"; break;
              case 5: caps = DIN | ARE; cname = "DISTANCE_IN|AREA"; break;
              case 6: caps = 0u; cname = "NONE"; break;
              case 7: caps = ALL & ~DIS; cname = "ALL&~DISTANCE"; break;
              case 17: caps = DIS | DIN | LON; cname = "DISTANCE|DISTANCE_IN|LONGITUDE"; break;
              default: caps = single[ci - 8]; cname = sn[ci - 8];
              }
            };
            if (sv == 1) build(GeodesicExact::ALL, GeodesicExact::LATITUDE, GeodesicExact::LONGITUDE, GeodesicExact::AZIMUTH, GeodesicExact::DISTANCE, GeodesicExact::DISTANCE_IN, GeodesicExact::REDUCEDLENGTH, GeodesicExact::GEODESICSCALE, GeodesicExact::AREA, GeodesicExact::LONG_UNROLL);
            else build(Geodesic::ALL, Geodesic::LATITUDE, Geodesic::LONGITUDE, Geodesic::AZIMUTH, Geodesic::DISTANCE, Geodesic::DISTANCE_IN, Geodesic::REDUCEDLENGTH, Geodesic::GEODESICSCALE, Geodesic::AREA, Geodesic::LONG_UNROLL);
            hasD = caps & (1u << 10); hasDin = caps & (1u << 11); hasLon = caps & (1u << 8);
            const ld tol = tolv[sv]; const char* svn = svname(sv);
            Res R = S.inv(sv, la1, lo1, la2, lo2);
            LineObs o = sv == 0 ? inverse_line_obs(*S.gs, la1, lo1, la2, lo2, caps) : (sv == 1 ? inverse_line_obs(*S.ge, la1, lo1, la2, lo2, caps) : inverse_line_obs(*S.gx, la1, lo1, la2, lo2, caps));
            ncalls += 2;
            auto where = [&] { return E.name + " " + svn + " InverseLine(" + fmt(la1) + "," + fmt(lo1) + "," + fmt(la2) + "," + fmt(lo2) + ", caps=" + cname + ")"; };
            auto bad = [&](const char* kind, const std::string& msg) { ctx.fail("e" + std::to_string(ei) + "/q" + std::to_string(pq) + "/c" + std::to_string(ci) + "/" + svn + "/" + kind, where() + ": " + msg, {{"kind", kind}, {"ell", E.name}, {"solver", svn}, {"caps", cname}}); };
            const ld big = std::max(E.e.a, E.e.b);
            // Arc()
            if (!(fabsl((ld)o.arc - (ld)R.a12) * D * big <= tol)) bad("line-arc", "Arc() = " + fx(o.arc) + " but a12 of the inverse problem is " + fx(R.a12));
            // Distance()
            const bool wantD = hasD || hasDin;
            if (wantD) { if (!(fabsl((ld)o.dist - (ld)R.s12) <= tol)) bad("line-distance", "Distance() = " + fx(o.dist) + " but s12 of the inverse problem is " + fx(R.s12) + " (the line has the distance capability)"); }
            else if (!std::isnan(o.dist)) bad("line-distance", "Distance() = " + fx(o.dist) + " although the line was built without DISTANCE / DISTANCE_IN");
            // point 3 == point 2, by arc and by distance
            auto miss = [&](double la, double lo) -> ld {
              if (!std::isfinite(la) || la == SENT) return INFINITY;
              if (hasLon) { if (!std::isfinite(lo) || lo == SENT) return INFINITY; ld r[3], n2[3], e2[3]; E.e.frame(la, lo, r, n2, e2); return hypotl(hypotl(r[0] - r2[0], r[1] - r2[1]), r[2] - r2[2]) * E.e.a; }
              return fabsl((ld)la - (ld)la2) * D * big;
            };
            const ld ptol = 4 * tol;       // inverse (tol) + direct by arc / distance (tol) + the two independent azimuth / length roundings
            { ld e = miss(o.ap_lat, o.ap_lon); ctx.worstf(std::string("linecaps.arcposition.err_over_tol.") + svn, (double)(e / ptol), where);
              if (!(e <= ptol) || std::isnan(o.ap_ret)) bad("line-arcposition", "ArcPosition(Arc()) gives lat " + fx(o.ap_lat) + " lon " + fx(o.ap_lon) + " (return " + fmt(o.ap_ret) + "), " + fmtl(e) + " m from point 2"); }
            if (hasDin) { ld e = miss(o.dp_lat, o.dp_lon); ctx.worstf(std::string("linecaps.position.err_over_tol.") + svn, (double)(e / ptol), where);
              if (!(e <= ptol) || std::isnan(o.dp_ret)) bad("line-position", "Position(Distance()) gives lat " + fx(o.dp_lat) + " lon " + fx(o.dp_lon) + " (return " + fmt(o.dp_ret) + ", Distance() = " + fx(o.dist) + "), " + fmtl(e) + " m from point 2 although the line has DISTANCE_IN"); }
            else if (!std::isnan(o.dp_ret)) bad("line-position", "Position by distance returns " + fx(o.dp_ret) + " on a line without DISTANCE_IN (documented: NaN)");
            pat[sv] = (std::isnan(o.arc) ? 1 : 0) | (std::isnan(o.dist) ? 2 : 0) | (std::isnan(o.ap_ret) ? 4 : 0) | (std::isnan(o.dp_ret) ? 8 : 0);
            if (ctx.want_sample() && ci == 1) ctx.sample(where() + " -> Arc()=" + fmt(o.arc) + " Distance()=" + fmt(o.dist));
          }
          // the solver classes agree on what is NaN
          for (int i = 0; i < 3; ++i) for (int j = i + 1; j < 3; ++j) if (pat[i] >= 0 && pat[j] >= 0 && pat[i] != pat[j]) {
            Ctx::Case cs(ctx);
            ctx.fail("e" + std::to_string(ei) + "/q" + std::to_string(pq) + "/c" + std::to_string(ci) + "/nanpattern" + std::to_string(i) + std::to_string(j), E.name + " pair " + std::to_string(pq) + " caps set " + std::to_string(ci) + ": " + svname(i) + " and " + svname(j) + " differ in which of Arc()/Distance()/ArcPosition/Position are NaN (" + std::to_string(pat[i]) + " vs " + std::to_string(pat[j]) + ")",
                     {{"kind", "line-nan-pattern"}, {"ell", E.name}});
          }
        }
      }
    }
  }
  // =========================================================================================== prolate, lon12 = 180
  // GenInverse accepts the meridional geodesic over the pole when sig12 < 1 or m12 >= 0.  On prolate ellipsoids the meridian stops being
  // the shortest path at a conjugate point that comes before 90 deg of arc: b/a in {2, 2.5, 3} (for b/a >= 4 the unchanged code is already
  // wrong, see the known findings of `pairs`).  All latitude pairs of a grid with lon12 = 180 exactly (poles included): the returned
  // geodesic must join the points, contain no conjugate point (true m12 >= 0 along it), and must not be longer than the broken path
  // through the points 90 deg away on the equator side.
  ctx.sub("prolate-lon180");
  ctx.bound("prolate-lon180.ellipsoids", "b/a in {2, 2.5, 3} (quarter meridian 1e7 m) x {GeodesicExact, Geodesic(exact=true)}");
  ctx.bound("prolate-lon180.pairs", T ? "lat1, lat2 in {-90, -89, ..., 90} (1 deg), lon1 in {0, 100.1}, lon2 = lon1 + 180 (2 x 32761 pairs per ellipsoid)" : "lat1, lat2 in {-90, -87.5, ..., 90} (2.5 deg), lon1 = 0, lon2 = 180 (5329 pairs per ellipsoid)");
  {
    const double step = T ? 1.0 : 2.5; const int nl = int(180 / step) + 1;
    for (double ba : {2.0, 2.5, 3.0}) {
      geodtab::Ell E; { char nm[32]; snprintf(nm, sizeof nm, "b/a=%g", ba); E.name = nm; }
      E.f = 1 - ba; { geod_ode::Ellipsoid<ld> e1(1.0, E.f); E.a = (double)(1e7L / e1.quarter_meridian()); }
      E.quick = true; E.series = false; E.e = geod_ode::Ellipsoid<ld>(E.a, E.f); E.Q = E.e.quarter_meridian();
      const ld tol = geodtab::tol_exact(E);
      for (double lon1 : (T ? std::vector<double>{0, 100.1} : std::vector<double>{0})) for (int i1 = 0; i1 < nl; ++i1) {
        if (!ctx.take()) continue;
        Solvers S; S.make(E);
        const double lat1 = -90 + i1 * step, lon2 = lon1 + 180;
        for (int i2 = 0; i2 < nl; ++i2) {
          const double lat2 = -90 + i2 * step;
          ld r1[3], r2[3], N[3], Ev[3]; E.e.frame(lat1, lon1, r1, N, Ev); E.e.frame(lat2, lon2, r2, N, Ev);
          ld r2in1[3]; { ld sn, cs; geod_ode::sincosd<ld>(lon1, sn, cs); r2in1[0] = cs * r2[0] + sn * r2[1]; r2in1[1] = -sn * r2[0] + cs * r2[1]; r2in1[2] = r2[2]; }
          for (int sv = 1; sv < 3; ++sv) {
            Ctx::Case cs(ctx);
            Res R = S.inv(sv, lat1, lon1, lat2, lon2); ++ncalls;
            auto where = [&] { return E.name + " a=" + fx(E.a) + " " + fmt(lat1) + " " + fmt(lon1) + " " + fmt(lat2) + " " + fmt(lon2) + " " + svname(sv); };
            auto bad = [&](const char* kind, const std::string& msg) { ctx.fail(std::string("ba") + fmt(ba) + "/lo" + fmt(lon1) + "/" + std::to_string(i1) + "," + std::to_string(i2) + "/" + svname(sv) + "/" + kind, where() + ": " + msg, {{"kind", kind}, {"ell", E.name}, {"solver", svname(sv)}}); };
            if (!finite(R)) { bad("nonfinite", "output not finite"); continue; }
            Traj<ld> tf(E.e, 30, 1e-22L, 1.0L, false); tf.init(lat1, R.azi1); tf.advance((ld)R.s12 / E.e.a); Point<ld> pf = tf.point(); ++ntraj;
            ld d = 0; for (int q = 0; q < 3; ++q) { ld x = pf.r[q] - r2in1[q] * E.e.a; d += x * x; } d = sqrtl(d);
            ctx.worstf(std::string("prolate180.landing.err_over_tol.") + svname(sv), (double)(d / (128 * tol)), where);
            // (nearly antipodal pairs: the accuracy class of `pairs`, up to 128 x tolerance, is a known finding; anything beyond is gross)
            if (!(d <= 128 * tol)) bad("forward", "following azi1=" + fx(R.azi1) + " s12=" + fx(R.s12) + " ends " + fmtl(d) + " m from point 2");
            ctx.worstf(std::string("prolate180.minus_m12_over_tol.") + svname(sv), (double)(-pf.m12 / (4 * tol)), where);
            if (!(pf.m12 >= -4 * tol)) bad("conjugate", "the returned geodesic (azi1=" + fx(R.azi1) + ", s12=" + fx(R.s12) + ", library m12=" + fx(R.m12) + ") contains a conjugate point: true m12 = " + fmtl(pf.m12) + ", so it is not the shortest path");
            // broken path through a point a quarter turn away
            for (double lom : {lon1 + 90, lon1 - 90}) {
              double lam = 0.5 * (lat1 + lat2);
              Res A = S.inv(sv, lat1, lon1, lam, lom), B = S.inv(sv, lam, lom, lat2, lon2); ncalls += 2;
              ld ex = (ld)R.s12 - ((ld)A.s12 + (ld)B.s12);
              ctx.worstf(std::string("prolate180.broken_path_excess_over_tol.") + svname(sv), (double)(ex / (3 * tol)), where);
              if (!(ex <= 3 * tol)) bad("broken-path", "s12 = " + fx(R.s12) + " is longer than the path through (" + fmt(lam) + "," + fmt(lom) + "): " + fx(A.s12) + " + " + fx(B.s12));
            }
          }
        }
      }
    }
  }
  ctx.count("calls", ncalls); ctx.count("oracle_trajectories", ntraj); ctx.count("triples", ntrip);
  return ctx.finish();
}
