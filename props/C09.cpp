// C09 -- rhumb-line direct, inverse and area (Rhumb, RhumbLine; series and exact variants).
// Engine E1: full Cartesian product of per-argument alphabets x all configurations, executed on the compiled library;
// every call is judged by oracle/rhumb_q.hpp (defining integrals in __float128, nothing shared with the library).
//
// Error model (DESIGN Appendix B "rhumb": round-off level, calibrated then frozen).  An error is measured as a
// displacement in metres (distance; azimuth error x length; latitude error x M; longitude error x parallel radius) or in
// m^2, and compared with
//      T = (K + Ctr |n|^7 / eps [series mode only]) * [ eps * scale  +  sens ]
// scale = max(a, |s12|) (area: a^2 |lon12| in radians), eps = 2^-52, and sens = the change of the oracle's answer when a
// latitude argument is moved by delta = 2^-52 * 90 deg, i.e. the condition of the case with respect to one rounding of a
// latitude-like quantity (a backward-stable evaluation cannot do better; without it the cells next to the poles, where a
// course winds thousands of times around the pole, would need a tolerance that is vacuous elsewhere).  The series
// variant has a truncation error O(n^7) (AUXLATITUDE_ORDER = RHUMBAREA_ORDER = 6 at this precision); the documentation
// calls it accurate for |f| < 0.01 and gives no figure beyond, so Ctr is calibrated like K.
#include "mc/ctx.hpp"
#include "oracle/rhumb_q.hpp"
#include <GeographicLib/Rhumb.hpp>
#include <memory>
#include <string>
#include <vector>

using namespace GeographicLib;
using mc::Ctx; using mc::fx; using mc::fmt; using mc::fmti;
typedef rhq::Q Q;

static const double EPS = std::numeric_limits<double>::epsilon();
static const double SENT = -1.2345678e301;        // sentinel for outputs
static const double NaN = std::numeric_limits<double>::quiet_NaN();

// ---------------------------------------------------------------- frozen tolerance constants (see calibration note)
// K*: multiples of the error model above; calibrated on the unchanged tree to >= 4 x the worst observed ratio
// (worst observed values are reported as worst[...] in the evidence), at least 16.
static const double KS_ = 32, KAZI_ = 16, KAREA_ = 16;             // inverse: s12, azi12*s12, S12
static const double KLAT_ = 40, KLON_ = 40, KDAREA_ = 40;           // direct: lat2*M, lon2*R, S12
static const double K_CLOSE = 1;                                    // closure identities: multiples of the summed tolerances
static const double CTR_ = 128;                                     // series truncation: CTR_ * |n|^7
static const double KELLAREA_ = 16;                                 // EllipsoidArea, relative, in eps
#ifndef C09_CALIBRATE
static const double K_S = KS_, K_AZI = KAZI_, K_AREA = KAREA_, K_LAT = KLAT_, K_LON = KLON_, K_DAREA = KDAREA_, C_TR = CTR_, K_ELLAREA = KELLAREA_;
#else    // calibration build: nothing fails, err_over_model is the raw ratio to the round-off model
static const double K_S = 1e30, K_AZI = 1e30, K_AREA = 1e30, K_LAT = 1e30, K_LON = 1e30, K_DAREA = 1e30, C_TR = 0, K_ELLAREA = 1e30;
#endif

// input class of the known defect in DAuxLatitude::DE (see known_findings.d/C09.json)
static const char* DEQ_CLASS = "exact-variant,prolate,both-points-within-10deg-of-equator";
// input class of the known defect in DAuxLatitude::DParametric (NaN when tan(phi1) != tan(phi2) have equal reciprocals)
static const char* DPAR_CLASS = "exact-variant,|lat|>=45,end-latitude-within-8eps-of-start-latitude";

struct EllSpec { double a, f; bool exact_only, quick; };
static const double WF = 1 / 298.257223563, WA = 6378137;
static const EllSpec ELLS[] = {
  {WA, WF, false, true}, {WA, 0, false, true}, {WA, -0.01, false, true}, {WA, 0.2, false, true}, {1, 1 / 150.0, false, true},
  {WA, -0.5, true, true},
  {WA, -WF, false, false}, {WA, 0.01, false, false}, {WA, 0.02, false, false}, {WA, -0.02, false, false}, {WA, 0.05, false, false},
  {WA, -0.05, false, false}, {WA, 0.1, false, false}, {WA, -0.1, false, false}, {WA, -0.2, false, false}, {1e9, -1 / 150.0, false, false},
  {WA, 0.5, true, false},
  // second thorough ring: the AuxLatitude 'full accuracy' limit |f| = 1/150 at WGS84 size, and extreme exact-only shapes
  {WA, 1 / 150.0, false, false}, {WA, -1 / 150.0, false, false}, {WA, 0.3, true, false}, {WA, -0.3, true, false},
  {WA, 0.6, true, false}, {WA, -1.0, true, false}, {1e-3, 0.05, true, false},
  {WA, 0.4, true, false}, {WA, -0.4, true, false}, {WA, -0.75, true, false}, {WA, 0.005, false, false}, {WA, -0.005, false, false},
  {6371000, 0, false, false}, {WA, 0.15, true, false},
};
static const int NELL = sizeof(ELLS) / sizeof(ELLS[0]);

static std::string qs(Q x) { char b[64]; quadmath_snprintf(b, sizeof b, "%.20Qg", x); return b; }
static double qd(Q x) { return (double)x; }
static Q angdiff360(Q a, Q b) { return remainderq(a - b, Q(360)); }          // a - b reduced to [-180,180]

struct Env {
  Ctx& ctx; const EllSpec& es; rhq::Ell E; std::unique_ptr<Rhumb> rh[2]; double n7; std::string ename;
  Env(Ctx& c, const EllSpec& s) : ctx(c), es(s), E(s.a, s.f) {
    if (!s.exact_only) rh[0].reset(new Rhumb(s.a, s.f, false));
    rh[1].reset(new Rhumb(s.a, s.f, true));
    double n = s.f / (2 - s.f); n7 = std::pow(std::fabs(n), 7);
    ename = "a=" + fmt(s.a) + ",f=" + fmt(s.f);
  }
  // effective multiple of the round-off model: the series variant adds its truncation error, which acts like a
  // relative perturbation C |n|^7 of the same latitude-like quantities
  double keff(double K, int mode, double ctr) const { return K + (mode == 0 ? ctr * n7 / EPS : 0); }
  // cases inside the input class of a known defect are kept out of the worst-case statistics of the healthy regime
  bool deq = false;
  bool smallf() const { return std::fabs(es.f) <= 0.01; }
  std::string wname(const char* pred, int mode) const {
    // worst-case statistics are kept per regime: exact / series with |f| <= 0.01 (round-off claim) / series beyond
    return std::string(pred) + (mode ? ".exact" : (smallf() ? ".series" : ".series_bigf")) ;
  }
};

// one comparison: err and tolerance in the same unit; records worst err/(tolerance/K) i.e. in units of the error model
static bool judge(Env& V, const char* pred, int mode, double K, Q err, Q model, const std::string& where) {
  double r = qd(fabsq(err) / model);
  V.ctx.worst(V.wname(pred, mode) + ".err_over_model", r, where);
  return !(r <= V.keff(K, mode, C_TR));      // true = violation (also for NaN)
}
// truncation constant observed (series, |f| > 0.01): (err - K_eps part) / (n^7 scale)
static void trunc_stat(Env& V, const char* pred, Q err, Q scale, Q sens, const std::string& where) {
  if (V.smallf() || V.n7 == 0) return;
  Q excess = fabsq(err) / (EPS * scale + sens) - 16;
  if (excess > 0) V.ctx.worst(std::string(pred) + ".series_trunc_constant", qd(excess) * EPS / V.n7, where);
}

// ================================================================= E2: operation histories on RhumbLine and Rhumb objects
// Differential oracle, no tolerance: every output of every call in every history must be BIT-identical to the output of
// the same single call on a freshly created object (outputs start as sentinels, so "left untouched" is compared too).
// Explicit-state BFS over operation histories, de-duplicated on a canonical key that contains EVERY field of the object
// (all private members incl. mutable ones, read with -fno-access-control; the reference member of RhumbLine is replaced
// by the serialised state of the Rhumb it points to).  Merged states have identical futures because the calls are
// deterministic functions of (object bytes, arguments); a state is materialised by replaying its history on a fresh
// Rhumb + fresh line, and the replay must reproduce the recorded key (else harness error = uninitialised field).
#include <set>
static std::string bytes_of(const void* p, size_t n) { return std::string((const char*)p, n); }
static std::string rhumb_key(const Rhumb& r) {
  // DAuxLatitude: reals only (16 scalars + the mutable coefficient table _c); then the scalar members and the P_l table
  std::string k = bytes_of(&r._aux, sizeof(r._aux));
  double sc[5] = {r._a, r._f, r._n, r._rm, r._c2}; k += bytes_of(sc, sizeof sc);
  int ii[2] = {r._exact ? 1 : 0, r._lL}; k += bytes_of(ii, sizeof ii);
  if (!r._pP.empty()) k += bytes_of(r._pP.data(), r._pP.size() * sizeof(double));
  return k;
}
static std::string line_key(const RhumbLine& l) {
  // whole object except the leading reference member (8 bytes); all other members are reals / AuxAngle (two reals)
  static_assert(sizeof(RhumbLine) % sizeof(double) == 0, "RhumbLine layout");
  return bytes_of((const char*)&l + sizeof(void*), sizeof(RhumbLine) - sizeof(void*)) + rhumb_key(l._rh);
}
struct HOp { int kind; unsigned mask; double a[4]; std::string name; };     // kind: see apply functions
struct HOut { double v[3]; bool same(const HOut& o) const { for (int i = 0; i < 3; ++i) if (!mc::same_bits(v[i], o.v[i])) return false; return true; } };
static const double HSENT[3] = {-3.0000000011e302, -3.0000000022e302, -3.0000000033e302};
static std::string hout_str(const HOut& o) {
  std::string s; for (int i = 0; i < 3; ++i) s += (i ? "," : "") + (mc::same_bits(o.v[i], HSENT[i]) ? std::string("<untouched>") : fx(o.v[i])); return "(" + s + ")";
}
static HOut apply_line(const RhumbLine& l, const HOp& op) {
  HOut o; for (int i = 0; i < 3; ++i) o.v[i] = HSENT[i];
  switch (op.kind) {
  case 0: l.Position(op.a[0], o.v[0], o.v[1]); break;
  case 1: l.Position(op.a[0], o.v[0], o.v[1], o.v[2]); break;
  default: l.GenPosition(op.a[0], op.mask, o.v[0], o.v[1], o.v[2]); break;
  }
  return o;
}
static HOut apply_rhumb(const Rhumb& r, const HOp& op) {
  HOut o; for (int i = 0; i < 3; ++i) o.v[i] = HSENT[i];
  switch (op.kind) {
  case 0: r.Direct(op.a[0], op.a[1], op.a[2], op.a[3], o.v[0], o.v[1]); break;
  case 1: r.Direct(op.a[0], op.a[1], op.a[2], op.a[3], o.v[0], o.v[1], o.v[2]); break;
  case 2: r.GenDirect(op.a[0], op.a[1], op.a[2], op.a[3], op.mask, o.v[0], o.v[1], o.v[2]); break;
  case 3: r.Inverse(op.a[0], op.a[1], op.a[2], op.a[3], o.v[0], o.v[1]); break;
  case 4: r.Inverse(op.a[0], op.a[1], op.a[2], op.a[3], o.v[0], o.v[1], o.v[2]); break;
  case 5: r.GenInverse(op.a[0], op.a[1], op.a[2], op.a[3], op.mask, o.v[0], o.v[1], o.v[2]); break;
  default: { RhumbLine l = r.Line(op.a[0], op.a[1], op.a[2]); l.GenPosition(op.a[3], op.mask, o.v[0], o.v[1], o.v[2]); } break;
  }
  return o;
}
static std::string hmask(unsigned m) {
  std::string s;
  auto add = [&](unsigned b, const char* n) { if (m & b) { if (!s.empty()) s += "|"; s += n; } };
  add(Rhumb::LATITUDE, "LAT"); add(Rhumb::LONGITUDE, "LON"); add(Rhumb::AZIMUTH, "AZI"); add(Rhumb::DISTANCE, "DIST"); add(Rhumb::AREA, "AREA"); add(Rhumb::LONG_UNROLL, "UNROLL");
  return s.empty() ? "NONE" : s;
}
// generic BFS.  MK() makes a fresh object graph and returns a handle on which APPLY(handle, op) and KEY(handle) work.
template <class MK, class AP, class KY>
static void history_bfs(Ctx& ctx, const std::string& title, const std::vector<HOp>& ops, int depth, MK make, AP apply, KY key, const mc::Fields& F0) {
  // reference: each op alone on a fresh object
  std::vector<HOut> ref(ops.size());
  for (size_t i = 0; i < ops.size(); ++i) { auto h = make(); ref[i] = apply(*h, ops[i]); }
  std::vector<std::vector<int>> frontier(1);            // histories of the states to expand, all of the current length
  std::set<std::string> seen;
  { auto h = make(); seen.insert(key(*h)); }
  std::map<std::vector<int>, std::string> keyof; keyof[{}] = *seen.begin();
  uint64_t nstates = 1, ntrans = 0; bool capped = false;
  for (int len = 0; len < depth && !frontier.empty(); ++len) {
    std::vector<std::vector<int>> next;
    for (const auto& hist : frontier) for (size_t oi = 0; oi < ops.size(); ++oi) {
      Ctx::Case cs(ctx);
      auto h = make();
      for (int j : hist) apply(*h, ops[j]);
      std::string hn; for (int j : hist) hn += ops[j].name + " ; ";
      std::string kk = title + " history [" + hn + "] then " + ops[oi].name;
      if (key(*h) != keyof[hist]) { ctx.fail(kk + " replay", "replaying a history on a fresh object does not reproduce its state (uninitialised member?)", {{"kind", "history-replay-divergence"}}); continue; }
      HOut o = apply(*h, ops[oi]); ++ntrans;
      ctx.sig(hist.size() * 1000003ull + oi);
      if (!o.same(ref[oi])) {
        mc::Fields F = F0; F.push_back({"kind", "history-dependence"}); F.push_back({"op", ops[oi].name}); F.push_back({"history_length", fmti((long long)hist.size())});
        ctx.fail(kk, "outputs " + hout_str(o) + " differ from the same call on a fresh object " + hout_str(ref[oi]), F);
      }
      std::string k2 = key(*h);
      if (!seen.count(k2)) {
        if (seen.size() >= 4000) { capped = true; continue; }
        seen.insert(k2); ++nstates;
        std::vector<int> h2 = hist; h2.push_back((int)oi); keyof[h2] = k2;
        if (len + 1 < depth) next.push_back(h2);
      }
    }
    frontier.swap(next);
  }
  ctx.count("history_states", nstates); ctx.count("history_transitions", ntrans);
  if (capped) ctx.not_exhaustive(title + ": more than 4000 distinct object states, history exploration truncated");
}

static void run_histories(Ctx& ctx, bool T) {
  struct RC { double a, f; bool exact; bool quick; };
  const RC rcs[] = {{WA, WF, false, true}, {WA, WF, true, true}, {WA, 0.1, true, true}, {WA, -0.05, false, false}, {WA, 0.1, false, false}, {WA, -0.3, true, false}};
  struct LN { const char* name; double lat1, lon1, azi; bool quick; };
  const LN lns[] = {{"generic", 40, -70, 60, true}, {"east", 30, 170, 90, true}, {"north", -20, 10, 0, true}, {"from-near-pole", 89.9, 0, 200, false}, {"nearly-east", 0, 0, 90 - 1e-10, false}};
  const int depth = T ? 4 : 3;
  // distances chosen to COLLIDE: the same s with every mask, s and -s, 0, beyond the pole (oblique / meridional lines), two different s
  std::vector<double> ss = {1e6, -1e6, 0, 1.5e7, 2.5e6};
  if (T) { ss.push_back(1e-3); ss.push_back(-1.5e7); }
  std::vector<unsigned> masks;
  for (unsigned b = 0; b < 16; ++b) masks.push_back((b & 1 ? Rhumb::LATITUDE : 0) | (b & 2 ? Rhumb::LONGITUDE : 0) | (b & 4 ? Rhumb::AREA : 0) | (b & 8 ? Rhumb::LONG_UNROLL : 0));
  masks.push_back(Rhumb::ALL); masks.push_back(Rhumb::ALL | Rhumb::LONG_UNROLL);      // with the bits that are not outputs of the direct problem
  ctx.bound("history.depth", fmti(depth) + " calls on one object (all sequences; explicit-state BFS de-duplicated on the full private state)");
  ctx.bound("history.line-ops", fmti((long long)ss.size()) + " distances (repeated, +-, 0, beyond the pole) x {Position(lat2,lon2), Position(lat2,lon2,S12), GenPosition with the 16 subsets of {LATITUDE,LONGITUDE,AREA,LONG_UNROLL}, ALL, ALL|LONG_UNROLL}");
  ctx.sub("history-line");
  for (const RC& rc : rcs) for (const LN& ln : lns) {
    if (!T && !(rc.quick && ln.quick)) continue;
    if (!ctx.take()) continue;
    std::vector<HOp> ops;
    for (double s : ss) {
      ops.push_back({0, 0, {s, 0, 0, 0}, "Position(" + fmt(s) + ",lat2,lon2)"});
      ops.push_back({1, 0, {s, 0, 0, 0}, "Position(" + fmt(s) + ",lat2,lon2,S12)"});
      for (unsigned m : masks) ops.push_back({2, m, {s, 0, 0, 0}, "GenPosition(" + fmt(s) + "," + hmask(m) + ")"});
    }
    struct H { std::unique_ptr<Rhumb> r; std::unique_ptr<RhumbLine> l; };
    std::string title = std::string("Rhumb(") + fmt(rc.a) + "," + fmt(rc.f) + (rc.exact ? ",exact" : ",series") + ").Line(" + fmt(ln.lat1) + "," + fmt(ln.lon1) + "," + fmt(ln.azi) + ")";
    history_bfs(ctx, title, ops, depth,
                [&]() { std::unique_ptr<H> h(new H); h->r.reset(new Rhumb(rc.a, rc.f, rc.exact)); h->l.reset(new RhumbLine(h->r->Line(ln.lat1, ln.lon1, ln.azi))); return h; },
                [](H& h, const HOp& op) { return apply_line(*h.l, op); },
                [](H& h) { return line_key(*h.l); },
                {{"object", "RhumbLine"}, {"line", ln.name}, {"exact", fmti(rc.exact)}, {"f", fmt(rc.f)}});
  }
  // Rhumb itself: every member function is const and the class has no lazily filled state (AuxLatitude::_c is declared
  // mutable but is filled by the constructor); the history exploration is kept because it is cheap
  ctx.bound("history.rhumb-ops", "2 argument sets x {Direct x2, GenDirect 18 masks, Inverse x2, GenInverse 8 masks, Line+GenPosition 2 masks}, depth " + fmti(T ? 3 : 2));
  ctx.sub("history-rhumb");
  for (const RC& rc : rcs) {
    if (!T && !rc.quick) continue;
    if (!ctx.take()) continue;
    std::vector<HOp> ops;
    const double dargs[2][4] = {{40, -70, 60, 2e6}, {-20, 170, 90, -4e6}}, iargs[2][4] = {{40, -70, 55, 10}, {30, 0, 30.000001, 180}};
    for (int k = 0; k < 2; ++k) {
      const double* d = dargs[k]; const double* q = iargs[k];
      std::string dn = "(" + fmt(d[0]) + "," + fmt(d[1]) + "," + fmt(d[2]) + "," + fmt(d[3]), qn = "(" + fmt(q[0]) + "," + fmt(q[1]) + "," + fmt(q[2]) + "," + fmt(q[3]);
      ops.push_back({0, 0, {d[0], d[1], d[2], d[3]}, "Direct" + dn + ",lat2,lon2)"});
      ops.push_back({1, 0, {d[0], d[1], d[2], d[3]}, "Direct" + dn + ",lat2,lon2,S12)"});
      for (unsigned m : masks) ops.push_back({2, m, {d[0], d[1], d[2], d[3]}, "GenDirect" + dn + "," + hmask(m) + ")"});
      ops.push_back({3, 0, {q[0], q[1], q[2], q[3]}, "Inverse" + qn + ",s12,azi12)"});
      ops.push_back({4, 0, {q[0], q[1], q[2], q[3]}, "Inverse" + qn + ",s12,azi12,S12)"});
      for (unsigned b = 0; b < 8; ++b) { unsigned m = (b & 1 ? Rhumb::DISTANCE : 0) | (b & 2 ? Rhumb::AZIMUTH : 0) | (b & 4 ? Rhumb::AREA : 0); ops.push_back({5, m, {q[0], q[1], q[2], q[3]}, "GenInverse" + qn + "," + hmask(m) + ")"}); }
      ops.push_back({6, Rhumb::LATITUDE | Rhumb::LONGITUDE, {d[0], d[1], d[2], d[3]}, "Line+GenPosition" + dn + ",LAT|LON)"});
      ops.push_back({6, Rhumb::ALL, {d[0], d[1], d[2], d[3]}, "Line+GenPosition" + dn + ",ALL)"});
    }
    std::string title = std::string("Rhumb(") + fmt(rc.a) + "," + fmt(rc.f) + (rc.exact ? ",exact)" : ",series)");
    history_bfs(ctx, title, ops, T ? 3 : 2,
                [&]() { return std::unique_ptr<Rhumb>(new Rhumb(rc.a, rc.f, rc.exact)); },
                [](Rhumb& r, const HOp& op) { return apply_rhumb(r, op); },
                [](Rhumb& r) { return rhumb_key(r); },
                {{"object", "Rhumb"}, {"exact", fmti(rc.exact)}, {"f", fmt(rc.f)}});
  }
}

int main(int argc, char** argv) {
  Ctx ctx(argc, argv);
  const bool T = ctx.thorough();
  const Q DELTA = Q(EPS) * M_PI_2q;       // 2^-52 * 90 deg in radians

  const double ulp30 = std::nextafter(30.0, 31.0) - 30.0;
  // quick alphabets (the thorough ones below contain them)
  std::vector<double> LATS = {-90, -89.9999, -45, 0, 1e-9, 30, 30 + 1e-9, 30 + 1e-6, 89.9999, 90};
  std::vector<double> LATS_D = LATS;           // start latitudes of the direct problem
  if (T) {
    for (double x : {-1e-9, -30.0, 60.0, 89.0, -89.9, 89.9, -60.0, 45.0, 1e-3, 5.0}) LATS.push_back(x);
    // divided-difference regime: pairs of nearly equal latitudes at separations 1 ulp (4e-15) ... 1e-3 deg
    LATS.push_back(30 + ulp30); LATS.push_back(30 + 1e-12); LATS.push_back(30 + 1e-3);
    for (double b : {-45.0, 60.0, 89.9}) for (double d : {4e-14, 1e-12, 1e-9, 1e-6, 1e-3}) LATS.push_back(b + d);
    for (double d : {5e-324, 1e-15, 1e-12, 1e-6}) LATS.push_back(d);
    for (double x : {-5.0, 15.0, 75.0, -75.0, 85.0, 0.1, -0.1, 89.99, -89.99, 45 + 1e-9}) LATS.push_back(x);
    LATS_D.assign(LATS.begin(), LATS.begin() + 34);      // the quick ones, the coarse thorough ring and the first near-equal families
  }
  std::vector<double> LON12 = {0, 1e-9, 1, 90, 179.999, 180, -180, 181};
  if (T) for (double x : {-1e-9, -90.0, 359.0, -179.999}) LON12.push_back(x);
  std::vector<double> LON1 = {0, 100};
  if (T) LON1.push_back(-179.5);
  std::vector<double> AZIS = {0, 1e-10, 45, 90 - 1e-10, 90, 90 + 1e-10, 180, 270};
  if (T) for (double x : {-135.0, 89.0, 179.9999999999, 450.0,
                          // nearly meridional and nearly east-west, both sides, several closenesses
                          -1e-10, 1e-5, 180 + 1e-10, 90 - 1e-13, 90 + 1e-13, 90 - 1e-6, 90 + 1e-6, 89.999, 91.0, 270 - 1e-10, -90 + 1e-10, 1.0,
                          30.0, 60.0, 120.0, 150.0, 210.0, 300.0, 89.9999999, 0.001}) AZIS.push_back(x);
  std::vector<double> S12S = {0, 1, -1, 1e6, -1e6, 1e7, -1e7, 3e7, -3e7};
  if (T) for (double x : {1e-3, 5e6, -5e6, 2.5e7, 10.0, -10.0, 1e3, -1e3, 1e5, 2e7, -2e7, 1.5e7}) S12S.push_back(x);
  // start longitudes outside [-180,180] are in the quick tier: with LONG_UNROLL lon2 - lon1 must not depend on whole turns of lon1
  std::vector<double> DLON1 = {0, 150.75, 270};
  if (T) { DLON1.push_back(-190); DLON1.push_back(725); }

  ctx.bound("ellipsoids", T ? "a=6378137 x f in {0,+-1/298.257223563,+-1/150,+-0.01,+-0.02,+-0.05,+-0.1,+-0.2}, (a=1,f=1/150), (a=1e9,f=-1/150); +-0.005, (a=6371000,f=0); exact mode only: f=0.15, +-0.3, +-0.4, +-0.5, 0.6, -0.75, -1, (a=1e-3,f=0.05) (31)"
                            : "WGS84, sphere, f=-0.01, f=0.2, (a=1,f=1/150); f=-0.5 exact mode only (6)");
  ctx.bound("modes", "Rhumb(a,f,exact=false) and Rhumb(a,f,exact=true) on every ellipsoid (series skipped on the exact-only ellipsoids)");
  ctx.bound("inverse.lat1 x lat2", fmti((long long)LATS.size()) + " x " + fmti((long long)LATS.size()) + " latitudes incl. both poles, +-89.9999, 0, +-1e-9, 30, 30+1e-9, 30+1e-6" + (T ? "; thorough: +-89.99, +-89.9, 85, +-75, +-60, +-45, +-30, 15, +-5, +-0.1, 1e-3, 5e-324, 1e-15, 1e-12, 1e-6 and nearly equal pairs b+d, b in {30,-45,60,89.9}, d in {1 ulp..4e-14, 1e-12, 1e-9, 1e-6, 1e-3} deg" : ""));
  ctx.bound("inverse.lon", fmti((long long)LON1.size()) + " lon1 x " + fmti((long long)LON12.size()) + " lon2-lon1 incl. 0, 1e-9, 179.999, +180, -180 (ties), 181 (long way round)");
  ctx.bound("direct.lat1", fmti((long long)LATS_D.size()) + " start latitudes");
  ctx.bound("direct.azi12", fmti((long long)AZIS.size()) + " azimuths incl. 0, 1e-10, 90-1e-10, 90, 90+1e-10, 180, 270" + (T ? "; thorough: +-1e-10, 1e-5, 1e-3, 1, 30, 60, 120, 150, 210, 300, 89.9999999, 180+-1e-10, 90+-1e-13, 90+-1e-6, 89, 89.999, 91, 270-1e-10, -90+1e-10, -135, 450" : ""));
  ctx.bound("direct.s12", fmti((long long)S12S.size()) + " fixed distances 0..+-3e7 m (to, through and several times round the pole) + 2 distances ending 2^-30 (relative) before/after the pole on every oblique/meridional course" + (T ? " + the distance to the pole rounded to double and one ulp either side" : ""));
  ctx.bound("direct.forms", fmti((long long)DLON1.size()) + " lon1 x LONG_UNROLL {0,1} x {Rhumb::GenDirect, Rhumb::Line + RhumbLine::GenPosition}");

  std::vector<std::unique_ptr<Env>> envs;
  for (int e = 0; e < NELL; ++e) { if (!T && !ELLS[e].quick) { envs.emplace_back(nullptr); continue; } envs.emplace_back(new Env(ctx, ELLS[e])); }

  // ================================================================= EllipsoidArea
  ctx.sub("ellipsoid-area");
  for (int e = 0; e < NELL; ++e) {
    if (!envs[e]) continue;
    if (!ctx.take()) continue;
    Env& V = *envs[e]; V.deq = false;
    for (int mode = 0; mode < 2; ++mode) {
      if (!V.rh[mode]) continue;
      Ctx::Case cs(ctx);
      double A = V.rh[mode]->EllipsoidArea(); Q Ao = V.E.area();
      if (judge(V, "ellipsoid_area", mode, K_ELLAREA, Q(A) - Ao, EPS * Ao, V.ename))
        ctx.fail("area " + V.ename + " mode " + fmti(mode), "EllipsoidArea " + fx(A) + " != closed form " + qs(Ao), {{"kind", "ellipsoid-area"}, {"ell", V.ename}, {"exact", fmti(mode)}});
      if (V.rh[mode]->EquatorialRadius() != V.es.a || V.rh[mode]->Flattening() != V.es.f)
        ctx.fail("inspect " + V.ename, "EquatorialRadius/Flattening do not return the constructor arguments", {{"kind", "inspector"}});
    }
  }

  // ================================================================= inverse
  ctx.sub("inverse");
  for (int e = 0; e < NELL; ++e) for (size_t i1 = 0; i1 < LATS.size(); ++i1) for (size_t i2 = 0; i2 < LATS.size(); ++i2) {
    if (!envs[e]) continue;
    if (!ctx.take()) continue;
    Env& V = *envs[e]; const rhq::Ell& E = V.E;
    double lat1 = LATS[i1], lat2 = LATS[i2];
    rhq::Lat P1(lat1), P2(lat2);
    rhq::InvCore c0 = rhq::inv_core(E, P1, P2), c1 = c0, c2 = c0;
    bool haspole = P1.pole || P2.pole;
    if (!haspole) { c1 = rhq::inv_core(E, rhq::toward_equator(P1, DELTA), P2); c2 = rhq::inv_core(E, P1, rhq::toward_equator(P2, DELTA)); }
    Q R1 = E.R(P1.s, P1.c), M1 = E.M(P1.s), M2 = E.M(P2.s);
    for (double lon1 : LON1) for (double l12 : LON12) {
      double lon2 = lon1 + l12;
      bool tie; Q lon12 = rhq::lon_diff(lon1, lon2, tie), lam = lon12 * rhq::deg();
      rhq::Inv o = rhq::inv_eval(c0, lam), o1 = rhq::inv_eval(c1, lam), o2 = rhq::inv_eval(c2, lam);
      Q scale = fmaxq(Q(V.es.a), o.s12), ascale = Q(V.es.a) * V.es.a * fmaxq(fabsq(lam), Q(EPS));
      Q sens_s = fabsq(o1.s12 - o.s12) + fabsq(o2.s12 - o.s12);
      Q sens_az = (fabsq(angdiff360(o1.azi12, o.azi12)) + fabsq(angdiff360(o2.azi12, o.azi12))) * rhq::deg() * o.s12;
      Q sens_S = fabsq(o1.S12 - o.S12) + fabsq(o2.S12 - o.S12);
      // condition of the direct problem at the same geometry (for the closure identity): d(lon2)/d(lat1), d(lon2)/d(lat2)
      Q sens_dl = 0;
      if (c0.kind == 0) sens_dl = fabsq(lam / c0.dpsi) * (M1 * fabsq(1 - c0.R2 / R1) + M2 * fabsq(1 - c0.R2 / c0.dmdpsi)) * DELTA;
      else if (c0.kind == 1) sens_dl = fabsq(lam * P1.s) * M1 * DELTA;
      for (int mode = 0; mode < 2; ++mode) {
        if (!V.rh[mode]) continue;
        const Rhumb& rh = *V.rh[mode];
        Ctx::Case cs(ctx);
        V.deq = mode == 1 && V.es.f < 0 && std::fabs(lat1) <= 10 && std::fabs(lat2) <= 10;
        bool dpar = mode == 1 && std::fabs(lat1) >= 45 && std::fabs(lat1) < 90 && lat1 == lat2;      // affects the closure Direct(Inverse) only
        std::string key = V.ename + " exact=" + fmti(mode) + " inv(" + fx(lat1) + "," + fx(lon1) + "," + fx(lat2) + "," + fx(lon2) + ")";
        mc::Fields F{{"ell", V.ename}, {"exact", fmti(mode)}, {"lat1", fmt(lat1)}, {"lat2", fmt(lat2)}, {"lon12_given", fmt(l12)}, {"class", V.deq ? DEQ_CLASS : (dpar ? DPAR_CLASS : "-")}};
        auto FF = [&](const char* kind) { mc::Fields g = F; g.push_back({"kind", kind}); return g; };
        double s12 = SENT, azi12 = SENT, S12 = SENT;
        rh.GenInverse(lat1, lon1, lat2, lon2, Rhumb::ALL, s12, azi12, S12);
        ctx.sig((uint64_t)c0.kind * 8 + (tie ? 4 : 0) + (std::isnan(azi12) ? 2 : 0) + (std::isnan(S12) ? 1 : 0));
        if (s12 == SENT || azi12 == SENT || S12 == SENT) { ctx.fail(key, "an output requested with ALL was not written", FF("not-written")); continue; }
        // ---- the shortest course; east-going on ties
        Q lamx = lam; rhq::Inv ox = o;
        bool west = c0.kind <= 1 ? (azi12 < 0) : (c0.kind <= 3 && o.S12 != 0 && (S12 < 0) != (o.S12 < 0));
        if (tie && west) {
          ctx.fail(key, "end points on opposite meridians: the west-going course (azi12 = " + fx(azi12) + ", S12 = " + fx(S12) + ") is returned, documented: east-going", FF("tie-west"));
          lamx = -lam; ox = rhq::inv_eval(c0, lamx);          // judge the remaining outputs against the mirror course
        }
        // ---- distance
        if (!(s12 >= 0)) ctx.fail(key, "s12 = " + fx(s12) + " is negative or NaN", FF("s12-range"));
        if (judge(V, "inv.s12", mode, K_S, Q(s12) - ox.s12, EPS * scale + sens_s, key))
          ctx.fail(key + " s12", "s12 = " + fx(s12) + " oracle " + qs(ox.s12) + " model " + qs(EPS * scale + sens_s), FF("inv-s12"));
        if (mode == 0) trunc_stat(V, "inv.s12", Q(s12) - ox.s12, scale, sens_s, key);
        // ---- azimuth
        if (ox.azi_indet) { ctx.count("inverse_same_pole_azimuth_not_compared"); ctx.list("skipped", "inverse with both points at the same pole: azimuth indeterminate (library returns NaN from inf-inf; the header's 'cos(lat) := eps^2' description of the poles is stale) -- not compared"); }
        else {
          if (!(azi12 >= -180 && azi12 <= 180)) ctx.fail(key, "azi12 = " + fx(azi12) + " outside [-180,180]", FF("azi-range"));
          Q da = angdiff360(Q(azi12), ox.azi12) * rhq::deg() * ox.s12;
          if (judge(V, "inv.azi12_x_s12", mode, K_AZI, da, EPS * scale + sens_az, key))
            ctx.fail(key + " azi12", "azi12 = " + fx(azi12) + " oracle " + qs(ox.azi12) + " (error x s12 = " + qs(da) + " m, model " + qs(EPS * scale + sens_az) + ")", FF("inv-azi12"));
          if (mode == 0) trunc_stat(V, "inv.azi12_x_s12", da, scale, sens_az, key);
          // exactly meridional and exactly east-west courses have exact azimuths
          if (c0.kind == 1 && lam != 0 && std::fabs(azi12) != 90) ctx.fail(key, "east-west course with azi12 = " + fx(azi12), FF("azi-cardinal"));
          if (lam == 0 && c0.kind != 1 && !(azi12 == 0 || std::fabs(azi12) == 180)) ctx.fail(key, "meridional course with azi12 = " + fx(azi12), FF("azi-cardinal"));
        }
        // ---- area
        if (ox.area_indet) { ctx.count("inverse_pole_to_pole_area_not_compared"); ctx.list("skipped", "inverse from one pole to the other: area indeterminate (library returns NaN) -- not compared"); }
        else {
          if (judge(V, "inv.S12", mode, K_AREA, Q(S12) - ox.S12, EPS * ascale + sens_S, key))
            ctx.fail(key + " S12", "S12 = " + fx(S12) + " oracle " + qs(ox.S12) + " model " + qs(EPS * ascale + sens_S), FF("inv-S12"));
          if (mode == 0) trunc_stat(V, "inv.S12", Q(S12) - ox.S12, ascale, sens_S, key);
        }
        // ---- series and exact agree for |f| <= 0.01
        if (mode == 1 && V.rh[0] && V.smallf()) {
          double s0 = SENT, a0 = SENT, S0 = SENT; V.rh[0]->GenInverse(lat1, lon1, lat2, lon2, Rhumb::ALL, s0, a0, S0);
          Q ts = 2 * EPS * scale + 2 * sens_s, ta = 2 * EPS * scale + 2 * sens_az, tS = 2 * EPS * ascale + 2 * sens_S;
          bool bad = false;
          bad |= judge(V, "series_vs_exact.inv.s12", 1, K_S, Q(s0) - Q(s12), ts, key);
          if (!ox.azi_indet) bad |= judge(V, "series_vs_exact.inv.azi12_x_s12", 1, K_AZI, angdiff360(Q(a0), Q(azi12)) * rhq::deg() * ox.s12, ta, key);
          if (!ox.area_indet) bad |= judge(V, "series_vs_exact.inv.S12", 1, K_AREA, Q(S0) - Q(S12), tS, key);
          if (bad) ctx.fail(key + " series-exact", "series and exact variants disagree: (" + fx(s0) + "," + fx(a0) + "," + fx(S0) + ") vs (" + fx(s12) + "," + fx(azi12) + "," + fx(S12) + ")", FF("series-vs-exact"));
        }
        // ---- Direct(Inverse) reproduces point 2
        if (c0.kind <= 1 && std::isfinite(azi12) && std::isfinite(s12)) {
          double la = SENT, lo = SENT, Sd = SENT;
          rh.GenDirect(lat1, lon1, azi12, s12, Rhumb::LATITUDE | Rhumb::LONGITUDE | Rhumb::AREA, la, lo, Sd);
          auto KE = [&](double K) { return Q(V.keff(K, mode, CTR_)); };
          Q tinv = KE(KS_) * (EPS * scale + sens_s) + KE(KAZI_) * (EPS * scale + sens_az);
          Q tdl = KE(KLON_) * (EPS * scale + sens_dl), tdp = KE(KLAT_) * (EPS * scale);
          Q elat = (Q(la) - Q(lat2)) * rhq::deg() * M2, elon = angdiff360(Q(lo), Q(lon2)) * rhq::deg() * c0.R2;
          double r1 = qd(fabsq(elat) / (tinv + tdp)), r2 = qd(fabsq(elon) / (tinv + tdl));
          ctx.worst(V.wname("close.direct_of_inverse.lat", mode) + ".err_over_tol", r1, key);
          ctx.worst(V.wname("close.direct_of_inverse.lon", mode) + ".err_over_tol", r2, key);
          if (!(r1 <= K_CLOSE) || !(r2 <= K_CLOSE))
            ctx.fail(key + " closure", "Direct(lat1,lon1,azi12,s12) = (" + fx(la) + "," + fx(lo) + ") does not reproduce point 2 (" + fx(lat2) + "," + fx(lon2) + "): " + qs(elat) + " m, " + qs(elon) + " m", FF("direct-of-inverse"));
          // the area of the direct course equals the area of the inverse course
          Q tS = (KE(KAREA_) + KE(KDAREA_)) * (EPS * ascale + sens_S) + fabsq(c0.meanA) * (tinv + tdl) / fmaxq(c0.R2, Q(1e-300));
          double r3 = qd(fabsq(Q(Sd) - Q(S12)) / tS);
          ctx.worst(V.wname("close.direct_of_inverse.S12", mode) + ".err_over_tol", r3, key);
          if (!(r3 <= K_CLOSE)) ctx.fail(key + " closure-area", "area of Direct(lat1,lon1,azi12,s12) " + fx(Sd) + " != area of the inverse " + fx(S12), FF("direct-of-inverse-area"));
        }
        if (ctx.want_sample()) ctx.sample(key + " -> s12=" + fmt(s12) + " azi12=" + fmt(azi12) + " S12=" + fmt(S12));
      }
    }
  }

  // ================================================================= direct
  ctx.sub("direct");
  for (int e = 0; e < NELL; ++e) for (size_t i1 = 0; i1 < LATS_D.size(); ++i1) for (size_t ia = 0; ia < AZIS.size(); ++ia) {
    if (!envs[e]) continue;
    if (!ctx.take()) continue;
    Env& V = *envs[e]; const rhq::Ell& E = V.E;
    double lat1 = LATS_D[i1], azi = AZIS[ia];
    rhq::Lat P1(lat1), P1p = P1.pole ? P1 : rhq::toward_equator(P1, DELTA);
    Q sa, ca; rhq::sincosd(azi, sa, ca);
    Q R1 = E.R(P1.s, P1.c);
    std::vector<double> ss = S12S;
    if (!P1.pole && fabsq(ca) > Q(1e-6)) {
      // distance along this course to the north pole (negative if the course heads south), shortened / lengthened by 2^-30
      Q sN = (E.quarter() - E.merid(0, P1.phi)) / ca;
      ss.push_back(qd(sN * (1 - ldexpq(1, -30)))); ss.push_back(qd(sN * (1 + ldexpq(1, -30))));
      if (T) {       // ending at the pole as exactly as a double allows, and one ulp either side
        double s0 = qd(sN); ss.push_back(s0); ss.push_back(std::nextafter(s0, INFINITY)); ss.push_back(std::nextafter(s0, -INFINITY));
      }
    }
    for (double s12 : ss) {
      rhq::Dir d = rhq::direct_sc(E, P1, sa, ca, Q(s12)), dp = d;
      if (!P1.pole) dp = rhq::direct_sc(E, P1p, sa, ca, Q(s12));
      Q scale = fmaxq(Q(V.es.a), fabsq(Q(s12)));
      Q lam = d.dlon * rhq::deg(), ascale = Q(V.es.a) * V.es.a * fmaxq(fabsq(lam), Q(EPS));
      Q sens_lat = fabsq(dp.lat2 - d.lat2) * rhq::deg() * d.M2;
      Q sens_lon = fabsq(dp.dlon - d.dlon) * rhq::deg() * d.R2;
      Q sens_S = fabsq(dp.S12 - d.S12);
      // within this margin of a pole crossing either classification is accepted
      bool fuzzy0 = d.pastpole != dp.pastpole;
      // inverse oracle at the oracle's end point (closure identity), only for the short way
      bool closure0 = !d.pastpole && !d.polestart && !fuzzy0 && fabsq(d.dlon) < Q(179.99) && fabsq(d.lat2) < 90;
      rhq::Inv io; Q isens_s = 0, isens_az = 0;
      if (closure0) {
        rhq::Lat P2(d.lat2 * rhq::deg(), 0);
        rhq::InvCore k0 = rhq::inv_core(E, P1, P2), k1 = rhq::inv_core(E, P1p, P2), k2 = rhq::inv_core(E, P1, rhq::toward_equator(P2, DELTA));
        io = rhq::inv_eval(k0, lam); rhq::Inv i1 = rhq::inv_eval(k1, lam), i2 = rhq::inv_eval(k2, lam);
        isens_s = fabsq(i1.s12 - io.s12) + fabsq(i2.s12 - io.s12);
        isens_az = (fabsq(angdiff360(i1.azi12, io.azi12)) + fabsq(angdiff360(i2.azi12, io.azi12))) * rhq::deg() * io.s12;
      }
      for (double lon1 : DLON1) for (int unroll = 0; unroll < 2; ++unroll) for (int mode = 0; mode < 2; ++mode) {
        if (!V.rh[mode]) continue;
        const Rhumb& rh = *V.rh[mode];
        Ctx::Case cs(ctx);
        // within this margin of a pole crossing either classification is accepted (4 x the latitude tolerance)
        bool fuzzy = fuzzy0 || d.margin <= 4 * V.keff(KLAT_, mode, CTR_) * (EPS * scale + sens_lat);
        bool closure = closure0 && !fuzzy;
        V.deq = mode == 1 && V.es.f < 0 && std::fabs(lat1) <= 10 && fabsq(d.lat2) <= 10;
        bool dpar = mode == 1 && std::fabs(lat1) >= 45 && std::fabs(lat1) < 90 && fabsq(d.lat2 - Q(lat1)) * rhq::deg() <= 8 * EPS;
        std::string key = V.ename + " exact=" + fmti(mode) + " dir(" + fx(lat1) + "," + fx(lon1) + "," + fx(azi) + "," + fx(s12) + ") unroll=" + fmti(unroll);
        mc::Fields F{{"ell", V.ename}, {"exact", fmti(mode)}, {"lat1", fmt(lat1)}, {"azi12", fmt(azi)}, {"s12", fmt(s12)}, {"unroll", fmti(unroll)}, {"class", V.deq ? DEQ_CLASS : (dpar ? DPAR_CLASS : "-")}};
        auto FF = [&](const char* kind) { mc::Fields g = F; g.push_back({"kind", kind}); return g; };
        unsigned mask = Rhumb::LATITUDE | Rhumb::LONGITUDE | Rhumb::AREA | (unroll ? Rhumb::LONG_UNROLL : 0);
        double lat2 = SENT, lon2 = SENT, S12 = SENT;
        rh.GenDirect(lat1, lon1, azi, s12, mask, lat2, lon2, S12);
        // line object: same results
        double lat2l = SENT, lon2l = SENT, S12l = SENT;
        { RhumbLine ln = rh.Line(lat1, lon1, azi); ln.GenPosition(s12, mask, lat2l, lon2l, S12l);
          if (!(ln.Latitude() == lat1 && ln.Longitude() == lon1 && ln.Azimuth() == Math::AngNormalize(azi) && ln.EquatorialRadius() == V.es.a && ln.Flattening() == V.es.f))
            ctx.fail(key, "RhumbLine inspectors do not return the defining values", FF("line-inspector")); }
        ctx.sig((d.pastpole ? 8 : 0) + (d.polestart ? 4 : 0) + (std::isnan(lon2) ? 2 : 0) + (std::isnan(S12) ? 1 : 0));
        if (lat2 == SENT || lon2 == SENT || S12 == SENT) { ctx.fail(key, "a requested output was not written", FF("not-written")); continue; }
        auto same = [](double x, double y) { return mc::same_bits(x, y) || (std::isnan(x) && std::isnan(y)); };
        if (!same(lat2, lat2l) || !same(lon2, lon2l) || !same(S12, S12l))
          ctx.fail(key, "RhumbLine::GenPosition (" + fx(lat2l) + "," + fx(lon2l) + "," + fx(S12l) + ") differs from Rhumb::GenDirect (" + fx(lat2) + "," + fx(lon2) + "," + fx(S12) + ")", FF("line-vs-direct"));
        // ---- latitude (always defined, also beyond the pole)
        if (!(std::fabs(lat2) <= 90)) ctx.fail(key, "lat2 = " + fx(lat2) + " outside [-90,90]", FF("lat-range"));
        Q elat = (Q(lat2) - d.lat2) * rhq::deg() * d.M2;
        if (judge(V, d.pastpole ? "dir.lat2_beyond_pole" : "dir.lat2", mode, K_LAT, elat, EPS * scale + sens_lat, key))
          ctx.fail(key + " lat2", "lat2 = " + fx(lat2) + " oracle " + qs(d.lat2) + " (" + qs(elat) + " m, model " + qs(EPS * scale + sens_lat) + ")", FF(d.pastpole ? "dir-lat2-beyond-pole" : "dir-lat2"));
        if (mode == 0) trunc_stat(V, "dir.lat2", elat, scale, sens_lat, key);
        // ---- longitude and area
        if (d.polestart) {
          ctx.count("direct_from_pole_lon_area_not_compared");
          ctx.list("skipped", "direct from a pole: longitude and area of an oblique course are indeterminate (library returns NaN / +-inf; the header's 'cos(lat) := eps^2' description of the poles is stale) -- only lat2 compared");
        } else if (fuzzy) {
          ctx.count("direct_within_roundoff_of_pole_crossing");
          bool n1 = std::isnan(lon2), n2 = std::isnan(S12);
          if (n1 != n2 && !(std::isinf(S12))) ctx.fail(key, "lon2 and S12 disagree about having crossed the pole: " + fx(lon2) + ", " + fx(S12), FF("pole-nan-consistency"));
        } else if (d.pastpole) {
          if (!std::isnan(lon2) || !std::isnan(S12)) ctx.fail(key, "course crosses a pole (by " + qs(d.margin) + " m) but lon2 = " + fx(lon2) + ", S12 = " + fx(S12) + " (documented: NaN)", FF("pole-not-nan"));
        } else {
          if (std::isnan(lon2) || std::isnan(S12)) ctx.fail(key, "course stays " + qs(d.margin) + " m short of the pole but lon2 = " + fx(lon2) + ", S12 = " + fx(S12), FF("spurious-nan"));
          else {
            Q elon;
            if (unroll) elon = (Q(lon2) - (Q(lon1) + d.dlon)) * rhq::deg() * d.R2;
            else {
              elon = angdiff360(Q(lon2), Q(lon1) + d.dlon) * rhq::deg() * d.R2;
              if (!(lon2 >= -180 && lon2 <= 180)) ctx.fail(key, "lon2 = " + fx(lon2) + " outside [-180,180]", FF("lon-range"));
            }
            // lon2 is a double: one rounding of the result itself
            Q rnd = Q(mc::ulp_of(lon2)) * rhq::deg() * d.R2;
            if (judge(V, unroll ? "dir.lon2_unrolled" : "dir.lon2", mode, K_LON, elon, EPS * scale + sens_lon + rnd, key))
              ctx.fail(key + " lon2", "lon2 = " + fx(lon2) + " oracle lon1 + " + qs(d.dlon) + " (" + qs(elon) + " m, model " + qs(EPS * scale + sens_lon + rnd) + ")", FF(unroll ? "dir-lon2-unrolled" : "dir-lon2"));
            if (mode == 0) trunc_stat(V, "dir.lon2", elon, scale, sens_lon + rnd, key);
            if (judge(V, "dir.S12", mode, K_DAREA, Q(S12) - d.S12, EPS * ascale + sens_S, key))
              ctx.fail(key + " S12", "S12 = " + fx(S12) + " oracle " + qs(d.S12) + " model " + qs(EPS * ascale + sens_S), FF("dir-S12"));
            if (mode == 0) trunc_stat(V, "dir.S12", Q(S12) - d.S12, ascale, sens_S, key);
            // ---- Inverse(Direct) returns the course
            if (closure && std::fabs(lat2) < 90) {
              double si = SENT, ai = SENT, Si = SENT;
              rh.GenInverse(lat1, lon1, lat2, lon2, Rhumb::ALL, si, ai, Si);
              Q azx = s12 >= 0 ? Q(azi) : Q(azi) + 180;
              auto KE = [&](double K) { return Q(V.keff(K, mode, CTR_)); };
              Q tdir = KE(KLAT_) * (EPS * scale + sens_lat) + KE(KLON_) * (EPS * scale + sens_lon + rnd);
              Q ts = KE(KS_) * (EPS * scale + isens_s) + tdir, ta = KE(KAZI_) * (EPS * scale + isens_az) + tdir;
              double r1 = qd(fabsq(Q(si) - fabsq(Q(s12))) / ts), r2 = qd(fabsq(angdiff360(Q(ai), azx)) * rhq::deg() * fabsq(Q(s12)) / ta);
              ctx.worst(V.wname("close.inverse_of_direct.s12", mode) + ".err_over_tol", r1, key);
              ctx.worst(V.wname("close.inverse_of_direct.azi12_x_s12", mode) + ".err_over_tol", r2, key);
              if (!(r1 <= K_CLOSE) || !(r2 <= K_CLOSE))
                ctx.fail(key + " closure", "Inverse(lat1,lon1,lat2,lon2) = (" + fx(si) + "," + fx(ai) + ") does not return the course (" + fx(std::fabs(s12)) + "," + qs(azx) + ")", FF("inverse-of-direct"));
            }
          }
        }
        // ---- series and exact agree for |f| <= 0.01 (latitude always; longitude/area where defined)
        if (mode == 1 && V.rh[0] && V.smallf()) {
          double la0 = SENT, lo0 = SENT, S0 = SENT; V.rh[0]->GenDirect(lat1, lon1, azi, s12, mask, la0, lo0, S0);
          bool bad = judge(V, "series_vs_exact.dir.lat2", 1, K_LAT, (Q(la0) - Q(lat2)) * rhq::deg() * d.M2, 2 * EPS * scale + 2 * sens_lat, key);
          if (!d.polestart && !fuzzy && !d.pastpole && std::isfinite(lon2) && std::isfinite(lo0)) {
            Q rnd = Q(mc::ulp_of(lon2)) * rhq::deg() * d.R2;
            bad |= judge(V, "series_vs_exact.dir.lon2", 1, K_LON, (unroll ? Q(lo0) - Q(lon2) : angdiff360(Q(lo0), Q(lon2))) * rhq::deg() * d.R2, 2 * EPS * scale + 2 * sens_lon + 2 * rnd, key);
            bad |= judge(V, "series_vs_exact.dir.S12", 1, K_DAREA, Q(S0) - Q(S12), 2 * EPS * ascale + 2 * sens_S, key);
          }
          if (bad) ctx.fail(key + " series-exact", "series and exact variants disagree: (" + fx(la0) + "," + fx(lo0) + "," + fx(S0) + ") vs (" + fx(lat2) + "," + fx(lon2) + "," + fx(S12) + ")", FF("series-vs-exact"));
        }
        if (ctx.want_sample()) ctx.sample(key + " -> lat2=" + fmt(lat2) + " lon2=" + fmt(lon2) + " S12=" + fmt(S12));
      }
    }
  }
  run_histories(ctx, T);
  ctx.note("tolerance model: (K + C_TR |n|^7/eps [series]) * [eps * scale + sens]; sens = change of the oracle answer under a 2^-52*90deg move of a latitude argument; K_S=" + fmt(K_S) + " K_AZI=" + fmt(K_AZI) + " K_AREA=" + fmt(K_AREA) + " K_LAT=" + fmt(K_LAT) + " K_LON=" + fmt(K_LON) + " K_DAREA=" + fmt(K_DAREA) + " C_TR=" + fmt(C_TR) + " (calibrated on the unchanged tree, frozen)");
  return ctx.finish();
}
