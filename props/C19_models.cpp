// C19 part 2 -- magnetic and gravity models loaded from (generated) files reproduce the field implied by the file's
// coefficients; NormalGravity is self-consistent.  Engine E1 on synthetic files written by the harness under
// $VERIF_DIR/build/tmp/C19/<pid>/ (removed at exit).  Reference: oracle/sph_sum.hpp (direct __float128 sums, closed-form
// level-ellipsoid gravity), the documented file formats and field definitions (MagneticModel.hpp, GravityModel.hpp,
// doc/GeographicLib.dox.in sections magneticformat, gravityformat, gravitygeoid).
#include "mc/ctx.hpp"
#include "oracle/sph_sum.hpp"
#include "oracle/sph_tol.hpp"
#include <GeographicLib/MagneticModel.hpp>
#include <GeographicLib/MagneticCircle.hpp>
#include <GeographicLib/GravityModel.hpp>
#include <GeographicLib/GravityCircle.hpp>
#include <GeographicLib/NormalGravity.hpp>
#include <GeographicLib/Geocentric.hpp>
#include <sys/stat.h>
#include <unistd.h>
#include <sys/resource.h>
#include <string>
#include <vector>
#include <memory>
#include <functional>

using namespace GeographicLib;
using mc::Ctx; using mc::fx; using mc::fmt; using mc::fmti;
using sph::Q;
using namespace sphtol;


// ---------------------------------------------------------------- generated data files
static std::string g_dir;
static std::vector<std::string> g_files;
static std::string datadir() {
  if (!g_dir.empty()) return g_dir;
  const char* v = getenv("VERIF_DIR"); std::string d = std::string(v ? v : "/verif") + "/build";
  mkdir(d.c_str(), 0777); d += "/tmp"; mkdir(d.c_str(), 0777); d += "/C19"; mkdir(d.c_str(), 0777);
  d += "/" + std::to_string((long)getpid()); mkdir(d.c_str(), 0777);
  mkdir((d + "/magnetic").c_str(), 0777); mkdir((d + "/gravity").c_str(), 0777);
  return g_dir = d;
}
static void cleanup() {
  for (auto& f : g_files) unlink(f.c_str());
  if (!g_dir.empty()) { rmdir((g_dir + "/magnetic").c_str()); rmdir((g_dir + "/gravity").c_str()); rmdir(g_dir.c_str()); }
}

// one set of coefficients in the documented packed layout for (N, M): C has (M+1)(2N-M+2)/2 entries, column (m) major
struct CSet {
  int N, M; std::vector<double> C, S;
  CSet() : N(-1), M(-1) {}
  CSet(int N_, int M_) : N(N_), M(M_), C(N_ < 0 ? 0 : size_t((M_ + 1) * (2 * N_ - M_ + 2) / 2), 0.0), S(N_ < 0 ? 0 : size_t((M_ + 1) * (2 * N_ - M_ + 2) / 2 - (N_ + 1)), 0.0) {}
  int ci(int n, int m) const { return m * N - m * (m - 1) / 2 + n; }
  int si(int n, int m) const { return ci(n, m) - (N + 1); }
  double c(int n, int m) const { return (n <= N && m <= n && m <= M) ? C[ci(n, m)] : 0; }
  double s(int n, int m) const { return (n <= N && m <= n && m <= M && m > 0) ? S[si(n, m)] : 0; }
  void set_c(int n, int m, double v) { C[ci(n, m)] = v; }
  void fill(int salt, double scale, double decay) {
    for (int m = 0; m <= M; ++m) for (int n = m; n <= N; ++n) {
      double d = scale * std::pow(n + 1.0, -decay);
      C[ci(n, m)] = ((n * 7 + m * 13 + salt * 5) % 23 - 11) / 8.0 * d;
      if (m) S[si(n, m)] = ((n * 5 + m * 11 + salt * 3) % 19 - 9) / 8.0 * d;
    }
  }
  void write(FILE* f) const {
    int nm[2] = {N, M}; fwrite(nm, 4, 2, f);
    if (!C.empty()) fwrite(C.data(), 8, C.size(), f);
    if (!S.empty()) fwrite(S.data(), 8, S.size(), f);
  }
};

// reference sum with __float128 coefficients: coef(n, m, C, S, absC, absS)
template <class CF> static sph::Sum qsum(int norm, Q a, int nmx, int mmx, Q x, Q y, Q z, CF coef) {
  sph::Sum s; Q r = sqrtq(x * x + y * y + z * z);
  sph::for_each_term(norm, a, nmx, mmx, x, y, z, [&](const sph::Term& t) {
    Q C = 0, S = 0, aC = 0, aS = 0; coef(t.n, t.m, C, S, aC, aS);
    s.add(t, C, S, aC, aS, r);
  });
  return s;
}
static sph::Sum set_sum(const CSet& cs, int Nt, int Mt, int norm, Q a, Q x, Q y, Q z) {   // Nt, Mt: constructor truncation (<0: none)
  int nmx = cs.N, mmx = cs.M;
  if (Nt >= 0 || Mt >= 0) { int NN = Nt, MM = Mt; if (NN >= 0 && MM < 0) MM = NN; if (NN < 0) NN = 1 << 30; if (MM < 0) MM = 1 << 30; nmx = std::min(nmx, NN); mmx = std::min(mmx, MM); }
  return qsum(norm, a, nmx, mmx, x, y, z, [&](int n, int m, Q& C, Q& S, Q& aC, Q& aS) { C = cs.c(n, m); S = cs.s(n, m); aC = sph::qabs(C); aS = sph::qabs(S); });
}
static void trunc_of(const CSet& cs, int Nt, int Mt, int& nmx, int& mmx) {
  nmx = cs.N; mmx = cs.M;
  if (Nt >= 0 || Mt >= 0) { int NN = Nt, MM = Mt; if (NN >= 0 && MM < 0) MM = NN; if (NN < 0) NN = 1 << 30; if (MM < 0) MM = 1 << 30; nmx = std::min(nmx, NN); mmx = std::min(mmx, MM); }
}
// components of a vector-valued reference in a local basis; the tolerance scales are doubled (a component of a rotated vector
// carries the error of the whole vector)
static sph::Sum rotate(const sph::Sum& s, const Q e[3], const Q n[3], const Q u[3]) {
  sph::Sum o = s; o.g[0] = sph::dot3(s.g, e); o.g[1] = sph::dot3(s.g, n); o.g[2] = sph::dot3(s.g, u);
  o.sg = 2 * s.sg; o.ssupg = 2 * s.ssupg; o.sh = 2 * s.sh; return o;
}
static Q norm3(const Q g[3]) { return sqrtq(sph::dot3(g, g)); }
static const double SENT = -12345.678;

struct Fail {                      // bundles the failure reporting of one case
  Ctx& ctx; std::string key; mc::Fields F;
  mc::Fields with(const char* kind) const { mc::Fields g = F; g.push_back({"kind", kind}); return g; }
  void vec(const std::string& pred, const char* kind, const std::string& what, const double got[3], const sph::Sum& ref, Q extra = 0) const {
    Ratio r = rat_g(got, ref, extra);
    ctx.worstf(pred + ".err_over_tol", r.r, [&] { return key + " " + what; });
    ctx.worstf(pred + ".err_in_eps_sumterms", r.in_eps, [&] { return key + " " + what; });
    if (!(r.r <= 1)) ctx.fail(key + " " + what, what + " = " + d3(got) + " but the file's coefficients imply " + q3(ref.g) + " (scale " + sph::qstr(ref.sg, 6) + ", err/tol " + fmt(r.r) + ")", with(kind));
  }
  void val(const std::string& pred, const char* kind, const std::string& what, double got, const sph::Sum& ref, Q extra = 0) const {
    Ratio r = rat_v(got, ref, extra);
    ctx.worstf(pred + ".err_over_tol", r.r, [&] { return key + " " + what; });
    ctx.worstf(pred + ".err_in_eps_sumterms", r.in_eps, [&] { return key + " " + what; });
    if (!(r.r <= 1)) ctx.fail(key + " " + what, what + " = " + fx(got) + " but the file's coefficients imply " + sph::qstr(ref.v) + " (sum|terms| " + sph::qstr(ref.sv, 6) + ", err/tol " + fmt(r.r) + ")", with(kind));
  }
  // plain scalar with an explicit absolute tolerance
  void num(const std::string& pred, const char* kind, const std::string& what, double got, Q want, Q tol) const {
    Q err = sph::qabs(Q(got) - want);
    double r = tol > 0 ? double(err / tol) : (err == 0 ? 0.0 : INFINITY);
    if (!(got == got)) r = INFINITY;
    ctx.worstf(pred + ".err_over_tol", r, [&] { return key + " " + what; });
    if (!(r <= 1)) ctx.fail(key + " " + what, what + " = " + fx(got) + " but the reference is " + sph::qstr(want) + " (tolerance " + sph::qstr(tol, 6) + ")", with(kind));
  }
};

// a library call that dies with a signal is a failure of the case, not of the harness
template <class Fn> static bool safe(const Fail& fl, Fn f) {
  int sg = 0;
  try { sg = mc::crashed(f); }
  catch (const std::exception& e) { fl.ctx.fail(fl.key + " exception", std::string("library call threw: ") + e.what(), fl.with("exception")); return false; }
  if (sg) { fl.ctx.fail(fl.key + " crash", "library call died with signal " + fmti(sg), fl.with("crash")); return false; }
  return true;
}

// ================================================================================================== magnetic
struct MagSpec {
  std::string name; int NM, NC, norm; bool normkey; double a, t0, dt0; std::vector<CSet> sets;   // NM models, 1 secular variation, NC constant
};
static MagSpec make_mag(int NM, int NC, int norm, bool normkey) {
  MagSpec m; m.NM = NM; m.NC = NC; m.norm = norm; m.normkey = normkey; m.a = 6371200; m.t0 = 2020; m.dt0 = NM > 1 ? 5 : 1;
  m.name = "m" + fmti(NM) + fmti(NC) + (norm == sph::FULL ? "f" : "s") + (normkey ? "k" : "d");
  const int deg[3][2] = {{3, 3}, {4, 2}, {3, 1}};
  for (int i = 0; i < NM; ++i) { CSet c(deg[i][0], deg[i][1]); c.fill(i + 1, 30000, 1); c.C[0] = 0; m.sets.push_back(c); }
  { CSet c(2, 2); c.fill(7, 80, 0); c.C[0] = 0; m.sets.push_back(c); }                  // secular variation, nT/yr
  if (NC) { CSet c(5, 5); c.fill(9, 200, 1); c.C[0] = 0; m.sets.push_back(c); }
  return m;
}
static void write_mag(const MagSpec& m) {
  std::string base = datadir() + "/magnetic/" + m.name + ".wmm";
  FILE* f = fopen(base.c_str(), "w");
  std::string id = (m.name + "XXXXXXXX").substr(0, 8);
  fprintf(f, "WMMF-%d\n# synthetic model written by props/C19_models.cpp\nName            %s\nDescription     synthetic %s\nReleaseDate     2020-01-01\nRadius          %.17g\nNumModels       %d\n", m.NC ? 2 : 1, m.name.c_str(), m.name.c_str(), m.a, m.NM);
  if (m.NC || m.normkey) fprintf(f, "NumConstants    %d\n", m.NC);
  fprintf(f, "Epoch           %.17g\n", m.t0);
  if (m.NM > 1) fprintf(f, "DeltaEpoch      %.17g\n", m.dt0);
  fprintf(f, "MinTime         2020\nMaxTime         2035\nMinHeight       -1000\nMaxHeight       850000\n");
  if (m.normkey) fprintf(f, "Normalization   %s\n", m.norm == sph::FULL ? "full" : "schmidt");
  fprintf(f, "ID              %s\n", id.c_str());
  fclose(f); g_files.push_back(base);
  f = fopen((base + ".cof").c_str(), "wb");
  fwrite(id.data(), 1, 8, f);
  for (auto& c : m.sets) c.write(f);
  fclose(f); g_files.push_back(base + ".cof");
}
// reference geocentric field and rate at (X,Y,Z), time t, constructor truncation (Nt, Mt)
struct MagRef { sph::Sum B, Bt; };
static MagRef mag_ref(const MagSpec& m, int Nt, int Mt, double t, Q X, Q Y, Q Z) {
  std::vector<sph::Sum> S;
  for (auto& c : m.sets) S.push_back(set_sum(c, Nt, Mt, m.norm, Q(m.a), X, Y, Z));
  Q tt = Q(t) - Q(m.t0);
  long long n = (long long)floorq(tt / Q(m.dt0)); n = std::max(0LL, std::min((long long)m.NM - 1, n));
  bool interp = n + 1 < m.NM;
  Q dt = tt - Q(n) * Q(m.dt0);
  sph::Sum rate, B;
  if (interp) { rate.axpy(1 / Q(m.dt0), S[n + 1]); rate.axpy(-1 / Q(m.dt0), S[n]); } else rate.axpy(1, S[m.NM]);
  B.axpy(1, S[n]); B.axpy(dt, rate); if (m.NC) B.axpy(1, S[m.NM + 1]);
  MagRef r; r.B.axpy(-Q(m.a), B); r.Bt.axpy(-Q(m.a), rate);     // B = -grad (a * sum)
  return r;
}

static void sub_magnetic(Ctx& ctx, bool T) {
  ctx.sub("magnetic");
  ctx.bound("magnetic.files", "NumModels in {1,2,3} x NumConstants in {0,1} x Normalization in {default(schmidt), schmidt, full}; sets of differing degree/order (3,3),(4,2),(3,1), secular (2,2), constant (5,5); constructor truncations (Nmax,Mmax) in {none,(2,-1),(3,1),(-1,2),(10,10),(0,-1)}; ellipsoids WGS84, (6.4e6, 0.1), sphere");
  std::vector<double> times = {1900, 2015.5, 2020, 2021.3, std::nextafter(2025.0, 0.0), 2025, 2027.9, 2030, 2031, 2040.25};
  if (!T) times = {2015.5, 2020, 2021.3, 2025, 2027.9, 2031};
  ctx.bound("magnetic.times", fmti((long long)times.size()) + " times: before the first epoch, at every epoch, between epochs, after the last epoch (+ 1 ulp below an epoch)");
  const double GP[6][3] = {{0, 0, 6.4e6}, {0, 0, -7e6}, {6.5e6, 0, 0}, {-3.1e6, 4.2e6, 3.9e6}, {1e6, -2e6, 2.5e6}, {6e-4, -2e-4, 6.38e6}};
  std::vector<double> lats = T ? std::vector<double>{-90, -45.5, 0, 33, 90} : std::vector<double>{-45.5, 33, 90};
  std::vector<double> lons = T ? std::vector<double>{0, 77.3, -120, 180} : std::vector<double>{77.3, 180};
  std::vector<double> hs = T ? std::vector<double>{0, 1000, -5000, 4e5} : std::vector<double>{0, 4e5};
  ctx.bound("magnetic.points", "FieldGeocentric at 6 geocentric points (polar axis +-, equator, generic, r < a, 1 mm off the axis); operator() and Circle at " + fmti((long long)(lats.size() * lons.size() * hs.size())) + " (lat,lon,h) incl. the poles");
  const int TR[6][2] = {{-1, -1}, {2, -1}, {3, 1}, {-1, 2}, {10, 10}, {0, -1}};
  struct EarthP { double a, f; };
  const EarthP earths[3] = {{Constants::WGS84_a(), Constants::WGS84_f()}, {6.4e6, 0.1}, {6371200, 0}};
  for (int NM = 1; NM <= 3; ++NM) for (int NC = 0; NC <= 1; ++NC) for (int nk = 0; nk < 3; ++nk) {
    int norm = nk == 2 ? sph::FULL : sph::SCHMIDT; bool normkey = nk != 0;
    for (int itr = 0; itr < 6; ++itr) for (int ie = 0; ie < 3; ++ie) {
      if (ie > 0 && itr > 0) continue;                    // other ellipsoids only without truncation
      if (!ctx.take()) continue;
      MagSpec ms = make_mag(NM, NC, norm, normkey);
      write_mag(ms);
      const int Nt = TR[itr][0], Mt = TR[itr][1];
      std::string vkey = "magnetic file=" + ms.name + " trunc=" + fmti(Nt) + "," + fmti(Mt) + " earth=" + fmti(ie);
      mc::Fields F{{"file", ms.name}, {"NumModels", fmti(NM)}, {"NumConstants", fmti(NC)}, {"norm", norm == sph::FULL ? "FULL" : "SCHMIDT"}};
      std::unique_ptr<MagneticModel> mm;
      try {
        Geocentric earth(earths[ie].a, earths[ie].f);
        if (itr == 0 && ie == 0) mm.reset(new MagneticModel(ms.name, datadir() + "/magnetic"));
        else mm.reset(new MagneticModel(ms.name, datadir() + "/magnetic", earth, Nt, Mt));
      } catch (const std::exception& e) {
        Ctx::Case cas(ctx); mc::Fields g = F; g.push_back({"kind", "load"});
        ctx.fail(vkey, std::string("well-formed model file rejected: ") + e.what(), g); continue;
      }
      const MagneticModel& M = *mm;
      {   // inspectors
        Ctx::Case cas(ctx);
        int dn = -1, dm = -1; for (auto& c : ms.sets) { int a, b; trunc_of(c, Nt, Mt, a, b); dn = std::max(dn, a); dm = std::max(dm, b); }
        if (M.Degree() != dn || M.Order() != dm || M.MinTime() != 2020 || M.MaxTime() != 2035 || M.MinHeight() != -1000 || M.MaxHeight() != 850000 ||
            M.EquatorialRadius() != earths[ie].a || M.Flattening() != earths[ie].f || M.MagneticModelName() != ms.name || M.Description() != "synthetic " + ms.name || M.DateTime() != "2020-01-01")
          { mc::Fields g = F; g.push_back({"kind", "inspector"}); ctx.fail(vkey + " inspectors", "Degree/Order/limits/names differ from the file: Degree " + fmti(M.Degree()) + " Order " + fmti(M.Order()) + " expected " + fmti(dn) + " " + fmti(dm), g); }
      }
      for (double t : times) {
        // ---- FieldGeocentric
        for (auto& gp : GP) {
          Ctx::Case cas(ctx);
          Fail fl{ctx, vkey + " t=" + fmt(t) + " XYZ=" + fmt(gp[0]) + "," + fmt(gp[1]) + "," + fmt(gp[2]), F};
          ctx.sig((uint64_t)(NM * 1000 + NC * 500 + nk * 100 + itr * 10) + (t < ms.t0 ? 1 : t >= ms.t0 + (NM - 1) * ms.dt0 ? 2 : 3));
          MagRef ref = mag_ref(ms, Nt, Mt, t, Q(gp[0]), Q(gp[1]), Q(gp[2]));
          double B[3] = {SENT, SENT, SENT}, Bt[3] = {SENT, SENT, SENT};
          if (!safe(fl, [&] { M.FieldGeocentric(t, gp[0], gp[1], gp[2], B[0], B[1], B[2], Bt[0], Bt[1], Bt[2]); })) continue;
          fl.vec("magnetic.geocentric.B", "field", "FieldGeocentric B", B, ref.B);
          fl.vec("magnetic.geocentric.Bt", "rate", "FieldGeocentric dB/dt", Bt, ref.Bt);
          if (ctx.want_sample()) ctx.sample(fl.key);
        }
        // ---- operator() and Circle
        for (double lat : lats) for (double h : hs) {
          std::unique_ptr<MagneticCircle> circ;
          { Fail fc{ctx, vkey + " t=" + fmt(t) + " lat=" + fmt(lat) + " h=" + fmt(h) + " Circle()", F};
            if (!safe(fc, [&] { circ.reset(new MagneticCircle(M.Circle(t, lat, h))); })) continue; }
          for (double lon : lons) {
            Ctx::Case cas(ctx);
            Fail fl{ctx, vkey + " t=" + fmt(t) + " lat=" + fmt(lat) + " lon=" + fmt(lon) + " h=" + fmt(h), F};
            sph::Geo g = sph::geodetic(Q(earths[ie].a), Q(earths[ie].f), Q(lat), Q(lon), Q(h));
            MagRef ref = mag_ref(ms, Nt, Mt, t, g.X, g.Y, g.Z);
            Q R = sqrtq(g.X * g.X + g.Y * g.Y + g.Z * g.Z);
            Q posB = Q(2 * EPS) * R * ref.B.sh, posBt = Q(2 * EPS) * R * ref.Bt.sh;       // rounding of the geocentric position
            sph::Sum rB = rotate(ref.B, g.e, g.n, g.u), rBt = rotate(ref.Bt, g.e, g.n, g.u);
            double b[3] = {SENT, SENT, SENT}, b2[3] = {SENT, SENT, SENT}, bt[3] = {SENT, SENT, SENT};
            if (!safe(fl, [&] { M(t, lat, lon, h, b[0], b[1], b[2]); M(t, lat, lon, h, b2[0], b2[1], b2[2], bt[0], bt[1], bt[2]); })) continue;
            fl.vec("magnetic.enu.B", "field-enu", "operator() B(east,north,up)", b, rB, 2 * posB);
            fl.vec("magnetic.enu.B", "field-enu", "operator()(with rates) B", b2, rB, 2 * posB);
            fl.vec("magnetic.enu.Bt", "rate-enu", "operator() dB/dt", bt, rBt, 2 * posBt);
            // circle
            double c1[3] = {SENT, SENT, SENT}, c2[3] = {SENT, SENT, SENT}, ct[3] = {SENT, SENT, SENT}, G[3], Gt[3], G2[3], Gt2[3];
            double sl, cl; Math::sincosd(lon, sl, cl);
            if (!safe(fl, [&] {
              (*circ)(lon, c1[0], c1[1], c1[2]);
              (*circ)(lon, c2[0], c2[1], c2[2], ct[0], ct[1], ct[2]);
              circ->FieldGeocentric(lon, G[0], G[1], G[2], Gt[0], Gt[1], Gt[2]);
              circ->FieldGeocentric(sl, cl, G2[0], G2[1], G2[2], Gt2[0], Gt2[1], Gt2[2]); })) continue;
            fl.vec("magnetic.circle.B", "circle-field", "MagneticCircle B(east,north,up)", c1, rB, 2 * posB);
            fl.vec("magnetic.circle.B", "circle-field", "MagneticCircle(with rates) B", c2, rB, 2 * posB);
            fl.vec("magnetic.circle.Bt", "circle-rate", "MagneticCircle dB/dt", ct, rBt, 2 * posBt);
            fl.vec("magnetic.circle.geocentric", "circle-geocentric", "MagneticCircle::FieldGeocentric(lon) B", G, ref.B, posB);
            fl.vec("magnetic.circle.geocentric", "circle-geocentric", "MagneticCircle::FieldGeocentric(sin,cos) B", G2, ref.B, posB);
            fl.vec("magnetic.circle.geocentric", "circle-geocentric", "MagneticCircle::FieldGeocentric(lon) dB/dt", Gt, ref.Bt, posBt);
            fl.vec("magnetic.circle.geocentric", "circle-geocentric", "MagneticCircle::FieldGeocentric(sin,cos) dB/dt", Gt2, ref.Bt, posBt);
            if (circ->Latitude() != lat || circ->Height() != h || circ->Time() != t) ctx.fail(fl.key + " circle-inspectors", "MagneticCircle Latitude/Height/Time differ from the arguments", fl.with("inspector"));
          }
        }
      }
    }
  }
}

// ---------------------------------------------------------------- FieldComponents
static void sub_components(Ctx& ctx, bool T) {
  ctx.sub("fieldcomponents");
  const double BV[5] = {0, 1, -1, 29000.5, -123.25}, TV[3] = {0, 1, -7.5};
  ctx.bound("fieldcomponents", "(Bx,By,Bz) in {0,1,-1,29000.5,-123.25}^3 x (Bxt,Byt,Bzt) in {0,1,-7.5}^3, both overloads: H, F, D, I and rates vs their definitions; H = 0 and F = 0 branches vs the forward-time limit of the linearly varying field");
  ctx.list("documentation-silent", "FieldComponents with H = 0 or F = 0: the reference is the limit t -> 0+ of the quantities of B + t dB/dt (what the implementation documents in its source); 4-argument overload: D = I = 0 by the same rule with the implied rate (0,1,0)");
  const Q deg = sph::qpi() / 180;
  for (int ix = 0; ix < 5; ++ix) {
    if (!ctx.take()) continue;
    for (int iy = 0; iy < 5; ++iy) for (int iz = 0; iz < 5; ++iz) for (int it = 0; it < 27; ++it) {
      Ctx::Case cas(ctx);
      double Bx = BV[ix], By = BV[iy], Bz = BV[iz], Bxt = TV[it % 3], Byt = TV[(it / 3) % 3], Bzt = TV[it / 9];
      Q H = hypotq(Q(Bx), Q(By)), Ht, D, Dt, F, Ft, I, It;
      if (H != 0) { Ht = (Q(Bx) * Bxt + Q(By) * Byt) / H; D = atan2q(Q(Bx), Q(By)) / deg; Dt = (Q(By) * Bxt - Q(Bx) * Byt) / (H * H) / deg; }
      else { Ht = hypotq(Q(Bxt), Q(Byt)); D = (Bxt == 0 && Byt == 0) ? Q(0) : atan2q(Q(Bxt), Q(Byt)) / deg; Dt = 0; }
      F = hypotq(H, Q(Bz));
      if (F != 0) { Ft = (H * Ht + Q(Bz) * Bzt) / F; I = atan2q(-Q(Bz), H) / deg; It = (Q(Bz) * Ht - H * Bzt) / (F * F) / deg; }
      else { Ft = hypotq(Ht, Q(Bzt)); I = (Ht == 0 && Bzt == 0) ? Q(0) : atan2q(-Q(Bzt), Ht) / deg; It = 0; }
      ctx.sig((H != 0) * 2 + (F != 0));
      std::string key = "fieldcomponents B=" + fmt(Bx) + "," + fmt(By) + "," + fmt(Bz) + " Bt=" + fmt(Bxt) + "," + fmt(Byt) + "," + fmt(Bzt);
      Fail fl{ctx, key, {{"H0", H == 0 ? "1" : "0"}, {"F0", F == 0 ? "1" : "0"}}};
      double h, f, d, i, ht, ft, dt, itt;
      MagneticModel::FieldComponents(Bx, By, Bz, Bxt, Byt, Bzt, h, f, d, i, ht, ft, dt, itt);
      const Q e8 = Q(8 * EPS);
      Q sB = sph::qabs(Q(Bx)) + sph::qabs(Q(By)) + sph::qabs(Q(Bz)), sT = sph::qabs(Q(Bxt)) + sph::qabs(Q(Byt)) + sph::qabs(Q(Bzt));
      fl.num("components.H", "H", "H", h, H, e8 * H);
      fl.num("components.F", "F", "F", f, F, e8 * F);
      fl.num("components.D", "D", "D", d, D, e8 * 180);
      fl.num("components.I", "I", "I", i, I, e8 * 180);
      fl.num("components.Ht", "Ht", "dH/dt", ht, Ht, e8 * sT);
      fl.num("components.Ft", "Ft", "dF/dt", ft, Ft, 2 * e8 * sT);
      fl.num("components.Dt", "Dt", "dD/dt", dt, Dt, H != 0 ? 2 * e8 * sT / H / deg : Q(0));
      fl.num("components.It", "It", "dI/dt", itt, It, F != 0 ? 4 * e8 * sT / F / deg : Q(0));
      if (it == 0) {
        double h4, f4, d4, i4;
        MagneticModel::FieldComponents(Bx, By, Bz, h4, f4, d4, i4);
        Q D4 = H != 0 ? D : Q(0), I4 = F != 0 ? I : Q(0);
        fl.num("components.H", "H", "H (4-argument overload)", h4, H, e8 * H);
        fl.num("components.F", "F", "F (4-argument overload)", f4, F, e8 * F);
        fl.num("components.D", "D", "D (4-argument overload)", d4, D4, e8 * 180);
        fl.num("components.I", "I", "I (4-argument overload)", i4, I4, e8 * 180);
      }
      (void)sB;
      if (ctx.want_sample()) ctx.sample(key);
    }
  }
}

// ================================================================================================== gravity
struct GravSpec {
  std::string name; int norm; bool normkey; CSet grav, corr;
  double amodel, GMmodel, omega, aref, GMref; bool fspec; double fJ2; std::string fJ2text;
  double zeta0, corrmult; bool zkey, ckey;
};
// kind: 0 EGM-like (f given, masses differ), 1 GRS80-like (J2 given, equal masses and radii, corrmult/zeta0 changed), 2 Schmidt,
// 3 degree 12 order 8 without correction terms, 4 huge C40 (normal-field loop stops early), 5 spherical reference ellipsoid
static GravSpec make_grav(int kind) {
  GravSpec g; g.norm = kind == 2 ? sph::SCHMIDT : sph::FULL; g.normkey = (kind == 2 || kind == 1);
  g.name = std::string("g") + fmti(kind);
  int N = kind == 3 ? 12 : kind == 4 ? 6 : 4, M = kind == 3 ? 8 : N;
  g.grav = CSet(N, M);
  for (int m = 0; m <= M; ++m) for (int n = m; n <= N; ++n) {
    double nf = g.norm == sph::SCHMIDT ? std::sqrt(2.0 * n + 1) : 1;
    double c = 2e-6 * ((n * 7 + m * 13 + kind * 5) % 23 - 11) / 11.0 / std::max(n, 1) * nf, s = 2e-6 * ((n * 5 + m * 11 + kind * 3) % 19 - 9) / 9.0 / std::max(n, 1) * nf;
    if (n == 2 && m == 0) c = -484.1653717e-6 * nf;
    if (n == 0) c = 0;
    g.grav.set_c(n, m, c); if (m) g.grav.S[g.grav.si(n, m)] = s;
  }
  if (kind == 4) g.grav.set_c(4, 0, 1e13);
  if (kind == 3) g.corr = CSet(-1, -1); else { g.corr = CSet(2, 2); g.corr.fill(kind + 3, 0.1, 1); }
  g.amodel = 6378136.3; g.GMmodel = 3986004.415e8; g.omega = 7292115e-11; g.aref = 6378137; g.GMref = 3986004.418e8;
  g.fspec = true; g.fJ2 = 1 / 298.257223563; g.fJ2text = "1/298.257223563";
  g.zeta0 = -0.41; g.corrmult = 1; g.zkey = true; g.ckey = false;
  if (kind == 1) { g.fspec = false; g.fJ2 = 108263e-8; g.fJ2text = "108263e-8"; g.GMref = g.GMmodel = 3986005e8; g.amodel = g.aref; g.zeta0 = 0.3; g.corrmult = 0.5; g.ckey = true; }
  if (kind == 3) { g.zkey = false; g.zeta0 = 0; }
  if (kind == 5) { g.fJ2 = 0; g.fJ2text = "0"; }
  return g;
}
static void write_grav(const GravSpec& g) {
  std::string base = datadir() + "/gravity/" + g.name + ".egm";
  FILE* f = fopen(base.c_str(), "w");
  std::string id = (g.name + "GRAVXXXX").substr(0, 8);
  fprintf(f, "EGMF-1\n# synthetic model written by props/C19_models.cpp\nName            %s\nDescription     synthetic %s\nReleaseDate     2021-02-03\nModelRadius     %.17g\nModelMass       %.17g\nAngularVelocity %.17g\nReferenceRadius %.17g\nReferenceMass   %.17g\n%s %s\n",
          g.name.c_str(), g.name.c_str(), g.amodel, g.GMmodel, g.omega, g.aref, g.GMref, g.fspec ? "Flattening     " : "DynamicalFormFactor", g.fJ2text.c_str());
  if (g.zkey) fprintf(f, "HeightOffset    %.17g\n", g.zeta0);
  if (g.ckey) fprintf(f, "CorrectionMultiplier %.17g\n", g.corrmult);
  if (g.normkey) fprintf(f, "Normalization   %s\n", g.norm == sph::FULL ? "full" : "schmidt");
  fprintf(f, "ID              %s\n", id.c_str());
  fclose(f); g_files.push_back(base);
  f = fopen((base + ".cof").c_str(), "wb");
  fwrite(id.data(), 1, 8, f); g.grav.write(f); g.corr.write(f);
  fclose(f); g_files.push_back(base + ".cof");
}

// everything the definitions give at one geocentric point
struct GravRef {
  sph::Sum V, W, T, Tp;       // V; W = V + Phi; T = V - V0 (V0 = zonal series of the level ellipsoid up to the model degree); Tp = T without the 1/R term
  Q U, gU[3], gam;            // closed-form normal potential, its gradient and magnitude
  Q R;
  bool haveU;
};
struct GravCtx {
  const GravSpec* g; int Nt, Mt; int nmx, mmx, cn, cm; Q fref; std::unique_ptr<sph::ng::Ell> ell;
};
static GravRef grav_ref(const GravCtx& gc, Q X, Q Y, Q Z, bool needU) {
  const GravSpec& g = *gc.g; GravRef r;
  Q GMm = g.GMmodel, am = g.amodel, f0 = GMm / am;
  r.R = sqrtq(X * X + Y * Y + Z * Z);
  sph::Sum sv = qsum(g.norm, am, gc.nmx, gc.mmx, X, Y, Z, [&](int n, int m, Q& C, Q& S, Q& aC, Q& aS) {
    C = (n == 0) ? Q(1) : Q(g.grav.c(n, m)); S = g.grav.s(n, m); aC = sph::qabs(C); aS = sph::qabs(S); });
  r.V.axpy(f0, sv);
  Q om2 = Q(g.omega) * Q(g.omega), phi = om2 * (X * X + Y * Y) / 2;
  r.W = r.V; r.W.v += phi; r.W.g[0] += om2 * X; r.W.g[1] += om2 * Y;
  r.W.sv += sph::qabs(phi); r.W.sg += om2 * r.R; r.W.sh += om2;
  // normal zonal coefficients in the file's normalisation and scaling: -(GMref/GMm) (aref/am)^n J_n / (sqrt(2n+1) | 1)
  sph::Sum sd = qsum(g.norm, am, gc.nmx, gc.mmx, X, Y, Z, [&](int n, int m, Q& C, Q& S, Q& aC, Q& aS) {
    S = g.grav.s(n, m); aS = sph::qabs(S);
    if (n == 0) { C = 0; aC = 0; return; }                 // the 1/R terms are treated separately (exact cancellation + dzonal0)
    C = g.grav.c(n, m); aC = sph::qabs(C);
    if (m == 0 && !(n & 1)) {
      Q s = -(Q(g.GMref) / GMm) * powq(Q(g.aref) / am, n) * gc.ell->Jn(n) / (g.norm == sph::FULL ? sqrtq(Q(2 * n + 1)) : Q(1));
      C -= s; aC += sph::qabs(s);
    }
  });
  r.Tp.axpy(f0, sd);
  r.T = r.Tp;
  Q dz = (Q(g.GMref) - GMm) / GMm, R3 = r.R * r.R * r.R;
  r.T.v -= dz * GMm / r.R; r.T.g[0] += dz * GMm * X / R3; r.T.g[1] += dz * GMm * Y / R3; r.T.g[2] += dz * GMm * Z / R3;
  r.T.sv += sph::qabs(dz) * GMm / r.R; r.T.sg += sph::qabs(dz) * GMm / (r.R * r.R); r.T.sh += 4 * sph::qabs(dz) * GMm / R3;
  r.haveU = needU;
  if (needU) {
    r.U = gc.ell->U(X, Y, Z);
    sph::grad_fd8([&](Q x, Q y, Q z) { return gc.ell->U(x, y, z); }, X, Y, Z, r.R * Q(1e-5), r.gU);
    r.gam = norm3(r.gU);
  }
  return r;
}

static void sub_gravity(Ctx& ctx, bool T) {
  ctx.sub("gravity");
  ctx.bound("gravity.files", "6 generated .egm/.egm.cof: (4,4)+correction (2,2), f-specified WGS84 reference, model mass/radius != reference; J2-specified GRS80 reference with equal masses, CorrectionMultiplier 0.5, HeightOffset 0.3; Schmidt normalisation; degree 12 order 8 without correction set; C40 = 1e13 (normal-field loop stops early); spherical reference (Flattening 0); constructor truncations (Nmax,Mmax) in {none,(2,-1),(3,1),(-1,2),(10,10),(0,-1)} on the first file");
  std::vector<double> lats = T ? std::vector<double>{-90, -33.25, 0, 45, 90} : std::vector<double>{-33.25, 0, 90};
  std::vector<double> lons = T ? std::vector<double>{0, 77.5, -120, 180} : std::vector<double>{77.5, 180};
  std::vector<double> hs = T ? std::vector<double>{0, 1000, -3000, 4e5} : std::vector<double>{0, 4e5};
  ctx.bound("gravity.points", fmti((long long)(lats.size() * lons.size() * hs.size())) + " (lat,lon,h) incl. the poles and h < 0, + 5 geocentric points (polar axis, equator, r = 0.8a, generic); GravityCircle with caps in {ALL, GRAVITY, DISTURBANCE, DISTURBING_POTENTIAL, SPHERICAL_ANOMALY, GEOID_HEIGHT, NONE}");
  ctx.note("gravity: T is compared with V - V0 where V0 is the zonal series of the level ellipsoid (J_n from the closed form H+M 2-92 in __float128) summed to the model's degree, "
           "which is what the implementation documents in its source; for models of degree >= 12 the omitted tail is below 1e-17 GM/R and T = W - U is also checked against the closed-form U "
           "(library's and oracle's). For lower degrees T differs from W - U by the omitted normal terms J_n, n > nmx (6e-9 GM/R at nmx = 4; J2 itself for Nmax < 2): documentation silent, not compared.");
  ctx.list("documentation-silent", "GravityModel of degree < 12: T versus the closed-form W - U (normal field truncated at the model degree by design)");
  ctx.note("gravity: SphericalAnomaly is checked against Heiskanen & Moritz 2-151c, Dg01 = -dT/dr - 2T/R (the formula cited by the header); doc/GeographicLib.dox.in writes 'deltaz - 2T/R' (sign of the first term differs from H+M and from the code)");
  const int TR[6][2] = {{-1, -1}, {2, -1}, {3, 1}, {-1, 2}, {10, 10}, {0, -1}};
  const unsigned CAPS[7] = {GravityModel::ALL, GravityModel::GRAVITY, GravityModel::DISTURBANCE, GravityModel::DISTURBING_POTENTIAL, GravityModel::SPHERICAL_ANOMALY, GravityModel::GEOID_HEIGHT, GravityModel::NONE};
  const double GP[5][3] = {{0, 0, 6.4e6}, {0, 0, -7e6}, {6.6e6, 0, 0}, {-3.1e6, 4.2e6, 3.9e6}, {2.2e6, -3.0e6, 3.4e6}};
  const Q deg = sph::qpi() / 180;
  for (int kind = 0; kind < 6; ++kind) for (int itr = 0; itr < 6; ++itr) {
    if (kind > 0 && itr > 0) continue;
    if (!T && (kind == 4)) continue;
    if (!ctx.take()) continue;
    GravSpec gs = make_grav(kind);
    write_grav(gs);
    GravCtx gc; gc.g = &gs; gc.Nt = TR[itr][0]; gc.Mt = TR[itr][1];
    trunc_of(gs.grav, gc.Nt, gc.Mt, gc.nmx, gc.mmx); trunc_of(gs.corr, gc.Nt, gc.Mt, gc.cn, gc.cm);
    std::string vkey = "gravity file=" + gs.name + " trunc=" + fmti(gc.Nt) + "," + fmti(gc.Mt);
    mc::Fields F{{"file", gs.name}, {"norm", gs.norm == sph::FULL ? "FULL" : "SCHMIDT"}, {"refspec", gs.fspec ? (gs.fJ2 == 0 ? "f=0" : "f") : "J2"}, {"nmx", fmti(gc.nmx)}};
    mc::Fields FG = F, FT = F; FG.push_back({"quantity", "gravity"}); FT.push_back({"quantity", "disturbing"});
    FT.push_back({"masses", gs.GMref == gs.GMmodel ? "equal" : "differ"});
    std::unique_ptr<GravityModel> gm;
    try {
      if (itr == 0) gm.reset(new GravityModel(gs.name, datadir() + "/gravity")); else gm.reset(new GravityModel(gs.name, datadir() + "/gravity", gc.Nt, gc.Mt));
    } catch (const std::exception& e) {
      Ctx::Case cas(ctx); mc::Fields g = F; g.push_back({"kind", "load"});
      ctx.fail(vkey, std::string("well-formed model file rejected: ") + e.what(), g); continue;
    }
    const GravityModel& G = *gm;
    // reference ellipsoid of the oracle
    gc.fref = gs.fspec ? Q(gs.fJ2) : sph::ng::f_from_J2(Q(gs.aref), Q(gs.GMref), Q(gs.omega), Q(gs.fJ2));
    gc.ell.reset(new sph::ng::Ell(Q(gs.aref), Q(gs.GMref), Q(gs.omega), gc.fref));
    {
      Ctx::Case cas(ctx);
      Fail fl{ctx, vkey + " inspectors", F};
      int dn = std::max(gc.nmx, gc.cn < 0 ? 0 : gc.cn), dm = std::max(gc.mmx, gc.cm < 0 ? 0 : gc.cm);
      if (G.Degree() != dn || G.Order() != dm || G.MassConstant() != gs.GMmodel || G.ReferenceMassConstant() != gs.GMref || G.AngularVelocity() != gs.omega || G.EquatorialRadius() != gs.aref ||
          G.GravityModelName() != gs.name || G.Description() != "synthetic " + gs.name || G.DateTime() != "2021-02-03")
        ctx.fail(fl.key, "Degree/Order/constants/names differ from the file: Degree " + fmti(G.Degree()) + " Order " + fmti(G.Order()) + " expected " + fmti(dn) + " " + fmti(dm), fl.with("inspector"));
      fl.num("gravity.flattening", "flattening", "Flattening()", G.Flattening(), gc.fref, Q(16 * EPS) * (sph::qabs(gc.fref) + sph::qabs(gc.ell->J2) + gc.ell->m));
    }
    auto corr_sum = [&](Q X, Q Y, Q Z) {
      Q R = sqrtq(X * X + Y * Y + Z * Z);
      return qsum(gs.norm, Q(1), std::max(gc.cn, 0), std::max(gc.cm, 0), X / R, Y / R, Z / R, [&](int n, int m, Q& C, Q& S, Q& aC, Q& aS) {
        C = gs.corr.c(n, m); S = gs.corr.s(n, m); aC = sph::qabs(C); aS = sph::qabs(S); });
    };
    // ---- geocentric entry points
    for (auto& p : GP) {
      Ctx::Case cas(ctx);
      Fail fl{ctx, vkey + " XYZ=" + fmt(p[0]) + "," + fmt(p[1]) + "," + fmt(p[2]), FG}, ft{ctx, fl.key, FT};
      GravRef r = grav_ref(gc, Q(p[0]), Q(p[1]), Q(p[2]), true);
      double g[3], v;
      v = G.V(p[0], p[1], p[2], g[0], g[1], g[2]); fl.val("gravity.V", "V", "V", v, r.V); fl.vec("gravity.gradV", "gradV", "grad V", g, r.V);
      v = G.W(p[0], p[1], p[2], g[0], g[1], g[2]); fl.val("gravity.W", "W", "W", v, r.W); fl.vec("gravity.gradW", "gradW", "grad W", g, r.W);
      v = G.T(p[0], p[1], p[2], g[0], g[1], g[2]); ft.val("gravity.T", "T-with-gradient", "T (gradient overload)", v, r.T); ft.vec("gravity.gradT", "gradT", "grad T", g, r.T);
      v = G.T(p[0], p[1], p[2]); ft.val("gravity.T", "T", "T (no gradient)", v, r.T);
      double fx_, fy_; v = G.Phi(p[0], p[1], fx_, fy_);
      Q om2 = Q(gs.omega) * Q(gs.omega);
      fl.num("gravity.Phi", "Phi", "Phi", v, om2 * (Q(p[0]) * p[0] + Q(p[1]) * p[1]) / 2, Q(8 * EPS) * om2 * r.R * r.R);
      fl.num("gravity.Phi", "Phi", "dPhi/dX", fx_, om2 * p[0], Q(8 * EPS) * om2 * r.R);
      fl.num("gravity.Phi", "Phi", "dPhi/dY", fy_, om2 * p[1], Q(8 * EPS) * om2 * r.R);
      double u = G.U(p[0], p[1], p[2], g[0], g[1], g[2]);
      fl.num("gravity.U", "U", "U", u, r.U, Q(32 * EPS) * sph::qabs(r.U));
      for (int i = 0; i < 3; ++i) fl.num("gravity.gradU", "gradU", "grad U component", g[i], r.gU[i], Q(64 * EPS) * r.gam);
      if (gc.nmx >= 12) {
        // T = W - U with the closed-form normal potential: library's own three numbers, and the oracle's series against its closed form
        double gw[3], gu[3], gt[3]; double w = G.W(p[0], p[1], p[2], gw[0], gw[1], gw[2]), uu = G.U(p[0], p[1], p[2], gu[0], gu[1], gu[2]), t = G.T(p[0], p[1], p[2], gt[0], gt[1], gt[2]);
        double t0 = G.T(p[0], p[1], p[2]);
        ft.num("gravity.T_eq_W_minus_U", "T=W-U", "T(X,Y,Z) - (W - U)", t0 - (w - uu), 0, Q(8 * EPS) * (sph::qabs(Q(w)) + sph::qabs(Q(uu))) + tol_v(r.T));
        ft.num("gravity.T_eq_W_minus_U", "T-with-gradient", "T(X,Y,Z,grad) - (W - U)", t - (w - uu), 0, Q(8 * EPS) * (sph::qabs(Q(w)) + sph::qabs(Q(uu))) + tol_v(r.T));
        fl.num("gravity.T_eq_W_minus_U.oracle", "harness", "oracle series T - (V + Phi - U closed form)", double(r.T.v - (r.W.v - r.U)), 0, Q(1e-15) * sph::qabs(r.V.v));
      }
      if (ctx.want_sample()) ctx.sample(fl.key);
    }
    // ---- geodetic entry points and circles
    for (double lat : lats) for (double h : hs) {
      std::vector<std::unique_ptr<GravityCircle>> circs;
      for (unsigned caps : CAPS) circs.emplace_back(new GravityCircle(G.Circle(lat, h, caps)));
      for (double lon : lons) {
        Ctx::Case cas(ctx);
        Fail fl{ctx, vkey + " lat=" + fmt(lat) + " lon=" + fmt(lon) + " h=" + fmt(h), FG}, ft{ctx, fl.key, FT};
        sph::Geo geo = sph::geodetic(Q(gs.aref), gc.fref, Q(lat), Q(lon), Q(h));
        GravRef r = grav_ref(gc, geo.X, geo.Y, geo.Z, true);
        Q pe = Q(2 * EPS) * r.R;                                    // rounding of the geocentric position
        sph::Sum rW = rotate(r.W, geo.e, geo.n, geo.u), rT = rotate(r.T, geo.e, geo.n, geo.u);
        // geoid height (h = 0 position)
        sph::Geo geo0 = sph::geodetic(Q(gs.aref), gc.fref, Q(lat), Q(lon), Q(0));
        GravRef r0 = grav_ref(gc, geo0.X, geo0.Y, geo0.Z, false);
        sph::Sum cs = corr_sum(geo0.X, geo0.Y, geo0.Z);
        Q gamma0 = gc.ell->surface_gravity(Q(lat));
        Q Nref = r0.Tp.v / gamma0 + Q(gs.corrmult) * cs.v + Q(gs.zeta0);
        Q Ntol = (tol_v(r0.Tp) + pe * r0.Tp.sg) / gamma0 + Q(8 * EPS) * sph::qabs(r0.Tp.v / gamma0) + Q(gs.corrmult) * (tol_v(cs) + Q(8 * EPS) * cs.sg) + Q(8 * EPS) * (sph::qabs(Q(gs.zeta0)) + Q(gs.corrmult) * cs.sv);
        // spherical anomaly
        Q P = sqrtq(geo.X * geo.X + geo.Y * geo.Y), cps = P / r.R, sps = geo.Z / r.R;
        Q lam = Q(lon) * deg, sl = sinq(lam), cl = cosq(lam);
        if (lat == 90 || lat == -90) { cps = 0; sps = lat > 0 ? 1 : -1; }
        Q es[3] = {-sl, cl, 0}, ns[3] = {-sps * cl, -sps * sl, cps}, us[3] = {cps * cl, cps * sl, sps};
        Q dE = sph::dot3(r.Tp.g, es), dN = sph::dot3(r.Tp.g, ns), dR = sph::dot3(r.Tp.g, us);
        Q tg = 2 * (tol_g(r.Tp) + pe * r.Tp.sh);
        Q Dg = -dR - 2 * r.Tp.v / r.R, xi = -(dN / r.gam) / deg, eta = -(dE / r.gam) / deg;
        Q Dgtol = tg + 2 * (tol_v(r.Tp) + pe * r.Tp.sg) / r.R + Q(8 * EPS) * (sph::qabs(dR) + 2 * sph::qabs(r.Tp.v) / r.R);
        Q xitol = (tg + Q(64 * EPS) * r.Tp.sg) / r.gam / deg;
        double g[3], v;
        v = G.Gravity(lat, lon, h, g[0], g[1], g[2]);
        fl.val("gravity.geodetic.W", "W", "Gravity() W", v, r.W, pe * r.W.sg); fl.vec("gravity.geodetic.g", "g-enu", "Gravity() g(east,north,up)", g, rW, 2 * pe * r.W.sh);
        v = G.Disturbance(lat, lon, h, g[0], g[1], g[2]);
        ft.val("gravity.geodetic.T", "T-with-gradient", "Disturbance() T", v, r.T, pe * r.T.sg); ft.vec("gravity.geodetic.delta", "delta-enu", "Disturbance() delta(east,north,up)", g, rT, 2 * pe * r.T.sh);
        if (h == 0) ft.num("gravity.geoidheight", "geoid", "GeoidHeight", G.GeoidHeight(lat, lon), Nref, Ntol);
        double a1, a2, a3; G.SphericalAnomaly(lat, lon, h, a1, a2, a3);
        ft.num("gravity.anomaly.Dg01", "anomaly", "SphericalAnomaly Dg01", a1, Dg, Dgtol);
        ft.num("gravity.anomaly.xi", "anomaly", "SphericalAnomaly xi", a2, xi, xitol);
        ft.num("gravity.anomaly.eta", "anomaly", "SphericalAnomaly eta", a3, eta, xitol);
        // circles
        for (int ic = 0; ic < 7; ++ic) {
          const GravityCircle& C = *circs[ic]; unsigned caps = CAPS[ic];
          std::string cn = " [circle caps=" + fmti(caps) + "]";
          auto has = [&](unsigned need) { return (caps & need) == need; };
          auto nan3 = [&](const char* what, double vv, const double* gg, int ng) {
            bool ok = std::isnan(vv); for (int i = 0; i < ng; ++i) ok = ok && std::isnan(gg[i]);
            if (!ok) ctx.fail(fl.key + cn + " " + what, std::string(what) + " of a circle without that capability is not NaN", fl.with("circle-caps"));
          };
          double cg[3];
          v = C.Gravity(lon, cg[0], cg[1], cg[2]);
          if (has(GravityModel::GRAVITY)) { fl.val("gravity.circle.W", "circle-W", "Gravity() W" + cn, v, r.W, pe * r.W.sg); fl.vec("gravity.circle.g", "circle-g", "Gravity() g" + cn, cg, rW, 2 * pe * r.W.sh); } else nan3("Gravity", v, cg, 3);
          v = C.W(lon, cg[0], cg[1], cg[2]);
          if (has(GravityModel::GRAVITY)) { fl.val("gravity.circle.W", "circle-W", "W()" + cn, v, r.W, pe * r.W.sg); fl.vec("gravity.circle.g", "circle-g", "W() gradient" + cn, cg, r.W, pe * r.W.sh); } else nan3("W", v, cg, 3);
          v = C.V(lon, cg[0], cg[1], cg[2]);
          if (has(GravityModel::GRAVITY)) { fl.val("gravity.circle.V", "circle-V", "V()" + cn, v, r.V, pe * r.V.sg); fl.vec("gravity.circle.gradV", "circle-V", "V() gradient" + cn, cg, r.V, pe * r.V.sh); } else nan3("V", v, cg, 3);
          v = C.Disturbance(lon, cg[0], cg[1], cg[2]);
          if (has(GravityModel::DISTURBANCE)) { ft.val("gravity.circle.T", "circle-T", "Disturbance() T" + cn, v, r.T, pe * r.T.sg); ft.vec("gravity.circle.delta", "circle-delta", "Disturbance() delta" + cn, cg, rT, 2 * pe * r.T.sh); } else nan3("Disturbance", v, cg, 3);
          v = C.T(lon, cg[0], cg[1], cg[2]);
          if (has(GravityModel::DISTURBANCE)) { ft.val("gravity.circle.T", "circle-T", "T(lon, grad)" + cn, v, r.T, pe * r.T.sg); ft.vec("gravity.circle.delta", "circle-delta", "T() gradient" + cn, cg, r.T, pe * r.T.sh); } else nan3("T(grad)", v, cg, 3);
          v = C.T(lon);
          if (has(GravityModel::DISTURBING_POTENTIAL)) ft.val("gravity.circle.T", "circle-T", "T(lon)" + cn, v, r.T, pe * r.T.sg); else nan3("T", v, cg, 0);
          v = C.GeoidHeight(lon);
          if (has(GravityModel::GEOID_HEIGHT) && h == 0) ft.num("gravity.circle.geoidheight", "circle-geoid", "GeoidHeight" + cn, v, Nref, Ntol); else nan3("GeoidHeight", v, cg, 0);
          C.SphericalAnomaly(lon, cg[0], cg[1], cg[2]);
          if (has(GravityModel::SPHERICAL_ANOMALY)) {
            ft.num("gravity.circle.anomaly.Dg01", "circle-anomaly", "SphericalAnomaly Dg01" + cn, cg[0], Dg, Dgtol);
            ft.num("gravity.circle.anomaly.xi", "circle-anomaly", "SphericalAnomaly xi" + cn, cg[1], xi, xitol);
            ft.num("gravity.circle.anomaly.eta", "circle-anomaly", "SphericalAnomaly eta" + cn, cg[2], eta, xitol);
          } else nan3("SphericalAnomaly", cg[0], cg + 1, 2);
        }
        if (ctx.want_sample()) ctx.sample(fl.key);
      }
    }
  }
}

// ================================================================================================== normal gravity
struct NGP { const char* name; double a, GM, omega, fJ2; bool geometric; };
static void fd6(const std::function<void(double, double, double, double*)>& fun, int nout, double x, double y, double z, double h, double* d /* [3][nout] */) {
  static const double c[3] = {3.0 / 4, -3.0 / 20, 1.0 / 60};
  for (int i = 0; i < 3; ++i) {
    std::vector<long double> s(nout, 0.0L);
    for (int k = 1; k <= 3; ++k) {
      double dp[3] = {0, 0, 0}; dp[i] = h * k;
      std::vector<double> fp(nout), fm(nout);
      fun(x + dp[0], y + dp[1], z + dp[2], fp.data()); fun(x - dp[0], y - dp[1], z - dp[2], fm.data());
      for (int j = 0; j < nout; ++j) s[j] += (long double)c[k - 1] * ((long double)fp[j] - (long double)fm[j]);
    }
    for (int j = 0; j < nout; ++j) d[i * nout + j] = double(s[j] / h);
  }
}
static void sub_normalgravity(Ctx& ctx, bool T) {
  ctx.sub("normalgravity");
  std::vector<NGP> sets = {
    {"WGS84", Constants::WGS84_a(), Constants::WGS84_GM(), Constants::WGS84_omega(), Constants::WGS84_f(), true},
    {"GRS80-J2", Constants::GRS80_a(), Constants::GRS80_GM(), Constants::GRS80_omega(), Constants::GRS80_J2(), false},
    {"WGS84-omega0", Constants::WGS84_a(), Constants::WGS84_GM(), 0, Constants::WGS84_f(), true},
    {"sphere-rotating", 6378137, 3.986004418e14, 7.292115e-5, 0, true},
    {"sphere-static", 6378137, 3.986004418e14, 0, 0, true},
    {"prolate-1/150", 6378137, 3.986004418e14, 7.292115e-5, -1.0 / 150, true},
    {"prolate-0.1", 6378137, 3.986004418e14, 7.292115e-5, -0.1, true},
    // strongly prolate (f <= -0.1547: e'^2/(1+e'^2)-type arguments >= 1/4, the closed-form branches of Qf/Hf/QH3f for alt = true)
    {"prolate-0.2", 6378137, 3.986004418e14, 7.292115e-5, -0.2, true},
    {"prolate-0.5", 6378137, 3.986004418e14, 7.292115e-5, -0.5, true},
    {"prolate-0.2-fast", 1, 1, 0.3, -0.2, true},
    // strongly oblate (closed-form branches for alt = false)
    {"oblate-0.3", 6378137, 3.986004418e14, 7.292115e-5, 0.3, true},
    {"oblate-0.1", 6378137, 3.986004418e14, 7.292115e-5, 0.1, true},
    {"unit-J2", 1, 1, 0.05, 0.01, false},
  };
  if (T) { sets.push_back({"oblate-0.5", 6378137, 3.986004418e14, 7.292115e-5, 0.5, true}); sets.push_back({"unit-f", 1, 1, 0.3, 0.2, true}); sets.push_back({"J2-jupiter-like", 7.1492e7, 1.26686534e17, 1.7585e-4, 0.014736, false}); }
  ctx.bound("normalgravity.sets", fmti((long long)sets.size()) + " parameter sets (a, GM, omega, f | J2): WGS84, GRS80 (J2), omega = 0, sphere (rotating and not), prolate f = -1/150, -0.1, -0.2, -0.5 (omega != 0, both branches of the auxiliary functions), f = 0.1, 0.3" + (T ? ", 0.5, unit systems, Jupiter-like J2" : ", unit system (J2)") + "; + the static WGS84()/GRS80() objects");
  ctx.bound("normalgravity.points", "U on 50 surface points (25 latitudes x 2 longitudes); gradient and divergence at 6 latitudes x 2 longitudes x heights {0, 1e3, 1e5, 1e7 m}(scaled by a) by 6th-order central differences (h = a/4096) of the library's own U and gamma; Somigliana at 25 latitudes; J_n series at r/a in {1.5, 2, 5}");
  ctx.note("normalgravity tolerances are round-off claims: calibrated on the unchanged tree (>= 4 x worst observed, see worst{normal.*}) and frozen as literals: 32 eps of the magnitudes involved (U: |GM|/b + omega^2 a^2; gamma: |GM|/a^2 + omega^2 a; J2/f: |f| + |J2| + m); gradient by 6th-order differences 1e-11 relative (worst observed 1.4e-12); divergence/curl 2e-11 gamma/a (worst observed 4e-12)");
  const double e = EPS;
  for (size_t is = 0; is < sets.size() + 2; ++is) {
    if (!ctx.take()) continue;
    const bool stat = is >= sets.size();
    const NGP P = stat ? sets[is - sets.size()] : sets[is];                 // static objects correspond to sets 0 and 1
    const std::string name = stat ? std::string(P.name) + "-static-object" : P.name;
    std::unique_ptr<NormalGravity> own;
    const NormalGravity* ngp;
    try {
      if (stat) ngp = (is == sets.size()) ? &NormalGravity::WGS84() : &NormalGravity::GRS80();
      else { own.reset(new NormalGravity(P.a, P.GM, P.omega, P.fJ2, P.geometric)); ngp = own.get(); }
    } catch (const std::exception& ex) { Ctx::Case cas(ctx); ctx.fail("normalgravity " + name, std::string("constructor threw: ") + ex.what(), {{"kind", "ctor"}, {"set", name}}); continue; }
    const NormalGravity& G = *ngp;
    const double f = G.Flattening(), J2 = G.DynamicalFormFactor(), a = P.a, b = a * (1 - f);
    mc::Fields F{{"set", name}, {"shape", f == 0 ? "sphere" : f > 0 ? "oblate" : "prolate"}};
    const bool haveo = true;                                               // closed-form constants: every f (prolate by analytic continuation)
    const bool havef = f >= 0;                                             // closed-form field V0(X,Y,Z): oblate and sphere only
    std::unique_ptr<sph::ng::Ell> ell(new sph::ng::Ell(Q(a), Q(P.GM), Q(P.omega), Q(f)));
    const Q U0 = G.SurfacePotential(), gsc = sph::qabs(Q(P.GM)) / (Q(a) * a) + Q(P.omega) * P.omega * a, usc = sph::qabs(Q(P.GM)) / std::min(a, b) + Q(P.omega) * P.omega * a * a;
    // ---- constants
    {
      Ctx::Case cas(ctx); Fail fl{ctx, "normalgravity " + name + " constants", F};
      double J2c = NormalGravity::FlatteningToJ2(a, P.GM, P.omega, f), fc = NormalGravity::J2ToFlattening(a, P.GM, P.omega, J2);
      Q m = Q(P.omega) * P.omega * a * a * b / P.GM, sc = sph::qabs(Q(f)) + sph::qabs(Q(J2)) + sph::qabs(m);
      fl.num("normal.J2_of_f", "J2-f", "FlatteningToJ2(Flattening()) vs DynamicalFormFactor()", J2c, J2, Q(32 * e) * sc);
      fl.num("normal.f_of_J2", "J2-f", "J2ToFlattening(DynamicalFormFactor()) vs Flattening()", fc, f, Q(32 * e) * sc);
      fl.num("normal.Jn2", "Jn", "Jn(2) vs DynamicalFormFactor()", G.Jn(2), J2, Q(16 * e) * sph::qabs(Q(J2)));
      fl.num("normal.Jn0", "Jn", "Jn(0)", G.Jn(0), -1, 0);
      for (int n : {1, 3, 7}) fl.num("normal.Jnodd", "Jn", "Jn(odd)", G.DynamicalFormFactor(n), 0, 0);
      fl.num("normal.fstar", "fstar", "GravityFlattening vs (gamma_p - gamma_e)/gamma_e", G.GravityFlattening(), (Q(G.PolarGravity()) - G.EquatorialGravity()) / G.EquatorialGravity(), Q(16 * e) * gsc / sph::qabs(Q(G.EquatorialGravity())));
      if (haveo) {
        fl.num("normal.oracle.U0", "oracle", "SurfacePotential vs closed form", G.SurfacePotential(), ell->U0, Q(16 * e) * usc);
        fl.num("normal.oracle.gammae", "oracle", "EquatorialGravity vs closed form", G.EquatorialGravity(), ell->gammae, Q(16 * e) * gsc);
        fl.num("normal.oracle.gammap", "oracle", "PolarGravity vs closed form", G.PolarGravity(), ell->gammap, Q(16 * e) * gsc);
        fl.num("normal.oracle.J2", "oracle", "DynamicalFormFactor vs closed form of Flattening()", J2, ell->J2, Q(32 * e) * sc);
        for (int n = 4; n <= 20; n += 2) {
          Q Jn = ell->Jn(n), mag = 3 * powq(sph::qabs(Q(f) * (2 - Q(f))), n / 2) / (Q(n + 1) * Q(n + 3)) * (Q(n / 2 - 1) + (f != 0 ? 5 * Q(n / 2) * sph::qabs(ell->J2) / sph::qabs(Q(f) * (2 - Q(f))) : Q(0)));
          Fail fj = fl; fj.F.push_back({"n", fmti(n)});
          fj.num("normal.oracle.Jn", "Jn", "DynamicalFormFactor(" + fmti(n) + ") vs H+M 2-92", G.DynamicalFormFactor(n), Jn, Q(32 * e) * mag);
        }
      }
      if (P.geometric && !stat) fl.num("normal.f_roundtrip", "J2-f", "Flattening() vs constructor f", f, P.fJ2, 0);
      if (!P.geometric && !stat) fl.num("normal.J2_roundtrip", "J2-f", "DynamicalFormFactor() vs constructor J2", J2, P.fJ2, 0);
    }
    // ---- J2 <-> f round trip on a lattice of flattenings for this (a, GM, omega)
    if (!stat) for (double ff : {-0.5, -0.1, -1.0 / 150, -1e-10, 0.0, 1e-10, 1 / 298.257223563, 0.01, 0.1, 0.5, 0.9, 0.99}) {
      Ctx::Case cas(ctx); Fail fl{ctx, "normalgravity " + name + " roundtrip f=" + fmt(ff), F};
      fl.F.push_back({"f", fmt(ff)});
      double j = NormalGravity::FlatteningToJ2(a, P.GM, P.omega, ff), f2 = NormalGravity::J2ToFlattening(a, P.GM, P.omega, j);
      Q m = Q(P.omega) * P.omega * a * a * a / P.GM;
      fl.num("normal.roundtrip", "J2-f", "J2ToFlattening(FlatteningToJ2(f))", f2, ff, Q(32 * e) * (sph::qabs(Q(ff)) + sph::qabs(Q(j)) + sph::qabs(m)) / (1 - Q(ff)));
      if (ff < 0.95) { sph::ng::Ell E(Q(a), Q(P.GM), Q(P.omega), Q(ff)); fl.num("normal.oracle.J2_of_f", "oracle", "FlatteningToJ2 vs closed form", j, E.J2, Q(32 * e) * (sph::qabs(Q(ff)) + sph::qabs(E.J2) + sph::qabs(m))); }
    }
    // ---- U constant on the ellipsoid, Somigliana
    for (int il = 0; il <= 24; ++il) {
      Ctx::Case cas(ctx);
      double lat = -90 + 7.5 * il;
      Fail fl{ctx, "normalgravity " + name + " surface lat=" + fmt(lat), F};
      for (double lon : {0.0, 123.0}) {
        sph::Geo g = sph::geodetic(Q(a), Q(f), Q(lat), Q(lon), 0);
        double X = double(g.X), Y = double(g.Y), Z = double(g.Z), gx, gy, gz;
        double U = G.U(X, Y, Z, gx, gy, gz);
        fl.num("normal.U_const_on_ellipsoid", "U-surface", "U(surface point, lon " + fmt(lon) + ") vs SurfacePotential()", U, U0, Q(32 * e) * usc);
        // gravity is normal to the surface
        double gv[3] = {gx, gy, gz}; Q gq[3] = {gx, gy, gz};
        fl.num("normal.gamma_normal", "gamma-normal", "east component of gamma on the surface", double(sph::dot3(gq, g.e)), 0, Q(32 * e) * gsc);
        fl.num("normal.gamma_normal", "gamma-normal", "north component of gamma on the surface", double(sph::dot3(gq, g.n)), 0, Q(32 * e) * gsc);
        fl.num("normal.surface_gravity", "somigliana", "-up component of gamma vs SurfaceGravity", double(-sph::dot3(gq, g.u)), G.SurfaceGravity(lat), Q(32 * e) * gsc);
        (void)gv;
      }
      Q ph = Q(lat) * sph::qpi() / 180, s = (il == 0 ? Q(-1) : il == 24 ? Q(1) : sinq(ph)), c = (il == 0 || il == 24) ? Q(0) : cosq(ph);
      Q som = (Q(a) * G.EquatorialGravity() * c * c + Q(b) * G.PolarGravity() * s * s) / sqrtq(Q(a) * a * c * c + Q(b) * b * s * s);
      fl.num("normal.somigliana", "somigliana", "SurfaceGravity vs Somigliana closed form of gamma_e, gamma_p", G.SurfaceGravity(lat), som, Q(32 * e) * gsc);
      double gy2, gz2, U2 = G.Gravity(lat, 0, gy2, gz2);
      fl.num("normal.gravity_h0", "somigliana", "Gravity(lat, 0) gammaz vs -SurfaceGravity", gz2, -Q(G.SurfaceGravity(lat)), Q(32 * e) * gsc);
      fl.num("normal.gravity_h0", "somigliana", "Gravity(lat, 0) gammay", gy2, 0, Q(32 * e) * gsc);
      fl.num("normal.gravity_h0", "U-surface", "Gravity(lat, 0) U", U2, U0, Q(32 * e) * usc);
      if (haveo) fl.num("normal.oracle.somigliana", "oracle", "SurfaceGravity vs closed form", G.SurfaceGravity(lat), ell->surface_gravity(Q(lat)), Q(32 * e) * gsc);
    }
    // ---- gradient of U = gamma, divergence = 2 omega^2 (0 for V0), by differences of the library's own values
    for (double lat : {-90.0, -45.0, 0.0, 30.0, 60.0, 90.0}) for (double lon : {0.0, 50.0}) for (double hh : {0.0, 1e3, 1e5, 1e7}) {
      Ctx::Case cas(ctx);
      const double h = hh * a / 6378137.0, step = a / 4096;
      Fail fl{ctx, "normalgravity " + name + " lat=" + fmt(lat) + " lon=" + fmt(lon) + " h=" + fmt(h), F};
      sph::Geo g = sph::geodetic(Q(a), Q(f), Q(lat), Q(lon), Q(h));
      double X = double(g.X), Y = double(g.Y), Z = double(g.Z), r = std::sqrt(X * X + Y * Y + Z * Z);
      double gam[3], Gam[3], fX, fY;
      double U = G.U(X, Y, Z, gam[0], gam[1], gam[2]), V0 = G.V0(X, Y, Z, Gam[0], Gam[1], Gam[2]), Phi = G.Phi(X, Y, fX, fY);
      fl.num("normal.U_is_V0_plus_Phi", "U-sum", "U - (V0 + Phi)", U - (V0 + Phi), 0, Q(8 * e) * usc);
      fl.num("normal.U_is_V0_plus_Phi", "U-sum", "gammaX - (GammaX + fX)", gam[0] - (Gam[0] + fX), 0, Q(8 * e) * gsc);
      fl.num("normal.U_is_V0_plus_Phi", "U-sum", "gammaY - (GammaY + fY)", gam[1] - (Gam[1] + fY), 0, Q(8 * e) * gsc);
      fl.num("normal.U_is_V0_plus_Phi", "U-sum", "gammaZ - GammaZ", gam[2] - Gam[2], 0, Q(8 * e) * gsc);
      double dU[3], dG[9], dV[9];
      fd6([&](double x, double y, double z, double* o) { double t1, t2, t3; o[0] = G.U(x, y, z, t1, t2, t3); }, 1, X, Y, Z, step, dU);
      fd6([&](double x, double y, double z, double* o) { G.U(x, y, z, o[0], o[1], o[2]); }, 3, X, Y, Z, step, dG);
      fd6([&](double x, double y, double z, double* o) { G.V0(x, y, z, o[0], o[1], o[2]); }, 3, X, Y, Z, step, dV);
      Q gm = sqrtq(Q(gam[0]) * gam[0] + Q(gam[1]) * gam[1] + Q(gam[2]) * gam[2]);
      Q gtol = Q(1e-11) * gsc * (Q(a) / r) + Q(1e-11) * gm;
      for (int i = 0; i < 3; ++i) fl.num("normal.gradU_is_gamma", "gradient", std::string("dU/d") + "XYZ"[i] + " by differences vs gamma", dU[i], gam[i], gtol);
      Q dtol = Q(2e-11) * (gsc / a);
      fl.num("normal.div_gamma", "laplacian", "div gamma vs 2 omega^2", dG[0] + dG[4] + dG[8], 2 * Q(P.omega) * P.omega, dtol);
      fl.num("normal.div_Gamma", "laplacian", "div Gamma (V0 harmonic)", dV[0] + dV[4] + dV[8], 0, dtol);
      // the gradient is symmetric (curl-free)
      fl.num("normal.curl", "laplacian", "d gammaX/dZ - d gammaZ/dX", dG[2 * 3 + 0] - dG[0 * 3 + 2], 0, dtol);
      if (havef) {
        Q Uq = ell->U(Q(X), Q(Y), Q(Z)), gq[3];
        sph::grad_fd8([&](Q x, Q y, Q z) { return ell->U(x, y, z); }, Q(X), Q(Y), Q(Z), Q(r) * Q(1e-5), gq);
        fl.num("normal.oracle.U", "oracle", "U vs closed form (float128)", U, Uq, Q(32 * e) * usc);
        for (int i = 0; i < 3; ++i) fl.num("normal.oracle.gamma", "oracle", std::string("gamma") + "XYZ"[i] + " vs gradient of the closed form", gam[i], gq[i], Q(32 * e) * gsc);
      }
      double gy2, gz2, U2 = G.Gravity(lat, h, gy2, gz2); Q gq2[3] = {gam[0], gam[1], gam[2]};
      fl.num("normal.gravity_latlon", "gravity-enu", "Gravity(lat,h) U", U2, U, Q(16 * e) * usc);
      fl.num("normal.gravity_latlon", "gravity-enu", "Gravity(lat,h) gammay vs north component", gy2, sph::dot3(gq2, g.n), Q(32 * e) * gsc);
      fl.num("normal.gravity_latlon", "gravity-enu", "Gravity(lat,h) gammaz vs up component", gz2, sph::dot3(gq2, g.u), Q(32 * e) * gsc);
      if (ctx.want_sample()) ctx.sample(fl.key);
    }
    // ---- zonal series with the library's own J_n reproduces the closed-form V0
    for (double rr : {1.5, 2.0, 5.0}) for (double lat : {0.0, 45.0, 90.0}) {
      Ctx::Case cas(ctx);
      Fail fl{ctx, "normalgravity " + name + " series r/a=" + fmt(rr) + " lat=" + fmt(lat), F};
      sph::Geo g = sph::geodetic(Q(std::max(a, b)), 0, Q(lat), Q(10), Q((rr - 1) * std::max(a, b)));
      double X = double(g.X), Y = double(g.Y), Z = double(g.Z), t1, t2, t3;
      Q r = sqrtq(Q(X) * X + Q(Y) * Y + Q(Z) * Z), t = Q(Z) / r, s = 1, mag = 1, Pm2 = 1, Pm1 = t;
      bool nan = false;
      for (int n = 2; n <= 60; ++n) {
        Q Pn = (Q(2 * n - 1) * t * Pm1 - Q(n - 1) * Pm2) / Q(n);
        if (!(n & 1)) { double jn = G.DynamicalFormFactor(n); if (!(jn == jn)) nan = true; Q term = Q(jn) * powq(Q(a) / r, n) * Pn; s -= term; mag += sph::qabs(term); }
        Pm2 = Pm1; Pm1 = Pn;
      }
      double V0 = G.V0(X, Y, Z, t1, t2, t3);
      if (nan) ctx.fail(fl.key, "DynamicalFormFactor(n) is NaN for some even n <= 60 (the zonal coefficients of this ellipsoid are finite)", fl.with("Jn-nan"));
      else fl.num("normal.Jn_series", "Jn-series", "V0 vs GM/r (1 - sum J_n (a/r)^n P_n), library J_n", V0, Q(P.GM) / r * s, Q(32 * e) * sph::qabs(Q(P.GM)) / r * mag);
    }
  }
}

// ================================================================================================== file-format corner cases
// gravity: correction block {empty (N = M = -1), one zero coefficient (0,0), degree 1, degree 2} x HeightOffset {0, -0.53, 1.25}
// x CorrectionMultiplier {1, 0.01, 1000} x Normalization {full, schmidt} x constructor truncation {none, (1,-1)}:
// GeoidHeight of GravityModel and GravityCircle against the reference (T/gamma0 + CorrectionMultiplier * correction sum +
// HeightOffset, all from the file's numbers), plus the differential predicates
//   empty block == single-zero-coefficient block (bitwise),   GeoidHeight(offset) - GeoidHeight(offset = 0) = offset.
static void sub_gravity_corners(Ctx& ctx, bool T) {
  ctx.sub("gravity-corners");
  const double Z0[3] = {0, -0.53, 1.25}, CM[3] = {1, 0.01, 1000};
  const int TRC[2][2] = {{-1, -1}, {1, -1}};
  const double PTS[4][2] = {{90, 0}, {-33.25, 77.5}, {0, 180}, {-90, -120}};
  const int NP = T ? 4 : 3;
  ctx.bound("gravity-corners", "correction block in {empty (-1,-1), single zero coefficient (0,0), degree 1, degree 2} x HeightOffset in {0,-0.53,1.25} x CorrectionMultiplier in {1,0.01,1000} x Normalization in {full,schmidt} x truncation in {none,(1,-1)} = 144 generated files; GeoidHeight of GravityModel and of GravityCircle (caps GEOID_HEIGHT and ALL) at " + fmti(NP) + " points incl. the poles; oracle + empty == zero block (bitwise) + N(offset) - N(0) = offset");
  for (int norm = 0; norm < 2; ++norm) for (int im = 0; im < 3; ++im) for (int itr = 0; itr < 2; ++itr) {
    if (!ctx.take()) continue;
    double val[4][3][4][3];                                  // [block][offset][point][api]
    bool have[4][3] = {{false}};
    for (int cb = 0; cb < 4; ++cb) for (int iz = 0; iz < 3; ++iz) {
      GravSpec gs = make_grav(0);
      gs.norm = norm; gs.normkey = true;
      if (norm == sph::SCHMIDT) for (int m = 0; m <= gs.grav.M; ++m) for (int n = m; n <= gs.grav.N; ++n) { double nf = std::sqrt(2.0 * n + 1); gs.grav.C[gs.grav.ci(n, m)] *= nf; if (m) gs.grav.S[gs.grav.si(n, m)] *= nf; }
      gs.name = std::string("c") + fmti(cb) + fmti(iz) + fmti(im) + fmti(norm) + fmti(itr);
      gs.corr = cb == 0 ? CSet(-1, -1) : cb == 1 ? CSet(0, 0) : CSet(cb - 1, cb - 1);
      if (cb >= 2) gs.corr.fill(cb + 3, 0.1, 1);
      gs.zeta0 = Z0[iz]; gs.zkey = true; gs.corrmult = CM[im]; gs.ckey = true;
      write_grav(gs);
      GravCtx gc; gc.g = &gs; gc.Nt = TRC[itr][0]; gc.Mt = TRC[itr][1];
      trunc_of(gs.grav, gc.Nt, gc.Mt, gc.nmx, gc.mmx); trunc_of(gs.corr, gc.Nt, gc.Mt, gc.cn, gc.cm);
      gc.fref = Q(gs.fJ2); gc.ell.reset(new sph::ng::Ell(Q(gs.aref), Q(gs.GMref), Q(gs.omega), gc.fref));
      static const char* CBN[4] = {"empty", "zero", "deg1", "deg2"};
      std::string vkey = std::string("gravity-corners block=") + CBN[cb] + " HeightOffset=" + fmt(gs.zeta0) + " CorrectionMultiplier=" + fmt(gs.corrmult) + " norm=" + (norm ? "schmidt" : "full") + " trunc=" + fmti(gc.Nt) + "," + fmti(gc.Mt);
      mc::Fields F{{"block", CBN[cb]}, {"offset", fmt(gs.zeta0)}, {"multiplier", fmt(gs.corrmult)}, {"norm", norm ? "SCHMIDT" : "FULL"}};
      std::unique_ptr<GravityModel> gm;
      try { if (itr == 0) gm.reset(new GravityModel(gs.name, datadir() + "/gravity")); else gm.reset(new GravityModel(gs.name, datadir() + "/gravity", gc.Nt, gc.Mt)); }
      catch (const std::exception& e) { Ctx::Case cas(ctx); mc::Fields g = F; g.push_back({"kind", "load"}); ctx.fail(vkey, std::string("well-formed model file rejected: ") + e.what(), g); continue; }
      have[cb][iz] = true;
      for (int ip = 0; ip < NP; ++ip) {
        Ctx::Case cas(ctx);
        const double lat = PTS[ip][0], lon = PTS[ip][1];
        ctx.sig((uint64_t)(cb * 100 + iz * 10 + im) * 4 + norm * 2 + itr);
        Fail fl{ctx, vkey + " lat=" + fmt(lat) + " lon=" + fmt(lon), F};
        sph::Geo g0 = sph::geodetic(Q(gs.aref), gc.fref, Q(lat), Q(lon), Q(0));
        GravRef r0 = grav_ref(gc, g0.X, g0.Y, g0.Z, false);
        Q R = r0.R, pe = Q(2 * EPS) * R;
        sph::Sum cs = qsum(gs.norm, Q(1), std::max(gc.cn, 0), std::max(gc.cm, 0), g0.X / R, g0.Y / R, g0.Z / R, [&](int n, int m, Q& C, Q& S, Q& aC, Q& aS) {
          C = gs.corr.c(n, m); S = gs.corr.s(n, m); aC = sph::qabs(C); aS = sph::qabs(S); });
        Q gamma0 = gc.ell->surface_gravity(Q(lat));
        Q Nref = r0.Tp.v / gamma0 + Q(gs.corrmult) * cs.v + Q(gs.zeta0);
        Q Ntol = (tol_v(r0.Tp) + pe * r0.Tp.sg) / gamma0 + Q(8 * EPS) * sph::qabs(r0.Tp.v / gamma0) + Q(gs.corrmult) * (tol_v(cs) + Q(8 * EPS) * cs.sg) + Q(8 * EPS) * (sph::qabs(Q(gs.zeta0)) + Q(gs.corrmult) * cs.sv);
        double v0 = gm->GeoidHeight(lat, lon);
        GravityCircle c1 = gm->Circle(lat, 0, GravityModel::GEOID_HEIGHT), c2 = gm->Circle(lat, 0, GravityModel::ALL);
        double v1 = c1.GeoidHeight(lon), v2 = c2.GeoidHeight(lon);
        fl.num("gravity-corners.geoidheight", "geoid", "GravityModel::GeoidHeight", v0, Nref, Ntol);
        fl.num("gravity-corners.geoidheight", "circle-geoid", "GravityCircle(GEOID_HEIGHT)::GeoidHeight", v1, Nref, Ntol);
        fl.num("gravity-corners.geoidheight", "circle-geoid", "GravityCircle(ALL)::GeoidHeight", v2, Nref, Ntol);
        val[cb][iz][ip][0] = v0; val[cb][iz][ip][1] = v1; val[cb][iz][ip][2] = v2;
        // N(offset) - N(0) = offset
        if (iz > 0 && have[cb][0]) for (int k = 0; k < 3; ++k) {
          double d = val[cb][iz][ip][k] - val[cb][0][ip][k];
          Q scale = sph::qabs(Q(val[cb][iz][ip][k])) + sph::qabs(Q(val[cb][0][ip][k])) + sph::qabs(Q(gs.zeta0));
          fl.num("gravity-corners.offset_difference", "offset-difference", std::string("GeoidHeight(HeightOffset) - GeoidHeight(0), api ") + fmti(k), d, Q(gs.zeta0), Q(8 * EPS) * scale);
        }
        // empty block == one zero coefficient
        if (cb == 1 && have[0][iz]) for (int k = 0; k < 3; ++k)
          if (!mc::same_bits(val[1][iz][ip][k], val[0][iz][ip][k]))
            ctx.fail(fl.key + " empty-vs-zero api " + fmti(k), "GeoidHeight with an empty correction block = " + fx(val[0][iz][ip][k]) + " but with a single zero coefficient = " + fx(val[1][iz][ip][k]), fl.with("empty-vs-zero"));
        if (ctx.want_sample()) ctx.sample(fl.key);
      }
    }
  }
}

// magnetic: constant block {absent (NumConstants 0), empty (-1,-1), single zero (0,0), zero block of degree 2} x secular-variation
// block {generic, empty (-1,-1), single zero (0,0)} x NumModels {1,2} x Normalization x truncation {none,(2,1)}: oracle + all
// constant-block variants give bitwise the same field; empty and zero secular variation give bitwise the same field and a zero rate
// (NumModels = 1).
static void sub_magnetic_corners(Ctx& ctx, bool T) {
  ctx.sub("magnetic-corners");
  ctx.bound("magnetic-corners", "constant block in {absent, empty (-1,-1), zero (0,0), zero (2,2)} x secular-variation block in {generic, empty (-1,-1), zero (0,0)} x NumModels in {1,2} x Normalization in {schmidt, full} x truncation in {none,(2,1)} = 96 generated files; FieldGeocentric at 3 points, operator() and Circle at 2 points, 3 times; oracle + bitwise equality across the constant-block variants and between empty and zero secular variation");
  const int TRC[2][2] = {{-1, -1}, {2, 1}};
  const double times[3] = {2015.5, 2021.3, 2031};
  const double GP[3][3] = {{0, 0, 6.4e6}, {-3.1e6, 4.2e6, 3.9e6}, {1e6, -2e6, 2.5e6}};
  const double LL[2][3] = {{33, 77.3, 1000}, {-90, 180, 0}};
  for (int NM = 1; NM <= 2; ++NM) for (int norm = 0; norm < 2; ++norm) for (int itr = 0; itr < 2; ++itr) {
    if (!ctx.take()) continue;
    std::vector<double> res[3][4];                             // [sv][const]
    for (int sv = 0; sv < 3; ++sv) for (int cb = 0; cb < 4; ++cb) {
      MagSpec ms = make_mag(NM, cb ? 1 : 0, norm, true);
      ms.name = std::string("k") + fmti(NM) + fmti(sv) + fmti(cb) + fmti(norm) + fmti(itr);
      if (sv) ms.sets[NM] = sv == 1 ? CSet(-1, -1) : CSet(0, 0);
      if (cb) ms.sets[NM + 1] = cb == 1 ? CSet(-1, -1) : cb == 2 ? CSet(0, 0) : CSet(2, 2);
      write_mag(ms);
      const int Nt = TRC[itr][0], Mt = TRC[itr][1];
      static const char* SVN[3] = {"generic", "empty", "zero"}; static const char* CBN[4] = {"absent", "empty", "zero00", "zero22"};
      std::string vkey = std::string("magnetic-corners NumModels=") + fmti(NM) + " secular=" + SVN[sv] + " constant=" + CBN[cb] + " norm=" + (norm == sph::FULL ? "full" : "schmidt") + " trunc=" + fmti(Nt) + "," + fmti(Mt);
      mc::Fields F{{"NumModels", fmti(NM)}, {"secular", SVN[sv]}, {"constant", CBN[cb]}, {"norm", norm == sph::FULL ? "FULL" : "SCHMIDT"}};
      std::unique_ptr<MagneticModel> mm;
      try { if (itr == 0) mm.reset(new MagneticModel(ms.name, datadir() + "/magnetic")); else mm.reset(new MagneticModel(ms.name, datadir() + "/magnetic", Geocentric::WGS84(), Nt, Mt)); }
      catch (const std::exception& e) { Ctx::Case cas(ctx); mc::Fields g = F; g.push_back({"kind", "load"}); ctx.fail(vkey, std::string("well-formed model file rejected: ") + e.what(), g); continue; }
      const MagneticModel& M = *mm;
      std::vector<double>& out = res[sv][cb];
      for (double t : times) {
        Ctx::Case cas(ctx);
        ctx.sig((uint64_t)((NM * 3 + sv) * 4 + cb) * 4 + norm * 2 + itr);
        for (auto& gp : GP) {
          Fail fl{ctx, vkey + " t=" + fmt(t) + " XYZ=" + fmt(gp[0]) + "," + fmt(gp[1]) + "," + fmt(gp[2]), F};
          MagRef ref = mag_ref(ms, Nt, Mt, t, Q(gp[0]), Q(gp[1]), Q(gp[2]));
          double B[3] = {SENT, SENT, SENT}, Bt[3] = {SENT, SENT, SENT};
          if (!safe(fl, [&] { M.FieldGeocentric(t, gp[0], gp[1], gp[2], B[0], B[1], B[2], Bt[0], Bt[1], Bt[2]); })) continue;
          fl.vec("magnetic-corners.geocentric.B", "field", "FieldGeocentric B", B, ref.B);
          fl.vec("magnetic-corners.geocentric.Bt", "rate", "FieldGeocentric dB/dt", Bt, ref.Bt);
          for (int i = 0; i < 3; ++i) { out.push_back(B[i]); out.push_back(Bt[i]); }
          if (NM == 1 && sv > 0) for (int i = 0; i < 3; ++i) if (Bt[i] != 0) { ctx.fail(fl.key + " zero-rate", "rate of a single-epoch model without secular variation is " + fx(Bt[i]), fl.with("rate")); break; }
        }
        for (auto& ll : LL) {
          Fail fl{ctx, vkey + " t=" + fmt(t) + " lat=" + fmt(ll[0]) + " lon=" + fmt(ll[1]) + " h=" + fmt(ll[2]), F};
          sph::Geo g = sph::geodetic(Q(Constants::WGS84_a()), Q(Constants::WGS84_f()), Q(ll[0]), Q(ll[1]), Q(ll[2]));
          MagRef ref = mag_ref(ms, Nt, Mt, t, g.X, g.Y, g.Z);
          Q R = sqrtq(g.X * g.X + g.Y * g.Y + g.Z * g.Z), posB = Q(2 * EPS) * R * ref.B.sh, posBt = Q(2 * EPS) * R * ref.Bt.sh;
          sph::Sum rB = rotate(ref.B, g.e, g.n, g.u), rBt = rotate(ref.Bt, g.e, g.n, g.u);
          double b[3] = {SENT, SENT, SENT}, bt[3] = {SENT, SENT, SENT}, c[3] = {SENT, SENT, SENT}, ct[3] = {SENT, SENT, SENT};
          if (!safe(fl, [&] { M(t, ll[0], ll[1], ll[2], b[0], b[1], b[2], bt[0], bt[1], bt[2]); MagneticCircle mc_ = M.Circle(t, ll[0], ll[2]); mc_(ll[1], c[0], c[1], c[2], ct[0], ct[1], ct[2]); })) continue;
          fl.vec("magnetic-corners.enu.B", "field-enu", "operator() B", b, rB, 2 * posB);
          fl.vec("magnetic-corners.enu.Bt", "rate-enu", "operator() dB/dt", bt, rBt, 2 * posBt);
          fl.vec("magnetic-corners.circle.B", "circle-field", "MagneticCircle B", c, rB, 2 * posB);
          fl.vec("magnetic-corners.circle.Bt", "circle-rate", "MagneticCircle dB/dt", ct, rBt, 2 * posBt);
          for (int i = 0; i < 3; ++i) { out.push_back(b[i]); out.push_back(bt[i]); out.push_back(c[i]); out.push_back(ct[i]); }
        }
      }
      // differential predicates (values that are zero may differ in sign: compare with ==)
      auto same = [](const std::vector<double>& a, const std::vector<double>& b) { if (a.size() != b.size()) return -2; for (size_t i = 0; i < a.size(); ++i) if (!(mc::same_bits(a[i], b[i]) || (a[i] == 0 && b[i] == 0))) return (int)i; return -1; };
      Ctx::Case cas(ctx);
      if (cb > 0 && !res[sv][0].empty()) {
        int d = same(out, res[sv][0]);
        if (d != -1) { mc::Fields g = F; g.push_back({"kind", "zero-constant-differs"}); ctx.fail(vkey + " vs constant=absent", "a model with a zero/empty constant block gives a different field than the same model without one (result #" + fmti(d) + ": " + (d >= 0 ? fx(out[d]) + " vs " + fx(res[sv][0][d]) : std::string("missing")) + ")", g); }
      }
      if (sv == 2 && !res[1][cb].empty()) {
        int d = same(out, res[1][cb]);
        if (d != -1) { mc::Fields g = F; g.push_back({"kind", "empty-vs-zero"}); ctx.fail(vkey + " vs secular=empty", "zero and empty secular-variation blocks give different fields (result #" + fmti(d) + ")", g); }
      }
    }
  }
}

int main(int argc, char** argv) {
  Ctx ctx(argc, argv);
  const bool T = ctx.thorough();
  atexit(cleanup);
  { struct rlimit rl; rl.rlim_cur = rl.rlim_max = rlim_t(6) << 30; setrlimit(RLIMIT_AS, &rl); }   // a wild allocation becomes bad_alloc, not an OOM kill
  ctx.note("models are loaded from files generated by the harness (documented WMMF/EGMF formats); a unit of work writes, loads and removes its own files");
  sub_magnetic(ctx, T);
  sub_components(ctx, T);
  sub_gravity(ctx, T);
  sub_gravity_corners(ctx, T);
  sub_magnetic_corners(ctx, T);
  sub_normalgravity(ctx, T);
  int rc = ctx.finish();
  cleanup();
  return rc;
}
