// C19 part 1 -- spherical harmonic sums (SphericalHarmonic, SphericalHarmonic1, SphericalHarmonic2, CircularEngine)
// equal their defining series; the gradient is the spatial derivative; circle evaluation equals direct evaluation.
//
// Engine E1 (exhaustive lattices).  Reference: oracle/sph_sum.hpp -- the double sum of SphericalHarmonic.hpp evaluated
// term by term in __float128 from the definition of the Ferrers functions, analytic Cartesian gradient (self-checked
// against boost::math::legendre_p, closed forms, the addition theorem and finite differences by bin/check --setup).
//
// Deciding step: the sum is linear in the coefficients, so enumerating EVERY unit coefficient vector (every (n,m),
// C and S) of every storage layout N' <= Nmax, under every truncation (nmx <= N', mmx <= nmx, and the empty sum
// nmx = mmx = -1), for both normalisations, at every point of the point lattice, decides every coefficient set up
// to linearity; linearity itself is checked on dense vectors (subcheck "linearity").  Nothing is sampled.
//
// Tolerance (DESIGN Appendix B): |value error| <= 64 eps * sum|terms|, |gradient error| <= 64 eps * sum|gradient
// pieces| (>= sum n|terms|/r), where a "term" is the (n,m) term of the defining series without its trigonometric
// factor.  Added floor eps^1.5 * sum q^(n+1) sup|P[n,m]| (n+1)^2 (|C|+|S|): the library deliberately moves points
// with sin(theta) < eps^1.5 off the polar axis, which changes terms that vanish on the axis by that relative amount.
#include "mc/ctx.hpp"
#include "oracle/sph_sum.hpp"
#include "oracle/sph_tol.hpp"
#include <GeographicLib/SphericalHarmonic.hpp>
#include <GeographicLib/SphericalHarmonic1.hpp>
#include <GeographicLib/SphericalHarmonic2.hpp>
#include <GeographicLib/CircularEngine.hpp>
#include <string>
#include <vector>
#include <functional>

using namespace GeographicLib;
using mc::Ctx; using mc::fx; using mc::fmt; using mc::fmti;
using sph::Q;
using namespace sphtol;

static const double SENT = -12345.678;

// ---------------------------------------------------------------- coefficient storage (documented column-major layout)
struct Lay {
  int N; std::vector<double> C, S;
  explicit Lay(int N_) : N(N_), C(size_t((N_ + 1) * (N_ + 2) / 2), 0.0), S(size_t(N_ * (N_ + 1) / 2), 0.0) {}
  int ci(int n, int m) const { return m * N - m * (m - 1) / 2 + n; }
  int si(int n, int m) const { return ci(n, m) - (N + 1); }
  double c(int n, int m) const { return (n <= N && m <= n) ? C[ci(n, m)] : 0; }
  double s(int n, int m) const { return (n <= N && m <= n && m > 0) ? S[si(n, m)] : 0; }
  void fill(int salt, double decay) {          // deterministic dense pattern
    for (int n = 0; n <= N; ++n) for (int m = 0; m <= n; ++m) {
      double d = decay == 0 ? 1 : std::pow(n + 1.0, -decay);
      C[ci(n, m)] = ((n * 7 + m * 13 + salt * 5) % 23 - 11) / 8.0 * d;
      if (m) S[si(n, m)] = ((n * 5 + m * 11 + salt * 3) % 19 - 9) / 8.0 * d;
    }
  }
};

// ---------------------------------------------------------------- points
struct Dir { const char* name; double sx, sy, sz; int cls; };     // unit-ish direction; cls: 0 generic 1 pole 2 equator 3 near-pole
static std::vector<Dir> directions(bool all) {
  std::vector<Dir> d;
  d.push_back({"pole+", 0, 0, 1, 1});
  d.push_back({"pole-", 0, 0, -1, 1});
  d.push_back({"equator-lon0", 1, 0, 0, 2});
  d.push_back({"equator-lon131", std::cos(131 * M_PI / 180), std::sin(131 * M_PI / 180), 0, 2});
  const double g[6][2] = {{10, 12}, {35.3, 73}, {77, 131}, {100.1, -160}, {143, -95}, {171, -21}};     // colatitude, longitude (deg)
  static char names[6][24];
  for (int i = 0; i < 6; ++i) {
    double th = g[i][0] * M_PI / 180, la = g[i][1] * M_PI / 180;
    snprintf(names[i], sizeof names[i], "colat%g-lon%g", g[i][0], g[i][1]);
    d.push_back({names[i], std::sin(th) * std::cos(la), std::sin(th) * std::sin(la), std::cos(th), 0});
  }
  d.push_back({"nearpole-1e-10", 0.6e-10, -0.8e-10, 1, 3});
  d.push_back({"nearpole-1e-30", 1e-30, 0, -1, 3});
  if (all) {
    d.push_back({"lon45-colat60", std::sin(M_PI / 3) * std::sqrt(0.5), std::sin(M_PI / 3) * std::sqrt(0.5), 0.5, 0});
    d.push_back({"y-axis", 0, 1, 0, 2});
    d.push_back({"neg-x-axis", -1, 0, 0, 2});
  }
  return d;
}

// The library classes under one interface: value, value+gradient, circle
struct Harm {
  std::function<double(double, double, double)> v;
  std::function<double(double, double, double, double&, double&, double&)> vg;
  std::function<CircularEngine(double, double, bool)> circ;
};
static Harm wrap(const SphericalHarmonic& h) {
  return {[h](double x, double y, double z) { return h(x, y, z); },
          [h](double x, double y, double z, double& gx, double& gy, double& gz) { return h(x, y, z, gx, gy, gz); },
          [h](double p, double z, bool g) { return h.Circle(p, z, g); }};
}
static Harm wrap(const SphericalHarmonic1& h, double tau) {
  return {[h, tau](double x, double y, double z) { return h(tau, x, y, z); },
          [h, tau](double x, double y, double z, double& gx, double& gy, double& gz) { return h(tau, x, y, z, gx, gy, gz); },
          [h, tau](double p, double z, bool g) { return h.Circle(tau, p, z, g); }};
}
static Harm wrap(const SphericalHarmonic2& h, double t1, double t2) {
  return {[h, t1, t2](double x, double y, double z) { return h(t1, t2, x, y, z); },
          [h, t1, t2](double x, double y, double z, double& gx, double& gy, double& gz) { return h(t1, t2, x, y, z, gx, gy, gz); },
          [h, t1, t2](double p, double z, bool g) { return h.Circle(t1, t2, p, z, g); }};
}

static const double LONS[6] = {0, 1e-9, 45, 180, -90, 720};
static void lon_sincos(double lon, Q& s, Q& c) {
  if (lon == 0 || lon == 720) { s = 0; c = 1; } else if (lon == 180) { s = 0; c = -1; } else if (lon == -90) { s = -1; c = 0; }
  else if (lon == 45) { s = c = sqrtq(Q(0.5)); } else { Q l = Q(lon) * sph::qpi() / 180; s = sinq(l); c = cosq(l); }
}

// Direct evaluation at (x,y,z) against a reference sum: both call forms.  Returns false after reporting a failure.
static void check_direct(Ctx& ctx, const std::string& pre, const Harm& h, double x, double y, double z, const sph::Sum& ref,
                         const std::string& key, const mc::Fields& F) {
  auto FF = [&](const char* kind) { mc::Fields g = F; g.push_back({"kind", kind}); return g; };
  double v1 = h.v(x, y, z);
  double g[3] = {SENT, SENT, SENT};
  double v2 = h.vg(x, y, z, g[0], g[1], g[2]);
  Ratio a = rat_v(v1, ref), b = rat_v(v2, ref), c = rat_g(g, ref);
  ctx.worstf(pre + ".value.err_over_tol", std::max(a.r, b.r), [&] { return key; });
  ctx.worstf(pre + ".value.err_in_eps_sumterms", std::max(a.in_eps, b.in_eps), [&] { return key; });
  ctx.worstf(pre + ".gradient.err_over_tol", c.r, [&] { return key; });
  ctx.worstf(pre + ".gradient.err_in_eps_sumterms", c.in_eps, [&] { return key; });
  if (!(a.r <= 1)) ctx.fail(key + " value", "V = " + fx(v1) + " but the defining sum is " + sph::qstr(ref.v) + " (sum|terms| " + sph::qstr(ref.sv, 6) + ", err/tol " + fmt(a.r) + ")", FF("value"));
  else if (!(b.r <= 1)) ctx.fail(key + " value(grad call)", "V = " + fx(v2) + " (gradient overload) but the defining sum is " + sph::qstr(ref.v) + ", err/tol " + fmt(b.r), FF("value"));
  if (!(c.r <= 1)) ctx.fail(key + " gradient", "grad = " + d3(g) + " but the derivative of the defining sum is " + q3(ref.g) + " (scale " + sph::qstr(ref.sg, 6) + ", err/tol " + fmt(c.r) + ")", FF("gradient"));
}

// Circle(p, z, gradp) evaluated at the lattice of longitudes against reference sums at the exact points, and against the
// library's own direct evaluation.
static void check_circle(Ctx& ctx, const std::string& pre, const Harm& h, double p, double z, int nl, const sph::Sum* refs /* [nl] */,
                         const std::string& key0, const mc::Fields& F, bool vs_direct) {
  auto FF = [&](const char* kind) { mc::Fields g = F; g.push_back({"kind", kind}); return g; };
  double r = std::hypot(p, z);
  for (int gp = 0; gp < 2; ++gp) {
    CircularEngine c = h.circ(p, z, gp != 0);
    for (int il = 0; il < nl; ++il) {
      const sph::Sum& ref = refs[il];
      double lon = LONS[il];
      std::string key = key0 + " lon=" + fmt(lon) + " gradp=" + fmti(gp);
      // rounding of sin/cos(lon) moves the point by up to ~eps r (not for the longitudes whose sine and cosine are exact)
      const bool exactlon = (lon == 0 || lon == 180 || lon == -90 || lon == 720);
      Q posv = exactlon ? Q(0) : Q(4 * EPS * r) * ref.sg, posg = exactlon ? Q(0) : Q(4 * EPS * r) * ref.sh;
      double sl, cl; Math::sincosd(lon, sl, cl);
      double v1 = c(lon), v2 = c(sl, cl);
      double g[3] = {SENT, SENT, SENT}, g2[3] = {SENT, SENT, SENT};
      double v3 = c(lon, g[0], g[1], g[2]), v4 = c(sl, cl, g2[0], g2[1], g2[2]);
      double worstv = 0, worste = 0;
      for (double v : {v1, v2, v3, v4}) { Ratio a = rat_v(v, ref, posv); worstv = std::max(worstv, a.r); worste = std::max(worste, a.in_eps); if (!(a.r <= 1)) worstv = INFINITY; }
      ctx.worstf(pre + ".value.err_over_tol", worstv, [&] { return key; });
      ctx.worstf(pre + ".value.err_in_eps_sumterms", worste, [&] { return key; });
      if (!(worstv <= 1)) { ctx.fail(key + " value", "circle values " + fx(v1) + ", " + fmt(v2) + ", " + fmt(v3) + ", " + fmt(v4) + " but the defining sum is " + sph::qstr(ref.v) + " (sum|terms| " + sph::qstr(ref.sv, 6) + ")", FF("circle-value")); continue; }
      if (gp) {
        Ratio a = rat_g(g, ref, posg), b = rat_g(g2, ref, posg);
        ctx.worstf(pre + ".gradient.err_over_tol", std::max(a.r, b.r), [&] { return key; });
        ctx.worstf(pre + ".gradient.err_in_eps_sumterms", std::max(a.in_eps, b.in_eps), [&] { return key; });
        if (!(a.r <= 1) || !(b.r <= 1)) ctx.fail(key + " gradient", "circle gradient " + d3(g) + " / " + d3(g2) + " but the derivative of the defining sum is " + q3(ref.g), FF("circle-gradient"));
      } else {
        // documented: a circle created without gradient capability does not touch the gradient arguments
        for (int i = 0; i < 3; ++i) if (g[i] != SENT || g2[i] != SENT) { ctx.fail(key + " untouched", "gradient arguments modified by a circle created with gradp = false", FF("circle-touched")); break; }
      }
      if (vs_direct) {
        // the property's own wording: circle == direct evaluation at that longitude (direct call at the rounded point)
        double x = p * cl, y = p * sl, d[3];
        double vd = h.vg(x, y, z, d[0], d[1], d[2]);
        Q tolv = 2 * tol_v(ref, posv), tolg = 2 * tol_g(ref, posg);
        double e = double(sph::qabs(Q(v3) - Q(vd)) / (tolv > 0 ? tolv : Q(1e-300)));
        if (tolv == 0) e = (v3 == vd) ? 0 : INFINITY;
        ctx.worstf(pre + ".vs_direct.value.err_over_tol", e, [&] { return key; });
        if (!(e <= 1)) ctx.fail(key + " vs-direct", "circle value " + fx(v3) + " differs from direct evaluation " + fx(vd), FF("circle-vs-direct"));
        if (gp) for (int i = 0; i < 3; ++i) {
          double eg = tolg > 0 ? double(sph::qabs(Q(g[i]) - Q(d[i])) / tolg) : (g[i] == d[i] ? 0 : INFINITY);
          ctx.worstf(pre + ".vs_direct.gradient.err_over_tol", eg, [&] { return key; });
          if (!(eg <= 1)) { ctx.fail(key + " vs-direct-gradient", "circle gradient " + d3(g) + " differs from direct evaluation " + d3(d), FF("circle-vs-direct")); break; }
        }
      }
    }
  }
}

// reference sum for a coefficient provider on a precomputed table
template <class CF> static sph::Sum table_sum(const sph::Table& T, int nmx, int mmx, CF coef) {
  sph::Sum s;
  for (int n = 0; n <= nmx; ++n) for (int m = 0; m <= std::min(n, mmx); ++m) {
    double C = 0, S = 0, aC = 0, aS = 0; coef(n, m, C, S, aC, aS);
    s.add(T.at(n, m), Q(C), Q(S), Q(aC), Q(aS), T.r);
  }
  return s;
}

int main(int argc, char** argv) {
  Ctx ctx(argc, argv);
  const bool T = ctx.thorough();
  const int NB = T ? 6 : 4;
  const double AS[2] = {1.0, 6371200.0};
  const double RS[4] = {0.5, 1.0, 2.0, 1000.0};
  std::vector<Dir> dirs = directions(T);
  ctx.note("tolerance: |dV| <= 64 eps sum|terms| + eps^1.5 sum q^(n+1) sup|P| (n+1)^2 (|C|+|S|); gradient likewise with sum|gradient pieces| "
           "(DESIGN Appendix B; the eps^1.5 floor covers the library's documented-in-source pole offset). Not calibrated upwards: "
           "worst observed err in units of eps*sum|terms| is reported in worst{*.err_in_eps_sumterms}.");
  ctx.note("linearity argument: every unit coefficient vector is enumerated (subchecks basis, circle, harm1, harm2); sums for arbitrary "
           "coefficients follow by linearity of the evaluation, which is itself exercised on dense vectors in subcheck linearity and scaling.");

  // =================================================================== (a) basis enumeration + (d) circle = direct
  ctx.bound("basis.degree", "storage layouts N' = 0.." + fmti(NB) + ", every truncation nmx <= N', mmx <= nmx plus the empty sum (-1,-1); every unit coefficient vector (C and S) of the layout, including those outside the truncation (must contribute exactly 0)");
  ctx.bound("basis.points", fmti((long long)dirs.size()) + " directions (polar axis +-, equator, generic, sin(theta) = 1e-10 and 1e-30) x r/a in {0.5,1,2,1000} x a in {1, 6371200}");
  ctx.bound("basis.norm", "FULL, SCHMIDT; both constructors; operator() with and without gradient");
  ctx.bound("circle.lons", "Circle(p,z,gradp in {false,true}) at lon in {0,1e-9,45,180,-90,720} by degrees and by (sin,cos), with and without gradient arguments, on every case of the basis lattice");
  for (int pass = 0; pass < 2; ++pass) {
    ctx.sub(pass == 0 ? "basis" : "circle");
    const std::string pre = pass == 0 ? "basis" : "circle";
    for (int ia = 0; ia < 2; ++ia) for (int ir = 0; ir < 4; ++ir) for (size_t id = 0; id < dirs.size(); ++id) for (int norm = 0; norm < 2; ++norm) {
      if (!ctx.take()) continue;
      const double a = AS[ia], rr = RS[ir] * a; const Dir& D = dirs[id];
      const double x = D.sx * rr, y = D.sy * rr, z = D.sz * rr, p = std::hypot(x, y);
      std::vector<sph::Table> tabs;
      if (pass == 0) tabs.emplace_back(norm, Q(a), NB, Q(x), Q(y), Q(z));
      else for (int il = 0; il < 6; ++il) { Q s, c; lon_sincos(LONS[il], s, c); tabs.emplace_back(norm, Q(a), NB, Q(p) * c, Q(p) * s, Q(z)); }
      const std::string pkey = pre + " a=" + fmt(a) + " pt=" + D.name + " r/a=" + fmt(RS[ir]) + " norm=" + (norm ? "SCHMIDT" : "FULL");
      for (int N = 0; N <= NB; ++N) for (int nmx = -1; nmx <= N; ++nmx) for (int mmx = (nmx < 0 ? -1 : 0); mmx <= nmx; ++mmx) {
        Lay L(N);
        for (int n = 0; n <= N; ++n) for (int m = 0; m <= n; ++m) for (int cs = 0; cs < (m ? 2 : 1); ++cs) {
          Ctx::Case cas(ctx);
          double& slot = cs ? L.S[L.si(n, m)] : L.C[L.ci(n, m)];
          slot = 1;
          const bool inside = n <= nmx && m <= mmx;
          ctx.sig((uint64_t)(((n * 8 + m) * 2 + cs) * 2 + inside) * 8 + D.cls * 2 + norm);
          std::string key = pkey + " N'=" + fmti(N) + " nmx=" + fmti(nmx) + " mmx=" + fmti(mmx) + " unit=" + (cs ? "S" : "C") + "(" + fmti(n) + "," + fmti(m) + ")";
          mc::Fields F{{"norm", norm ? "SCHMIDT" : "FULL"}, {"n", fmti(n)}, {"m", fmti(m)}, {"cs", cs ? "S" : "C"}, {"inside", inside ? "1" : "0"}, {"ptclass", fmti(D.cls)}};
          try {
            SphericalHarmonic h = (nmx == N && mmx == N && ((n + m) & 1)) ? SphericalHarmonic(L.C, L.S, N, a, norm)
                                                                           : SphericalHarmonic(L.C, L.S, N, nmx, mmx, a, norm);
            Harm H = wrap(h);
            auto coef = [&](int nn, int mm, double& C, double& S, double& aC, double& aS) { C = aC = (nn == n && mm == m && cs == 0); S = aS = (nn == n && mm == m && cs == 1); };
            if (pass == 0) {
              sph::Sum ref = table_sum(tabs[0], nmx, mmx, coef);
              check_direct(ctx, pre, H, x, y, z, ref, key, F);
            } else {
              sph::Sum refs[6];
              for (int il = 0; il < 6; ++il) refs[il] = table_sum(tabs[il], nmx, mmx, coef);
              check_circle(ctx, pre, H, p, z, 6, refs, key, F, true);
            }
          } catch (const std::exception& e) {
            mc::Fields g = F; g.push_back({"kind", "exception"});
            ctx.fail(key, std::string("valid arguments rejected: ") + e.what(), g);
          }
          slot = 0;
          if (ctx.want_sample()) ctx.sample(key);
        }
      }
    }
  }

  // =================================================================== linearity on dense vectors
  {
    ctx.sub("linearity");
    const int N = NB;
    ctx.bound("linearity", "3 dense coefficient vectors A, B, D of degree " + fmti(N) + " (and truncations (N,N), (N-1,2), (2,0)): lib(A) = oracle(A); lib(2.5A-0.75B+D) = 2.5 lib(A) - 0.75 lib(B) + lib(D); every point of the lattice, both norms, direct and circle");
    Lay A(N), B(N), D(N), M(N);
    A.fill(1, 0); B.fill(2, 1); D.fill(3, 2);
    for (size_t i = 0; i < M.C.size(); ++i) M.C[i] = 2.5 * A.C[i] - 0.75 * B.C[i] + D.C[i];
    for (size_t i = 0; i < M.S.size(); ++i) M.S[i] = 2.5 * A.S[i] - 0.75 * B.S[i] + D.S[i];
    const int TR[3][2] = {{N, N}, {N - 1, 2}, {2, 0}};
    for (int ia = 0; ia < 2; ++ia) for (int ir = 0; ir < 4; ++ir) for (size_t id = 0; id < dirs.size(); ++id) for (int norm = 0; norm < 2; ++norm) {
      if (!ctx.take()) continue;
      const double a = AS[ia], rr = RS[ir] * a; const Dir& Dd = dirs[id];
      const double x = Dd.sx * rr, y = Dd.sy * rr, z = Dd.sz * rr, p = std::hypot(x, y);
      sph::Table tab(norm, Q(a), N, Q(x), Q(y), Q(z));
      std::vector<sph::Table> ctab;
      for (int il = 0; il < 6; ++il) { Q s, c; lon_sincos(LONS[il], s, c); ctab.emplace_back(norm, Q(a), N, Q(p) * c, Q(p) * s, Q(z)); }
      for (int it = 0; it < 3; ++it) {
        Ctx::Case cas(ctx);
        int nmx = TR[it][0], mmx = TR[it][1];
        std::string key = "linearity a=" + fmt(a) + " pt=" + Dd.name + " r/a=" + fmt(RS[ir]) + " norm=" + (norm ? "SCHMIDT" : "FULL") + " trunc=" + fmti(nmx) + "," + fmti(mmx);
        mc::Fields F{{"norm", norm ? "SCHMIDT" : "FULL"}, {"ptclass", fmti(Dd.cls)}};
        const Lay* Ls[4] = {&A, &B, &D, &M};
        double v[4], g[4][3]; sph::Sum refs[4];
        for (int k = 0; k < 4; ++k) {
          const Lay& L = *Ls[k];
          SphericalHarmonic h(L.C, L.S, N, nmx, mmx, a, norm);
          auto coef = [&](int n, int m, double& C, double& S, double& aC, double& aS) { C = L.c(n, m); S = L.s(n, m); aC = std::fabs(C); aS = std::fabs(S); };
          refs[k] = table_sum(tab, nmx, mmx, coef);
          check_direct(ctx, "linearity", wrap(h), x, y, z, refs[k], key + " vec=" + "ABDM"[k], F);
          v[k] = h(x, y, z, g[k][0], g[k][1], g[k][2]);
          sph::Sum cr[6]; for (int il = 0; il < 6; ++il) cr[il] = table_sum(ctab[il], nmx, mmx, coef);
          check_circle(ctx, "linearity.circle", wrap(h), p, z, 6, cr, key + " vec=" + "ABDM"[k], F, true);
        }
        // superposition of the library's own results
        Q tolv = Q(2.5) * tol_v(refs[0]) + Q(0.75) * tol_v(refs[1]) + tol_v(refs[2]) + tol_v(refs[3]) + Q(1e-300);
        Q tolg = Q(2.5) * tol_g(refs[0]) + Q(0.75) * tol_g(refs[1]) + tol_g(refs[2]) + tol_g(refs[3]) + Q(1e-300);
        Q ev = sph::qabs(Q(v[3]) - (Q(2.5) * v[0] - Q(0.75) * v[1] + Q(v[2])));
        ctx.worstf("linearity.superposition.value.err_over_tol", double(ev / tolv), [&] { return key; });
        if (!(ev <= tolv)) ctx.fail(key + " superposition", "lib(2.5A-0.75B+D) = " + fx(v[3]) + " but 2.5 lib(A) - 0.75 lib(B) + lib(D) = " + sph::qstr(Q(2.5) * v[0] - Q(0.75) * v[1] + Q(v[2])), {{"kind", "superposition"}, {"norm", norm ? "SCHMIDT" : "FULL"}});
        for (int i = 0; i < 3; ++i) {
          Q eg = sph::qabs(Q(g[3][i]) - (Q(2.5) * g[0][i] - Q(0.75) * g[1][i] + Q(g[2][i])));
          ctx.worstf("linearity.superposition.gradient.err_over_tol", double(eg / tolg), [&] { return key; });
          if (!(eg <= tolg)) { ctx.fail(key + " superposition-gradient", "gradient of the combined vector is not the combination of the gradients", {{"kind", "superposition"}, {"norm", norm ? "SCHMIDT" : "FULL"}}); break; }
        }
      }
    }
  }

  // =================================================================== (c) SphericalHarmonic1 / SphericalHarmonic2
  {
    const int N = T ? 4 : 3;
    const double TAUS[4] = {0, 1, -0.5, 0.3};
    // (tau1, tau2) pairs for SphericalHarmonic2: {0,1,-0.5}^2 and the generic unequal pair (0.3, 0.7)
    const double TAU2[10][2] = {{0, 0}, {0, 1}, {0, -0.5}, {1, 0}, {1, 1}, {1, -0.5}, {-0.5, 0}, {-0.5, 1}, {-0.5, -0.5}, {0.3, 0.7}};
    std::vector<Dir> d8;
    for (auto& d : dirs) if (std::string(d.name) == "pole+" || std::string(d.name) == "equator-lon131" || d.cls == 0 || std::string(d.name) == "nearpole-1e-10") d8.push_back(d);
    ctx.bound("harm12", "main set: dense, layout " + fmti(N) + ", every truncation; secondary set(s): layouts N1 in {nmx1, nmx1+1}, every nmx1 <= nmx, mmx1 <= min(nmx1,mmx) and (-1,-1), every unit coefficient vector; tau in {0,1,-0.5} (SphericalHarmonic1), (tau1,tau2) in {0,1,-0.5}^2 + (0.3,0.7) with a dense first correction and unit second correction, C and S (SphericalHarmonic2), direct and Circle on every pair; " + fmti((long long)d8.size()) + " directions x r/a in {0.5,1,2}; both norms; direct (value, gradient) and Circle");
    Lay A(N); A.fill(4, 1);
    for (int which = 1; which <= 2; ++which) {
      ctx.sub(which == 1 ? "harm1" : "harm2");
      const std::string pre = which == 1 ? "harm1" : "harm2";
      for (int ir = 0; ir < 3; ++ir) for (size_t id = 0; id < d8.size(); ++id) for (int norm = 0; norm < 2; ++norm) {
        if (!ctx.take()) continue;
        const double a = 6371200.0, rr = RS[ir] * a; const Dir& D = d8[id];
        const double x = D.sx * rr, y = D.sy * rr, z = D.sz * rr, p = std::hypot(x, y);
        sph::Table tab(norm, Q(a), N, Q(x), Q(y), Q(z));
        const int NL = 3;                                   // circle longitudes 0, 1e-9, 45
        std::vector<sph::Table> ctab;
        for (int il = 0; il < NL; ++il) { Q s, c; lon_sincos(LONS[il], s, c); ctab.emplace_back(norm, Q(a), N, Q(p) * c, Q(p) * s, Q(z)); }
        const std::string pkey = pre + " pt=" + D.name + " r/a=" + fmt(RS[ir]) + " norm=" + (norm ? "SCHMIDT" : "FULL");
        for (int nmx = 0; nmx <= N; ++nmx) for (int mmx = 0; mmx <= nmx; ++mmx)
          for (int nmx1 = -1; nmx1 <= nmx; ++nmx1) for (int mmx1 = (nmx1 < 0 ? -1 : 0); mmx1 <= std::min(nmx1, mmx); ++mmx1)
            for (int N1 = std::max(nmx1, 0); N1 <= std::max(nmx1, 0) + 1 && N1 <= N + 1; ++N1) {
              Lay U(N1);                                     // the enumerated (last) correction set
              Lay B(std::max(nmx1, 0)); B.fill(5, 1);        // SphericalHarmonic2: dense first correction with the same truncation, own layout
              for (int n = 0; n <= N1; ++n) for (int m = 0; m <= n; ++m) for (int cs = 0; cs < (m ? 2 : 1); ++cs) {
                double& slot = cs ? U.S[U.si(n, m)] : U.C[U.ci(n, m)];
                slot = 1;
                const bool inside = n <= nmx1 && m <= mmx1;
                for (int ip = 0; ip < (which == 2 ? 10 : 3); ++ip) {
                  Ctx::Case cas(ctx);
                  const double t1 = which == 2 ? TAU2[ip][0] : TAUS[ip], t2 = which == 2 ? TAU2[ip][1] : 0;
                  ctx.sig((uint64_t)((((n * 8 + m) * 2 + cs) * 2 + inside) * 16 + ip) * 8 + D.cls * 2 + norm);
                  std::string key = pkey + " trunc=" + fmti(nmx) + "," + fmti(mmx) + " trunc1=" + fmti(nmx1) + "," + fmti(mmx1) + " N1=" + fmti(N1) + " unit=" + (cs ? "S" : "C") + "(" + fmti(n) + "," + fmti(m) + ") tau=" + fmt(t1) + (which == 2 ? "," + fmt(t2) : "");
                  mc::Fields F{{"norm", norm ? "SCHMIDT" : "FULL"}, {"n", fmti(n)}, {"m", fmti(m)}, {"cs", cs ? "S" : "C"}, {"inside", inside ? "1" : "0"}, {"ptclass", fmti(D.cls)}};
                  try {
                    Harm H;
                    // effective coefficients: C + tau C' (+ tau'' C''), each set limited by its own truncation
                    auto coef = [&](int nn, int mm, double& C, double& S, double& aC, double& aS) {
                      C = A.c(nn, mm); S = A.s(nn, mm); aC = std::fabs(C); aS = std::fabs(S);
                      if (nn <= nmx1 && mm <= mmx1) {
                        if (which == 1) {
                          double uc = U.c(nn, mm) * t1, us = U.s(nn, mm) * t1;
                          C += uc; S += us; aC += std::fabs(uc); aS += std::fabs(us);
                        } else {
                          double bc = B.c(nn, mm) * t1, bs = B.s(nn, mm) * t1, uc = U.c(nn, mm) * t2, us = U.s(nn, mm) * t2;
                          C += bc + uc; S += bs + us; aC += std::fabs(bc) + std::fabs(uc); aS += std::fabs(bs) + std::fabs(us);
                        }
                      }
                    };
                    const bool simple = (nmx == N && mmx == N && nmx1 == N1 && mmx1 == N1);   // the "full sets" constructors
                    if (which == 1) {
                      SphericalHarmonic1 h = simple ? SphericalHarmonic1(A.C, A.S, N, U.C, U.S, N1, a, norm)
                                                    : SphericalHarmonic1(A.C, A.S, N, nmx, mmx, U.C, U.S, N1, nmx1, mmx1, a, norm);
                      H = wrap(h, t1);
                      check_direct(ctx, pre, H, x, y, z, table_sum(tab, nmx, mmx, coef), key, F);
                      sph::Sum cr[NL]; for (int il = 0; il < NL; ++il) cr[il] = table_sum(ctab[il], nmx, mmx, coef);
                      check_circle(ctx, pre + ".circle", H, p, z, NL, cr, key, F, false);
                    } else {
                      int NB1 = B.N;
                      SphericalHarmonic2 h = simple && NB1 == nmx1 ? SphericalHarmonic2(A.C, A.S, N, B.C, B.S, NB1, U.C, U.S, N1, a, norm)
                                                                   : SphericalHarmonic2(A.C, A.S, N, nmx, mmx, B.C, B.S, NB1, nmx1, mmx1, U.C, U.S, N1, nmx1, mmx1, a, norm);
                      H = wrap(h, t1, t2);
                      check_direct(ctx, pre, H, x, y, z, table_sum(tab, nmx, mmx, coef), key, F);
                      // circles on the whole lattice: every (tau1, tau2) pair, C and S units (the circle path combines the
                      // coefficient sets in its own loop, separately for the cosine and the sine coefficients)
                      sph::Sum cr[NL]; for (int il = 0; il < NL; ++il) cr[il] = table_sum(ctab[il], nmx, mmx, coef);
                      check_circle(ctx, pre + ".circle", H, p, z, NL, cr, key, F, false);
                    }
                  } catch (const std::exception& e) {
                    mc::Fields g = F; g.push_back({"kind", "exception"});
                    ctx.fail(key, std::string("valid arguments rejected: ") + e.what(), g);
                  }
                  if (ctx.want_sample()) ctx.sample(key);
                }
                slot = 0;
              }
            }
      }
    }
  }

  // =================================================================== (b) scaling at high degree
  {
    ctx.sub("scaling");
    std::vector<int> Ns = T ? std::vector<int>{60, 200, 360} : std::vector<int>{60};
    ctx.bound("scaling", std::string("N in ") + (T ? "{60,200,360}" : "{60}") + "; coefficient sets: 1/(n+1)^2, all ones, alternating-sign pattern/(n+1); truncations (N,N) and (5N/6, N/2) on the layout N; r/a in {0.9, 1, 2} and 0.5 for N = 60; " + fmti((long long)dirs.size()) + " directions; both norms; value, gradient, Circle at lon 0, 1e-9, 45");
    for (int N : Ns) for (int cset = 0; cset < 3; ++cset) for (int norm = 0; norm < 2; ++norm) for (int itr = 0; itr < 2; ++itr) {
      Lay L(N);
      for (int n = 0; n <= N; ++n) for (int m = 0; m <= n; ++m) {
        double c = cset == 0 ? 1.0 / ((n + 1.0) * (n + 1.0)) : cset == 1 ? 1.0 : ((n * 7 + m * 13) % 23 - 11) / (8.0 * (n + 1));
        double s = cset == 0 ? 1.0 / ((n + 1.0) * (n + 1.0)) : cset == 1 ? 1.0 : ((n * 5 + m * 11) % 19 - 9) / (8.0 * (n + 1));
        L.C[L.ci(n, m)] = c; if (m) L.S[L.si(n, m)] = s;
      }
      const int nmx = itr ? 5 * N / 6 : N, mmx = itr ? N / 2 : N;
      const double RR[4] = {0.9, 1.0, 2.0, 0.5};
      for (int ir = 0; ir < (N == 60 ? 4 : 3); ++ir) for (size_t id = 0; id < dirs.size(); ++id) {
        if (!ctx.take()) continue;
        Ctx::Case cas(ctx);
        const double a = 6378137.0, rr = RR[ir] * a; const Dir& D = dirs[id];
        const double x = D.sx * rr, y = D.sy * rr, z = D.sz * rr, p = std::hypot(x, y);
        ctx.sig((uint64_t)(N * 64 + cset * 16 + norm * 8 + itr * 4 + D.cls));
        std::string key = "scaling N=" + fmti(N) + " coeffs=" + (cset == 0 ? "1/(n+1)^2" : cset == 1 ? "ones" : "pattern") + " norm=" + (norm ? "SCHMIDT" : "FULL") + " trunc=" + fmti(nmx) + "," + fmti(mmx) + " pt=" + D.name + " r/a=" + fmt(RR[ir]);
        mc::Fields F{{"norm", norm ? "SCHMIDT" : "FULL"}, {"N", fmti(N)}, {"ptclass", fmti(D.cls)}};
        auto coef = [&](int n, int m, double& C, double& S) { C = L.c(n, m); S = L.s(n, m); };
        SphericalHarmonic h(L.C, L.S, N, nmx, mmx, a, norm);
        Harm H = wrap(h);
        const std::string spre = "scaling.N" + fmti(N);
        check_direct(ctx, spre, H, x, y, z, sph::eval(norm, Q(a), nmx, mmx, Q(x), Q(y), Q(z), coef), key, F);
        sph::Sum cr[3];
        for (int il = 0; il < 3; ++il) { Q s, c; lon_sincos(LONS[il], s, c); cr[il] = sph::eval(norm, Q(a), nmx, mmx, Q(p) * c, Q(p) * s, Q(z), coef); }
        check_circle(ctx, spre + ".circle", H, p, z, 3, cr, key, F, true);
        if (ctx.want_sample()) ctx.sample(key);
      }
    }
  }
  return ctx.finish();
}
