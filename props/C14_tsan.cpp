// C14, second part -- free-running pass: the same harness bodies (props/C14_bodies.hpp) executed by real std::threads
// under the genuine ThreadSanitizer runtime, one forked process per repetition (so that first-touch of the
// function-local singletons happens concurrently every time).  This pass exists because the controlled scheduler
// of props/C14.cpp cannot see accesses made inside uninstrumented libc / libstdc++.so code, and because a
// cooperative scheduler's hand-offs would blind a race detector running underneath it.  It is not the deciding
// exploration (it samples OS schedules); it only keeps races visible that the explorer is structurally blind to.
#include "mc/ctx.hpp"
#include "props/C14_bodies.hpp"
#include <thread>
#include <atomic>
#include <unistd.h>
#include <sys/wait.h>
#include <fcntl.h>

using mc::Ctx; using mc::fmti;

static std::atomic<int> gate;

// run one body in this process; mode -1: all threads concurrently, mode i >= 0: only thread i (alone)
static void run_body(c14::Body& b, int mode, c14::Out* outs) {
  b.setup();
  if (mode >= 0) b.run(mode, outs[mode]);
  else {
    gate.store(0);
    std::vector<std::thread> th;
    for (int i = 0; i < b.nf; ++i) th.emplace_back([&, i] { gate.fetch_add(1); while (gate.load() < b.nf) {} b.run(i, outs[i]); });
    for (auto& t : th) t.join();
  }
  b.teardown();
}

// fork, run, collect outputs; returns exit status (66 = ThreadSanitizer report), -sig for signals
static int forked(c14::Body& b, int mode, c14::Out* outs, std::string& log) {
  int p[2]; if (pipe(p)) return -999;
  char logf[256]; snprintf(logf, sizeof logf, "tsan-%ld.log", (long)getpid());
  pid_t pid = fork();
  if (pid == 0) {
    close(p[0]);
    int fd = open(logf, O_WRONLY | O_CREAT | O_TRUNC, 0666); if (fd >= 0) { dup2(fd, 2); close(fd); }
    static c14::Out o[4];
    int rc = 0;
    try { run_body(b, mode, o); } catch (const std::exception& e) { fprintf(stderr, "exception: %s\n", e.what()); rc = 3; } catch (...) { rc = 3; }
    (void)!write(p[1], o, sizeof o); close(p[1]);
    if (rc) _exit(rc);
    exit(0);          // runs the ThreadSanitizer finaliser: exit code 66 if anything was reported
  }
  close(p[1]);
  c14::Out tmp[4]; size_t got = 0; char* dst = (char*)tmp;
  while (got < sizeof tmp) { ssize_t n = read(p[0], dst + got, sizeof tmp - got); if (n <= 0) break; got += n; }
  close(p[0]);
  int st = 0; waitpid(pid, &st, 0);
  if (got == sizeof tmp) for (int i = 0; i < 4; ++i) if (mode < 0 || i == mode) outs[i] = tmp[i];
  FILE* f = fopen(logf, "r"); if (f) { char buf[3000]; size_t n = fread(buf, 1, sizeof buf - 1, f); buf[n] = 0; log = buf; fclose(f); unlink(logf); }
  if (WIFSIGNALED(st)) return -WTERMSIG(st);
  return WEXITSTATUS(st);
}

int main(int argc, char** argv) {
  Ctx ctx(argc, argv);
  const bool T = ctx.thorough();
  const int reps = T ? 60 : 12;
  std::vector<c14::Body> B = c14::bodies();
  ctx.bound("tsan.repetitions_per_body", reps);
  ctx.sub("tsan-free-running");
  for (auto& b : B) {
    if (!T && !b.quick) continue;
    if (!ctx.take()) continue;
    c14::Out ref[4], out[4]; std::string log;
    bool ok = true;
    for (int i = 0; i < b.nf && ok; ++i) { int rc = forked(b, i, ref, log); if (rc != 0) { ctx.fail(b.name + " tsan-alone", "sequential reference run failed rc=" + fmti(rc) + ": " + log.substr(0, 600), {{"body", b.name}, {"kind", "harness"}}); ok = false; } }
    if (!ok) continue;
    int nrace = 0, nmis = 0; std::string first;
    for (int r = 0; r < reps; ++r) {
      Ctx::Case cs(ctx);
      ctx.count("transitions", b.nf);
      int rc = forked(b, -1, out, log);
      ctx.sig((uint64_t)rc);
      if (rc == 66) { if (!nrace++) first = log; }
      else if (rc != 0) { ctx.fail(b.name + " tsan-crash", "threads run ended with rc=" + fmti(rc) + ": " + log.substr(0, 600), {{"body", b.name}, {"kind", "crash"}}); break; }
      else for (int i = 0; i < b.nf; ++i) if (!out[i].same(ref[i])) ++nmis;
    }
    if (nrace) {
      // keep the two "#0" frames of the report as the description
      std::string d; size_t pos = 0; int k = 0;
      while (k < 4 && (pos = first.find("    #0 ", pos)) != std::string::npos) { size_t e = first.find('\n', pos); d += first.substr(pos + 4, e - pos - 4) + " | "; pos = e; ++k; }
      ctx.fail(b.name + " tsan-race", "ThreadSanitizer reported a data race in " + fmti(nrace) + "/" + fmti(reps) + " runs: " + d, {{"body", b.name}, {"kind", "race"}});
    }
    if (nmis) ctx.fail(b.name + " tsan-mismatch", "values differ from the calls executed alone in " + fmti(nmis) + " thread runs", {{"body", b.name}, {"kind", "value-mismatch"}});
    ctx.samples.push_back("tsan body " + b.name + ": " + fmti(reps) + " forked runs with " + fmti(b.nf) + " threads, reports " + fmti(nrace) + ", mismatches " + fmti(nmis));
  }
  return ctx.finish();
}
