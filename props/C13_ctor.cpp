// C13 part (a) -- constructors and validating setters.  Engine E4, flavour `san`.
//
// Space: every constructor of the registry below x argument tuples drawn from per-argument alphabets of special
// values {NaN, +-inf, +-0, -1, 1e-320, 1e308, 1, 1+ulp, 2, ..., valid values}.  quick: every tuple that differs
// from a valid base tuple in at most TWO positions; thorough: larger alphabets and the full Cartesian product where it
// has at most 30 000 tuples, otherwise every tuple that differs from a base in at most THREE (constructors with up
// to 4 arguments) or TWO positions.
// Reference: models/ctor_validity.hpp (written from the headers' @exception text).
// Predicates per tuple:  INVALID  => GeographicErr (exactly that type);
//                        VALID    => no exception, and a smoke call on the object ends cleanly;
//                        SILENT   => return / GeographicErr / bad_alloc;
//                        always   => no foreign exception, sanitizer report, signal or hang (fork isolation).
#define FAULT_ALLOC_CAP_BYTES (512u << 20)
#include "mc/ctx.hpp"
#include "mc/fault.hpp"
#include "models/ctor_validity.hpp"
#include "models/tiny_datasets.hpp"
#include <GeographicLib/Geodesic.hpp>
#include <GeographicLib/GeodesicExact.hpp>
#include <GeographicLib/GeodesicLine.hpp>
#include <GeographicLib/GeodesicLineExact.hpp>
#include <GeographicLib/Geocentric.hpp>
#include <GeographicLib/LocalCartesian.hpp>
#include <GeographicLib/Ellipsoid.hpp>
#include <GeographicLib/Rhumb.hpp>
#include <GeographicLib/AuxLatitude.hpp>
#include <GeographicLib/DAuxLatitude.hpp>
#include <GeographicLib/TransverseMercator.hpp>
#include <GeographicLib/TransverseMercatorExact.hpp>
#include <GeographicLib/PolarStereographic.hpp>
#include <GeographicLib/LambertConformalConic.hpp>
#include <GeographicLib/AlbersEqualArea.hpp>
#include <GeographicLib/NormalGravity.hpp>
#include <GeographicLib/EllipticFunction.hpp>
#include <GeographicLib/Intersect.hpp>
#include <GeographicLib/NearestNeighbor.hpp>
#include <GeographicLib/SphericalHarmonic.hpp>
#include <GeographicLib/SphericalHarmonic1.hpp>
#include <GeographicLib/DST.hpp>
#include <GeographicLib/CassiniSoldner.hpp>
#include <GeographicLib/AzimuthalEquidistant.hpp>
#include <GeographicLib/Gnomonic.hpp>
#include <GeographicLib/PolygonArea.hpp>
#include <GeographicLib/Geoid.hpp>
#include <GeographicLib/MagneticModel.hpp>
#include <GeographicLib/GravityModel.hpp>
#include <GeographicLib/GravityCircle.hpp>
#include <GeographicLib/MagneticCircle.hpp>
#include <GeographicLib/Accumulator.hpp>
#include <functional>
#include <set>

using namespace GeographicLib;
using mc::Ctx; using mc::fmt; using mc::fmti; using mc::fx;
using fault::Report; using fault::Result; using fault::Thrown;
using ctorv::V;

static std::string g_dir;

struct Ctor {
  std::string name;
  std::string spec;                               // "a:a f:f k0:k" name:kind
  std::vector<std::vector<double>> bases;         // valid tuples
  std::function<V(const double*)> valid;
  std::function<void(const double*, int& stage)> make;     // construct (stage = 1 afterwards), then smoke calls
  std::vector<std::string> names; std::vector<char> kinds;
};

static std::vector<double> alphabet(char kind, double base, bool T) {
  const double inf = INFINITY, up1 = std::nextafter(1.0, 2.0), up90 = std::nextafter(90.0, 100.0), dn90 = std::nextafter(90.0, 0.0);
  std::vector<double> v;
  auto add = [&](std::initializer_list<double> l) { for (double x : l) v.push_back(x); };
  switch (kind) {
  case 'a': add({NAN, inf, -inf, 0.0, -0.0, -1, 1e-320, 1e308, 1, up1, 2, 6378137}); if (T) add({-1e308, 1e-300, 1e300, 5e-324, 1e154, 1e-154}); break;
  case 'f': add({NAN, inf, -inf, 0.0, -0.0, -1, 1e-320, 1e308, 1, up1, 2, 1 / 298.257223563}); if (T) add({-1e308, std::nextafter(1.0, 0.0), 0.5, -0.5, 0.99, -100, -1e-320, 1e-17, 0.2, -0.25}); break;
  case 'k': add({NAN, inf, -inf, 0.0, -0.0, -1, 1e-320, 1e308, 1, up1, 2, 0.9996}); if (T) add({-1e308, 1e-300, 5e-324, -1e-320}); break;
  case 'l': add({NAN, inf, -inf, 0.0, -0.0, -1, 1e-320, 1e308, 1, 2, 90, -90, up90, -up90, 45}); if (T) add({dn90, -dn90, -45, 89.999999, 180, -180, 270, 91, 1e-300}); break;
  case 's': add({NAN, inf, -inf, 0.0, -0.0, -1, 1e-320, 1e308, 1, up1, 2, 0.6}); if (T) add({-0.6, 0.8, -up1, 1e-300, std::nextafter(1.0, 0.0)}); break;
  case 'c': add({NAN, inf, -inf, 0.0, -0.0, -1, 1e-320, 1e308, 1, up1, 2, 0.8}); if (T) add({-0.8, 0.6, -1e-320, 1e-300, std::nextafter(1.0, 0.0)}); break;
  case 'e': add({NAN, 0.0, -0.0, -1, 1e-320, 1, up1, 2}); if (T) add({0.5, -0.5, 1e-300, 5e-324, -2, 1e10, -1e10, std::nextafter(1.0, 0.0)}); break;     // elliptic parameters; +-inf, +-1e308: see singles_only
  case 'r': add({NAN, inf, -inf, 0.0, -0.0, -1, 1e-320, 1e308, 1, up1, 2}); if (T) add({-1e308, 0.5, -0.5, 1e-300, 5e-324, -2, 1e10}); break;
  case 'g': add({NAN, inf, -inf, 0.0, -0.0, -1, 1e-320, 1e308, 1, up1, 2, -180, 90, up90}); if (T) add({-1e308, 180, 360, -360, 720, 1e10, -90, 5e-324, 1e19}); break;     // general angle / coordinate
  case 'i': for (long long x : fault::int_specials(T)) v.push_back((double)x); if (T) add({3, 5, 10, 11, 255, 256, 46340, 46341}); break;
  case 'n': add({0, 1, 2, 3, 4, 5, 6, 10}); if (T) add({7, 8, 9, 15, 21}); break;      // small counts
  case 'b': add({0, 1}); return v;
  }
  bool has = false; for (double x : v) if (mc::same_bits(x, base)) has = true;
  if (!has) v.push_back(base);
  return v;
}

// values used in SINGLE substitutions only (never in products): EllipticFunction hangs on each of them (open known
// finding) and every hang costs at least the 2 s watchdog
static std::vector<double> singles_only(char kind) {
  if (kind == 'e') return {INFINITY, -INFINITY, 1e308, -1e308};
  return {};
}
// ------------------------------------------------------------------------------------------- registry
template <class G> static void geod_smoke(const G& g, double a) {
  double s12, azi1, azi2, m12, M12, M21, S12, lat2, lon2;
  g.Inverse(10, 20, 30, 40, s12, azi1, azi2, m12, M12, M21, S12);
  g.Inverse(0, 0, 0.5, 179.5, s12, azi1, azi2);
  g.Direct(10, 20, 30, 0.1 * a, lat2, lon2, azi2, m12, M12, M21, S12);
  g.ArcDirect(-40, 5, 100, 200, lat2, lon2);
  auto l = g.Line(1, 2, 3); l.Position(0.05 * a, lat2, lon2);
}
template <class P> static void proj_smoke(const P& p) { double x, y, g, k, lat, lon; p.Forward(5, 40, 10, x, y, g, k); p.Reverse(5, x, y, lat, lon, g, k); p.Forward(0, -89, 170, x, y); }
struct Dist1 { double operator()(double a, double b) const { return std::fabs(a - b); } };

static std::vector<Ctor> make_ctors() {
  std::vector<Ctor> R;
  const double A = 6378137, F = 1 / 298.257223563;
  auto add = [&](const char* name, const char* spec, std::vector<std::vector<double>> bases, std::function<V(const double*)> valid, std::function<void(const double*, int&)> make) {
    Ctor c; c.name = name; c.spec = spec; c.bases = bases; c.valid = valid; c.make = make;
    std::string s = spec; size_t p = 0;
    while (p < s.size()) { size_t q = s.find(' ', p); if (q == std::string::npos) q = s.size(); std::string tok = s.substr(p, q - p); size_t c2 = tok.find(':'); c.names.push_back(tok.substr(0, c2)); c.kinds.push_back(tok[c2 + 1]); p = q + 1; }
    R.push_back(c);
  };
  auto af = [](const double* a) { return ctorv::af(a[0], a[1]); };
  std::vector<std::vector<double>> AF = {{A, F}, {1, -0.01}};
  add("Geodesic(a,f)", "a:a f:f", AF, af, [](const double* a, int& st) { Geodesic g(a[0], a[1]); st = 1; geod_smoke(g, a[0]); });
  add("Geodesic(a,f,exact)", "a:a f:f", AF, af, [](const double* a, int& st) { Geodesic g(a[0], a[1], true); st = 1; geod_smoke(g, a[0]); });
  add("GeodesicExact(a,f)", "a:a f:f", AF, af, [](const double* a, int& st) { GeodesicExact g(a[0], a[1]); st = 1; geod_smoke(g, a[0]); });
  add("Geocentric(a,f)", "a:a f:f", AF, af, [](const double* a, int& st) { Geocentric g(a[0], a[1]); st = 1; double x, y, z, la, lo, h; g.Forward(40, 10, 100, x, y, z); g.Reverse(x, y, z, la, lo, h); g.Reverse(0, 0, 0, la, lo, h); LocalCartesian lc(1, 2, 3, g); lc.Forward(4, 5, 6, x, y, z); lc.Reverse(x, y, z, la, lo, h); });
  add("Ellipsoid(a,f)", "a:a f:f", AF, af, [](const double* a, int& st) { Ellipsoid e(a[0], a[1]); st = 1; volatile double s = e.QuarterMeridian() + e.Area() + e.Volume() + e.RectifyingLatitude(40) + e.AuthalicLatitude(40) + e.ConformalLatitude(40) + e.IsometricLatitude(40) + e.InverseRectifyingLatitude(40) + e.InverseAuthalicLatitude(40) + e.InverseConformalLatitude(40) + e.InverseIsometricLatitude(40) + e.MeridianDistance(40) + e.CircleRadius(40) + e.NormalCurvatureRadius(40, 30) + e.ParametricLatitude(40) + e.GeocentricLatitude(40); (void)s; });
  add("Rhumb(a,f)", "a:a f:f", AF, af, [](const double* a, int& st) { Rhumb r(a[0], a[1], false); st = 1; double s12, azi, S12, la, lo; r.Inverse(10, 20, 30, 40, s12, azi, S12); r.Direct(10, 20, 30, 0.1 * a[0], la, lo, S12); r.Line(1, 2, 3).Position(0.05 * a[0], la, lo); });
  add("Rhumb(a,f,exact)", "a:a f:f", AF, af, [](const double* a, int& st) { Rhumb r(a[0], a[1], true); st = 1; double s12, azi, S12, la, lo; r.Inverse(10, 20, 30, 40, s12, azi, S12); r.Direct(10, 20, 30, 0.1 * a[0], la, lo, S12); });
  add("AuxLatitude(a,f)", "a:a f:f", AF, af, [](const double* a, int& st) { AuxLatitude x(a[0], a[1]); st = 1; volatile double s = 0; for (int i = 0; i < AuxLatitude::AUXNUMBER; ++i) for (int j = 0; j < AuxLatitude::AUXNUMBER; ++j) { s = s + x.Convert(i, j, 40.0, false) + x.Convert(i, j, 40.0, true); } s = s + x.RectifyingRadius(true) + x.AuthalicRadiusSquared(false); });
  add("AuxLatitude::axes(a,b)", "a:a b:a", {{A, A * (1 - F)}, {1, 1.01}}, [](const double* a) { return ctorv::axes(a[0], a[1]); }, [](const double* a, int& st) { AuxLatitude x(AuxLatitude::axes(a[0], a[1])); st = 1; volatile double s = x.Convert(AuxLatitude::PHI, AuxLatitude::MU, 40.0) + x.Convert(AuxLatitude::XI, AuxLatitude::CHI, -70.0, true); (void)s; });
  add("DAuxLatitude(a,f)", "a:a f:f", AF, af, [](const double* a, int& st) { DAuxLatitude x(a[0], a[1]); st = 1; volatile double s = x.DRectifying(AuxAngle::degrees(10), AuxAngle::degrees(40)) + x.DIsometric(AuxAngle::degrees(10), AuxAngle::degrees(40)) + x.DParametric(AuxAngle::degrees(10), AuxAngle::degrees(40)) + x.DConvert(AuxLatitude::PHI, AuxLatitude::XI, AuxAngle::degrees(10), AuxAngle::degrees(10)); (void)s; });
  add("TransverseMercator(a,f,k0)", "a:a f:f k0:k", {{A, F, 0.9996}, {1, -0.01, 1}}, [](const double* a) { return ctorv::tm(a[0], a[1], a[2], false, false); }, [](const double* a, int& st) { TransverseMercator t(a[0], a[1], a[2]); st = 1; proj_smoke(t); });
  add("TransverseMercator(a,f,k0,exact,extendp)", "a:a f:f k0:k exact:b extendp:b", {{A, F, 0.9996, 1, 0}, {A, F, 1, 1, 1}, {A, F, 1, 0, 0}}, [](const double* a) { return ctorv::tm(a[0], a[1], a[2], a[3] != 0, a[4] != 0); }, [](const double* a, int& st) { TransverseMercator t(a[0], a[1], a[2], a[3] != 0, a[4] != 0); st = 1; proj_smoke(t); });
  add("TransverseMercatorExact(a,f,k0,extendp)", "a:a f:f k0:k extendp:b", {{A, F, 0.9996, 0}, {1, 0.1, 1, 1}}, [](const double* a) { return ctorv::tmexact(a[0], a[1], a[2]); }, [](const double* a, int& st) { TransverseMercatorExact t(a[0], a[1], a[2], a[3] != 0); st = 1; proj_smoke(t); });
  add("PolarStereographic(a,f,k0)", "a:a f:f k0:k", {{A, F, 0.994}, {1, -0.01, 1}}, [](const double* a) { return ctorv::ps(a[0], a[1], a[2]); }, [](const double* a, int& st) { PolarStereographic p(a[0], a[1], a[2]); st = 1; double x, y, g, k, la, lo; p.Forward(true, 80, 10, x, y, g, k); p.Reverse(true, x, y, la, lo, g, k); p.Forward(false, 20, 10, x, y); });
  add("PolarStereographic::SetScale(lat,k)", "lat:l k:k", {{45, 1}, {90, 0.994}}, [](const double* a) { return ctorv::ps_setscale(a[0], a[1]); }, [](const double* a, int& st) { PolarStereographic p(6378137, 1 / 298.257223563, 1); p.SetScale(a[0], a[1]); st = 1; double x, y; p.Forward(true, 80, 10, x, y); });
  add("LambertConformalConic(a,f,stdlat,k0)", "a:a f:f stdlat:l k0:k", {{A, F, 45, 1}, {1, -0.01, -30, 0.9996}}, [](const double* a) { return ctorv::conic1(a[0], a[1], a[2], a[3]); }, [](const double* a, int& st) { LambertConformalConic p(a[0], a[1], a[2], a[3]); st = 1; proj_smoke(p); });
  add("LambertConformalConic(a,f,stdlat1,stdlat2,k1)", "a:a f:f stdlat1:l stdlat2:l k1:k", {{A, F, 33, 45, 1}, {1, -0.01, -30, -30, 0.9996}}, [](const double* a) { return ctorv::lcc2(a[0], a[1], a[2], a[3], a[4]); }, [](const double* a, int& st) { LambertConformalConic p(a[0], a[1], a[2], a[3], a[4]); st = 1; proj_smoke(p); });
  add("LambertConformalConic(a,f,sin1,cos1,sin2,cos2,k1)", "a:a f:f sinlat1:s coslat1:c sinlat2:s coslat2:c k1:k", {{A, F, 0.6, 0.8, 0.6, 0.8, 1}, {A, F, 0.28, 0.96, 0.8, 0.6, 1}}, [](const double* a) { return ctorv::lcc2sc(a[0], a[1], a[2], a[3], a[4], a[5], a[6]); }, [](const double* a, int& st) { LambertConformalConic p(a[0], a[1], a[2], a[3], a[4], a[5], a[6]); st = 1; proj_smoke(p); });
  add("LambertConformalConic::SetScale(lat,k)", "lat:l k:k", {{45, 1}, {-30, 0.9996}}, [](const double* a) { V v = ctorv::lcc_setscale(a[0], a[1]); return (v == ctorv::VALID && std::fabs(a[0]) == 90) ? ctorv::SILENT : v; }, [](const double* a, int& st) { LambertConformalConic p(6378137, 1 / 298.257223563, 40, 1); p.SetScale(a[0], a[1]); st = 1; proj_smoke(p); });
  add("AlbersEqualArea(a,f,stdlat,k0)", "a:a f:f stdlat:l k0:k", {{A, F, 45, 1}, {1, -0.01, -30, 0.9996}}, [](const double* a) { return ctorv::conic1(a[0], a[1], a[2], a[3]); }, [](const double* a, int& st) { AlbersEqualArea p(a[0], a[1], a[2], a[3]); st = 1; proj_smoke(p); });
  add("AlbersEqualArea(a,f,stdlat1,stdlat2,k1)", "a:a f:f stdlat1:l stdlat2:l k1:k", {{A, F, 33, 45, 1}, {1, -0.01, -30, -30, 0.9996}}, [](const double* a) { return ctorv::albers2(a[0], a[1], a[2], a[3], a[4]); }, [](const double* a, int& st) { AlbersEqualArea p(a[0], a[1], a[2], a[3], a[4]); st = 1; proj_smoke(p); });
  add("AlbersEqualArea(a,f,sin1,cos1,sin2,cos2,k1)", "a:a f:f sinlat1:s coslat1:c sinlat2:s coslat2:c k1:k", {{A, F, 0.6, 0.8, 0.6, 0.8, 1}, {A, F, 0.28, 0.96, 0.8, 0.6, 1}}, [](const double* a) { return ctorv::albers2sc(a[0], a[1], a[2], a[3], a[4], a[5], a[6]); }, [](const double* a, int& st) { AlbersEqualArea p(a[0], a[1], a[2], a[3], a[4], a[5], a[6]); st = 1; proj_smoke(p); });
  add("AlbersEqualArea::SetScale(lat,k)", "lat:l k:k", {{45, 1}, {-30, 0.9996}}, [](const double* a) { return ctorv::albers_setscale(a[0], a[1]); }, [](const double* a, int& st) { AlbersEqualArea p(6378137, 1 / 298.257223563, 40, 1); p.SetScale(a[0], a[1]); st = 1; proj_smoke(p); });
  add("NormalGravity(a,GM,omega,f_J2,geometricp)", "a:a GM:r omega:r f_J2:f geometricp:b", {{A, 3.986004418e14, 7.292115e-5, F, 1}, {A, 3.986005e14, 7.292115e-5, 1.08263e-3, 0}}, [](const double* a) { return ctorv::normalgravity(a[0], a[1], a[2], a[3], a[4] != 0); },
      [](const double* a, int& st) { NormalGravity n(a[0], a[1], a[2], a[3], a[4] != 0); st = 1; double gy, gz, x, y, z; volatile double s = n.SurfaceGravity(40) + n.Gravity(40, 1000, gy, gz) + n.U(a[0], 1, 2, x, y, z) + n.V0(a[0], 1, 2, x, y, z) + n.Phi(a[0], 1, x, y) + n.DynamicalFormFactor(2) + n.DynamicalFormFactor(8) + n.Flattening(); (void)s; });
  add("EllipticFunction(k2,alpha2)", "k2:e alpha2:e", {{0.5, 0.25}, {-3, 1}}, [](const double* a) { return ctorv::elliptic2(a[0], a[1]); }, [](const double* a, int& st) { EllipticFunction e(a[0], a[1]); st = 1; volatile double s = e.K() + e.E() + e.D() + e.Pi() + e.G() + e.H() + e.F(0.7) + e.E(0.7) + e.Ed(40) + e.Einv(0.5) + e.Pi(0.7) + e.G(0.7) + e.H(0.7) + e.D(0.7) + e.am(0.4); double sn, cn, dn; e.sncndn(0.4, sn, cn, dn); (void)s; });
  add("EllipticFunction(k2,alpha2,kp2,alphap2)", "k2:e alpha2:e kp2:e alphap2:e", {{0.5, 0.25, 0.5, 0.75}, {-3, 1, 4, 0}}, [](const double* a) { return ctorv::elliptic4(a[0], a[1], a[2], a[3]); }, [](const double* a, int& st) { EllipticFunction e(a[0], a[1], a[2], a[3]); st = 1; volatile double s = e.K() + e.E() + e.D() + e.Pi() + e.G() + e.H() + e.F(0.7) + e.E(0.7) + e.Ed(40) + e.Einv(0.5); (void)s; });
  add("EllipticFunction::Reset(k2,alpha2)", "k2:e alpha2:e", {{0.5, 0.25}}, [](const double* a) { return ctorv::elliptic2(a[0], a[1]); }, [](const double* a, int& st) { EllipticFunction e(0.1, 0.2); e.Reset(a[0], a[1]); st = 1; volatile double s = e.K() + e.F(0.3); (void)s; });
  add("Intersect(Geodesic(a,f,exact))", "a:a f:f", AF, [](const double* a) { return ctorv::intersect(a[0], a[1]); }, [](const double* a, int& st) { Geodesic g(a[0], a[1], true); Intersect x(g); st = 1; int c; auto p = x.Closest(0, 0, 45, 1, 2, -30, Intersect::Point(0, 0), &c); auto q = x.Next(0, 0, 45, 80, &c); (void)p; (void)q; });
  // --- objects that document no exception ("never throws"): any tuple is VALID
  auto always = [](const double*) { return ctorv::VALID; };
  add("GeodesicLine(g,lat1,lon1,azi1,caps)", "lat1:g lon1:g azi1:g caps:i", {{10, 20, 30, (double)Geodesic::ALL}, {-80, 170, -100, (double)(Geodesic::LATITUDE | Geodesic::LONGITUDE)}}, always, [](const double* a, int& st) { GeodesicLine l(Geodesic::WGS84(), a[0], a[1], a[2], (unsigned)(int)a[3]); st = 1; double la, lo, az, m, M1, M2, S; l.Position(1e6, la, lo, az, m, M1, M2, S); l.ArcPosition(100, la, lo); });
  add("GeodesicLineExact(g,lat1,lon1,azi1,caps)", "lat1:g lon1:g azi1:g caps:i", {{10, 20, 30, (double)GeodesicExact::ALL}}, always, [](const double* a, int& st) { GeodesicLineExact l(GeodesicExact::WGS84(), a[0], a[1], a[2], (unsigned)(int)a[3]); st = 1; double la, lo, az, m, M1, M2, S; l.Position(1e6, la, lo, az, m, M1, M2, S); l.ArcPosition(100, la, lo); });
  add("Geodesic::DirectLine(lat1,lon1,azi1,s12,caps)", "lat1:g lon1:g azi1:g s12:g caps:i", {{10, 20, 30, 1e6, (double)Geodesic::ALL}}, always, [](const double* a, int& st) { GeodesicLine l = Geodesic::WGS84().DirectLine(a[0], a[1], a[2], a[3], (unsigned)(int)a[4]); st = 1; double la, lo; l.Position(l.Distance(), la, lo); GeodesicLine l2 = Geodesic::WGS84().ArcDirectLine(a[0], a[1], a[2], a[3], (unsigned)(int)a[4]); l2.ArcPosition(l2.Arc(), la, lo); GeodesicLine l3 = Geodesic::WGS84().GenDirectLine(a[0], a[1], a[2], true, a[3], (unsigned)(int)a[4]); });
  add("Geodesic::InverseLine(lat1,lon1,lat2,lon2,caps)", "lat1:g lon1:g lat2:g lon2:g caps:i", {{10, 20, 30, 40, (double)Geodesic::ALL}}, always, [](const double* a, int& st) { GeodesicLine l = Geodesic::WGS84().InverseLine(a[0], a[1], a[2], a[3], (unsigned)(int)a[4]); st = 1; double la, lo; l.Position(l.Distance(), la, lo); l.SetDistance(5); l.SetArc(7); });
  add("GeodesicExact::InverseLine(lat1,lon1,lat2,lon2,caps)", "lat1:g lon1:g lat2:g lon2:g caps:i", {{10, 20, 30, 40, (double)GeodesicExact::ALL}}, always, [](const double* a, int& st) { GeodesicLineExact l = GeodesicExact::WGS84().InverseLine(a[0], a[1], a[2], a[3], (unsigned)(int)a[4]); st = 1; double la, lo; l.Position(l.Distance(), la, lo); GeodesicLineExact l2 = GeodesicExact::WGS84().DirectLine(a[0], a[1], a[2], a[3], (unsigned)(int)a[4]); l2.Position(1, la, lo); });
  add("Rhumb::Line(lat1,lon1,azi12)", "lat1:g lon1:g azi12:g", {{10, 20, 30}}, always, [](const double* a, int& st) { RhumbLine l = Rhumb::WGS84().Line(a[0], a[1], a[2]); st = 1; double la, lo, S; l.Position(1e6, la, lo, S); });
  add("LocalCartesian(lat0,lon0,h0)", "lat0:g lon0:g h0:g", {{10, 20, 30}}, always, [](const double* a, int& st) { LocalCartesian l(a[0], a[1], a[2]); st = 1; double x, y, z, la, lo, h; l.Forward(11, 21, 31, x, y, z); l.Reverse(1000, 2000, 3000, la, lo, h); l.Reset(a[2], a[0], a[1]); });
  add("CassiniSoldner(lat0,lon0)", "lat0:g lon0:g", {{10, 20}}, always, [](const double* a, int& st) { CassiniSoldner c(a[0], a[1], Geodesic::WGS84()); st = 1; double x, y, la, lo; c.Forward(11, 21, x, y); c.Reverse(1000, 2000, la, lo); c.Reset(a[1], a[0]); });
  add("Accumulator(y)+AuxAngle(y,x)", "y:g x:g", {{1, 2}}, always, [](const double* a, int& st) { Accumulator<> acc(a[0]); AuxAngle ang(a[0], a[1]); st = 1; acc += a[1]; acc *= a[0]; acc.remainder(a[1]); volatile double s = acc() + acc(a[0]) + ang.degrees() + ang.radians() + ang.lam() + ang.lamd() + ang.normalized().y() + ang.copyquadrant(AuxAngle(a[1], a[0])).x(); (void)s; });
  // --- integer parameters
  add("NearestNeighbor(pts,dist,bucket)", "bucket:i", {{4}, {0}, {10}}, [](const double* a) { return ctorv::nn_bucket((long long)a[0]); }, [](const double* a, int& st) { std::vector<double> pts = {0.5, 3.25, 7, 1.5, 9.75, 2, 2, 11}; NearestNeighbor<double, double, Dist1> t(pts, Dist1(), (int)a[0]); st = 1; std::vector<int> ind; t.Search(pts, Dist1(), 3.0, ind, 3); NearestNeighbor<double, double, Dist1> u; u.Initialize(pts, Dist1(), (int)a[0]); });
  add("SphericalHarmonic(C,S,N,a)", "N:i csize:n ssize:n", {{2, 6, 3}, {-1, 0, 0}, {0, 1, 0}}, [](const double* a) { return ctorv::sph((long long)a[0], (long long)a[1], (long long)a[2]); },
      [](const double* a, int& st) { std::vector<double> C((size_t)a[1], 0.5), S((size_t)a[2], 0.25); C.shrink_to_fit(); S.shrink_to_fit(); SphericalHarmonic h(C, S, (int)a[0], 6.4e6); st = 1; double gx, gy, gz; volatile double v = h(7e6, 1e5, 2e5) + h(7e6, 1e5, 2e5, gx, gy, gz) + h.Circle(6e6, 1e6, true)(30.0); (void)v; });
  add("SphericalHarmonic(C,S,N,nmx,mmx,a)", "N:i nmx:i mmx:i csize:n ssize:n", {{2, 2, 1, 6, 3}, {3, 2, 2, 10, 6}, {-1, -1, -1, 0, 0}}, [](const double* a) { return ctorv::sph3((long long)a[0], (long long)a[1], (long long)a[2], (long long)a[3], (long long)a[4]); },
      [](const double* a, int& st) { std::vector<double> C((size_t)a[3], 0.5), S((size_t)a[4], 0.25); C.shrink_to_fit(); S.shrink_to_fit(); SphericalHarmonic h(C, S, (int)a[0], (int)a[1], (int)a[2], 6.4e6); st = 1; double gx, gy, gz; volatile double v = h(7e6, 1e5, 2e5, gx, gy, gz) + h.Circle(6e6, 1e6, false)(30.0); (void)v; });
  add("SphericalHarmonic1(C,S,N,C1,S1,N1,a)", "N:i N1:i", {{2, 1}, {2, -1}, {1, 1}}, [](const double* a) { long long N = (long long)a[0], N1 = (long long)a[1]; if (!(N1 <= N && N1 >= -1)) return ctorv::inv("degree-range"); if (ctorv::sph(N, 6, 3) == ctorv::INVALID || ctorv::sph(N1, 6, 3) == ctorv::INVALID) return ctorv::INVALID; return ctorv::VALID; },
      [](const double* a, int& st) { std::vector<double> C(6, 0.5), S(3, 0.25), C1(6, 0.1), S1(3, 0.2); C.shrink_to_fit(); S.shrink_to_fit(); C1.shrink_to_fit(); S1.shrink_to_fit(); SphericalHarmonic1 h(C, S, (int)a[0], C1, S1, (int)a[1], 6.4e6); st = 1; double gx, gy, gz; volatile double v = h(0.5, 7e6, 1e5, 2e5, gx, gy, gz) + h.Circle(0.5, 6e6, 1e6, true)(30.0); (void)v; });
  add("DST(N)", "N:i", {{4}, {0}}, always, [](const double* a, int& st) { DST d((int)a[0]); st = 1; if (d.N() > 0 && d.N() <= 64) { std::vector<double> F(2 * d.N()); d.transform([](double x) { return std::sin(x) + 0.5 * std::sin(3 * x); }, F.data()); d.refine([](double x) { return std::sin(x); }, F.data()); volatile double v = DST::eval(0.6, 0.8, F.data(), d.N()) + DST::integral(0.6, 0.8, F.data(), d.N()); (void)v; } d.reset((int)a[0] / 2); });
  add("PolygonArea(geod,polyline)+Gnomonic+AzimuthalEquidistant", "polyline:b", {{0}}, always, [](const double* a, int& st) { PolygonArea p(Geodesic::WGS84(), a[0] != 0); Gnomonic g(Geodesic::WGS84()); AzimuthalEquidistant ae(Geodesic::WGS84()); st = 1; p.AddPoint(1, 2); p.AddPoint(3, 4); p.AddEdge(30, 1e5); double per, area; p.Compute(false, true, per, area); double x, y, la, lo; g.Forward(1, 2, 3, 4, x, y); g.Reverse(1, 2, x, y, la, lo); ae.Forward(1, 2, 3, 4, x, y); ae.Reverse(1, 2, x, y, la, lo); });
  // --- file-backed objects: a missing file must be refused with GeographicErr; truncation arguments on valid tiny files
  add("Geoid(name,path,cubic,threadsafe)", "missing:b cubic:b threadsafe:b", {{0, 1, 0}}, [](const double* a) { return a[0] != 0 ? ctorv::inv("missing-file") : ctorv::VALID; }, [](const double* a, int& st) { Geoid g(a[0] != 0 ? "nosuchfile" : "tiny", g_dir, a[1] != 0, a[2] != 0); st = 1; volatile double v = g(10, 20) + g(-90, 0) + g(90, 359); (void)v; });
  add("MagneticModel(name,path,earth,Nmax,Mmax)", "missing:b Nmax:i Mmax:i", {{0, -1, -1}, {0, 2, 1}}, [](const double* a) { if (a[0] != 0) return ctorv::inv("missing-file"); return (a[1] >= 0 && a[2] > a[1]) ? ctorv::SILENT : ctorv::VALID; }, [](const double* a, int& st) { MagneticModel m(a[0] != 0 ? "nosuchfile" : "tiny", g_dir, Geocentric::WGS84(), (int)a[1], (int)a[2]); st = 1; double bx, by, bz; m(2022, 10, 20, 300, bx, by, bz); m.Circle(2022, 10, 300)(20, bx, by, bz); });
  add("GravityModel(name,path,Nmax,Mmax)", "missing:b Nmax:i Mmax:i", {{0, -1, -1}, {0, 2, 1}}, [](const double* a) { if (a[0] != 0) return ctorv::inv("missing-file"); if (a[1] >= 0 && a[2] > a[1]) return ctorv::SILENT; return ctorv::VALID; }, [](const double* a, int& st) { GravityModel g(a[0] != 0 ? "nosuchfile" : "tiny", g_dir, (int)a[1], (int)a[2]); st = 1; double x, y, z; volatile double v = g.Gravity(10, 20, 300, x, y, z) + g.GeoidHeight(10, 20) + g.Circle(10, 300).Gravity(20, x, y, z); (void)v; });
  return R;
}

// tuples: every tuple differing from a base in at most `maxsub` positions (or the full product when small)
static void enumerate0(const Ctor& c, bool T, std::vector<std::vector<double>>& out, std::string& how);
// the tuples with a singles-only value (each costs the 2 s watchdog while the EllipticFunction hang is open) are
// spread evenly through the list so that they land in different units, i.e. on different shards
static void enumerate(const Ctor& c, bool T, std::vector<std::vector<double>>& out, std::string& how) {
  std::vector<std::vector<double>> all; enumerate0(c, T, all, how);
  std::vector<std::vector<double>> normal, hostile;
  for (auto& t : all) { bool h = false; for (size_t i = 0; i < t.size(); ++i) for (double x : singles_only(c.kinds[i])) if (mc::same_bits(x, t[i])) h = true; (h ? hostile : normal).push_back(t); }
  size_t k = 0;
  for (size_t i = 0; i < normal.size(); ++i) {
    while (k < hostile.size() && (k + 1) * normal.size() / (hostile.size() + 1) <= i) out.push_back(hostile[k++]);
    out.push_back(normal[i]);
  }
  while (k < hostile.size()) out.push_back(hostile[k++]);
}
static void enumerate0(const Ctor& c, bool T, std::vector<std::vector<double>>& out, std::string& how) {
  const size_t n = c.kinds.size();
  std::set<std::vector<uint64_t>> seen;
  auto push = [&](const std::vector<double>& t) { std::vector<uint64_t> k; for (double x : t) k.push_back(mc::bits(x)); if (seen.insert(k).second) out.push_back(t); };
  // full product?
  if (T) {
    double prod = 1; std::vector<std::vector<double>> al(n);
    for (size_t i = 0; i < n; ++i) { std::set<uint64_t> s; for (auto& b : c.bases) for (double x : alphabet(c.kinds[i], b[i], T)) if (s.insert(mc::bits(x)).second) al[i].push_back(x); prod *= al[i].size(); }
    if (prod <= 30000) {
      std::vector<size_t> idx(n, 0);
      while (true) { std::vector<double> t(n); for (size_t i = 0; i < n; ++i) t[i] = al[i][idx[i]]; push(t); size_t p = 0; while (p < n && ++idx[p] == al[p].size()) idx[p++] = 0; if (p == n) break; }
      for (auto& b : c.bases) for (size_t i = 0; i < n; ++i) for (double x : singles_only(c.kinds[i])) { std::vector<double> t = b; t[i] = x; push(t); }
      how = "full product"; return;
    }
  }
  const size_t maxsub = (T && n <= 4) ? 3 : 2;
  how = "all tuples differing from a valid base tuple in <= " + std::to_string(maxsub) + " positions";
  for (auto& b : c.bases) {
    push(b);
    std::vector<std::vector<double>> al(n); for (size_t i = 0; i < n; ++i) al[i] = alphabet(c.kinds[i], b[i], T);
    for (size_t i = 0; i < n; ++i) for (double x : singles_only(c.kinds[i])) { std::vector<double> t = b; t[i] = x; push(t); }
    for (size_t i = 0; i < n; ++i) for (double x : al[i]) {
      std::vector<double> t = b; t[i] = x; push(t);
      if (maxsub >= 2) for (size_t j = i + 1; j < n; ++j) for (double y : al[j]) {
        std::vector<double> t2 = t; t2[j] = y; push(t2);
        if (maxsub >= 3) for (size_t k = j + 1; k < n; ++k) for (double z : al[k]) { std::vector<double> t3 = t2; t3[k] = z; push(t3); }
      }
    }
  }
}

int main(int argc, char** argv) {
  Ctx ctx(argc, argv);
  const bool T = ctx.thorough();
  g_dir = fault::tmp_dir("C13");
  fault::write_file(g_dir + "/tiny.pgm", tiny::geoid_image());
  fault::write_file(g_dir + "/tiny.wmm", tiny::wmm_meta()); fault::write_file(g_dir + "/tiny.wmm.cof", tiny::wmm_cof());
  fault::write_file(g_dir + "/tiny.egm", tiny::egm_meta()); fault::write_file(g_dir + "/tiny.egm.cof", tiny::egm_cof());
  std::vector<Ctor> R = make_ctors();
  ctx.bound("ctor.constructors", (long long)R.size());
  fault::Isolator iso(g_dir, "ctor");
  iso.batch = 256; iso.slot_bytes = 2048;
  const size_t UNIT = 32;
  for (auto& c : R) {
    ctx.sub("ctor-" + c.name);
    std::vector<std::vector<double>> tuples; std::string how;
    enumerate(c, T, tuples, how);
    ctx.bound("ctor-" + c.name, std::to_string(tuples.size()) + " tuples (" + how + ") over " + c.spec);
    auto show = [&](const std::vector<double>& t) { std::string s = c.name + "("; for (size_t i = 0; i < t.size(); ++i) s += (i ? ", " : "") + c.names[i] + "=" + fmt(t[i]); return s + ")"; };
    auto fields = [&](const std::vector<double>& t, const char* kind, V v) {
      mc::Fields f = {{"kind", kind}, {"class", c.name.substr(0, c.name.find_first_of("(:"))}, {"ctor", c.name}, {"model", ctorv::name(v)}};
      if (v == ctorv::INVALID) f.push_back({"rule", ctorv::rule()});
      std::string cls; for (size_t i = 0; i < t.size(); ++i) { bool isbase = false; for (auto& b : c.bases) if (mc::same_bits(b[i], t[i])) isbase = true; if (!isbase) cls += (cls.empty() ? "" : ",") + c.names[i] + "=" + (c.kinds[i] == 'i' || c.kinds[i] == 'n' || c.kinds[i] == 'b' ? fmt(t[i]) : std::string(fault::value_class(t[i]))); }
      f.push_back({"args", cls});
      for (size_t i = 0; i < t.size(); ++i) if (c.kinds[i] != 'i' && c.kinds[i] != 'n' && c.kinds[i] != 'b') f.push_back({"cls." + c.names[i], fault::value_class(t[i])});
      return f;
    };
    for (size_t u0 = 0; u0 < tuples.size(); u0 += UNIT) {
      if (!ctx.take()) continue;
      size_t u1 = std::min(tuples.size(), u0 + UNIT);
      iso.skip_confirm = [&](size_t i) { const std::vector<double>& t = tuples[u0 + i]; return fault::matches_known(ctx, "hang", fields(t, "hang", c.valid(t.data()))); };
      iso.run(u1 - u0,
        [&](size_t i, Report& rep) {
          const std::vector<double>& t = tuples[u0 + i];
          V v = c.valid(t.data());
          int stage = 0;
          Thrown th = fault::guarded([&] { c.make(t.data(), stage); });
          v = c.valid(t.data());        // (sets ctorv::rule() again: the smoke calls may have evaluated other predicates)
          rep.sig(uint64_t(v) * 100 + th.oc * 4 + stage);
          if (!fault::clean(th.oc)) { auto f = fields(t, "foreign-exception", v); f.push_back({"exception", th.what.substr(0, th.what.find(':'))}); f.push_back({"stage", stage ? "use" : "construct"}); rep.fail(show(t) + "|exc", show(t) + " threw " + th.what + (stage ? " in a member call after construction" : ""), f); return; }
          if (stage == 0) {      // the constructor itself threw (GeographicErr or bad_alloc)
            if (v == ctorv::VALID) rep.fail(show(t) + "|rejected", show(t) + " is valid per the documentation but the constructor threw " + std::string(fault::name(th.oc)) + ": " + th.what, fields(t, "valid-rejected", v));
            if (v == ctorv::INVALID && th.oc != fault::GEOERR) rep.fail(show(t) + "|type", show(t) + " is invalid; expected GeographicErr, got " + fault::name(th.oc), fields(t, "wrong-exception", v));
          } else {
            if (v == ctorv::INVALID) rep.fail(show(t) + "|accepted", show(t) + " is invalid per the documentation but the constructor did not throw", fields(t, "invalid-accepted", v));
            if (th.threw()) rep.count("use-threw");     // a member call on an accepted object threw GeographicErr/bad_alloc: allowed
          }
        },
        [&](size_t i, const Result& r) {
          Ctx::Case cs(ctx);
          const std::vector<double>& t = tuples[u0 + i];
          ctx.sig(r.oc); for (auto s : r.sigs) ctx.sig(s);
          for (auto& cn : r.counts) ctx.count(cn.first, cn.second);
          for (auto& f : r.fails) { if (getenv("C13_DEBUG")) fprintf(stderr, "DBG %s :: %s\n", f.key.c_str(), f.msg.c_str()); ctx.fail(f.key, f.msg, f.fields); }
          if (r.slow) { ctx.count("slow-cases"); ctx.list("slow-cases (exceeded the 2 s watchdog, finished when re-run alone)", show(t)); }
          if (r.overflow) ctx.note("report slot overflow in " + c.name);
          if (r.fatal()) {
            V v = c.valid(t.data());
            mc::Fields f = fields(t, r.oc == fault::SANITIZER ? "sanitizer" : r.oc == fault::HANG ? "hang" : r.oc == fault::FOREIGN ? "foreign-exception" : "crash", v);
            f.push_back({"check", r.check}); f.push_back({"func", r.func}); f.push_back({"where", r.where});
            if (getenv("C13_DEBUG")) fprintf(stderr, "DBG %s -> %s\n", show(t).c_str(), r.describe().c_str());
            ctx.fail(show(t) + "|fatal", show(t) + " [" + ctorv::name(v) + "] -> " + r.describe(), f);
          }
          if (ctx.want_sample() && i == 7) ctx.sample(show(t) + " [" + ctorv::name(c.valid(t.data())) + "] -> " + r.describe());
        });
    }
  }
  ctx.count("forks", iso.forks);
  ctx.note("allocation requests above 512 MiB fail with std::bad_alloc (operator new replaced in the harness)");
  fault::rm_tmp_dir(g_dir);
  return ctx.finish();
}
