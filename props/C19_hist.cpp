// C19 part 3 -- history of the process-global square-root table (SphericalEngine::sqrttable()).
//
// Engine E2 over a global: every sequence, up to length 3 (quick) / 4 (thorough), of the operations
//     E(N)  create coefficient sets of degree N (and N/2, (N+1)/2 for the corrections) and evaluate SphericalHarmonic,
//           SphericalHarmonic1, SphericalHarmonic2 (value, value + gradient at 2 probe points, Circle with gradient), both norms
//     R(N)  SphericalEngine::RootTable(N)
//     C     SphericalEngine::ClearRootTable()
// with the degrees chosen to interleave with every growth threshold of the table (sizes 16, 22, 24, 30, 32, 46, 48, 86), is
// executed IN A FRESH PROCESS (fork per sequence; the parent never touches the library's table), results come back through a
// pipe.  Oracles:
//   (1) differential: every evaluation in every history is BITWISE the evaluation of the same coefficient sets in a fresh
//       process without history;
//   (2) every evaluation agrees with the direct-series oracle (oracle/sph_sum.hpp) within the usual tolerance;
//   (3) invariant after every operation: sqrttable()[k] == sqrt(k) for all k < size, size >= max(2N+5,15)+1 after RootTable(N) /
//       after constructing a coefficient set of degree N, size == 0 after ClearRootTable() (canonical state = size + contents).
// Nothing is sampled; the enumeration order is fixed (by length, then lexicographic in the alphabet).
#include "mc/ctx.hpp"
#include "oracle/sph_sum.hpp"
#include "oracle/sph_tol.hpp"
#include <GeographicLib/SphericalHarmonic.hpp>
#include <GeographicLib/SphericalHarmonic1.hpp>
#include <GeographicLib/SphericalHarmonic2.hpp>
#include <GeographicLib/CircularEngine.hpp>
#include <unistd.h>
#include <sys/wait.h>
#include <string>
#include <vector>
#include <map>

using namespace GeographicLib;
using mc::Ctx; using mc::fx; using mc::fmt; using mc::fmti;
using sph::Q;
using namespace sphtol;

struct Op { char kind; int N; };
static std::string opname(const Op& o) { return o.kind == 'C' ? std::string("Clear") : std::string(1, o.kind) + "(" + fmti(o.N) + ")"; }
static std::string seqname(const std::vector<Op>& s) { std::string r; for (auto& o : s) r += (r.empty() ? "" : " ") + opname(o); return r; }

// ---------------------------------------------------------------- the evaluation operation
static const double A0 = 6378137.0;
static const double PT[2][3] = {{0.5 * 1.2 * A0, -0.7 * 1.2 * A0, 0.6 * 1.2 * A0}, {-0.2 * 0.95 * A0, 0.1 * 0.95 * A0, -0.9 * 0.95 * A0}};
static const double CLON = 33, TAU1 = 0.3, TAU2 = 0.7;
struct Lay {
  int N; std::vector<double> C, S;
  Lay(int N_, int salt) : N(N_), C(size_t((N_ + 1) * (N_ + 2) / 2), 0.0), S(size_t(N_ * (N_ + 1) / 2), 0.0) {
    for (int n = 0; n <= N; ++n) for (int m = 0; m <= n; ++m) {
      double d = 1.0 / (n + 1);
      C[ci(n, m)] = ((n * 7 + m * 13 + salt * 5) % 23 - 11) / 8.0 * d;
      if (m) S[si(n, m)] = ((n * 5 + m * 11 + salt * 3) % 19 - 9) / 8.0 * d;
    }
  }
  int ci(int n, int m) const { return m * N - m * (m - 1) / 2 + n; }
  int si(int n, int m) const { return ci(n, m) - (N + 1); }
  double c(int n, int m) const { return (n <= N && m <= n) ? C[ci(n, m)] : 0; }
  double s(int n, int m) const { return (n <= N && m <= n && m > 0) ? S[si(n, m)] : 0; }
};
static const int NVAL = 2 * 3 * 14;          // per norm, per class: 2 points x (v, v', gx, gy, gz) + circle (v, gx, gy, gz)
// library side (runs in the child)
static void eval_lib(int N, double* out) {
  Lay A(N, 1), B(N / 2, 2), D((N + 1) / 2, 3);
  double p = std::hypot(PT[0][0], PT[0][1]), z = PT[0][2];
  int k = 0;
  for (int norm = 0; norm < 2; ++norm) for (int cls = 0; cls < 3; ++cls) {
    SphericalHarmonic h0; SphericalHarmonic1 h1; SphericalHarmonic2 h2;
    if (cls == 0) h0 = SphericalHarmonic(A.C, A.S, N, A0, norm);
    else if (cls == 1) h1 = SphericalHarmonic1(A.C, A.S, N, B.C, B.S, B.N, A0, norm);
    else h2 = SphericalHarmonic2(A.C, A.S, N, B.C, B.S, B.N, D.C, D.S, D.N, A0, norm);
    for (int ip = 0; ip < 2; ++ip) {
      double x = PT[ip][0], y = PT[ip][1], zz = PT[ip][2], g[3] = {0, 0, 0}, v, v2;
      if (cls == 0) { v = h0(x, y, zz); v2 = h0(x, y, zz, g[0], g[1], g[2]); }
      else if (cls == 1) { v = h1(TAU1, x, y, zz); v2 = h1(TAU1, x, y, zz, g[0], g[1], g[2]); }
      else { v = h2(TAU1, TAU2, x, y, zz); v2 = h2(TAU1, TAU2, x, y, zz, g[0], g[1], g[2]); }
      out[k++] = v; out[k++] = v2; out[k++] = g[0]; out[k++] = g[1]; out[k++] = g[2];
    }
    CircularEngine c = cls == 0 ? h0.Circle(p, z, true) : cls == 1 ? h1.Circle(TAU1, p, z, true) : h2.Circle(TAU1, TAU2, p, z, true);
    double g[3] = {0, 0, 0};
    out[k++] = c(CLON, g[0], g[1], g[2]); out[k++] = g[0]; out[k++] = g[1]; out[k++] = g[2];
  }
}
// oracle side (parent): the reference sums in the order of eval_lib
struct Expect { sph::Sum s; bool isgrad; int comp; bool circle; const char* what; };
static std::vector<Expect> eval_ref(int N) {
  Lay A(N, 1), B(N / 2, 2), D((N + 1) / 2, 3);
  std::vector<Expect> E;
  double p = std::hypot(PT[0][0], PT[0][1]);
  Q lam = Q(CLON) * sph::qpi() / 180;
  static const char* names[3] = {"SphericalHarmonic", "SphericalHarmonic1", "SphericalHarmonic2"};
  for (int norm = 0; norm < 2; ++norm) for (int cls = 0; cls < 3; ++cls) {
    auto coef = [&](int n, int m, Q& C, Q& S, Q& aC, Q& aS) {
      Q c[3] = {Q(A.c(n, m)), cls >= 1 ? Q(TAU1) * B.c(n, m) : Q(0), cls >= 2 ? Q(TAU2) * D.c(n, m) : Q(0)};
      Q s[3] = {Q(A.s(n, m)), cls >= 1 ? Q(TAU1) * B.s(n, m) : Q(0), cls >= 2 ? Q(TAU2) * D.s(n, m) : Q(0)};
      C = c[0] + c[1] + c[2]; S = s[0] + s[1] + s[2];
      aC = sph::qabs(c[0]) + sph::qabs(c[1]) + sph::qabs(c[2]); aS = sph::qabs(s[0]) + sph::qabs(s[1]) + sph::qabs(s[2]);
    };
    auto sum_at = [&](Q x, Q y, Q z) {
      sph::Sum s; Q r = sqrtq(x * x + y * y + z * z);
      sph::for_each_term(norm, Q(A0), N, N, x, y, z, [&](const sph::Term& t) { Q C, S, aC, aS; coef(t.n, t.m, C, S, aC, aS); s.add(t, C, S, aC, aS, r); });
      return s;
    };
    for (int ip = 0; ip < 2; ++ip) {
      sph::Sum s = sum_at(Q(PT[ip][0]), Q(PT[ip][1]), Q(PT[ip][2]));
      E.push_back({s, false, 0, false, names[cls]}); E.push_back({s, false, 0, false, names[cls]});
      for (int i = 0; i < 3; ++i) E.push_back({s, true, i, false, names[cls]});
    }
    sph::Sum s = sum_at(Q(p) * cosq(lam), Q(p) * sinq(lam), Q(PT[0][2]));
    E.push_back({s, false, 0, true, names[cls]});
    for (int i = 0; i < 3; ++i) E.push_back({s, true, i, true, names[cls]});
  }
  return E;
}

// ---------------------------------------------------------------- the child: run one history, report after every operation
struct Rec { int size; int bad; uint64_t hash, cov; int nval; double val[NVAL]; };
static void table_state(int& size, int& bad, uint64_t& hash) {
  const std::vector<double>& t = SphericalEngine::sqrttable();
  size = (int)t.size(); bad = -1; hash = 0x9e3779b97f4a7c15ULL ^ (uint64_t)size;
  for (int k = 0; k < size; ++k) {
    double want = std::sqrt(double(k));
    if (bad < 0 && !mc::same_bits(t[k], want)) bad = k;
    hash = mc::mix64(hash + mc::bits(t[k]));
  }
}
static void write_all(int fd, const void* p, size_t n) { const char* c = (const char*)p; while (n) { ssize_t w = write(fd, c, n); if (w <= 0) _exit(3); c += w; n -= (size_t)w; } }
static void child_run(const std::vector<Op>& seq, int fd) {
  if (!SphericalEngine::sqrttable().empty()) _exit(4);          // the harness process must never have touched the table
  for (auto& o : seq) {
    Rec r; memset(&r, 0, sizeof r);
    mc::Cov& c = mc::cov(); c.sig = 0; c.ntouched = 0; c.on = true;
    try {
      if (o.kind == 'E') { eval_lib(o.N, r.val); r.nval = NVAL; }
      else if (o.kind == 'R') SphericalEngine::RootTable(o.N);
      else SphericalEngine::ClearRootTable();
    } catch (...) { r.nval = -1; }
    c.on = false; r.cov = c.sig;
    for (unsigned i = 0; i < c.ntouched; ++i) c.cur[c.touched[i]] = 0;
    table_state(r.size, r.bad, r.hash);
    write_all(fd, &r, sizeof r);
  }
  _exit(0);
}
// parent: fork, collect the records; returns the child's exit status (0 ok; -sig on a signal)
static int run_history(const std::vector<Op>& seq, std::vector<Rec>& recs) {
  int fds[2]; if (pipe(fds) != 0) { perror("pipe"); exit(2); }
  pid_t pid = fork();
  if (pid < 0) { perror("fork"); exit(2); }
  if (pid == 0) { close(fds[0]); child_run(seq, fds[1]); _exit(0); }
  close(fds[1]);
  recs.clear();
  Rec r; size_t got = 0; char* buf = (char*)&r;
  while (true) {
    ssize_t n = read(fds[0], buf + got, sizeof r - got);
    if (n <= 0) break;
    got += (size_t)n;
    if (got == sizeof r) { recs.push_back(r); got = 0; }
  }
  close(fds[0]);
  int st = 0; waitpid(pid, &st, 0);
  if (WIFSIGNALED(st)) return -WTERMSIG(st);
  return WEXITSTATUS(st);
}
static int needed(int N) { return std::max(2 * N + 5, 15) + 1; }

int main(int argc, char** argv) {
  Ctx ctx(argc, argv);
  const bool T = ctx.thorough();
  const int EN[10] = {0, 1, 2, 3, 5, 8, 12, 13, 20, 40}, RN[3] = {4, 9, 21};
  std::vector<Op> alpha;
  for (int n : EN) alpha.push_back({'E', n});
  for (int n : RN) alpha.push_back({'R', n});
  alpha.push_back({'C', 0});
  const int L = T ? 4 : 3, K = (int)alpha.size();
  ctx.sub("history");
  ctx.bound("history.alphabet", "E(N): construct + evaluate SphericalHarmonic/1/2 (value, gradient at 2 points, Circle) for N in {0,1,2,3,5,8,12,13,20,40}; R(N) = RootTable(N), N in {4,9,21}; Clear = ClearRootTable(); 14 operations (table sizes 16,22,24,30,32,46,48,86)");
  ctx.bound("history.length", "every sequence of length 1.." + fmti(L) + " (" + fmti(T ? 14 + 196 + 2744 + 38416 : 14 + 196 + 2744) + " histories), each in a fresh forked process");
  ctx.note("history: oracles per evaluation = bitwise identity with the same evaluation in a fresh process without history + agreement with the direct-series oracle; invariant after every operation: sqrttable()[k] == sqrt(k) for all k < size, size large enough for the degree just requested, size 0 after ClearRootTable()");

  // references: each E(N) alone in a fresh process; oracle sums
  std::map<int, std::vector<double>> fresh; std::map<int, std::vector<Expect>> expect;
  for (int n : EN) {
    std::vector<Rec> rc; int st = run_history({{'E', n}}, rc);
    if (st != 0 || rc.size() != 1 || rc[0].nval != NVAL) { ctx.sub("history-reference"); Ctx::Case cas(ctx); ctx.fail("reference E(" + fmti(n) + ")", "evaluation in a fresh process failed (status " + fmti(st) + ")", {{"kind", "crash"}, {"N", fmti(n)}}); fresh[n] = std::vector<double>(NVAL, NAN); ctx.sub("history"); }
    else fresh[n] = std::vector<double>(rc[0].val, rc[0].val + NVAL);
    expect[n] = eval_ref(n);
  }

  std::vector<int> idx;
  for (int len = 1; len <= L; ++len) {
    idx.assign(len, 0);
    while (true) {
      if (ctx.take()) {
        Ctx::Case cas(ctx);
        std::vector<Op> seq; for (int i : idx) seq.push_back(alpha[i]);
        const std::string key = "history [" + seqname(seq) + "]";
        std::vector<Rec> recs; int st = run_history(seq, recs);
        ctx.count("histories"); ctx.count("operations", seq.size());
        mc::Fields F{{"length", fmti(len)}};
        auto FF = [&](const char* kind, const Op& o) { mc::Fields g = F; g.push_back({"kind", kind}); g.push_back({"op", opname(o)}); return g; };
        if (st != 0 || recs.size() != seq.size()) {
          const Op& o = seq[std::min(recs.size(), seq.size() - 1)];
          ctx.fail(key + " died", "child process ended with status " + fmti(st) + " after " + fmti((long long)recs.size()) + " of " + fmti((long long)seq.size()) + " operations", FF("crash", o));
        }
        uint64_t hs = 0;
        for (size_t io = 0; io < recs.size(); ++io) {
          const Rec& r = recs[io]; const Op& o = seq[io];
          const std::string okey = key + " op#" + fmti((long long)io + 1) + "=" + opname(o);
          hs = mc::mix64(hs + r.cov + (uint64_t)r.size * 131 + (r.bad >= 0));
          ctx.list("table-states", "size=" + fmti(r.size) + (r.bad >= 0 ? " CORRUPT" : " all entries sqrt(k)"));
          // (3) invariant on the canonical state
          if (r.bad >= 0) ctx.fail(okey + " table", "after this operation sqrttable() has size " + fmti(r.size) + " but entry [" + fmti(r.bad) + "] is not sqrt(" + fmti(r.bad) + ")", FF("table-invariant", o));
          if (o.kind == 'C' ? r.size != 0 : r.size < needed(o.N)) ctx.fail(okey + " size", "table size " + fmti(r.size) + " after " + opname(o) + (o.kind == 'C' ? " (expected 0)" : " (needs " + fmti(needed(o.N)) + ")"), FF("table-size", o));
          if (o.kind != 'E') continue;
          if (r.nval != NVAL) { ctx.fail(okey + " threw", "evaluation threw an exception", FF("exception", o)); continue; }
          const std::vector<double>& fr = fresh[o.N]; const std::vector<Expect>& ex = expect[o.N];
          // (1) differential oracle
          int nd = 0, first = -1;
          for (int k = 0; k < NVAL; ++k) if (!mc::same_bits(r.val[k], fr[k])) { if (first < 0) first = k; ++nd; }
          if (nd) ctx.fail(okey + " differential", fmti(nd) + " of " + fmti(NVAL) + " results differ bitwise from the same evaluation in a fresh process; first: " + ex[first].what + (ex[first].circle ? " circle" : "") + (ex[first].isgrad ? " gradient" : " value") + " = " + fx(r.val[first]) + " vs " + fx(fr[first]), FF("history-dependent", o));
          // (2) direct-series oracle
          for (int k = 0; k < NVAL; ++k) {
            const Expect& e = ex[k];
            Q R = sqrtq(Q(PT[0][0]) * PT[0][0] + Q(PT[0][1]) * PT[0][1] + Q(PT[0][2]) * PT[0][2]);
            Q extra = e.circle ? Q(4 * EPS) * R * (e.isgrad ? e.s.sh : e.s.sg) : Q(0);
            Q ref = e.isgrad ? e.s.g[e.comp] : e.s.v, tol = e.isgrad ? tol_g(e.s, extra) : tol_v(e.s, extra), err = sph::qabs(Q(r.val[k]) - ref);
            double ratio = (r.val[k] == r.val[k]) ? double(err / tol) : INFINITY;
            ctx.worstf(std::string("history.") + (e.isgrad ? "gradient" : "value") + ".err_over_tol", ratio, [&] { return okey; });
            if (!(ratio <= 1)) { ctx.fail(okey + " oracle", std::string(e.what) + (e.circle ? " circle" : "") + (e.isgrad ? " gradient component" : " value") + " = " + fx(r.val[k]) + " but the defining sum gives " + sph::qstr(ref) + " (err/tol " + fmt(ratio) + ")", FF("value", o)); break; }
          }
        }
        ctx.sig(hs);
        if (ctx.want_sample()) ctx.sample(key);
      }
      int k = len - 1; while (k >= 0 && ++idx[k] == K) { idx[k] = 0; --k; }
      if (k < 0) break;
    }
  }
  return ctx.finish();
}
