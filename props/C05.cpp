// C05 -- MGRS conversion is closed, exact and digit-consistent.
// Engines E1 (every 100 km block, point/precision lattices) + E4 (all short strings, single edits of valid strings).
// Reference: models/mgrs_ref.hpp (letters, ranges, folding, exact digit truncation, string grammar -- written from the
// MGRS standard and the MGRS.hpp documentation) and, for "some part of the block lies in the band" and for the band
// letter of a point, the latitude given by UTMUPS::Reverse (decided by C04/C06) on the perimeter of the block / at the
// point, with the documented 5 nm (x 2) "either band" allowance.  Nothing is sampled.
#include "mc/ctx.hpp"
#include "mc/exact.hpp"
#include "models/utm_rules.hpp"
#include "models/mgrs_ref.hpp"
#include <GeographicLib/MGRS.hpp>
#include <GeographicLib/UTMUPS.hpp>
#include <string>
#include <vector>
#include <map>
#include <set>
#include <memory>
#include <algorithm>
#include <climits>

using namespace GeographicLib;
using mc::Ctx; using mc::fx; using mc::fmt; using mc::fmti; using mc::same_bits;

static const double SX = -12345.678, SY = -23456.789;
static const int ISENT = -777;
// MGRS.hpp: "a neighboring latitude band letter may be given if the point is within 5nm of a band boundary";
// 2 x 5 nm of meridian arc in degrees (1 degree >= 110.5 km)
static const double BAND_EITHER_DEG = 10e-9 / 110500.0;

// ------------------------------------------------------------------ library calls with outcome capture
struct Out { int outcome = 0; std::string what; };      // 0 returned, 1 GeographicErr, 2 foreign exception, 3 fatal signal
// mc::crashed without the signal-mask save/restore (two system calls per library call).  Sound because
// mc::crash_install() installs its handlers with SA_NODEFER and an empty sa_mask: the signal mask inside the handler
// equals the mask at the sigsetjmp, so nothing needs restoring.
template <class F> static inline int crashed_fast(F f) {
  mc::crash_install();
  if (sigsetjmp(mc::crash_jmp(), 0)) return mc::crash_sig();
  mc::crash_armed() = 1;
  try { f(); } catch (...) { mc::crash_armed() = 0; throw; }
  mc::crash_armed() = 0;
  return 0;
}
template <class F> static Out guard(F f, bool contain_signals) {
  Out o;
  try {
    if (contain_signals) { int sg = crashed_fast(f); if (sg) { o.outcome = 3; o.what = "signal " + std::to_string(sg); } }
    else f();
  }
  catch (const GeographicErr& e) { o.outcome = 1; o.what = e.what(); }
  catch (const std::exception& e) { o.outcome = 2; o.what = std::string("foreign exception: ") + e.what(); }
  catch (...) { o.outcome = 2; o.what = "foreign exception"; }
  return o;
}
static const char* const UNTOUCHED = "<untouched>";
struct MF { Out o; std::string s; };
static MF lib_fwd(int zone, bool northp, double x, double y, int prec, bool sig = false) {
  MF r; r.s = UNTOUCHED; r.o = guard([&] { MGRS::Forward(zone, northp, x, y, prec, r.s); }, sig); return r;
}
static MF lib_fwd_lat(int zone, bool northp, double x, double y, double lat, int prec, bool sig = false) {
  MF r; r.s = UNTOUCHED; r.o = guard([&] { MGRS::Forward(zone, northp, x, y, lat, prec, r.s); }, sig); return r;
}
struct MR { Out o; int zone; bool northp; double x, y; int prec; };
static MR lib_rev(const std::string& s, bool centerp, bool npinit, bool sig = false) {
  MR r; r.zone = ISENT; r.northp = npinit; r.x = SX; r.y = SY; r.prec = ISENT;
  r.o = guard([&] { MGRS::Reverse(s, r.zone, r.northp, r.x, r.y, r.prec, centerp); }, sig); return r;
}
static bool rev_untouched(const MR& r, bool npinit) { return r.zone == ISENT && r.northp == npinit && same_bits(r.x, SX) && same_bits(r.y, SY) && r.prec == ISENT; }
static bool utm_lat(int zone, bool northp, double x, double y, double& lat, double& lon) {
  try { UTMUPS::Reverse(zone, northp, x, y, lat, lon); return true; } catch (...) { return false; }
}
static std::string printable(const std::string& s) {
  std::string o;
  for (unsigned char c : s) { if (c >= 0x20 && c < 0x7f && c != '\\') o += char(c); else { char b[8]; snprintf(b, sizeof b, "\\x%02x", c); o += b; } }
  return o;
}
static std::string lower(std::string s) { for (auto& c : s) if (c >= 'A' && c <= 'Z') c = char(c - 'A' + 'a'); return s; }
static std::string upper(std::string s) { for (auto& c : s) if (c >= 'a' && c <= 'z') c = char(c - 'a' + 'A'); return s; }

// ------------------------------------------------------------------ geometric reference: latitude range of every UTM block
// rowabs in [-90, 95) counted from the equator; col in [0,8).  Latitude from UTMUPS::Reverse on the perimeter (4 corners
// + 9 interior points per edge = 40 points).  On a block edge the latitude is monotone, so the extremes are at corners;
// this is verified and counted.
struct ZoneTab { double lo[8][185], hi[8][185]; long long nonmono; };
static const ZoneTab& zone_tab(int zone) {
  static std::map<int, std::unique_ptr<ZoneTab>> cache;
  auto it = cache.find(zone);
  if (it != cache.end()) return *it->second;
  std::unique_ptr<ZoneTab> t(new ZoneTab); t->nonmono = 0;
  for (int col = 0; col < 8; ++col) for (int ra = -90; ra < 95; ++ra) {
    bool np = ra >= 0;
    double x0 = (col + 1) * 100000.0, y0 = np ? ra * 100000.0 : (ra + 100) * 100000.0;
    double lo = 1e9, hi = -1e9, clo = 1e9, chi = -1e9;
    for (int side = 0; side < 4; ++side) for (int k = 0; k < 10; ++k) {
      double s = k * 10000.0, x, y;
      switch (side) { case 0: x = x0 + s; y = y0; break; case 1: x = x0 + 100000.0; y = y0 + s; break;
                      case 2: x = x0 + 100000.0 - s; y = y0 + 100000.0; break; default: x = x0; y = y0 + 100000.0 - s; }
      double lat, lon; UTMUPS::Reverse(zone, np, x, y, lat, lon);
      lo = std::min(lo, lat); hi = std::max(hi, lat);
      if (k == 0) { clo = std::min(clo, lat); chi = std::max(chi, lat); }
    }
    if (lo != clo || hi != chi) ++t->nonmono;
    t->lo[col][ra + 90] = lo; t->hi[col][ra + 90] = hi;
  }
  return *(cache[zone] = std::move(t));
}
// 1 = some part of the block certainly lies in the band, 0 = certainly none, 2 = within the "either" allowance of a band edge
static int block_in_band(int zone, int col, int ra, int band) {
  if ((band >= 10) != (ra >= 0)) return 0;                  // bands N..X are northern, C..M southern (hemisphere is preserved)
  const ZoneTab& t = zone_tab(zone);
  double lo = t.lo[col][ra + 90], hi = t.hi[col][ra + 90], D = BAND_EITHER_DEG;
  double bs = band == 0 ? -1e9 : utmref::band_south(band), bn = band == 19 ? 1e9 : utmref::band_north(band);   // C and X extend to the northing limits
  if (band == 10) bs = -1e9;        // the equator edge is decided by the hemisphere test above
  if (band == 9) bn = 1e9;
  if (hi > bs + D && lo < bn - D) return 1;
  if (hi < bs - D || lo > bn + D) return 0;
  return 2;
}
// the row (from the equator) of the block with this row letter that lies in the band: ra, or INT_MIN if none; either = some candidate is within the allowance
static int find_row(int zone, int col, int rowmod20, int band, bool& either) {
  either = false; int found = INT_MIN;
  for (int ra = -90; ra < 95; ++ra) {
    if ((((ra % 20) + 20) % 20) != rowmod20) continue;
    int c = block_in_band(zone, col, ra, band);
    if (c == 2) either = true;
    if (c == 1) found = ra;
  }
  return found;
}
// admissible band indices for a latitude (hemisphere already folded)
static void band_choices(double lat, bool northp, int& b1, int& b2) {
  b1 = utmref::band_index(lat - BAND_EITHER_DEG); b2 = utmref::band_index(lat + BAND_EITHER_DEG);
  if (northp) { b1 = std::max(b1, 10); b2 = std::max(b2, 10); } else { b1 = std::min(b1, 9); b2 = std::min(b2, 9); }
}

// ------------------------------------------------------------------ Forward at one point, all precisions, and back
struct PointStats { std::set<std::string>* seen; };
// returns false if something failed
static bool check_point(Ctx& ctx, int zone, bool northp, double x, double y, bool thorough_prec, std::set<std::string>* seen, const char* kp = "") {
  Ctx::Case cs(ctx);
  std::string key0 = "zone " + fmti(zone) + (northp ? "n" : "s") + " (" + fx(x) + "," + fx(y) + ")";
  mc::Fields F{{"zone", fmti(zone)}, {"northp", northp ? "1" : "0"}, {"x", fmt(x)}, {"y", fmt(y)}};
  // class of the northing with respect to the equator fold (used by known-finding entries)
  if (zone && northp && y < 0 && y + 10000000.0 == 10000000.0) F.push_back({"fold", y / 100000.0 == 0 ? "north-denormal-below-equator" : "north-rounds-onto-equator"});
  auto FF = [&](const std::string& kind, int prec) { mc::Fields g = F; g.push_back({"kind", std::string(kp) + kind}); g.push_back({"prec", fmti(prec)}); return g; };
  mgrsref::Cell c = mgrsref::locate(zone, northp, x, y);
  if (c.throws) {
    ctx.sig(1);
    for (int prec : {-1, 0, 5, 11}) {
      MF f = lib_fwd(zone, northp, x, y, prec);
      if (f.o.outcome >= 2) { ctx.fail(key0, f.o.what, FF("crash", prec)); return false; }
      if (f.o.outcome != 1) { ctx.fail(key0 + " prec " + fmti(prec), "coordinate outside the documented MGRS range accepted: '" + printable(f.s) + "'", FF("invalid-accepted", prec)); return false; }
      if (f.s != UNTOUCHED) { ctx.fail(key0 + " prec " + fmti(prec), "mgrs modified although the call threw", FF("touched", prec)); return false; }
    }
    return true;
  }
  // band letter(s) admissible for this point
  int b1 = 0, b2 = 0; double lat = 0, lon = 0;
  if (zone != 0) {
    if (!utm_lat(zone, northp, x, y, lat, lon)) { ctx.fail(key0, "UTMUPS::Reverse rejects a coordinate inside the MGRS range", FF("utmups", 0)); return false; }
    band_choices(lat, c.northp, b1, b2);
    if (b1 != b2) ctx.count("points_within_10nm_of_band_edge");
  }
  // points 1 ulp around a micrometre boundary: for prec 6..11 the documentation promises round-off accuracy only
  std::vector<mgrsref::Cell> alt;
  auto alts = [&]() {
    if (!alt.empty()) return;
    for (int dx = -1; dx <= 1; ++dx) for (int dy = -1; dy <= 1; ++dy) {
      if (!dx && !dy) continue;
      // neighbours of the coordinate in the numbering of its (folded) hemisphere: that is the number which is multiplied by 10^6
      double x2 = dx ? std::nextafter(x, dx * INFINITY) : x, y2 = dy ? std::nextafter(c.yn, dy * INFINITY) : c.yn;
      mgrsref::Cell c2 = mgrsref::locate(zone, c.northp, x2, y2);
      if (!c2.throws) alt.push_back(c2);
    }
  };
  ctx.sig(2 + (zone ? 0 : 1) + (c.northp != northp ? 4 : 0) + 8 * (b1 != b2));
  std::string prev; int prevp = -99;
  for (int prec = -2; prec <= 12; ++prec) {
    if (!thorough_prec && !(prec <= 0 || prec == 2 || prec == 5 || prec == 6 || prec >= 11)) continue;
    std::string key = key0 + " prec " + fmti(prec);
    MF f = lib_fwd(zone, northp, x, y, prec);
    if (f.o.outcome >= 2) { ctx.fail(key, f.o.what, FF("crash", prec)); return false; }
    if (prec < -1 || prec > 11) {
      if (f.o.outcome != 1) { ctx.fail(key, "illegal precision accepted: '" + printable(f.s) + "'", FF("prec-accepted", prec)); return false; }
      if (f.s != UNTOUCHED) { ctx.fail(key, "mgrs modified although the call threw", FF("touched", prec)); return false; }
      continue;
    }
    if (f.o.outcome != 0) { ctx.fail(key, "legal coordinate rejected: " + f.o.what, FF("valid-rejected", prec)); return false; }
    std::string e1 = mgrsref::compose(zone, c, zone ? utmref::BANDS[b1] : 0, prec);
    std::string e2 = (zone && b2 != b1) ? mgrsref::compose(zone, c, utmref::BANDS[b2], prec) : e1;
    bool ok = f.s == e1 || f.s == e2;
    if (!ok && prec >= 6) {
      alts();
      for (auto& c2 : alt) for (int b : {b1, b2}) if (f.s == mgrsref::compose(zone, c2, zone ? utmref::BANDS[b] : 0, prec)) ok = true;
      if (ok) ctx.count("forward_prec6to11_roundoff_of_1ulp");
    }
    if (!ok) {
      // classify the disagreement
      const char* kind = "digits";
      size_t z = zone ? 2 : 0;
      if (f.s.size() != e1.size()) kind = "length";
      else if (f.s.compare(0, z, e1, 0, z) != 0) kind = "zone-digits";
      else if (f.s[z] != e1[z] && f.s[z] != e2[z]) kind = "band-letter";
      else if (prec >= 0 && (f.s[z + 1] != e1[z + 1] || f.s[z + 2] != e1[z + 2])) kind = "block-letters";
      ctx.fail(key, "Forward = '" + printable(f.s) + "', exact truncation gives '" + e1 + "'" + (e2 != e1 ? " (or '" + e2 + "')" : ""), FF(kind, prec));
      return false;
    }
    // prefix property across precisions
    if (prevp == -1 && prec >= 0) {
      if (f.s.compare(0, prev.size(), prev) != 0) { ctx.fail(key, "'" + f.s + "' does not start with the grid zone designation '" + prev + "'", FF("prefix", prec)); return false; }
    }
    if (prevp >= 0 && prec > prevp) {
      size_t h = (zone ? 2 : 0) + 3;
      if (f.s.compare(0, h, prev, 0, h) != 0 || f.s.compare(h, prevp, prev, h, prevp) != 0 || f.s.compare(h + prec, prevp, prev, h + prevp, prevp) != 0)
        { ctx.fail(key, "digits '" + f.s + "' do not extend those at precision " + fmti(prevp) + " '" + prev + "'", FF("prefix", prec)); return false; }
    }
    if (prec == -1) { prev = f.s; prevp = -1; }
    if (prec >= 0) { prev = f.s; prevp = prec; }
    // the overload that is given the latitude must agree (it is given the latitude UTMUPS::Reverse reports)
    if (prec == -1 || prec == 0 || prec == 5 || prec == 11) {
      MF g = lib_fwd_lat(zone, northp, x, y, lat, prec);
      if (g.o.outcome != 0 || g.s != f.s) {
        bool tol = zone && b1 != b2 && g.o.outcome == 0 && (g.s == e1 || g.s == e2);
        if (!tol) { ctx.fail(key, "Forward with lat = " + fx(lat) + (g.o.outcome ? " threw: " + g.o.what : " gives '" + printable(g.s) + "'") + ", without lat '" + f.s + "'", FF("lat-overload", prec)); return false; }
      }
    }
    // back: accepted, same zone / hemisphere / UTM-vs-UPS, centre and SW corner of the same square, and forward again
    if (seen) { if (seen->count(f.s)) continue; seen->insert(f.s); }
    for (int cp = 1; cp >= 0; --cp) {
      MR r = lib_rev(f.s, cp, !c.northp);
      if (r.o.outcome != 0) { ctx.fail(key, "own output '" + f.s + "' rejected by Reverse: " + r.o.what, FF("closure", prec)); return false; }
      if (r.zone != zone || r.northp != c.northp || r.prec != prec) { ctx.fail(key, "Reverse('" + f.s + "') gives zone " + fmti(r.zone) + (r.northp ? "n" : "s") + " prec " + fmti(r.prec), FF("reverse-zone", prec)); return false; }
      if (prec < 0) break;                 // grid zone only: point checked in the gridzone subcheck
      long long d = mgrsref::ipow10(11 - prec);
      double ex = mgrsref::square_coord(c.xh, c.fx / d, prec, cp), ey = mgrsref::square_coord(c.yh, c.fy / d, prec, cp);
      if (f.s != e1 && f.s != e2) {        // round-off class: the square named by the string
        mgrsref::Parsed P = mgrsref::parse(f.s);
        ex = mgrsref::square_coord(c.xh, P.e, prec, cp); ey = mgrsref::square_coord(c.yh, P.n, prec, cp);
      }
      bool exact = prec <= 5;
      double ux = std::fabs(r.x - ex) / mc::ulp_of(ex), uy = std::fabs(r.y - ey) / mc::ulp_of(ey);
      if (exact ? (!same_bits(r.x, ex) || !same_bits(r.y, ey)) : (!(ux <= 2) || !(uy <= 2))) {
        ctx.fail(key, std::string("Reverse('") + f.s + "', " + (cp ? "centre" : "SW corner") + ") = (" + fx(r.x) + "," + fx(r.y) + "), the square's point is (" + fx(ex) + "," + fx(ey) + ")", FF(cp ? "reverse-centre" : "reverse-corner", prec)); return false;
      }
      if (!exact) ctx.worst("reverse.prec6to11_err_ulp_over_2", std::max(ux, uy) / 2, f.s);
      if (cp == 1 || prec <= 5) {
        // forward again from the returned point: same string, except that the band letter becomes that of this point
        MF h = lib_fwd(r.zone, r.northp, r.x, r.y, prec);
        bool same = h.o.outcome == 0 && h.s == f.s;
        if (!same && h.o.outcome == 0 && zone && h.s.size() == f.s.size() && h.s.compare(0, 2, f.s, 0, 2) == 0 && h.s.compare(3, std::string::npos, f.s, 3, std::string::npos) == 0) {
          double lat2, lon2; int c1 = 0, c2 = 0;
          if (utm_lat(r.zone, r.northp, r.x, r.y, lat2, lon2)) { band_choices(lat2, r.northp, c1, c2); same = h.s[2] == utmref::BANDS[c1] || h.s[2] == utmref::BANDS[c2]; if (same) ctx.count("roundtrip_band_letter_becomes_that_of_centre"); }
        }
        if (!same) { ctx.fail(key, std::string("Forward(Reverse('") + f.s + "', " + (cp ? "centre" : "SW corner") + ")) " + (h.o.outcome ? "threw: " + h.o.what : "= '" + printable(h.s) + "'"), FF("roundtrip", prec)); return false; }
      }
    }
  }
  if (ctx.want_sample()) ctx.sample(key0 + " -> " + prev);
  return true;
}

// offsets inside a 100 km block
static std::vector<double> block_offsets(bool thorough) {
  std::vector<double> d{0, 50000};
  if (!thorough) { d.push_back(1.0); d.push_back(1e-6); d.push_back(10000.0); return d; }
  // every m * 10^k metres, m = 1..9, k = -6..4 (decimal literals, correctly rounded by strtod)
  for (int k = -6; k <= 4; ++k) for (int m = 1; m <= 9; ++m) { char b[32]; snprintf(b, sizeof b, "%de%d", m, k); d.push_back(strtod(b, nullptr)); }
  d.push_back(0.3); d.push_back(99999.7); d.push_back(12345.678901); d.push_back(98765.432109);
  return d;
}
// the coordinates c0 + d and their neighbours; "top" = the last double below c0 + 100 km
static void block_points(double c0, const std::vector<double>& off, bool thorough, std::vector<double>& out) {
  out.clear();
  for (double d : off) {
    double v = c0 + d;
    out.push_back(v);
    if (d != 0 && d != 50000 && thorough) { out.push_back(std::nextafter(v, INFINITY)); out.push_back(std::nextafter(v, -INFINITY)); }
    else if (d == 1.0) out.push_back(std::nextafter(v, -INFINITY));
    else if (d == 1e-6) out.push_back(std::nextafter(v, INFINITY));
  }
  out.push_back(std::nextafter(c0 + 100000.0, -INFINITY));
}

// a second, small coordinate set used as a full cross product (thorough tier)
static void block_points_cross(double c0, std::vector<double>& out) {
  out.clear();
  for (double d : {0.0, 5e-7, 1e-6, 0.3, 9.99999, 10.0, 1234.5, 50000.0, 99990.0, 99999.999999}) out.push_back(c0 + d);
  out.push_back(std::nextafter(c0 + 1.0, -INFINITY));
  out.push_back(std::nextafter(c0 + 100000.0, -INFINITY));
}
// all points of one block
template <class CP> static void block_sweep(bool T, const std::vector<double>& xs, const std::vector<double>& ys, const std::vector<double>& xc, const std::vector<double>& yc, CP check) {
  size_t n = xs.size();
  for (size_t i = 0; i < n; ++i) {
    check(xs[i], ys[i]);
    if (T && i != n - 1 - i) check(xs[i], ys[n - 1 - i]);
    if (T) {
      size_t j1 = (i + n / 3) % n, j2 = (i + n / 5) % n, j3 = (i + 3 * n / 7) % n;
      if (j1 != i && j1 != n - 1 - i) check(xs[i], ys[j1]);
      if (j2 != i && j2 != n - 1 - i && j2 != j1) check(xs[i], ys[j2]);
      if (j3 != i && j3 != n - 1 - i && j3 != j1 && j3 != j2) check(xs[i], ys[j3]);
    }
  }
  if (T) for (double x : xc) for (double y : yc) check(x, y);
}

// ------------------------------------------------------------------ arbitrary strings: Reverse and Decode against the grammar
static void check_string(Ctx& ctx, const std::string& s) {
  Ctx::Case cs(ctx);
  struct LazyKey { const std::string& s; operator std::string() const { return "'" + printable(s) + "'"; } } key{s};   // built only on failure
  auto FF = [&](const char* kind) { return mc::Fields{{"string", printable(s)}, {"len", fmti((long long)s.size())}, {"kind", kind}}; };
  mgrsref::Parsed P = mgrsref::parse(s);
  // UTM: does the block exist in the band?
  int ra = INT_MIN; bool either = false;
  if (P.kind == 3 && P.zone > 0) { ra = find_row(P.zone, P.col, P.row, P.band, either); if (ra == INT_MIN && !either) P.kind = 0; }
  ctx.sig(P.kind * 4 + (either ? 1 : 0));
  for (int cp = 0; cp < 2; ++cp) {
    MR r = lib_rev(s, cp, cp, true);
    ctx.sig(r.o.outcome + 16);
    if (r.o.outcome >= 2) { ctx.fail(key, r.o.what, FF("crash")); return; }
    if (either && ra == INT_MIN) { ctx.count("strings_block_within_10nm_of_band_edge"); if (r.o.outcome == 1 && !rev_untouched(r, cp)) ctx.fail(key, "outputs modified although the call threw", FF("touched")); continue; }
    if (P.kind == 0) {
      if (r.o.outcome == 0) { ctx.fail(key, "malformed / non-existent MGRS string accepted: zone " + fmti(r.zone) + (r.northp ? "n " : "s ") + fx(r.x) + " " + fx(r.y) + " prec " + fmti(r.prec), FF("invalid-accepted")); return; }
      if (!rev_untouched(r, cp)) { ctx.fail(key, "outputs modified although the call threw", FF("touched")); return; }
      continue;
    }
    if (r.o.outcome != 0) { ctx.fail(key, "legal MGRS string rejected: " + r.o.what, FF("valid-rejected")); return; }
    if (P.kind == 1) {
      if (r.zone != utmref::INVALID || !std::isnan(r.x) || !std::isnan(r.y) || r.prec != -2) ctx.fail(key, "INVALID marker gives zone " + fmti(r.zone) + " prec " + fmti(r.prec), FF("invalid-marker"));
      continue;
    }
    if (r.zone != P.zone || r.northp != P.northp || r.prec != P.prec) { ctx.fail(key, "gives zone " + fmti(r.zone) + (r.northp ? "n" : "s") + " prec " + fmti(r.prec) + ", grammar says zone " + fmti(P.zone) + (P.northp ? "n" : "s") + " prec " + fmti(P.prec), FF("zone-prec")); return; }
    if (P.kind == 2) continue;           // the point of a grid-zone-only string is checked in the gridzone subcheck
    int xh = P.zone ? P.col + 1 : P.col, yh = P.zone ? (P.northp ? ra : ra + 100) : P.row;
    double ex = mgrsref::square_coord(xh, P.e, P.prec, cp), ey = mgrsref::square_coord(yh, P.n, P.prec, cp);
    bool exact = P.prec <= 5;
    if (exact ? (!same_bits(r.x, ex) || !same_bits(r.y, ey)) : (!(std::fabs(r.x - ex) <= 2 * mc::ulp_of(ex)) || !(std::fabs(r.y - ey) <= 2 * mc::ulp_of(ey))))
      { ctx.fail(key, std::string(cp ? "centre" : "SW corner") + " = (" + fx(r.x) + "," + fx(r.y) + "), the square's point is (" + fx(ex) + "," + fx(ey) + ")", FF("point")); return; }
  }
  // MGRS::Decode against its documented grammar
  {
    mgrsref::Split e = mgrsref::decode(s);
    std::string g = "g", b = "b", ea = "e", no = "n";
    Out o = guard([&] { MGRS::Decode(s, g, b, ea, no); }, true);
    if (o.outcome >= 2) { ctx.fail(key, "Decode: " + o.what, FF("decode-crash")); return; }
    if (!e.ok) {
      if (o.outcome == 0) ctx.fail(key, "Decode accepts a string outside its documented grammar: '" + printable(g) + "' '" + printable(b) + "' '" + printable(ea) + "' '" + printable(no) + "'", FF("decode-accepted"));
      else if (g != "g" || b != "b" || ea != "e" || no != "n") ctx.fail(key, "Decode modified its outputs although it threw", FF("decode-touched"));
    } else if (o.outcome != 0 || g != e.gridzone || b != e.block || ea != e.easting || no != e.northing)
      ctx.fail(key, o.outcome ? "Decode rejects a string of its documented grammar: " + o.what : "Decode splits into '" + printable(g) + "' '" + printable(b) + "' '" + printable(ea) + "' '" + printable(no) + "'", FF("decode-split"));
  }
  if (ctx.want_sample()) ctx.sample(std::string(key) + " kind " + fmti(P.kind));
}
static void enum_strings(Ctx& ctx, const std::string& al, int L) {
  int n = (int)al.size();
  if (ctx.take()) { check_string(ctx, ""); for (int i = 0; i < n; ++i) check_string(ctx, std::string(1, al[i])); }
  for (int i = 0; i < n; ++i) for (int j = 0; j < n; ++j) {
    if (!ctx.take()) continue;
    std::string pre; pre += al[i]; pre += al[j];
    check_string(ctx, pre);
    std::vector<int> idx;
    for (int len = 1; len <= L - 2; ++len) {
      idx.assign(len, 0);
      while (true) {
        std::string s = pre; for (int k : idx) s += al[k];
        check_string(ctx, s);
        int k = len - 1; while (k >= 0 && ++idx[k] == n) { idx[k] = 0; --k; }
        if (k < 0) break;
      }
    }
  }
}
static void edits(Ctx& ctx, const std::string& code, const std::string& al) {
  check_string(ctx, code);
  for (size_t i = 0; i <= code.size(); ++i) {
    if (i < code.size()) { std::string d = code; d.erase(i, 1); check_string(ctx, d); }
    for (char c : al) {
      std::string ins = code; ins.insert(i, 1, c); check_string(ctx, ins);
      if (i < code.size()) { std::string sub = code; sub[i] = c; check_string(ctx, sub); }
    }
  }
}

int main(int argc, char** argv) {
  Ctx ctx(argc, argv);
  const bool T = ctx.thorough();
  const double inf = INFINITY, nan = NAN;
  std::vector<int> zones;
  if (T) for (int z = 1; z <= 60; ++z) zones.push_back(z); else zones = {1, 2, 3, 31, 32, 60};
  ctx.bound("zones", T ? "all 60 UTM zones + UPS" : "UTM zones 1, 2, 3, 31, 32, 60 + UPS");
  ctx.note("a UTM northing continued across the equator is folded with the documented shift of 10^7 m in double arithmetic (one correctly "
           "rounded addition) and the folded coordinate is what is truncated; the exact real sum is not demanded (narrowed: the statement does not say in which arithmetic the fold is made)");
  ctx.note("latitude of block perimeters and of points (band letter) is taken from UTMUPS::Reverse (decided by C04 / C06); "
           "a band edge closer than 10 nm (2 x the documented 5 nm) is classified 'either'");

  // ================================================================= (a) every UTM block string
  {
    ctx.sub("utm-blocks");
    ctx.bound("utm-blocks", "zone x 20 band letters x 26 column letters x 26 row letters, upper and lower case, with and without leading zero: Reverse accepts <=> letters legal and some part of the 100 km block lies in the band; Forward-with-latitude accepts the block centre with a band-centre latitude under the same condition");
    for (int zone : zones) {
      if (!ctx.take()) continue;
      const ZoneTab& tab = zone_tab(zone);
      if (tab.nonmono) ctx.count("block_latitude_extreme_not_at_corner", tab.nonmono);
      for (int band = 0; band < 20; ++band) for (char cl = 'A'; cl <= 'Z'; ++cl) for (char rl = 'A'; rl <= 'Z'; ++rl) {
        Ctx::Case cs(ctx);
        std::string s; s += char('0' + zone / 10); s += char('0' + zone % 10); s += utmref::BANDS[band]; s += cl; s += rl;
        mc::Fields F{{"zone", fmti(zone)}, {"band", std::string(1, utmref::BANDS[band])}, {"block", std::string(1, cl) + rl}};
        auto FF = [&](const char* kind) { mc::Fields g = F; g.push_back({"kind", kind}); return g; };
        int col = mgrsref::utm_col_index(zone, cl), rm = mgrsref::utm_row_mod20(zone, rl);
        bool either = false; int ra = (col >= 0 && rm >= 0) ? find_row(zone, col, rm, band, either) : INT_MIN;
        ctx.sig((col >= 0) + 2 * (rm >= 0) + 4 * (ra != INT_MIN) + 8 * either);
        if (either && ra == INT_MIN) { ctx.count("blocks_within_10nm_of_band_edge"); ctx.list("either_blocks", s); continue; }
        bool np = band >= 10;
        std::vector<std::string> forms{s, lower(s)};
        if (zone < 10) { forms.push_back(s.substr(1)); forms.push_back(lower(s.substr(1))); }
        bool bad = false;
        for (const std::string& t : forms) {
          MR r = lib_rev(t, true, !np);
          if (r.o.outcome >= 2) { ctx.fail(t, r.o.what, FF("crash")); bad = true; break; }
          if (ra == INT_MIN) {
            if (r.o.outcome == 0) { ctx.fail(t, "block accepted although " + std::string(col < 0 ? "the column letter is not in the zone's set" : rm < 0 ? "the row letter is not a row letter" : "no part of any such block lies in the band") + "; gives (" + fx(r.x) + "," + fx(r.y) + ")", FF("block-accepted")); bad = true; break; }
            if (!rev_untouched(r, !np)) { ctx.fail(t, "outputs modified although the call threw", FF("touched")); bad = true; break; }
          } else {
            if (r.o.outcome != 0) { ctx.fail(t, "block rejected although part of row " + fmti(ra) + " (latitude " + fmt(tab.lo[col][ra + 90]) + ".." + fmt(tab.hi[col][ra + 90]) + ") lies in the band: " + r.o.what, FF("block-rejected")); bad = true; break; }
            double ex = (col + 1.5) * 100000.0, ey = ((np ? ra : ra + 100) + 0.5) * 100000.0;
            if (r.zone != zone || r.northp != np || r.prec != 0 || !same_bits(r.x, ex) || !same_bits(r.y, ey)) { ctx.fail(t, "gives zone " + fmti(r.zone) + (r.northp ? "n (" : "s (") + fx(r.x) + "," + fx(r.y) + ") prec " + fmti(r.prec) + ", block centre is (" + fx(ex) + "," + fx(ey) + ")", FF("block-centre")); bad = true; break; }
          }
        }
        if (bad) continue;
        // Forward with an explicit latitude inside the band: same consistency test (documented)
        if (col >= 0 && rm >= 0) {
          double blat = band == 19 ? 78 : utmref::band_south(band) + 4;
          for (int k = -5; k <= 5; ++k) {
            int cand = rm + 20 * k; if (cand < -90 || cand >= 95 || (cand >= 0) != np) continue;
            int cls = block_in_band(zone, col, cand, band);
            if (cls == 2) continue;
            double x = (col + 1.5) * 100000.0, y = ((np ? cand : cand + 100) + 0.5) * 100000.0;
            MF f = lib_fwd_lat(zone, np, x, y, blat, 0);
            if (f.o.outcome >= 2) { ctx.fail(s + "@" + fmti(cand), f.o.what, FF("crash")); break; }
            if (cls == 1 && (f.o.outcome != 0 || f.s != s)) { ctx.fail(s + "@" + fmti(cand), "Forward(lat = " + fmt(blat) + ") at the centre of row " + fmti(cand) + (f.o.outcome ? " threw: " + f.o.what : " gives '" + printable(f.s) + "'"), FF("forward-lat-rejected")); break; }
            if (cls == 0 && f.o.outcome == 0) { ctx.fail(s + "@" + fmti(cand), "Forward(lat = " + fmt(blat) + ") accepts the centre of row " + fmti(cand) + " whose block has no part in band " + utmref::BANDS[band] + ": '" + printable(f.s) + "'", FF("forward-lat-accepted")); break; }
            if (cls == 0 && f.s != UNTOUCHED) { ctx.fail(s + "@" + fmti(cand), "mgrs modified although the call threw", FF("touched")); break; }
          }
        }
        if (ra != INT_MIN && ctx.want_sample()) ctx.sample("block " + s + " row " + fmti(ra));
      }
    }
    // ---- UPS blocks
    ctx.sub("ups-blocks");
    ctx.bound("ups-blocks", "4 band letters x 26 column letters x 26 row letters, both cases: accepted <=> letters used in that half of that hemisphere's grid");
    for (int bi = 0; bi < 4; ++bi) {
      if (!ctx.take()) continue;
      char bl = "ABYZ"[bi]; bool np = bi >= 2, east = bi & 1;
      for (char cl = 'A'; cl <= 'Z'; ++cl) for (char rl = 'A'; rl <= 'Z'; ++rl) {
        Ctx::Case cs(ctx);
        std::string s; s += bl; s += cl; s += rl;
        mc::Fields F{{"band", std::string(1, bl)}, {"block", std::string(1, cl) + rl}};
        auto FF = [&](const char* kind) { mc::Fields g = F; g.push_back({"kind", kind}); return g; };
        int xh = mgrsref::ups_col_index(np, east, cl), yh = mgrsref::ups_row_index(np, rl);
        ctx.sig((xh >= 0) + 2 * (yh >= 0));
        for (const std::string& t : {s, lower(s)}) {
          MR r = lib_rev(t, true, !np);
          if (r.o.outcome >= 2) { ctx.fail(t, r.o.what, FF("crash")); break; }
          if (xh < 0 || yh < 0) {
            if (r.o.outcome == 0) { ctx.fail(t, "UPS block with an unused letter accepted; gives (" + fx(r.x) + "," + fx(r.y) + ")", FF("block-accepted")); break; }
            if (!rev_untouched(r, !np)) { ctx.fail(t, "outputs modified although the call threw", FF("touched")); break; }
          } else {
            double ex = (xh + 0.5) * 100000.0, ey = (yh + 0.5) * 100000.0;
            if (r.o.outcome != 0) { ctx.fail(t, "legal UPS block rejected: " + r.o.what, FF("block-rejected")); break; }
            if (r.zone != 0 || r.northp != np || r.prec != 0 || !same_bits(r.x, ex) || !same_bits(r.y, ey)) { ctx.fail(t, "gives zone " + fmti(r.zone) + (r.northp ? "n (" : "s (") + fx(r.x) + "," + fx(r.y) + "), block centre is (" + fx(ex) + "," + fx(ey) + ")", FF("block-centre")); break; }
          }
        }
      }
    }
  }

  // ================================================================= (b) points in every block x every precision
  {
    std::vector<double> off = block_offsets(T);
    ctx.sub("utm-points");
    ctx.bound("utm-points", std::string("every block (zone x 8 columns x rows -90..94): offsets {0, 50 km") + (T ? ", m*10^k m (m=1..9, k=-6..4), 0.3, 99999.7, 12345.678901, 98765.432109, each +-1 ulp" : ", 1 m and 1 ulp below, 1 um and 1 ulp above, 10 km") + ", 100 km - 1 ulp} paired diagonally" + (T ? ", anti-diagonally and with rotations by n/3, n/5, 3n/7 (5 x 312 points), plus the full 12 x 12 cross product of {0, 0.5 um, 1 um, 0.3, 9.99999, 10, 1234.5, 50 km, 99990, 99999.999999, 1 m - 1 ulp, 100 km - 1 ulp}" : "") + "; prec " + (T ? "-2..12" : "{-2,-1,0,2,5,6,11,12}") + "; both Forward overloads, Reverse centre + SW corner, Forward again");
    for (int zone : zones) for (int col = 0; col < 8; ++col) {
      if (!ctx.take()) continue;
      std::vector<double> xs, ys, xc, yc;
      for (int ra = -90; ra < 95; ++ra) {
        bool np = ra >= 0;
        double x0 = (col + 1) * 100000.0, y0 = np ? ra * 100000.0 : (ra + 100) * 100000.0;
        block_points(x0, off, T, xs); block_points(y0, off, T, ys);
        if (T) { block_points_cross(x0, xc); block_points_cross(y0, yc); }
        std::set<std::string> seen;
        block_sweep(T, xs, ys, xc, yc, [&](double x, double y) { check_point(ctx, zone, np, x, y, T, &seen); });
      }
    }
    ctx.sub("ups-points");
    ctx.bound("ups-points", "every UPS block (24 x 24 south, 14 x 14 north), same offsets and precisions");
    for (int np = 0; np < 2; ++np) for (int xh = mgrsref::ups_min(np); xh < mgrsref::ups_max(np); ++xh) {
      if (!ctx.take()) continue;
      std::vector<double> xs, ys, xc, yc;
      for (int yh = mgrsref::ups_min(np); yh < mgrsref::ups_max(np); ++yh) {
        block_points(xh * 100000.0, off, T, xs); block_points(yh * 100000.0, off, T, ys);
        if (T) { block_points_cross(xh * 100000.0, xc); block_points_cross(yh * 100000.0, yc); }
        std::set<std::string> seen;
        block_sweep(T, xs, ys, xc, yc, [&](double x, double y) { check_point(ctx, 0, np, x, y, T, &seen); });
      }
    }
  }

  // ================================================================= band edges: points just either side of every band boundary
  {
    ctx.sub("band-edges");
    ctx.bound("band-edges", std::string("zone x 8 columns x ") + (T ? "21 eastings (every 5 km and 99999 m)" : "3 eastings") + " x 18 band boundaries (both hemispheres): northing of the boundary found by bisection on UTMUPS::Reverse, points at +-{1 um, 1 mm, 1 m, 1 km}; band letter of Forward (both overloads) = band of the latitude");
    for (int zone : zones) for (int col = 0; col < 8; ++col) {
      if (!ctx.take()) continue;
      std::vector<double> xos{0.0, 50000.0, 99999.0};
      if (T) { xos.clear(); for (int k = 0; k < 20; ++k) xos.push_back(k * 5000.0); xos.push_back(99999.0); }
      for (double xo : xos) for (int b = 1; b < 20; ++b) {
        if (b == 10) continue;                        // the equator is a row boundary, exercised in forward-range
        double x = (col + 1) * 100000.0 + xo, edge = utmref::band_south(b);
        bool np = b > 10;
        double lo = np ? 0 : 1000000.0, hi = np ? 9500000.0 : 10000000.0;
        for (int it = 0; it < 80; ++it) { double mid = 0.5 * (lo + hi), lat, lon; utm_lat(zone, np, x, mid, lat, lon); if (lat < edge) lo = mid; else hi = mid; }
        for (double d : {1e-6, -1e-6, 1e-3, -1e-3, 1.0, -1.0, 1000.0, -1000.0}) check_point(ctx, zone, np, x, hi + d, false, nullptr, "edge-");
      }
    }
  }

  // ================================================================= band edges at the easting limits, scanned in 25 m steps
  {
    ctx.sub("band-edges-limits");
    ctx.bound("band-edges-limits", "zone (forced) x eastings {100, 101, 105, 111, 125, 150, 200, 500, 800, 850, 875, 889, 895, 899, 900} km x all 21 band lines (-80, -72, ..., 72, 84; the equator from both hemispheres): northing of the line by bisection on UTMUPS::Reverse, northing offsets -500 m .. +500 m in 25 m steps; band letter of both Forward overloads = band of the UTMUPS::Reverse latitude, and all other point predicates");
    const double xk[] = {100, 101, 105, 111, 125, 150, 200, 500, 800, 850, 875, 889, 895, 899, 900};
    for (int zone : zones) for (double xkm : xk) {
      if (!ctx.take()) continue;
      double x = xkm * 1000.0;
      for (int b = 0; b <= 21; ++b) {
        // b = 0..19: southern edge of band b; 20: northern edge of X (84); 21: the equator approached from the southern numbering
        bool np; double yedge;
        if (b == 10) { np = true; yedge = 0; }
        else if (b == 21) { np = false; yedge = 10000000.0; }
        else {
          double edge = b == 20 ? 84 : utmref::band_south(b);
          np = edge > 0;
          double lo = np ? 0 : 1000000.0, hi = np ? 9500000.0 : 10000000.0;
          for (int it = 0; it < 80; ++it) { double mid = 0.5 * (lo + hi), lat, lon; utm_lat(zone, np, x, mid, lat, lon); if (lat < edge) lo = mid; else hi = mid; }
          yedge = hi;
        }
        for (int k = -20; k <= 20; ++k) check_point(ctx, zone, np, x, yedge + 25.0 * k, false, nullptr, "limit-");
      }
    }
  }

  // ================================================================= band letter on a dense lattice (thorough tier only)
  if (T) {
    ctx.sub("band-lattice");
    ctx.bound("band-lattice", "every block of every zone: x at 5 km + 10 km * i (i = 0..9), y at 100 m + 200 m * j (j = 0..499): grid zone designation (prec -1) from both Forward overloads = zone + band of the latitude given by UTMUPS::Reverse");
    for (int zone : zones) for (int col = 0; col < 8; ++col) {
      if (!ctx.take()) continue;
      for (int ra = -90; ra < 95; ++ra) {
        bool np = ra >= 0;
        double x0 = (col + 1) * 100000.0, y0 = np ? ra * 100000.0 : (ra + 100) * 100000.0;
        for (int i = 0; i < 10; ++i) for (int j = 0; j < 500; ++j) {
          Ctx::Case cs(ctx);
          double x = x0 + 5000.0 + 10000.0 * i, y = y0 + 100.0 + 200.0 * j, lat, lon;
          auto key = [&] { return "zone " + fmti(zone) + (np ? "n" : "s") + " (" + fx(x) + "," + fx(y) + ") prec -1"; };
          auto FF = [&](const char* kind) { return mc::Fields{{"zone", fmti(zone)}, {"northp", np ? "1" : "0"}, {"x", fmt(x)}, {"y", fmt(y)}, {"kind", kind}}; };
          if (!utm_lat(zone, np, x, y, lat, lon)) { ctx.fail(key(), "UTMUPS::Reverse rejects a coordinate inside the MGRS range", FF("utmups")); continue; }
          int b1, b2; band_choices(lat, np, b1, b2);
          if (b1 != b2) ctx.count("points_within_10nm_of_band_edge");
          ctx.sig(100 + b1);
          MF f = lib_fwd(zone, np, x, y, -1), g = lib_fwd_lat(zone, np, x, y, lat, -1);
          std::string e1 = mgrsref::compose(zone, mgrsref::Cell{false, np, 0, 0, 0, 0, y}, utmref::BANDS[b1], -1), e2 = mgrsref::compose(zone, mgrsref::Cell{false, np, 0, 0, 0, 0, y}, utmref::BANDS[b2], -1);
          if (f.o.outcome != 0 || (f.s != e1 && f.s != e2)) ctx.fail(key(), f.o.outcome ? "legal coordinate rejected: " + f.o.what : "Forward = '" + printable(f.s) + "', the latitude " + fx(lat) + " is in band " + utmref::BANDS[b1], FF("lattice-band-letter"));
          else if (g.o.outcome != 0 || (g.s != e1 && g.s != e2)) ctx.fail(key(), std::string("Forward with lat = ") + fx(lat) + (g.o.outcome ? " threw: " + g.o.what : " gives '" + printable(g.s) + "'"), FF("lattice-lat-overload"));
        }
      }
    }
  }

  // ================================================================= (c) grid-zone-only strings
  {
    ctx.sub("gridzone");
    ctx.bound("gridzone", "all 60 x 20 grid zone designations (both cases, with/without leading zero) + A, B, Y, Z: returned point lies in that grid zone and converts back to the designation");
    if (ctx.take()) {      // the library's own self-test of its band/row assumptions must pass
      Ctx::Case cs(ctx);
      Out o = guard([&] { MGRS::Check(); }, true);
      if (o.outcome != 0) ctx.fail("MGRS::Check()", "self-test failed: " + o.what, {{"kind", "self-check"}});
    }
    for (int zone = 0; zone <= 60; ++zone) {
      if (!ctx.take()) continue;
      for (int band = 0; band < (zone ? 20 : 4); ++band) {
        Ctx::Case cs(ctx);
        std::string s;
        if (zone) { s += char('0' + zone / 10); s += char('0' + zone % 10); s += utmref::BANDS[band]; } else s += "ABYZ"[band];
        bool np = zone ? band >= 10 : band >= 2;
        mc::Fields F{{"gridzone", s}};
        auto FF = [&](const char* kind) { mc::Fields g = F; g.push_back({"kind", kind}); return g; };
        std::vector<std::string> forms{s, lower(s)};
        if (zone && zone < 10) { forms.push_back(s.substr(1)); forms.push_back(lower(s.substr(1))); }
        MR r0{};
        bool bad = false;
        for (size_t k = 0; k < forms.size() && !bad; ++k) for (int cp = 0; cp < 2; ++cp) {
          MR r = lib_rev(forms[k], cp, !np);
          if (r.o.outcome != 0) { ctx.fail(forms[k], "grid zone designation rejected: " + r.o.what, FF("rejected")); bad = true; break; }
          if (k == 0 && cp == 0) r0 = r;
          if (r.zone != zone || r.northp != np || r.prec != -1) { ctx.fail(forms[k], "gives zone " + fmti(r.zone) + (r.northp ? "n" : "s") + " prec " + fmti(r.prec), FF("zone-prec")); bad = true; break; }
          if (!same_bits(r.x, r0.x) || !same_bits(r.y, r0.y)) { ctx.fail(forms[k], "point depends on case / leading zero / centerp", FF("variant")); bad = true; break; }
        }
        if (bad) continue;
        double lat, lon;
        if (!utm_lat(zone, np, r0.x, r0.y, lat, lon)) { ctx.fail(s, "returned point (" + fx(r0.x) + "," + fx(r0.y) + ") is not a legal UTM/UPS coordinate", FF("point-illegal")); continue; }
        MF f = lib_fwd(zone, np, r0.x, r0.y, -1);
        if (f.o.outcome != 0 || f.s != s) { ctx.fail(s, "returned point (" + fx(r0.x) + "," + fx(r0.y) + ") converts back to " + (f.o.outcome ? "an exception: " + f.o.what : "'" + printable(f.s) + "'"), FF("back")); continue; }
        if (zone) {
          bool exists = !(band == 19 && (zone == 32 || zone == 34 || zone == 36));
          if (!exists) { ctx.count("gridzone_nonexistent_32X_34X_36X"); ctx.list("doc_silent", "grid zones 32X, 34X, 36X do not exist (Svalbard); the returned point is not compared"); }
          if (utmref::band_index(lat) != band || (lat < -80 || lat >= 84)) ctx.fail(s, "returned point has latitude " + fx(lat) + ", outside band " + utmref::BANDS[band], FF("outside-band"));
          else if (exists && utmref::utm_zone(lat, lon) != zone) ctx.fail(s, "returned point (" + fx(lat) + "," + fx(lon) + ") lies in standard zone " + fmti(utmref::utm_zone(lat, lon)), FF("outside-zone"));
        } else {
          bool inups = np ? lat >= 84 : lat < -80;
          bool east = band & 1;
          double l = mc::lon_norm(lon);
          if (!inups || (east ? !(l >= 0) : !(l < 0))) ctx.fail(s, "returned point (" + fx(lat) + "," + fx(lon) + ") is not in UPS grid zone " + s, FF("outside-zone"));
        }
        if (ctx.want_sample()) ctx.sample("grid zone " + s + " -> " + fmt(lat) + " " + fmt(lon));
      }
    }
  }

  // ================================================================= (e) ranges, closed upper edges, folding, special values
  {
    ctx.sub("forward-range");
    ctx.bound("forward-range", "zone in {0,1,2,31,60} x hemisphere x (x,y) in {every documented limit, limit +-100 km, each +-1 ulp, the equator fold points 0 / 10^7 m +- tiny, interior points}^2 x prec -2..12; + zone in {INVALID, -3, -1, 61, INT_MIN, INT_MAX}, NaN and inf coordinates, NaN latitude");
    const double km = 1000;
    for (int zone : {0, 1, 2, 31, 60}) for (int np = 0; np < 2; ++np) {
      std::vector<double> xs, ys;
      auto lim = [&](std::vector<double>& v, std::initializer_list<double> L) { for (double l : L) for (double a : {l * km, (l - 100) * km, (l + 100) * km}) { v.push_back(a); v.push_back(std::nextafter(a, inf)); v.push_back(std::nextafter(a, -inf)); } };
      if (zone) {
        lim(xs, {100, 900}); for (double a : {500 * km, 899999.999999, 899999.9999999, 100000.0000001, 123456.789}) xs.push_back(a);
        if (np) { lim(ys, {-9000, 9500, 0}); for (double a : {-0.0, 5e-324, -5e-324, -1e-10, -1e-9, -4e-9, -1e-6, -0.3, -1.0, -123456.789012, 9499999.999999, 4649776.22482, -5000 * km, 0.3, 1e-6}) ys.push_back(a); }
        else { lim(ys, {1000, 19500, 10000}); for (double a : {10000000.3, 10000000.000001, 9999999.999999, 9999999.7, 5350223.77518, 15000 * km, 10000000 + 123456.789012, 19499999.999999}) ys.push_back(a); }
      } else if (np) { lim(xs, {1300, 2700, 2000}); xs.push_back(2000 * km + 0.3); xs.push_back(1999999.999999); ys = xs; }
      else { lim(xs, {800, 3200, 2000}); xs.push_back(2000 * km + 0.3); xs.push_back(1999999.999999); ys = xs; }
      for (double x : xs) {
        if (!ctx.take()) continue;
        for (double y : ys) check_point(ctx, zone, np, x, y, true, nullptr, "range-");
      }
    }
    ctx.sub("forward-special");
    if (ctx.take()) {
      for (int zone : {-4, -3, -1, 61, INT_MIN, INT_MAX, 0, 31}) for (int np = 0; np < 2; ++np)
        for (double x : {500000.0, 2000000.0, nan, inf, -inf, 1e300}) for (double y : {5000000.0, 2000000.0, nan, inf, -inf}) for (int prec : {-1, 0, 5, 11}) {
          Ctx::Case cs(ctx);
          std::string key = "Forward(" + fmti(zone) + (np ? "n," : "s,") + fx(x) + "," + fx(y) + "," + fmti(prec) + ")";
          mc::Fields F{{"zone", fmti(zone)}, {"x", fmt(x)}, {"y", fmt(y)}, {"prec", fmti(prec)}};
          auto FF = [&](const char* kind) { mc::Fields g = F; g.push_back({"kind", kind}); return g; };
          MF f = lib_fwd(zone, np, x, y, prec, true);
          bool nanin = std::isnan(x) || std::isnan(y);
          ctx.sig(f.o.outcome * 4 + nanin + 2 * (zone == -4));
          if (f.o.outcome >= 2) { ctx.fail(key, f.o.what, FF("crash")); continue; }
          if (f.o.outcome == 1 && f.s != UNTOUCHED) { ctx.fail(key, "mgrs modified although the call threw", FF("touched")); continue; }
          if (zone == utmref::INVALID || (nanin && zone >= 0 && zone <= 60)) {          // documented: "INVALID"
            if (f.o.outcome != 0 || f.s != "INVALID") ctx.fail(key, f.o.outcome ? "threw: " + f.o.what : "gives '" + printable(f.s) + "' instead of INVALID", FF("invalid-marker"));
            else { MR r = lib_rev(f.s, true, true, true); if (r.o.outcome != 0 || r.zone != utmref::INVALID || !std::isnan(r.x) || !std::isnan(r.y) || r.prec != -2) ctx.fail(key, "'INVALID' does not convert back to zone INVALID, NaN, prec -2", FF("invalid-marker")); }
            continue;
          }
          if (nanin) { ctx.count("forward_nan_with_illegal_zone_doc_silent"); continue; }
          bool legal = zone >= 0 && zone <= 60 && std::isfinite(x) && std::isfinite(y) && !mgrsref::locate(zone, np, x, y).throws;
          if (!legal && f.o.outcome != 1) ctx.fail(key, "illegal zone / coordinate accepted: '" + printable(f.s) + "'", FF("invalid-accepted"));
          if (legal && f.o.outcome != 0) ctx.fail(key, "legal coordinate rejected: " + f.o.what, FF("valid-rejected"));
        }
      // NaN latitude in the overload with latitude
      for (int zone : {0, 31}) { Ctx::Case cs(ctx); MF f = lib_fwd_lat(zone, true, zone ? 500000.0 : 2000000.0, zone ? 5000000.0 : 2000000.0, nan, 5, true);
        if (zone && (f.o.outcome != 0 || f.s != "INVALID")) ctx.fail("Forward(lat = NaN, zone 31)", f.o.outcome ? f.o.what : "gives '" + printable(f.s) + "'", {{"kind", "invalid-marker"}, {"zone", fmti(zone)}});
        if (!zone && f.o.outcome >= 2) ctx.fail("Forward(lat = NaN, zone 0)", f.o.what, {{"kind", "crash"}, {"zone", "0"}}); }
    }
  }

  // ================================================================= (d) malformed strings
  {
    ctx.sub("strings");
    std::string al = "0169ACIOMNXZa- "; al += '\0';
    int L = T ? 6 : 5;
    ctx.bound("strings", "all strings of length <= " + fmti(L) + " over the 16 characters '0169ACIOMNXZa- ' + NUL; Reverse (both centerp) and Decode against the documented grammar, GeographicErr and untouched outputs on rejection");
    enum_strings(ctx, al, L);
    // digit strings of every length 0..27 after valid and invalid block prefixes (precision limit, odd counts, non-digits)
    ctx.sub("string-digits");
    ctx.bound("string-digits", "7 block prefixes x digit runs of every length 0..27 (three digit patterns), also with one non-digit at every position of the 22-digit run");
    {
      const char* pre[] = {"31NEA", "1CAQ", "60XZT", "ZAB", "AJA", "31NEI", "00NEA"};
      for (const char* p : pre) {
        if (!ctx.take()) continue;
        for (int len = 0; len <= 27; ++len) for (int pat = 0; pat < 3; ++pat) {
          std::string d; for (int k = 0; k < len; ++k) d += char('0' + (pat == 0 ? 0 : pat == 1 ? 9 : (k * 7 + 3) % 10));
          check_string(ctx, std::string(p) + d);
        }
        std::string d22 = "1234567890123456789012";
        for (size_t k = 0; k < d22.size(); ++k) for (char ch : {'A', ' ', '-', '.', '\0'}) { std::string d = d22; d[k] = ch; check_string(ctx, std::string(p) + d); }
      }
    }
    ctx.sub("string-edits");
    int nvalid = T ? 3000 : 40, nups = T ? 64 : 16;
    ctx.bound("string-edits", "every single-character deletion / insertion / substitution over '0123456789ACHIJMNOVXZaz- ' + NUL of " + fmti(nvalid) + " valid UTM strings (prec 0..5 and 11, with and without leading zero) and " + fmti(nups) + " UPS strings");
    std::string al2 = "0123456789ACHIJMNOVXZaz- "; al2 += '\0';
    for (int i = 0; i < nvalid; ++i) {
      if (!ctx.take()) continue;
      int zone = 1 + (i * 7) % 60, col = i % 8, ra = -85 + (i * 13) % 175; bool np = ra >= 0;
      int prec = (i % 7 == 6) ? 11 : i % 7 % 6;
      double x = (col + 1) * 100000.0 + (i * 7919 % 100000) + 0.5, y = (np ? ra : ra + 100) * 100000.0 + (i * 104729 % 100000) + 0.25;
      MF f = lib_fwd(zone, np, x, y, prec);
      if (f.o.outcome != 0) { Ctx::Case cs(ctx); ctx.fail("seed " + fmti(i), "could not produce a valid string: " + f.o.what, {{"kind", "seed"}}); continue; }
      std::string s = f.s; if (zone < 10 && (i & 1)) s = s.substr(1);
      edits(ctx, s, al2);
    }
    for (int i = 0; i < nups; ++i) {
      if (!ctx.take()) continue;
      bool np = i & 1; int lo = mgrsref::ups_min(np), n = mgrsref::ups_max(np) - lo;
      double x = (lo + (i * 5) % n) * 100000.0 + std::fmod(12345.678 * (i + 1) / 3, 100000.0), y = (lo + (i * 11) % n) * 100000.0 + std::fmod(2345.678 * (i + 1), 100000.0);
      MF f = lib_fwd(0, np, x, y, i % 6);
      if (f.o.outcome != 0) { Ctx::Case cs(ctx); ctx.fail("ups seed " + fmti(i), "could not produce a valid string: " + f.o.what, {{"kind", "seed"}}); continue; }
      edits(ctx, f.s, al2);
    }
  }
  return ctx.finish();
}
