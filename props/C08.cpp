// C08 -- polygon area and perimeter are those of the polygon, for every edit history.
// Engine E2: explicit-state BFS over operation histories (AddPoint / AddEdge / Clear, with Compute / TestPoint /
// TestEdge / CurrentPoint / NumberPoints evaluated at every state) of real PolygonArea / PolygonAreaExact /
// PolygonAreaRhumb objects.  States are de-duplicated on canon(obj) = every private field of the object, bit-exact
// (read with -fno-access-control), refined by the reference-model state (the effective operation list) so that a
// merge is never over-coarse.
//
// Reference model: the vertex list.  Perimeter = sum of edge lengths, area = -sum S12 + w*A0/2 where the edge
// quantities s12, S12 and the direct-edge end points come from the library's Inverse/Direct (components certified by
// C01-C03, C09) and w is the SUM OF UNROLLED LONGITUDE INCREMENTS / 360 evaluated exactly in __float128 -- nothing of
// PolygonArea's transit()/transitdirect() crossing parity, of its Accumulator arithmetic or of AreaReduce is reused.
// Absolute anchor on the sphere: vertex-vector spherical excess (Oosterom-Strackee) in __float128.
#include "mc/ctx.hpp"
#include <GeographicLib/PolygonArea.hpp>
#include <GeographicLib/Geodesic.hpp>
#include <GeographicLib/GeodesicExact.hpp>
#include <GeographicLib/Rhumb.hpp>
#include <quadmath.h>
#include <array>
#include <unordered_map>
#include <algorithm>
#include <memory>

using namespace GeographicLib;
using mc::Ctx; using mc::fx; using mc::fmt; using mc::fmti;
typedef __float128 f128;

static const double EPS = std::numeric_limits<double>::epsilon();
static const double AW = 6378137.0, FW = 1 / 298.257223563;
static const double SENT = -12345.678;            // sentinel for outputs that must stay untouched

// ------------------------------------------------------------------ calibrated round-off bounds
// README "Tolerances": where the documentation only says "round-off", the bound is K x U with U = nE * eps * (scale of the
// accumulated sums) [nE = number of edges; area scale A0/2 + sum|S12|, perimeter scale sum|s12|] and K >= 4 x the worst
// value observed on the unchanged tree over the thorough lattice, at least 16.  Frozen literals (observed worst in the
// same unit in parentheses); the worst err/tol of every predicate is reported through ctx.worst.
static const double K_FLAGS = 16;    // relations between the four (reverse, sign) answers, unit ulp(A0)                  (0.5)
static const double K_ROT   = 16;    // cyclic rotation                                                                     (0.34)
static const double K_REV   = 16;    // reversal (with direct edges the Appendix-B tolerance is added)                      (0.43)
static const double K_SHIFT = 16;    // longitude shifts, round-off part                                                    (< 3)
static const double K_DISP  = 8;     // longitude shifts: multiple of the first-order effect of the exactly known vertex
                                     // displacements caused by rounding lon + c                                            (1.3)
static const double K_CUT   = 16;    // diagonal additivity                                                                 (0.22)
static const double K_TEST  = 16;    // Test* (plain double sums) against Add-then-Compute                                  (0.41)
static const double K_REFSUM = 16;   // Accumulator sums in the canonical state against the exact sums of the model       (1e-17)

// ------------------------------------------------------------------ operations
struct GOp { char kind; double a, b; };           // 'P' lat lon | 'E' azi s | 'C'
static std::string g17(double x) { char b[40]; snprintf(b, sizeof b, "%.17g", x); return b; }
static std::string opstr(const GOp& o) {
  if (o.kind == 'C') return "C";
  return std::string(1, o.kind) + "(" + g17(o.a) + "," + g17(o.b) + ")";
}
static std::string opsstr(const std::vector<GOp>& v) { std::string s; for (auto& o : v) { if (!s.empty()) s += ' '; s += opstr(o); } return s.empty() ? "<empty>" : s; }

static const int NOPS = 19, NPT = 12, NED = 6;
static const GOp OPS0[NOPS] = {
  {'P', 0, 0}, {'P', 0, -0.0}, {'P', 10, 180}, {'P', 10, -180}, {'P', -20, 359.5}, {'P', -20, -0.5}, {'P', 90, 77},
  {'P', -90, 0}, {'P', 45, 90}, {'P', 45, 90}, {'P', 0, 720}, {'P', 30, 1e-13},
  {'E', 90, 0}, {'E', 90, 1e6}, {'E', -90, 1e6}, {'E', 0, 2.1e7}, {'E', 90, 4.5e7}, {'E', 135, 1e3},
  {'C', 0, 0}};
static int canon_op(int i) { return i == 9 ? 8 : i; }      // "(45,90) again" has the arguments of (45,90)

// ------------------------------------------------------------------ canonical key
struct Key {
  uint64_t w[13];
  bool operator==(const Key& o) const { return memcmp(w, o.w, sizeof w) == 0; }
  bool operator!=(const Key& o) const { return !(*this == o); }
};
struct KeyHash { size_t operator()(const Key& k) const { uint64_t h = 1469598103934665603ULL; for (uint64_t x : k.w) h = mc::mix64(h ^ x); return (size_t)h; } };
template <class PA> static Key canon(const PA& p) {
  Key k;
  k.w[0] = p._num; k.w[1] = (uint64_t)(uint32_t)p._crossings;
  k.w[2] = mc::bits(p._areasum._s); k.w[3] = mc::bits(p._areasum._t);
  k.w[4] = mc::bits(p._perimetersum._s); k.w[5] = mc::bits(p._perimetersum._t);
  k.w[6] = mc::bits(p._lat0); k.w[7] = mc::bits(p._lon0); k.w[8] = mc::bits(p._lat1); k.w[9] = mc::bits(p._lon1);
  k.w[10] = mc::bits(p._area0); k.w[11] = p._polyline ? 1 : 0; k.w[12] = p._mask;
  return k;
}
static std::string keystr(const Key& k) {
  static const char* nm[13] = {"num", "crossings", "areasum.s", "areasum.t", "perimsum.s", "perimsum.t", "lat0", "lon0", "lat1", "lon1", "area0", "polyline", "mask"};
  std::string s;
  for (int i = 0; i < 13; ++i) {
    s += nm[i]; s += '=';
    if (i < 2 || i > 10) s += fmti((long long)(i == 1 ? (int32_t)k.w[i] : k.w[i]));
    else { double d; memcpy(&d, &k.w[i], 8); s += g17(d); }
    s += ' ';
  }
  return s;
}
static std::string keydiff(const Key& a, const Key& b) {
  static const char* nm[13] = {"num", "crossings", "areasum.s", "areasum.t", "perimsum.s", "perimsum.t", "lat0", "lon0", "lat1", "lon1", "area0", "polyline", "mask"};
  std::string s;
  for (int i = 0; i < 13; ++i) if (a.w[i] != b.w[i]) {
    s += nm[i]; s += ": ";
    if (i < 2 || i > 10) s += fmti((long long)a.w[i]) + " vs " + fmti((long long)b.w[i]);
    else { double x, y; memcpy(&x, &a.w[i], 8); memcpy(&y, &b.w[i], 8); s += g17(x) + " vs " + g17(y); }
    s += "; ";
  }
  return s;
}

// ------------------------------------------------------------------ back-end adapters (public library interfaces)
struct InvR { double s12, S12; };
struct DirR { double lat2, lon2u, azi2, S12; };
static InvR lib_inv(const Geodesic& g, double a1, double o1, double a2, double o2) {
  InvR r; double t; g.GenInverse(a1, o1, a2, o2, Geodesic::DISTANCE | Geodesic::AREA, r.s12, t, t, t, t, t, r.S12); return r;
}
static InvR lib_inv(const GeodesicExact& g, double a1, double o1, double a2, double o2) {
  InvR r; double t; g.GenInverse(a1, o1, a2, o2, GeodesicExact::DISTANCE | GeodesicExact::AREA, r.s12, t, t, t, t, t, r.S12); return r;
}
static InvR lib_inv(const Rhumb& g, double a1, double o1, double a2, double o2) {
  InvR r; double t; g.GenInverse(a1, o1, a2, o2, Rhumb::DISTANCE | Rhumb::AREA, r.s12, t, r.S12); return r;
}
// unroll: polygon mode documents LONG_UNROLL for its direct edges, polyline mode does not (constructor of PolygonAreaT);
// the two evaluations of the end point differ by round-off (nm), so the model follows the documented mode.
static DirR lib_dir(const Geodesic& g, double a1, double o1, double azi, double s, bool unroll) {
  DirR r; double t; r.S12 = 0;
  g.GenDirect(a1, o1, azi, false, s, Geodesic::LATITUDE | Geodesic::LONGITUDE | Geodesic::AZIMUTH | (unroll ? Geodesic::AREA | Geodesic::LONG_UNROLL : Geodesic::NONE),
              r.lat2, r.lon2u, r.azi2, t, t, t, t, r.S12);
  return r;
}
static DirR lib_dir(const GeodesicExact& g, double a1, double o1, double azi, double s, bool unroll) {
  DirR r; double t; r.S12 = 0;
  g.GenDirect(a1, o1, azi, false, s, GeodesicExact::LATITUDE | GeodesicExact::LONGITUDE | GeodesicExact::AZIMUTH | (unroll ? GeodesicExact::AREA | GeodesicExact::LONG_UNROLL : GeodesicExact::NONE),
              r.lat2, r.lon2u, r.azi2, t, t, t, t, r.S12);
  return r;
}
static DirR lib_dir(const Rhumb& g, double a1, double o1, double azi, double s, bool unroll) {
  DirR r; r.azi2 = azi; r.S12 = 0;
  g.GenDirect(a1, o1, azi, s, Rhumb::LATITUDE | Rhumb::LONGITUDE | (unroll ? Rhumb::AREA | Rhumb::LONG_UNROLL : Rhumb::NONE), r.lat2, r.lon2u, r.S12);
  return r;
}
// the reference's own library calls are not part of a case's edge signature (it describes the implementation's execution)
struct CovOff { bool was; CovOff() : was(mc::cov().on) { mc::cov().on = false; } ~CovOff() { mc::cov().on = was; } };
template <class G> struct IsRhumb { static const bool value = false; };
template <> struct IsRhumb<Rhumb> { static const bool value = true; };

// ------------------------------------------------------------------ reference model: the vertex list
struct Vtx { double lat, lon; };
struct Edge {
  bool direct; double s, S, azi2;     // azi2: forward azimuth at the end point (direct edges; used for reversal)
  f128 dlon;                          // unrolled longitude increment, exact
  bool nonuniq;                       // shortest line not unique: antipodal end points (geodesic), opposite meridians (rhumb,
                                      // documented in Rhumb.hpp) -- "taken to be unique" in the statement: area not defined
  bool nearnonuniq;                   // within 1e-9 degree of such a configuration (ill-conditioned when a vertex is re-computed)
  bool overpole;                      // geodesic inverse edge with longitude difference exactly +-180, not antipodal: the unique
                                      // shortest geodesic is the meridian through the nearer pole
  bool polecross;                     // direct edge through a pole (increment an exact odd multiple of 180)
  bool trig;                          // input class of the known transit() defect (used only to scope the known finding)
};
struct Totals {
  int n = 0, nE = 0;                  // vertices, edges counted
  f128 per = 0, SS = 0, LL = 0;       // exact sums of s, S12, longitude increments
  double sumS = 0, sumLen = 0, maxLen = 0;
  bool nonuniq = false, nearnonuniq = false, overpole = false, polecross = false, nan = false, winding_ok = true;
  int ntrig = 0;
  f128 area_ccw = 0;                  // -SS + w A0/2, unreduced
};
static f128 reduce180(f128 d, bool& is180) {
  f128 k = roundq(d / 360); d -= 360 * k;
  is180 = fabsq(d) == 180;
  return d;
}
static inline bool fin(double x) { return std::isfinite(x); }
struct MemoKey { uint64_t w[4]; bool operator==(const MemoKey& o) const { return memcmp(w, o.w, sizeof w) == 0; } };
struct MemoHash { size_t operator()(const MemoKey& k) const { uint64_t h = 88172645463325252ULL; for (uint64_t x : k.w) h = mc::mix64(h ^ x); return (size_t)h; } };

template <class G> struct Model {
  const G* g; double A0; bool polyline;
  std::unordered_map<MemoKey, InvR, MemoHash>* memo;     // the reference's inverse solutions are pure functions of the 4 arguments
  std::vector<Vtx> v; std::vector<Edge> e; std::vector<char> kind;   // kind[i]: how vertex i was produced ('P'/'E')
  std::vector<GOp> ops;                                               // ops[i] produced vertex i
  InvR inv(double a1, double o1, double a2, double o2) const {
    MemoKey k{{mc::bits(a1), mc::bits(o1), mc::bits(a2), mc::bits(o2)}};
    auto it = memo->find(k);
    if (it != memo->end()) return it->second;
    InvR r; { CovOff off; r = lib_inv(*g, a1, o1, a2, o2); }
    if (memo->size() > 2000000) memo->clear();
    (*memo)[k] = r; return r;
  }
  Edge inverse_edge(const Vtx& p, const Vtx& q) const {
    Edge ed; ed.direct = false; ed.polecross = ed.nonuniq = ed.nearnonuniq = ed.overpole = ed.trig = false; ed.azi2 = NAN; ed.dlon = 0;
    InvR r = inv(p.lat, p.lon, q.lat, q.lon); ed.s = r.s12; ed.S = r.S12;
    if (!fin(p.lon) || !fin(q.lon) || !fin(p.lat) || !fin(q.lat)) return ed;
    bool is180 = false;
    ed.dlon = reduce180((f128)q.lon - (f128)p.lon, is180);
    bool near180 = std::fabs(std::fabs((double)ed.dlon) - 180) < 1e-9;
    bool poles = std::fabs(p.lat) == 90 && p.lat == -q.lat;
    if (IsRhumb<G>::value) {
      ed.nonuniq = is180 || poles;                          // east- and west-going rhumb lines are equally long
      ed.nearnonuniq = near180 || poles;
    } else {
      ed.nonuniq = poles || (is180 && p.lat == -q.lat);    // antipodal (oblate ellipsoid or sphere)
      ed.nearnonuniq = poles || (near180 && std::fabs(p.lat + q.lat) < 1e-9);
      if (is180 && !ed.nonuniq) {
        // meridian up to the nearer pole and down the opposite meridian.  Taken east-going: the area between the path and
        // the equator is a quarter of the ellipsoid (north) or minus that (south); the increment is +180.  (A west-going
        // reading gives (-A0/4, -180): the same contribution to -S + w A0/2.)
        ed.overpole = true;
        ed.S = (p.lat + q.lat > 0 ? 1 : -1) * (A0 / 4);
        ed.dlon = 180;
        // the class of calls for which PolygonArea::transit is inconsistent (known finding): travelling west by exactly 180
        // from longitude 0 (mod 360) to a longitude that AngNormalize maps to +180
        ed.trig = Math::AngDiff(p.lon, q.lon) == -180 && Math::AngNormalize(q.lon) == 180;
      }
    }
    return ed;
  }
  void apply(const GOp& o) {
    if (o.kind == 'C') { v.clear(); e.clear(); kind.clear(); ops.clear(); return; }
    if (o.kind == 'P') {
      Vtx q{o.a, o.b};
      if (!v.empty()) e.push_back(inverse_edge(v.back(), q));
      v.push_back(q); kind.push_back('P'); ops.push_back(o); return;
    }
    if (v.empty()) return;                                   // documented: AddEdge does nothing without a starting point
    DirR r; { CovOff off; r = lib_dir(*g, v.back().lat, v.back().lon, o.a, o.b, !polyline); }
    Edge ed; ed.direct = true; ed.s = o.b; ed.S = r.S12; ed.azi2 = r.azi2; ed.nonuniq = ed.nearnonuniq = ed.overpole = ed.trig = false;
    ed.dlon = (fin(r.lon2u) && fin(v.back().lon)) ? (f128)r.lon2u - (f128)v.back().lon : (f128)0;
    ed.polecross = fin(r.lon2u) && fmodq(fabsq(ed.dlon), 360) == 180;
    e.push_back(ed); v.push_back(Vtx{r.lat2, r.lon2u}); kind.push_back('E'); ops.push_back(o);
  }
  bool has_nan() const { for (auto& p : v) if (!fin(p.lat) || !fin(p.lon)) return true; return false; }
  // totals of the closed polygon (polygon mode) or of the open polyline
  Totals totals() const {
    Totals t; t.n = (int)v.size(); t.nan = has_nan();
    auto add = [&](const Edge& ed) {
      ++t.nE; t.per += ed.s; t.SS += ed.S; t.LL += ed.dlon; t.sumS += std::fabs(ed.S); t.sumLen += std::fabs(ed.s);
      t.maxLen = std::max(t.maxLen, std::fabs(ed.s));
      t.nonuniq |= ed.nonuniq; t.nearnonuniq |= ed.nearnonuniq; t.overpole |= ed.overpole; t.polecross |= ed.polecross; t.ntrig += ed.trig;
      if (!fin(ed.s) || !fin(ed.S)) t.nan = true;
    };
    if (polyline) { for (auto& ed : e) add(ed); if (t.n < 2) { t.per = 0; } return t; }
    if (t.n < 2) return t;                                   // documented by Compute: fewer than two points -> 0, 0
    for (auto& ed : e) add(ed);
    add(inverse_edge(v.back(), v[0]));
    if (t.nan) return t;
    f128 w = roundq(t.LL / 360);
    t.winding_ok = (w * 360 == t.LL);
    t.area_ccw = -t.SS + w * ((f128)A0 / 2);
    return t;
  }
};

// ------------------------------------------------------------------ query results
struct Out { unsigned n; double per, area; };
struct Q4 { Out o[4]; };        // index = 2*reverse + sign
static inline bool nanq(double x) { return std::isnan(x); }

// ------------------------------------------------------------------ configuration
struct Cfg { std::string name; double a, f; bool polyline; int depth; bool sphere; };

template <class G> struct Explorer {
  typedef PolygonAreaT<G> PA;
  Ctx& ctx; const Cfg& cfg; const G& earth; double A0, U0, ka, kl;
  GOp OPS[NOPS];
  std::unordered_map<MemoKey, InvR, MemoHash> memo;
  uint64_t n_traces = 0, n_states = 0, n_trans = 0, n_amb = 0, n_unamb = 0, n_nan = 0, n_pole = 0, n_probe = 0, n_variants = 0,
           n_cutskip = 0, n_keycoll = 0, n_merged = 0, n_refcmp = 0, n_lonrange = 0, n_over = 0, n_metaskip = 0, n_inter = 0, n_padmask = 0;

  Explorer(Ctx& c, const Cfg& cf, const G& e) : ctx(c), cfg(cf), earth(e) {
    A0 = earth.EllipsoidArea(); U0 = mc::ulp_of(A0); kl = cfg.a / AW; ka = kl * kl;
    for (int i = 0; i < NOPS; ++i) { OPS[i] = OPS0[i]; if (OPS[i].kind == 'E') OPS[i].b *= kl; }
  }
  Model<G> model() { Model<G> m; m.g = &earth; m.A0 = A0; m.polyline = cfg.polyline; m.memo = &memo; return m; }

  // ---------------------------------------------------------------- failure plumbing
  std::string curhist;                 // description of the state being evaluated (for keys)
  void fail(const std::string& kind, const std::string& where, const std::string& msg, mc::Fields extra = {}) {
    mc::Fields F{{"kind", kind}, {"config", cfg.name}, {"history", curhist}, {"where", where}};
    for (auto& x : extra) F.push_back(x);
    ctx.fail(cfg.name + "|" + curhist + "|" + kind + "|" + where, msg, F);
  }

  // scoping of the known finding: the comparison involves an odd number of transit() calls of the defective class and the
  // discrepancy is half the ellipsoid area
  mc::Fields defect(int ntrig, double d, double tol) const {
    mc::Fields F{{"off_in_half_A0", fmti((long long)std::llround(2 * d / A0))}};
    if ((ntrig & 1) && std::fabs(d - A0 / 2) <= tol) F.push_back({"defect", "transit-west-180"});
    return F;
  }

  // ---------------------------------------------------------------- implementation side
  static void apply(PA& p, const GOp& o) {
    if (o.kind == 'P') p.AddPoint(o.a, o.b); else if (o.kind == 'E') p.AddEdge(o.a, o.b); else p.Clear();
  }
  PA build(const std::vector<GOp>& ops) { PA p(earth, cfg.polyline); for (auto& o : ops) apply(p, o); ++n_traces; return p; }

  // all four Compute answers; the object must not change; polyline must leave area untouched
  Q4 compute4(const PA& p, const std::string& where) {
    Q4 q; Key k0 = canon(p);
    for (int f = 0; f < 4; ++f) {
      double per = SENT, area = SENT;
      q.o[f].n = p.Compute(f >> 1, f & 1, per, area); q.o[f].per = per; q.o[f].area = area;
      if (cfg.polyline && !mc::same_bits(area, SENT)) fail("polyline-area-written", where + " Compute f=" + fmti(f), "polyline Compute wrote area = " + fx(area));
      if (per == SENT) fail("perimeter-not-set", where + " Compute f=" + fmti(f), "Compute left perimeter untouched");
    }
    if (canon(p) != k0) fail("query-changed-state", where + " Compute", "Compute changed the object: " + keydiff(k0, canon(p)));
    for (int f = 1; f < 4; ++f) {
      if (q.o[f].n != q.o[0].n) fail("flags-num", where, "number of points depends on reverse/sign");
      if (!(q.o[f].per == q.o[0].per || (nanq(q.o[f].per) && nanq(q.o[0].per)))) fail("flags-perimeter", where, "perimeter depends on reverse/sign: " + fx(q.o[f].per) + " vs " + fx(q.o[0].per));
    }
    return q;
  }
  Q4 test4(const PA& p, const GOp& t, const std::string& where) {
    Q4 q; Key k0 = canon(p);
    for (int f = 0; f < 4; ++f) {
      double per = SENT, area = SENT;
      q.o[f].n = t.kind == 'P' ? p.TestPoint(t.a, t.b, f >> 1, f & 1, per, area) : p.TestEdge(t.a, t.b, f >> 1, f & 1, per, area);
      q.o[f].per = per; q.o[f].area = area;
      if (cfg.polyline && !mc::same_bits(area, SENT)) fail("polyline-area-written", where + " f=" + fmti(f), "polyline Test wrote area = " + fx(area));
      if (per == SENT) fail("perimeter-not-set", where + " f=" + fmti(f), "Test left perimeter untouched");
      Key k1 = canon(p);
      if (k1 != k0) { fail("query-changed-state", where, std::string(t.kind == 'P' ? "TestPoint" : "TestEdge") + " changed the object: " + keydiff(k0, k1)); k0 = k1; }
    }
    for (int f = 1; f < 4; ++f) {
      if (q.o[f].n != q.o[0].n) fail("flags-num", where, "number of points depends on reverse/sign");
      if (!(q.o[f].per == q.o[0].per || (nanq(q.o[f].per) && nanq(q.o[0].per)))) fail("flags-perimeter", where, "perimeter depends on reverse/sign: " + fx(q.o[f].per) + " vs " + fx(q.o[0].per));
    }
    return q;
  }

  // ---------------------------------------------------------------- predicates
  double remA(double x) const { return std::remainder(x, A0); }
  // difference of two areas modulo the ellipsoid area, computed without cancellation problems
  double dmod(double x, double y) const { return (double)remainderq((f128)x - (f128)y, (f128)A0); }

  // documented relations between the four answers (reverse: sense; sign: signed vs rest-of-the-earth)
  void check_flags(const Q4& q, const std::string& where) {
    if (cfg.polyline) return;
    bool anynan = false; for (int f = 0; f < 4; ++f) anynan |= nanq(q.o[f].area);
    if (anynan) { for (int f = 0; f < 4; ++f) if (!nanq(q.o[f].area)) fail("flags-nan", where, "area is NaN for some but not all (reverse,sign)"); return; }
    for (int f = 0; f < 4; ++f) {
      double A = q.o[f].area; bool sign = f & 1;
      bool ok = sign ? (A >= -A0 / 2 && A <= A0 / 2) : (A >= 0 && A <= A0);
      if (!ok) fail("flags-range", where + " f=" + fmti(f), "area " + fx(A) + " outside the documented range for sign=" + fmti(sign) + " (A0=" + fx(A0) + ")");
    }
    double base = q.o[1].area;                         // reverse = 0, sign = 1: signed counter-clockwise area
    double tol = K_FLAGS * U0;
    for (int f = 0; f < 4; ++f) {
      double want = (f >> 1) ? -base : base;
      double d = std::fabs(dmod(q.o[f].area, want));
      if (d <= tol) ctx.worst("flags.err_over_tol", d / tol, cfg.name + " " + curhist + " " + where);
      if (d > tol) fail("flags-relation", where + " f=" + fmti(f), "area(reverse=" + fmti(f >> 1) + ",sign=" + fmti(f & 1) + ")=" + fx(q.o[f].area) + " is not congruent to " + ((f >> 1) ? "-" : "+") + std::string("area(0,1)=") + fx(base) + " mod A0");
    }
    // inside the open range the relations are plain identities, not only congruences
    if (std::fabs(base) > tol && std::fabs(base) < A0 / 2 - tol) {
      if (std::fabs(q.o[3].area + base) > tol) fail("flags-negation", where, "sign=1: reversing the sense must negate: " + fx(q.o[3].area) + " vs " + fx(base));
      double w0 = base < 0 ? base + A0 : base, w2 = base > 0 ? A0 - base : -base;
      if (std::fabs(q.o[0].area - w0) > tol) fail("flags-complement", where, "sign=0, reverse=0: " + fx(q.o[0].area) + " expected " + fx(w0));
      if (std::fabs(q.o[2].area - w2) > tol) fail("flags-complement", where, "sign=0, reverse=1: " + fx(q.o[2].area) + " expected " + fx(w2));
    }
  }

  // Appendix B: 0.2 m^2 per edge scaled by (a/6378137)^2; perimeter 2 x geodesic accuracy (15 nm) per edge, x max(1, s/2Q)
  double tolA_ref(const Totals& t) const { return 0.2 * ka * std::max(1, t.nE); }
  double tolP_ref(const Totals& t) const { return 30e-9 * kl * std::max(1, t.nE) * std::max(1.0, t.maxLen / (2.0e7 * kl)); }
  double Uarea(const Totals& t) const { return EPS * (A0 / 2 + t.sumS) * std::max(1, t.nE); }
  double Uper(const Totals& t) const { return EPS * t.sumLen * std::max(1, t.nE); }

  // implementation answers against the reference model; extraA/extraP: additional round-off allowance (Test* plain sums)
  void check_ref(const Q4& q, const Totals& t, unsigned want_n, const std::string& where, const char* tag, double extraK) {
    for (int f = 0; f < 4; ++f) if (q.o[f].n != want_n) { fail("num", where + " f=" + fmti(f), std::string(tag) + " returned " + fmti(q.o[f].n) + " points, the vertex list has " + fmti(want_n)); break; }
    if (t.nan) { ++n_nan; return; }
    if (!t.winding_ok) { fail("ref-winding-not-integer", where, "reference self-check: longitude increments do not sum to a multiple of 360"); return; }
    // perimeter does not depend on uniqueness conventions except through the (equal-length) alternatives
    {
      double tolP = tolP_ref(t) + extraK * Uper(t);
      double d = std::fabs((double)((f128)q.o[0].per - t.per));
      if (d <= tolP && tolP > 0) ctx.worst(std::string(tag) + ".perimeter_err_over_tol", d / tolP, cfg.name + " " + curhist + " " + where);
      if (!(d <= tolP)) fail(std::string(tag) + "-perimeter", where, std::string(tag) + " perimeter " + fx(q.o[0].per) + " but the edges of the vertex list sum to " + mc::fmtl((long double)t.per) + " (tol " + fmt(tolP) + ")");
    }
    if (cfg.polyline) return;
    if (t.nonuniq) { ++n_amb; return; }
    ++n_unamb; ++n_refcmp; if (t.polecross) ++n_pole; if (t.overpole) ++n_over;
    double tolA = tolA_ref(t) + extraK * Uarea(t);
    for (int f = 0; f < 4; ++f) {
      f128 want = (f >> 1) ? -t.area_ccw : t.area_ccw;
      double d = std::fabs((double)remainderq((f128)q.o[f].area - want, (f128)A0));
      if (d <= tolA) ctx.worst(std::string(tag) + ".area_err_over_tol", d / tolA, cfg.name + " " + curhist + " " + where);
      if (!(d <= tolA)) {
        fail(std::string(tag) + "-area", where + " f=" + fmti(f),
             std::string(tag) + " area(reverse=" + fmti(f >> 1) + ",sign=" + fmti(f & 1) + ") = " + fx(q.o[f].area) + " but -sum S12 + w*A0/2 = " +
             mc::fmtl((long double)want) + " (mod A0=" + fmt(A0) + "; off by " + fmt(d) + ", i.e. " + fmt(d / A0) + " A0; tol " + fmt(tolA) + ")",
             defect(t.ntrig, d, tolA));
        break;
      }
    }
  }

  // metamorphic comparison of two polygons' answers.  fmap[f] = flag combination of `var` that must equal `base`.o[f]
  void check_meta(const Q4& base, const Q4& var, const int fmap[4], unsigned want_n, double tolA, double tolP, double UA, double UP,
                  const std::string& where, const char* tag, int ntrig = 0) {
    if (var.o[0].n != want_n) fail(std::string(tag) + "-num", where, "variant has " + fmti(var.o[0].n) + " points, expected " + fmti(want_n));
    double dp = std::fabs(var.o[0].per - base.o[0].per);
    if (tolP > 0 && dp <= tolP) ctx.worst(std::string(tag) + ".perimeter_err_over_tol", dp / tolP, cfg.name + " " + curhist + " " + where);
    if (!(dp <= tolP)) fail(std::string(tag) + "-perimeter", where, "perimeter " + fx(var.o[0].per) + " vs " + fx(base.o[0].per) + " (diff " + fmt(dp) + ", tol " + fmt(tolP) + ")");
    if (cfg.polyline) return;
    for (int f = 0; f < 4; ++f) {
      double d = std::fabs(dmod(var.o[fmap[f]].area, base.o[f].area));
      if (d <= tolA) ctx.worst(std::string(tag) + ".area_err_over_tol", d / tolA, cfg.name + " " + curhist + " " + where);
      if (!(d <= tolA)) {
        fail(std::string(tag) + "-area", where + " f=" + fmti(f), "area " + fx(var.o[fmap[f]].area) + " (flags " + fmti(fmap[f]) + ") vs " + fx(base.o[f].area) + " (flags " + fmti(f) +
             "): differ by " + fmt(d) + " mod A0 (" + fmt(d / A0) + " A0), tol " + fmt(tolA), defect(ntrig, d, tolA));
        break;
      }
    }
  }

  // spherical excess of the vertex list (all edges minor arcs), Oosterom-Strackee fan from vertex 0, in __float128
  f128 sphere_area(const std::vector<Vtx>& v) const {
    const f128 D = M_PIq / 180;
    std::vector<std::array<f128, 3>> x;
    for (auto& p : v) { f128 la = (f128)p.lat * D, lo = (f128)std::remainder(p.lon, 360.0) * D; x.push_back({cosq(la) * cosq(lo), cosq(la) * sinq(lo), sinq(la)}); }
    auto dot = [](const std::array<f128, 3>& a, const std::array<f128, 3>& b) { return a[0] * b[0] + a[1] * b[1] + a[2] * b[2]; };
    f128 E = 0;
    for (size_t i = 1; i + 1 < x.size(); ++i) {
      const auto &a = x[0], &b = x[i], &c = x[i + 1];
      f128 det = a[0] * (b[1] * c[2] - b[2] * c[1]) - a[1] * (b[0] * c[2] - b[2] * c[0]) + a[2] * (b[0] * c[1] - b[1] * c[0]);
      E += 2 * atan2q(det, 1 + dot(a, b) + dot(b, c) + dot(c, a));
    }
    return E * (f128)cfg.a * (f128)cfg.a;
  }

  // ---------------------------------------------------------------- evaluation of one polygon given as an operation list
  struct Poly { Model<G> m; Totals t; Q4 q; };
  Poly eval_poly(const std::vector<GOp>& ops, const std::string& where, bool refcheck = true) {
    Ctx::Case cs(ctx);
    Poly r{model(), Totals(), Q4()};
    PA p = build(ops);
    for (auto& o : ops) r.m.apply(o);
    r.t = r.m.totals();
    r.q = compute4(p, where);
    check_flags(r.q, where);
    if (refcheck) check_ref(r.q, r.t, (unsigned)r.m.v.size(), where, "compute", 0);
    ctx.sig((uint64_t)r.t.n * 32 + (r.t.nonuniq ? 1 : 0) + (r.t.polecross ? 2 : 0) + (r.t.nan ? 4 : 0) + (p._crossings & 1 ? 8 : 0) + (r.t.overpole ? 16 : 0));
    return r;
  }

  // ---------------------------------------------------------------- const queries made part of the history
  // The BFS materialises a state by replaying mutating operations only, and canon() lists the members known today.  A
  // change that lets a const query leave something behind (a memo in a new mutable member, not reset by Clear, ...) is
  // invisible to both.  So every state is also reached on objects on which the query set Q (Compute x 4 (reverse,sign),
  // 2 TestPoint, 2 TestEdge) is executed after EVERY mutating operation, including Clear, in three histories:
  //   plain   : h with Q interleaved
  //   same-n  : a different polygon with as many vertices as the state, Q interleaved; Clear; Q; then h with Q interleaved
  //   fixed   : P(-20,359.5) E(90,1e6) P(45,90), Q interleaved; Clear; Q; then h with Q interleaved
  //   same-n quiet / fixed quiet : the same prefixes with Q only after the last prefix operation and after Clear, then h
  //             WITHOUT intermediate queries (so that nothing refreshes what the prefix left behind)
  // At the end the final query set must answer BIT-identically to the cleanly replayed object, the canonical keys must be
  // equal, and the whole object representation outside the _earth member (objects are constructed in zero-filled storage,
  // so padding is neutral; both objects have answered the same final queries) must be identical byte for byte.
  struct ZObj {
    alignas(PA) unsigned char buf[sizeof(PA)]; PA* p;
    ZObj(const G& e, bool polyline) { memset(buf, 0, sizeof buf); p = new (buf) PA(e, polyline); }
    ~ZObj() { p->~PA(); }
    ZObj(const ZObj&) = delete; ZObj& operator=(const ZObj&) = delete;
  };
  struct QRes { std::vector<Out> o; };
  void query_set(const PA& p, QRes* r) {
    static const int TP[2] = {2, 11}, TE[2] = {13, 16}, FL[2] = {1, 2};
    auto put = [&](unsigned nn, double per, double area) { if (r) r->o.push_back(Out{nn, per, area}); };
    for (int f = 0; f < 4; ++f) { double per = SENT, area = SENT; unsigned nn = p.Compute(f >> 1, f & 1, per, area); put(nn, per, area); }
    for (int t : TP) for (int f : FL) { double per = SENT, area = SENT; unsigned nn = p.TestPoint(OPS[t].a, OPS[t].b, f >> 1, f & 1, per, area); put(nn, per, area); }
    for (int t : TE) for (int f : FL) { double per = SENT, area = SENT; unsigned nn = p.TestEdge(OPS[t].a, OPS[t].b, f >> 1, f & 1, per, area); put(nn, per, area); }
  }
  // bytes outside _earth that differ; `mask` (optional) marks bytes to ignore.  Immediately after construction from the same
  // arguments every member is equal, so a difference found then is padding that the constructor itself wrote (gcc stores the
  // bool _polyline with a 4-byte move whose upper bytes are whatever the register held): those bytes are masked.
  static std::string bytediff(const PA& a, const PA& b, std::vector<char>* setmask, const std::vector<char>* mask) {
    const unsigned char *x = (const unsigned char*)&a, *y = (const unsigned char*)&b;
    size_t e0 = (size_t)((const unsigned char*)&a._earth - x), e1 = e0 + sizeof(G);
    std::string s;
    if (setmask) setmask->assign(sizeof(PA), 0);
    for (size_t i = 0; i < sizeof(PA); ++i) {
      if (i >= e0 && i < e1) continue;
      if (mask && (*mask)[i]) continue;
      if (x[i] != y[i]) { if (setmask) (*setmask)[i] = 1; if (s.size() < 200) s += " +" + fmti((long long)i); }
    }
    return s;
  }
  void interleaved(const std::vector<GOp>& hops, int n) {
    Ctx::Case cs(ctx);
    ZObj clean(earth, cfg.polyline);
    alignas(PA) unsigned char snap[sizeof(PA)];
    memcpy(snap, clean.buf, sizeof snap);                              // byte snapshot of `clean` as constructed (only its bytes outside _earth are read)
    for (auto& o : hops) apply(*clean.p, o);
    ++n_traces;
    QRes want; query_set(*clean.p, &want);
    Key kc = canon(*clean.p);
    static const int SAME[5] = {8, 5, 2, 0, 11};              // (45,90) (-20,-0.5) (10,180) (0,0) (30,1e-13)
    for (int variant = 0; variant < 5; ++variant) {
      std::vector<GOp> pre;
      const bool quiet = variant >= 3;                          // queries only at the end of the prefix, after Clear and at the end
      if (variant == 1 || variant == 3) { if (n == 0) continue; for (int i = 0; i < n; ++i) pre.push_back(OPS[SAME[i % 5]]); }
      if (variant == 2 || variant == 4) { pre.push_back(OPS[4]); pre.push_back(OPS[13]); pre.push_back(OPS[8]); }
      if (variant) pre.push_back(OPS[NOPS - 1]);              // Clear
      static const char* VN[5] = {"plain", "same-n", "fixed", "same-n quiet", "fixed quiet"};
      const char* vn = VN[variant];
      ZObj w(earth, cfg.polyline);
      std::vector<char> mask;
      if (!bytediff(*w.p, *(const PA*)snap, &mask, nullptr).empty()) ++n_padmask;
      for (size_t i = 0; i < pre.size(); ++i) { apply(*w.p, pre[i]); if (!quiet || i + 2 >= pre.size()) query_set(*w.p, nullptr); }
      for (auto& o : hops) { apply(*w.p, o); if (!quiet) query_set(*w.p, nullptr); }
      ++n_traces; ++n_inter;
      QRes got; query_set(*w.p, &got);
      std::string where = std::string("interleaved ") + vn + (pre.empty() ? std::string() : " [" + opsstr(pre) + "]");
      for (size_t i = 0; i < want.o.size(); ++i) {
        const Out &a = want.o[i], &b = got.o[i];
        if (a.n != b.n || !mc::same_bits(a.per, b.per) || !mc::same_bits(a.area, b.area)) {
          fail("interleaved-query-result", where, "query #" + fmti((long long)i) + " (0-3 Compute, 4-7 TestPoint, 8-11 TestEdge) answers n=" + fmti(b.n) + " perimeter=" + fx(b.per) + " area=" + fx(b.area) +
               " on an object whose history contains const queries, but n=" + fmti(a.n) + " perimeter=" + fx(a.per) + " area=" + fx(a.area) + " on a cleanly replayed object");
          break;
        }
      }
      Key kw = canon(*w.p);
      if (kw != kc) fail("interleaved-state-key", where, "canonical state differs from the cleanly replayed object: " + keydiff(kw, kc));
      std::string bd = bytediff(*w.p, *clean.p, nullptr, &mask);
      if (!bd.empty()) fail("interleaved-object-bytes", where, "object representation (outside _earth, sizeof " + fmti((long long)sizeof(PA)) + ") differs from the cleanly replayed object at byte offsets" + bd);
    }
  }

  // ---------------------------------------------------------------- everything that is checked at one state
  void eval_state(const std::vector<uint8_t>& hist, const Key& bfskey) {
    std::vector<GOp> hops; for (uint8_t i : hist) hops.push_back(OPS[i]);
    curhist = opsstr(hops);
    Model<G> m = model(); for (auto& o : hops) m.apply(o);
    const int n = (int)m.v.size();
    Totals t0 = m.totals();
    Q4 q0;
    PA obj = build(hops);
    {
      Ctx::Case cs(ctx);
      // replay determinism: the same history on a second fresh object gives the same key (and the key the BFS recorded)
      PA obj2 = build(hops);
      Key k1 = canon(obj), k2 = canon(obj2);
      if (k1 != k2) fail("replay-nondeterministic", "state", "two replays of the history differ: " + keydiff(k1, k2));
      if (k1 != bfskey) fail("replay-nondeterministic", "state-vs-bfs", "replay differs from the key recorded by the BFS: " + keydiff(k1, bfskey));
      // refinement mapping: canonical state against the model
      if (obj.NumberPoints() != (unsigned)n) fail("numberpoints", "state", "NumberPoints() = " + fmti(obj.NumberPoints()) + ", vertex list has " + fmti(n));
      double cla = SENT, clo = SENT; obj.CurrentPoint(cla, clo);
      if (canon(obj) != k1) fail("query-changed-state", "CurrentPoint/NumberPoints", "inspector changed the object");
      if (n == 0) {
        if (!(nanq(cla) && nanq(clo))) fail("currentpoint", "state", "CurrentPoint of an empty polygon is not NaN (documented)");
      } else if (!m.has_nan()) {
        const Vtx& L = m.v.back(); const Vtx& F = m.v.front();
        bool ok = (cla == L.lat) && std::fabs(std::remainder(clo - L.lon, 360.0)) <= 64 * EPS * 360;
        if (!ok) fail("currentpoint", "state", "CurrentPoint = (" + fx(cla) + "," + fx(clo) + ") but the last vertex is (" + fx(L.lat) + "," + fx(L.lon) + ")");
        if (!(std::fabs(clo) <= 180)) { ++n_lonrange; ctx.list("currentpoint_lon_outside_documented_range", cfg.name + " " + curhist + " -> lon " + g17(clo)); }
        if (!(mc::same_bits(obj._lat0, F.lat) && mc::same_bits(obj._lon0, F.lon))) fail("state-first-vertex", "state", "stored first vertex differs from the first vertex added");
        if (m.kind.back() == 'P' && !(mc::same_bits(cla, L.lat) && mc::same_bits(clo, L.lon))) fail("currentpoint", "state", "CurrentPoint after AddPoint is not the point added");
      }
      if (cfg.polyline && (obj._areasum._s != 0 || obj._areasum._t != 0 || obj._crossings != 0))
        fail("polyline-area-state", "state", "polyline object accumulated area state: " + keystr(k1));
      // accumulated sums against the exact sums of the model (open path)
      bool efin = !m.has_nan(); for (auto& ed : m.e) efin &= fin(ed.s) && fin(ed.S);
      if (efin) {
        // (over-pole edges: the model's S is the geometric quarter ellipsoid taken east-going; the library may have gone west,
        // which is the same path, so the accumulated sum is compared modulo A0/2 there)
        f128 per = 0, SS = 0; double sl = 0, sS = 0; bool over = false;
        for (auto& ed : m.e) { per += ed.s; SS += ed.S; sl += std::fabs(ed.s); sS += std::fabs(ed.S); over |= ed.overpole; }
        int ne = std::max<int>(1, (int)m.e.size());
        double dP = std::fabs((double)(((f128)obj._perimetersum._s + (f128)obj._perimetersum._t) - per)), UP = EPS * sl * ne;
        if (UP > 0 && dP <= K_REFSUM * UP) ctx.worst("state.perimsum_err_over_tol", dP / (K_REFSUM * UP), cfg.name + " " + curhist);
        if (!(dP <= K_REFSUM * UP)) fail("state-perimetersum", "state", "accumulated perimeter " + fx(obj._perimetersum._s) + " vs exact edge sum " + mc::fmtl((long double)per));
        if (!cfg.polyline) {
          f128 dd = ((f128)obj._areasum._s + (f128)obj._areasum._t) - SS;
          if (over) dd = remainderq(dd, (f128)A0 / 2);
          double dA = std::fabs((double)dd), UA = EPS * (sS) * ne + (over ? tolA_ref(t0) : 0);
          if (UA > 0 && dA <= K_REFSUM * UA) ctx.worst("state.areasum_err_over_tol", dA / (K_REFSUM * UA), cfg.name + " " + curhist);
          if (!(dA <= K_REFSUM * UA)) fail("state-areasum", "state", "accumulated area " + fx(obj._areasum._s) + " vs exact sum of S12 " + mc::fmtl((long double)SS));
        }
      }
      q0 = compute4(obj, "state");
      check_flags(q0, "state");
      check_ref(q0, t0, (unsigned)n, "state", "compute", 0);
      ctx.sig((uint64_t)n * 32 + (t0.nonuniq ? 1 : 0) + (t0.polecross ? 2 : 0) + (t0.nan ? 4 : 0) + (obj._crossings & 1 ? 8 : 0) + (t0.overpole ? 16 : 0));
      if (ctx.want_sample()) ctx.sample(cfg.name + " " + curhist + " -> n=" + fmti(q0.o[1].n) + " perimeter=" + g17(q0.o[1].per) + (cfg.polyline ? std::string() : " area(ccw,signed)=" + g17(q0.o[1].area)) + (t0.nonuniq ? " [non-unique edge]" : ""));
    }

    // ---- const queries as part of the history (hidden state): see interleaved()
    interleaved(hops, n);

    // ---- tentative queries: every point and every edge, all four flag combinations
    for (int ti = 0; ti < NPT + NED; ++ti) {
      if (ti == 9) continue;                                  // same arguments as op 8
      Ctx::Case cs(ctx);
      const GOp& tq = OPS[ti];
      std::string where = std::string("Test") + opstr(tq);
      Q4 qt = test4(obj, tq, where);
      // Add-then-Compute on a fresh replay, and on a copy of the object
      std::vector<GOp> sops = hops; sops.push_back(tq);
      PA succ = build(sops);
      PA cpy(obj); apply(cpy, tq);
      if (canon(cpy) != canon(succ)) fail("replay-nondeterministic", where, "successor by copy+op differs from successor by fresh replay: " + keydiff(canon(cpy), canon(succ)));
      Q4 qs = compute4(succ, where + " successor");
      Model<G> ms = m; ms.apply(tq); Totals ts = ms.totals();
      ++n_probe;
      check_flags(qt, where);
      if (n == 0 && tq.kind == 'E') {
        // documented: AddEdge does nothing without a first point, so Add-then-Compute gives 0 points, 0, 0
        bool same = qt.o[0].n == qs.o[0].n && qt.o[0].per == qs.o[0].per && (cfg.polyline || qt.o[0].area == qs.o[0].area);
        if (!same) fail("testedge-empty", where, "TestEdge on an empty polygon returns n=" + fmti(qt.o[0].n) + " perimeter=" + fx(qt.o[0].per) + " area=" + fx(qt.o[0].area) +
                        "; AddEdge (documented no-op) then Compute returns n=" + fmti(qs.o[0].n) + " perimeter=" + fx(qs.o[0].per) + " area=" + fx(qs.o[0].area));
        continue;
      }
      // Test == Add-then-Compute within the round-off of plain double sums
      if (ts.nan) {
        for (int f = 0; f < 4; ++f) {
          if (nanq(qt.o[f].per) != nanq(qs.o[f].per) || (!cfg.polyline && nanq(qt.o[f].area) != nanq(qs.o[f].area)))
            fail("test-vs-add-nan", where, "Test and Add-then-Compute disagree on NaN: " + fx(qt.o[f].per) + "/" + fx(qt.o[f].area) + " vs " + fx(qs.o[f].per) + "/" + fx(qs.o[f].area));
        }
        if (qt.o[0].n != qs.o[0].n) fail("test-vs-add-num", where, "Test returns " + fmti(qt.o[0].n) + " points, Add-then-Compute " + fmti(qs.o[0].n));
        ++n_nan;
        continue;
      }
      static const int ID[4] = {0, 1, 2, 3};
      check_meta(qs, qt, ID, qs.o[0].n, K_TEST * Uarea(ts), K_TEST * Uper(ts), Uarea(ts), Uper(ts), where, "test-vs-add");
      // and both against the reference of the extended vertex list (this is the reference check one level deeper)
      check_ref(qs, ts, (unsigned)ms.v.size(), where + " successor", "compute", 0);
      check_ref(qt, ts, (unsigned)ms.v.size(), where, "test", K_TEST);
      ctx.sig((uint64_t)ti * 64 + (ts.nonuniq ? 1 : 0) + (ts.polecross ? 2 : 0) + (ts.overpole ? 4 : 0));
    }

    if (m.has_nan() || t0.nan || n == 0) return;
    static const int ID[4] = {0, 1, 2, 3};
    static const int SWAP[4] = {2, 3, 0, 1};                  // reverse flipped, sign kept
    auto P = [](const Vtx& v) { return GOp{'P', v.lat, v.lon}; };
    double UA = Uarea(t0), UP = Uper(t0);

    // ---- rotation: start at vertex k; every edge is produced by the bit-identical library call (holds for non-unique edges too)
    if (!cfg.polyline) for (int k = 1; k < n; ++k) {
      std::vector<GOp> r; r.push_back(P(m.v[k]));
      for (int i = k + 1; i < n; ++i) r.push_back(m.ops[i]);
      r.push_back(P(m.v[0]));
      for (int i = 1; i < k; ++i) r.push_back(m.ops[i]);
      unsigned wn = n;
      if (m.kind[k] == 'E') { r.push_back(m.ops[k]); ++wn; }      // closes with a zero-length edge
      std::string where = "rotate k=" + fmti(k);
      Poly pr = eval_poly(r, where); ++n_variants;
      if (pr.t.nan) continue;
      check_meta(q0, pr.q, ID, wn, K_ROT * UA, K_ROT * UP, UA, UP, where, "rotate", t0.ntrig + pr.t.ntrig);
    }

    // A polygon with a non-unique edge has no defined area: which of the equally short lines is taken may legitimately depend
    // on the direction of travel and on the representation of the longitudes.  Only rotation, Test==Add, the flag relations
    // and the state predicates apply to it.
    if (t0.nonuniq && !cfg.polyline) { ++n_metaskip; return; }

    // ---- reversal of the traversal order == flipping `reverse`.  A direct edge is retraced from its exact end point with the
    // back azimuth; it lands within the geodesic accuracy of its start, and a connector edge (nm long) to the exact start
    // vertex follows, so that errors do not propagate (near a pole a nm decides the meridian of the next edge).
    if (n >= 2) {
      std::vector<GOp> r; r.push_back(P(m.v[n - 1])); int nEd = 0;
      for (int i = n - 1; i >= 1; --i) {
        if (m.kind[i] == 'E') { ++nEd; r.push_back(GOp{'E', m.e[i - 1].azi2 + 180, m.e[i - 1].s}); }
        r.push_back(P(m.v[i - 1]));
      }
      Poly pr = eval_poly(r, "reversed"); ++n_variants;
      bool skip = pr.t.nan || (!cfg.polyline && pr.t.nonuniq);
      if (skip) ++n_metaskip;
      else {
        // with direct edges: Appendix-B tolerance (vertices re-computed by the library), else round-off
        double tA = nEd ? tolA_ref(pr.t) + K_REV * UA : K_REV * UA, tP = nEd ? tolP_ref(pr.t) + K_REV * UP : K_REV * UP;
        check_meta(q0, pr.q, cfg.polyline ? ID : SWAP, n + nEd, tA, tP, UA, UP, "reversed", nEd ? "reverse-edges" : "reverse", t0.ntrig + pr.t.ntrig);
      }
    }

    // ---- longitude shifts.  lon + c is rounded by the caller (and lon1 + lon12 by the library for direct edges); the
    // displacement of each vertex is bounded exactly and its first-order effect is added to the round-off bound.
    auto shifted = [&](const std::vector<double>& c, const std::string& where, const char* tag) {
      std::vector<GOp> r; double allowA = 0, allowP = 0, ceff = 0, disp = 0;
      for (int i = 0; i < n; ++i) {
        GOp o = m.ops[i];
        // displacement (degrees of longitude) of vertex i relative to the exactly shifted vertex: own rounding, plus for the end
        // point of a direct edge the displacement of its start and the rounding of lon1 + lon12 inside the library
        if (o.kind == 'P') { ceff = c[i]; double nl = o.b + ceff; disp = std::fabs((double)((f128)nl - ((f128)o.b + (f128)ceff))); o.b = nl; }
        else if (ceff != 0) disp += mc::ulp_of(std::max(std::fabs(m.v[i].lon), std::fabs(m.v[i].lon + ceff)));
        double sin_ = i > 0 ? std::fabs(m.e[i - 1].s) : t0.maxLen, sout = i + 1 < n ? std::fabs(m.e[i].s) : t0.maxLen;
        double dm = disp * (M_PI / 180) * cfg.a;
        allowA += dm * (sin_ + sout); allowP += 2 * dm;
        r.push_back(o);
      }
      Poly pr = eval_poly(r, where); ++n_variants;
      if (pr.t.nan || (!cfg.polyline && (pr.t.nonuniq || (allowA > 0 && (t0.nearnonuniq || pr.t.nearnonuniq))))) { ++n_metaskip; return; }
      check_meta(q0, pr.q, ID, n, K_SHIFT * UA + K_DISP * allowA, K_SHIFT * UP + K_DISP * allowP, UA, UP, where, tag, t0.ntrig + pr.t.ntrig);
    };
    for (double c : {17.0, -360.0, 720.0}) shifted(std::vector<double>(n, c), "all lon + " + g17(c), "shift-all");
    for (int i = 0; i < n; ++i) if (m.kind[i] == 'P') for (double c : {-360.0, 720.0}) {
      std::vector<double> cs(n, 0.0); cs[i] = c;
      shifted(cs, "lon[" + fmti(i) + "] + " + g17(c), "shift-one");
    }

    // ---- cutting along a diagonal is additive (modulo the ellipsoid area, for every flag combination)
    if (!cfg.polyline && n >= 4) for (int i = 0; i < n; ++i) for (int j = i + 2; j < n; ++j) {
      if (i == 0 && j == n - 1) continue;
      Edge dg = m.inverse_edge(m.v[i], m.v[j]), dg2 = m.inverse_edge(m.v[j], m.v[i]);
      if (dg.nonuniq || dg2.nonuniq) { ++n_cutskip; continue; }   // the diagonal itself is not a unique shortest line
      std::vector<GOp> a, b;
      a.push_back(P(m.v[i])); for (int k = i + 1; k <= j; ++k) a.push_back(m.ops[k]);
      b.push_back(P(m.v[j])); for (int k = j + 1; k < n; ++k) b.push_back(m.ops[k]);
      b.push_back(P(m.v[0])); for (int k = 1; k <= i; ++k) b.push_back(m.ops[k]);
      std::string where = "cut " + fmti(i) + "-" + fmti(j);
      Poly pa = eval_poly(a, where + " part1"), pb = eval_poly(b, where + " part2"); n_variants += 2;
      if (pa.t.nan || pb.t.nan) continue;
      Ctx::Case cs(ctx);
      double Uc = EPS * (A0 / 2 + pa.t.sumS + pb.t.sumS) * (pa.t.nE + pb.t.nE), tol = K_CUT * Uc;
      for (int f = 0; f < 4; ++f) {
        double d = std::fabs((double)remainderq((f128)q0.o[f].area - (f128)pa.q.o[f].area - (f128)pb.q.o[f].area, (f128)A0));
        if (d <= tol) ctx.worst("cut.area_err_over_tol", d / tol, cfg.name + " " + curhist + " " + where);
        if (!(d <= tol)) {
          fail("cut-area", where + " f=" + fmti(f), "area " + fx(q0.o[f].area) + " != " + fx(pa.q.o[f].area) + " + " + fx(pb.q.o[f].area) + " mod A0 (off by " + fmt(d) + " = " + fmt(d / A0) + " A0, tol " + fmt(tol) + ")",
               defect(t0.ntrig + pa.t.ntrig + pb.t.ntrig, d, tol));
          break;
        }
      }
      double Up = EPS * (pa.t.sumLen + pb.t.sumLen) * (pa.t.nE + pb.t.nE);
      double dp = std::fabs((double)((f128)pa.q.o[0].per + (f128)pb.q.o[0].per - (f128)dg.s - (f128)dg2.s - (f128)q0.o[0].per));
      if (Up > 0 && dp <= K_CUT * Up) ctx.worst("cut.perimeter_err_over_tol", dp / (K_CUT * Up), cfg.name + " " + curhist + " " + where);
      if (!(dp <= K_CUT * Up)) fail("cut-perimeter", where, "perimeters " + fx(pa.q.o[0].per) + " + " + fx(pb.q.o[0].per) + " - 2 x diagonal " + fx(dg.s) + " != " + fx(q0.o[0].per));
    }

    // ---- absolute anchor on the sphere: spherical excess of point-only polygons (edges are unique minor arcs)
    if (cfg.sphere && !cfg.polyline && n >= 3) {
      bool ponly = true; for (char k : m.kind) ponly &= k == 'P';
      bool fan_ok = true;
      for (int i = 2; i + 1 < n; ++i) fan_ok &= !m.inverse_edge(m.v[0], m.v[i]).nonuniq;
      if (ponly && fan_ok) {
        Ctx::Case cs(ctx);
        f128 want = sphere_area(m.v);
        double d = std::fabs((double)remainderq((f128)q0.o[1].area - want, (f128)A0)), tol = tolA_ref(t0);
        if (d <= tol) ctx.worst("sphere-excess.area_err_over_tol", d / tol, cfg.name + " " + curhist);
        ctx.count("sphere_excess_polygons");
        if (!(d <= tol)) fail("sphere-excess", "state", "area " + fx(q0.o[1].area) + " but R^2 x spherical excess = " + mc::fmtl((long double)want) + " (off " + fmt(d) + ")", defect(t0.ntrig, d, tol));
      }
    }
  }

  // ---------------------------------------------------------------- BFS
  struct State { std::vector<uint8_t> hist, eff; Key key; };
  struct VecHash { size_t operator()(const std::vector<uint8_t>& v) const { uint64_t h = 1099511628211ULL; for (uint8_t x : v) h = mc::mix64(h ^ x) + 0x9e37; return (size_t)h; } };

  void run() {
    ctx.sub(cfg.name);
    const int D = cfg.depth;
    ctx.bound(cfg.name + ".histories", "all operation histories of length <= " + fmti(D) + " over 19 mutating operations (12 AddPoint, 6 AddEdge, Clear); at every state Compute, 11 TestPoint, 6 TestEdge x 4 (reverse,sign), CurrentPoint, NumberPoints; ellipsoid a=" + g17(cfg.a) + " f=" + g17(cfg.f) + (cfg.polyline ? ", polyline" : ", polygon"));
    if (!ctx.sub_active) return;
    std::vector<std::vector<State>> level(D + 1);
    std::unordered_map<std::vector<uint8_t>, Key, VecHash> effmap;        // model state -> canonical key
    std::unordered_map<Key, std::vector<uint8_t>, KeyHash> keymap;        // canonical key -> model state
    PA fresh(earth, cfg.polyline);
    const Key freshkey = canon(fresh);
    level[0].push_back(State{{}, {}, freshkey}); effmap[{}] = freshkey; keymap[freshkey] = {};

    // successor of state s under op i.  Returns true if it is a new state (not merged).
    auto successor = [&](const State& s, int i, State& out, bool checks) -> bool {
      std::vector<GOp> hops; for (uint8_t k : s.hist) hops.push_back(OPS[k]); hops.push_back(OPS[i]);
      PA p = build(hops);
      if (!checks) --n_traces;                                // bookkeeping replay of a state owned by another shard
      out.hist = s.hist; out.hist.push_back((uint8_t)i);
      out.key = canon(p);
      if (OPS[i].kind == 'C') out.eff.clear();
      else { out.eff = s.eff; if (!(OPS[i].kind == 'E' && s.eff.empty())) out.eff.push_back((uint8_t)canon_op(i)); }
      if (checks) {
        ++n_trans;
        curhist = opsstr(hops);
        if (OPS[i].kind == 'C' && out.key != freshkey) fail("clear-not-fresh", "transition", "state after Clear differs from a fresh object: " + keydiff(out.key, freshkey));
        if (OPS[i].kind == 'E' && s.eff.empty() && out.key != s.key) fail("addedge-empty-not-noop", "transition", "AddEdge on an empty polygon changed the object: " + keydiff(out.key, s.key));
      }
      auto it = effmap.find(out.eff);
      if (it != effmap.end()) {
        // same model state reached by another history: the canonical keys must coincide (history independence)
        if (checks) { ++n_merged; if (it->second != out.key) fail("history-dependence", "transition", "same vertex list, different object state: " + keydiff(out.key, it->second)); }
        return false;
      }
      return true;
    };

    for (int d = 0; d < D; ++d) {
      for (size_t si = 0; si < level[d].size(); ++si) {
        const State s = level[d][si];
        bool mine = ctx.take();
        if (mine) { eval_state(s.hist, s.key); ++n_states; }
        if (d < D - 1) {
          for (int i = 0; i < NOPS; ++i) {
            State c;
            if (!successor(s, i, c, mine)) continue;
            auto kt = keymap.find(c.key);
            if (kt != keymap.end() && mine) ++n_keycoll;        // same fields, different vertex list: kept apart (never over-coarse)
            effmap[c.eff] = c.key; if (kt == keymap.end()) keymap[c.key] = c.eff;
            level[d + 1].push_back(c);
          }
        } else if (mine) {
          // last level: the children of this state are evaluated inside its unit
          std::vector<State> kids;
          for (int i = 0; i < NOPS; ++i) {
            State c;
            if (!successor(s, i, c, true)) continue;
            bool dup = false; for (auto& k : kids) dup |= (k.eff == c.eff);
            if (dup) { ++n_merged; for (auto& k : kids) if (k.eff == c.eff && k.key != c.key) fail("history-dependence", "transition", "same vertex list, different object state"); continue; }
            if (keymap.count(c.key)) ++n_keycoll;
            for (auto& k : kids) if (k.key == c.key) ++n_keycoll;
            kids.push_back(c);
          }
          for (auto& c : kids) { eval_state(c.hist, c.key); ++n_states; }
        }
      }
    }
    ctx.count("states", n_states); ctx.count("transitions", n_trans); ctx.count("traces", n_traces);
    ctx.count("successor_probes", n_probe); ctx.count("histories_with_interleaved_queries", n_inter); ctx.count("object_pairs_with_constructor_written_padding_masked", n_padmask); ctx.count("variant_polygons", n_variants);
    ctx.count("reference_comparisons_unique_edges", n_unamb); ctx.count("polygons_with_nonunique_edge_no_reference", n_amb);
    ctx.count("reference_comparisons_with_edge_through_pole_lon_diff_180", n_over); ctx.count("metamorphic_comparisons_skipped_nonunique", n_metaskip);
    ctx.count("polygons_with_pole_crossing_direct_edge", n_pole); ctx.count("polygons_with_nan_vertex", n_nan);
    ctx.count("diagonals_skipped_nonunique", n_cutskip); ctx.count("merged_histories", n_merged);
    ctx.count("key_equal_but_model_state_differs", n_keycoll); ctx.count("currentpoint_lon_outside_[-180,180]", n_lonrange);
  }
};

template <class G> static void explore(Ctx& ctx, const Cfg& cfg, const G& earth) { Explorer<G> ex(ctx, cfg, earth); ex.run(); }

int main(int argc, char** argv) {
  Ctx ctx(argc, argv);
  const bool T = ctx.thorough();
  const int d = T ? 4 : 3;
  ctx.bound("alphabet.points", "(0,0) (0,-0.0) (10,180) (10,-180) (-20,359.5) (-20,-0.5) (90,77) (-90,0) (45,90) (45,90)again (0,720) (30,1e-13)");
  ctx.bound("alphabet.edges", "(azi,s): (90,0) (90,1e6) (-90,1e6) (0,2.1e7 over the pole) (90,4.5e7 more than one circuit) (135,1e3); s scaled by a/6378137");
  ctx.bound("depth", T ? "5 mutating operations for PolygonArea(Geodesic WGS84) polygon, 4 for every other configuration" : "4 mutating operations for PolygonArea(Geodesic WGS84) polygon, 3 for every other configuration");
  ctx.bound("interleaved-queries", "per state 5 histories containing const queries (Compute x 4, 2 TestPoint, 2 TestEdge): after every mutating operation incl. Clear (plain; after a same-size polygon + Clear; after a fixed 3-vertex polygon + Clear) and the two prefixed ones with queries only before/after the Clear: final answers, canonical key and object bytes identical to the clean replay");
  ctx.bound("variants", "per state: all cyclic rotations, reversal, every longitude + {17,-360,720}, each point longitude + {-360,720}, all diagonals (n >= 4)");
  ctx.note("polygons with an edge whose shortest line is not unique ('taken to be unique' in the statement: antipodal end points incl. pole to pole for geodesics; opposite meridians for rhumb lines, Rhumb.hpp) have no defined area: no reference comparison, no reversal/shift/cut comparison (the choice among equally short lines may depend on direction and representation); rotation, Test==Add, flag relations and state predicates still apply; counted in polygons_with_nonunique_edge_no_reference");
  ctx.note("geodesic edges with longitude difference exactly +-180 between non-antipodal points are unique (the meridian through the nearer pole); the reference takes them east-going with S12 = +-A0/4; counted in reference_comparisons_with_edge_through_pole_lon_diff_180");
  ctx.note("direct (AddEdge) edges through a pole have a unique path; the reference takes the library's unrolled longitude increment for them (counted in polygons_with_pole_crossing_direct_edge)");
  ctx.note("rhumb AddEdge beyond a pole yields a NaN vertex (documented in Rhumb.hpp); such polygons are checked for Test==Add (NaN pattern), unchanged state and Clear only");
  ctx.note("CurrentPoint: documentation promises lon in [-180,180] but the stored (possibly unrolled / un-normalised) longitude is returned; outside the C08 statement, listed in currentpoint_lon_outside_documented_range, not failed");

  Geodesic gw(AW, FW), gx(AW, FW, true), gs(AW, 0), gu(1, 1 / 150.0);
  GeodesicExact xw(AW, FW);
  Rhumb rw(AW, FW);
  // order: cheapest first inside a tier does not matter; names are the subcheck names
  { Cfg c{"G-polygon", AW, FW, false, d + 1, false}; explore(ctx, c, gw); }
  { Cfg c{"G-polyline", AW, FW, true, d, false}; explore(ctx, c, gw); }
  { Cfg c{"X-polygon", AW, FW, false, d, false}; explore(ctx, c, xw); }
  { Cfg c{"X-polyline", AW, FW, true, d, false}; explore(ctx, c, xw); }
  { Cfg c{"GE-polygon", AW, FW, false, d, false}; explore(ctx, c, gx); }
  { Cfg c{"GE-polyline", AW, FW, true, d, false}; explore(ctx, c, gx); }
  { Cfg c{"R-polygon", AW, FW, false, d, false}; explore(ctx, c, rw); }
  { Cfg c{"R-polyline", AW, FW, true, d, false}; explore(ctx, c, rw); }
  { Cfg c{"S-polygon", AW, 0, false, d, true}; explore(ctx, c, gs); }
  { Cfg c{"U-polygon", 1, 1 / 150.0, false, d, false}; explore(ctx, c, gu); }
  return ctx.finish();
}
