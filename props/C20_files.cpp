// C20, part 2 -- engine E4: geoid data files that violate the format are rejected with GeographicErr, files that
// satisfy it are accepted and read correctly.  Flavour `san` (ASan + UBSan); every batch of cases runs in a forked
// child (mc/fault.hpp Isolator), so a sanitizer report, a crash or a hang is an outcome of the case.
//
// Reference (the documented format, geoid.dox "The format of the geoid data files" + Geoid constructor contract):
//   "P5" line; comment lines "# Key value" of which "# Offset" and "# Scale" are required (any order, anywhere before
//   the dimensions), Scale > 0; "width height" with width even >= 2 and height odd >= 3; maxval 65535; exactly
//   2*width*height bytes of big-endian pixels after the single whitespace that follows maxval.
//   height(lat, lon) at a grid node = offset + scale * pixel.
// Every enumerated file is classified MUST-ACCEPT / MUST-REJECT / EITHER (documentation silent) by construction of
// the fault, never by looking at what the library does.
#include "mc/ctx.hpp"
#include "mc/fault.hpp"
#include <GeographicLib/Geoid.hpp>
#include <memory>
#include <algorithm>

using namespace GeographicLib;
using mc::Ctx; using mc::fx; using mc::fmt; using mc::fmti;

enum { ACCEPT = 0, REJECT = 1, EITHER = 2 };
static const char* EXN[3] = {"must-accept", "must-reject", "either"};

struct Spec {                       // what a well-formed file says
  int w = 4, h = 3; std::string off = "-108", sc = "0.003"; std::vector<unsigned> px;
  bool errlines = true, desc = true;
};
struct FCase { std::string id, klass, image; int expect; Spec spec; };

static std::vector<unsigned> pixels(int w, int h) { std::vector<unsigned> p; for (int y = 0; y < h; ++y) for (int x = 0; x < w; ++x) p.push_back(unsigned((37 * x + 101 * y * y + 7) % 65536)); return p; }
static std::string databytes(const std::vector<unsigned>& px) { std::string d; for (unsigned v : px) { d += char(v >> 8); d += char(v & 255); } return d; }
static std::vector<std::string> header_lines(const Spec& s) {
  std::vector<std::string> l;
  l.push_back("# Geoid file in PGM format for the GeographicLib::Geoid class");
  if (s.desc) { l.push_back("# Description tiny raster"); l.push_back("# DateTime 2020-01-01 00:00:00"); }
  if (s.errlines) { l.push_back("# MaxBilinearError 0.140"); l.push_back("# RMSBilinearError 0.005"); l.push_back("# MaxCubicError 0.003"); l.push_back("# RMSCubicError 0.001"); }
  l.push_back("# Offset " + s.off); l.push_back("# Scale " + s.sc);
  l.push_back("# Origin 90N 0E"); l.push_back("# AREA_OR_POINT Point"); l.push_back("# Vertical_Datum WGS84");
  return l;
}
static std::string assemble(const std::string& magic, const std::vector<std::string>& lines, const std::string& dims, const std::string& maxval, const std::string& data) {
  std::string s = magic + "\n"; for (auto& l : lines) s += l + "\n"; return s + dims + "\n" + maxval + "\n" + data;
}
static std::string image_of(const Spec& s) { return assemble("P5", header_lines(s), fmti(s.w) + " " + fmti(s.h), "65535", databytes(s.px)); }

static void build_cases(std::vector<FCase>& out, bool T) {
  Spec base; base.px = pixels(4, 3);
  const std::string good = image_of(base), data = databytes(base.px);
  auto add = [&](const std::string& klass, const std::string& id, const std::string& img, int expect, const Spec& sp) { out.push_back({klass + ":" + id, klass, img, expect, sp}); };
  // ---- well-formed files
  add("valid", "base", good, ACCEPT, base);
  for (int w : {2, 4, 8}) for (int h : {3, 5, 9}) { Spec s = base; s.w = w; s.h = h; s.px = pixels(w, h); add("valid", "size-" + fmti(w) + "x" + fmti(h), image_of(s), ACCEPT, s); }
  { Spec s = base; s.off = "0"; s.sc = "1"; add("valid", "offset0-scale1", image_of(s), ACCEPT, s); }
  { Spec s = base; s.off = "-1.08e2"; s.sc = "3e-3"; add("valid", "exponent-notation", image_of(s), ACCEPT, s); }
  { Spec s = base; s.errlines = false; s.desc = false; add("valid", "only-required-comments", image_of(s), ACCEPT, s); }
  { Spec s = base; s.px.assign(12, 65535); add("valid", "all-pixels-max", image_of(s), ACCEPT, s); s.px.assign(12, 0); add("valid", "all-pixels-zero", image_of(s), ACCEPT, s); }
  { // every order of the four functional comment lines
    std::vector<std::string> l = {"# Description tiny raster", "# Offset -108", "# Scale 0.003", "# DateTime 2020-01-01 00:00:00"};
    std::sort(l.begin(), l.end()); int n = 0;
    Spec s = base; s.errlines = false;
    do { add("valid", "comment-order-" + fmti(n++), assemble("P5", l, "4 3", "65535", data), ACCEPT, s); } while (std::next_permutation(l.begin(), l.end()));
  }
  for (size_t i = 0; i < data.size(); ++i) {        // the pixel data are arbitrary: every byte changed, still valid, node value follows
    Spec s = base; std::string d = data; d[i] = char((unsigned char)d[i] ^ 0xA5);
    for (size_t k = 0; k < s.px.size(); ++k) s.px[k] = ((unsigned char)d[2 * k] << 8) | (unsigned char)d[2 * k + 1];
    add("valid", "data-byte-" + fmti((long long)i), image_of(s), ACCEPT, s);
  }
  // ---- documentation silent
  { std::vector<std::string> l = header_lines(base); l.insert(l.begin() + 3, ""); add("silent", "blank-line-in-header", assemble("P5", l, "4 3", "65535", data), EITHER, base); }
  add("silent", "magic-trailing-blank", assemble("P5 ", header_lines(base), "4 3", "65535", data), EITHER, base);
  add("silent", "dims-on-two-lines", assemble("P5", header_lines(base), "4\n3", "65535", data), EITHER, base);
  add("silent", "dims-trailing-token", assemble("P5", header_lines(base), "4 3 7", "65535", data), EITHER, base);
  add("silent", "comment-after-dims", assemble("P5", header_lines(base), "4 3\n# late comment", "65535", data), EITHER, base);
  add("silent", "crlf", [&] { std::string s = good.substr(0, good.size() - data.size()); std::string o; for (char c : s) { if (c == '\n') o += '\r'; o += c; } return o + data; }(), EITHER, base);
  for (const char* v : {"nan", "inf", "-inf", "1e999"}) {
    { Spec s = base; s.sc = v; add("silent", std::string("scale-") + v, image_of(s), EITHER, s); }
    { Spec s = base; s.off = v; add("silent", std::string("offset-") + v, image_of(s), EITHER, s); }
  }
  { std::vector<std::string> l = header_lines(base); l.push_back("# Offset 5"); add("silent", "offset-twice", assemble("P5", l, "4 3", "65535", data), EITHER, base); }
  { std::vector<std::string> l = header_lines(base); for (auto& x : l) if (x.compare(0, 8, "# Offset") == 0) x = "#Offset -108"; add("silent", "offset-no-blank-after-hash", assemble("P5", l, "4 3", "65535", data), EITHER, base); }
  // ---- violations of the format
  for (const char* m : {"P2", "P6", "P4", "P1", "p5", "P55", "P", "", "5P", "P5P5"}) add("magic", std::string("'") + fault::show(m) + "'", assemble(m, header_lines(base), "4 3", "65535", data), REJECT, base);
  add("magic", "leading-newline", "\n" + good, REJECT, base);
  add("magic", "leading-blank", " " + good, REJECT, base);
  for (int w : {1, 3, 5, 7, 0, -4, -3}) { Spec s = base; s.w = w; s.px = pixels(std::max(w, 0), 3); add("width", fmti(w), image_of(s), REJECT, s); }
  for (int h : {2, 4, 6, 8, 1, 0, -3, -2}) { Spec s = base; s.h = h; s.px = pixels(4, std::max(h, 0)); add("height", fmti(h), image_of(s), REJECT, s); }
  for (const char* d : {"4", "4 x", "x 3", "4.0 3", "4,3", "0x4 3", "2147483648 3", "4 2147483648", "4294967300 3", "99999999999999999999 3", "1073741824 3", "65536 65537", "2 2147483647", "2147483646 3", "-2147483648 3", "", " "})
    add("dims", std::string("'") + d + "'", assemble("P5", header_lines(base), d, "65535", data), REJECT, base);
  for (const char* v : {"255", "65534", "65536", "0", "1", "4294967295", "4294967296", "-1", "abc", "", "6553", "655350"}) add("maxval", std::string("'") + v + "'", assemble("P5", header_lines(base), "4 3", v, data), REJECT, base);
  add("maxval", "missing-line", "P5\n# Offset -108\n# Scale 0.003\n4 3\n" + data, REJECT, base);
  {
    auto without = [&](const char* key) { std::vector<std::string> l; for (auto& x : header_lines(base)) if (x.compare(0, strlen(key), key) != 0) l.push_back(x); return l; };
    add("required", "no-offset", assemble("P5", without("# Offset"), "4 3", "65535", data), REJECT, base);
    add("required", "no-scale", assemble("P5", without("# Scale"), "4 3", "65535", data), REJECT, base);
    std::vector<std::string> none = {"# nothing here"};
    add("required", "no-offset-no-scale", assemble("P5", none, "4 3", "65535", data), REJECT, base);
    add("required", "no-comments", "P5\n4 3\n65535\n" + data, REJECT, base);
    std::vector<std::string> late = without("# Offset"); add("required", "offset-after-dims", assemble("P5", late, "4 3\n# Offset -108", "65535", data), REJECT, base);
  }
  for (const char* v : {"0", "-0.003", "-1", "0.0", "-0", "abc", "", "x3", "--3"}) { Spec s = base; s.sc = v; add("scale", std::string("'") + v + "'", image_of(s), REJECT, s); }
  for (const char* v : {"abc", "", "x", "--1"}) { Spec s = base; s.off = v; add("offset", std::string("'") + v + "'", image_of(s), REJECT, s); }
  {
    const std::string head = good.substr(0, good.size() - data.size());
    add("length", "+1", good + std::string(1, '\0'), REJECT, base); add("length", "+1nl", good + "\n", REJECT, base);
    add("length", "+2", good + std::string(2, '\1'), REJECT, base); add("length", "+row", good + data.substr(0, 8), REJECT, base);
    add("length", "+image", good + data, REJECT, base); add("length", "-1", good.substr(0, good.size() - 1), REJECT, base);
    add("length", "-2", good.substr(0, good.size() - 2), REJECT, base); add("length", "-row", good.substr(0, good.size() - 8), REJECT, base);
    // headers that imply >= 4 GiB of pixel data with a data section whose length equals that size modulo 2^32 (a length
    // check done in 32-bit arithmetic would accept them)
    add("length", "65536x32769-mod2^32", assemble("P5", header_lines(base), "65536 32769", "65535", std::string(131072, '\1')), REJECT, base);
    add("length", "32768x65537-mod2^32", assemble("P5", header_lines(base), "32768 65537", "65535", std::string(65536, '\1')), REJECT, base);
    add("length", "no-data", head, REJECT, base); add("length", "extra-blank-before-data", head + " " + data, REJECT, base);
    add("length", "missing-blank-before-data", head.substr(0, head.size() - 1) + data, REJECT, base);
  }
  // every truncation point
  for (size_t l = 0; l < good.size(); ++l) add("truncate", fmti((long long)l), good.substr(0, l), REJECT, base);
  if (T) { Spec s = base; s.w = 8; s.h = 9; s.px = pixels(8, 9); std::string g2 = image_of(s); for (size_t l = 0; l < g2.size(); ++l) add("truncate8x9", fmti((long long)l), g2.substr(0, l), REJECT, s); }
  // ---- single-byte corruptions of the header: outcome open, but it must be clean and, if accepted, consistent
  {
    std::vector<fault::FileFault> ff; fault::byte_faults(good, 0, good.size() - data.size(), ff);
    for (auto& f : ff) add("header-byte", f.field + "=" + f.detail, f.image, EITHER, base);
  }
}

static std::string g_dir;

static void run_case(const FCase& fc, bool cubic, bool ts, fault::Report& rep) {
  const Spec& sp = fc.spec;
  mc::Fields fl{{"class", fc.klass}, {"expect", EXN[fc.expect]}, {"cubic", cubic ? "1" : "0"}, {"threadsafe", ts ? "1" : "0"}};
  auto F = [&](const char* kind) { mc::Fields f = fl; f.push_back({"kind", kind}); return f; };
  const std::string kb = fc.id + (cubic ? "|cubic" : "|bilinear") + (ts ? "|ts" : "|plain");
  fault::write_file(g_dir + "/t.pgm", fc.image);
  std::unique_ptr<Geoid> g;
  fault::Thrown t = fault::guarded([&] { g.reset(new Geoid("t", g_dir, cubic, ts)); });
  rep.sig(uint64_t(t.oc) * 7 + fc.expect);
  if (!fault::clean(t.oc) || t.oc == fault::BADALLOC) { rep.fail(kb, "constructor ended with " + std::string(fault::name(t.oc)) + ": " + t.what, F("foreign-exception")); return; }
  const bool accepted = t.oc == fault::OK;
  if (fc.expect == REJECT && accepted) { rep.fail(kb, "file violating the format was accepted (width " + fmti(g->_width) + ", height " + fmti(g->_height) + ", offset " + fmt(g->Offset()) + ", scale " + fmt(g->Scale()) + ")", F("invalid-accepted")); }
  if (fc.expect == ACCEPT && !accepted) { rep.fail(kb, "well-formed file rejected: " + t.what, F("valid-rejected")); return; }
  if (!accepted) return;
  rep.count(fc.expect == EITHER ? "either_accepted" : "accepted");
  // consistency of an accepted object with the file it was given
  const int w = g->_width, h = g->_height;
  unsigned long long need = g->_datastart + 2ULL * (unsigned long long)w * (unsigned long long)h;
  if (w < 2 || (w & 1) || h < 3 || !(h & 1) || !(g->Scale() > 0) || !std::isfinite(g->Offset()) || need != fc.image.size()) {
    if (fc.expect != REJECT) rep.fail(kb, "accepted object is inconsistent: width " + fmti(w) + " height " + fmti(h) + " offset " + fmt(g->Offset()) + " scale " + fmt(g->Scale()) + " datastart " + fmti((long long)g->_datastart) + " file length " + fmti((long long)fc.image.size()), F("accepted-inconsistent"));
    if (w < 2 || h < 2 || w > 64 || h > 65 || need != fc.image.size()) return;      // nothing sensible to evaluate
  }
  if (fc.expect == ACCEPT) {
    if (w != sp.w || h != sp.h) rep.fail(kb, "dimensions read as " + fmti(w) + "x" + fmti(h), F("metadata"));
    if (!mc::same_bits(g->Offset(), strtod(sp.off.c_str(), nullptr)) || !mc::same_bits(g->Scale(), strtod(sp.sc.c_str(), nullptr))) rep.fail(kb, "Offset/Scale read as " + fx(g->Offset()) + "/" + fx(g->Scale()), F("metadata"));
    if (sp.desc && (g->Description() != "tiny raster" || g->DateTime() != "2020-01-01 00:00:00")) rep.fail(kb, "Description/DateTime read as '" + g->Description() + "'/'" + g->DateTime() + "'", F("metadata"));
    if (!sp.desc && (g->Description() != "NONE" || g->DateTime() != "UNKNOWN")) rep.fail(kb, "absent Description/DateTime not reported as NONE/UNKNOWN", F("metadata"));
    double me = sp.errlines ? (cubic ? 0.003 : 0.140) : -1, re = sp.errlines ? (cubic ? 0.001 : 0.005) : -1;
    if (g->MaxError() != me || g->RMSError() != re) rep.fail(kb, "MaxError/RMSError read as " + fmt(g->MaxError()) + "/" + fmt(g->RMSError()), F("metadata"));
  }
  // pixels as the file has them (big endian), nodes must reproduce them (bilinear); all modes: finite, repeatable, cache-independent
  auto pix = [&](int ix, int iy) { size_t p = (size_t)g->_datastart + 2 * ((size_t)iy * w + ix); return (double)(((unsigned char)fc.image[p] << 8) | (unsigned char)fc.image[p + 1]); };
  double S = std::fabs(g->Offset()) + g->Scale() * 65535, tol = 16 * std::numeric_limits<double>::epsilon() * S;
  std::vector<double> first;
  for (int pass = 0; pass < (ts ? 1 : 3); ++pass) {
    if (pass == 1) { fault::Thrown c = fault::guarded([&] { g->CacheAll(); }); if (c.threw()) { rep.fail(kb, "CacheAll on an accepted file: " + c.what, F("cache-throws")); return; } }
    if (pass == 2) g->CacheClear();
    size_t n = 0;
    for (int iy = 0; iy < h; ++iy) for (int ix = 0; ix < w; ++ix) for (int half = 0; half < 2; ++half) {
      double lat = 90 - (iy + (half && iy < h - 1 ? 0.5 : 0.0)) * 180.0 / (h - 1), lon = (ix + 0.5 * half) * 360.0 / w;
      double v = NAN; fault::Thrown q = fault::guarded([&] { v = (*g)(lat, lon); });
      if (q.threw()) { rep.fail(kb, "query on an accepted file: " + q.what, F("query-throws")); return; }
      if (pass == 0) first.push_back(v); else if (!mc::same_bits(v, first[n])) { rep.fail(kb + "|" + fmt(lat) + "," + fmt(lon), "value changes with the cache state: " + fx(v) + " vs " + fx(first[n]), F("history-dependence")); return; }
      ++n;
      if (!std::isfinite(v) && std::isfinite(g->Offset()) && std::isfinite(g->Scale())) { rep.fail(kb, "non-finite height " + fmt(v), F("nonfinite")); return; }
      if (!cubic && !half && std::isfinite(S)) { double want = g->Offset() + g->Scale() * pix(ix, iy); if (!(std::fabs(v - want) <= tol)) { rep.fail(kb + "|" + fmti(ix) + "," + fmti(iy), "node value " + fx(v) + " != offset + scale * pixel = " + fx(want), F("node")); return; } }
    }
  }
}

int main(int argc, char** argv) {
  Ctx ctx(argc, argv);
  const bool T = ctx.thorough();
  g_dir = fault::verif_dir() + "/build/tmp/C20/files-" + std::string(ctx.replaying() ? "replay-" : "shard-") + fmti(ctx.shard) + "of" + fmti(ctx.nshards);
  fault::mkdirs(g_dir);
  std::vector<FCase> cases; build_cases(cases, T);
  std::map<std::string, int> perclass; for (auto& c : cases) ++perclass[c.klass];
  { std::string s; for (auto& kv : perclass) s += kv.first + " " + fmti(kv.second) + ", "; ctx.bound("files.classes", s + "each x modes; header-byte: every header byte x {00, ' ', LF, '-', '9', FF}; truncate: every proper prefix"); }
  ctx.bound("files.modes", T ? "cubic {0,1} x threadsafe {0,1} for every file" : "cubic {0,1} x threadsafe {0,1}; header-byte class: (cubic, plain) and (bilinear, threadsafe)");
  fault::Isolator iso(g_dir, "files");
  ctx.sub("files");
  const size_t CH = 48;
  for (int cubic = 0; cubic < 2; ++cubic) for (int ts = 0; ts < 2; ++ts) {
    for (size_t b = 0; b < cases.size(); b += CH) {
      if (!ctx.take()) continue;
      size_t n = std::min(CH, cases.size() - b);
      auto skip = [&](const FCase& fc) { return !T && fc.klass == "header-byte" && cubic == ts; };
      iso.run(n,
        [&](size_t i, fault::Report& rep) { const FCase& fc = cases[b + i]; if (skip(fc)) return; run_case(fc, cubic != 0, ts != 0, rep); },
        [&](size_t i, const fault::Result& r) {
          const FCase& fc = cases[b + i]; if (skip(fc)) return;
          Ctx::Case cs(ctx); ctx.sig(uint64_t(r.oc) * 131 + std::hash<std::string>()(fc.klass) % 127);
          for (auto s : r.sigs) ctx.sig(s);
          for (auto& c : r.counts) ctx.count(c.first, c.second);
          ctx.count(std::string("files_") + EXN[fc.expect]);
          for (auto& f : r.fails) ctx.fail(f.key, f.msg, f.fields);
          if (r.fatal() || r.oc == fault::BADALLOC)
            ctx.fail(fc.id + (cubic ? "|cubic" : "|bilinear") + (ts ? "|ts" : "|plain") + "|fatal", "case ended with " + r.describe(),
                     {{"kind", std::string("fatal-") + fault::name(r.oc)}, {"class", fc.klass}, {"check", r.check}, {"where", r.where}, {"cubic", cubic ? "1" : "0"}, {"threadsafe", ts ? "1" : "0"}});
          if (ctx.want_sample()) ctx.sample(fc.id + " [" + EXN[fc.expect] + "] -> " + fault::name(r.oc));
        });
    }
  }
  // ---------------------------------------------------------------- cache histories under the sanitizers
  // every ordered pair of CacheArea rectangles of a sub-lattice (then queries, CacheClear, queries) on a fresh object:
  // memory errors in the cache bookkeeping (row resizing, wrap-around reads, pole rows) are fatal outcomes here.
  ctx.sub("san-histories");
  {
    struct R4 { double s, w, n, e; };
    std::vector<R4> rects;
    const std::vector<double> las = T ? std::vector<double>{-90, -45, 0, 45, 90} : std::vector<double>{-90, 0, 90};
    const std::vector<double> los = T ? std::vector<double>{-180, -90, 0, 90, 180, 270} : std::vector<double>{-180, -90, 0, 90};
    for (double s : las) for (double n : las) if (s <= n) for (double w : los) for (double e : los) rects.push_back({s, w, n, e});
    ctx.bound("san-histories.pairs", "all " + fmti((long long)(rects.size() * rects.size())) + " ordered pairs of CacheArea rectangles with s<=n in {" + (T ? "-90,-45,0,45,90" : "-90,0,90") + "}, w,e in {" + (T ? "-180,-90,0,90,180,270" : "-180,-90,0,90") + "}, x rasters 8x9 and 2x5 x {bilinear, cubic}; 14 queries after the pair and after CacheClear");
    const double qs[14][2] = {{90, 0}, {-90, 0}, {89, 179.5}, {-89, -179.5}, {0, 180}, {0, -180}, {10, 20}, {-33, -91}, {45, 90}, {44.9, 89.9}, {-45, 269}, {67.5, 135}, {22.5, -45}, {0, 0}};
    for (int big = 0; big < 2; ++big) for (int cubic = 0; cubic < 2; ++cubic) {
      Spec sp; sp.w = big ? 8 : 2; sp.h = big ? 9 : 5; sp.px = pixels(sp.w, sp.h);
      const std::string img = image_of(sp);
      const size_t CH2 = 8;
      for (size_t b = 0; b < rects.size(); b += CH2) {
        if (!ctx.take()) continue;
        size_t n = std::min(CH2, rects.size() - b);
        iso.run(n,
          [&](size_t i, fault::Report& rep) {
            fault::write_file(g_dir + "/t.pgm", img);
            const R4& a = rects[b + i];
            double want[14]; { Geoid g("t", g_dir, cubic != 0, false); for (int q = 0; q < 14; ++q) want[q] = g(qs[q][0], qs[q][1]); }
            for (const R4& c2 : rects) {
              Geoid g("t", g_dir, cubic != 0, false);
              g.CacheArea(a.s, a.w, a.n, a.e); g.CacheArea(c2.s, c2.w, c2.n, c2.e);
              for (int pass = 0; pass < 2; ++pass) {
                for (int q = 0; q < 14; ++q) { double v = g(qs[q][0], qs[q][1]); if (!mc::same_bits(v, want[q])) { rep.fail("pair " + fmti((long long)(b + i)) + (cubic ? "|cubic" : "|bilinear") + (big ? "|8x9" : "|2x5"), "after CacheArea(" + fmt(a.s) + "," + fmt(a.w) + "," + fmt(a.n) + "," + fmt(a.e) + "); CacheArea(" + fmt(c2.s) + "," + fmt(c2.w) + "," + fmt(c2.n) + "," + fmt(c2.e) + ")" + (pass ? "; CacheClear" : "") + " the height at " + fmt(qs[q][0]) + "," + fmt(qs[q][1]) + " is " + fx(v) + " instead of " + fx(want[q]), {{"kind", "history-dependence"}, {"cubic", cubic ? "1" : "0"}}); return; } }
                g.CacheClear();
              }
            }
            rep.count("pairs", rects.size());
          },
          [&](size_t i, const fault::Result& r) {
            Ctx::Case cs(ctx); ctx.sig(uint64_t(r.oc) * 17 + cubic * 2 + big);
            for (auto& c : r.counts) ctx.count(c.first, c.second);
            for (auto& f : r.fails) ctx.fail(f.key, f.msg, f.fields);
            if (r.oc != fault::OK)
              ctx.fail("first rectangle " + fmti((long long)(b + i)) + (cubic ? "|cubic" : "|bilinear") + (big ? "|8x9" : "|2x5") + "|fatal", "pair histories starting with CacheArea(" + fmt(rects[b + i].s) + "," + fmt(rects[b + i].w) + "," + fmt(rects[b + i].n) + "," + fmt(rects[b + i].e) + ") ended with " + r.describe(),
                       {{"kind", std::string("fatal-") + fault::name(r.oc)}, {"check", r.check}, {"where", r.where}, {"cubic", cubic ? "1" : "0"}});
          });
      }
    }
  }
  ctx.count("forks", iso.forks);
  ctx.list("skipped", "documentation-silent header variants (blank lines, CRLF, dimensions on two lines, trailing tokens, nan/inf tokens, duplicate keys, '#Offset') are only required to end cleanly and, if accepted, consistently");
  fault::rm_tmp_dir(g_dir);
  return ctx.finish();
}
