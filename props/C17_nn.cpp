// C17 (part 3 of 3) -- NearestNeighbor: the vantage-point tree returns exactly what a brute-force scan returns,
// and survives Save/Load.
//
// Engine: E2-style exhaustive enumeration.  EVERY point sequence of length <= 4 (quick) / <= 6 (thorough) over the
// integer positions {0..4} (duplicates included) x EVERY legal bucket size 0..maxbucket x EVERY query in {-1..5}
// x k in 0..6 x maxdist in {default, 0, 1, 2} x mindist in {-1, 0, 1} x exhaustive in {0,1} (x tol in {0,1} in a
// separate subcheck) is run on the real header-only class with dist_t = int, pos_t = int, |x - y|, and on three
// objects: the one built by Initialize, the one re-created by Save/Load in text mode (operator<< / operator>>) and
// the one re-created by Save/Load in binary mode.  A second metric space (2-D L1 on the 3x3 grid, dist_t = double)
// repeats the search check on every sequence of length <= 3 / <= 5.
// Reference: a brute-force scan written here (sort of all distances), nothing from the class is reused.
// Nothing is sampled.
#include "mc/ctx.hpp"
#include <GeographicLib/NearestNeighbor.hpp>
#include <algorithm>
#include <sstream>
#include <string>
#include <vector>
#include <climits>

using mc::Ctx; using mc::fmti;
using GeographicLib::NearestNeighbor;
using GeographicLib::GeographicErr;

// ------------------------------------------------------------------ metric spaces
struct DistI { int operator()(int a, int b) const { return a < b ? b - a : a - b; } };
typedef NearestNeighbor<int, int, DistI> NNI;
struct P2 { double x, y; };
struct DistL1 { double operator()(const P2& a, const P2& b) const { return std::fabs(a.x - b.x) + std::fabs(a.y - b.y); } };
typedef NearestNeighbor<double, P2, DistL1> NND;

// ------------------------------------------------------------------ canonical key of the private state
// every field that Search/Save read: _numpoints, _bucket, _cost, and every node (index; bounds+children or leaves)
template <class NN> static std::string key_of(const NN& t) {
  std::string k;
  auto put = [&](const void* p, size_t n) { k.append((const char*)p, n); };
  put(&t._numpoints, sizeof(int)); put(&t._bucket, sizeof(int)); put(&t._cost, sizeof(int));
  int ts = (int)t._tree.size(); put(&ts, sizeof(int));
  for (auto& nd : t._tree) {
    put(&nd.index, sizeof(int));
    if (nd.index >= 0) { put(nd.data.lower, sizeof nd.data.lower); put(nd.data.upper, sizeof nd.data.upper); put(nd.data.child, sizeof nd.data.child); }
    else put(nd.leaves, sizeof nd.leaves);
  }
  return k;
}
// shape of the tree only (for the case signature): node kinds and fan-out
template <class NN> static uint64_t shape_of(const NN& t) {
  uint64_t h = 1469598103934665603ULL;
  auto mixin = [&](uint64_t v) { h = (h ^ v) * 1099511628211ULL; };
  mixin(t._bucket); mixin(t._tree.size());
  for (auto& nd : t._tree) {
    if (nd.index >= 0) mixin(16 + (nd.data.child[0] >= 0) + 2 * (nd.data.child[1] >= 0));
    else { int c = 0; for (int l = 0; l < t._bucket; ++l) c += nd.leaves[l] >= 0; mixin(32 + c); }
  }
  return h;
}

static std::string seqstr(const std::vector<int>& s) { std::string o = "["; for (size_t i = 0; i < s.size(); ++i) { if (i) o += ","; o += std::to_string(s[i]); } return o + "]"; }
static std::string indstr(const std::vector<int>& s) { return seqstr(s); }

// structural soundness of a tree built by Initialize: every point index occurs exactly once
template <class NN> static bool each_point_once(const NN& t, int n) {
  std::vector<int> seen(n, 0);
  for (auto& nd : t._tree) {
    if (nd.index >= 0) { if (nd.index >= n) return false; ++seen[nd.index]; }
    else for (int l = 0; l < t._bucket; ++l) { int v = nd.leaves[l]; if (v >= n) return false; if (v >= 0) ++seen[v]; }
  }
  for (int v : seen) if (v != 1) return false;
  return true;
}

// ------------------------------------------------------------------ the search check, generic over the metric space
template <class NN, class pos_t, class dist_t, class distfun_t>
struct SearchCheck {
  Ctx& ctx;
  const char* tag;
  std::vector<dist_t> maxdists, mindists, tols;
  std::vector<int> ks;
  uint64_t searches = 0;

  // judge one search on the three objects (original, text-loaded, binary-loaded)
  void run(const std::vector<pos_t>& pts, const std::string& ptsdesc, int bucket, const NN* objs[3],
           const pos_t& q, const std::string& qdesc, const distfun_t& dist, uint64_t shape) {
    const int n = (int)pts.size();
    std::vector<dist_t> dq(n);
    for (int i = 0; i < n; ++i) dq[i] = dist(pts[i], q);
    std::vector<dist_t> adm;
    std::vector<int> ind[3];
    for (dist_t maxd : maxdists) for (dist_t mind : mindists) {
      adm.clear();
      for (int i = 0; i < n; ++i) if (dq[i] > mind && dq[i] <= maxd) adm.push_back(dq[i]);
      std::sort(adm.begin(), adm.end());
      for (int k : ks) for (int exh = 0; exh < 2; ++exh) for (dist_t tol : tols) {
        if (tol != 0 && !exh) continue;
        Ctx::Case cs(ctx);
        ++searches;
        dist_t ret[3]; bool threw = false;
        const int cost0 = objs[0]->_c1;                // number of distance evaluations so far (search-cost statistic)
        for (int o = 0; o < 3; ++o) {
          ind[o].assign(3, -7);                        // stale content must be replaced
          try { ret[o] = objs[o]->Search(pts, dist, q, ind[o], k, maxd, mind, exh != 0, tol); }
          catch (const std::exception& e) { threw = true; }
        }
        auto key = [&]() {
          return std::string(tag) + " pts=" + ptsdesc + " bucket=" + fmti(bucket) + " q=" + qdesc + " k=" + fmti(k) +
                 " maxdist=" + mc::fmt((double)maxd) + " mindist=" + mc::fmt((double)mind) + " exh=" + fmti(exh) + " tol=" + mc::fmt((double)tol);
        };
        Fields_ f = {{"bucket", fmti(bucket)}, {"npts", fmti(n)}, {"exhaustive", fmti(exh)}, {"tol", mc::fmt((double)tol)}};
        if (threw) { fail_(key(), "Search threw on a well-formed call", "search-threw", f); continue; }
        // identical answers from the loaded objects
        for (int o = 1; o < 3; ++o)
          if (ind[o] != ind[0] || ret[o] != ret[0])
            fail_(key(), std::string(o == 1 ? "text" : "binary") + "-loaded object answers " + indstr(ind[o]) + " ret " + mc::fmt((double)ret[o]) +
                  " but the original " + indstr(ind[0]) + " ret " + mc::fmt((double)ret[0]), "loaded-answer-differs", f);
        const std::vector<int>& r = ind[0];
        const size_t want = k <= 0 ? 0 : std::min<size_t>((size_t)k, adm.size());
        ctx.sig((uint64_t)(objs[0]->_c1 - cost0) * 1000003ULL * 17);      // pruning path taken: distance evaluations of this search
        ctx.sig(shape * 31 + (uint64_t)r.size() * 7 + (r.size() == want ? 1 : 0) + (uint64_t)(adm.size() > (size_t)std::max(k, 0)) * 3 + exh * 1000003ULL);
        // indices in range and distinct
        bool ok = true; std::vector<char> seen(n, 0);
        for (int v : r) { if (v < 0 || v >= n || seen[v]) { ok = false; break; } seen[v] = 1; }
        if (!ok) { fail_(key(), "indices " + indstr(r) + " out of range or repeated", "bad-indices", f); continue; }
        // sorted by distance, every distance admissible
        bool sorted = true, admissible = true;
        for (size_t i = 0; i < r.size(); ++i) {
          if (i && dq[r[i]] < dq[r[i - 1]]) sorted = false;
          if (!(dq[r[i]] > mind && dq[r[i]] <= maxd)) admissible = false;
        }
        if (!sorted) fail_(key(), "indices " + indstr(r) + " not sorted by distance", "not-sorted", f);
        if (!admissible) fail_(key(), "indices " + indstr(r) + " contain a distance outside (mindist, maxdist]", "inadmissible", f);
        // return value
        dist_t wantret = r.empty() ? dist_t(-1) : dq[r[0]];
        if (ret[0] != wantret) fail_(key(), "returned " + mc::fmt((double)ret[0]) + " expected " + mc::fmt((double)wantret), "return-value", f);
        if (tol == 0) {
          // count: min(k, #admissible) in both modes (fewer than k results means the search was exhaustive)
          if (r.size() != want)
            fail_(key(), "returned " + fmti((long long)r.size()) + " indices " + indstr(r) + ", brute force has " + fmti((long long)adm.size()) +
                  " admissible points so " + fmti((long long)want) + " are required", exh ? "count-exhaustive" : "count-nonexhaustive", f);
          else if (exh && sorted && admissible) {
            for (size_t i = 0; i < r.size(); ++i)
              if (dq[r[i]] != adm[i]) { fail_(key(), "distances of " + indstr(r) + " are not the " + fmti((long long)want) + " smallest admissible ones (rank " + fmti((long long)i) +
                                              ": got " + mc::fmt((double)dq[r[i]]) + " brute force " + mc::fmt((double)adm[i]) + ")", "not-nearest", f); break; }
          }
        } else {
          // documented approximate search: with dk the k-th returned distance every point NOT returned lies at
          // distance >= dk - tol (or is inadmissible); with fewer than k results the search is exact.
          if (r.size() > want) fail_(key(), "more results than admissible points / k", "count-tol", f);
          else if ((int)r.size() < k) {
            // documented: "If less than k results are found, then the search is exact".  Split the failure classes: a
            // missed point within maxdist - tol is missed under every reading of the documentation; a missed point in
            // (maxdist - tol, maxdist] contradicts only the sentence quoted.
            bool lost_inner = false, lost_rim = false;
            for (int i = 0; i < n; ++i) if (!seen[i] && dq[i] > mind && dq[i] <= maxd) { if (dq[i] <= maxd - tol) lost_inner = true; else lost_rim = true; }
            if (lost_inner)
              fail_(key(), "tol > 0: fewer than k results (" + fmti((long long)r.size()) + ") yet an admissible point at distance <= maxdist - tol was not returned", "tol-missed-short", f);
            else if (lost_rim)
              fail_(key(), "tol > 0: fewer than k results (" + fmti((long long)r.size()) + ") but brute force has " + fmti((long long)adm.size()) +
                    " admissible points (the missing ones lie in (maxdist - tol, maxdist]); documented: 'If less than k results are found, then the search is exact'", "tol-inexact-short", f);
          } else if (sorted && admissible && !r.empty()) {
            dist_t dk = dq[r.back()];
            for (int i = 0; i < n; ++i)
              if (!seen[i] && dq[i] > mind && dq[i] <= maxd && dq[i] < dk - tol) {
                fail_(key(), "tol > 0: point " + fmti(i) + " at distance " + mc::fmt((double)dq[i]) + " < dk - tol = " + mc::fmt((double)(dk - tol)) + " was not returned", "tol-missed", f); break; }
          }
        }
        if (ctx.want_sample()) ctx.sample(key() + " -> " + indstr(r) + " ret " + mc::fmt((double)ret[0]));
      }
    }
  }
  typedef mc::Fields Fields_;
  void fail_(const std::string& key, const std::string& msg, const char* kind, Fields_ f) {
    f.insert(f.begin(), {"kind", kind});
    ctx.fail(key + " " + kind, msg, f);
  }
};

// ------------------------------------------------------------------ save / load helpers
template <class NN> static std::string save_str(const NN& t, bool bin) { std::ostringstream os; t.Save(os, bin); return os.str(); }
template <class NN> static std::string save_op(const NN& t) { std::ostringstream os; os << t; return os.str(); }
// returns "" on success, else "E:" + message (GeographicErr) or "X:" + what (any other exception)
template <class NN> static std::string try_load(NN& t, const std::string& bytes, bool bin, bool viaop = false) {
  std::istringstream is(bytes);
  try { if (viaop) is >> t; else t.Load(is, bin); }
  catch (const GeographicErr& e) { return std::string("E:") + e.what(); }
  catch (const std::exception& e) { return std::string("X:") + e.what(); }
  return "";
}

static std::vector<std::string> tokens_of(const std::string& s, std::vector<std::pair<size_t, size_t>>& span) {
  std::vector<std::string> t; size_t i = 0;
  while (i < s.size()) {
    while (i < s.size() && (s[i] == ' ' || s[i] == '\n')) ++i;
    size_t j = i; while (j < s.size() && s[j] != ' ' && s[j] != '\n') ++j;
    if (j > i) { t.push_back(s.substr(i, j - i)); span.push_back({i, j}); }
    i = j;
  }
  return t;
}

int main(int argc, char** argv) {
  Ctx ctx(argc, argv);
  const bool T = ctx.thorough();
  const DistI distI; const DistL1 distL;
  const int NPOS = 5;
  const int LMAX = T ? 6 : 4;
  const int MAXB = NNI::maxbucket;          // 6 for dist_t = int
  if (MAXB != 2 + 4 * (int)sizeof(int) / (int)sizeof(int)) { fprintf(stderr, "unexpected maxbucket\n"); return 2; }

  // enumerate all sequences of length 0..LMAX over {0..NPOS-1}, simplest first
  auto nth_seq = [&](int len, long long idx) { std::vector<int> s(len); for (int i = len - 1; i >= 0; --i) { s[i] = int(idx % NPOS); idx /= NPOS; } return s; };
  auto pw = [](long long b, int e) { long long r = 1; while (e-- > 0) r *= b; return r; };

  // ================================================================ 1. integer line: search + round trip
  ctx.sub("nn-int-search");
  ctx.bound("nn-int.points", "every sequence of length 0.." + fmti(LMAX) + " over positions {0..4}, duplicates included, dist = |x-y| (int)");
  ctx.bound("nn-int.bucket", "every legal bucket size 0.." + fmti(MAXB));
  ctx.bound("nn-int.query", "query in {-1..5} x k in {0..6} x maxdist in {INT_MAX(default),0,1,2} x mindist in {-1(default),0,1} x exhaustive in {0,1}, tol = 0");
  ctx.bound("nn-int.objects", "each search is run on the Initialize'd object, on its text Save->Load copy and on its binary Save->Load copy");
  {
    SearchCheck<NNI, int, int, DistI> sc{ctx, "int"};
    sc.maxdists = {INT_MAX, 0, 1, 2}; sc.mindists = {-1, 0, 1}; sc.tols = {0};
    for (int k = 0; k <= 6; ++k) sc.ks.push_back(k);
    uint64_t trees = 0;
    for (int len = 0; len <= LMAX; ++len) for (long long idx = 0; idx < pw(NPOS, len); ++idx) {
      if (!ctx.take()) continue;
      std::vector<int> pts = nth_seq(len, idx);
      std::string pd = seqstr(pts);
      for (int bucket = 0; bucket <= MAXB; ++bucket) {
        mc::Fields f = {{"kind", ""}, {"bucket", fmti(bucket)}, {"npts", fmti(len)}};
        auto failk = [&](const char* kind, const std::string& msg) { f[0].second = kind; ctx.fail(std::string("int pts=") + pd + " bucket=" + fmti(bucket) + " " + kind, msg, f); };
        NNI a, b2, lt, lb, lo;
        uint64_t shape;
        {
          Ctx::Case cs(ctx);
          ++trees;
          try { a.Initialize(pts, distI, bucket); b2 = NNI(pts, distI, bucket); }
          catch (const std::exception& e) { failk("init-threw", std::string("Initialize threw on legal arguments: ") + e.what()); continue; }
          shape = shape_of(a); ctx.sig(shape);
          std::string ka = key_of(a);
          if (ka != key_of(b2)) failk("init-nondeterministic", "two constructions from the same arguments differ in private state");
          if (a.NumPoints() != len) failk("numpoints", "NumPoints() = " + fmti(a.NumPoints()));
          if (!each_point_once(a, len)) failk("tree-points", "the tree does not contain every point index exactly once");
          // re-initialisation of a used object gives the state of a fresh one (history length 2)
          { std::vector<int> other = pts; other.push_back(2); std::reverse(other.begin(), other.end());
            NNI c(other, distI, (bucket + 3) % (MAXB + 1)); std::vector<int> tmp; c.Search(other, distI, 1, tmp, 2);
            c.Initialize(pts, distI, bucket);
            if (key_of(c) != ka) failk("reinit-differs", "Initialize on a used object differs from a fresh object"); }
          // Save -> Load, text / binary / operators; re-save gives identical bytes; keys equal
          std::string st = save_str(a, false), sb = save_str(a, true), so = save_op(a);
          if (so != st) failk("operator-save", "operator<< differs from Save(os, false)");
          std::string e;
          if (!(e = try_load(lt, st, false)).empty()) failk("load-text-failed", "Load(text) of a saved object failed: " + e);
          if (!(e = try_load(lb, sb, true)).empty()) failk("load-binary-failed", "Load(binary) of a saved object failed: " + e);
          if (!(e = try_load(lo, st, false, true)).empty()) failk("load-operator-failed", "operator>> of a saved object failed: " + e);
          if (key_of(lt) != ka) failk("load-text-state", "text round trip changes the private state");
          if (key_of(lb) != ka) failk("load-binary-state", "binary round trip changes the private state");
          if (key_of(lo) != ka) failk("load-operator-state", "operator>> round trip changes the private state");
          if (save_str(lt, false) != st || save_str(lt, true) != sb) failk("resave-text", "re-saving the text-loaded object gives different bytes");
          if (save_str(lb, false) != st || save_str(lb, true) != sb) failk("resave-binary", "re-saving the binary-loaded object gives different bytes");
          // Load into an object that already holds another tree replaces it completely
          { std::vector<int> other = {4, 0, 2, 2}; NNI c(other, distI, 1);
            if (!(e = try_load(c, sb, true)).empty() || key_of(c) != ka) failk("load-over-used", "binary Load into a used object: " + e);
            NNI d(other, distI, 0);
            if (!(e = try_load(d, st, false)).empty() || key_of(d) != ka) failk("load-over-used", "text Load into a used object: " + e); }
        }
        const NNI* objs[3] = {&a, &lt, &lb};
        for (int q = -1; q <= NPOS; ++q) sc.run(pts, pd, bucket, objs, q, fmti(q), distI, shape);
        // a const query must not change the searchable state
        if (key_of(a) != key_of(b2)) failk("search-mutates", "Search changed the tree state");
      }
    }
    ctx.count("searches", sc.searches * 3);
    ctx.count("trees", trees);
  }

  // ================================================================ 2. approximate search (tol > 0), documented contract
  ctx.sub("nn-int-tol");
  ctx.bound("nn-int-tol", "sequences of length 0.." + fmti(LMAX) + ", bucket in {0,1,2,4}, query {-1..5}, k {1,2,3,5}, maxdist {INT_MAX,1,2,3}, mindist {-1,0}, exhaustive = 1, tol in {1,2}");
  {
    SearchCheck<NNI, int, int, DistI> sc{ctx, "inttol"};
    sc.maxdists = {INT_MAX, 1, 2, 3}; sc.mindists = {-1, 0}; sc.tols = {1, 2}; sc.ks = {1, 2, 3, 5};
    for (int len = 0; len <= LMAX; ++len) for (long long idx = 0; idx < pw(NPOS, len); ++idx) {
      if (!ctx.take()) continue;
      std::vector<int> pts = nth_seq(len, idx);
      std::string pd = seqstr(pts);
      for (int bucket : {0, 1, 2, 4}) {
        NNI a(pts, distI, bucket);
        const NNI* objs[3] = {&a, &a, &a};
        uint64_t shape = shape_of(a);
        for (int q = -1; q <= NPOS; ++q) sc.run(pts, pd, bucket, objs, q, fmti(q), distI, shape);
      }
    }
    ctx.count("searches", sc.searches);
  }

  // ================================================================ 3. argument errors: state unchanged
  ctx.sub("nn-int-args");
  ctx.bound("nn-int-args", "every sequence of length 0.." + fmti(LMAX) + ": Initialize with bucket -1 and maxbucket+1 on an object holding the tree (must throw GeographicErr, state unchanged); Search with pts one shorter / one longer (must throw GeographicErr)");
  for (int len = 0; len <= LMAX; ++len) for (long long idx = 0; idx < pw(NPOS, len); ++idx) {
    if (!ctx.take()) continue;
    std::vector<int> pts = nth_seq(len, idx);
    std::string pd = seqstr(pts);
    for (int bucket : {0, 2, 4}) {
      NNI a(pts, distI, bucket);
      std::string ka = key_of(a);
      for (int bad : {-1, MAXB + 1, INT_MIN, INT_MAX}) {
        Ctx::Case cs(ctx);
        std::string out = "no exception";
        try { a.Initialize(pts, distI, bad); } catch (const GeographicErr& e) { out = "E"; } catch (const std::exception& e) { out = std::string("X:") + e.what(); }
        ctx.sig(out == "E");
        if (out != "E") ctx.fail("args pts=" + pd + " bucket=" + fmti(bucket) + " bad=" + fmti(bad), "Initialize with bucket " + fmti(bad) + ": " + out + ", GeographicErr documented", {{"kind", "bad-bucket-accepted"}});
        if (key_of(a) != ka) ctx.fail("args-state pts=" + pd + " bucket=" + fmti(bucket) + " bad=" + fmti(bad), "failed Initialize changed the object", {{"kind", "bad-bucket-state"}});
        try { NNI c(pts, distI, bad); ctx.fail("ctor pts=" + pd + " bad=" + fmti(bad), "constructor accepted bucket " + fmti(bad), {{"kind", "bad-bucket-ctor"}}); } catch (const GeographicErr&) {}
      }
      for (int d : {-1, 1}) {
        if (len + d < 0) continue;
        Ctx::Case cs(ctx);
        std::vector<int> wrong = pts; if (d > 0) wrong.push_back(3); else wrong.pop_back();
        std::vector<int> ind = {9, 9};
        std::string out = "no exception";
        try { a.Search(wrong, distI, 2, ind, 2); } catch (const GeographicErr& e) { out = "E"; } catch (const std::exception& e) { out = std::string("X:") + e.what(); }
        ctx.sig(10 + (out == "E"));
        if (out != "E") ctx.fail("wrongsize pts=" + pd + " bucket=" + fmti(bucket) + " d=" + fmti(d), "Search with a pts vector of the wrong size: " + out + ", GeographicErr documented", {{"kind", "wrong-size-accepted"}});
        if (key_of(a) != ka) ctx.fail("wrongsize-state pts=" + pd + " bucket=" + fmti(bucket) + " d=" + fmti(d), "failed Search changed the object", {{"kind", "wrong-size-state"}});
      }
    }
  }

  // ================================================================ 4. failing Load leaves the object unchanged
  ctx.sub("nn-int-loadfail");
  ctx.bound("nn-int-loadfail.streams", "for every sequence of length 1.." + fmti(LMAX) + " and bucket in {0,1,2,4,6}: the text stream truncated at every byte, with every token replaced by each of {-2,-1,0,1,7,x} or deleted; "
            "the binary stream truncated at every byte >= 40 (complete header), with every 4-byte word replaced by each of {-2,-1,0,1,7}, and with a wrong magic string");
  ctx.bound("nn-int-loadfail.predicate", "whenever Load throws, the exception is GeographicErr and the victim object (holding a different tree) is bit-identical to before; a stream equal to the original must load");
  {
    uint64_t loads = 0, rejected = 0, accepted = 0, trunc_bin_accepted = 0;
    for (int len = 1; len <= LMAX; ++len) for (long long idx = 0; idx < pw(NPOS, len); ++idx) {
      if (!ctx.take()) continue;
      std::vector<int> pts = nth_seq(len, idx);
      std::string pd = seqstr(pts);
      std::vector<int> vpts = {3, 1, 4, 1, 0};
      const NNI victim0(vpts, distI, 1);
      const std::string kv = key_of(victim0);
      for (int bucket : {0, 1, 2, 4, 6}) {
        NNI a(pts, distI, bucket);
        const std::string ka = key_of(a);
        for (int bin = 0; bin < 2; ++bin) {
          const std::string s = save_str(a, bin != 0);
          NNI v = victim0;
          auto attempt = [&](const std::string& bytes, const std::string& what, bool truncated) {
            Ctx::Case cs(ctx);
            ++loads;
            std::string e = try_load(v, bytes, bin != 0);
            ctx.sig(std::hash<std::string>()(e) + bin);
            std::string key = std::string("loadfail pts=") + pd + " bucket=" + fmti(bucket) + (bin ? " bin " : " text ") + what;
            mc::Fields f = {{"kind", ""}, {"format", bin ? "binary" : "text"}, {"bucket", fmti(bucket)}};
            if (e.empty()) {
              ++accepted;
              if (truncated && bin) ++trunc_bin_accepted;
              if (bytes == s && key_of(v) != ka) { f[0].second = "load-state"; ctx.fail(key, "loading the unmodified stream gives a different state", f); }
              v = victim0;
            } else {
              ++rejected;
              if (e[0] != 'E') { f[0].second = "load-foreign-exception"; ctx.fail(key + " exc", "Load threw " + e + " (GeographicErr or bad_alloc documented)", f); }
              if (key_of(v) != kv) { f[0].second = "load-fail-state"; ctx.fail(key + " state", "Load threw (" + e + ") but the object was modified", f); v = victim0; }
              if (bytes == s) { f[0].second = "load-rejects-valid"; ctx.fail(key + " valid", "the unmodified stream was rejected: " + e, f); }
            }
          };
          attempt(s, "unmodified", false);
          if (!bin) {
            for (size_t cut = 0; cut < s.size(); ++cut) attempt(s.substr(0, cut), "cut=" + fmti((long long)cut), true);
            std::vector<std::pair<size_t, size_t>> span; std::vector<std::string> tok = tokens_of(s, span);
            for (size_t t = 0; t < tok.size(); ++t)
              for (const char* rep : {"-2", "-1", "0", "1", "7", "x", ""}) {
                if (tok[t] == rep) continue;
                // keep the declared sizes small: a huge treesize/numpoints would only exercise the allocator
                attempt(s.substr(0, span[t].first) + rep + s.substr(span[t].second), "tok" + fmti((long long)t) + "='" + rep + "'", false);
              }
          } else {
            for (size_t cut = 40; cut < s.size(); ++cut) attempt(s.substr(0, cut), "cut=" + fmti((long long)cut), true);
            for (size_t w = 16; w + 4 <= s.size(); w += 4)
              for (int rep : {-2, -1, 0, 1, 7}) {
                int cur; memcpy(&cur, &s[w], 4); if (cur == rep) continue;
                std::string m = s; memcpy(&m[w], &rep, 4);
                attempt(m, "word@" + fmti((long long)w) + "=" + fmti(rep), false);
              }
            { std::string m = s; m[3] = 'X'; attempt(m, "magic", false); }
          }
        }
      }
    }
    ctx.count("loads", loads); ctx.count("loads_rejected", rejected); ctx.count("loads_accepted_modified_or_valid", accepted);
    ctx.count("loads_truncated_binary_accepted", trunc_bin_accepted);
    if (trunc_bin_accepted)
      ctx.list("documentation-silent", "binary Load never tests the stream state: a binary stream truncated after the 40-byte header is accepted (missing nodes become default leaf nodes); "
               "the property only demands that a Load which throws leaves the object unchanged, so these are counted (loads_truncated_binary_accepted), not failed");
  }

  // ================================================================ 5. second metric space: 2-D L1 on the 3x3 grid, double distances
  ctx.sub("nn-l1-search");
  {
    const int L2 = T ? 5 : 3;
    const int MB = NND::maxbucket;            // 10 for dist_t = double
    // coordinates chosen so that every |dx|+|dy| is exact in double (a true metric) while 1+2^-52 needs all 17 digits
    // in the text form of Save
    const double CO[3] = {0, 0.375, 1 + std::ldexp(1.0, -52)};
    ctx.bound("nn-l1.points", "every sequence of length 0.." + fmti(L2) + " over the 9 points of {0, 0.375, 1+2^-52}^2, dist = |dx|+|dy| (double, all sums exact)");
    ctx.bound("nn-l1.bucket", "bucket in {0,1,3," + fmti(MB) + "}");
    ctx.bound("nn-l1.query", "11 queries (the 9 grid points, (-0.5,-0.5), (1.5,0.375)) x k in {1,2,3,5} x maxdist in {DBL_MAX(default),0.5,1+2^-52} x mindist in {-1,0,0.375} x exhaustive in {0,1}");
    SearchCheck<NND, P2, double, DistL1> sc{ctx, "l1"};
    sc.maxdists = {std::numeric_limits<double>::max(), 0.5, CO[2]}; sc.mindists = {-1, 0, 0.375}; sc.tols = {0}; sc.ks = {1, 2, 3, 5};
    std::vector<P2> qs; std::vector<std::string> qd;
    for (int i = 0; i < 9; ++i) { qs.push_back({CO[i / 3], CO[i % 3]}); }
    qs.push_back({-0.5, -0.5}); qs.push_back({1.5, 0.375});
    for (auto& q : qs) qd.push_back("(" + mc::fmt(q.x) + "," + mc::fmt(q.y) + ")");
    for (int len = 0; len <= L2; ++len) for (long long idx = 0; idx < pw(9, len); ++idx) {
      if (!ctx.take()) continue;
      std::vector<P2> pts(len); std::string pd = "[";
      { long long t = idx; for (int i = len - 1; i >= 0; --i) { int c = int(t % 9); t /= 9; pts[i] = {CO[c / 3], CO[c % 3]}; } }
      for (int i = 0; i < len; ++i) pd += (i ? "," : "") + std::string("(") + mc::fmt(pts[i].x) + "," + mc::fmt(pts[i].y) + ")";
      pd += "]";
      for (int bucket : {0, 1, 3, MB}) {
        NND a(pts, distL, bucket), lt, lb;
        std::string ka = key_of(a), e;
        mc::Fields f = {{"kind", ""}, {"bucket", fmti(bucket)}, {"npts", fmti(len)}};
        auto failk = [&](const char* kind, const std::string& msg) { f[0].second = kind; ctx.fail(std::string("l1 pts=") + pd + " bucket=" + fmti(bucket) + " " + kind, msg, f); };
        std::string st = save_str(a, false), sb = save_str(a, true);
        if (!(e = try_load(lt, st, false)).empty() || key_of(lt) != ka) failk("load-text-state", "text round trip (double distances) fails or changes the state: " + e);
        if (!(e = try_load(lb, sb, true)).empty() || key_of(lb) != ka) failk("load-binary-state", "binary round trip fails or changes the state: " + e);
        if (save_str(lt, false) != st || save_str(lb, true) != sb) failk("resave", "re-saving a loaded object gives different bytes");
        if (!each_point_once(a, len)) failk("tree-points", "the tree does not contain every point index exactly once");
        const NND* objs[3] = {&a, &lt, &lb};
        uint64_t shape = shape_of(a);
        for (size_t q = 0; q < qs.size(); ++q) sc.run(pts, pd, bucket, objs, qs[q], qd[q], distL, shape);
      }
    }
    ctx.count("searches", sc.searches * 3);
  }
  return ctx.finish();
}
