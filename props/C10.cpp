// C10 -- text formatting and parsing of angles and positions is closed and faithful.   Part 1 of 3 (flavour cov).
//
// Subchecks (engine E1: exhaustive Cartesian products / all token sequences up to a length; nothing sampled):
//   doc-examples     every LEGAL / ILLEGAL example printed in DMS.hpp / GeoCoords.hpp decoded by the library
//   encode-closure   (a) Encode -> normal form -> Decode closure over value x trailing x prec x ind x separator, both overloads
//   tokens           (b) all token sequences up to length 5 (6) over 16 tokens: Decode / DecodeAngle / DecodeAzimuth
//                        against the reference recogniser models/dms_grammar.hpp
//   latlon-pairs     (b) DecodeLatLon on all ordered pairs of an operand list x longfirst
//   symbols          (b') every alternative byte sequence of the documented symbol table, in every position
//   str-val          (d) Utility::str / val round trip
//   geocoords        (e) GeoCoords representations -> Reset closure, token dispatch and separators
// Parts 2 (C10_bytes.cpp, san flavour: all short byte strings) and 3 (C10_tools.cpp: GeoConvert / GeodSolve line
// sequences) are separate programs.
#include "mc/ctx.hpp"
#include "models/dms_grammar.hpp"
#include "models/text_refs.hpp"
#include <GeographicLib/DMS.hpp>
#include <GeographicLib/Utility.hpp>
#include <GeographicLib/GeoCoords.hpp>
#include <GeographicLib/UTMUPS.hpp>
#include <GeographicLib/MGRS.hpp>
#include <string>
#include <vector>
#include <algorithm>
#include <cfloat>
#include <functional>
#include <GeographicLib/Geodesic.hpp>

using namespace GeographicLib;
using mc::Ctx; using mc::fx; using mc::fmt; using mc::fmti;

static const double SENT = -12345.678;
static const int FSENT = 7;                       // sentinel for the flag output (inside the enum's value range 0..7)
static const double EPS = std::numeric_limits<double>::epsilon();

static std::string show(const std::string& s) {
  std::string o;
  for (unsigned char c : s) { if (c >= 0x20 && c < 0x7f && c != '\\') o += char(c); else { char b[8]; snprintf(b, sizeof b, "\\x%02x", c); o += b; } }
  return o;
}

// ------------------------------------------------------------------ library calls with outcome capture
struct Dec { int oc = 0; double v = SENT; int ind = FSENT; std::string what; };     // oc: 0 ok, 1 GeographicErr, 2 other exception, 3 signal
template <class F> static void guard(Dec& r, F f) {
  try { int sg = mc::crashed(f); if (sg) { r.oc = 3; r.what = "signal " + std::to_string(sg); } }
  catch (const GeographicErr& e) { r.oc = 1; r.what = e.what(); }
  catch (const std::exception& e) { r.oc = 2; r.what = e.what(); }
  catch (...) { r.oc = 2; r.what = "unknown exception"; }
}
static Dec lib_decode(const std::string& s) { Dec r; DMS::flag f = DMS::flag(FSENT); guard(r, [&] { double v = DMS::Decode(s, f); r.v = v; }); r.ind = int(f); return r; }
static Dec lib_angle(const std::string& s) { Dec r; guard(r, [&] { double v = DMS::DecodeAngle(s); r.v = v; }); return r; }
static Dec lib_azimuth(const std::string& s) { Dec r; guard(r, [&] { double v = DMS::DecodeAzimuth(s); r.v = v; }); return r; }
struct LL { int oc = 0; double lat = SENT, lon = SENT; std::string what; };
static LL lib_latlon(const std::string& a, const std::string& b, bool longfirst) {
  LL r; Dec d; guard(d, [&] { DMS::DecodeLatLon(a, b, r.lat, r.lon, longfirst); }); r.oc = d.oc; r.what = d.what; return r;
}

// round-off allowance in ulps: 4, plus one per integer digit beyond the 15 a double holds exactly (the decoder accumulates
// long numerals digit by digit; the documentation gives no accuracy for them)
static long double ulps_for(int idigits) { return 4 + std::max(0, idigits - 15); }
static bool close_value(double got, long double want, long double mag, bool special, int idigits = 0) {
  if (special || std::isnan((double)want) || std::isinf((double)want)) {
    if (std::isnan((double)want)) return std::isnan(got);
    return got == (double)want;
  }
  long double tol = ulps_for(idigits) * (long double)EPS * std::max(mag, fabsl(want)) + 1e-300L;
  return fabsl((long double)got - want) <= tol;
}

// ------------------------------------------------------------------ Decode / DecodeAngle / DecodeAzimuth against the recogniser
// returns the recogniser verdict so that callers can count
static dmsg::Result judge_string(Ctx& ctx, const std::string& s, bool derived) {
  dmsg::Result g = dmsg::recognise(s);
  std::string key = "'" + show(s) + "'";
  auto F = [&](const char* kind, const char* fn) { return mc::Fields{{"kind", kind}, {"fn", fn}, {"string", show(s)}, {"why", g.why}}; };
  Dec r = lib_decode(s);
  ctx.sig(uint64_t(r.oc) * 16 + uint64_t(g.verdict) * 4 + (r.oc == 0 ? r.ind & 3 : 0));
  if (r.oc >= 2) { ctx.fail(key, "Decode: foreign exception or crash: " + r.what, F("crash", "Decode")); return g; }
  if (r.oc == 1 && r.ind != FSENT) ctx.fail(key + "/ind", "Decode threw but the flag output was modified to " + fmti(r.ind), F("touched", "Decode"));
  if (g.verdict == dmsg::SILENT) { ctx.count("doc_silent"); ctx.list("doc_silent_classes", g.why); }
  else if (g.verdict == dmsg::ACCEPT) {
    if (g.lowercase_hemi) ctx.count("lowercase_hemisphere_assumed");
    if (r.oc != 0) ctx.fail(key, "documented-legal string rejected: " + r.what, F("valid-rejected", "Decode"));
    else {
      if (!close_value(r.v, g.value, g.mag, g.special, g.maxidigits)) ctx.fail(key + "/value", "Decode = " + fx(r.v) + " but the documented meaning is " + mc::fmtl(g.value), F("value", "Decode"));
      if (r.ind != g.flag) ctx.fail(key + "/flag", "Decode flag = " + fmti(r.ind) + " but the documented flag is " + fmti(g.flag), F("flag", "Decode"));
      if (!g.special && g.mag > 0) ctx.worst("decode.err_over_tol", (double)(fabsl((long double)r.v - g.value) / (4 * (long double)EPS * std::max(g.mag, fabsl(g.value)))), key);
    }
  } else {
    if (r.oc == 0) ctx.fail(key, "malformed string (" + std::string(g.why) + ") accepted, gives " + fx(r.v) + " flag " + fmti(r.ind), F("invalid-accepted", "Decode"));
  }
  if (!derived) return g;
  // DecodeAngle: no hemisphere allowed.  DecodeAzimuth: E/W allowed, N/S not; reduced to [-180, 180].
  Dec a = lib_angle(s), z = lib_azimuth(s);
  if (a.oc >= 2) ctx.fail(key + "/angle", "DecodeAngle: foreign exception or crash: " + a.what, F("crash", "DecodeAngle"));
  if (z.oc >= 2) ctx.fail(key + "/azi", "DecodeAzimuth: foreign exception or crash: " + z.what, F("crash", "DecodeAzimuth"));
  if (g.verdict == dmsg::SILENT || a.oc >= 2 || z.oc >= 2) return g;
  bool wantA = g.verdict == dmsg::ACCEPT && g.flag == dmsg::NONE, wantZ = g.verdict == dmsg::ACCEPT && g.flag != dmsg::LATITUDE;
  if (g.special) { z.oc = 0; wantZ = true; }                 // azimuth of nan/inf: accept or reject, both undocumented
  if (wantA != (a.oc == 0)) ctx.fail(key + "/angle", std::string("DecodeAngle ") + (a.oc == 0 ? "accepted" : "rejected") + " a string that is " + (wantA ? "a legal arc angle" : "not a legal arc angle"), F(wantA ? "valid-rejected" : "invalid-accepted", "DecodeAngle"));
  else if (wantA && !close_value(a.v, g.value, g.mag, g.special, g.maxidigits)) ctx.fail(key + "/angle", "DecodeAngle = " + fx(a.v) + " want " + mc::fmtl(g.value), F("value", "DecodeAngle"));
  if (wantZ != (z.oc == 0)) ctx.fail(key + "/azi", std::string("DecodeAzimuth ") + (z.oc == 0 ? "accepted" : "rejected") + " a string that is " + (wantZ ? "a legal azimuth" : "not a legal azimuth"), F(wantZ ? "valid-rejected" : "invalid-accepted", "DecodeAzimuth"));
  else if (wantZ) {
    if (g.special || std::isinf((double)g.value) || std::isnan((double)g.value)) ctx.count("doc_silent_azimuth_of_nonfinite");     // "reduced to [-180,180]" says nothing about inf/nan
    else {
      long double d = remainderl((long double)z.v - g.value, 360.0L);
      long double tol = ulps_for(g.maxidigits) * (long double)EPS * std::max(g.mag, 360.0L);
      if (!(fabsl(d) <= tol) || !(std::fabs(z.v) <= 180)) ctx.fail(key + "/azi", "DecodeAzimuth = " + fx(z.v) + " want " + mc::fmtl(g.value) + " reduced to [-180,180]", F("value", "DecodeAzimuth"));
    }
  }
  return g;
}

// ------------------------------------------------------------------ DecodeLatLon against the documented rules
static void judge_latlon(Ctx& ctx, const std::string& a, const std::string& b, bool longfirst) {
  dmsg::Result ga = dmsg::recognise(a), gb = dmsg::recognise(b);
  std::string key = "'" + show(a) + "' '" + show(b) + "' longfirst=" + (longfirst ? "1" : "0");
  auto F = [&](const char* kind) { return mc::Fields{{"kind", kind}, {"fn", "DecodeLatLon"}, {"a", show(a)}, {"b", show(b)}, {"longfirst", longfirst ? "1" : "0"}}; };
  LL r = lib_latlon(a, b, longfirst);
  ctx.sig(uint64_t(r.oc) * 64 + ga.verdict * 16 + gb.verdict * 4 + (ga.flag * 3 + gb.flag) % 4);
  if (r.oc >= 2) { ctx.fail(key, "foreign exception or crash: " + r.what, F("crash")); return; }
  if (r.oc == 1 && (r.lat != SENT || r.lon != SENT)) ctx.fail(key + "/touched", "threw but lat/lon were modified (documented: unchanged)", F("touched"));
  if (ga.verdict == dmsg::SILENT || gb.verdict == dmsg::SILENT) { ctx.count("doc_silent"); return; }
  bool want = ga.verdict == dmsg::ACCEPT && gb.verdict == dmsg::ACCEPT;
  long double lat = 0, lon = 0, mlat = 0, mlon = 0; bool slat = false, slon = false;
  if (want) {
    int ia = ga.flag, ib = gb.flag;
    if (ia == dmsg::NONE && ib == dmsg::NONE) { ia = longfirst ? dmsg::LONGITUDE : dmsg::LATITUDE; ib = longfirst ? dmsg::LATITUDE : dmsg::LONGITUDE; }
    else if (ia == dmsg::NONE) ia = 3 - ib;
    else if (ib == dmsg::NONE) ib = 3 - ia;
    if (ia == ib) want = false;
    else {
      const dmsg::Result& gl = ia == dmsg::LATITUDE ? ga : gb; const dmsg::Result& go = ia == dmsg::LATITUDE ? gb : ga;
      lat = gl.value; mlat = gl.mag; slat = gl.special; lon = go.value; mlon = go.mag; slon = go.special;
      if (std::isnan((double)lat)) { ctx.count("doc_silent"); ctx.list("doc_silent_classes", "NaN latitude in DecodeLatLon"); return; }
      if (fabsl(lat) > 90) {
        want = false;
        if (fabsl(lat) <= 90 * (1 + 4 * (long double)EPS)) { ctx.count("doc_silent"); return; }      // within round-off of the limit
      }
    }
  }
  if (want != (r.oc == 0)) { ctx.fail(key, std::string("DecodeLatLon ") + (r.oc == 0 ? "accepted" : "rejected: " + r.what) + " but the documented rules say " + (want ? "legal" : "illegal"), F(want ? "valid-rejected" : "invalid-accepted")); return; }
  if (want && (!close_value(r.lat, lat, mlat, slat, std::max(ga.maxidigits, gb.maxidigits)) || !close_value(r.lon, lon, mlon, slon, std::max(ga.maxidigits, gb.maxidigits))))
    ctx.fail(key + "/value", "DecodeLatLon = (" + fx(r.lat) + ", " + fx(r.lon) + ") want (" + mc::fmtl(lat) + ", " + mc::fmtl(lon) + ")", F("value"));
}

// ------------------------------------------------------------------ (a) normal form of Encode output
struct NF { bool ok = true; std::string why; long double value = 0; bool neg = false; };
static bool alldigits(const std::string& s) { if (s.empty()) return false; for (char c : s) if (c < '0' || c > '9') return false; return true; }
// number with exactly `prec` decimals and an integer part of at least W digits, zero filled to exactly W when shorter
static bool fixed_number(const std::string& s, unsigned prec, size_t W, bool exactW, long double& v, std::string& why) {
  size_t p = s.find('.');
  std::string ip = p == std::string::npos ? s : s.substr(0, p), fp = p == std::string::npos ? "" : s.substr(p + 1);
  if ((p != std::string::npos) != (prec > 0)) { why = "decimal point present/absent against precision"; return false; }
  if (!alldigits(ip) || (prec > 0 && !alldigits(fp))) { why = "non-digit in number '" + s + "'"; return false; }
  if (fp.size() != prec) { why = "fraction has " + fmti((long long)fp.size()) + " digits, precision is " + fmti(prec); return false; }
  if (exactW ? ip.size() != W : (ip.size() < W || (ip.size() > W && ip[0] == '0'))) { why = "integer part '" + ip + "' not zero-filled to " + fmti((long long)W) + " digits"; return false; }
  v = strtold(s.c_str(), nullptr); return true;
}
static NF normal_form(const std::string& out, int trailing, unsigned prec, int ind, char sep) {
  NF r; std::string s = out;
  auto bad = [&](const std::string& w) { r.ok = false; r.why = w; return r; };
  if (s.empty()) return bad("empty output");
  if (ind == DMS::NONE || ind == DMS::NUMBER) { if (s[0] == '-') { r.neg = true; s.erase(0, 1); } }
  else if (ind == DMS::LATITUDE) { char h = s.back(); if (h != 'N' && h != 'S') return bad("no N/S designator"); r.neg = h == 'S'; s.pop_back(); }
  else if (ind == DMS::LONGITUDE) { char h = s.back(); if (h != 'E' && h != 'W') return bad("no E/W designator"); r.neg = h == 'W'; s.pop_back(); }
  size_t W = ind == DMS::LATITUDE ? 2 : (ind == DMS::LONGITUDE || ind == DMS::AZIMUTH ? 3 : 1);
  long double d = 0, m = 0, sec = 0; std::string why;
  char dd = sep ? sep : 'd', dm = sep ? sep : '\'';
  if (trailing == DMS::DEGREE) { if (!fixed_number(s, prec, W, false, d, why)) return bad(why); }
  else {
    size_t p = s.find(dd); if (p == std::string::npos) return bad("degree delimiter missing");
    if (!fixed_number(s.substr(0, p), 0, W, false, d, why)) return bad("degrees: " + why);
    std::string rest = s.substr(p + 1);
    if (trailing == DMS::MINUTE) {
      if (!sep) { if (rest.empty() || rest.back() != '\'') return bad("minute indicator missing"); rest.pop_back(); }
      if (!fixed_number(rest, prec, 2, true, m, why)) return bad("minutes: " + why);
    } else {
      size_t q = rest.find(dm); if (q == std::string::npos) return bad("minute delimiter missing");
      if (!fixed_number(rest.substr(0, q), 0, 2, true, m, why)) return bad("minutes: " + why);
      std::string r2 = rest.substr(q + 1);
      if (!sep) { if (r2.empty() || r2.back() != '"') return bad("second indicator missing"); r2.pop_back(); }
      if (!fixed_number(r2, prec, 2, true, sec, why)) return bad("seconds: " + why);
    }
    if (!(m < 60)) return bad("minutes not below 60");
    if (!(sec < 60)) return bad("seconds not below 60");
  }
  r.value = d + m / 60 + sec / 3600;
  return r;
}

static const char* indname(int ind) { static const char* n[] = {"NONE", "LATITUDE", "LONGITUDE", "AZIMUTH", "NUMBER"}; return n[ind]; }

// one Encode configuration.  overload 1: (trailing, prec) given; overload 2: prec2 given, trailing/prec derived as documented
static void check_encode(Ctx& ctx, double angle, int overload, int trailing, unsigned prec, int ind, char sep) {
  Ctx::Case cs(ctx);
  std::string out, what; int oc = 0;
  try {
    int sg = mc::crashed([&] {
      out = overload == 1 ? DMS::Encode(angle, DMS::component(trailing), prec, DMS::flag(ind), sep) : DMS::Encode(angle, prec, DMS::flag(ind), sep);
    });
    if (sg) { oc = 3; what = "signal " + std::to_string(sg); }
  } catch (const std::exception& e) { oc = 2; what = e.what(); }
  std::string key = "Encode" + fmti(overload) + "(" + fx(angle) + (overload == 1 ? std::string(", trailing ") + fmti(trailing) : std::string()) + ", prec " + fmti(prec) + ", " + indname(ind) + ", sep " + (sep ? std::string(1, sep) : std::string("0")) + ")";
  auto F = [&](const char* kind) { return mc::Fields{{"kind", kind}, {"overload", fmti(overload)}, {"trailing", fmti(trailing)}, {"prec", fmti(prec)}, {"ind", indname(ind)}, {"sep", sep ? std::string(1, sep) : std::string("0")}, {"angle", fmt(angle)}}; };
  if (oc) { ctx.fail(key, "Encode threw / crashed: " + what, F("crash")); return; }
  // effective component / precision as documented
  int tr = trailing; unsigned pe = prec;
  bool number = ind == DMS::NUMBER;
  if (overload == 2 && !number) { tr = prec < 2 ? 0 : (prec < 4 ? 1 : 2); pe = prec < 2 ? prec : (prec < 4 ? prec - 2 : prec - 4); }
  if (number) tr = 0;
  if (!number) pe = std::min(pe, unsigned(15 - 2 * tr));           // precision cap: full double precision for angles in [-90, 90]
  ctx.sig(uint64_t(tr) * 5 + ind);
  if (!std::isfinite(angle)) {
    std::string want = std::isnan(angle) ? "nan" : (angle < 0 ? "-inf" : "inf");
    if (out != want) { ctx.fail(key, "non-finite angle formatted as '" + out + "', want '" + want + "'", F("nonfinite")); return; }
    Dec r = lib_decode(out);
    if (r.oc != 0 || r.ind != 0 || !(std::isnan(angle) ? std::isnan(r.v) : r.v == angle)) ctx.fail(key + "/decode", "'" + out + "' does not decode back to the non-finite value", F("closure"));
    return;
  }
  // the value that is to be represented
  long double a = fabsl((long double)angle); bool neg = std::signbit(angle);
  if (ind == DMS::AZIMUTH) { long double rr = (long double)std::remainder(angle, 360.0); if (rr < 0) rr += 360; a = rr; neg = false; }
  NF nf = normal_form(out, number ? 0 : tr, pe, ind, number ? 0 : sep);
  if (!nf.ok) { ctx.fail(key, "output '" + out + "' is not in normal form: " + nf.why, F("normal-form")); return; }
  long double unit = powl(10.0L, -(int)pe) / (tr == 0 || number ? 1 : (tr == 1 ? 60 : 3600));
  // round-off: the angle itself, and for azimuths the reduction angle + 360 carried out in double
  long double ulp = (long double)mc::ulp_of(std::max(std::max(std::fabs(angle), DBL_MIN), ind == DMS::AZIMUTH ? (double)a : 0.0));
  long double tol = 0.5L * unit * (1 + 1e-9L) + 2 * ulp;
  long double err = fabsl(nf.value - a);
  ctx.worstf("encode.err_over_tol", (double)(err / tol), [&] { return key + " -> " + out; });
  if (!(err <= tol)) { ctx.fail(key, "output '" + out + "' represents " + mc::fmtl(nf.value) + ", more than half a unit of the last digit from " + mc::fmtl(a), F("encode-value")); return; }
  if (ind == DMS::AZIMUTH && !(nf.value <= 360)) { ctx.fail(key, "azimuth output '" + out + "' above 360", F("azimuth-range")); return; }
  if (ind == DMS::AZIMUTH && nf.value == 360) ctx.count("azimuth_printed_as_360_by_rounding");
  if (nf.neg != neg) { ctx.fail(key, "output '" + out + "' has the wrong sign / hemisphere", F("encode-sign")); return; }
  // decoding
  if (sep && sep != ':') return;
  Dec r = lib_decode(out);
  if (r.oc != 0) { ctx.fail(key + "/decode", "own output '" + out + "' rejected by Decode: " + r.what, F("closure-rejected")); return; }
  int wantflag = (ind == DMS::LATITUDE || ind == DMS::LONGITUDE) ? ind : 0;
  if (r.ind != wantflag) ctx.fail(key + "/flag", "'" + out + "' decodes with flag " + fmti(r.ind) + ", want " + fmti(wantflag), F("closure-flag"));
  long double pv = nf.neg ? -nf.value : nf.value;
  long double dtol = 4 * (long double)EPS * fabsl(pv) + 1e-300L;
  ctx.worstf("closure.decode_err_over_tol", (double)(fabsl((long double)r.v - pv) / dtol), [&] { return out; });
  if (!(fabsl((long double)r.v - pv) <= dtol)) ctx.fail(key + "/decode", "'" + out + "' decodes to " + fx(r.v) + ", printed value is " + mc::fmtl(pv), F("closure-value"));
  if (std::signbit(r.v) != nf.neg) ctx.fail(key + "/sign", "'" + out + "' decodes to " + fx(r.v) + ": sign lost", F("closure-sign"));
  if (ctx.want_sample()) ctx.sample(key + " -> '" + out + "' -> " + fmt(r.v));
}

// ------------------------------------------------------------------ (b') symbols
static std::string subst(const std::string& tmpl, char canon, const std::string& alt, int which) {     // replace the which-th occurrence
  std::string o; int k = 0;
  for (char c : tmpl) { if (c == canon && k++ == which) o += alt; else o += c; }
  return o;
}

// ------------------------------------------------------------------ (e) GeoCoords
struct GC { int oc = 0; std::string what; double lat = SENT, lon = SENT, e = SENT, n = SENT; int zone = -99; bool northp = false; };
static GC gc_reset(const std::string& s, bool centerp = true, bool longfirst = false) {
  GC r; Dec d;
  guard(d, [&] { GeoCoords g(s, centerp, longfirst); r.lat = g.Latitude(); r.lon = g.Longitude(); r.e = g.Easting(); r.n = g.Northing(); r.zone = g.Zone(); r.northp = g.Northp(); });
  r.oc = d.oc; r.what = d.what; return r;
}
static double lon_diff(double a, double b) { return std::fabs(std::remainder(a - b, 360.0)); }

int main(int argc, char** argv) {
  {
    std::string st = dmsg::selftest();
    if (!st.empty()) { fprintf(stderr, "C10: reference recogniser self-test failed: %s\n", st.c_str()); return 2; }
  }
  Ctx ctx(argc, argv);
  const bool T = ctx.thorough();
  const double inf = INFINITY, nan = NAN;
  ctx.note("lower-case hemisphere letters n s e w are assumed to mean N S E W (Utility::lookup documents the case folding); counted in lowercase_hemisphere_assumed");
  ctx.note("azimuth output: the statement says 'reduced to the range 0 to 360'; an output of exactly 360 produced by rounding up at the chosen precision is allowed and counted");

  // ================================================================= doc examples
  ctx.sub("doc-examples");
  ctx.bound("doc-examples", fmti((long long)dmsg::doc_examples().size()) + " LEGAL/ILLEGAL strings printed in DMS.hpp and GeoCoords.hpp");
  if (ctx.take()) {
    for (const dmsg::Example& ex : dmsg::doc_examples()) {
      Ctx::Case cs(ctx);
      Dec r = lib_decode(ex.text);
      mc::Fields F{{"kind", ex.legal ? "legal-example" : "illegal-example"}, {"string", show(ex.text)}};
      if (ex.legal) {
        if (r.oc != 0) ctx.fail(ex.text, "documented LEGAL example rejected: " + r.what, F);
        else if (!close_value(r.v, ex.value, fabsl(ex.value) + 100, false) || r.ind != ex.flag) ctx.fail(ex.text, "documented LEGAL example decodes to " + fx(r.v) + " flag " + fmti(r.ind), F);
      } else if (r.oc != 1) ctx.fail(ex.text, "documented ILLEGAL example not rejected with GeographicErr (outcome " + fmti(r.oc) + ", value " + fx(r.v) + ")", F);
      judge_string(ctx, ex.text, true);
    }
  }

  // ================================================================= (a) encode closure
  {
    ctx.sub("encode-closure");
    std::vector<double> vals;
    const double ds[] = {0, 1, 9, 10, 89, 90, 99, 100, 179, 180, 359, 360, 719};
    const double ms[] = {0, 1, 30, 59};
    const double ss[] = {0, 1e-11, 29.5, 59.4, 59.5, 59.95, 59.9999995, 60 - 1e-9};
    for (double d : ds) for (double m : ms) for (double s : ss) { double v = d + (m + s / 60) / 60; vals.push_back(v); vals.push_back(-v); }
    const double sp[] = {0.0, -0.0, inf, -inf, nan, 1e-300, -1e-300, 5e-324, 1e20, -1e20, std::nextafter(0.5, 0.0), 0.5, 0.05, 0.95, 0.995, 9.9999999, 99.99999999,
                         -9.9999999, 1e15, 9007199254740992.0, 9007199254740994.0, 1e17, std::nextafter(360.0, 0.0), -std::nextafter(360.0, 0.0), -1e-20, 180.0, -180.0,
                         std::nextafter(90.0, 0.0), std::nextafter(180.0, 0.0), 1.0 / 3, 2.0 / 3, 1.0 / 60, 1.0 / 3600, 59.0 / 60 + 59.5 / 3600};
    for (double v : sp) vals.push_back(v);
    ctx.bound("encode.values", fmti((long long)vals.size()) + " angles: +-(d + m/60 + s/3600), d in 13 values 0..719, m in {0,1,30,59}, s in {0,1e-11,29.5,59.4,59.5,59.95,59.9999995,60-1e-9} + " + fmti((long long)(sizeof sp / sizeof sp[0])) + " specials (+-0, +-inf, nan, denormals, 1e20, 2^53, 0.5-ulp, 360-ulp ...)");
    ctx.bound("encode.configs", "overload 1: trailing {D,M,S} x prec 0..17 x ind {NONE,LATITUDE,LONGITUDE,AZIMUTH} x sep {0,':'}; overload 2: prec 0..17 x ind {NONE,LATITUDE,LONGITUDE,AZIMUTH,NUMBER} x sep {0,':'}");
    for (double v : vals) {
      if (!ctx.take()) continue;
      for (char sep : {char(0), ':'}) {
        for (int tr = 0; tr < 3; ++tr) for (unsigned p = 0; p <= 17; ++p) for (int ind = 0; ind <= 3; ++ind) check_encode(ctx, v, 1, tr, p, ind, sep);
        for (unsigned p = 0; p <= 17; ++p) for (int ind = 0; ind <= 4; ++ind) check_encode(ctx, v, 2, 0, p, ind, sep);
      }
    }
  }

  // ================================================================= (b) token sequences
  {
    ctx.sub("tokens");
    const std::vector<std::string> tok = {"-", "+", "\xe2\x88\x92", "N", "s", "E", "1", "07", "60", "59.5", ".5", "d", "\xc2\xb0", "'", "\"", ":"};
    const int L = T ? 6 : 5, NT = (int)tok.size();
    ctx.bound("tokens", "all sequences of length 0.." + fmti(L) + " over the 16 tokens - + U+2212 N s E 1 07 60 59.5 .5 d U+00b0 ' \" :  (" + fmti(T ? 17895697 : 1118481) + " strings) x Decode, DecodeAngle, DecodeAzimuth");
    uint64_t nacc = 0, nrej = 0, nsil = 0;
    auto one = [&](const std::string& s) {
      Ctx::Case cs(ctx);
      dmsg::Result g = judge_string(ctx, s, true);
      if (g.verdict == dmsg::ACCEPT) ++nacc; else if (g.verdict == dmsg::REJECT) ++nrej; else ++nsil;
      if (g.verdict == dmsg::ACCEPT && g.npieces > 1 && ctx.want_sample()) ctx.sample("'" + show(s) + "' = " + mc::fmtl(g.value) + " flag " + fmti(g.flag));
    };
    if (ctx.take()) { one(""); for (auto& t : tok) one(t); }
    for (int i = 0; i < NT; ++i) for (int j = 0; j < NT; ++j) {
      if (!ctx.take()) continue;
      std::string pre = tok[i] + tok[j];
      one(pre);
      std::vector<int> idx;
      for (int len = 1; len <= L - 2; ++len) {
        idx.assign(len, 0);
        while (true) {
          std::string s = pre; for (int k : idx) s += tok[k];
          one(s);
          int k = len - 1; while (k >= 0 && ++idx[k] == NT) { idx[k] = 0; --k; }
          if (k < 0) break;
        }
      }
    }
    ctx.count("tokens_ref_accept", nacc); ctx.count("tokens_ref_reject", nrej); ctx.count("tokens_ref_silent", nsil);
  }

  // ================================================================= (b) DecodeLatLon pairs
  {
    ctx.sub("latlon-pairs");
    std::vector<std::string> ops = {"0", "-0", "7", "-7.5", "40", "90", "-90", "90.0000001", "91", "-91", "180", "270", "1e1", "40N", "N40", "S40", "40S", "-40S", "90N", "90.5N",
                                    "91S", "75W", "W75", "E-75", "270E", "40d30'", "40:30:30", "89:59:60.0", "90:00:00.1", "40:30N+0:0:30S", "40N+1E", "40+1", "nan", "inf",
                                    "-inf", "", " ", "x", "4:60", "N", "+", "40 ", " 75W", "4\xc2\xb0" "5'S", "\xe2\x88\x92" "33.5"};
    const std::vector<std::string> tok = {"-", "+", "\xe2\x88\x92", "N", "s", "E", "1", "07", "60", "59.5", ".5", "d", "\xc2\xb0", "'", "\"", ":"};
    std::vector<std::string> t2 = {""};
    for (auto& a : tok) t2.push_back(a);
    for (auto& a : tok) for (auto& b : tok) t2.push_back(a + b);
    ctx.bound("latlon-pairs", "all ordered pairs of " + fmti((long long)ops.size()) + " curated operands x longfirst {0,1}; all ordered pairs of the " + fmti((long long)t2.size()) + " token sequences of length <= 2 x longfirst {0,1}");
    for (auto& a : ops) {
      if (!ctx.take()) continue;
      for (auto& b : ops) for (int lf = 0; lf < 2; ++lf) { Ctx::Case cs(ctx); judge_latlon(ctx, a, b, lf); if (ctx.want_sample()) ctx.sample("DecodeLatLon('" + show(a) + "','" + show(b) + "'," + fmti(lf) + ")"); }
    }
    for (auto& a : t2) {
      if (!ctx.take()) continue;
      for (auto& b : t2) for (int lf = 0; lf < 2; ++lf) { Ctx::Case cs(ctx); judge_latlon(ctx, a, b, lf); }
    }
  }

  // ================================================================= (b') symbol table
  {
    ctx.sub("symbols");
    const std::vector<dmsg::Alt>& alts = dmsg::alternatives();
    ctx.bound("symbols", fmti((long long)alts.size()) + " alternative byte sequences (UTF-8 and bare Latin-1) x every occurrence of the canonical symbol in 9 templates; ignored spaces in every gap of 2 templates; all ordered pairs of minute symbols as a seconds mark");
    const std::vector<std::string> tmpl = {"4d", "4d5", "-4d5'6.5\"N", "5'", "5'6", "6\"", "4d6\"", "+4d5'+0d0'30\"", "N-4d5'-0d0'30\"-0d6\"+1"};
    auto same_as = [&](const std::string& s, const std::string& ascii, const std::string& what) {
      Ctx::Case cs(ctx);
      Dec r0 = lib_decode(ascii), r = lib_decode(s);
      dmsg::Result g0 = dmsg::recognise(ascii), g = dmsg::recognise(s);
      mc::Fields F{{"kind", "symbol"}, {"symbol", what}, {"string", show(s)}, {"ascii", ascii}};
      if (g0.verdict != dmsg::ACCEPT || g.verdict != dmsg::ACCEPT || g.value != g0.value || g.flag != g0.flag) { ctx.fail("sym " + show(s), "reference recogniser does not treat the substituted string like '" + ascii + "' (harness)", {{"kind", "harness"}, {"string", show(s)}}); return; }
      if (r0.oc != 0 || !close_value(r0.v, g0.value, g0.mag, false) || r0.ind != g0.flag) { ctx.fail("sym ascii " + ascii, "ASCII template not decoded to its documented value", F); return; }
      if (r.oc != 0) { ctx.fail("sym " + show(s), "documented alternative symbol " + what + " rejected: " + r.what, F); return; }
      if (!mc::same_bits(r.v, r0.v) || r.ind != r0.ind) ctx.fail("sym " + show(s), "with symbol " + what + " the string decodes to " + fx(r.v) + " flag " + fmti(r.ind) + ", its ASCII form '" + ascii + "' to " + fx(r0.v) + " flag " + fmti(r0.ind), F);
      if (ctx.want_sample()) ctx.sample("'" + show(s) + "' == '" + ascii + "' = " + fmt(r.v));
    };
    for (const dmsg::Alt& a : alts) {
      if (!ctx.take()) continue;
      if (a.canon == ' ') {
        for (const std::string& t : {std::string("-4d5'6.5\"N"), std::string("N+4:05:06.5-0:0:1")})
          for (size_t g = 0; g <= t.size(); ++g) {
            std::string s = t.substr(0, g) + a.bytes + t.substr(g);
            if (dmsg::recognise(s).verdict == dmsg::SILENT) { ctx.count("doc_silent"); continue; }
            same_as(s, t, a.name);
          }
        continue;
      }
      for (const std::string& t : tmpl) {
        int n = (int)std::count(t.begin(), t.end(), a.canon);
        for (int w = 0; w < n; ++w) same_as(subst(t, a.canon, a.bytes, w), t, a.name);
      }
    }
    // '' pairs
    std::vector<const dmsg::Alt*> mins; for (const dmsg::Alt& a : alts) if (a.canon == '\'') mins.push_back(&a);
    for (const dmsg::Alt* a : mins) {
      if (!ctx.take()) continue;
      for (const dmsg::Alt* b : mins) { same_as("4d5'6" + a->bytes + b->bytes, "4d5'6\"", a->name + "+" + b->name); same_as("6" + a->bytes + b->bytes + "S", "6\"S", a->name + "+" + b->name); }
    }
  }

  // ================================================================= (d) str / val round trip
  {
    ctx.sub("str-val");
    std::vector<double> xs = {0.0, -0.0, 5e-324, -5e-324, 1e-300, 1e-11, -1e-11, std::nextafter(0.5, 0.0), 0.5, std::nextafter(0.5, 1.0), 1, -1, 1.5, 2.5, 0.125, 0.05, 0.15, 0.25, 0.35,
                              59.9999995, 90, 180, std::nextafter(360.0, 0.0), 1.0 / 3, -2.0 / 3, 123456.789, 999999.5, 0.000123456789, 1e15, 9007199254740992.0, 1e20, -1e20, 1e22, 1e23, 1e300,
                              DBL_MAX, -DBL_MAX, DBL_MIN, 6378137, 1 / 298.257223563, inf, -inf, nan, 9.5, 99.95, 0.99999999999999989, 4.35, 2.675, 1e-5, 123456789012345680.0};
    ctx.bound("str-val", fmti((long long)xs.size()) + " doubles x p in {-1,0..17} (str<real>, val<double>, fract<double>, Encode(.., NUMBER)); 24 ints x str<int>/val<int>; 2 bools");
    for (double x : xs) {
      if (!ctx.take()) continue;
      for (int p = -1; p <= 17; ++p) {
        Ctx::Case cs(ctx);
        std::string s = Utility::str(x, p);
        std::string key = "str(" + fx(x) + "," + fmti(p) + ")";
        mc::Fields F{{"kind", "str-val"}, {"x", fmt(x)}, {"p", fmti(p)}};
        Dec r; guard(r, [&] { double v = Utility::val<double>(s); r.v = v; });
        Dec f; guard(f, [&] { double v = Utility::fract<double>(s); f.v = v; });
        if (r.oc != 0) { ctx.fail(key, "val<double> rejects own output '" + s + "': " + r.what, F); continue; }
        if (f.oc != 0 || !(mc::same_bits(f.v, r.v) || (std::isnan(f.v) && std::isnan(r.v)))) ctx.fail(key + "/fract", "fract<double>('" + s + "') differs from val<double>", F);
        if (p >= 0 && DMS::Encode(x, unsigned(p), DMS::NUMBER) != s) ctx.fail(key + "/number", "Encode(x, p, NUMBER) differs from str(x, p)", F);
        if (std::isnan(x)) { if (s != "nan" || !std::isnan(r.v)) ctx.fail(key, "nan -> '" + s + "' -> " + fx(r.v), F); continue; }
        if (std::isinf(x)) { if (s != (x > 0 ? "inf" : "-inf") || r.v != x) ctx.fail(key, "inf -> '" + s + "' -> " + fx(r.v), F); continue; }
        long double unit;
        if (p >= 0) unit = powl(10.0L, -p);
        else { int e10 = x == 0 ? 0 : (int)floorl(log10l(fabsl((long double)x))); unit = powl(10.0L, e10 - 5) * 1.0000001L; if (x != 0 && fabsl((long double)x) >= 0.99999949999L * powl(10.0L, e10 + 1)) unit *= 10; }
        long double tol = 0.5L * unit * (1 + 1e-9L) + 2 * (long double)mc::ulp_of(std::max(std::fabs(x), DBL_MIN));
        long double err = fabsl((long double)r.v - (long double)x);
        ctx.worst("strval.err_over_tol", (double)(err / tol), key + " = " + s);
        if (!(err <= tol)) ctx.fail(key, "'" + s + "' reads back as " + fx(r.v) + ", more than half a unit of the last digit from the original", F);
        if (r.v != 0 && x != 0 && std::signbit(r.v) != std::signbit(x)) ctx.fail(key + "/sign", "sign lost: '" + s + "'", F);
        if (s[0] == '-' && !std::signbit(r.v)) ctx.fail(key + "/sign", "'" + s + "' reads back non-negative", F);
        // the reference reader agrees on the string
        tref::Num g = tref::val_double(s);
        if (g.v == tref::ACCEPT && !(mc::same_bits(g.value, r.v))) ctx.fail(key + "/ref", "val<double>('" + s + "') = " + fx(r.v) + ", correctly rounded value is " + fx(g.value), F);
        if (ctx.want_sample()) ctx.sample(key + " = '" + s + "' -> " + fmt(r.v));
      }
    }
    if (ctx.take()) {
      for (int v : {0, 1, -1, 7, 10, -10, 59, 60, 99, 100, 12345, -12345, 65535, 1 << 20, 1 << 30, INT_MAX, INT_MIN, INT_MAX - 1, INT_MIN + 1, 999999999, -999999999, 1000000000, 2147483600, -2147483600}) {
        Ctx::Case cs(ctx);
        std::string s = Utility::str(v);
        Dec r; guard(r, [&] { int w = Utility::val<int>(s); r.v = w; });
        if (r.oc != 0 || r.v != (double)v) ctx.fail("str<int>(" + fmti(v) + ")", "'" + s + "' reads back as " + fmt(r.v) + " (" + r.what + ")", {{"kind", "str-val-int"}, {"x", fmti(v)}});
      }
      for (bool b : {false, true}) {
        Ctx::Case cs(ctx);
        std::string s = Utility::str(b);
        Dec r; guard(r, [&] { bool w = Utility::val<bool>(s); r.v = w; });
        if (r.oc != 0 || r.v != (double)b || s != (b ? "true" : "false")) ctx.fail(std::string("str<bool>(") + (b ? "1" : "0") + ")", "'" + s + "' reads back as " + fmt(r.v), {{"kind", "str-val-bool"}});
      }
    }
  }

  // ================================================================= (e) GeoCoords
  {
    ctx.sub("geocoords");
    std::vector<double> lats = {-90, -89.9, -80.00000001, -80, -79.99, -72, -45.123456789, -1e-9, -0.0, 0, 1e-9, 33.44, 56, 60, 64, 72, 83.99999, 84, 84.00001, 89.99, 90};
    std::vector<double> lons = {-180, -179.999, -177, -75, -6, -3, -1e-9, 0, 1e-9, 3, 5.9999999, 6, 9, 12, 21, 33, 42, 43.27, 177, 179.999999, 180};
    if (T) { for (double v : {-88.0, -84.0, -60.0, -30.0, -8.0, 8.0, 30.0, 45.5, 80.0, 88.0}) lats.push_back(v); for (double v : {-150.0, -120.0, -90.0, -60.0, -30.0, 30.0, 60.0, 90.0, 120.0, 150.0}) lons.push_back(v); }
    ctx.bound("geocoords", fmti((long long)lats.size()) + " lat x " + fmti((long long)lons.size()) + " lon x {Geo prec -5..9 x longfirst, DMS prec -5..10 x longfirst x sep {0,':'}, UTMUPS prec -5..9 x abbrev x {own hemisphere, override north, override south}, MGRS prec -6..6 x centerp} x separators {space, comma, comma+space, tab, padded}");
    ctx.note("geocoords: a coarse representation moves the point by up to half a unit; zone/hemisphere are compared with those of the position the representation names (GeoCoords built numerically from the parsed coordinates), not with those of the original point");
    auto variants = [](const std::string& rep) {
      std::vector<std::string> v{rep};
      std::string a = rep, b, c = rep, d = "  " + rep + " \t";
      std::replace(a.begin(), a.end(), ' ', ',');
      for (char ch : rep) { if (ch == ' ') b += ", "; else b += ch; }
      std::replace(c.begin(), c.end(), ' ', '\t');
      v.push_back(a); v.push_back(b); v.push_back(c); v.push_back(d);
      return v;
    };
    // all representations of one position.  utm_lattice: the position was given as UTM coordinates, possibly outside the MGRS
    // area (then MGRSRepresentation may throw GeographicErr)
    auto check_pos = [&](const GeoCoords& g0, const std::string& pos, bool utm_lattice) {
      const double lat = g0.Latitude(), lon = g0.Longitude();
      auto F = [&](const char* kind, const std::string& rep) { return mc::Fields{{"kind", kind}, {"lat", fmt(lat)}, {"lon", fmt(lon)}, {"rep", rep}}; };
      // a representation string names a position; Reset must return it, and agree with the numeric constructor on the zone
      auto dispatch_same = [&](const std::string& rep, const GC& r, bool centerp, bool longfirst) {
        for (const std::string& v : variants(rep)) {
          GC q = gc_reset(v, centerp, longfirst);
          if (q.oc != r.oc || (q.oc == 0 && !(mc::same_bits(q.lat, r.lat) && mc::same_bits(q.lon, r.lon) && q.zone == r.zone && q.northp == r.northp && mc::same_bits(q.e, r.e) && mc::same_bits(q.n, r.n))))
            ctx.fail(pos + " sep '" + show(v) + "'", "separator variant '" + show(v) + "' gives a different result from '" + rep + "'", F("separator", rep));
        }
      };
      // ---- Geo and DMS
      for (int lf = 0; lf < 2; ++lf) for (int kind = 0; kind < 3; ++kind) for (int prec = -5; prec <= (kind == 0 ? 9 : 10); ++prec) {
        Ctx::Case cs(ctx);
        char sep = kind == 2 ? ':' : 0;
        std::string rep = kind == 0 ? g0.GeoRepresentation(prec, lf) : g0.DMSRepresentation(prec, lf, sep);
        std::string key = pos + (kind == 0 ? " Geo" : (kind == 1 ? " DMS" : " DMS:")) + " prec " + fmti(prec) + " lf " + fmti(lf);
        // a DMS representation carries hemisphere letters, so it must be read correctly whatever longfirst the reader uses
        for (int rlf = (kind == 0 ? lf : 0); rlf <= (kind == 0 ? lf : 1); ++rlf) {
          GC r = gc_reset(rep, true, rlf);
          if (r.oc != 0) { ctx.fail(key, "own representation '" + rep + "' rejected: " + r.what, F("rep-rejected", rep)); continue; }
          long double unit;
          if (kind == 0) unit = powl(10.0L, -(prec + 5));
          else { int p = prec + 5; unit = p < 2 ? powl(10.0L, -p) : (p < 4 ? powl(10.0L, -(p - 2)) / 60 : powl(10.0L, -(p - 4)) / 3600); }
          double tol = (double)(0.5L * unit * (1 + 1e-9L)) + 4 * EPS * 180;
          double elat = std::fabs(r.lat - g0.Latitude()), elon = lon_diff(r.lon, g0.Longitude());
          ctx.worst("geocoords.latlon_err_over_tol", std::max(elat, elon) / tol, key);
          if (!(elat <= tol) || !(elon <= tol)) ctx.fail(key, "'" + rep + "' reads back as (" + fx(r.lat) + "," + fx(r.lon) + "), more than half a unit of the last digit away", F("rep-value", rep));
          if (std::fabs(r.lon) > 180) ctx.fail(key + "/range", "longitude " + fx(r.lon) + " not reduced to [-180,180]", F("lon-range", rep));
          // same zone/hemisphere/easting/northing as the numeric constructor at the parsed position
          try {
            GeoCoords g2(r.lat, r.lon);
            if (g2.Zone() != r.zone || g2.Northp() != r.northp || !mc::same_bits(g2.Easting(), r.e) || !mc::same_bits(g2.Northing(), r.n))
              ctx.fail(key + "/zone", "'" + rep + "': string Reset gives zone " + fmti(r.zone) + (r.northp ? "n" : "s") + ", numeric Reset at the same position gives " + fmti(g2.Zone()) + (g2.Northp() ? "n" : "s"), F("zone", rep));
          } catch (const std::exception& e) { ctx.fail(key + "/zone", std::string("numeric Reset at the parsed position threw: ") + e.what(), F("zone", rep)); }
          if (rlf == lf && prec % 5 == 0) dispatch_same(rep, r, true, rlf);
        }
        if (ctx.want_sample()) ctx.sample(key + " = '" + rep + "'");
      }
      // ---- UTM/UPS: overload 0 = own hemisphere, 1 / 2 = hemisphere override north / south
      for (int ov = 0; ov < 3; ++ov) for (int abbrev = 0; abbrev < 2; ++abbrev) for (int prec = -5; prec <= 9; ++prec) {
        Ctx::Case cs(ctx);
        const bool pnorth = ov == 0 ? g0.Northp() : ov == 1;                 // hemisphere of the printed coordinates
        std::string key = pos + " UTMUPS" + (ov == 0 ? "" : (ov == 1 ? "(north)" : "(south)")) + " prec " + fmti(prec) + " abbrev " + fmti(abbrev);
        std::string rep;
        {
          Dec d; guard(d, [&] { rep = ov == 0 ? g0.UTMUPSRepresentation(prec, abbrev != 0) : g0.UTMUPSRepresentation(pnorth, prec, abbrev != 0); });
          if (d.oc == 1 && ov != 0 && g0.Zone() == 0 && pnorth != g0.Northp()) { ctx.count("ups_hemisphere_override_rejected_as_documented"); continue; }
          if (d.oc != 0) { ctx.fail(key, "UTMUPSRepresentation threw: " + d.what, F("rep-throws", "")); continue; }
        }
        ctx.sig(uint64_t(ov) * 32 + (prec + 5));
        // the coordinates that are printed, in the printed hemisphere
        const double shift = (g0.Zone() != 0 && pnorth != g0.Northp()) ? (pnorth ? -1e7 : 1e7) : 0;
        const double e0 = g0.Easting(), n0 = g0.Northing() + shift;
        double unit = std::pow(10.0, -prec), tol = 0.5 * unit * (1 + 1e-9) + 4 * EPS * 1e7;
        double pe = std::round(e0 / unit) * unit, pn = std::round(n0 / unit) * unit;
        GC r = gc_reset(rep);
        if (r.oc != 0) {
          // rounding to a coarse unit (or the hemisphere override) can leave the legal UTM/UPS area: only then a rejection is legitimate
          bool legit = false;
          try { GeoCoords g3(g0.Zone(), pnorth, pe, pn); (void)g3; } catch (const std::exception&) { legit = true; }
          if (legit) { ctx.count("utmups_rounded_out_of_domain"); continue; }
          ctx.fail(key, "own representation '" + rep + "' rejected: " + r.what, F("rep-rejected", rep)); continue;
        }
        // compare in the printed hemisphere; the reader flips the hemisphere when the latitude has the other sign (FixHemisphere)
        double rn = r.n;
        if (r.zone == g0.Zone() && r.zone != 0 && r.northp != pnorth) rn += pnorth ? -1e7 : 1e7;
        else if (r.zone != g0.Zone() || r.northp != pnorth) ctx.fail(key + "/zone", "'" + rep + "' reads back in zone " + fmti(r.zone) + (r.northp ? "n" : "s") + ", printed " + fmti(g0.Zone()) + (pnorth ? "n" : "s"), F("zone", rep));
        // the hemisphere finally held must be that of the latitude (either one on the equator)
        if (r.zone != 0 && r.lat != 0 && r.northp != (r.lat > 0)) ctx.fail(key + "/hemi", "'" + rep + "' reads back with latitude " + fx(r.lat) + " in hemisphere " + (r.northp ? "n" : "s"), F("zone", rep));
        double ee = std::fabs(r.e - e0), en = std::fabs(rn - n0);
        ctx.worst("geocoords.utm_err_over_tol", std::max(ee, en) / tol, key);
        if (!(ee <= tol) || !(en <= tol)) ctx.fail(key, "'" + rep + "' reads back as " + fx(r.e) + " " + fx(rn) + ", more than half a unit of the last digit from " + fx(e0) + " " + fx(n0), F("rep-value", rep));
        if (prec % 5 == 0 && ov == 0) {
          dispatch_same(rep, r, true, false);
          // "Easting Northing Zone" order
          size_t sp = rep.find(' ');
          std::string alt = rep.substr(sp + 1) + " " + rep.substr(0, sp);
          GC q = gc_reset(alt);
          if (q.oc != 0 || !mc::same_bits(q.lat, r.lat) || !mc::same_bits(q.lon, r.lon) || q.zone != r.zone || q.northp != r.northp) ctx.fail(key + "/order", "'" + alt + "' (zone last) differs from '" + rep + "'", F("zone-last", rep));
        }
        if (prec < 0 && ctx.want_sample()) ctx.sample(key + " = '" + rep + "'");
      }
      // ---- MGRS
      for (int prec = -6; prec <= 6; ++prec) for (int centerp = 0; centerp < 2; ++centerp) {
        Ctx::Case cs(ctx);
        std::string rep, what; bool threw = false;
        try { rep = g0.MGRSRepresentation(prec); } catch (const std::exception& e) { threw = true; what = e.what(); }
        std::string key = pos + " MGRS prec " + fmti(prec) + " centerp " + fmti(centerp);
        if (threw && utm_lattice) { ctx.count("mgrs_outside_mgrs_area"); continue; }
        if (threw) { ctx.fail(key, "MGRSRepresentation threw for a standard-zone position: " + what, F("mgrs-forward", "")); continue; }
        GC r = gc_reset(rep, centerp);
        if (r.oc != 0) { ctx.fail(key, "own representation '" + rep + "' rejected: " + r.what, F("rep-rejected", rep)); continue; }
        if (r.zone != g0.Zone()) { ctx.fail(key + "/zone", "'" + rep + "' reads back in zone " + fmti(r.zone) + ", original " + fmti(g0.Zone()), F("zone", rep)); continue; }
        if (prec == -6) continue;                   // grid zone only: the reader returns the centre of the zone
        if (r.northp != g0.Northp()) {
          // a square straddling the equator may be read back in the other hemisphere with centerp; compare in a common frame
          if (r.zone != 0 && std::fabs(g0.Latitude()) < 1) ctx.count("mgrs_hemisphere_flipped_near_equator");
          else { ctx.fail(key + "/hemi", "'" + rep + "' reads back in the other hemisphere", F("zone", rep)); continue; }
        }
        double unit = std::pow(10.0, -prec), n0 = g0.Northing() + ((r.northp != g0.Northp()) ? (r.northp ? -1 : 1) * 1e7 : 0);
        double se = r.e - (centerp ? unit / 2 : 0), sn = r.n - (centerp ? unit / 2 : 0);      // SW corner of the square read back
        double slack = 4 * EPS * 1e7;
        if (!(g0.Easting() >= se - slack && g0.Easting() < se + unit + slack && n0 >= sn - slack && n0 < sn + unit + slack))
          ctx.fail(key, "'" + rep + "' reads back as the square at " + fx(se) + " " + fx(sn) + " (side " + fmt(unit) + ") which does not contain " + fx(g0.Easting()) + " " + fx(n0), F("rep-value", rep));
        if (prec % 3 == 0 && centerp) dispatch_same(rep, r, true, false);
      }
    };
    for (double lat : lats) for (double lon : lons) {
      if (!ctx.take()) continue;
      GeoCoords g0;
      try { g0.Reset(lat, lon); } catch (const std::exception& e) { Ctx::Case cs(ctx); ctx.fail("Reset(" + fmt(lat) + "," + fmt(lon) + ")", std::string("numeric Reset threw: ") + e.what(), {{"kind", "numeric-reset"}}); continue; }
      check_pos(g0, "(" + fx(lat) + "," + fx(lon) + ")", false);
    }
    // ---- UTM coordinate lattice: eastings / northings just below and above 0.5 and 1 (and 1.5) units of every negative
    // precision, i.e. where the number of printed digits and the zero padding change
    {
      std::vector<double> V;
      for (int p = 1; p <= 5; ++p) { double u = std::pow(10.0, p); for (double f : {0.4, 0.4999, 0.5, 0.5001, 0.999, 1.0, 1.4999, 1.5001}) V.push_back(f * u); }
      std::vector<double> E = V, N = V; E.push_back(500000); N.push_back(0); N.push_back(2500000);
      ctx.bound("geocoords.utm_lattice", std::string("zone 31: eastings / northings {0.4, 0.4999, 0.5, 0.5001, 0.999, 1, 1.4999, 1.5001} x 10^p m, p = 1..5 (+ easting 500 km, northings 0 and 2500 km), north, and south with northing 10^7 - v; ") + (T ? "full product" : "each axis against a generic value of the other, and the diagonal") + "; x every representation incl. UTMUPSRepresentation with hemisphere override");
      auto one = [&](bool northp, double e, double n) {
        if (!ctx.take()) return;
        GeoCoords g0;
        std::string pos = std::string("31") + (northp ? "n " : "s ") + fx(e) + " " + fx(n);
        try { g0.Reset(31, northp, e, n); } catch (const std::exception& ex) { Ctx::Case cs(ctx); ctx.fail("Reset(" + pos + ")", std::string("numeric Reset threw: ") + ex.what(), {{"kind", "numeric-reset"}}); return; }
        check_pos(g0, pos, true);
      };
      for (size_t i = 0; i < E.size(); ++i) for (size_t j = 0; j < N.size(); ++j) {
        bool generic_e = E[i] == 500000, generic_n = N[j] == 2500000, diag = i < V.size() && i == j;
        if (!T && !(generic_e || generic_n || diag)) continue;
        one(true, E[i], N[j]);
        if (j < V.size() && (T || generic_e)) one(false, E[i], 1e7 - N[j]);
      }
    }
    // ---- alternate-zone state and re-use of an object
    {
      ctx.bound("geocoords.alt_state", "every lat/lon lattice position via Reset(lat,lon) and via its Geo / DMS / UTMUPS / MGRS strings; zone-31 (and 18, 60) UTM coordinates via Reset(zone,northp,x,y) and via zone-first / zone-last strings with northings v, -v (north), 10^7-v, 10^7+v, 10^7 (south), v in the threshold lattice + {10^6, 2.5x10^6}: (1) untouched alternate state equals the main state (accessors bitwise, Alt*Representation == *Representation at prec {-5,-2,0,3,9} x abbrev x hemisphere override, MGRS -6..6); (2) SetAltZone(z), z in {MATCH, STANDARD, UTM, zone-1, zone+1}: AltZone as documented, Alt accessors equal UTMUPS::Forward into that zone, Alt strings re-parse to the same position within half a unit of the last digit; (3) Reset on an object that held one of 4 other states (with alternate zone set) equals a freshly constructed object in every accessor and representation");
      ctx.note("geocoords.alt_state: UTMUPS::StandardZone / Forward (property C04) are the reference for the alternate zone and its coordinates");
      typedef std::function<void(GeoCoords&)> Maker;
      auto str_of = [&](const std::function<std::string()>& f) { Dec d; std::string r; guard(d, [&] { r = f(); }); return d.oc == 0 ? r : "<threw " + fmti(d.oc) + ": " + d.what + ">"; };
      struct Snap { double v[10]; bool northp; int zone, azone; std::vector<std::string> reps; };
      auto snap = [&](const GeoCoords& g) {
        Snap q; double vv[10] = {g.Latitude(), g.Longitude(), g.Easting(), g.Northing(), g.Convergence(), g.Scale(), g.AltEasting(), g.AltNorthing(), g.AltConvergence(), g.AltScale()};
        memcpy(q.v, vv, sizeof vv); q.northp = g.Northp(); q.zone = g.Zone(); q.azone = g.AltZone();
        q.reps = {str_of([&] { return g.GeoRepresentation(3); }), str_of([&] { return g.DMSRepresentation(1, true, ':'); }), str_of([&] { return g.UTMUPSRepresentation(3, true); }),
                  str_of([&] { return g.UTMUPSRepresentation(true, -2, false); }), str_of([&] { return g.UTMUPSRepresentation(false, 0, true); }), str_of([&] { return g.MGRSRepresentation(0); }),
                  str_of([&] { return g.AltUTMUPSRepresentation(3, true); }), str_of([&] { return g.AltUTMUPSRepresentation(true, -2, false); }), str_of([&] { return g.AltUTMUPSRepresentation(false, 0, true); }),
                  str_of([&] { return g.AltMGRSRepresentation(0); }), str_of([&] { return g.AltMGRSRepresentation(-6); })};
        return q;
      };
      auto snap_diff = [&](const Snap& a, const Snap& b) -> std::string {
        static const char* nm[10] = {"Latitude", "Longitude", "Easting", "Northing", "Convergence", "Scale", "AltEasting", "AltNorthing", "AltConvergence", "AltScale"};
        for (int i = 0; i < 10; ++i) if (!mc::same_bits(a.v[i], b.v[i]) && !(std::isnan(a.v[i]) && std::isnan(b.v[i]))) return std::string(nm[i]) + " " + fx(a.v[i]) + " vs " + fx(b.v[i]);
        if (a.northp != b.northp) return "Northp"; if (a.zone != b.zone) return "Zone " + fmti(a.zone) + " vs " + fmti(b.zone); if (a.azone != b.azone) return "AltZone " + fmti(a.azone) + " vs " + fmti(b.azone);
        for (size_t i = 0; i < a.reps.size(); ++i) if (a.reps[i] != b.reps[i]) return "representation " + fmti((long long)i) + " '" + a.reps[i] + "' vs '" + b.reps[i] + "'";
        return "";
      };
      // states an object may have held before
      std::vector<Maker> firsts = {
        [](GeoCoords&) {},
        [](GeoCoords& g) { g.Reset("n 2000000 2100000"); },
        [](GeoCoords& g) { g.Reset("31n 700000 -1000000"); g.SetAltZone(32); },
        [](GeoCoords& g) { g.Reset(33.44, 43.27); g.SetAltZone(37); },
        [](GeoCoords& g) { g.Reset(60, false, 200000, 11000000); g.SetAltZone(59); },
      };
      for (auto& f : firsts) { try { GeoCoords g; f(g); } catch (const std::exception& e) { fprintf(stderr, "C10: alt-state prior state is not constructible: %s\n", e.what()); return 2; } }
      auto metres_apart = [&](double lat1, double lon1, double lat2, double lon2) { double s12; Geodesic::WGS84().Inverse(lat1, lon1, lat2, lon2, s12); return s12; };
      // all checks for one way of setting an object
      auto check_obj = [&](const std::string& desc, const Maker& make) {
        std::string cls = "other";
        auto F = [&](const char* kind) { return mc::Fields{{"kind", kind}, {"object", desc}, {"input_class", cls}}; };
        GeoCoords g;
        { Dec d; guard(d, [&] { make(g); }); if (d.oc != 0) { Ctx::Case cs(ctx); ctx.sig(77); if (d.oc != 1) ctx.fail("alt " + desc, "Reset: foreign exception / crash: " + d.what, F("crash")); else ctx.count("alt_state_objects_rejected"); return; } }
        // a point on the equator may be held in the southern hemisphere ("31s 700000 10000000" is legal input)
        if (g.Latitude() == 0 && !g.Northp() && g.Zone() != 0) cls = "equator-held-in-south";
        const Snap s0 = snap(g);
        // (1) untouched alternate state == main state
        {
          Ctx::Case cs(ctx);
          std::string key = "alt " + desc + " fresh";
          if (g.AltZone() != g.Zone() || !mc::same_bits(g.AltEasting(), g.Easting()) || !mc::same_bits(g.AltNorthing(), g.Northing()) || !mc::same_bits(g.AltConvergence(), g.Convergence()) || !mc::same_bits(g.AltScale(), g.Scale()))
            ctx.fail(key, "without SetAltZone the alternate state (zone " + fmti(g.AltZone()) + ", " + fx(g.AltEasting()) + " " + fx(g.AltNorthing()) + ") differs from the main state (zone " + fmti(g.Zone()) + ", " + fx(g.Easting()) + " " + fx(g.Northing()) + ")", F("alt-fresh"));
          for (int prec : {-5, -2, 0, 3, 9}) for (int ab = 0; ab < 2; ++ab) for (int ov = 0; ov < 3; ++ov) {
            std::string a = str_of([&] { return ov == 0 ? g.AltUTMUPSRepresentation(prec, ab != 0) : g.AltUTMUPSRepresentation(ov == 1, prec, ab != 0); });
            std::string m = str_of([&] { return ov == 0 ? g.UTMUPSRepresentation(prec, ab != 0) : g.UTMUPSRepresentation(ov == 1, prec, ab != 0); });
            if (a != m) { ctx.fail(key + "/utm", "AltUTMUPSRepresentation '" + a + "' differs from UTMUPSRepresentation '" + m + "' although no alternate zone was set", F("alt-fresh")); break; }
          }
          for (int prec = -6; prec <= 6; ++prec) {
            std::string a = str_of([&] { return g.AltMGRSRepresentation(prec); }), m = str_of([&] { return g.MGRSRepresentation(prec); });
            if (a != m) { ctx.fail(key + "/mgrs", "AltMGRSRepresentation '" + a + "' differs from MGRSRepresentation '" + m + "' although no alternate zone was set", F("alt-fresh")); break; }
          }
          // the main UTM string names the position the object holds
          std::string u = str_of([&] { return g.UTMUPSRepresentation(6, true); });
          GC r = gc_reset(u);
          if (r.oc != 0) ctx.fail(key + "/own", "own representation '" + u + "' rejected: " + r.what, F("rep-rejected"));
          else if (!(metres_apart(r.lat, r.lon, g.Latitude(), g.Longitude()) <= 2e-6)) ctx.fail(key + "/own", "'" + u + "' reads back " + fmt(metres_apart(r.lat, r.lon, g.Latitude(), g.Longitude())) + " m away", F("rep-value"));
          if (ctx.want_sample()) ctx.sample(key + " " + u);
        }
        // (2) SetAltZone
        std::vector<int> zs = {UTMUPS::MATCH, UTMUPS::STANDARD, UTMUPS::UTM};
        if (g.Zone() >= 2) zs.push_back(g.Zone() - 1);
        if (g.Zone() >= 1 && g.Zone() <= 59) zs.push_back(g.Zone() + 1);
        for (int z : zs) {
          Ctx::Case cs(ctx);
          ctx.sig(uint64_t(z + 5));
          GeoCoords h; make(h);
          std::string key = "alt " + desc + " SetAltZone(" + fmti(z) + ")";
          Dec d; guard(d, [&] { h.SetAltZone(z); });
          // reference: the documented zone rule and the projection into that zone
          int zr = -99; bool nr = false; double xr = 0, yr = 0, gr = 0, kr = 0; bool refthrows = false;
          if (z != UTMUPS::MATCH) { try { UTMUPS::Forward(h.Latitude(), h.Longitude(), zr, nr, xr, yr, gr, kr, z); } catch (const GeographicErr&) { refthrows = true; } }
          if (d.oc >= 2) { ctx.fail(key, "foreign exception / crash: " + d.what, F("crash")); continue; }
          if (z != UTMUPS::MATCH && (d.oc == 1) != refthrows) { ctx.fail(key, std::string("SetAltZone ") + (d.oc ? "threw (" + d.what + ")" : "succeeded") + " but UTMUPS::Forward into that zone " + (refthrows ? "throws" : "succeeds"), F("alt-setzone")); continue; }
          if (d.oc == 1) { ctx.count("alt_zone_not_usable"); continue; }
          // main state untouched
          { Snap s1 = snap(h); bool same = s1.zone == s0.zone && s1.northp == s0.northp; for (int i = 0; i < 6; ++i) same = same && mc::same_bits(s1.v[i], s0.v[i]); if (!same) ctx.fail(key + "/main", "SetAltZone changed the main state", F("alt-main")); }
          if (z == UTMUPS::MATCH) { std::string df = snap_diff(snap(h), s0); if (!df.empty()) ctx.fail(key, "SetAltZone(MATCH) is documented to do nothing, but " + df, F("alt-match")); continue; }
          if (h.AltZone() != zr) { ctx.fail(key, "AltZone() = " + fmti(h.AltZone()) + ", documented zone is " + fmti(zr), F("alt-zone")); continue; }
          // hemisphere frame: the alternate coordinates are printed with the main hemisphere
          double yexp = yr + ((zr != 0 && nr != h.Northp()) ? (h.Northp() ? -1e7 : 1e7) : 0);
          if (zr == h.Zone()) {        // documented: the alternate representation is the input one
            if (!mc::same_bits(h.AltEasting(), h.Easting()) || !mc::same_bits(h.AltNorthing(), h.Northing()) || !mc::same_bits(h.AltConvergence(), h.Convergence()) || !mc::same_bits(h.AltScale(), h.Scale()))
              ctx.fail(key + "/coords", "alternate zone equals the main zone but the alternate coordinates " + fx(h.AltEasting()) + " " + fx(h.AltNorthing()) + " differ from the main ones", F("alt-coords"));
          } else if (!mc::same_bits(h.AltEasting(), xr) || std::fabs(h.AltNorthing() - yexp) > 4 * EPS * 2e7 || !mc::same_bits(h.AltConvergence(), gr) || !mc::same_bits(h.AltScale(), kr)) {
            ctx.fail(key + "/coords", "alternate coordinates " + fx(h.AltEasting()) + " " + fx(h.AltNorthing()) + " differ from the projection into zone " + fmti(zr) + ": " + fx(xr) + " " + fx(yexp) + " (hemisphere " + (h.Northp() ? "n" : "s") + ")", F("alt-coords"));
            continue;                    // the strings below would only repeat this failure
          }
          for (int prec : {-5, -2, 0, 3, 6}) for (int ab = 0; ab < 2; ++ab) {
            std::string a = str_of([&] { return h.AltUTMUPSRepresentation(prec, ab != 0); });
            GC r = gc_reset(a);
            double unit = std::pow(10.0, -prec);
            if (r.oc != 0) {
              // legitimate only if rounding left the legal area
              bool legit = false;
              try { GeoCoords g3(zr, h.Northp(), std::round(h.AltEasting() / unit) * unit, std::round(h.AltNorthing() / unit) * unit); (void)g3; } catch (const std::exception&) { legit = true; }
              if (legit) ctx.count("utmups_rounded_out_of_domain"); else ctx.fail(key + "/utm" + fmti(prec), "alternate representation '" + a + "' rejected: " + r.what, F("alt-rep-rejected"));
              continue;
            }
            double dist = metres_apart(r.lat, r.lon, h.Latitude(), h.Longitude()), tol = 0.5 * unit * 1.4143 / 0.99 + 2e-6;
            if (r.zone != zr || !(dist <= tol)) ctx.fail(key + "/utm" + fmti(prec), "alternate representation '" + a + "' reads back in zone " + fmti(r.zone) + ", " + fmt(dist) + " m from the position (allowed " + fmt(tol) + ")", F("alt-rep-value"));
          }
          for (int prec : {-5, -3, 0, 2}) {
            std::string a = str_of([&] { return h.AltMGRSRepresentation(prec); });
            if (a.compare(0, 6, "<threw") == 0) { if (a.compare(0, 8, "<threw 1") == 0) ctx.count("alt_mgrs_outside_mgrs_area"); else ctx.fail(key + "/mgrs", "AltMGRSRepresentation: " + a, F("crash")); continue; }
            GC r = gc_reset(a, false);
            double unit = std::pow(10.0, -prec);
            if (r.oc != 0) { ctx.fail(key + "/mgrs" + fmti(prec), "alternate MGRS '" + a + "' rejected: " + r.what, F("alt-rep-rejected")); continue; }
            double rn = r.n + ((r.zone != 0 && r.northp != h.Northp()) ? (h.Northp() ? -1e7 : 1e7) : 0), slack = 4 * EPS * 2e7;
            if (r.zone != zr || !(h.AltEasting() >= r.e - slack && h.AltEasting() < r.e + unit + slack && h.AltNorthing() >= rn - slack && h.AltNorthing() < rn + unit + slack))
              ctx.fail(key + "/mgrs" + fmti(prec), "alternate MGRS '" + a + "' is the square at " + fx(r.e) + " " + fx(rn) + " in zone " + fmti(r.zone) + ", which does not contain " + fx(h.AltEasting()) + " " + fx(h.AltNorthing()) + " of zone " + fmti(zr), F("alt-rep-value"));
          }
        }
        // (3) a Reset on a used object leaves no trace of the earlier state
        for (size_t fi = 0; fi < firsts.size(); ++fi) {
          Ctx::Case cs(ctx);
          ctx.sig(100 + fi);
          GeoCoords h; firsts[fi](h); make(h);
          std::string df = snap_diff(snap(h), s0);
          if (!df.empty()) ctx.fail("alt " + desc + " after state " + fmti((long long)fi), "an object that held another state differs from a fresh one after the same Reset: " + df, F("reset-trace"));
        }
      };
      auto num = [](double v) { char b[64]; snprintf(b, sizeof b, "%.9f", v); return std::string(b); };
      // lat/lon lattice
      for (double lat : lats) {
        if (!ctx.take()) continue;
        for (double lon : lons) {
          std::string pos = "(" + fmt(lat) + "," + fmt(lon) + ")";
          check_obj("Reset" + pos, [=](GeoCoords& g) { g.Reset(lat, lon); });
          GeoCoords g0; try { g0.Reset(lat, lon); } catch (const std::exception&) { continue; }
          for (const std::string& rep : {g0.GeoRepresentation(9), g0.DMSRepresentation(2, true), g0.UTMUPSRepresentation(3, false), str_of([&] { return g0.MGRSRepresentation(1); })})
            if (rep[0] != '<') check_obj("Reset('" + rep + "')", [=](GeoCoords& g) { g.Reset(rep); });
        }
      }
      // UTM coordinates, including hemisphere letters that disagree with the northing (legal input: the reader fixes the hemisphere)
      {
        std::vector<double> V;
        for (int p = 1; p <= 5; ++p) { double u = std::pow(10.0, p); for (double f : {0.4, 0.4999, 0.5, 0.5001, 0.999, 1.0, 1.4999, 1.5001}) V.push_back(f * u); }
        V.push_back(1e6); V.push_back(2.5e6);
        struct ZE { int zone; double e; };
        std::vector<ZE> zes = {{31, 500000}, {18, 500000}, {31, 400000}, {60, 612345.678}};
        if (T) { zes.push_back({1, 500000}); zes.push_back({31, 50010}); zes.push_back({32, 830000}); }
        for (double v : V) {
          if (!ctx.take()) continue;
          for (const ZE& ze : zes) for (int hemi = 0; hemi < 2; ++hemi) for (double n : {v, -v, 1e7 - v, 1e7 + v, 1e7, 0.0}) {
            if (!T && ze.zone != 31 && !(n == -v || n == 1e7 + v)) continue;          // quick: other zones only for the mismatched forms
            if ((n == 1e7 || n == 0.0) && v != V[0]) continue;
            bool northp = hemi == 0; int zone = ze.zone; double e = ze.e;
            std::string zs = fmti(zone) + (northp ? "n" : "s"), coords = num(e) + " " + num(n);
            check_obj("Reset(" + zs + "," + coords + ")", [=](GeoCoords& g) { g.Reset(zone, northp, e, n); });
            check_obj("Reset('" + zs + " " + coords + "')", [=](GeoCoords& g) { g.Reset(zs + " " + coords); });
            if (ze.zone == 31) check_obj("Reset('" + coords + " " + zs + "')", [=](GeoCoords& g) { g.Reset(coords + " " + zs); });
          }
        }
      }
    }
    // token-count dispatch
    if (ctx.take()) {
      for (const std::string& s : {std::string(""), std::string("   "), std::string(",,,"), std::string("1 2 3 4"), std::string("38n 1 2 3"), std::string("1 2 3"), std::string("38x 444500 3684500"),
                                   std::string("444500 3684500 38"), std::string("38n 444500"), std::string("33.44"), std::string("38SMB4484 1"), std::string("38n 444500 3684500 "), std::string("n 2000000 2000000"),
                                   std::string("2000000 2000000 s"), std::string("38n nan nan"), std::string("38n 444500 abc"), std::string("38n,444500,3684500")}) {
        Ctx::Case cs(ctx);
        GC r = gc_reset(s);
        ctx.sig(r.oc);
        if (r.oc >= 2) ctx.fail("dispatch '" + show(s) + "'", "foreign exception or crash: " + r.what, {{"kind", "crash"}, {"string", show(s)}});
        std::string t = s; std::replace(t.begin(), t.end(), ',', ' ');
        int ntok = 0; { std::istringstream is(t); std::string w; while (is >> w) ++ntok; }
        if ((ntok == 0 || ntok > 3) && r.oc != 1) ctx.fail("dispatch '" + show(s) + "'", fmti(ntok) + " tokens accepted", {{"kind", "token-count"}, {"string", show(s)}});
      }
      for (auto& pr : std::vector<std::pair<std::string, std::string>>{{"38n 444500 3684500", "444500 3684500 38n"}, {"n 2000000 2000000", "2000000 2000000 n"}, {"38SMB4484", " 38SMB4484 "}, {"33.44 43.27", "33.44,43.27"}, {"38n 444500 3684500", "38N 444500 3684500"}, {"38n 444500 3684500", "38north 444500 3684500"}}) {
        Ctx::Case cs(ctx);
        GC a = gc_reset(pr.first), b = gc_reset(pr.second);
        if (a.oc != 0 || b.oc != 0 || !mc::same_bits(a.lat, b.lat) || !mc::same_bits(a.lon, b.lon) || a.zone != b.zone || a.northp != b.northp)
          ctx.fail("equiv '" + pr.first + "' '" + pr.second + "'", "documented equivalent forms differ", {{"kind", "equivalent-forms"}, {"string", pr.first}});
      }
    }
  }
  return ctx.finish();
}
