// C04 -- UTM/UPS conversion: standard zone rules, ranges, closure and round trip.
// Engines E1 (exhaustive lattices) + E4 (all short strings, special values).
// Reference: models/utm_rules.hpp (zone rules incl. Norway/Svalbard, pseudo-zones, legal rectangles, false origins,
// zone-string grammar, EPSG table -- written from TM8358.2 and the UTMUPS.hpp documentation).  The projection values
// themselves (x, y, gamma, k of transverse Mercator / polar stereographic) are taken from *separately constructed*
// TransverseMercator / PolarStereographic objects with the standard's parameters; those classes are decided by
// C06 / C11.  Nothing is sampled.
#include "mc/ctx.hpp"
#include "mc/exact.hpp"
#include "models/utm_rules.hpp"
#include <GeographicLib/UTMUPS.hpp>
#include <GeographicLib/TransverseMercator.hpp>
#include <GeographicLib/PolarStereographic.hpp>
#include <GeographicLib/Math.hpp>
#include <string>
#include <vector>
#include <algorithm>
#include <climits>
#include <quadmath.h>

using namespace GeographicLib;
using mc::Ctx; using mc::fx; using mc::fmt; using mc::fmti; using mc::same_bits;

// ------------------------------------------------------------------ sentinels ("outputs untouched")
static const double SX = -12345.678, SY = -23456.789, SG = -34567.891, SK = -45678.912;
static const int ISENT = -777;

// ------------------------------------------------------------------ tolerances
// UTMUPS.hpp: "The error is about 5nm in each direction" -> 2 x 5 nm (Appendix B).
static const double TOL_M = 10e-9;
// "convergence and scale are those of the underlying projection": nothing documented; the unchanged tree reproduces
// the separately constructed projection objects bit for bit (worst observed 0), so the floor of 16 eps applies.
static const double TOL_K_REL = 16 * 2.220446049250313e-16;          // relative, scale
static const double TOL_GAMMA_DEG = 16 * 2.220446049250313e-16 * 180; // degrees, convergence (|gamma| <= 180)

static const double DEG = 3.14159265358979323846 / 180;

// ------------------------------------------------------------------ reference projections (standard parameters)
struct Proj {
  TransverseMercator tm; PolarStereographic ps;
  Proj() : tm(utmref::WGS84_A, utmref::WGS84_F, utmref::UTM_K0), ps(utmref::WGS84_A, utmref::WGS84_F, utmref::UPS_K0) {}
};
static const Proj& proj() { static Proj p; return p; }

struct RefXY { double x, y, gamma, k; };
static RefXY ref_project(int zone, bool northp, double lat, double lon) {
  RefXY r;
  if (zone != utmref::UPS) proj().tm.Forward(utmref::central_meridian(zone), lat, lon, r.x, r.y, r.gamma, r.k);
  else proj().ps.Forward(northp, lat, lon, r.x, r.y, r.gamma, r.k);
  r.x += utmref::false_easting(zone != utmref::UPS);
  r.y += utmref::false_northing(zone != utmref::UPS, northp);
  return r;
}
struct RefLL { double lat, lon, gamma, k; };
static RefLL ref_unproject(int zone, bool northp, double x, double y) {
  RefLL r;
  x -= utmref::false_easting(zone != utmref::UPS);
  y -= utmref::false_northing(zone != utmref::UPS, northp);
  if (zone != utmref::UPS) proj().tm.Reverse(utmref::central_meridian(zone), x, y, r.lat, r.lon, r.gamma, r.k);
  else proj().ps.Reverse(northp, x, y, r.lat, r.lon, r.gamma, r.k);
  return r;
}
// ground distance (upper bound) between two geographic positions that are very close
static double ll_dist(double lat1, double lon1, double lat2, double lon2) {
  double dlat = std::fabs(lat1 - lat2), dlon = std::fabs(std::remainder(std::remainder(lon1, 360.0) - std::remainder(lon2, 360.0), 360.0));
  double c = std::cos(std::fmin(std::fabs(lat1), std::fabs(lat2)) * DEG);
  return std::hypot(dlat * DEG * 6400000.0, dlon * DEG * 6378137.0 * c);
}

// ------------------------------------------------------------------ library calls with outcome capture
// outcome: 0 returned, 1 GeographicErr, 2 foreign exception, 3 fatal signal
struct Out { int outcome = 0; std::string what; };
// Signal containment as in mc::crashed but without the signal-mask save/restore (two system calls per library call, which
// dominate a 10^9-string sweep).  Sound because mc::crash_install() installs its handlers with SA_NODEFER and an empty
// sa_mask: the signal mask inside the handler equals the mask at the sigsetjmp, so nothing needs restoring.
template <class F> static Out guard(F f, bool contain_signals) {
  Out o;
  if (contain_signals) {
    // signal containment inline (not through crashed_fast) so that an exception is unwound once, not caught and rethrown
    mc::crash_install();
    if (sigsetjmp(mc::crash_jmp(), 0)) { o.outcome = 3; o.what = "signal " + std::to_string((int)mc::crash_sig()); return o; }
    mc::crash_armed() = 1;
  }
  try { f(); }
  catch (const GeographicErr& e) { o.outcome = 1; o.what = e.what(); }
  catch (const std::exception& e) { o.outcome = 2; o.what = std::string("foreign exception: ") + e.what(); }
  catch (...) { o.outcome = 2; o.what = "foreign exception"; }
  mc::crash_armed() = 0;
  return o;
}
struct Fwd { Out o; int zone; bool northp; double x, y, g, k; };
static Fwd lib_forward(double lat, double lon, int setzone, bool mgrs, bool npinit, bool sig = false) {
  Fwd r; r.zone = ISENT; r.northp = npinit; r.x = SX; r.y = SY; r.g = SG; r.k = SK;
  r.o = guard([&] { UTMUPS::Forward(lat, lon, r.zone, r.northp, r.x, r.y, r.g, r.k, setzone, mgrs); }, sig);
  return r;
}
static bool fwd_untouched(const Fwd& r, bool npinit) {
  return r.zone == ISENT && r.northp == npinit && same_bits(r.x, SX) && same_bits(r.y, SY) && same_bits(r.g, SG) && same_bits(r.k, SK);
}
struct Rev { Out o; double lat, lon, g, k; };
static Rev lib_reverse(int zone, bool northp, double x, double y, bool mgrs, bool sig = false) {
  Rev r; r.lat = SX; r.lon = SY; r.g = SG; r.k = SK;
  r.o = guard([&] { UTMUPS::Reverse(zone, northp, x, y, r.lat, r.lon, r.g, r.k, mgrs); }, sig);
  return r;
}
static bool rev_untouched(const Rev& r) { return same_bits(r.lat, SX) && same_bits(r.lon, SY) && same_bits(r.g, SG) && same_bits(r.k, SK); }
struct Tr { Out o; double x, y; int zone; };
static Tr lib_transfer(int zi, bool ni, double x, double y, int zo, bool no, bool sig = false) {
  Tr r; r.x = SX; r.y = SY; r.zone = ISENT;
  r.o = guard([&] { UTMUPS::Transfer(zi, ni, x, y, zo, no, r.x, r.y, r.zone); }, sig);
  return r;
}
static bool tr_untouched(const Tr& r) { return same_bits(r.x, SX) && same_bits(r.y, SY) && r.zone == ISENT; }

static std::string printable(const std::string& s) {
  std::string o;
  for (unsigned char c : s) { if (c >= 0x20 && c < 0x7f && c != '\\') o += char(c); else { char b[8]; snprintf(b, sizeof b, "\\x%02x", c); o += b; } }
  return o;
}
static const char* zname(int z) {
  switch (z) { case -4: return "INVALID"; case -3: return "MATCH"; case -2: return "UTM"; case -1: return "STANDARD"; default: return nullptr; }
}
static std::string zs(int z) { const char* n = zname(z); return n ? std::string(n) : fmti(z); }

static std::vector<double> with_ulps(const std::vector<double>& v) {
  std::vector<double> o;
  for (double x : v) { o.push_back(x); o.push_back(std::nextafter(x, INFINITY)); o.push_back(std::nextafter(x, -INFINITY)); }
  return o;
}
static void uniq(std::vector<double>& v) {
  std::vector<double> o;
  for (double x : v) { bool dup = false; for (double y : o) if (same_bits(x, y)) { dup = true; break; } if (!dup) o.push_back(x); }
  v.swap(o);
}

// ------------------------------------------------------------------ (b) one Forward case, checked completely
// expected behaviour of UTMUPS::Forward(lat, lon, setzone, mgrs) for finite |lat| <= 90, finite lon
static void check_forward(Ctx& ctx, double lat, double lon, int setzone, bool mgrs, const char* sub_kind_prefix) {
  Ctx::Case cs(ctx);
  std::string key = std::string("Forward(") + fx(lat) + "," + fx(lon) + "," + zs(setzone) + "," + (mgrs ? "mgrs" : "std") + ")";
  mc::Fields F{{"setzone", zs(setzone)}, {"mgrslimits", mgrs ? "1" : "0"}, {"lat", fmt(lat)}, {"lon", fmt(lon)}};
  auto FF = [&](const std::string& kind) { mc::Fields g = F; g.push_back({"kind", std::string(sub_kind_prefix) + kind}); return g; };
  Fwd f = lib_forward(lat, lon, setzone, mgrs, false);
  if (f.o.outcome >= 2) { ctx.fail(key, f.o.what, FF("crash")); return; }
  utmref::Zone rz = utmref::standard_zone(lat, lon, setzone);
  if (rz.throws) {
    ctx.sig(11);
    if (f.o.outcome != 1) ctx.fail(key, "illegal setzone not rejected", FF("setzone-accepted"));
    else if (!fwd_untouched(f, false)) ctx.fail(key, "outputs modified although the call threw", FF("touched"));
    return;
  }
  int zone = rz.zone;
  if (zone == utmref::INVALID) {      // setzone = INVALID with finite input: documented as "equivalent to NaN"
    ctx.sig(12);
    if (f.o.outcome != 0 || f.zone != utmref::INVALID || !std::isnan(f.x) || !std::isnan(f.y) || !std::isnan(f.g) || !std::isnan(f.k))
      ctx.fail(key, "setzone INVALID does not give zone INVALID and NaN outputs", FF("invalid-zone"));
    return;
  }
  // hemisphere: north for lat > 0, south for lat < 0; the documentation does not say which hemisphere a zero latitude
  // (+0 or -0) belongs to, so the library's answer is taken there (and its consistency with y is checked below)
  bool northp = lat > 0 ? true : (lat < 0 ? false : (f.o.outcome == 0 ? f.northp : true));
  if (lat == 0) ctx.count("forward_lat_zero_hemisphere_as_library");
  RefXY r = ref_project(zone, northp, lat, lon);
  utmref::Rect R = utmref::rectangle(zone != utmref::UPS, northp, mgrs);
  bool in = utmref::inside(R, r.x, r.y);
  bool finite = std::isfinite(r.x) && std::isfinite(r.y);
  bool near_edge = finite && utmref::edge_distance(R, r.x, r.y) <= TOL_M;
  ctx.sig((zone == 0 ? 1 : 2) + (northp ? 0 : 2) + (in ? 0 : 4) + 16 * f.o.outcome);
  if (f.o.outcome == 1) {
    if (!fwd_untouched(f, false)) { ctx.fail(key, "outputs modified although the call threw: " + f.o.what, FF("touched")); return; }
    // second call with the other bool sentinel
    Fwd f2 = lib_forward(lat, lon, setzone, mgrs, true);
    if (f2.o.outcome != 1 || !fwd_untouched(f2, true)) { ctx.fail(key, "northp modified although the call threw / outcome not repeatable", FF("touched")); return; }
    if (in && !near_edge) ctx.fail(key, "rejected although the reference coordinates (" + fx(r.x) + "," + fx(r.y) + ") of zone " + fmti(zone) + " are inside the documented rectangle: " + f.o.what, FF("valid-rejected"));
    if (near_edge) ctx.count("forward_within_10nm_of_rectangle_edge");
    return;
  }
  // accepted
  if (!finite && std::isnan(f.x) && std::isnan(f.y)) {
    // the reference projection is singular here (equator, 90 degrees from the central meridian): the point has no UTM
    // coordinates, so the documented behaviour is the out-of-range exception; NaN coordinates with a real zone are a silent failure
    ctx.fail(key, "singular point of the projection accepted: zone " + fmti(f.zone) + " with NaN coordinates instead of the out-of-range exception", FF("singular-point-nan")); return;
  }
  if (!in && !near_edge) { ctx.fail(key, "accepted although the reference coordinates (" + fx(r.x) + "," + fx(r.y) + ") of zone " + fmti(zone) + " are outside the documented rectangle; got zone " + fmti(f.zone) + " (" + fx(f.x) + "," + fx(f.y) + ")", FF("invalid-accepted")); return; }
  if (near_edge) ctx.count("forward_within_10nm_of_rectangle_edge");
  if (f.zone != zone) { ctx.fail(key, "zone " + fmti(f.zone) + ", the zone rules give " + fmti(zone), FF("zone")); return; }
  if (f.northp != northp) { ctx.fail(key, std::string("northp ") + (f.northp ? "true" : "false") + " for latitude " + fx(lat), FF("hemisphere")); return; }
  double exy = std::fmax(std::fabs(f.x - r.x), std::fabs(f.y - r.y));
  ctx.worstf("forward.xy_err_over_tol", exy / TOL_M, [&] { return key; });
  if (!(exy <= TOL_M)) { ctx.fail(key, "(x,y) = (" + fx(f.x) + "," + fx(f.y) + ") but standard central meridian/scale/false origin give (" + fx(r.x) + "," + fx(r.y) + ")", FF("xy")); return; }
  double eg = std::fabs(f.g - r.gamma), ek = std::fabs(f.k - r.k) / r.k;
  ctx.worstf("forward.gamma_err_over_tol", eg / TOL_GAMMA_DEG, [&] { return key; });
  ctx.worstf("forward.k_err_over_tol", ek / TOL_K_REL, [&] { return key; });
  if (!(eg <= TOL_GAMMA_DEG) || !(ek <= TOL_K_REL)) { ctx.fail(key, "gamma,k = " + fx(f.g) + "," + fx(f.k) + " but the underlying projection gives " + fx(r.gamma) + "," + fx(r.k), FF("gamma-k")); return; }
  // closure: the output is legal input for Reverse (same mgrslimits) and comes back to the same place
  Rev v = lib_reverse(f.zone, f.northp, f.x, f.y, mgrs);
  if (v.o.outcome != 0) {
    if (near_edge) return;            // documented exemption: within 5 nm of the edge of the allowed range
    ctx.fail(key, "Forward output (" + fx(f.x) + "," + fx(f.y) + ") not accepted by Reverse: " + v.o.what, FF("closure")); return;
  }
  double d = ll_dist(lat, lon, v.lat, v.lon);
  ctx.worstf("roundtrip.reverse_of_forward_over_tol", d / TOL_M, [&] { return key; });
  if (!(d <= TOL_M)) { ctx.fail(key, "Reverse(Forward) = (" + fx(v.lat) + "," + fx(v.lon) + "), " + fmt(d) + " m away", FF("roundtrip")); return; }
  if (ctx.want_sample()) ctx.sample(key + " -> zone " + fmti(f.zone) + (f.northp ? "n " : "s ") + fmt(f.x) + " " + fmt(f.y));
}

// ------------------------------------------------------------------ (c) one Reverse case
static void check_reverse(Ctx& ctx, int zone, bool northp, double x, double y, bool mgrs) {
  Ctx::Case cs(ctx);
  std::string key = "Reverse(" + fmti(zone) + (northp ? "n," : "s,") + fx(x) + "," + fx(y) + "," + (mgrs ? "mgrs" : "std") + ")";
  mc::Fields F{{"zone", fmti(zone)}, {"northp", northp ? "1" : "0"}, {"mgrslimits", mgrs ? "1" : "0"}, {"x", fmt(x)}, {"y", fmt(y)}};
  auto FF = [&](const char* kind) { mc::Fields g = F; g.push_back({"kind", kind}); return g; };
  Rev v = lib_reverse(zone, northp, x, y, mgrs, true);
  if (v.o.outcome >= 2) { ctx.fail(key, v.o.what, FF("crash")); return; }
  bool nanin = std::isnan(x) || std::isnan(y);
  ctx.sig(v.o.outcome * 5 + (nanin ? 1 : 0) + (zone == 0 ? 2 : 0));
  if (zone == utmref::INVALID) {
    if (v.o.outcome != 0 || !std::isnan(v.lat) || !std::isnan(v.lon) || !std::isnan(v.g) || !std::isnan(v.k)) ctx.fail(key, "zone INVALID does not give NaN outputs", FF("invalid-zone"));
    return;
  }
  if (zone < 0 || zone > 60) {
    if (nanin) { ctx.count("reverse_nan_with_illegal_zone_doc_silent"); return; }
    if (v.o.outcome != 1) ctx.fail(key, "illegal zone accepted", FF("zone-accepted"));
    else if (!rev_untouched(v)) ctx.fail(key, "outputs modified although the call threw", FF("touched"));
    return;
  }
  if (nanin) {
    if (v.o.outcome != 0 || !std::isnan(v.lat) || !std::isnan(v.lon) || !std::isnan(v.g) || !std::isnan(v.k)) ctx.fail(key, "NaN coordinate does not give NaN outputs", FF("nan"));
    return;
  }
  utmref::Rect R = utmref::rectangle(zone != 0, northp, mgrs);
  bool in = utmref::inside(R, x, y);
  if (!in) {
    if (v.o.outcome != 1) ctx.fail(key, "accepted a coordinate outside the documented closed rectangle, gives (" + fx(v.lat) + "," + fx(v.lon) + ")", FF("invalid-accepted"));
    else if (!rev_untouched(v)) ctx.fail(key, "outputs modified although the call threw", FF("touched"));
    return;
  }
  if (v.o.outcome != 0) { ctx.fail(key, "rejected a coordinate inside the documented closed rectangle: " + v.o.what, FF("valid-rejected")); return; }
  RefLL r = ref_unproject(zone, northp, x, y);
  double d = ll_dist(r.lat, r.lon, v.lat, v.lon);
  ctx.worstf("reverse.pos_err_over_tol", d / TOL_M, [&] { return key; });
  if (!(d <= TOL_M) || !(std::fabs(v.lat) <= 90)) { ctx.fail(key, "(lat,lon) = (" + fx(v.lat) + "," + fx(v.lon) + ") but standard central meridian/scale/false origin give (" + fx(r.lat) + "," + fx(r.lon) + ")", FF("latlon")); return; }
  double eg = std::fabs(std::remainder(v.g - r.gamma, 360.0)), ek = std::fabs(v.k - r.k) / r.k;
  ctx.worstf("reverse.gamma_err_over_tol", eg / TOL_GAMMA_DEG, [&] { return key; });
  ctx.worstf("reverse.k_err_over_tol", ek / TOL_K_REL, [&] { return key; });
  if (!(eg <= TOL_GAMMA_DEG) || !(ek <= TOL_K_REL)) { ctx.fail(key, "gamma,k = " + fx(v.g) + "," + fx(v.k) + " but the underlying projection gives " + fx(r.gamma) + "," + fx(r.k), FF("gamma-k")); return; }
  // closure: Reverse output is legal input for Forward (same zone, same limits) and comes back
  bool near_edge = utmref::edge_distance(R, x, y) <= TOL_M;
  Fwd f = lib_forward(v.lat, v.lon, zone, mgrs, false);
  if (f.o.outcome != 0) {
    // Forward reports the hemisphere of the latitude: a "northern" point with y < 0 comes back as a southern one whose
    // rectangle is the same set shifted by 10^7 m, so acceptance must not depend on it
    if (near_edge) { ctx.count("reverse_within_10nm_of_rectangle_edge"); return; }
    ctx.fail(key, "Reverse output (" + fx(v.lat) + "," + fx(v.lon) + ") not accepted by Forward: " + f.o.what, FF("closure")); return;
  }
  double fy = f.y;
  if (zone != 0 && f.northp != northp) fy += northp ? -utmref::UTM_SHIFT : utmref::UTM_SHIFT;
  if (zone == 0 && f.northp != northp) { ctx.fail(key, "UPS hemisphere changed in the round trip", FF("roundtrip")); return; }
  double exy = std::fmax(std::fabs(f.x - x), std::fabs(fy - y));
  ctx.worstf("roundtrip.forward_of_reverse_over_tol", exy / TOL_M, [&] { return key; });
  if (f.zone != zone || !(exy <= TOL_M)) ctx.fail(key, "Forward(Reverse) = zone " + fmti(f.zone) + " (" + fx(f.x) + "," + fx(fy) + ")", FF("roundtrip"));
  if (ctx.want_sample()) ctx.sample(key + " -> " + fmt(v.lat) + " " + fmt(v.lon));
}

// ------------------------------------------------------------------ polar rings: UPS against the closed form
// Ellipsoidal polar stereographic in closed form (Snyder, Map Projections - A Working Manual, eqs. 15-9, 21-33, 21-32),
// WGS84, k0 = 0.994, evaluated in __float128; independent of Math::tauf / taupf and of PolarStereographic.
typedef __float128 Q;
struct PolarCF {
  Q a, e, e2, c, pi;
  PolarCF() { Q f = (Q)1 / (Q)298.257223563Q; a = 6378137; e2 = f * (2 - f); e = sqrtq(e2); c = sqrtq(powq(1 + e, 1 + e) * powq(1 - e, 1 - e)); pi = M_PIq; }
  // colatitude (radians) of |lat| degrees: 90 - |lat| is exact in binary128
  Q colat(double abslat) const { return ((Q)90 - (Q)abslat) * pi / 180; }
  Q rho(double abslat) const {
    Q cl = colat(abslat), sphi = cosq(cl);
    Q t = tanq(cl / 2) * powq((1 + e * sphi) / (1 - e * sphi), e / 2);
    return 2 * a * (Q)0.994Q * t / c;
  }
  Q k(double abslat) const {
    Q cl = colat(abslat);
    if (cl == 0) return (Q)0.994Q;
    Q sphi = cosq(cl), m = sinq(cl) / sqrtq(1 - e2 * sphi * sphi);
    return rho(abslat) / (a * m);
  }
};
static const PolarCF& polar() { static PolarCF p; return p; }
// scale: nothing documented beyond "round-off"; calibrated to 4 x the worst relative error observed on the unchanged tree
// over the thorough polar-ring lattice (5.6e-16, i.e. 2.5 eps; 4 x = 10 eps), which is below the 16 eps floor of the tolerance policy, so
// the floor applies
static const double TOL_K_CF_REL = 16 * 2.220446049250313e-16;

static void check_polar(Ctx& ctx, bool np, double d, double sn, double cs_) {
  Ctx::Case cs(ctx);
  const double fe = 2000000.0;
  double x = fe + d * sn, y = fe + d * cs_;
  std::string key = std::string("UPS ") + (np ? "n" : "s") + " (" + fx(x) + "," + fx(y) + ") " + fmt(d) + " m from the pole";
  mc::Fields F{{"northp", np ? "1" : "0"}, {"dist", fmt(d)}, {"x", fmt(x)}, {"y", fmt(y)}};
  auto FF = [&](const char* kind) { mc::Fields g = F; g.push_back({"kind", kind}); return g; };
  Q dx = (Q)x - fe, dy = (Q)y - fe, rin = hypotq(dx, dy);
  Rev v = lib_reverse(0, np, x, y, false);
  if (v.o.outcome != 0) { ctx.fail(key, "Reverse rejects a point next to the pole: " + v.o.what, FF("polar-rejected")); return; }
  if (!(np ? (v.lat > 0 && v.lat <= 90) : (v.lat < 0 && v.lat >= -90))) { ctx.fail(key, "latitude " + fx(v.lat) + " in the wrong hemisphere / out of range", FF("polar-lat-range")); return; }
  // (1) Reverse against the closed form, as ground distance: radial = |rho(lat) - rho|, tangential = rho * |dlon|
  double er = (double)fabsq(polar().rho(std::fabs(v.lat)) - rin);
  Q lonref = (np ? atan2q(dx, -dy) : atan2q(dx, dy)) * 180 / polar().pi;
  double dl = (double)remainderq((Q)v.lon - lonref, 360);
  double et = (double)(rin * fabsq((Q)dl) * polar().pi / 180);
  double e1 = std::hypot(er, et);
  ctx.worstf("polar.reverse_vs_closed_form_over_tol", e1 / TOL_M, [&] { return key; });
  if (!(e1 <= TOL_M)) { ctx.fail(key, "Reverse gives (" + fx(v.lat) + "," + fx(v.lon) + "): " + fmt(er * 1e9) + " nm radially, " + fmt(et * 1e9) + " nm tangentially from the closed-form polar stereographic position", FF("polar-reverse")); return; }
  // (2) scale against its closed form at the returned latitude
  double kr = (double)polar().k(std::fabs(v.lat)), ek = std::fabs(v.k - kr) / kr;
  ctx.worstf("polar.k_vs_closed_form_over_tol", ek / TOL_K_CF_REL, [&] { return key; });
  if (!(ek <= TOL_K_CF_REL)) { ctx.fail(key, "scale k = " + fx(v.k) + ", closed form " + fx(kr) + " (relative difference " + fmt(ek) + ")", FF("polar-k")); return; }
  // (3) Forward against the closed form at the returned (lat, lon), and Forward o Reverse on the ground
  Fwd f = lib_forward(v.lat, v.lon, 0, false, !np);
  if (f.o.outcome != 0) { ctx.fail(key, "Forward rejects the output of Reverse: " + f.o.what, FF("polar-closure")); return; }
  Q rf = hypotq((Q)f.x - fe, (Q)f.y - fe);
  double ef = (double)fabsq(polar().rho(std::fabs(v.lat)) - rf);
  ctx.worstf("polar.forward_vs_closed_form_over_tol", ef / TOL_M, [&] { return key; });
  if (!(ef <= TOL_M)) { ctx.fail(key, "Forward(" + fx(v.lat) + "," + fx(v.lon) + ") is " + fmt((double)rf) + " m from the pole, closed form " + fmt((double)polar().rho(std::fabs(v.lat))) + " m (" + fmt(ef * 1e9) + " nm)", FF("polar-forward")); return; }
  double ekf = std::fabs(f.k - kr) / kr;
  ctx.worstf("polar.k_vs_closed_form_over_tol", ekf / TOL_K_CF_REL, [&] { return key; });
  if (!(ekf <= TOL_K_CF_REL)) { ctx.fail(key, "Forward scale k = " + fx(f.k) + ", closed form " + fx(kr), FF("polar-k")); return; }
  double e3 = std::hypot(f.x - x, f.y - y);
  ctx.worstf("polar.forward_of_reverse_over_tol", e3 / TOL_M, [&] { return key; });
  if (f.zone != 0 || f.northp != np || !(e3 <= TOL_M)) { ctx.fail(key, "Forward(Reverse) = (" + fx(f.x) + "," + fx(f.y) + "), " + fmt(e3 * 1e9) + " nm on the ground from the starting point", FF("polar-roundtrip-fr")); return; }
  // (4) Reverse o Forward on the ground
  Rev w = lib_reverse(0, np, f.x, f.y, false);
  if (w.o.outcome != 0) { ctx.fail(key, "Reverse rejects the output of Forward: " + w.o.what, FF("polar-closure")); return; }
  double r4 = (double)fabsq(polar().rho(std::fabs(w.lat)) - polar().rho(std::fabs(v.lat)));
  double t4 = (double)(rin * fabsq(remainderq((Q)w.lon - (Q)v.lon, 360)) * polar().pi / 180);
  double e4 = std::hypot(r4, t4);
  ctx.worstf("polar.reverse_of_forward_over_tol", e4 / TOL_M, [&] { return key; });
  if (!(e4 <= TOL_M)) ctx.fail(key, "Reverse(Forward(" + fx(v.lat) + "," + fx(v.lon) + ")) = (" + fx(w.lat) + "," + fx(w.lon) + "), " + fmt(e4 * 1e9) + " nm on the ground away", FF("polar-roundtrip-rf"));
  if (ctx.want_sample()) ctx.sample(key + " -> " + fmt(v.lat) + " " + fmt(v.lon) + " k " + fmt(v.k));
}

// ------------------------------------------------------------------ (d) Transfer
static void check_transfer(Ctx& ctx, int zi, bool ni, double x, double y, int zo, bool no) {
  Ctx::Case cs(ctx);
  std::string key = "Transfer(" + fmti(zi) + (ni ? "n," : "s,") + fx(x) + "," + fx(y) + " -> " + zs(zo) + (no ? "n" : "s") + ")";
  mc::Fields F{{"zonein", fmti(zi)}, {"zoneout", zs(zo)}, {"northpin", ni ? "1" : "0"}, {"northpout", no ? "1" : "0"}, {"x", fmt(x)}, {"y", fmt(y)}};
  auto FF = [&](const char* kind) { mc::Fields g = F; g.push_back({"kind", kind}); return g; };
  Tr t = lib_transfer(zi, ni, x, y, zo, no, true);
  if (t.o.outcome >= 2) { ctx.fail(key, t.o.what, FF("crash")); return; }
  // reference = the documented meaning: Reverse, then Forward into the requested zone (MATCH = keep the input zone),
  // then move the northing to the requested hemisphere; UPS cannot change hemisphere
  bool ethrow = false; std::string why; int ezone = 0; double ex = 0, ey = 0;
  bool samezone = zi == zo, either = false;
  do {
    if (zo < -4 || zo > 60) { ethrow = true; why = "zoneout out of range"; break; }
    if (!(zi == utmref::INVALID || (zi >= 0 && zi <= 60))) { ethrow = true; why = "zonein out of range"; break; }
    Rev v = lib_reverse(zi, ni, x, y, false);
    if (v.o.outcome != 0) { ethrow = true; why = "input outside its allowed range"; break; }
    int sz = zo == utmref::MATCH ? zi : zo;
    Fwd f = lib_forward(v.lat, v.lon, sz, false, ni);
    if (f.o.outcome != 0) {
      ethrow = true; why = "output outside its allowed range";
      // documented exemption: a point within 5 nm of the edge of the allowed range may or may not survive the round trip
      utmref::Zone rz = utmref::standard_zone(v.lat, v.lon, sz);
      if (!rz.throws && rz.zone >= 0 && std::fabs(v.lat) <= 90) {
        bool np = !(v.lat < 0);
        RefXY r = ref_project(rz.zone, np, v.lat, v.lon);
        utmref::Rect R = utmref::rectangle(rz.zone != 0, np, false);
        if (std::isfinite(r.x) && std::isfinite(r.y) && utmref::edge_distance(R, r.x, r.y) <= TOL_M && (rz.zone != 0 || std::fabs(v.lat) >= 70)) either = true;
      }
      break;
    }
    ezone = f.zone; ex = f.x; ey = f.y;
    if (ezone == utmref::INVALID) break;
    if (f.northp != no) {
      if (ezone == utmref::UPS) { ethrow = true; why = "UPS hemisphere change"; break; }
      ey += no ? -utmref::UTM_SHIFT : utmref::UTM_SHIFT;
    }
  } while (false);
  ctx.sig(t.o.outcome * 3 + (ethrow ? 1 : 0) + (samezone ? 7 : 0));
  if (zi == utmref::INVALID || std::isnan(x) || std::isnan(y)) {
    // INVALID / NaN input: the documentation only says zonein may be INVALID; outcome recorded, not compared
    ctx.count("transfer_invalid_input_doc_silent");
    if (t.o.outcome == 1 && !tr_untouched(t)) ctx.fail(key, "outputs modified although the call threw", FF("touched"));
    return;
  }
  if (either) { ctx.count("transfer_within_10nm_of_rectangle_edge"); if (t.o.outcome == 1 && !tr_untouched(t)) ctx.fail(key, "outputs modified although the call threw", FF("touched")); return; }
  if (ethrow) {
    if (t.o.outcome != 1) {
      // distinguish the input-not-validated class (zonein == zoneout short cut)
      const char* kind = samezone ? "samezone-input-unchecked" : "invalid-accepted";
      ctx.fail(key, "no exception although the documentation requires one (" + why + "); got zone " + fmti(t.zone) + " (" + fx(t.x) + "," + fx(t.y) + ")", FF(kind));
    } else if (!tr_untouched(t)) ctx.fail(key, "outputs modified although the call threw", FF("touched"));
    return;
  }
  if (t.o.outcome != 0) { ctx.fail(key, "rejected a legal transfer: " + t.o.what, FF("valid-rejected")); return; }
  if (ezone == utmref::INVALID) {
    if (t.zone != utmref::INVALID || !std::isnan(t.x) || !std::isnan(t.y)) ctx.fail(key, "zoneout INVALID does not give zone INVALID and NaN", FF("invalid-zone"));
    return;
  }
  double exy = std::fmax(std::fabs(t.x - ex), std::fabs(t.y - ey));
  ctx.worstf("transfer.err_over_tol", exy / TOL_M, [&] { return key; });
  if (t.zone != ezone || !(exy <= TOL_M))
    ctx.fail(key, "zone " + fmti(t.zone) + " (" + fx(t.x) + "," + fx(t.y) + ") but converting through geographic coordinates gives zone " + fmti(ezone) + " (" + fx(ex) + "," + fx(ey) + ")", FF("mismatch"));
  if (zo >= 0 && t.zone != zo) ctx.fail(key, "returned zone differs from the non-negative zoneout", FF("zone"));
  if (ctx.want_sample()) ctx.sample(key + " -> zone " + fmti(t.zone) + " " + fmt(t.x) + " " + fmt(t.y));
}

// ------------------------------------------------------------------ (e) zone strings
static void check_zone_string(Ctx& ctx, const std::string& s) {
  Ctx::Case cs(ctx);
  struct LazyKey { const std::string& s; operator std::string() const { return "DecodeZone('" + printable(s) + "')"; } } key{s};   // built only on failure
  auto FF = [&](const char* kind) { return mc::Fields{{"string", printable(s)}, {"len", fmti((long long)s.size())}, {"kind", kind}}; };
  utmref::ZoneStr e = utmref::decode_zone(s);
  for (int init = 0; init < 2; ++init) {
    int zone = ISENT; bool northp = init;
    Out o = guard([&] { UTMUPS::DecodeZone(s, zone, northp); }, true);
    ctx.sig(o.outcome * 2 + (e.ok ? 1 : 0));
    if (o.outcome >= 2) { ctx.fail(key, o.what, FF("crash")); return; }
    if (!e.ok) {
      if (o.outcome == 0) { ctx.fail(key, "malformed zone string accepted: zone " + fmti(zone) + (northp ? " north" : " south"), FF("invalid-accepted")); return; }
      if (zone != ISENT || northp != bool(init)) { ctx.fail(key, "outputs modified although the call threw", FF("touched")); return; }
      continue;
    }
    if (o.outcome != 0) { ctx.fail(key, "legal zone string rejected: " + o.what, FF("valid-rejected")); return; }
    if (zone != e.zone || (e.zone != utmref::INVALID && northp != e.northp)) { ctx.fail(key, "decoded to zone " + fmti(zone) + (northp ? " north" : " south") + ", grammar says zone " + fmti(e.zone) + (e.northp ? " north" : " south"), FF("value")); return; }
    if (init == 0) {
      // EncodeZone o DecodeZone is a fixed point: both spellings decode to the same (zone, northp)
      for (int ab = 0; ab < 2; ++ab) {
        std::string enc = "<untouched>";
        Out oe = guard([&] { enc = UTMUPS::EncodeZone(zone, northp, ab); }, true);
        int z2 = ISENT; bool n2 = !northp;
        Out od = oe.outcome == 0 ? guard([&] { UTMUPS::DecodeZone(enc, z2, n2); }, true) : oe;
        if (oe.outcome != 0 || od.outcome != 0 || z2 != zone || (zone != utmref::INVALID && n2 != northp))
          { ctx.fail(key, "EncodeZone/DecodeZone round trip broken: '" + printable(enc) + "'", FF("fixed-point")); return; }
      }
    }
  }
  if (ctx.want_sample()) ctx.sample(std::string(key) + (e.ok ? " legal" : " malformed"));
}
// all strings of length <= L over al; unit = first two characters
static void enum_strings(Ctx& ctx, const std::string& al, int L) {
  int n = (int)al.size();
  if (ctx.take()) { check_zone_string(ctx, ""); for (int i = 0; i < n; ++i) check_zone_string(ctx, std::string(1, al[i])); }
  if (L < 2) return;
  for (int i = 0; i < n; ++i) for (int j = 0; j < n; ++j) {
    if (!ctx.take()) continue;
    std::string pre; pre += al[i]; pre += al[j];
    check_zone_string(ctx, pre);
    std::vector<int> idx; std::string s;
    for (int len = 1; len <= L - 2; ++len) {
      idx.assign(len, 0); s = pre; s.append(len, al[0]);
      while (true) {
        check_zone_string(ctx, s);
        int k = len - 1; while (k >= 0 && ++idx[k] == n) { idx[k] = 0; s[2 + k] = al[0]; --k; }
        if (k < 0) break;
        s[2 + k] = al[idx[k]];
      }
    }
  }
}
// all strings of length exactly L over al; unit = first two characters
static void enum_strings_exact(Ctx& ctx, const std::string& al, int L) {
  int n = (int)al.size();
  for (int i = 0; i < n; ++i) for (int j = 0; j < n; ++j) {
    if (!ctx.take()) continue;
    int len = L - 2; std::vector<int> idx(len, 0); std::string s; s += al[i]; s += al[j]; s.append(len, al[0]);
    while (true) {
      check_zone_string(ctx, s);
      int k = len - 1; while (k >= 0 && ++idx[k] == n) { idx[k] = 0; s[2 + k] = al[0]; --k; }
      if (k < 0) break;
      s[2 + k] = al[idx[k]];
    }
  }
}

int main(int argc, char** argv) {
  Ctx ctx(argc, argv);
  const bool T = ctx.thorough();
  const double inf = INFINITY, nan = NAN;
  ctx.note("projection values (x, y, gamma, k) are compared with separately constructed TransverseMercator / PolarStereographic objects "
           "(a = 6378137, f = 1/298.257223563, k0 = 0.9996 / 0.994, central meridian 6*zone-183, false origins 500 km, 0 / 10000 km, 2000 km); "
           "those classes are decided by C06 / C11, not here");

  // ================================================================= (a) StandardZone
  {
    ctx.sub("standard-zone");
    std::vector<double> lats, lons;
    for (int k = -90; k <= 90; ++k) lats.push_back(k);
    { std::vector<double> e; for (int b = 0; b <= 19; ++b) e.push_back(-80 + 8 * b); e.push_back(84);
      for (double x : e) { lats.push_back(std::nextafter(x, INFINITY)); lats.push_back(std::nextafter(x, -INFINITY)); } }
    for (double x : {-0.0, 5e-324, -5e-324, 89.99999999999999, -89.99999999999999}) lats.push_back(x);
    uniq(lats);
    std::vector<double> base;
    for (int k = -180; k <= 180; ++k) base.push_back(k);
    for (int k = -180; k <= 180; k += 3) { base.push_back(std::nextafter((double)k, INFINITY)); base.push_back(std::nextafter((double)k, -INFINITY)); }
    for (double x : base) { lons.push_back(x); lons.push_back(x + 360); lons.push_back(x - 720); }    // x + 360 and x - 720 are exact or rounded: either way a real longitude
    for (double x : {-0.0, 5e-324, -5e-324, 1e-300, -1e-300, 359.99999999999994, 360.00000000000006, 1e17, -1e17, 1.7976931348623157e308, 539.9999999999999, 540.0000000000001, 2.9999999999999996 + 720}) lons.push_back(x);
    uniq(lons);
    ctx.bound("standard-zone.lat", fmti((long long)lats.size()) + " latitudes: every integer degree in [-90,90], every band edge -80+8k and 84 with +-1 ulp, +-0, denormals");
    ctx.bound("standard-zone.lon", fmti((long long)lons.size()) + " longitudes: every integer degree in [-180,180], every multiple of 3 +-1 ulp, all of these +360 and -720, tiny/huge values");
    ctx.bound("standard-zone.setzone", "every integer in [-6, 62]");
    for (double lat : lats) {
      if (!ctx.take()) continue;
      for (double lon : lons) {
        for (int sz = -6; sz <= 62; ++sz) {
          Ctx::Case cs(ctx);
          utmref::Zone e = utmref::standard_zone(lat, lon, sz);
          int got = ISENT; Out o = guard([&] { got = UTMUPS::StandardZone(lat, lon, sz); }, false);
          ctx.sig(o.outcome * 100 + (o.outcome == 0 ? got + 5 : 0));
          if (o.outcome >= 2 || (e.throws ? o.outcome != 1 : (o.outcome != 0 || got != e.zone))) {
            ctx.fail("StandardZone(" + fx(lat) + "," + fx(lon) + "," + zs(sz) + ")",
                     e.throws ? "illegal setzone not rejected with GeographicErr (returned " + fmti(got) + ")"
                              : (o.outcome ? "threw: " + o.what : "returned " + fmti(got) + ", the zone rules give " + fmti(e.zone)),
                     {{"kind", e.throws ? "setzone-accepted" : "zone"}, {"setzone", zs(sz)}, {"lat", fmt(lat)}, {"lon_normalised", fmt(mc::lon_norm(lon))}});
          }
        }
      }
      if (ctx.want_sample()) ctx.sample("StandardZone(" + fmt(lat) + ", 4.5) = " + fmti(UTMUPS::StandardZone(lat, 4.5)));
    }
    // special values (E4)
    ctx.sub("standard-zone-special");
    if (ctx.take()) {
      for (double lat : {nan, 0.0, 60.0, 75.0, -85.0, 90.0})
        for (double lon : {nan, inf, -inf, 0.0, 5.0})
          for (int sz : {-6, -5, -4, -3, -2, -1, 0, 1, 31, 60, 61, INT_MAX, INT_MIN}) {
            Ctx::Case cs(ctx);
            int got = ISENT; Out o = guard([&] { got = UTMUPS::StandardZone(lat, lon, sz); }, true);
            std::string key = "StandardZone(" + fx(lat) + "," + fx(lon) + "," + zs(sz) + ")";
            mc::Fields F{{"setzone", zs(sz)}, {"lat", fmt(lat)}, {"lon", fmt(lon)}};
            auto FF = [&](const char* kind) { mc::Fields g = F; g.push_back({"kind", kind}); return g; };
            ctx.sig(o.outcome * 100 + (std::isnan(lat) ? 1 : 0) + (std::isnan(lon) ? 2 : 0) + (std::isinf(lon) ? 4 : 0));
            if (o.outcome >= 2) { ctx.fail(key, o.what, FF("crash")); continue; }
            if (sz < -4 || sz > 60) { if (o.outcome != 1) ctx.fail(key, "illegal setzone not rejected", FF("setzone-accepted")); continue; }
            if (std::isinf(lon) && !std::isnan(lat) && sz < 0 && sz != utmref::INVALID) {
              // an infinite longitude has no zone: an exception or INVALID are both reasonable (documentation silent);
              // any other return value is a silently wrong zone number.  Latitudes outside [-80,84) with setzone
              // STANDARD/MATCH do not need the longitude at all (UPS).
              bool needs_lon = sz == utmref::UTM || (lat >= -80 && lat < 84);
              if (!needs_lon) { if (!(o.outcome == 1 || (o.outcome == 0 && (got == utmref::UPS || got == utmref::INVALID)))) ctx.fail(key, "returned " + fmti(got), FF("inf-lon")); continue; }
              if (!(o.outcome == 1 || (o.outcome == 0 && got == utmref::INVALID))) ctx.fail(key, "infinite longitude gives zone " + fmti(got) + ", neither an exception nor INVALID", FF("inf-lon"));
              continue;
            }
            utmref::Zone e = utmref::standard_zone(lat, std::isinf(lon) ? 0.0 : lon, sz);
            if (o.outcome != 0 || got != e.zone) ctx.fail(key, o.outcome ? "threw: " + o.what : "returned " + fmti(got) + ", documented " + fmti(e.zone), FF("nan"));
          }
    }
  }

  // ================================================================= (b) Forward / Reverse lattice
  {
    ctx.sub("forward-lattice");
    std::vector<int> zones;
    if (T) for (int z = 1; z <= 60; ++z) zones.push_back(z); else zones = {1, 30, 31, 32, 33, 37, 60};
    std::vector<double> lats;
    if (T) for (int k = -180; k <= 180; ++k) lats.push_back(k * 0.5); else for (int k = -90; k <= 90; k += 5) lats.push_back(k);
    if (T) for (int b = 0; b <= 19; ++b) { double x = -80 + 8 * b; lats.push_back(std::nextafter(x, INFINITY)); lats.push_back(std::nextafter(x, -INFINITY)); }
    { std::vector<double> e{-80, 84, -84, 80, 56, 64, 72, 70, -70};
      for (double x : e) { lats.push_back(x); lats.push_back(std::nextafter(x, INFINITY)); lats.push_back(std::nextafter(x, -INFINITY)); } }
    for (double x : {-0.0, 1e-9, -1e-9, 5e-324, -5e-324, 89.999999, -89.999999, 89.99999999999999, -89.99999999999999, 83.5, -79.5, 60.0, 75.0, 78.0, 82.7, -81.2}) lats.push_back(x);
    uniq(lats);
    std::vector<double> dl{0, 1, -1, 3, -3, 3 + 1e-9, 3 - 1e-9, -3 + 1e-9, -3 - 1e-9, 4.4, -4.4, 6, -6, 9, -9, 40, -40, 60, -60, 60.001, -60.001, 90, -90, 179, 180};
    ctx.bound("forward-lattice.zones", T ? "all 60 zones" : "zones 1, 30, 31, 32, 33, 37, 60");
    ctx.bound("forward-lattice.lat", fmti((long long)lats.size()) + " latitudes: every " + (T ? "half degree" : "5 degrees") + " in [-90,90]; " + (T ? "every band edge -80+8k, " : "") + "+-80, +-84, 56, 64, 72, +-70 each +-1 ulp; +-0, denormals, near-pole values");
    ctx.bound("forward-lattice.dlon", fmti((long long)dl.size()) + " offsets from the zone's central meridian (0, +-1, +-3, +-3+-1e-9, +-4.4, +-6, +-9, +-40, +-60, +-60.001, +-90, 179, 180), the zone-edge ones also +360 and -720");
    ctx.bound("forward-lattice.setzone", T ? "every setzone in [-5, 61] (all pseudo-zones, UPS, all 60 explicit zones, two illegal values); mgrslimits in {false, true}" : "STANDARD, UTM, MATCH, INVALID, UPS (0), zone, zone-1, zone+1 (cyclic), 61, -5; mgrslimits in {false, true}");
    for (int z : zones) for (double lat : lats) {
      if (!ctx.take()) continue;
      double lon0 = utmref::central_meridian(z);
      std::vector<double> lons;
      for (double d : dl) { double l = lon0 + d; lons.push_back(l); if (std::fabs(d) <= 3.5) { lons.push_back(l + 360); lons.push_back(l - 720); } }
      int zm = z == 1 ? 60 : z - 1, zp = z == 60 ? 1 : z + 1;
      std::vector<int> szs{-1, -2, -3, -4, 0, z, zm, zp, 61, -5};
      if (T) { szs.clear(); for (int q = -5; q <= 61; ++q) szs.push_back(q); }
      for (double lon : lons) for (int sz : szs) for (int mg = 0; mg < 2; ++mg)
        check_forward(ctx, lat, lon, sz, mg, "");
    }
  }

  // ================================================================= (c) acceptance rectangles of Reverse
  {
    ctx.sub("reverse-rectangles");
    ctx.bound("reverse-rectangles", "zone in {0,1,31,60} (+ illegal -5,-3,-2,-1,61,INT_MIN,INT_MAX and INVALID) x hemisphere x mgrslimits x (x,y) in {every documented limit, limit+-100 km, each +-1 ulp, interior points, NaN}^2");
    const double km = 1000;
    for (int zone : {0, 1, 31, 60, -4, -5, -3, -2, -1, 61, INT_MIN, INT_MAX}) for (int np = 0; np < 2; ++np) for (int mg = 0; mg < 2; ++mg) {
      if (!ctx.take()) continue;
      bool utm = zone != 0;
      std::vector<double> xs, ys;
      auto lim = [&](std::vector<double>& v, std::initializer_list<double> L) { for (double l : L) { v.push_back(l * km); v.push_back((l - 100) * km); v.push_back((l + 100) * km); } };
      if (utm) {
        lim(xs, {0, 100, 900, 1000}); xs.push_back(500 * km); xs.push_back(166021.4);
        if (np) { lim(ys, {-9100, -9000, 9500, 9600}); ys.push_back(0); ys.push_back(5000 * km); ys.push_back(-5000 * km); }
        else { lim(ys, {900, 1000, 19500, 19600}); ys.push_back(10000 * km); ys.push_back(5000 * km); ys.push_back(15000 * km); }
      } else if (np) { lim(xs, {1200, 1300, 2700, 2800}); xs.push_back(2000 * km); xs.push_back(2000 * km + 1); ys = xs; }
      else { lim(xs, {700, 800, 3200, 3300}); xs.push_back(2000 * km); xs.push_back(2000 * km - 1); ys = xs; }
      xs = with_ulps(xs); ys = with_ulps(ys); uniq(xs); uniq(ys);
      xs.push_back(nan); ys.push_back(nan);
      if (zone < 0 || zone > 60) { xs = {500 * km, nan, 1e300}; ys = {5000 * km, nan}; }
      for (double x : xs) for (double y : ys) check_reverse(ctx, zone, np, x, y, mg);
    }
    // a finer sweep through the interior (closure and agreement with the standard parameters)
    ctx.sub("reverse-lattice");
    ctx.bound("reverse-lattice", T ? "zones 0 (UPS), 1, 31, 32, 60: x and y every 10 km over the whole legal rectangle; the other 56 zones: x every 50 km, y every 200 km; both hemispheres, both limits"
                                    : "zone in {1,31,32,60}: x every 100 km in [0,1000], y every 400 km over the whole hemisphere range; zone 0: x,y every 100 km; both hemispheres, both limits");
    for (int zone = 0; zone <= 60; ++zone) for (int np = 0; np < 2; ++np) {
      bool rep = zone == 0 || zone == 1 || zone == 31 || zone == 32 || zone == 60;
      if (!T && !rep) continue;
      int xstep = T ? (rep ? 10 : 50) : 100, ystep = T ? (rep ? 10 : 200) : (zone ? 400 : 100);
      utmref::Rect R = utmref::rectangle(zone != 0, np, false);
      for (double x = R.xmin; x <= R.xmax; x += xstep * km) {
        if (!ctx.take()) continue;
        for (double y = R.ymin; y <= R.ymax; y += ystep * km) for (int mg = 0; mg < 2; ++mg) check_reverse(ctx, zone, np, x, y, mg);
      }
    }
  }

  // ================================================================= polar rings (UPS close to the poles, ground distances)
  {
    ctx.sub("polar-rings");
    std::vector<double> ds{1e-3, 1, 100, 1000, 2000, 3000, 3500, 4000, 4500, 5000, 5250, 5500, 6000, 8000, 10000, 30000};
    int ndir = T ? 24 : 8;
    if (T) { for (int k = 1; k <= 48; ++k) ds.push_back(250.0 * k); for (double d : {1e-6, 1e-2, 10.0, 20000.0, 50000.0, 100000.0, 200000.0, 400000.0, 800000.0}) ds.push_back(d); uniq(ds); }
    ctx.bound("polar-rings", std::string("UPS, both hemispheres: ") + fmti((long long)ds.size()) + " distances from the pole (1 mm, 1 m, 100 m, 1, 2, 3, 3.5, 4, 4.5, 5, 5.25, 5.5, 6, 8, 10, 30 km" + (T ? "; every 250 m to 12 km; 1 um .. 800 km" : "") + ") x " + fmti(ndir) + " directions: Reverse, Forward, scale against the closed-form polar stereographic projection (binary128) and both round trips as ground distance, 10 nm");
    for (int np = 0; np < 2; ++np) for (double d : ds) {
      if (!ctx.take()) continue;
      for (int i = 0; i < ndir; ++i) {
        int deg = i * (360 / ndir);
        double sn = (double)sinq((Q)deg * M_PIq / 180), cn = (double)cosq((Q)deg * M_PIq / 180);
        if (deg % 90 == 0) { sn = deg == 90 ? 1 : deg == 270 ? -1 : 0; cn = deg == 0 ? 1 : deg == 180 ? -1 : 0; }
        check_polar(ctx, np, d, sn, cn);
      }
    }
  }

  // ================================================================= (c2) acceptance of Forward at the rectangle edges
  {
    ctx.sub("forward-edges");
    ctx.bound("forward-edges", "for every edge of every rectangle reachable by Forward (UTM zones 1,31,60 and UPS, both hemispheres, both limits): points at the edge -+ {0, 1e-3, 1, 1000} m, at 9 positions along the edge, mapped to (lat,lon) with the reference projection and passed to Forward with that zone");
    const double km = 1000;
    for (int zone : {0, 1, 31, 60}) for (int np = 0; np < 2; ++np) for (int mg = 0; mg < 2; ++mg) {
      if (!ctx.take()) continue;
      bool utm = zone != 0;
      utmref::Rect R = utmref::rectangle(utm, np, mg);
      // Forward only produces the hemisphere of the latitude: northern y >= 0, southern y <= 10^7
      double ylo = R.ymin, yhi = R.ymax;
      if (utm) { if (np) ylo = 0; else yhi = 10000 * km; }
      for (int edge = 0; edge < 4; ++edge) for (int t = 0; t <= 8; ++t) for (double d : {0.0, 1e-3, -1e-3, 1.0, -1.0, 1000.0, -1000.0}) {
        double x, y, s = t / 8.0;
        if (edge == 0) { x = R.xmin + d; y = ylo + s * (yhi - ylo); }
        else if (edge == 1) { x = R.xmax + d; y = ylo + s * (yhi - ylo); }
        else if (edge == 2) { y = R.ymin + d; x = R.xmin + s * (R.xmax - R.xmin); if (utm && np) continue; }
        else { y = R.ymax + d; x = R.xmin + s * (R.xmax - R.xmin); if (utm && !np) continue; }
        RefLL r = ref_unproject(zone, np, x, y);
        if (!(std::fabs(r.lat) <= 90) || !std::isfinite(r.lon)) continue;
        if (utm && (np ? r.lat < 0 : r.lat >= 0)) continue;          // other hemisphere: not this rectangle
        if (!utm && (np ? r.lat < 0 : r.lat > 0)) continue;
        check_forward(ctx, r.lat, r.lon, zone, mg, "edge-");
      }
    }
  }

  // ================================================================= (d) Transfer
  {
    ctx.sub("transfer");
    ctx.bound("transfer", T ? "ALL pairs zonein in [-4 (INVALID), 61] minus the pseudo-zones -3,-2 (+ -1) x zoneout in [-5, 61] x 2 x 2 hemispheres x a grid of 130 (UTM) / 64 (UPS) in-range, edge and out-of-range (x,y)"
                             : "zonein in {0,1,31,32,60,INVALID,61,-1} x zoneout in {zonein, zonein+-1, 0, MATCH, STANDARD, UTM, INVALID, 61, -5} x 2 x 2 hemispheres x a grid of in-range, edge and out-of-range (x,y)");
    const double km = 1000;
    std::vector<int> zis{0, 1, 31, 32, 60, -4, 61, -1};
    if (T) { zis.clear(); for (int q = 0; q <= 61; ++q) zis.push_back(q); zis.push_back(-4); zis.push_back(-1); }
    for (int zi : zis) for (int ni = 0; ni < 2; ++ni) {
      std::vector<int> zos{zi, zi == 60 ? 1 : zi + 1, zi <= 1 ? 60 : zi - 1, 0, -3, -1, -2, -4, 61, -5};
      if (T) { zos.clear(); for (int q = -5; q <= 61; ++q) zos.push_back(q); }
      for (int zo : zos) for (int no = 0; no < 2; ++no) {
        if (!ctx.take()) continue;
        std::vector<double> xs, ys;
        if (zi != 0) {
          xs = {0, 100 * km, 350 * km, 500 * km, 650 * km, 833978.6, 1000 * km, -1.0, 1100 * km, nan};
          if (ni) ys = {-9100 * km, -5000 * km, -1.0, 0, 1.0, 3000 * km, 6000 * km, 8000 * km, 9000 * km, 9350 * km, 9600 * km, 9600 * km + 1, -9100 * km - 1};
          else ys = {900 * km, 1100 * km, 2000 * km, 5000 * km, 9999999.0, 10000 * km, 10000001.0, 13000 * km, 18000 * km, 19600 * km, 19600 * km + 1, 900 * km - 1};
        } else if (ni) { xs = {1200 * km, 1500 * km, 2000 * km, 2000 * km + 1, 2400 * km, 2800 * km, 2800 * km + 1, nan}; ys = xs; ys.pop_back(); ys.push_back(1200 * km - 1); }
        else { xs = {700 * km, 1000 * km, 2000 * km, 2000 * km + 1, 2900 * km, 3300 * km, 3300 * km + 1, nan}; ys = xs; ys.pop_back(); ys.push_back(700 * km - 1); }
        for (double x : xs) for (double y : ys) check_transfer(ctx, zi, ni, x, y, zo, no);
      }
    }
  }

  // ================================================================= (e) zone strings
  {
    ctx.sub("zone-strings");
    std::string al = "01369nsNSorthuiv+- ";
    int L = T ? 7 : 4;
    ctx.bound("zone-strings", "all strings of length <= " + fmti(L) + " over the 19 characters '" + al + "' (19^7 = 8.9e8 at length 7; the longest legal zone string has 7 characters)" + (T ? "; all strings of length 8 over the 8 characters '06nsorth' (any string longer than 7 characters must be rejected)" : "") + "; all strings of length <= 3 over the 19 + NUL, tab, 0xff, '.', 'e', 'x'; digits{0..3} x 60 words");
    enum_strings(ctx, al, L);
    if (T) { ctx.sub("zone-strings-len8"); enum_strings_exact(ctx, "06nsorth", 8); }
    ctx.sub("zone-strings-special");
    { std::string al2 = al; al2 += '\0'; al2 += '\t'; al2 += '\xff'; al2 += '.'; al2 += 'e'; al2 += 'x'; enum_strings(ctx, al2, 3); }
    ctx.sub("zone-words");
    const char* words[] = {"n", "s", "N", "S", "north", "south", "North", "SOUTH", "NORTH", "nOrTh", "nort", "sout", "norths", "southh", "nor", "sou", "no", "so", "northern", "souht", "nroth",
                           "inv", "INV", "Inv", "invalid", "INVALID", "InVaLiD", "inva", "inval", "invali", "invalidd", "in", "i", "invalid ", " inv", "nan", "e", "w", "east", "P", "X", "C", "M", "", " ", "n ", " n", "s\n", "\x01NUL",
                           "-n", "+s", ".n", "0n", "north0", "north1", "n1", "1", "60", "ups", "utm"};
    std::vector<std::string> nums{""};
    for (int a = 0; a < 10; ++a) { nums.push_back(fmti(a)); for (int b = 0; b < 10; ++b) { nums.push_back(fmti(a) + fmti(b)); } }
    for (const char* z3 : {"000", "001", "010", "038", "060", "061", "100", "600", "999", "0001", "0060", "00000060", "+1", "-1", "+01", " 1", "1 ", "1.", "1e1", "0x1", "1.0"}) nums.push_back(z3);
    for (const std::string& num : nums) {
      if (!ctx.take()) continue;
      for (const char* w : words) { std::string s = num + (std::string(w) == "\x01NUL" ? std::string("n\0x", 3) : std::string(w)); check_zone_string(ctx, s); }
    }
    // EncodeZone over all zones
    ctx.sub("encode-zone");
    ctx.bound("encode-zone", "zone in [-10, 70] and INT_MIN, INT_MAX x northp x abbrev");
    if (ctx.take()) {
      std::vector<int> zs_; for (int z = -10; z <= 70; ++z) zs_.push_back(z); zs_.push_back(INT_MIN); zs_.push_back(INT_MAX);
      for (int z : zs_) for (int np = 0; np < 2; ++np) for (int ab = 0; ab < 2; ++ab) {
        Ctx::Case cs(ctx);
        std::string key = "EncodeZone(" + fmti(z) + "," + fmti(np) + "," + fmti(ab) + ")";
        mc::Fields F{{"zone", fmti(z)}};
        auto FF = [&](const char* kind) { mc::Fields g = F; g.push_back({"kind", kind}); return g; };
        std::string enc = "<untouched>";
        Out o = guard([&] { enc = UTMUPS::EncodeZone(z, np, ab); }, true);
        utmref::ZoneEnc e = utmref::encode_zone(z, np, ab);
        ctx.sig(o.outcome + (z == 0 ? 10 : 0) + (z == -4 ? 20 : 0));
        if (o.outcome >= 2) { ctx.fail(key, o.what, FF("crash")); continue; }
        if (e.throws) { if (o.outcome != 1) ctx.fail(key, "illegal zone encoded as '" + printable(enc) + "'", FF("invalid-accepted")); continue; }
        if (o.outcome != 0 || enc != e.s) { ctx.fail(key, o.outcome ? "threw: " + o.what : "gives '" + printable(enc) + "', documented '" + e.s + "'", FF("encode")); continue; }
        int z2 = ISENT; bool n2 = !np;
        Out od = guard([&] { UTMUPS::DecodeZone(enc, z2, n2); }, true);
        if (od.outcome != 0 || z2 != z || (z != utmref::INVALID && n2 != bool(np))) ctx.fail(key, "'" + enc + "' does not decode back", FF("roundtrip"));
      }
    }
  }

  // ================================================================= (f) EPSG
  {
    ctx.sub("epsg");
    ctx.bound("epsg", "DecodeEPSG for every int in [-10, 40000], INT_MIN, INT_MAX; EncodeEPSG for zone in [-10,70], INT_MIN, INT_MAX x northp");
    for (int blk = 0; blk < 41; ++blk) {
      if (!ctx.take()) continue;
      for (int e = blk * 1000 - 10; e < blk * 1000 + 990 && e <= 40000; ++e) {
        Ctx::Case cs(ctx);
        for (int init = 0; init < 2; ++init) {
          int z = ISENT; bool n = init; UTMUPS::DecodeEPSG(e, z, n);
          int ez; bool en; utmref::decode_epsg(e, ez, en);
          ctx.sig(ez + 5);
          if (z != ez || (ez != utmref::INVALID && n != en)) ctx.fail("DecodeEPSG(" + fmti(e) + ")", "gives zone " + fmti(z) + (n ? "n" : "s") + ", EPSG registry says " + fmti(ez) + (en ? "n" : "s"), {{"kind", "decode-epsg"}, {"epsg", fmti(e)}});
          else if (ez != utmref::INVALID && UTMUPS::EncodeEPSG(z, n) != e) ctx.fail("EncodeEPSG(DecodeEPSG(" + fmti(e) + "))", "round trip gives " + fmti(UTMUPS::EncodeEPSG(z, n)), {{"kind", "epsg-roundtrip"}, {"epsg", fmti(e)}});
        }
      }
    }
    if (ctx.take()) {
      for (int e : {INT_MIN, INT_MAX, INT_MIN + 32661, 32661 + 65536, -32661}) {
        Ctx::Case cs(ctx); int z = ISENT; bool n = true; UTMUPS::DecodeEPSG(e, z, n);
        if (z != utmref::INVALID) ctx.fail("DecodeEPSG(" + fmti(e) + ")", "gives zone " + fmti(z), {{"kind", "decode-epsg"}, {"epsg", fmti(e)}});
      }
      std::vector<int> zs_; for (int z = -10; z <= 70; ++z) zs_.push_back(z); zs_.push_back(INT_MIN); zs_.push_back(INT_MAX);
      for (int z : zs_) for (int np = 0; np < 2; ++np) {
        Ctx::Case cs(ctx);
        int got = UTMUPS::EncodeEPSG(z, np), want = utmref::encode_epsg(z, np);
        ctx.sig(want < 0 ? 1 : 2);
        if (got != want) ctx.fail("EncodeEPSG(" + fmti(z) + "," + fmti(np) + ")", "gives " + fmti(got) + ", EPSG registry says " + fmti(want), {{"kind", "encode-epsg"}, {"zone", fmti(z)}});
        else if (want >= 0) { int z2; bool n2; UTMUPS::DecodeEPSG(got, z2, n2); if (z2 != z || n2 != bool(np)) ctx.fail("DecodeEPSG(EncodeEPSG(" + fmti(z) + "))", "round trip broken", {{"kind", "epsg-roundtrip"}, {"zone", fmti(z)}}); }
      }
    }
  }

  // ================================================================= (g) special values through Forward (E4)
  {
    ctx.sub("forward-special");
    ctx.bound("forward-special", "lat in {NaN, +-inf, +-90, +-(90+1ulp), +-91, +-0, 1e308} x lon in {NaN, +-inf, 0, 1e308, -1e308, 5e-324} x setzone in {-5..1, 31, 60, 61} x mgrslimits");
    std::vector<double> lats{nan, inf, -inf, 90.0, -90.0, std::nextafter(90.0, inf), std::nextafter(-90.0, -inf), 91.0, -91.0, 0.0, -0.0, 1e308, 45.0, -85.0};
    std::vector<double> lons{nan, inf, -inf, 0.0, 1e308, -1e308, 5e-324, 7.0};
    for (double lat : lats) {
      if (!ctx.take()) continue;
      for (double lon : lons) for (int sz : {-5, -4, -3, -2, -1, 0, 1, 31, 60, 61}) for (int mg = 0; mg < 2; ++mg) {
        bool special = std::isnan(lat) || std::isnan(lon) || std::isinf(lat) || std::isinf(lon) || std::fabs(lat) > 90;
        if (!special) { check_forward(ctx, lat, lon, sz, mg, ""); continue; }
        Ctx::Case cs(ctx);
        std::string key = std::string("Forward(") + fx(lat) + "," + fx(lon) + "," + zs(sz) + "," + (mg ? "mgrs" : "std") + ")";
        mc::Fields F{{"setzone", zs(sz)}, {"lat", fmt(lat)}, {"lon", fmt(lon)}};
        auto FF = [&](const char* kind) { mc::Fields g = F; g.push_back({"kind", kind}); return g; };
        Fwd f = lib_forward(lat, lon, sz, mg, false, true);
        ctx.sig(f.o.outcome * 8 + (std::isnan(lat) ? 1 : 0) + (std::isnan(lon) ? 2 : 0) + (std::fabs(lat) > 90 ? 4 : 0));
        if (f.o.outcome >= 2) { ctx.fail(key, f.o.what, FF("crash")); continue; }
        if (f.o.outcome == 1 && !fwd_untouched(f, false)) { ctx.fail(key, "outputs modified although the call threw", FF("touched")); continue; }
        bool bad_sz = sz < -4 || sz > 60;
        if (std::fabs(lat) > 90 || bad_sz) {             // documented exceptions (|lat| > 90 includes +-inf)
          if (f.o.outcome != 1) ctx.fail(key, "not rejected; zone " + fmti(f.zone) + " (" + fx(f.x) + "," + fx(f.y) + ")", FF(bad_sz ? "setzone-accepted" : "lat-range"));
          continue;
        }
        bool nanin = std::isnan(lat) || std::isnan(lon);
        if (nanin && (sz < 0)) {                         // NaN input with a pseudo-zone: INVALID zone and NaN outputs
          if (f.o.outcome != 0 || f.zone != utmref::INVALID || !std::isnan(f.x) || !std::isnan(f.y) || !std::isnan(f.g) || !std::isnan(f.k))
            ctx.fail(key, f.o.outcome ? "NaN input threw: " + f.o.what : "NaN input gives zone " + fmti(f.zone) + " (" + fx(f.x) + "," + fx(f.y) + ")", FF("nan"));
          continue;
        }
        // NaN with an explicitly requested zone, or an infinite longitude: the documentation does not say whether this is
        // "INVALID and NaN", "the requested zone and NaN" or an exception.  Finite coordinates would be a wrong value.
        ctx.count("forward_special_doc_silent");
        ctx.list("doc_silent", std::string("Forward with ") + (nanin ? "NaN coordinate and explicit zone" : "infinite longitude") + ": exception or NaN coordinates both accepted");
        bool ups_by_lat = !std::isnan(lat) && !(lat >= -80 && lat < 84) && (sz == utmref::STANDARD || sz == utmref::MATCH);   // zone does not depend on lon
        if (f.o.outcome == 0 && !(std::isnan(f.x) && std::isnan(f.y) && (f.zone == sz || f.zone == utmref::INVALID || (ups_by_lat && f.zone == utmref::UPS))))
          ctx.fail(key, "gives zone " + fmti(f.zone) + " (" + fx(f.x) + "," + fx(f.y) + ")", FF("special-value"));
      }
    }
  }

  return ctx.finish();
}
