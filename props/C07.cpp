// C07 -- Geocentric and LocalCartesian conversions are exact and complete.
// Engine E1: exhaustive enumeration of the stated lattices on the real library; reference oracle/cart.hpp (closed-form
// forward in __float128, geometric nearest-point search on the meridian ellipse, ENU frame from the definition).
// Nothing is sampled.  See DESIGN.md section 3 "C07".
#include "mc/ctx.hpp"
#include "oracle/cart.hpp"
#include <GeographicLib/Geocentric.hpp>
#include <GeographicLib/LocalCartesian.hpp>
#include <GeographicLib/Constants.hpp>
#include <map>
#include <tuple>
#include <vector>
#include <string>
#include <algorithm>

using namespace GeographicLib;
using mc::Ctx; using mc::fx; using mc::fmt; using mc::fmti;
typedef cart::Q Q;

static const double EPS = std::numeric_limits<double>::epsilon();
static std::string q128str(Q x) { char b[96]; quadmath_snprintf(b, sizeof b, "%.24Qg", x); return b; }

// ---- tolerances (Appendix B: documented figure x 2; otherwise calibrated = 4 x worst observed on the unchanged tree, >= 16 eps)
// ("a" in the scales below is the larger semi-axis max(a, b))
static const double TOL_FWD = 16;        // Forward vs closed form, in eps * scale                  (observed worst 1.1; floor 16)
static const double TOL_REV_POS = 32;    // |Forward_f128(Reverse(P)) - P| in eps * scale           (observed worst 7.3, prolate f = -9 inside the evolute)
static const double TOL_REV_H = 32;      // | |h| - nearest distance | in eps * scale               (observed worst 7.3)
static const double TOL_LON = 16;        // lon vs atan2(Y, X), relative, eps                       (observed worst 1.0)
static const double TOL_M_ORTHO = 16;    // |M^T M - I| in eps (no documented figure; observed 2.6 Geocentric, 4.0 LocalCartesian product)
static const double TOL_M_ENU = 16;      // |M - ENU(returned lat, lon)| in eps                     (observed worst 2.0)
static const double TOL_RT_NM = 14;      // documented 7 nm round trip, |h| <= 5000 km, WGS84  (x 2; observed 4.3 nm)
static const double TOL_LOCAL = 32;      // local cartesian position / distances in eps * scale     (observed worst 5.8)

struct EF { const char* name; double a, f; };
static const EF ELL[21] = {
  {"WGS84", 6378137.0, 1 / 298.257223563}, {"sphere-1", 1.0, 0.0}, {"prolate-f=-1", 6.4e6, -1.0},
  {"oblate-f=1/2", 6.4e6, 0.5}, {"oblate-f=.99", 1.0, 0.99}, {"oblate-f=1e-10", 6.4e6, 1e-10},
  {"prolate-f=-0.01", 6.4e6, -0.01}, {"prolate-f=-9", 6.4e6, -9.0},
  // deep thorough tier: intermediate and more extreme shapes, two scales
  {"oblate-f=1/150", 6378137.0, 1 / 150.0}, {"oblate-f=0.1", 6.4e6, 0.1}, {"oblate-f=0.9", 6.4e6, 0.9}, {"oblate-f=0.999", 6.4e6, 0.999},
  {"oblate-f=1e-5", 6.4e6, 1e-5}, {"prolate-f=-1/150", 6378137.0, -1 / 150.0}, {"prolate-f=-0.1", 6.4e6, -0.1}, {"prolate-f=-1/2", 6.4e6, -0.5},
  {"prolate-f=-3", 6.4e6, -3.0}, {"prolate-f=-30", 6.4e6, -30.0}, {"prolate-f=-99", 6.4e6, -99.0},
  {"a=1e-3,f=1/300", 1e-3, 1 / 300.0}, {"a=1e12,f=-1/300", 1e12, -1 / 300.0}};

struct Env {
  int idx; const EF* ef; Geocentric earth; cart::Ell E;
  std::map<std::pair<std::pair<double, double>, std::pair<double, double>>, cart::Closest> cache;
  Env(int i) : idx(i), ef(&ELL[i]), earth(ELL[i].a, ELL[i].f), E(cart::ell(ELL[i].a, ELL[i].f)) {}
  const cart::Closest& closest(Q R, Q Z) {
    double rh = (double)R, rl = (double)(R - (Q)rh), zh = (double)Z;
    auto key = std::make_pair(std::make_pair(rh, rl), std::make_pair(zh, 0.0));
    auto it = cache.find(key);
    if (it != cache.end()) return it->second;
    if (cache.size() > 200000) cache.clear();
    return cache[key] = cart::closest(E, R, Z);
  }
};

static Q norm3(Q x, Q y, Q z) { return sqrtq(x * x + y * y + z * z); }
// effect of one rounding error in e^2 sin^2(lat) on nu = a/sqrt(1 - e^2 sin^2 lat), as a length:  nu |e^2|/(2 w) max(cos, (1-e^2) sin)
static Q fwd_cond(const cart::Ell& E, double lat) {
  Q sp, cp; cart::sincosd(lat, sp, cp);
  Q w = E.e2 > 0 ? E.e2m + E.e2 * cp * cp : 1 - E.e2 * sp * sp, nu = E.a / sqrtq(w);
  return nu * fabsq(E.e2) / (2 * w) * (fabsq(cp) > E.e2m * fabsq(sp) ? fabsq(cp) : E.e2m * fabsq(sp));
}
static std::string pkey(const Env& v, const char* what, double X, double Y, double Z) {
  return std::string(what) + " " + v.ef->name + " (" + fx(X) + "," + fx(Y) + "," + fx(Z) + ")";
}
static double dmax(double a, double b) { return a > b ? a : b; }
// every failure goes through here (C07_DEBUG=1 lists them all on stderr: ctx keeps only 4 examples per class)
static void cfail(Ctx& ctx, const std::string& key, const std::string& msg, const mc::Fields& f = {}) {
  if (getenv("C07_DEBUG")) { std::string t; for (auto& kv : f) t += " " + kv.first + "=" + kv.second; fprintf(stderr, "DBG %s ::%s :: %s\n", key.c_str(), t.c_str(), msg.c_str()); }
  ctx.fail(key, msg, f);
}

// matrix checks shared by Geocentric and LocalCartesian: orthonormality and equality with a reference
static void check_matrix(Ctx& ctx, const std::string& key, const mc::Fields& F0, const char* pfx, const std::vector<double>& M, const Q ref[9]) {
  double wo = 0, we = 0;
  for (int i = 0; i < 3; ++i) for (int j = 0; j < 3; ++j) {
    Q d = 0; for (int k = 0; k < 3; ++k) d += (Q)M[3 * k + i] * (Q)M[3 * k + j];
    wo = dmax(wo, (double)fabsq(d - (i == j ? 1 : 0)));
  }
  for (int i = 0; i < 9; ++i) we = dmax(we, (double)fabsq((Q)M[i] - ref[i]));
  ctx.worst(std::string(pfx) + ".orthonormal_err_over_tol", wo / (TOL_M_ORTHO * EPS), key);
  ctx.worst(std::string(pfx) + ".enu_err_over_tol", we / (TOL_M_ENU * EPS), key);
  if (!(wo <= TOL_M_ORTHO * EPS)) { mc::Fields F = F0; F.push_back({"kind", std::string(pfx) + "-not-orthonormal"}); cfail(ctx, key + " M-ortho", "rotation matrix not orthonormal: max |M^T M - I| = " + fmt(wo / EPS) + " eps", F); }
  if (!(we <= TOL_M_ENU * EPS)) { mc::Fields F = F0; F.push_back({"kind", std::string(pfx) + "-not-enu"}); cfail(ctx, key + " M-enu", "rotation matrix differs from the east-north-up frame at the returned position by " + fmt(we / EPS) + " eps", F); }
}

// ------------------------------------------------------------------ one Cartesian point through Reverse
static const char* region_name(const Env& v, Q R, Q Z, Q P) {
  if ((double)P > 2 * v.ef->a / EPS) return "far";
  if (v.ef->f == 0) return "sphere";
  Q A2 = fabsq(v.E.a * v.E.a - v.E.b * v.E.b), Rc = A2 / v.E.a, Zc = A2 / v.E.b;
  // inside the evolute  (R/Rc)^(2/3) + (Z/Zc)^(2/3) < 1
  Q t = cbrtq((R / Rc) * (R / Rc)) + cbrtq((Z / Zc) * (Z / Zc));
  return t < 1 ? "inside-evolute" : (t < 1.01Q ? "near-evolute" : "regular");
}
static void check_reverse(Ctx& ctx, Env& v, double X, double Y, double Z, const char* origin) {
  Ctx::Case cs(ctx);
  const double a = std::max(v.ef->a, v.ef->a * (1 - v.ef->f));     // size of the ellipsoid: the larger semi-axis
  std::string key = pkey(v, origin, X, Y, Z);
  Q R = sqrtq((Q)X * X + (Q)Y * Y), P = sqrtq((Q)X * X + (Q)Y * Y + (Q)Z * Z);
  const char* reg = region_name(v, R, fabsq((Q)Z), P);
  // do the terms of the cubic underflow in double (non-zero but below min/eps)?  p = (R/a)^2, q = (1-e^2)(Z/a)^2, S = e^4 p q / 4
  bool sund = false;
  if (v.ef->f != 0) {
    Q pp = (R / v.E.a) * (R / v.E.a), qq = v.E.e2m * ((Q)Z / v.E.a) * ((Q)Z / v.E.a), S = v.E.e2 * v.E.e2 * pp * qq / 4; const Q lim = 1e-292Q;
    sund = (S > 0 && S < lim) || (qq > 0 && qq < lim) || (pp > 0 && pp < lim);
  }
  mc::Fields F0{{"ellipsoid", v.ef->name}, {"region", reg}, {"origin", origin}, {"cubic_underflow", sund ? "yes" : "no"}};
  auto FF = [&](const char* kind) { mc::Fields F = F0; F.push_back({"kind", kind}); return F; };
  double lat = -777, lon = -777, h = -777, lat2 = -777, lon2 = -777, h2 = -777;
  std::vector<double> M(9, -777.0), M0, M10(10, -777.0);
  int sg = mc::crashed([&] { v.earth.Reverse(X, Y, Z, lat, lon, h); v.earth.Reverse(X, Y, Z, lat2, lon2, h2, M);
                             double t1, t2, t3; v.earth.Reverse(X, Y, Z, t1, t2, t3, M0); v.earth.Reverse(X, Y, Z, t1, t2, t3, M10); });
  if (sg) { cfail(ctx, key, "Reverse crashed with signal " + fmti(sg), FF("crash")); return; }
  ctx.sig(std::hash<std::string>()(reg) ^ (std::isinf(h) ? 77 : 0));
  if (!mc::same_bits(lat, lat2) || !mc::same_bits(lon, lon2) || !mc::same_bits(h, h2))
    cfail(ctx, key, "Reverse with and without the matrix argument disagree", FF("overload-differs"));
  if (!M0.empty()) cfail(ctx, key, "matrix argument of length 0 was resized", FF("matrix-size"));
  for (double m : M10) if (m != -777.0) { cfail(ctx, key, "matrix argument of length 10 was written", FF("matrix-size")); break; }
  // ranges
  if (!(std::isfinite(lat) && std::fabs(lat) <= 90)) { cfail(ctx, key, "latitude " + fmt(lat) + " outside [-90,90]", FF("lat-range")); return; }
  if (!(std::isfinite(lon) && std::fabs(lon) <= 180)) { cfail(ctx, key, "longitude " + fmt(lon) + " outside [-180,180]", FF("lon-range")); return; }
  if (std::isnan(h) || h == -INFINITY) { cfail(ctx, key, "height " + fmt(h), FF("h-nan")); return; }
  // longitude = atan2(Y, X); 0 on the axis
  if (X == 0 && Y == 0) { if (lon != 0) cfail(ctx, key, "longitude " + fmt(lon) + " on the rotation axis (documented: 0)", FF("lon-axis")); }
  else {
    Q lr = atan2q((Q)Y, (Q)X) * 180 / M_PIq;
    double e = (double)(fabsq((Q)lon - lr) / fabsq(lr == 0 ? (Q)1 : lr));
    if (lr == 0) e = (double)fabsq((Q)lon);
    // a denormal longitude cannot carry relative accuracy
    double tol = TOL_LON * EPS + (double)((Q)1e-320 / fabsq(lr == 0 ? (Q)1 : lr));
    ctx.worst("reverse.lon_relerr_over_tol", e / tol, key);
    if (!(e <= tol)) cfail(ctx, key + " lon", "longitude " + fx(lon) + " differs from atan2(Y,X) = " + q128str(lr) + " by " + fmt(e / EPS) + " eps (relative)", FF("lon-value"));
  }
  // tie-breaking / sign rules that follow from "nearest point": lat has the sign of Z; Z = 0 -> lat >= 0
  if (Z != 0 ? (lat != 0 && (lat > 0) != (Z > 0)) : (lat < 0))
    cfail(ctx, key + " latsign", "latitude " + fmt(lat) + " has the wrong sign for Z = " + fmt(Z), FF("lat-sign"));
  // scale of round-off: the size of the point or of the ellipsoid, and the displacement that half an ulp of the returned
  // latitude itself stands for, |rho(lat) + h| * |lat| (this term matters only for extreme eccentricities, where the meridional
  // radius of curvature at the pole is a/(1-f) >> a; it is < 1.6 max(|P|,a) for every terrestrial ellipsoid)
  double scale = dmax((double)P, a);
  if (std::isfinite(h)) {
    Q sp, cp; cart::sincosd(lat, sp, cp);
    Q w = v.E.e2 > 0 ? v.E.e2m + v.E.e2 * cp * cp : 1 - v.E.e2 * sp * sp, rho = v.E.a * v.E.e2m / (w * sqrtq(w));
    scale = dmax(scale, (double)(fabsq(rho + (Q)h) * fabsq((Q)lat) * M_PIq / 180));
  }
  if (std::isinf(h)) {
    // |P| exceeds the double range: direction only
    ctx.count("reverse_h_infinite");
    if (!std::isinf((double)P)) cfail(ctx, key, "infinite height for a point at finite distance " + fmt((double)P), FF("h-inf"));
    Q lr = atan2q((Q)Z, R) * 180 / M_PIq;
    double e = (double)fabsq((Q)lat - lr);
    if (!(e <= 16 * EPS * 90)) cfail(ctx, key + " farlat", "far-field latitude " + fx(lat) + " != atan2(Z,R) " + q128str(lr), FF("far-lat"));
  } else {
    // forward image of the answer in __float128
    Q Xr, Yr, Zr; cart::forward(v.E, lat, lon, (Q)h, Xr, Yr, Zr);
    double e = (double)norm3(Xr - X, Yr - Y, Zr - Z), tol = TOL_REV_POS * EPS * scale;
    ctx.worstf(std::string("reverse.position_err_over_tol.") + reg, e / tol, [&] { return key; });
    if (!(e <= tol)) cfail(ctx, key + " pos", "Forward(Reverse(P)) misses P by " + fmt(e) + " m = " + fmt(e / (EPS * scale)) + " eps*max(|P|,a); got lat " + fx(lat) + " lon " + fx(lon) + " h " + fx(h), FF("reverse-position"));
    // height of least magnitude
    const cart::Closest& c = v.closest(R, (Q)Z);
    double eh = (double)fabsq(fabsq((Q)h) - c.dist), tolh = TOL_REV_H * EPS * scale;
    ctx.worstf(std::string("reverse.height_err_over_tol.") + reg, eh / tolh, [&] { return key; });
    if (!(eh <= tolh)) cfail(ctx, key + " h", "|h| = " + fx(std::fabs(h)) + " but the nearest point of the ellipsoid is at distance " + q128str(c.dist) + " (difference " + fmt(eh / (EPS * scale)) + " eps*max(|P|,a))", FF("not-least-height"));
    else if ((double)c.dist > tolh && (h < 0) != c.inside) cfail(ctx, key + " hsign", "height " + fx(h) + " has the wrong sign (point is " + (c.inside ? "inside" : "outside") + ")", FF("h-sign"));
    // documented lower bound h >= -a (1-e^2)/sqrt(1-e^2 sin^2 lat)  (stated for the oblate case; for prolate the axis bound -nu)
    if (v.ef->f >= 0) {
      Q hm = cart::hmin(v.E, lat);
      if (!((Q)h >= hm - (Q)tolh)) cfail(ctx, key + " hmin", "h = " + fx(h) + " below the documented bound " + q128str(hm), FF("h-below-bound"));
    }
  }
  // rotation matrix: orthonormal, and the ENU frame at the returned (lat, lon)
  Q ref[9]; cart::enu(lat, lon, ref);
  check_matrix(ctx, key, F0, "reverse.M", M, ref);
  if (ctx.want_sample()) ctx.sample(key + " -> lat " + fmt(lat) + " lon " + fmt(lon) + " h " + fmt(h) + " [" + reg + "]");
}

// ------------------------------------------------------------------ one geodetic point through Forward
static void check_forward(Ctx& ctx, Env& v, double lat, double lon, double h, double& X, double& Y, double& Z) {
  Ctx::Case cs(ctx);
  const double a = std::max(v.ef->a, v.ef->a * (1 - v.ef->f));     // size of the ellipsoid: the larger semi-axis
  std::string key = std::string("fwd ") + v.ef->name + " lat " + fx(lat) + " lon " + fx(lon) + " h " + fx(h);
  mc::Fields F0{{"ellipsoid", v.ef->name}, {"origin", "forward"}};
  auto FF = [&](const char* kind) { mc::Fields F = F0; F.push_back({"kind", kind}); return F; };
  double X2, Y2, Z2; std::vector<double> M(9, -777.0), M8(8, -777.0);
  X = Y = Z = -777;
  int sg = mc::crashed([&] { v.earth.Forward(lat, lon, h, X, Y, Z); v.earth.Forward(lat, lon, h, X2, Y2, Z2, M); double t1, t2, t3; v.earth.Forward(lat, lon, h, t1, t2, t3, M8); });
  if (sg) { cfail(ctx, key, "Forward crashed with signal " + fmti(sg), FF("crash")); return; }
  if (!mc::same_bits(X, X2) || !mc::same_bits(Y, Y2) || !mc::same_bits(Z, Z2)) cfail(ctx, key, "Forward with and without the matrix argument disagree", FF("overload-differs"));
  for (double m : M8) if (m != -777.0) { cfail(ctx, key, "matrix argument of length 8 was written", FF("matrix-size")); break; }
  Q Xr, Yr, Zr; cart::forward(v.E, lat, lon, (Q)h, Xr, Yr, Zr);
  // scale of round-off: max(|P|, a) plus the effect of one rounding error in e^2 sin^2(lat) on nu = a/sqrt(1 - e^2 sin^2 lat),
  // d nu = nu e^2/(2 w) eps  (w = 1 - e^2 sin^2 lat; negligible, 0.003 a, for terrestrial ellipsoids; 50 a at the pole for f = 0.99)
  Q sp, cp; cart::sincosd(lat, sp, cp);
  Q w = v.E.e2 > 0 ? v.E.e2m + v.E.e2 * cp * cp : 1 - v.E.e2 * sp * sp, nu = v.E.a / sqrtq(w);
  Q cnd = nu * fabsq(v.E.e2) / (2 * w) * (fabsq(cp) > v.E.e2m * fabsq(sp) ? fabsq(cp) : v.E.e2m * fabsq(sp));
  double scale = dmax((double)norm3(Xr, Yr, Zr), a) + (double)cnd;
  double e = (double)norm3(Xr - X, Yr - Y, Zr - Z), tol = TOL_FWD * EPS * scale;
  ctx.worst("forward.err_over_tol", e / tol, key);
  if (!(e <= tol)) cfail(ctx, key, "Forward = (" + fx(X) + "," + fx(Y) + "," + fx(Z) + ") differs from the closed form by " + fmt(e / (EPS * scale)) + " eps*max(|P|,a)", FF("forward-value"));
  Q ref[9]; cart::enu(lat, lon, ref);
  check_matrix(ctx, key, F0, "forward.M", M, ref);
  if (ctx.want_sample()) ctx.sample(key + " -> (" + fmt(X) + "," + fmt(Y) + "," + fmt(Z) + ")");
}

// ------------------------------------------------------------------ documented round trip, WGS84, |h| <= 5000 km
static void check_roundtrip(Ctx& ctx, Env& v, double lat, double lon, double h) {
  Ctx::Case cs(ctx);
  std::string key = std::string("rt ") + v.ef->name + " lat " + fx(lat) + " lon " + fx(lon) + " h " + fx(h);
  double X, Y, Z, lat1, lon1, h1;
  v.earth.Forward(lat, lon, h, X, Y, Z); v.earth.Reverse(X, Y, Z, lat1, lon1, h1);
  // the documented error measure: (dlat, dlon) converted to a distance on the surface of the ellipsoid, combined with dh
  Q sp, cp; cart::sincosd(lat, sp, cp);
  Q w = v.E.e2m + v.E.e2 * cp * cp, nu = v.E.a / sqrtq(w), rho = v.E.a * v.E.e2m / (w * sqrtq(w));
  Q dlat = ((Q)lat1 - (Q)lat) * M_PIq / 180, dlon = remainderq((Q)lon1 - (Q)lon, 360) * M_PIq / 180;
  Q ds = hypotq(rho * dlat, nu * cp * dlon), err = hypotq(ds, (Q)h1 - (Q)h);
  double nm = (double)err * 1e9;
  ctx.worst("roundtrip.err_nm_over_tol", nm / TOL_RT_NM, key);
  if (!(nm <= TOL_RT_NM)) cfail(ctx, key, "Reverse(Forward(lat,lon,h)) differs by " + fmt(nm) + " nm (documented 7 nm): got lat " + fx(lat1) + " lon " + fx(lon1) + " h " + fx(h1), {{"ellipsoid", v.ef->name}, {"kind", "roundtrip-7nm"}});
  // true three-dimensional displacement, reported only
  Q A[3], B[3]; cart::forward(v.E, lat, lon, (Q)h, A[0], A[1], A[2]); cart::forward(v.E, lat1, lon1, (Q)h1, B[0], B[1], B[2]);
  ctx.worst("roundtrip.3d_err_nm(reported)", (double)norm3(A[0] - B[0], A[1] - B[1], A[2] - B[2]) * 1e9, key);
}

// ------------------------------------------------------------------ LocalCartesian at one origin
struct Pt { double lat, lon, h; Q P[3]; double x[3]; };
static void check_local(Ctx& ctx, Env& v, double lat0, double lon0, double h0, const std::vector<double>& lats, const std::vector<double>& lons, const std::vector<double>& hs) {
  const double a = std::max(v.ef->a, v.ef->a * (1 - v.ef->f));     // size of the ellipsoid: the larger semi-axis
  std::string okey = std::string("local ") + v.ef->name + " origin (" + fmt(lat0) + "," + fmt(lon0) + "," + fmt(h0) + ")";
  mc::Fields F0{{"ellipsoid", v.ef->name}, {"origin", "local"}};
  auto FF = [&](const char* kind) { mc::Fields F = F0; F.push_back({"kind", kind}); return F; };
  LocalCartesian L(lat0, lon0, h0, v.earth);
  LocalCartesian L2(12.0, 34.0, 56.0, v.earth); L2.Reset(lat0, lon0, h0);
  Q P0[3], M0[9]; cart::forward(v.E, lat0, lon0, (Q)h0, P0[0], P0[1], P0[2]); cart::enu(lat0, lon0, M0);
  double s0 = dmax((double)norm3(P0[0], P0[1], P0[2]), a);
  const double c0 = (double)fwd_cond(v.E, lat0);
  {
    Ctx::Case cs(ctx);
    // origin -> (0,0,0); inspectors; Reset
    double x, y, z; L.Forward(lat0, lon0, h0, x, y, z);
    double e = (double)norm3(x, y, z);
    ctx.worst("local.origin_err_over_tol", e / (TOL_LOCAL * EPS * s0), okey);
    if (!(e <= TOL_LOCAL * EPS * s0)) cfail(ctx, okey + " origin", "origin maps to (" + fmt(x) + "," + fmt(y) + "," + fmt(z) + ")", FF("origin-not-zero"));
    double lonn = std::remainder(lon0, 360.0);
    if (L.LatitudeOrigin() != lat0 || std::remainder(L.LongitudeOrigin() - lonn, 360.0) != 0 || std::fabs(L.LongitudeOrigin()) > 180 || L.HeightOrigin() != h0 ||
        L.EquatorialRadius() != v.ef->a || L.Flattening() != v.ef->f)
      cfail(ctx, okey + " inspectors", "inspectors do not return the origin / ellipsoid", FF("inspectors"));
    if (L2.LatitudeOrigin() != L.LatitudeOrigin() || L2.LongitudeOrigin() != L.LongitudeOrigin() || L2.HeightOrigin() != L.HeightOrigin() ||
        L2.EquatorialRadius() != v.ef->a || L2.Flattening() != v.ef->f)
      cfail(ctx, okey + " reset-inspectors", "Reset did not reproduce the state of a freshly constructed object", FF("reset"));
    // M at the origin is the identity
    std::vector<double> M(9); L.Forward(lat0, lon0, h0, x, y, z, M);
    Q I[9] = {1, 0, 0, 0, 1, 0, 0, 0, 1};
    check_matrix(ctx, okey + " M-at-origin", F0, "local.M", M, I);
  }
  std::vector<Pt> pts;
  for (double lat : lats) for (double lon : lons) for (double h : hs) {
    Ctx::Case cs(ctx);
    Pt p; p.lat = lat; p.lon = lon; p.h = h;
    cart::forward(v.E, lat, lon, (Q)h, p.P[0], p.P[1], p.P[2]);
    std::string key = okey + " point (" + fx(lat) + "," + fx(lon) + "," + fx(h) + ")";
    std::vector<double> M(9, -777.0), M7(7, -777.0);
    double x2, y2, z2;
    L.Forward(lat, lon, h, p.x[0], p.x[1], p.x[2]); L.Forward(lat, lon, h, x2, y2, z2, M);
    if (!mc::same_bits(x2, p.x[0]) || !mc::same_bits(y2, p.x[1]) || !mc::same_bits(z2, p.x[2])) cfail(ctx, key, "Forward with and without the matrix argument disagree", FF("overload-differs"));
    { double t1, t2, t3; L.Forward(lat, lon, h, t1, t2, t3, M7); for (double m : M7) if (m != -777.0) { cfail(ctx, key, "matrix argument of length 7 was written", FF("matrix-size")); break; } }
    double scale = dmax((double)norm3(p.P[0], p.P[1], p.P[2]), s0) + (double)fwd_cond(v.E, lat) + c0;      // + the Forward conditioning of point and origin
    // reference: x = M0^T (P - P0)
    Q d[3] = {p.P[0] - P0[0], p.P[1] - P0[1], p.P[2] - P0[2]}, xr[3];
    for (int i = 0; i < 3; ++i) xr[i] = M0[i] * d[0] + M0[3 + i] * d[1] + M0[6 + i] * d[2];
    double e = (double)norm3(xr[0] - p.x[0], xr[1] - p.x[1], xr[2] - p.x[2]), tol = TOL_LOCAL * EPS * scale;
    ctx.worst("local.forward_err_over_tol", e / tol, key);
    if (!(e <= tol)) cfail(ctx, key + " fwd", "local Forward = (" + fx(p.x[0]) + "," + fx(p.x[1]) + "," + fx(p.x[2]) + ") differs from M0^T (P - P0) by " + fmt(e / (EPS * scale)) + " eps*scale", FF("local-forward"));
    // M = M0^T . ENU(lat, lon)
    Q en[9], mr[9]; cart::enu(lat, lon, en);
    for (int i = 0; i < 3; ++i) for (int j = 0; j < 3; ++j) { mr[3 * i + j] = 0; for (int k = 0; k < 3; ++k) mr[3 * i + j] += M0[3 * k + i] * en[3 * k + j]; }
    check_matrix(ctx, key + " fwdM", F0, "local.M", M, mr);
    // Reverse of the computed local coordinates: the geodetic answer must map (in __float128) back onto P
    double lat1, lon1, h1, lat2, lon2, h2; std::vector<double> MR(9, -777.0);
    L.Reverse(p.x[0], p.x[1], p.x[2], lat1, lon1, h1); L.Reverse(p.x[0], p.x[1], p.x[2], lat2, lon2, h2, MR);
    if (!mc::same_bits(lat1, lat2) || !mc::same_bits(lon1, lon2) || !mc::same_bits(h1, h2)) cfail(ctx, key, "Reverse with and without the matrix argument disagree", FF("overload-differs"));
    if (!(std::isfinite(lat1) && std::fabs(lat1) <= 90 && std::isfinite(lon1) && std::fabs(lon1) <= 180 && std::isfinite(h1))) cfail(ctx, key + " rev-range", "local Reverse returns lat " + fmt(lat1) + " lon " + fmt(lon1) + " h " + fmt(h1), FF("local-reverse-range"));
    else {
      Q B[3]; cart::forward(v.E, lat1, lon1, (Q)h1, B[0], B[1], B[2]);
      double er = (double)norm3(B[0] - p.P[0], B[1] - p.P[1], B[2] - p.P[2]);
      ctx.worst("local.reverse_err_over_tol", er / tol, key);
      if (!(er <= tol)) cfail(ctx, key + " rev", "local Reverse(Forward(p)) is " + fmt(er / (EPS * scale)) + " eps*scale away from p: lat " + fx(lat1) + " lon " + fx(lon1) + " h " + fx(h1), FF("local-inverse"));
      cart::enu(lat1, lon1, en);
      for (int i = 0; i < 3; ++i) for (int j = 0; j < 3; ++j) { mr[3 * i + j] = 0; for (int k = 0; k < 3; ++k) mr[3 * i + j] += M0[3 * k + i] * en[3 * k + j]; }
      check_matrix(ctx, key + " revM", F0, "local.M", MR, mr);
    }
    // Reset: the re-targeted object behaves bit for bit like the fresh one
    double a1, a2, a3; L2.Forward(lat, lon, h, a1, a2, a3);
    double b1, b2, b3; L2.Reverse(p.x[0], p.x[1], p.x[2], b1, b2, b3);
    if (!mc::same_bits(a1, p.x[0]) || !mc::same_bits(a2, p.x[1]) || !mc::same_bits(a3, p.x[2]) || !mc::same_bits(b1, lat1) || !mc::same_bits(b2, lon1) || !mc::same_bits(b3, h1))
      cfail(ctx, key + " reset", "object after Reset() differs from a freshly constructed one", FF("reset"));
    pts.push_back(p);
    if (ctx.want_sample()) ctx.sample(key + " -> (" + fmt(p.x[0]) + "," + fmt(p.x[1]) + "," + fmt(p.x[2]) + ")");
  }
  // rigid motion: all pairwise distances preserved
  {
    Ctx::Case cs(ctx);
    double worst = 0; size_t wi = 0, wj = 0; uint64_t npairs = 0;
    for (size_t i = 0; i < pts.size(); ++i) for (size_t j = i + 1; j < pts.size(); ++j) {
      const Pt& p = pts[i]; const Pt& q = pts[j];
      Q dl = norm3((Q)p.x[0] - q.x[0], (Q)p.x[1] - q.x[1], (Q)p.x[2] - q.x[2]), dg = norm3(p.P[0] - q.P[0], p.P[1] - q.P[1], p.P[2] - q.P[2]);
      double scale = dmax(dmax((double)norm3(p.P[0], p.P[1], p.P[2]), (double)norm3(q.P[0], q.P[1], q.P[2])), s0) + (double)(fwd_cond(v.E, p.lat) + fwd_cond(v.E, q.lat));
      double r = (double)fabsq(dl - dg) / (TOL_LOCAL * EPS * scale);
      ++npairs;
      if (r > worst) { worst = r; wi = i; wj = j; }
    }
    ctx.count("local_pairs", npairs);
    std::string key = okey + " pair #" + fmti((long long)wi) + "/#" + fmti((long long)wj);
    ctx.worst("local.pair_distance_err_over_tol", worst, key);
    if (!(worst <= 1)) cfail(ctx, okey + " pairs", "distance between points #" + fmti((long long)wi) + " and #" + fmti((long long)wj) + " not preserved: error " + fmt(worst * TOL_LOCAL) + " eps*scale", FF("distance-not-preserved"));
  }
}

// ------------------------------------------------------------------ E2: operation histories of one LocalCartesian object
// Explicit-state BFS over all sequences of {L = LocalCartesian(lat,lon,h,earth), L.Reset(lat,lon,h)} up to the depth bound, over an
// argument alphabet whose members are FORCED to collide (same lat/lon with different heights, lon and lon + 360 k, the poles with
// different longitudes, same height at different latitudes).  States are de-duplicated on the bit patterns of ALL private fields
// (origin, rotation, embedded Geocentric).  Oracle (differential, no tolerance): after every history the object must be bit for bit
// the object a fresh LocalCartesian(lat,lon,h,earth) of the LAST operation is -- fields, accessors, Forward/Reverse/matrices of probe
// points -- and the origin maps to (0,0,0); a copy of it must be identical as well.
struct LCKey { uint64_t w[22]; bool operator<(const LCKey& o) const { return memcmp(w, o.w, sizeof w) < 0; } bool operator==(const LCKey& o) const { return !memcmp(w, o.w, sizeof w); } };
static LCKey lc_key(const LocalCartesian& L) {
  LCKey k; int i = 0;
  for (double d : {L._lat0, L._lon0, L._h0, L._x0, L._y0, L._z0}) k.w[i++] = mc::bits(d);
  for (int j = 0; j < 9; ++j) k.w[i++] = mc::bits(L._r[j]);
  for (double d : {L._earth._a, L._earth._f, L._earth._e2, L._earth._e2m, L._earth._e2a, L._earth._e4a, L._earth._maxrad}) k.w[i++] = mc::bits(d);
  return k;
}
struct LCArg { double lat, lon, h; };
static std::string lc_opname(int op, const std::vector<LCArg>& A) {
  const LCArg& a = A[op / 2];
  return std::string(op % 2 ? "Reset(" : "construct(") + fmt(a.lat) + "," + fmt(a.lon) + "," + fmt(a.h) + ")";
}
static void lc_apply(LocalCartesian& L, int op, const std::vector<LCArg>& A, const Geocentric& earth) {
  const LCArg& a = A[op / 2];
  if (op % 2) L.Reset(a.lat, a.lon, a.h); else L = LocalCartesian(a.lat, a.lon, a.h, earth);
}
static void check_local_history(Ctx& ctx, Env& v, const std::vector<LCArg>& A, int depth) {
  struct Node { LocalCartesian L; std::vector<int> hist; };
  const int nops = 2 * (int)A.size();
  std::map<LCKey, int> seen;
  std::vector<Node> frontier;
  { Node n{LocalCartesian(v.earth), {}}; seen[lc_key(n.L)] = 0; frontier.push_back(n); }       // start: the default-constructed object
  uint64_t ntrans = 0;
  const double probes[5][3] = {{48.25, 11.5, 1200}, {-33, 151, 0}, {90, 0, 5000}, {0, -170, -35.5}, {89.999, 371.5, 1e4}};
  for (int d = 1; d <= depth && !frontier.empty(); ++d) {
    std::vector<Node> next;
    for (const Node& n : frontier) for (int op = 0; op < nops; ++op) {
      Ctx::Case cs(ctx);
      ++ntrans;
      Node m = n; m.hist.push_back(op);
      lc_apply(m.L, op, A, v.earth);
      const LCArg& a = A[op / 2];
      LocalCartesian F(a.lat, a.lon, a.h, v.earth);                   // the fresh object this history must be equivalent to
      std::string hs; for (int o : m.hist) hs += (hs.empty() ? "" : "; ") + lc_opname(o, A);
      std::string key = std::string("history ") + v.ef->name + ": " + hs;
      mc::Fields F0{{"ellipsoid", v.ef->name}, {"origin", "history"}, {"last_op", op % 2 ? "Reset" : "construct"}, {"depth", fmti(d)}};
      auto FF = [&](const char* kind) { mc::Fields f = F0; f.push_back({"kind", kind}); return f; };
      LCKey km = lc_key(m.L), kf = lc_key(F);
      ctx.sig(d * 2 + op % 2);
      bool bad = false;
      if (!(km == kf)) {
        bad = true;
        cfail(ctx, key + " fields", "private state after the history differs from a freshly constructed LocalCartesian(" + fmt(a.lat) + "," + fmt(a.lon) + "," + fmt(a.h) + "): origin (" + fx(m.L._x0) + "," + fx(m.L._y0) + "," + fx(m.L._z0) + ") vs (" + fx(F._x0) + "," + fx(F._y0) + "," + fx(F._z0) + "), h0 " + fmt(m.L._h0) + " vs " + fmt(F._h0), FF("history-state"));
      }
      // behaviour: accessors, origin -> 0, probes through Forward/Reverse with matrices, copy
      if (!(mc::same_bits(m.L.LatitudeOrigin(), F.LatitudeOrigin()) && mc::same_bits(m.L.LongitudeOrigin(), F.LongitudeOrigin()) && mc::same_bits(m.L.HeightOrigin(), F.HeightOrigin()) &&
            m.L.LatitudeOrigin() == a.lat && std::remainder(m.L.LongitudeOrigin() - a.lon, 360.0) == 0 && m.L.HeightOrigin() == a.h && m.L.EquatorialRadius() == v.ef->a && m.L.Flattening() == v.ef->f))
        { bad = true; cfail(ctx, key + " accessors", "origin accessors after the history do not describe the last operation", FF("history-accessors")); }
      { double x, y, z; m.L.Forward(a.lat, a.lon, a.h, x, y, z);
        const double sc = dmax(std::max(v.ef->a, v.ef->a * (1 - v.ef->f)), std::fabs(a.h));
        if (!(std::fabs(x) <= TOL_LOCAL * EPS * sc && std::fabs(y) <= TOL_LOCAL * EPS * sc && std::fabs(z) <= TOL_LOCAL * EPS * sc))
          { bad = true; cfail(ctx, key + " origin", "the origin of the last operation maps to (" + fmt(x) + "," + fmt(y) + "," + fmt(z) + ") instead of (0,0,0)", FF("history-origin")); }
        double la, lo, hh; m.L.Reverse(0, 0, 0, la, lo, hh);
        if (!(std::fabs(hh - a.h) <= TOL_LOCAL * EPS * sc * 4)) { bad = true; cfail(ctx, key + " rev0", "Reverse(0,0,0) has height " + fmt(hh) + " instead of " + fmt(a.h), FF("history-origin")); } }
      LocalCartesian C(m.L);
      for (const auto& p : probes) {
        double x1, y1, z1, x2, y2, z2, x3, y3, z3; std::vector<double> M1(9), M2(9);
        m.L.Forward(p[0], p[1], p[2], x1, y1, z1, M1); F.Forward(p[0], p[1], p[2], x2, y2, z2, M2); C.Forward(p[0], p[1], p[2], x3, y3, z3);
        bool ok = mc::same_bits(x1, x2) && mc::same_bits(y1, y2) && mc::same_bits(z1, z2) && mc::same_bits(x1, x3) && mc::same_bits(y1, y3) && mc::same_bits(z1, z3);
        for (int i = 0; i < 9; ++i) ok = ok && mc::same_bits(M1[i], M2[i]);
        double a1, b1, c1, a2, b2, c2; m.L.Reverse(x2, y2, z2, a1, b1, c1, M1); F.Reverse(x2, y2, z2, a2, b2, c2, M2);
        ok = ok && mc::same_bits(a1, a2) && mc::same_bits(b1, b2) && mc::same_bits(c1, c2);
        for (int i = 0; i < 9; ++i) ok = ok && mc::same_bits(M1[i], M2[i]);
        if (!ok) { bad = true; cfail(ctx, key + " probe", "Forward/Reverse of probe (" + fmt(p[0]) + "," + fmt(p[1]) + "," + fmt(p[2]) + ") differ from the freshly constructed object: (" + fx(x1) + "," + fx(y1) + "," + fx(z1) + ") vs (" + fx(x2) + "," + fx(y2) + "," + fx(z2) + ")", FF("history-behaviour")); break; }
      }
      if (ctx.want_sample()) ctx.sample(key);
      if (seen.emplace(km, d).second) next.push_back(m);            // a new state: explore from it at the next depth
      (void)bad;
    }
    frontier.swap(next);
  }
  ctx.count("history_states", seen.size()); ctx.count("history_transitions", ntrans);
}

int main(int argc, char** argv) {
  Ctx ctx(argc, argv);
  const bool T = ctx.thorough();
  const int NE = T ? 21 : 6;
  std::vector<Env*> envs; for (int i = 0; i < NE; ++i) envs.push_back(new Env(i));
  ctx.bound("ellipsoids", T ? "21 ellipsoids (a,f): WGS84, (1,0), (6.4e6, f) for f in {-1, 1/2, 1e-10, -0.01, -9, 0.1, 0.9, 0.999, 1e-5, -0.1, -1/2, -3, -30, -99}, (1,0.99), (6378137, +-1/150), (1e-3, 1/300), (1e12, -1/300)" : "(a,f) = WGS84, (1,0), (6.4e6,-1), (6.4e6,1/2), (1,0.99), (6.4e6,1e-10)");

  // ================================================================= Forward lattice (+ Reverse of every image)
  {
    ctx.sub("forward");
    std::vector<double> lats{-90, -89.999999, -60, -30, -1e-10, 0, 1e-300, 30, 45, 60, 89.999999, 90, -45};
    std::vector<double> lons{0, 45, 180, -90, 720.5};
    if (T) { for (double x : {89.9999999999, -89.9999999999, 1e-5, -1e-5, 15.0, 75.0, -75.0, 85.0, -15.0, 1.0, -89.0, 89.0}) lats.push_back(x);
             for (double x : {-180.0, 179.9999999, 360.0, -720.5, 1e-300, 90.0, -45.0, 135.0, 1e-9}) lons.push_back(x); }
    ctx.bound("forward.lattice", T ? "ellipsoids x 25 lat x 14 lon {0,45,180,-90,720.5,-180,179.9999999,360,-720.5,1e-300,90,-45,135,1e-9} x 14 h {-a,-a/2,-1e3,0,1,1e4,5e6,1e12,1e20,-0.9a,-0.1a,1e-6,a,1e300}; every image is also sent through Reverse"
                                   : "ellipsoids x 13 lat x 5 lon {0,45,180,-90,720.5} x 9 h {-a,-a/2,-1e3,0,1,1e4,5e6,1e12,1e20}; every image is also sent through Reverse");
    for (Env* v : envs) for (double lat : lats) {
      if (!ctx.take()) continue;
      const double a = v->ef->a;
      std::vector<double> hs{-a, -a / 2, -1e3, 0, 1, 1e4, 5e6, 1e12, 1e20};
      if (T) for (double x : {-0.9 * a, -0.1 * a, 1e-6, a, 1e300}) hs.push_back(x);
      for (double lon : lons) for (double h : hs) {
        double X, Y, Z; check_forward(ctx, *v, lat, lon, h, X, Y, Z);
        check_reverse(ctx, *v, X, Y, Z, "forward-image");
      }
    }
  }
  // ================================================================= documented round trip (WGS84)
  {
    ctx.sub("roundtrip");
    std::vector<double> lats; for (int k = -36; k <= 36; ++k) lats.push_back(2.5 * k);
    if (T) for (int k = -36; k < 36; ++k) { lats.push_back(2.5 * k + 1.25); lats.push_back(2.5 * k + 0.3); }
    for (double x : {89.9999, -89.9999, 1e-9, -1e-9, 1e-300, 45.000000001, 89.999999999, -89.999999999}) lats.push_back(x);
    std::vector<double> hs; for (int k = -10; k <= 10; ++k) hs.push_back(5e5 * k);
    if (T) for (int k = -10; k < 10; ++k) hs.push_back(5e5 * k + 2.5e5);
    for (double x : {1.0, -1.0, 1e3, -1e3, 8848.0, -11000.0, 4999999.0, -4999999.0}) hs.push_back(x);
    std::vector<double> lons{0, 45, 180, -90, 720.5, -179.999999, 1e-9};
    if (T) for (double x : {-180.0, 90.0, 135.0, -45.0, 10.0, 359.0}) lons.push_back(x);
    ctx.bound("roundtrip.lattice", fmti((long long)lats.size()) + " lat x " + fmti((long long)lons.size()) + " lon x " + fmti((long long)hs.size()) + " h in [-5000 km, 5000 km], WGS84, error measured as documented (surface distance of (dlat,dlon) and dh)");
    for (double lat : lats) {
      if (!ctx.take()) continue;
      for (double lon : lons) for (double h : hs) check_roundtrip(ctx, *envs[0], lat, lon, h);
    }
  }
  // ================================================================= all Cartesian triples
  {
    ctx.sub("reverse-lattice");
    ctx.bound("reverse.lattice", T ? "X, Y, Z each in {0, +-1e-300, +-1e-160, +-1e-100, +-1e-50, +-1e-20, +-1e-10, +-1e-5, +-1, +-a e^2/2, +-a e^2, +-b, +-a/2, +-a, +-2a, +-1e7, +-1e12, +-1e20, +-0.9 and +-1.1 x (2a/eps), +-1e50, +-1e100, +-1e160, +-1e300, +-1.7e308}: all 49^3 triples x 21 ellipsoids (duplicates of an ellipsoid's alphabet replaced by neighbouring values)"
                                   : "X, Y, Z each in {0, +-1e-300, +-1e-20, +-1, +-a e^2/2, +-a e^2, +-a, +-1e7, +-1e20, +-1e300, +-1.7e308}: all 21^3 triples x 6 ellipsoids");
    for (Env* v : envs) {
      const double a = v->ef->a, ae2 = a * std::fabs(v->ef->f * (2 - v->ef->f)), b = a * (1 - v->ef->f), far = 2 * a / EPS;
      std::vector<double> pos;
      auto add = [&](double x) { while (std::find(pos.begin(), pos.end(), x) != pos.end() || x == 0) x = x == 0 ? 0.25 : x * 0.75; pos.push_back(x); };
      for (double x : {1e-300, 1e-20, 1.0, ae2 / 2, ae2, a, 1e7, 1e20, 1e300, 1.7e308}) add(x);          // quick: 10 magnitudes
      if (T) for (double x : {1e-160, 1e-5, b, 0.9 * far, 1.1 * far, 1e160, 1e-100, 1e-50, 1e-10, a / 2, 2 * a, 1e12, 1e50, 1e100}) add(x);   // thorough: 24 magnitudes
      std::vector<double> al{0.0}; for (double p : pos) { al.push_back(p); al.push_back(-p); }
      for (double X : al) for (double Y : al) {
        if (!ctx.take()) continue;
        for (double Z : al) check_reverse(ctx, *v, X, Y, Z, "lattice");
      }
    }
  }
  // ================================================================= singular disc / axis segment and the evolute
  {
    ctx.sub("singular");
    ctx.bound("singular.grid", T ? "non-spherical ellipsoids: 257 radii k/256 of the cusp (a e^2 in the equatorial plane for oblate, |a^2-b^2|/b on the axis for prolate) x 25 offsets {0,+-1e-300,+-1e-100,+-1e-12,+-1e-9,+-1e-6,+-1e-3,+-1,+-1e3,+-a*{1e-158,1e-155,1e-152,1e-148}} across the singular set x 4 meridians; evolute: 513 parameters x 9 scalings {1, 1+-1e-12, 1+-1e-9, 1+-1e-6, 1+-1e-3} x both signs of Z x 2 meridians"
                                 : "non-spherical ellipsoids: 33 radii k/32 of the cusp (a e^2 in the equatorial plane for oblate, |a^2-b^2|/b on the axis for prolate) x 9 offsets {0,+-1e-300,+-1e-9,+-1e-6,+-1e-3} across the singular set x 2 meridians; evolute: 33 parameters x 5 scalings {1-1e-3,1-1e-9,1,1+1e-9,1+1e-3} x both signs of Z");
    for (Env* v : envs) {
      if (v->ef->f == 0) continue;
      const Q a = v->E.a, b = v->E.b, A2 = fabsq(a * a - b * b);
      const bool obl = v->ef->f > 0;
      const double Rc = (double)(A2 / a), Zc = (double)(A2 / b);
      std::vector<double> offs{0, 1e-300, -1e-300, 1e-9, -1e-9, 1e-6, -1e-6, 1e-3, -1e-3};
      if (T) for (double x : {1e-100, 1e-12, 1.0, 1e3, 1e-158 * v->ef->a, 1e-155 * v->ef->a, 1e-152 * v->ef->a, 1e-148 * v->ef->a}) { offs.push_back(x); offs.push_back(-x); }   // the last four: (o/a)^2 or S underflows
      const int KR = T ? 256 : 32, KE = T ? 512 : 32, NM = T ? 4 : 2;
      for (int k = 0; k <= KR; ++k) {
        if (!ctx.take()) continue;
        for (double o : offs) for (int mer = 0; mer < NM; ++mer) {
          double R, Z;
          if (obl) { R = Rc * k / KR; Z = o; } else { Z = Zc * k / KR; R = std::fabs(o); if (o < 0) Z = -Z; }
          double X = mer == 0 ? R : mer == 1 ? R * 0.8 : mer == 2 ? -R : 0, Y = mer == 0 ? 0 : mer == 1 ? -R * 0.6 : mer == 2 ? 0 : R;
          check_reverse(ctx, *v, X, Y, Z, "singular-set");
        }
      }
      std::vector<double> scl{1 - 1e-3, 1 - 1e-9, 1.0, 1 + 1e-9, 1 + 1e-3};
      if (T) for (double x : {1 - 1e-6, 1 - 1e-12, 1 + 1e-12, 1 + 1e-6}) scl.push_back(x);
      for (int k = 0; k <= KE; ++k) {
        if (!ctx.take()) continue;
        Q t = M_PIq / 2 * k / KE, st, ct; sincosq(t, &st, &ct); if (k == KE) ct = 0;
        for (double s : scl) for (int sgn = -1; sgn <= 1; sgn += 2) for (int mer = 0; mer < (T ? 2 : 1); ++mer) {
          double R = (double)(s * A2 / a * ct * ct * ct), Z = sgn * (double)(s * A2 / b * st * st * st);
          if (mer == 0) check_reverse(ctx, *v, -R * 0.6, R * 0.8, Z, "evolute"); else check_reverse(ctx, *v, R, 0, Z, "evolute");
        }
      }
    }
  }
  // ================================================================= LocalCartesian
  {
    ctx.sub("local");
    std::vector<double> lats{-90, -45, -1e-9, 0, 30, 60, 90}, lons{0, 45, 180, -90, 720.5}, hs{-1e3, 0, 1e4, 5e6};
    std::vector<double> lat0s{0, 45, -90, 90, -33.3}, lon0s{0, 180, -77.5, 720.5}, h0s{0, 1e4, -1e3};
    if (T) { lats.push_back(89.9999); lats.push_back(-60); lons.push_back(-180); lons.push_back(-179.5);
             for (double x : {89.999999, -89.999999, 1e-9, 60.0}) lat0s.push_back(x);
             for (double x : {-180.0, 179.999999999, 90.0}) lon0s.push_back(x);
             h0s.push_back(5e6); }
    ctx.bound("local.lattice", T ? "ellipsoids x 252 origins (9 lat0 incl. both poles and +-89.999999 x 7 lon0 incl. 180, -180, 179.999999999, 720.5 x 4 h0) x 252 points (9 lat x 7 lon x 4 h): Forward, Reverse, matrices, Reset, and ALL 31626 point pairs per origin"
                                 : "ellipsoids x 60 origins (5 lat0 x 4 lon0 x 3 h0) x 140 points (7 lat x 5 lon x 4 h): Forward, Reverse, matrices, Reset, and ALL 9730 point pairs per origin");
    for (Env* v : envs) for (double lat0 : lat0s) for (double lon0 : lon0s) for (double h0 : h0s) {
      if (!ctx.take()) continue;
      const double a = v->ef->a, hsc = a == 1 ? 1e-7 : (a < 1e6 || a > 1e7 ? a / 6.4e6 : 1);       // heights in proportion to the ellipsoid
      double hh0 = h0 * hsc;
      std::vector<double> hh = hs; if (hsc != 1) for (double& x : hh) x *= hsc;
      check_local(ctx, *v, lat0, lon0, hh0, lats, lons, hh);
    }
  }
  // ================================================================= E2: Reset / construct histories of one object
  {
    ctx.sub("local-history");
    std::vector<double> hl{48.25, 90, -90}, ho{11.5, 371.5, -170}, hh{0, 1200, -35.5};
    if (T) { for (double x : {0.0, -48.25}) hl.push_back(x); for (double x : {180.0, -180.0, 11.5 - 720}) ho.push_back(x); for (double x : {5000.0, 1e-3}) hh.push_back(x); }
    std::vector<LCArg> A; for (double la : hl) for (double lo : ho) for (double h : hh) A.push_back({la, lo, h});
    const int depth = T ? 4 : 3;
    ctx.bound("local.history", std::string("E2 BFS over all histories of {construct, Reset} x ") + fmti((long long)A.size()) + " colliding origins (lat " + fmti((long long)hl.size()) + " values incl. both poles x lon " + fmti((long long)ho.size()) +
              " values incl. lon + 360 k, +-180 x h " + fmti((long long)hh.size()) + " values) up to depth " + fmti(depth) + ", from the default-constructed object, on " + (T ? "WGS84, prolate f=-1, oblate f=1/2" : "WGS84, prolate f=-1") +
              "; states de-duplicated on the bits of all private fields; every state compared bit for bit with a freshly constructed object");
    for (int ei : (T ? std::vector<int>{0, 2, 3} : std::vector<int>{0, 2})) { if (!ctx.take()) continue; check_local_history(ctx, *envs[ei], A, depth); }
  }
  ctx.note("round-off scale: max(|P|, a), enlarged (a) for Reverse by |rho(lat)+h|*|lat|, the displacement represented by a relative eps in the returned latitude, and (b) for Forward by nu e^2/(2(1-e^2 sin^2 lat)), the effect of one rounding in 1 - e^2 sin^2 lat; both terms are below 1.6 max(|P|,a) for WGS84-like ellipsoids and reach 155 a / 50 a at the pole of the f = 0.99 ellipsoid (the documentation claims round-off accuracy for terrestrial ellipsoids and states that e > 1/sqrt(2) was not analysed)");
  ctx.list("not_compared", "tools/CartConvert command line (covered by the text-I/O property C10)");
  return ctx.finish();
}
