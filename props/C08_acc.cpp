// C08 (part 3) -- accuracy anchors that no symmetry / additivity / history relation can replace.
//
//  narr-rows        TABLE-ROW COVERAGE of GeodesicExact's narr[] (number of DST terms of the area integral, one row per
//                   0.01 of the third flattening n): one ellipsoid per row, n = (k+0.5)/100, two polygons with long oblique
//                   edges, PolygonAreaExact and PolygonArea(Geodesic(a,f,exact=true)) against an independent oracle: the
//                   line integral  S12 = Int q(phi) dlambda  of the closed-form zonal area q along way points taken from a
//                   GeodesicLineExact WITHOUT the AREA capability (Simpson + Richardson in long double, self-checked by
//                   halving).  No S12 code of the library is involved.
//  vertex-insertion inserting a vertex ON an edge (1e-6 m ... 10 m from either end, point from Direct along the edge) leaves
//                   area and perimeter unchanged: Geodesic, GeodesicExact, Geodesic(exact), Rhumb; polygon and polyline;
//                   via AddPoint/Compute and via TestPoint.
//  short-edge-S12   S12 of edges of 1e-5 m ... 10 m against  dlambda (q1 + 4 q_mid + q2)/6  on the actual end points.
#include "mc/ctx.hpp"
#include <GeographicLib/PolygonArea.hpp>
#include <GeographicLib/GeodesicLineExact.hpp>
#include <vector>
#include <string>
#include <cmath>

using namespace GeographicLib;
using mc::Ctx; using mc::fx; using mc::fmt; using mc::fmti;
typedef long double ld;
static const double EPS = std::numeric_limits<double>::epsilon();
static const double AW = 6378137.0, FW = 1 / 298.257223563;
static const ld DEG = 3.14159265358979323846264338327950288L / 180;

// ------------------------------------------------------------------ calibrated bounds (4 x worst observed on /repo, frozen)
// narr-rows: |area - oracle| / sum|edge integrals|, per band of the third flattening: 4 x the worst value observed on the
// unchanged tree over all rows of the band (thorough), floor 2.5e-14.  Observed worst per band (thorough run):
//   n in [0,0.7): 5.4e-15   [0.7,0.8): 8.7e-15   [0.8,0.9): 6.7e-14   [0.9,0.98): 1.6e-13
//   (-0.3,0): 5.5e-15   (-0.4,-0.3]: 1.0e-14   (-0.5,-0.4]: 1.9e-14   (-0.6,-0.5]: 1.2e-13   (-0.7,-0.6]: 2.1e-13   (-0.8,-0.7]: 7.0e-13
// (the library's area accuracy degrades towards |n| -> 1 by design of the table: N is chosen per row for a target error)
static double row_tol(double n) {
  if (n >= 0) return n < 0.7 ? 2.5e-14 : n < 0.8 ? 4e-14 : n < 0.9 ? 2.8e-13 : 6.5e-13;
  return n > -0.3 ? 2.5e-14 : n > -0.4 ? 4e-14 : n > -0.5 ? 8e-14 : n > -0.6 ? 5e-13 : n > -0.7 ? 8.5e-13 : 2.8e-12;
}  // narr-rows: |area - oracle| / sum|edge integrals|   (observed worst 2.0e-14, thorough rows)
static const double TOL_ORACLE    = 2.0e-14;  // narr-rows: oracle self-check |Simpson(N) - Simpson(N/2)| / sum|edge integrals| / 15
static const double TOL_INS_ABS   = 2.0e-3;    // vertex-insertion: m^2 x (a/aWGS84)^2, plus K_INS eps sum|S12|
static const double K_INS         = 64;       // (observed worst err/tol 0.24)
static const double TOL_INSP_ABS  = 16.0e-9;  // vertex-insertion perimeter: m, plus K_INS eps sum s12   (observed worst err/tol 0.25)
static const double TOL_S12_REL   = 2.5e-8;   // short-edge-S12 relative (observed worst 5.6e-9: cancellation eps*lat/dlat in a 0.1 m edge)
static const double TOL_S12_ABS   = 4.0e-4;   // short-edge-S12 absolute floor, m^2 (observed worst err/tol 0.25)

// closed-form area between the equator and latitude phi per radian of longitude
static ld qzone(ld a, ld f, ld sphi) {
  ld e2 = f * (2 - f), b = a * (1 - f);
  ld t;
  if (e2 > 0) { ld e = sqrtl(e2); t = atanhl(e * sphi) / e; }
  else if (e2 < 0) { ld e = sqrtl(-e2); t = atanl(e * sphi) / e; }
  else t = sphi;
  return b * b / 2 * (sphi / (1 - e2 * sphi * sphi) + t);
}
static ld qdeg(double a, double f, double latdeg) { return qzone(a, f, sinl((ld)latdeg * DEG)); }

// ------------------------------------------------------------------ oracle: Int q dlambda along a geodesic (no AREA capability)
struct EdgeInt { ld val, conv; };
static EdgeInt edge_integral_N(const GeodesicExact& g, double a, double f, double lat1, double lon1, double lat2, double lon2, int N) {
  GeodesicLineExact l = g.InverseLine(lat1, lon1, lat2, lon2,
      GeodesicExact::LATITUDE | GeodesicExact::LONGITUDE | GeodesicExact::AZIMUTH | GeodesicExact::DISTANCE_IN);
  double s12 = l.Distance();
  ld e2 = (ld)f * (2 - (ld)f);
  std::vector<ld> y(N + 1);
  for (int i = 0; i <= N; ++i) {
    double lat, lon, azi; l.Position(s12 * (double(i) / N), lat, lon, azi);
    ld sp = sinl((ld)lat * DEG), cp = cosl((ld)lat * DEG), nu = (ld)a / sqrtl(1 - e2 * sp * sp);
    y[i] = qzone(a, f, sp) * sinl((ld)azi * DEG) / (nu * cp);
  }
  auto simpson = [&](int step) { ld s = 0; int M = N / step; for (int i = 0; i <= M; ++i) s += (i == 0 || i == M ? 1 : (i & 1 ? 4 : 2)) * y[i * step]; return s * ((ld)s12 / M) / 3; };
  ld s1 = simpson(1), s2 = simpson(2);
  return EdgeInt{s1 + (s1 - s2) / 15, fabsl(s1 - s2) / 15};
}

struct Pt { double lat, lon; };
static std::string pts(const std::vector<Pt>& v) { std::string s; for (auto& p : v) s += "(" + fmt(p.lat) + "," + fmt(p.lon) + ")"; return s; }

// ------------------------------------------------------------------ back-end adapters
struct Inv { double s12, azi1, S12; };
static Inv inv(const Geodesic& g, Pt p, Pt q) { Inv r; double t; g.GenInverse(p.lat, p.lon, q.lat, q.lon, Geodesic::DISTANCE | Geodesic::AZIMUTH | Geodesic::AREA, r.s12, r.azi1, t, t, t, t, r.S12); return r; }
static Inv inv(const GeodesicExact& g, Pt p, Pt q) { Inv r; double t; g.GenInverse(p.lat, p.lon, q.lat, q.lon, GeodesicExact::DISTANCE | GeodesicExact::AZIMUTH | GeodesicExact::AREA, r.s12, r.azi1, t, t, t, t, r.S12); return r; }
static Inv inv(const Rhumb& g, Pt p, Pt q) { Inv r; g.GenInverse(p.lat, p.lon, q.lat, q.lon, Rhumb::DISTANCE | Rhumb::AZIMUTH | Rhumb::AREA, r.s12, r.azi1, r.S12); return r; }
static Pt dir(const Geodesic& g, Pt p, double azi, double s) { Pt q; g.Direct(p.lat, p.lon, azi, s, q.lat, q.lon); return q; }
static Pt dir(const GeodesicExact& g, Pt p, double azi, double s) { Pt q; g.Direct(p.lat, p.lon, azi, s, q.lat, q.lon); return q; }
static Pt dir(const Rhumb& g, Pt p, double azi, double s) { Pt q; g.Direct(p.lat, p.lon, azi, s, q.lat, q.lon); return q; }

// ------------------------------------------------------------------ narr-rows
static void narr_rows(Ctx& ctx) {
  // On prolate ellipsoids the integrand is sharply peaked in s and Simpson needs many more way points: the number of
  // intervals of an edge is quadrupled until the halving self-check meets the target or NMAX is reached; rows whose
  // oracle does not converge are listed (rows_oracle_not_converged) and not judged.
  ctx.sub("narr-rows");
  const bool T = ctx.thorough();
  const int N0 = 1024, NMAX = T ? 262144 : 65536;
  ctx.bound("narr-rows.ellipsoids", std::string("a = 6378137, third flattening n = (k+0.5)/100 for every row k of GeodesicExact's narr[] with |n| <= ") + (T ? "0.98 (b/a in [0.0127, 79]; 196 rows)" : "0.60 (120 rows)") + " plus the sphere row; PolygonAreaExact and PolygonArea(Geodesic exact=true)");
  ctx.bound("narr-rows.polygons", "quadrilateral (-60,0)(-55,15)(60,40)(65,25); triangle (12,-35)(70,15)(-48,40); oracle: Simpson (1024 ... 65536 quick / 262144 thorough intervals per edge, until the halving self-check is below 2e-14) + Richardson, long double");
  const std::vector<std::vector<Pt>> polys = {{{-60, 0}, {-55, 15}, {60, 40}, {65, 25}}, {{12, -35}, {70, 15}, {-48, 40}}};
  const int kmax = T ? 97 : 59;
  for (int k = -kmax - 1; k <= kmax + 1; ++k) {
    // k = kmax+1 stands for the sphere row (n = 0)
    if (!ctx.take()) continue;
    double n = k == kmax + 1 ? 0.0 : (k + 0.5) / 100, f = 2 * n / (1 + n), a = AW;
    GeodesicExact gx(a, f); Geodesic ge(a, f, true);
    for (size_t pi = 0; pi < polys.size(); ++pi) {
      Ctx::Case cs(ctx);
      const auto& P = polys[pi];
      ld ref = 0, conv = 0, scale = 0;
      std::vector<EdgeInt> ei(P.size());
      for (size_t i = 0; i < P.size(); ++i) {
        const Pt &p = P[i], &q = P[(i + 1) % P.size()];
        ei[i] = edge_integral_N(gx, a, f, p.lat, p.lon, q.lat, q.lon, N0); scale += fabsl(ei[i].val);
      }
      for (size_t i = 0; i < P.size(); ++i) {
        const Pt &p = P[i], &q = P[(i + 1) % P.size()];
        for (int N = N0 * 4; N <= NMAX && ei[i].conv > (ld)TOL_ORACLE * scale / (2 * P.size()); N *= 4)
          ei[i] = edge_integral_N(gx, a, f, p.lat, p.lon, q.lat, q.lon, N);
      }
      scale = 0;
      for (auto& e : ei) { ref -= e.val; conv += e.conv; scale += fabsl(e.val); }
      std::string key = "n=" + fmt(n) + " poly" + fmti((long long)pi);
      mc::Fields F{{"n", fmt(n)}, {"f", fmt(f)}, {"row", fmti(k)}, {"polygon", pts(P)}};
      auto FF = [&](const char* kind) { mc::Fields g = F; g.push_back({"kind", kind}); return g; };
      if (!((double)(conv / scale) <= TOL_ORACLE)) { ctx.count("rows_oracle_not_converged"); ctx.list("rows_oracle_not_converged", key + " (self-check " + fmt((double)(conv / scale)) + " at " + fmti(NMAX) + " intervals)"); continue; }
      ctx.worst("narr-rows.oracle_selfcheck_over_tol", (double)(conv / scale) / TOL_ORACLE, key);
      ctx.count("rows_judged");
      for (int be = 0; be < 2; ++be) {
        double per, area;
        if (be == 0) { PolygonAreaExact pa(gx); for (auto& p : P) pa.AddPoint(p.lat, p.lon); pa.Compute(false, true, per, area); }
        else { PolygonArea pa(ge); for (auto& p : P) pa.AddPoint(p.lat, p.lon); pa.Compute(false, true, per, area); }
        double rel = (double)(fabsl((ld)area - ref) / scale);
        const double TOL_ROW_REL = row_tol(n);
        { char bn[64]; snprintf(bn, sizeof bn, "narr-rows.rel_err.band_n_%+.3f", n == 0 ? 0.0 : (n > 0 ? std::floor(n * 10 + 1e-9) / 10 + 0.001 : std::ceil(n * 10 - 1e-9) / 10 - 0.001)); ctx.worst(bn, rel, key); }
        ctx.worst("narr-rows.area_rel_err_over_tol", rel / TOL_ROW_REL, key + (be ? " Geodesic(exact)" : " GeodesicExact"));
        ctx.sig((uint64_t)(k + 200) * 4 + pi * 2 + be);
        if (!(rel <= TOL_ROW_REL))
          ctx.fail(key + (be ? " GE" : " X"), std::string(be ? "PolygonArea(Geodesic exact)" : "PolygonAreaExact") + " area " + fx(area) + " but the line integral of the zonal area along the edges gives " +
                   mc::fmtl(ref) + " (difference " + fmt((double)((ld)area - ref)) + " m^2, " + fmt(rel) + " of sum|edge integrals|; tol " + fmt(TOL_ROW_REL) + ")", FF("area-vs-line-integral"));
        if (ctx.want_sample()) ctx.sample(key + " area " + fmt(area) + " oracle " + mc::fmtl(ref));
      }
    }
  }
}

// ------------------------------------------------------------------ vertex insertion
static const double OFFS[10] = {1e-6, 1e-4, 1e-3, 1e-2, 5e-2, 0.1, 0.2, 0.25, 1, 10};

template <class G> static void insertion(Ctx& ctx, const char* bname, const G& g, double a, double f, const std::vector<std::vector<Pt>>& polys) {
  typedef PolygonAreaT<G> PA;
  const double ka = (a / AW) * (a / AW), kl = a / AW;
  for (size_t pi = 0; pi < polys.size(); ++pi) for (int polyline = 0; polyline < 2; ++polyline) {
    if (!ctx.take()) continue;
    const auto& P = polys[pi]; const int n = (int)P.size();
    double per0, area0 = 0;
    { PA pa(g, polyline); for (auto& p : P) pa.AddPoint(p.lat, p.lon); pa.Compute(false, true, per0, area0); }
    const int nedges = polyline ? n - 1 : n;
    for (int e = 0; e < nedges; ++e) {
      const Pt p = P[e], q = P[(e + 1) % n];
      Inv fw = inv(g, p, q), bw = inv(g, q, p);
      for (int end = 0; end < 2; ++end) for (int oi = 0; oi < 10; ++oi) {
        Ctx::Case cs(ctx);
        double d = OFFS[oi] * kl;
        if (!(d < fw.s12 / 2)) continue;
        Pt m = end == 0 ? dir(g, p, fw.azi1, d) : dir(g, q, bw.azi1, d);      // on the edge, d from p resp. from q
        std::vector<Pt> Q(P.begin(), P.begin() + e + 1); Q.push_back(m); Q.insert(Q.end(), P.begin() + e + 1, P.end());
        // scale of the sums for the round-off part of the tolerance
        double sumS = 0, sumL = 0;
        for (size_t i = 0; i + (polyline ? 1 : 0) < Q.size(); ++i) { Inv r = inv(g, Q[i], Q[(i + 1) % Q.size()]); sumS += std::fabs(r.S12); sumL += r.s12; }
        double tolA = TOL_INS_ABS * ka + K_INS * EPS * sumS, tolP = TOL_INSP_ABS * kl + K_INS * EPS * sumL;
        std::string key = std::string(bname) + (polyline ? " polyline " : " polygon ") + pts(P) + " edge" + fmti(e) + (end ? " from-end " : " from-start ") + fmt(OFFS[oi]);
        mc::Fields F{{"backend", bname}, {"mode", polyline ? "polyline" : "polygon"}, {"polygon", pts(P)}, {"edge", fmti(e)}, {"offset_m", fmt(d)}, {"inserted", "(" + fx(m.lat) + "," + fx(m.lon) + ")"}};
        auto FF = [&](const char* kind) { mc::Fields h = F; h.push_back({"kind", kind}); return h; };
        auto judge = [&](const char* via, double per, double area) {
          double dp = std::fabs(per - per0), da = std::fabs(std::remainder(area - area0, g.EllipsoidArea()));
          ctx.worst(std::string("insert.") + via + ".perimeter_err_over_tol", dp / tolP, key);
          if (!(dp <= tolP)) ctx.fail(key + " " + via + " perimeter", std::string("inserting a vertex ") + fmt(d) + " m along an edge changes the perimeter (" + via + ") by " + fmt(per - per0) + " m (" + fx(per) + " vs " + fx(per0) + ", tol " + fmt(tolP) + ")", FF("insert-perimeter"));
          if (polyline) return;
          ctx.worst(std::string("insert.") + via + ".area_err_over_tol", da / tolA, key);
          if (!(da <= tolA)) ctx.fail(key + " " + via + " area", std::string("inserting a vertex ") + fmt(d) + " m along an edge changes the area (" + via + ") by " + fmt(area - area0) + " m^2 (" + fx(area) + " vs " + fx(area0) + ", tol " + fmt(tolA) + ")", FF("insert-area"));
        };
        { PA pa(g, polyline); for (auto& v : Q) pa.AddPoint(v.lat, v.lon); double per, area = 0; pa.Compute(false, true, per, area); judge("AddPoint", per, area); }
        // through the tentative query: rotate (polygon) so that the inserted vertex is the last one; polyline: only on the last edge
        if (!polyline) {
          PA pa(g, false);
          for (int i = 0; i < n; ++i) { const Pt& v = P[(e + 1 + i) % n]; pa.AddPoint(v.lat, v.lon); }     // q ... p ; closing edge p -> q carries m
          double per, area; pa.TestPoint(m.lat, m.lon, false, true, per, area); judge("TestPoint", per, area);
        } else if (e == n - 2) {
          PA pa(g, true);
          for (int i = 0; i <= e; ++i) pa.AddPoint(P[i].lat, P[i].lon);
          pa.AddPoint(m.lat, m.lon);
          double per, area = 0; pa.TestPoint(q.lat, q.lon, false, true, per, area); judge("TestPoint", per, area);
        }
        ctx.sig((uint64_t)oi * 4 + end * 2 + polyline);
      }
    }
  }
}

// ------------------------------------------------------------------ S12 of short edges
template <class G> static void short_s12(Ctx& ctx, const char* bname, const G& g, double a, double f) {
  static const double LATS[] = {-75, -47.3, -20, -1e-3, 0, 0.5, 10, 33.3, 46.6, 60, 80, 89};
  static const double LONS[] = {0, 8.95, -179.99999, 123.4};
  static const double AZIS[] = {1e-3, 10, 45, 57.3, 90, 120, 179, -135, -90, -30};
  static const double LENS[] = {1e-5, 1e-4, 1e-3, 1e-2, 5e-2, 0.1, 0.2, 0.25, 0.5, 1, 10};
  const double kl = a / AW;
  for (double lat : LATS) {
    if (!ctx.take()) continue;
    for (double lon : LONS) for (double azi : AZIS) for (double len : LENS) {
      Ctx::Case cs(ctx);
      Pt p{lat, lon}, q = dir(g, p, azi, len * kl);
      if (std::fabs(q.lat) > 89.9) continue;
      for (int rev = 0; rev < 2; ++rev) {
        Pt u = rev ? q : p, v = rev ? p : q;
        Inv r = inv(g, u, v);
        ld dlam = (ld)std::remainder(v.lon - u.lon, 360.0) * DEG;       // exact difference of the given longitudes (Sterbenz)
        ld q1 = qdeg(a, f, u.lat), q2 = qdeg(a, f, v.lat), qm = qdeg(a, f, (double)(((ld)u.lat + (ld)v.lat) / 2));
        ld ref = dlam * (q1 + 4 * qm + q2) / 6;
        double err = (double)fabsl((ld)r.S12 - ref), tol = TOL_S12_REL * (double)fabsl(ref) + TOL_S12_ABS * kl * kl;
        std::string key = std::string(bname) + " (" + fmt(u.lat) + "," + fmt(u.lon) + ")->(" + fmt(v.lat) + "," + fmt(v.lon) + ")";
        ctx.worst("short-edge.S12_err_over_tol", err / tol, key);
        if (!(err <= tol))
          ctx.fail(key, "S12 of a " + fmt(r.s12) + " m edge is " + fx(r.S12) + " but dlambda x zonal area = " + mc::fmtl(ref) + " (relative difference " + fmt(err / (double)fabsl(ref)) + ")",
                   {{"kind", "short-edge-S12"}, {"backend", bname}, {"lat", fmt(lat)}, {"lon", fmt(lon)}, {"azi", fmt(azi)}, {"len", fmt(len)}, {"reversed", fmti(rev)}});
      }
      ctx.sig((uint64_t)(len * 1e6) + (uint64_t)(azi + 200) * 1000003);
    }
  }
}

// ------------------------------------------------------------------ rhumb anchors (closed forms; no library area code)
static const double TOL_THIN_ABS = 1.0e-6;   // thin-rhumb-triangles: m^2 (a/aWGS84)^2, plus K_THIN eps sum|S12|
static const double K_THIN       = 16;       // (observed worst err/tol: see evidence; 4 x clean worst <= 1)
static const double TOL_ZONE_REL = 2.5e-13;  // rhumb-zones: |area - closed form| / ellipsoid area (observed worst 5.8e-14)
static const double TOL_ZONE_REL_95 = 1.4e-12; // the same for |n| > 0.9 (observed worst 3.3e-13 at n = 0.95)

static ld rho_area(ld a, ld f, ld phi) {       // dA = rho dphi dlambda (radians)
  ld e2 = f * (2 - f), s = sinl(phi), c = cosl(phi), w = 1 - e2 * s * s;
  return a * a * (1 - e2) * c / (w * w);
}
static ld hpsi(ld f, ld phi) {                 // dphi/dpsi
  ld e2 = f * (2 - f), s = sinl(phi);
  return cosl(phi) * (1 - e2 * s * s) / (1 - e2);
}
static ld psi_iso(ld f, ld phi) {
  ld e2 = f * (2 - f), s = sinl(phi), t = asinhl(tanl(phi));
  if (e2 > 0) { ld e = sqrtl(e2); return t - e * atanhl(e * s); }
  if (e2 < 0) { ld e = sqrtl(-e2); return t + e * atanl(e * s); }
  return t;
}
// Int q dlambda along the rhumb line from (lat1, lon) over dlam (radians) to lat2: dlam x mean of q over psi
static ld rhumb_edge_integral(ld a, ld f, double lat1, double lat2, ld dlam, ld* conv) {
  if (conv) *conv = 0;
  if (lat1 == lat2) return dlam * qdeg((double)a, (double)f, lat1);
  if (dlam == 0) return 0;
  ld p1 = (ld)lat1 * DEG, p2 = (ld)lat2 * DEG, dpsi = psi_iso(f, p2) - psi_iso(f, p1);
  const int N = 4096; std::vector<ld> y(N + 1);
  for (int i = 0; i <= N; ++i) { ld p = p1 + (p2 - p1) * i / N; y[i] = qzone(a, f, sinl(p)) / hpsi(f, p); }
  auto simpson = [&](int step) { ld t = 0; int M = N / step; for (int i = 0; i <= M; ++i) t += (i == 0 || i == M ? 1 : (i & 1 ? 4 : 2)) * y[i * step]; return t * ((p2 - p1) / M) / 3; };
  ld s1 = simpson(1), s2 = simpson(2);
  if (conv) *conv = fabsl((s1 - s2) / 15 * dlam / dpsi);
  return (s1 + (s1 - s2) / 15) * dlam / dpsi;
}

static void thin_rhumb(Ctx& ctx) {
  ctx.sub("thin-rhumb-triangles");
  ctx.bound("thin-rhumb-triangles", "(phi,0)->(phi+d,L)->(phi+d,0): phi in {0.5,20,45,60,85,-70} x d in {1e-15,1e-14,3e-14,1e-13,1e-12,1e-11,1e-10,1e-8,1e-6} deg (the exact double difference is used) x L in {1,30,120} deg; Rhumb series and exact on WGS84, exact on f=0.5 and f=-0.5; PolygonAreaRhumb via AddPoint+Compute and via TestPoint against 1/2 L d (rho + d (kappa rho/6 + 2 rho'/3))");
  static const double PHI[] = {0.5, 20, 45, 60, 85, -70}, DD[] = {1e-15, 1e-14, 3e-14, 1e-13, 1e-12, 1e-11, 1e-10, 1e-8, 1e-6}, LL[] = {1, 30, 120};
  struct E { const char* name; double a, f; bool exact; };
  static const E ES[] = {{"WGS84-series", AW, FW, false}, {"WGS84-exact", AW, FW, true}, {"f=0.5-exact", AW, 0.5, true}, {"f=-0.5-exact", AW, -0.5, true}};
  for (const E& el : ES) {
    if (!ctx.take()) continue;
    Rhumb r(el.a, el.f, el.exact);
    for (double phi : PHI) for (double d0 : DD) for (double L : LL) {
      Ctx::Case cs(ctx);
      double phi2 = phi + d0;
      ld d = ((ld)phi2 - (ld)phi) * DEG;                      // exact difference of the two doubles
      if (d == 0) { ctx.count("thin_triangles_d_below_one_ulp"); continue; }
      ld p1 = (ld)phi * DEG, Lr = (ld)L * DEG, hstep = 1e-5L;
      ld rho = rho_area(el.a, el.f, p1), drho = (rho_area(el.a, el.f, p1 + hstep) - rho_area(el.a, el.f, p1 - hstep)) / (2 * hstep);
      ld kappa = (hpsi(el.f, p1 + hstep) - hpsi(el.f, p1 - hstep)) / (2 * hstep) / hpsi(el.f, p1);
      ld want = Lr * d / 2 * (rho + d * (kappa * rho / 6 + 2 * drho / 3));
      double S1, S2, t; r.Inverse(phi, 0, phi2, L, t, t, S1); r.Inverse(phi2, L, phi2, 0, t, t, S2);
      double tol = TOL_THIN_ABS * (el.a / AW) * (el.a / AW) + K_THIN * EPS * (std::fabs(S1) + std::fabs(S2));
      std::string key = std::string(el.name) + " phi=" + fmt(phi) + " d=" + fmt(d0) + " L=" + fmt(L);
      for (int via = 0; via < 2; ++via) {
        PolygonAreaRhumb pa(r); double per, area;
        pa.AddPoint(phi, 0); pa.AddPoint(phi2, L);
        if (via == 0) { pa.AddPoint(phi2, 0); pa.Compute(false, true, per, area); } else pa.TestPoint(phi2, 0, false, true, per, area);
        double err = (double)fabsl((ld)area - want);
        ctx.worst("thin-rhumb.area_err_over_tol", err / tol, key);
        if (!(err <= tol))
          ctx.fail(key + (via ? " TestPoint" : " Compute"), "thin rhumb triangle area " + fx(area) + " but 1/2 L d rho = " + mc::fmtl(want) + " (ratio " + fmt((double)((ld)area / want)) + ", tol " + fmt(tol) + ")",
                   {{"kind", "thin-rhumb-triangle"}, {"ellipsoid", el.name}, {"phi", fmt(phi)}, {"d", fmt(d0)}, {"L", fmt(L)}, {"via", via ? "TestPoint" : "Compute"}});
      }
      ctx.sig((uint64_t)(phi + 100) * 1000 + (uint64_t)L + (uint64_t)(-std::log10(d0)) * 100000);
      if (ctx.want_sample()) ctx.sample(key + " closed form " + mc::fmtl(want));
    }
  }
}

static void rhumb_zones(Ctx& ctx) {
  ctx.sub("rhumb-zones");
  ctx.bound("rhumb-zones", "Rhumb(exact) on a=6378137, third flattening n in {WGS84, 1/3, +-0.5, +-0.7, +-0.75, +-0.8, +-0.85, +-0.9, 0.95} (and Rhumb series on WGS84): quadrilaterals (0,0)(0,90)(phi,90)(phi,0), phi in {30,60,85,-45}, against the closed-form zone area q(phi) pi/2, and the polygon (10,0)(50,40)(70,100)(-20,130) against Int q dlambda along the rhumb edges (lambda linear in the closed-form isometric latitude; Simpson 4096 in latitude, long double)");
  static const double NS[] = {0, 1.0 / 3, 0.5, -0.5, 0.7, -0.7, 0.75, -0.75, 0.8, -0.8, 0.85, -0.85, 0.9, -0.9, 0.95};
  const std::vector<std::vector<Pt>> polys = {
    {{0, 0}, {0, 90}, {30, 90}, {30, 0}}, {{0, 0}, {0, 90}, {60, 90}, {60, 0}}, {{0, 0}, {0, 90}, {85, 90}, {85, 0}}, {{0, 0}, {0, 90}, {-45, 90}, {-45, 0}},
    {{10, 0}, {50, 40}, {70, 100}, {-20, 130}}};
  for (int ei = -1; ei < (int)(sizeof NS / sizeof NS[0]); ++ei) {
    if (!ctx.take()) continue;
    double n = ei <= 0 ? FW / (2 - FW) : NS[ei], f = ei <= 0 ? FW : 2 * n / (1 + n), a = AW;
    bool exact = ei >= 0;
    Rhumb r(a, f, exact);
    double A0 = r.EllipsoidArea();
    for (size_t pi = 0; pi < polys.size(); ++pi) {
      Ctx::Case cs(ctx);
      const auto& P = polys[pi];
      ld want = 0, conv = 0;
      for (size_t i = 0; i < P.size(); ++i) {
        const Pt &p = P[i], &q = P[(i + 1) % P.size()]; ld c;
        want -= rhumb_edge_integral(a, f, p.lat, q.lat, (ld)(q.lon - p.lon) * DEG, &c); conv += c;
      }
      std::string key = std::string(exact ? "exact" : "series") + " n=" + fmt(n) + " " + pts(P);
      if (!((double)conv <= 0.1 * ::TOL_ZONE_REL * A0)) { ctx.count("rhumb_oracle_not_converged"); ctx.list("rhumb_oracle_not_converged", key); continue; }
      PolygonAreaRhumb pa(r); for (auto& v : P) pa.AddPoint(v.lat, v.lon);
      double per, area; pa.Compute(false, true, per, area);
      double rel = (double)fabsl((ld)area - want) / A0;
      const double TOL_ZONE_REL = std::fabs(n) > 0.9 ? TOL_ZONE_REL_95 : ::TOL_ZONE_REL;
      { char bn[64]; snprintf(bn, sizeof bn, "rhumb-zones.rel_err.%s_n_%+.3f", exact ? "exact" : "series", n); ctx.worst(bn, rel, key); }
      ctx.worst("rhumb-zones.area_err_over_tol", rel / TOL_ZONE_REL, key);
      ctx.sig((uint64_t)(ei + 2) * 16 + pi);
      if (!(rel <= TOL_ZONE_REL))
        ctx.fail(key, "PolygonAreaRhumb area " + fx(area) + " but the closed form gives " + mc::fmtl(want) + " (difference " + fmt((double)((ld)area - want)) + " m^2 = " + fmt(rel) + " of the ellipsoid area; tol " + fmt(TOL_ZONE_REL) + ")",
                 {{"kind", "rhumb-zone-area"}, {"n", fmt(n)}, {"exact", fmti(exact)}, {"polygon", pts(P)}});
    }
  }
}

int main(int argc, char** argv) {
  Ctx ctx(argc, argv);
  narr_rows(ctx);
  thin_rhumb(ctx);
  rhumb_zones(ctx);

  const std::vector<std::vector<Pt>> polys = {
    {{47.10, 8.20}, {46.60, 8.95}, {47.25, 9.85}},                            // 60-110 km, mid latitude
    {{-33.5, -70.2}, {-34.1, -69.4}, {-33.2, -68.9}, {-32.9, -69.8}},         // southern, western
    {{0.3, -0.4}, {-0.5, 0.2}, {0.4, 0.6}},                                   // straddles the equator and longitude 0
    {{10, 179.6}, {10.5, -179.7}, {9.4, -179.9}},                             // straddles +-180
    {{60, 20}, {65, 40}, {70, 10}},                                           // ~1000 km
    {{0, 0}, {45, 90}, {-20, 359.5}},                                         // points of the history alphabet (continental)
    {{10, 180}, {45, 90}, {-20, -0.5}, {30, 1e-13}},
    {{88.5, 10}, {89, 130}, {88.7, -120}},                                    // encloses the pole
  };
  Geodesic gw(AW, FW), ge(AW, FW, true), gu(1, 1 / 150.0); GeodesicExact xw(AW, FW); Rhumb rw(AW, FW);
  ctx.sub("vertex-insertion");
  ctx.bound("vertex-insertion", "8 polygons (60 km ... continental, equator/0/180 straddling, pole enclosing) x every edge x both ends x offsets {1e-6,1e-4,1e-3,1e-2,5e-2,0.1,0.2,0.25,1,10} m x {Geodesic, GeodesicExact, Geodesic(exact), Rhumb on WGS84; Geodesic a=1 f=1/150} x polygon/polyline, via AddPoint+Compute and via TestPoint");
  insertion(ctx, "Geodesic", gw, AW, FW, polys);
  insertion(ctx, "GeodesicExact", xw, AW, FW, polys);
  insertion(ctx, "Geodesic(exact)", ge, AW, FW, polys);
  insertion(ctx, "Rhumb", rw, AW, FW, polys);
  insertion(ctx, "Geodesic(a=1)", gu, 1, 1 / 150.0, polys);
  ctx.sub("short-edge-S12");
  ctx.bound("short-edge-S12", "12 latitudes x 4 longitudes x 10 azimuths x lengths {1e-5 ... 10} m, both directions, Geodesic / GeodesicExact / Geodesic(exact) / Rhumb on WGS84, Geodesic a=1 f=1/150");
  short_s12(ctx, "Geodesic", gw, AW, FW);
  short_s12(ctx, "GeodesicExact", xw, AW, FW);
  short_s12(ctx, "Geodesic(exact)", ge, AW, FW);
  short_s12(ctx, "Rhumb", rw, AW, FW);
  short_s12(ctx, "Geodesic(a=1)", gu, 1, 1 / 150.0);
  return ctx.finish();
}
