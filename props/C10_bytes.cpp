// C10 -- part 2 of 3 (flavour san: clang ASan + UBSan): (c) every short byte string offered to every text parser.
//
// Spaces: every byte string of length <= 2 (65 793); every string of length 3 over a 64-byte (thorough 96-byte)
// alphabet; thorough also all 2^24 strings of length 3 through DMS::Decode; pumped token strings p w^k q (repetition
// reaches the states that need many components).  Each string is offered to
//   DMS::Decode, DecodeAngle, DecodeAzimuth, DecodeLatLon (as first and as second argument, partner "7"),
//   Utility::val<double|int|bool>, fract<double>, nummatch<double>, ParseLine (blank and '=' delimiter),
//   GeoCoords::Reset(string).
// Predicates: no sanitizer report, no signal, only GeographicErr; outputs untouched when a call throws; and -- where the
// documentation decides (models/dms_grammar.hpp, models/text_refs.hpp) -- accepted/rejected as documented with the
// documented value.
//
// The library calls of one unit (all strings with one first byte) run in a forked child that only records outcomes in
// shared memory; the parent judges them.  A child that dies (ASan/UBSan report, signal, watchdog) is a violation of
// the string it was executing; a new child resumes with the next string.
#include "mc/ctx.hpp"
#include "models/dms_grammar.hpp"
#include "models/text_refs.hpp"
#include <GeographicLib/DMS.hpp>
#include <GeographicLib/Utility.hpp>
#include <GeographicLib/GeoCoords.hpp>
#include <string>
#include <vector>
#include <algorithm>
#include <unistd.h>
#include <sys/mman.h>
#include <sys/wait.h>
#include <fcntl.h>

using namespace GeographicLib;
using mc::Ctx; using mc::fx; using mc::fmt; using mc::fmti;

static const double SENT = -12345.678;
static const int FSENT = 7;
static const double EPS = std::numeric_limits<double>::epsilon();

static std::string show(const std::string& s) {
  std::string o;
  for (unsigned char c : s) { if (c >= 0x20 && c < 0x7f && c != '\\') o += char(c); else { char b[8]; snprintf(b, sizeof b, "\\x%02x", c); o += b; } }
  return o;
}

enum { C_DECODE, C_ANGLE, C_AZI, C_LL1, C_LL2, C_VALD, C_VALI, C_VALB, C_FRACT, C_NUMMATCH, C_PL0, C_PLEQ, C_GEOCOORDS, NCALL };
static const char* CALLNAME[NCALL] = {"Decode", "DecodeAngle", "DecodeAzimuth", "DecodeLatLon(s,7)", "DecodeLatLon(7,s)", "val<double>", "val<int>", "val<bool>",
                                      "fract<double>", "nummatch<double>", "ParseLine(blank)", "ParseLine(=)", "GeoCoords::Reset"};
struct Rec {
  unsigned char oc[NCALL];        // 0 ok, 1 GeographicErr, 2 other std::exception, 3 unknown exception, 4 the process died in the call
  unsigned char found[2];
  unsigned klen[2], vlen[2];        // ParseLine outputs: length, hash and the first 8 bytes
  uint64_t khash[2], vhash[2];
  char key[2][8], value[2][8];
  int ind;
  double v[NCALL], lat[2], lon[2];
};
struct Shm { volatile long cur; volatile long done; volatile int call; volatile unsigned mask; Rec rec[1]; };
static volatile int* g_call = nullptr;        // entry point being executed (child side)
#define AT(c) do { if (g_call) *g_call = (c); } while (0)

static uint64_t fnv(const std::string& s) { uint64_t h = 1469598103934665603ULL; for (unsigned char c : s) { h ^= c; h *= 1099511628211ULL; } return h; }
template <class F> static unsigned char guard(F f) {
  try { f(); return 0; }
  catch (const GeographicErr&) { return 1; }
  catch (const std::exception&) { return 2; }
  catch (...) { return 3; }
}
// runs entry points from_call.. on s; a fresh record is started when from_call == 0 (after the death of a child the
// same string is resumed behind the entry point that died)
static void run_string(const std::string& s, Rec& r, int from_call, unsigned mask) {
  if (from_call == 0) {
    memset(&r, 0, sizeof r);
    for (int i = 0; i < NCALL; ++i) { r.v[i] = SENT; r.oc[i] = 4; }          // 4 = not executed / died
    r.lat[0] = r.lon[0] = r.lat[1] = r.lon[1] = SENT; r.ind = FSENT;
  }
  auto go = [&](int c) { if (c < from_call || !(mask >> c & 1)) return false; AT(c); return true; };
  if (go(C_DECODE)) { DMS::flag f = DMS::flag(FSENT); r.oc[C_DECODE] = guard([&] { double v = DMS::Decode(s, f); r.v[C_DECODE] = v; }); r.ind = int(f); }
  if (go(C_ANGLE)) r.oc[C_ANGLE] = guard([&] { double v = DMS::DecodeAngle(s); r.v[C_ANGLE] = v; });
  if (go(C_AZI)) r.oc[C_AZI] = guard([&] { double v = DMS::DecodeAzimuth(s); r.v[C_AZI] = v; });
  if (go(C_LL1)) r.oc[C_LL1] = guard([&] { DMS::DecodeLatLon(s, "7", r.lat[0], r.lon[0]); });
  if (go(C_LL2)) r.oc[C_LL2] = guard([&] { DMS::DecodeLatLon("7", s, r.lat[1], r.lon[1]); });
  if (go(C_VALD)) r.oc[C_VALD] = guard([&] { double v = Utility::val<double>(s); r.v[C_VALD] = v; });
  if (go(C_VALI)) r.oc[C_VALI] = guard([&] { int v = Utility::val<int>(s); r.v[C_VALI] = v; });
  if (go(C_VALB)) r.oc[C_VALB] = guard([&] { bool v = Utility::val<bool>(s); r.v[C_VALB] = v; });
  if (go(C_FRACT)) r.oc[C_FRACT] = guard([&] { double v = Utility::fract<double>(s); r.v[C_FRACT] = v; });
  if (go(C_NUMMATCH)) r.oc[C_NUMMATCH] = guard([&] { double v = Utility::nummatch<double>(s); r.v[C_NUMMATCH] = v; });
  for (int k = 0; k < 2; ++k) {
    if (!go(C_PL0 + k)) continue;
    std::string key = "<k>", value = "<v>";
    r.oc[C_PL0 + k] = guard([&] { bool f = Utility::ParseLine(s, key, value, k ? '=' : '\0', '#'); r.found[k] = f; });
    r.klen[k] = (unsigned)key.size(); r.vlen[k] = (unsigned)value.size(); r.khash[k] = fnv(key); r.vhash[k] = fnv(value);
    memcpy(r.key[k], key.data(), std::min<size_t>(key.size(), 8)); memcpy(r.value[k], value.data(), std::min<size_t>(value.size(), 8));
  }
  if (go(C_GEOCOORDS)) r.oc[C_GEOCOORDS] = guard([&] { GeoCoords g; g.Reset(s); r.v[C_GEOCOORDS] = g.Latitude(); });
}

// ------------------------------------------------------------------ judging (parent)
// round-off allowance in ulps: 4, plus one per integer digit beyond the 15 a double holds exactly (the decoder accumulates
// long numerals digit by digit; the documentation gives no accuracy for them)
static long double ulps_for(int idigits) { return 4 + std::max(0, idigits - 15); }
static bool close_value(double got, long double want, long double mag, bool special, int idigits = 0) {
  if (special || std::isnan((double)want) || std::isinf((double)want)) { if (std::isnan((double)want)) return std::isnan(got); return got == (double)want; }
  long double tol = ulps_for(idigits) * (long double)EPS * std::max(mag, fabsl(want)) + 1e-300L;
  return fabsl((long double)got - want) <= tol;
}
static const dmsg::Result& seven() { static dmsg::Result g = dmsg::recognise("7"); return g; }

static void judge(Ctx& ctx, const std::string& s, const Rec& r) {
  std::string key = "'" + show(s) + "'";
  auto F = [&](const char* kind, int call, const char* why = "") { return mc::Fields{{"kind", kind}, {"fn", CALLNAME[call]}, {"string", show(s)}, {"why", why}}; };
  uint64_t h = 0; for (int i = 0; i < NCALL; ++i) h = h * 5 + r.oc[i];
  // ---- only the library's exception
  for (int i = 0; i < NCALL; ++i) if (r.oc[i] == 2 || r.oc[i] == 3) ctx.fail(key + "/" + CALLNAME[i], std::string(CALLNAME[i]) + " threw an exception that is not GeographicErr", F("foreign-exception", i));
  if (r.oc[C_NUMMATCH] >= 1 && r.oc[C_NUMMATCH] <= 3) ctx.fail(key + "/nummatch", "nummatch threw", F("nummatch-throws", C_NUMMATCH));
  if ((r.oc[C_PL0] >= 1 && r.oc[C_PL0] <= 3) || (r.oc[C_PLEQ] >= 1 && r.oc[C_PLEQ] <= 3)) ctx.fail(key + "/ParseLine", "ParseLine threw", F("parseline-throws", C_PL0));
  // ---- outputs untouched on throw
  if (r.oc[C_DECODE] == 1 && r.ind != FSENT) ctx.fail(key + "/ind", "Decode threw but modified the flag output", F("touched", C_DECODE));
  for (int k = 0; k < 2; ++k) if (r.oc[C_LL1 + k] == 1 && (r.lat[k] != SENT || r.lon[k] != SENT)) ctx.fail(key + "/ll" + fmti(k), "DecodeLatLon threw but modified lat/lon (documented: unchanged)", F("touched", C_LL1 + k));
  // ---- Decode family against the grammar
  dmsg::Result g = dmsg::recognise(s);
  h = (h * 3 + g.verdict) * 4 + (g.verdict == dmsg::ACCEPT ? g.flag : 3);
  if (g.verdict == dmsg::SILENT) { ctx.count("doc_silent"); ctx.list("doc_silent_classes", g.why); }
  else {
    if (g.lowercase_hemi && g.verdict == dmsg::ACCEPT) ctx.count("lowercase_hemisphere_assumed");
    bool want = g.verdict == dmsg::ACCEPT;
    if (r.oc[C_DECODE] < 2) {
      if (want != (r.oc[C_DECODE] == 0)) ctx.fail(key, want ? "documented-legal string rejected by Decode" : "malformed string (" + std::string(g.why) + ") accepted by Decode, gives " + fx(r.v[C_DECODE]) + " flag " + fmti(r.ind), F(want ? "valid-rejected" : "invalid-accepted", C_DECODE, g.why));
      else if (want) {
        if (!close_value(r.v[C_DECODE], g.value, g.mag, g.special, g.maxidigits)) ctx.fail(key + "/value", "Decode = " + fx(r.v[C_DECODE]) + ", documented meaning " + mc::fmtl(g.value), F("value", C_DECODE));
        if (r.ind != g.flag) ctx.fail(key + "/flag", "Decode flag " + fmti(r.ind) + ", documented " + fmti(g.flag), F("flag", C_DECODE));
      }
    }
    bool wantA = want && g.flag == dmsg::NONE, wantZ = want && g.flag != dmsg::LATITUDE;
    if (r.oc[C_ANGLE] < 2) {
      if (wantA != (r.oc[C_ANGLE] == 0)) ctx.fail(key + "/angle", std::string("DecodeAngle ") + (r.oc[C_ANGLE] == 0 ? "accepted" : "rejected") + " a string that is " + (wantA ? "a legal arc angle" : "not a legal arc angle"), F(wantA ? "valid-rejected" : "invalid-accepted", C_ANGLE, g.why));
      else if (wantA && !close_value(r.v[C_ANGLE], g.value, g.mag, g.special, g.maxidigits)) ctx.fail(key + "/angle", "DecodeAngle = " + fx(r.v[C_ANGLE]), F("value", C_ANGLE));
    }
    if (r.oc[C_AZI] < 2 && !g.special) {                      // azimuth of nan/inf: "reduced to [-180,180]" leaves it undocumented
      if (wantZ != (r.oc[C_AZI] == 0)) ctx.fail(key + "/azi", std::string("DecodeAzimuth ") + (r.oc[C_AZI] == 0 ? "accepted" : "rejected") + " a string that is " + (wantZ ? "a legal azimuth" : "not a legal azimuth"), F(wantZ ? "valid-rejected" : "invalid-accepted", C_AZI, g.why));
      else if (wantZ) {
        double z = r.v[C_AZI];
        { long double d = remainderl((long double)z - g.value, 360.0L); if (!(fabsl(d) <= ulps_for(g.maxidigits) * (long double)EPS * std::max(g.mag, 360.0L)) || !(std::fabs(z) <= 180)) ctx.fail(key + "/azi", "DecodeAzimuth = " + fx(z) + " want " + mc::fmtl(g.value) + " reduced", F("value", C_AZI)); }
      }
    }
    // DecodeLatLon with partner "7" (no designator)
    for (int k = 0; k < 2; ++k) {
      if (r.oc[C_LL1 + k] >= 2) continue;
      bool w = want; long double lat = 0, lon = 0; bool silent = false;
      if (w) {
        int is = g.flag, i7 = dmsg::NONE;
        if (is == dmsg::NONE) { is = k == 0 ? dmsg::LATITUDE : dmsg::LONGITUDE; i7 = 3 - is; } else i7 = 3 - is;
        lat = is == dmsg::LATITUDE ? g.value : seven().value; lon = is == dmsg::LATITUDE ? seven().value : g.value;
        if (std::isnan((double)lat)) silent = true;
        else if (fabsl(lat) > 90) { w = false; if (fabsl(lat) <= 90 * (1 + 4 * (long double)EPS)) silent = true; }
      }
      if (silent) { ctx.count("doc_silent"); continue; }
      if (w != (r.oc[C_LL1 + k] == 0)) ctx.fail(key + "/ll" + fmti(k), std::string(CALLNAME[C_LL1 + k]) + (r.oc[C_LL1 + k] == 0 ? " accepted" : " rejected") + " against the documented rules", F(w ? "valid-rejected" : "invalid-accepted", C_LL1 + k, g.why));
      else if (w && (!close_value(r.lat[k], lat, std::max(g.mag, 7.0L), g.special && std::isinf((double)lat), g.maxidigits) || !close_value(r.lon[k], lon, std::max(g.mag, 7.0L), g.special, g.maxidigits)))
        ctx.fail(key + "/ll" + fmti(k) + "/value", std::string(CALLNAME[C_LL1 + k]) + " = (" + fx(r.lat[k]) + "," + fx(r.lon[k]) + ") want (" + mc::fmtl(lat) + "," + mc::fmtl(lon) + ")", F("value", C_LL1 + k));
    }
  }
  // ---- Utility readers against their documented behaviour
  auto num = [&](int call, const tref::Num& t, bool bitwise) {
    h = h * 3 + t.v;
    if (t.v == tref::SILENT) { ctx.count("doc_silent_utility"); ctx.list("doc_silent_classes", std::string(CALLNAME[call]) + ": " + t.why); return; }
    if (r.oc[call] >= 2) return;
    bool want = t.v == tref::ACCEPT;
    if (want != (r.oc[call] == 0)) { ctx.fail(key + "/" + CALLNAME[call], std::string(CALLNAME[call]) + (r.oc[call] == 0 ? " accepted (" + fx(r.v[call]) + ")" : " rejected") + ", documented: " + (want ? "readable" : std::string("not readable (") + t.why + ")"), F(want ? "valid-rejected" : "invalid-accepted", call, t.why)); return; }
    if (!want) return;
    bool ok = std::isnan(t.value) ? std::isnan(r.v[call]) : (bitwise ? mc::same_bits(r.v[call], t.value) || (r.v[call] == 0 && t.value == 0) : r.v[call] == t.value);
    if (!ok) ctx.fail(key + "/" + CALLNAME[call] + "/value", std::string(CALLNAME[call]) + " = " + fx(r.v[call]) + " want " + fx(t.value), F("value", call));
  };
  num(C_VALD, tref::val_double(s), true);
  num(C_VALI, tref::val_int(s), false);
  num(C_VALB, tref::val_bool(s), false);
  num(C_FRACT, tref::fract(s), true);
  num(C_NUMMATCH, tref::nummatch(s), false);
  for (int k = 0; k < 2; ++k) {
    if (r.oc[C_PL0 + k] != 0) continue;
    tref::Line t = tref::parse_line(s, k ? '=' : '\0', '#');
    std::string gk(r.key[k], std::min(r.klen[k], 8u)), gv(r.value[k], std::min(r.vlen[k], 8u));
    if (t.found != (r.found[k] != 0) || t.key.size() != r.klen[k] || t.value.size() != r.vlen[k] || fnv(t.key) != r.khash[k] || fnv(t.value) != r.vhash[k])
      ctx.fail(key + "/ParseLine" + fmti(k), std::string(CALLNAME[C_PL0 + k]) + " = (" + fmti(r.found[k]) + ",'" + show(gk) + "','" + show(gv) + "') documented (" + fmti(t.found) + ",'" + show(t.key) + "','" + show(t.value) + "')", F("parseline", C_PL0 + k));
  }
  ctx.sig(h);
}

// ------------------------------------------------------------------ fork executor
struct Death { int status; int call; std::string report; };       // report: canonical name of the sanitizer finding, or "none"
static std::string classify_report(const std::string& err) {
  size_t p = err.find("runtime error: ");
  if (p != std::string::npos) {
    std::string m = err.substr(p + 15, err.find('\n', p) == std::string::npos ? std::string::npos : err.find('\n', p) - p - 15);
    if (m.find("out of bounds for type") != std::string::npos) return "array-index-out-of-bounds";
    if (m.find("signed integer overflow") != std::string::npos) return "signed-integer-overflow";
    if (m.find("outside the range of representable values") != std::string::npos) return "float-cast-overflow";
    if (m.find("load of value") != std::string::npos) return "invalid-enum-or-bool";
    return "undefined-behavior";
  }
  p = err.find("ERROR: AddressSanitizer: ");
  if (p != std::string::npos) { size_t b = p + 25, e = err.find_first_of(" \n", b); return err.substr(b, e == std::string::npos ? e : e - b); }
  return "none";
}
struct Exec {
  Shm* shm = nullptr; size_t cap = 0;
  uint64_t forks = 0;
  int errfd = -1;
  void ensure(size_t n) {
    if (n <= cap) return;
    if (shm) munmap(shm, sizeof(Shm) + cap * sizeof(Rec));
    shm = (Shm*)mmap(nullptr, sizeof(Shm) + n * sizeof(Rec), PROT_READ | PROT_WRITE, MAP_SHARED | MAP_ANONYMOUS, -1, 0);
    if (shm == MAP_FAILED) { perror("mmap"); exit(2); }
    cap = n;
  }
  // runs all strings; calls sink(i, rec, deaths) once per string, in order.  deaths lists the entry points in which a
  // child died while executing string i (the string is resumed behind that entry point in a new child).
  template <class Sink> void run(const std::vector<std::string>& strs, unsigned mask, Sink sink) {
    ensure(strs.size());
    if (errfd < 0) { errfd = memfd_create("c10-child-stderr", 0); if (errfd < 0) { perror("memfd_create"); exit(2); } }
    size_t next = 0, n = strs.size(); int from_call = 0;
    std::vector<Death> deaths;
    while (next < n) {
      shm->cur = -1; shm->done = (long)next; shm->call = -1;
      if (ftruncate(errfd, 0) != 0) {} lseek(errfd, 0, SEEK_SET);
      fflush(nullptr);
      ++forks;
      pid_t pid = fork();
      if (pid < 0) { perror("fork"); exit(2); }
      if (pid == 0) {
        alarm(900);
        dup2(errfd, 2);
        g_call = &shm->call;
        for (size_t i = next; i < n; ++i) { shm->cur = (long)i; run_string(strs[i], shm->rec[i], i == next ? from_call : 0, mask); shm->done = (long)i + 1; }
        _exit(0);
      }
      int st = 0; while (waitpid(pid, &st, 0) < 0 && errno == EINTR) {}
      size_t done = (size_t)shm->done;
      for (size_t i = next; i < done; ++i) { sink(i, shm->rec[i], deaths); deaths.clear(); }
      if (done >= n) break;
      // the child died while executing string `done` in entry point shm->call
      std::string err; char b[4096]; ssize_t k; lseek(errfd, 0, SEEK_SET);
      while (err.size() < 16384 && (k = read(errfd, b, sizeof b)) > 0) err.append(b, (size_t)k);
      int call = shm->call;
      if (call < 0 || call >= NCALL || (size_t)shm->cur != done) { fprintf(stderr, "C10_bytes: child died outside a library call (status %d):\n%s\n", st, err.c_str()); exit(2); }
      if (deaths_logged++ < 40) fprintf(stderr, "---- child died on string '%s' in %s:\n%s\n", show(strs[done]).c_str(), CALLNAME[call], err.substr(0, 1500).c_str());
      deaths.push_back(Death{st, call, classify_report(err)});
      next = done; from_call = call + 1;
      if (from_call >= NCALL) { sink(done, shm->rec[done], deaths); deaths.clear(); next = done + 1; from_call = 0; }
    }
  }
  uint64_t deaths_logged = 0;
};

// input class used to key known findings (computed from the string alone):
//   colon-after-seconds : in some sign-delimited piece a ':' follows three completed components (d ' " or earlier colons)
//   digits10+           : the string starts with ten or more decimal digits
static std::string input_class(const std::string& s) {
  bool lower; std::string c = dmsg::detail::merge_quotes(dmsg::detail::lex(s, lower), true);
  std::string cls;
  int np = 0;
  for (char ch : c) {
    if (ch == '+' || ch == '-') np = 0;
    else if (ch == 'd') np = 1; else if (ch == '\'') np = 2; else if (ch == '"') np = 3;
    else if (ch == ':') { if (np >= 3) { cls = "colon-after-seconds"; break; } ++np; }
  }
  size_t nd = 0; while (nd < s.size() && s[nd] >= '0' && s[nd] <= '9') ++nd;
  if (nd >= 10) cls += cls.empty() ? "digits10+" : ",digits10+";
  return cls.empty() ? "other" : cls;
}

int main(int argc, char** argv) {
  // Sanitizer reports of dying children must be cheap (thousands of them when a defect is hit): no symbolizer, no
  // stack trace.  The options are read at process start, so re-execute once with them set.
  if (!getenv("C10_BYTES_REEXEC")) {
    setenv("C10_BYTES_REEXEC", "1", 1);
    setenv("ASAN_OPTIONS", "detect_leaks=0:abort_on_error=0:allocator_may_return_null=1:symbolize=0:detect_stack_use_after_return=0", 1);
    setenv("UBSAN_OPTIONS", "print_stacktrace=0:halt_on_error=1:symbolize=0", 1);
    execv("/proc/self/exe", argv);
    perror("execv"); return 2;
  }
  { std::string st = dmsg::selftest(); if (!st.empty()) { fprintf(stderr, "C10_bytes: reference recogniser self-test failed: %s\n", st.c_str()); return 2; } }
  Ctx ctx(argc, argv);
  const bool T = ctx.thorough();
  ctx.note("value tolerance: 4 ulp of the sum of the pieces' magnitudes, plus 1 ulp per integer digit beyond 15 in a component (the accuracy of over-long numerals is not documented)");
  Exec ex;
  uint64_t nstr = 0, ncalls = 0;
  const unsigned ALL = (1u << NCALL) - 1, DECODE_ONLY = 1u << C_DECODE;
  auto unit = [&](const std::vector<std::string>& strs, unsigned mask = (1u << NCALL) - 1) {
    ncalls += strs.size() * (uint64_t)__builtin_popcount(mask);
    ex.run(strs, mask, [&](size_t i, const Rec& r, const std::vector<Death>& deaths) {
      Ctx::Case cs(ctx);
      ++nstr;
      for (const Death& d : deaths) {
        int st = d.status;
        std::string how = WIFSIGNALED(st) ? "signal " + fmti(WTERMSIG(st)) : "exit status " + fmti(WIFEXITED(st) ? WEXITSTATUS(st) : -1);
        std::string fn = CALLNAME[d.call];
        ctx.sig(999 + d.call);
        ctx.fail("'" + show(strs[i]) + "'/death/" + fn, "the process died in " + fn + " on this string (" + how + ", sanitizer finding: " + d.report + "; first reports are in the shard log)",
                 {{"kind", WIFSIGNALED(st) && WTERMSIG(st) == SIGALRM ? "hang" : "sanitizer-or-signal"}, {"fn", fn}, {"report", d.report}, {"input_class", input_class(strs[i])}, {"string", show(strs[i])}});
      }
      judge(ctx, strs[i], r);
      if (ctx.want_sample()) ctx.sample("'" + show(strs[i]) + "' Decode outcome " + fmti(r.oc[C_DECODE]));
    });
  };
  ctx.sub("bytes-short");
  ctx.bound("bytes-short", "every byte string of length 0, 1 and 2 (65 793 strings) x 13 parser entry points");
  for (int b = 0; b < 256; ++b) {
    if (!ctx.take()) continue;
    std::vector<std::string> strs; strs.push_back(std::string(1, char(b)));
    for (int c = 0; c < 256; ++c) { std::string s; s += char(b); s += char(c); strs.push_back(s); }
    unit(strs);
  }
  if (ctx.take()) unit({std::string()});

  ctx.sub("bytes3");
  // quick alphabet (64 bytes) is a prefix of the thorough alphabet (96 bytes)
  std::string A = std::string("01569.:dD*'`\"+-NSEWnsew \t\n/#=aifAIFxtyo,rul2\r") + std::string("\xb0\xba\xb4\xa0\xc2\xe2\x80\x81\x88\xb2\xb3\x92\xcb\x9a\xca\xb9\xff\x7f") + std::string(1, '\0');
  if (T) A += std::string("3478bcBCmMzZ_;!%()<>[]|\\") + std::string("\x98\x99\x9b\x9c\x9d\x9f\x87\x89");
  ctx.bound("bytes3", "all strings of length 3 over a " + fmti((long long)A.size()) + "-byte alphabet (digits, DMS punctuation, hemisphere letters, blanks, / # =, nan/inf/bool letters, 0x00 0x7f 0x80 0xc2 0xe2 0xff and the continuation bytes of the documented symbols" + (T ? "; thorough adds more digits, letters, punctuation and continuation bytes" : "") + ") x 13 parser entry points");
  for (size_t i = 0; i < A.size(); ++i) {
    if (!ctx.take()) continue;
    std::vector<std::string> strs; strs.reserve(A.size() * A.size());
    for (size_t j = 0; j < A.size(); ++j) for (size_t k = 0; k < A.size(); ++k) { std::string s; s += A[i]; s += A[j]; s += A[k]; strs.push_back(s); }
    unit(strs);
  }
  // every 3-byte string through the symbol-substitution machinery of Decode (the other entry points see nothing new in
  // bytes outside the alphabet above)
  ctx.sub("bytes3-all-decode");
  ctx.bound("bytes3-all-decode", T ? "all 2^24 byte strings of length 3 x DMS::Decode" : "thorough tier only (quick covers Decode on the 64-byte alphabet in bytes3)");
  if (T) for (int b = 0; b < 256; ++b) {
    if (!ctx.take()) continue;
    std::vector<std::string> strs; strs.reserve(65536);
    for (int c = 0; c < 256; ++c) for (int d = 0; d < 256; ++d) { std::string s; s += char(b); s += char(c); s += char(d); strs.push_back(s); }
    unit(strs, DECODE_ONLY);
  }
  // ---- pumped token strings: p w^k q
  {
    ctx.sub("pump");
    const std::vector<std::string> tok = {"-", "+", "\xe2\x88\x92", "N", "s", "E", "1", "07", "60", "59.5", ".5", "d", "\xc2\xb0", "'", "\"", ":"};
    std::vector<std::string> pq = {"", "-", "N", "1", ".5", "d", "'", ":"};
    if (T) { pq = {""}; for (auto& t : tok) pq.push_back(t); }
    std::vector<std::string> ws = tok; for (auto& a : tok) for (auto& b : tok) ws.push_back(a + b);
    std::vector<int> ks = {3, 4, 5, 8, 40}; if (T) { ks.push_back(6); ks.push_back(16); ks.push_back(200); }
    ctx.bound("pump", "all strings p w^k q with p, q in " + std::string(T ? "{empty} + 16 tokens" : "{empty, -, N, 1, .5, d, ', :}") + ", w a token sequence of length 1 or 2 (272), k in " + std::string(T ? "{3,4,5,6,8,16,40,200}" : "{3,4,5,8,40}") + " x 13 parser entry points");
    for (auto& w : ws) for (int k : ks) {             // unit = (w, k): the few w that hit a defect are spread over the shards
      if (!ctx.take()) continue;
      std::vector<std::string> strs;
      std::string mid; for (int i = 0; i < k; ++i) mid += w;
      for (auto& p : pq) for (auto& q : pq) strs.push_back(p + mid + q);
      unit(strs);
    }
  }
  ctx.count("strings", nstr); ctx.count("parser_calls", ncalls); ctx.count("forks", ex.forks);
  return ctx.finish();
}
