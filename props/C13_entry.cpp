// C13 part (b) -- numeric entry points x argument position x special values.  Engine E4, flavour `san`.
//
// Registry: every public numeric function of the library (table below; each with two valid base calls).
// For every (entry point, base call, argument position):
//   1. the DEPENDENCY RELATION is measured on the build under test: the argument is moved through 6 valid values
//      with the other arguments fixed; output slot j depends on the argument iff its bits change in some
//      (non-throwing) perturbed call;
//   2. the argument is replaced by every special value {NaN, +-inf, +-0, +-denorm_min, +-max, +-90(+-ulp), +-180,
//      +-360, +-1e308, ...} (integers: {INT_MIN, -2, -1, 0, 1, 61, 65535, INT_MAX, ...}):
//        NaN      => no exception; NaN (or a string containing "nan"/"INVALID") in every dependent floating/string
//                    output; the unchanged base value (bitwise) in every independent floating/string output;
//        other    => normal return, or GeographicErr / bad_alloc with EVERY output slot bit-identical to its
//                    pre-call sentinel;
//        always   => no foreign exception, no sanitizer report, signal or hang (fork isolation, 2 s watchdog,
//                    60 s solo re-run before "hang").
// Integer and boolean outputs are exempt from the NaN rules (documented INVALID markers such as zone = -4).
// The short table of documented exceptions to the NaN rules is `exceptions()` below and is listed in the evidence.
#define FAULT_ALLOC_CAP_BYTES (512u << 20)
#include "mc/ctx.hpp"
#include "mc/fault.hpp"
#include "models/tiny_datasets.hpp"
#include <GeographicLib/Math.hpp>
#include <GeographicLib/Accumulator.hpp>
#include <GeographicLib/Geodesic.hpp>
#include <GeographicLib/GeodesicExact.hpp>
#include <GeographicLib/GeodesicLine.hpp>
#include <GeographicLib/GeodesicLineExact.hpp>
#include <GeographicLib/Geocentric.hpp>
#include <GeographicLib/LocalCartesian.hpp>
#include <GeographicLib/Ellipsoid.hpp>
#include <GeographicLib/Rhumb.hpp>
#include <GeographicLib/AuxLatitude.hpp>
#include <GeographicLib/DAuxLatitude.hpp>
#include <GeographicLib/AuxAngle.hpp>
#include <GeographicLib/TransverseMercator.hpp>
#include <GeographicLib/TransverseMercatorExact.hpp>
#include <GeographicLib/PolarStereographic.hpp>
#include <GeographicLib/LambertConformalConic.hpp>
#include <GeographicLib/AlbersEqualArea.hpp>
#include <GeographicLib/AzimuthalEquidistant.hpp>
#include <GeographicLib/Gnomonic.hpp>
#include <GeographicLib/CassiniSoldner.hpp>
#include <GeographicLib/NormalGravity.hpp>
#include <GeographicLib/EllipticFunction.hpp>
#include <GeographicLib/Intersect.hpp>
#include <GeographicLib/NearestNeighbor.hpp>
#include <GeographicLib/SphericalHarmonic.hpp>
#include <GeographicLib/SphericalHarmonic1.hpp>
#include <GeographicLib/SphericalHarmonic2.hpp>
#include <GeographicLib/CircularEngine.hpp>
#include <GeographicLib/DST.hpp>
#include <GeographicLib/PolygonArea.hpp>
#include <GeographicLib/Geoid.hpp>
#include <GeographicLib/MagneticModel.hpp>
#include <GeographicLib/MagneticCircle.hpp>
#include <GeographicLib/GravityModel.hpp>
#include <GeographicLib/GravityCircle.hpp>
#include <GeographicLib/UTMUPS.hpp>
#include <GeographicLib/MGRS.hpp>
#include <GeographicLib/GeoCoords.hpp>
#include <GeographicLib/DMS.hpp>
#include <GeographicLib/Geohash.hpp>
#include <GeographicLib/GARS.hpp>
#include <GeographicLib/Georef.hpp>
#include <GeographicLib/OSGB.hpp>
#include <GeographicLib/Utility.hpp>
#include <functional>
#include <memory>

using namespace GeographicLib;
using mc::Ctx; using mc::fmt; using mc::fmti; using mc::fx;
using fault::Report; using fault::Result; using fault::Thrown;

static std::string g_dir;

// ------------------------------------------------------------------------------------------- output slots
static const double DS = -12345.678; static const int IS = -777; static const char* SS = "<untouched>";
enum { ND = 24, NI = 6, NB = 4, NS = 4 };
struct Out {
  double d[ND]; int i[NI]; bool b[NB]; std::string s[NS];
  explicit Out(bool bfill = false) { for (auto& x : d) x = DS; for (auto& x : i) x = IS; for (auto& x : b) x = bfill; for (auto& x : s) x = SS; }
};
// slot index space: [0,ND) doubles, [ND,ND+NS) strings, then ints, then bools
enum { NSLOT = ND + NS + NI + NB };
static bool slot_same(const Out& a, const Out& b, int j) {
  if (j < ND) return mc::same_bits(a.d[j], b.d[j]);
  if (j < ND + NS) return a.s[j - ND] == b.s[j - ND];
  if (j < ND + NS + NI) return a.i[j - ND - NS] == b.i[j - ND - NS];
  return a.b[j - ND - NS - NI] == b.b[j - ND - NS - NI];
}
static std::string slot_val(const Out& a, int j) {
  if (j < ND) return fx(a.d[j]);
  if (j < ND + NS) return "\"" + fault::show(a.s[j - ND].substr(0, 60)) + "\"";
  if (j < ND + NS + NI) return fmti(a.i[j - ND - NS]);
  return a.b[j - ND - NS - NI] ? "true" : "false";
}
static bool nanlike(const Out& a, int j) {        // NaN, or the documented marker in a string
  if (j < ND) return std::isnan(a.d[j]);
  std::string t; for (char c : a.s[j - ND]) t += (char)tolower((unsigned char)c);
  return t.find("nan") != std::string::npos || t.find("invalid") != std::string::npos;
}

// ------------------------------------------------------------------------------------------- entry points
struct EP {
  std::string name, spec;
  std::vector<std::vector<double>> bases;
  std::function<void(const double*, Out&)> call;
  std::vector<std::string> in_names; std::vector<char> kinds;
  std::vector<std::string> out_names;          // indexed by slot
  size_t first_special = (size_t)-1;           // bases[first_special..] are SPECIAL-GEOMETRY base calls (see special())
};
static std::vector<EP> g_reg;
static void add(const char* name, const char* spec, std::vector<std::vector<double>> bases, std::function<void(const double*, Out&)> call) {
  EP e; e.name = name; e.spec = spec; e.bases = bases; e.call = call; e.out_names.assign(NSLOT, "");
  std::string s = spec; size_t p = 0; bool outs = false; int nd = 0, ns = 0, ni = 0, nb = 0;
  while (p < s.size()) {
    size_t q = s.find(' ', p); if (q == std::string::npos) q = s.size();
    std::string tok = s.substr(p, q - p); p = q + 1;
    if (tok.empty()) continue;
    if (tok == "->") { outs = true; continue; }
    size_t c = tok.find(':');
    if (!outs) { e.in_names.push_back(tok.substr(0, c)); e.kinds.push_back(c == std::string::npos ? 'r' : tok[c + 1]); }
    else if (c == std::string::npos) e.out_names[nd++] = tok;
    else if (tok[0] == 's') e.out_names[ND + ns++] = tok.substr(2);
    else if (tok[0] == 'i') e.out_names[ND + NS + ni++] = tok.substr(2);
    else e.out_names[ND + NS + NI + nb++] = tok.substr(2);
  }
  for (auto& b : e.bases) if (b.size() != e.kinds.size()) { fprintf(stderr, "registry error: %s base arity\n", name); exit(2); }
  g_reg.push_back(e);
}
static std::string slot_name(const EP& e, int j) {
  if (!e.out_names[j].empty()) return e.out_names[j];
  if (j < ND) return "d" + std::to_string(j);
  if (j < ND + NS) return "s" + std::to_string(j - ND);
  if (j < ND + NS + NI) return "i" + std::to_string(j - ND - NS);
  return "b" + std::to_string(j - ND - NS - NI);
}
static bool is_int_kind(char k) { return k == 'i' || k == 'b'; }
// the 6 valid perturbations of an argument
static std::vector<double> perturb(char kind, double v) {
  // deliberately not multiples of 1/4: with dyadic steps an output such as the arc seconds of DMS::Encode(-148.25 + k/4)
  // stays 0 and was measured as independent of the angle (false alarm corrected, DESIGN 9.4)
  static const double D[6] = {1.2503, -2.517, 3.7591, -5.5013, 7.2519, -11.003};
  double sc;
  switch (kind) {
  case 'a': case 'o': case 'z': case 'g': sc = 1; break;
  case 'l': case 'h': case 'x': sc = 1000; break;
  case 'q': sc = 0.01; break;
  case 'u': sc = 0.004; break;
  case 't': sc = 0.1; break;
  default: sc = v == 0 ? 0.01 : std::fabs(v) * 0.01; break;
  }
  std::vector<double> r; for (double d : D) r.push_back(v + d * sc); return r;
}

// Far-away valid values of an argument, used IN ADDITION to the 6 local perturbations at special-geometry base calls:
// at a degenerate configuration (two points on one meridian, a point at a pole, ...) an output such as an azimuth is
// locally constant (0 or 180) and only flips when the argument moves far enough, so local steps would measure it as
// independent.
static std::vector<double> far_probes(char kind, double v) {
  std::vector<double> r;
  switch (kind) {
  case 'a': r = {-80.3, -45.7, -20.1, -3.3, 4.9, 20.9, 45.2, 80.6}; break;
  case 'o': case 'g': r = {-170.3, -120.7, -60.2, -10.9, 15.4, 75.8, 130.1, 175.6}; break;
  case 'z': r = {-170.3, -100.7, -45.2, -3.1, 10.9, 80.4, 135.8, 175.1}; break;
  case 'l': r = {1.3e3, 1.1e5, 1.2e6, 5.3e6, 1.57e7, 3.1e7, -2.2e6}; break;
  case 'h': r = {-1.1e3, 13, 5.2e3, 1.3e5}; break;
  case 'x': r = {-3.1e6, -2.3e5, -1.7e3, 1.9e3, 4.1e5, 2.7e6}; break;
  case 'u': r = {-0.83, -0.31, 0.27, 0.71}; break;
  default: r = {v * 0.5 + 0.137, v * 2 + 0.291, -v - 0.713}; break;
  }
  return r;
}

// documented exceptions to the NaN rules: (function prefix, argument or "*", what)
// what: "work-scales" finite specials in [1e9, 1e300) are not enumerated for this argument;
//       "skip-nan"   the NaN rules are not applied to this argument (the call must still end cleanly);
//       "skip-indep" the rule "independent outputs keep their base value" is not applied (NaN in dependent ones still required)
struct Exc { const char* fn; const char* arg; const char* what; const char* why; };
static const std::vector<Exc>& exceptions() {
  static const std::vector<Exc> t = {
    {"NearestNeighbor::Search", "*", "skip-nan", "NearestNeighbor.hpp: the query point cannot be a NaN (metric conditions); maxdist/mindist/tol enter through comparisons only and 'no point found' is reported as d = -1"},
    {"Math::sum", "*", "skip-indep", "t is the round-off of u + v: piecewise constant in each argument, NaN by IEEE arithmetic"},
    {"Math::AngDiff(x,y,e)", "*", "skip-indep", "e is the round-off term of the difference: piecewise constant (0 for most inputs), NaN by IEEE arithmetic"},
    {"Intersect::All", "maxdist", "skip-indep", "maxdist is a threshold: the first intersection does not depend on it, a NaN threshold gives an empty list (reported here as NaN)"},
    {"Intersect::All", "maxdist", "work-scales", "the number of intersections returned grows like (maxdist / circumference)^2: finite specials >= 1e9 m are legitimate hour-long computations, not hangs, and are not enumerated"},
    {"Geoid::CacheArea", "*", "skip-nan", "cache set-up function that validates its area: an undefined (NaN) bound is refused with GeographicErr, like a constructor argument"},
    {"MagneticModel::", "t", "skip-indep", "MagneticModel.hpp: the field is linear in time within each model segment, so the rates of change are piecewise constant in t (they change from one segment to the next); a NaN time is mapped to the first segment"},
    {"UTMUPS::Forward", "*", "skip-indep", "UTMUPS.hpp: zone INVALID is 'equivalent to NaN'; an undefined zone makes every output NaN (k of a UPS point does not depend on lon otherwise)"},
  };
  return t;
}
static bool excepted(const EP& e, const std::string& arg, const char* what = "skip-nan") {
  for (auto& x : exceptions()) if (e.name.compare(0, strlen(x.fn), x.fn) == 0 && (std::string(x.arg) == "*" || arg == x.arg) && std::string(x.what) == what) return true;
  return false;
}

static void build_registry();      // below

// one case: entry point e, base b, argument ai, special value v (named vname)
static void run_case(const EP& e, size_t bi, size_t ai, double v, const std::string& vname, Report& rep) {
  const bool sp = bi >= e.first_special;       // special-geometry base call
  const std::vector<double>& base = e.bases[bi];
  const std::string argn = e.in_names[ai];
  const std::string key = e.name + "|base" + std::to_string(bi) + "|" + argn + "=" + vname;
  mc::Fields F = {{"fn", e.name}, {"arg", argn}, {"value", vname}, {"class", is_int_kind(e.kinds[ai]) ? "int" : fault::value_class(v)}};
  std::string btxt;                            // the base tuple, for messages and (special bases) for known-finding keys
  for (size_t i = 0; i < base.size(); ++i) btxt += (i ? "," : "") + (i == ai ? std::string("*") : fmt(base[i]));
  if (sp) { F.push_back({"geometry", "special"}); F.push_back({"base", btxt}); }
  auto FF = [&](const char* kind) { mc::Fields f = F; f.insert(f.begin(), {"kind", kind}); return f; };
  // base call
  Out ob; Thrown tb = fault::guarded([&] { e.call(base.data(), ob); });
  if (tb.threw()) { rep.fail(key + "|base", e.name + " base call " + std::to_string(bi) + " threw " + tb.what, FF("baseline")); return; }
  // special call
  std::vector<double> in = base; in[ai] = v;
  Out os; Thrown ts = fault::guarded([&] { e.call(in.data(), os); });
  rep.sig(std::hash<std::string>()(e.name) + ts.oc * 7 + (std::isnan(v) ? 3 : 0));
  if (!fault::clean(ts.oc)) { mc::Fields f = FF("foreign-exception"); f.push_back({"exception", ts.what.substr(0, ts.what.find(':'))}); rep.fail(key + "|exc", e.name + " with " + argn + " = " + vname + " threw " + ts.what, f); return; }
  if (ts.threw()) {
    // outputs must be untouched: compare with a fresh sentinel set; bools are checked with both fill values
    Out ref; std::string changed;
    for (int j = 0; j < NSLOT; ++j) if (!slot_same(os, ref, j)) changed += (changed.empty() ? "" : ",") + slot_name(e, j);
    if (changed.empty()) { Out os2(true), ref2(true); Thrown t2 = fault::guarded([&] { e.call(in.data(), os2); }); if (t2.threw()) for (int j = ND + NS + NI; j < NSLOT; ++j) if (!slot_same(os2, ref2, j)) changed += (changed.empty() ? "" : ",") + slot_name(e, j); }
    if (!changed.empty()) { mc::Fields f = FF("outputs-changed-on-throw"); f.push_back({"outputs", changed}); rep.fail(key + "|out", e.name + " with " + argn + " = " + vname + " threw (" + ts.what + ") after altering " + changed, f); }
    if (std::isnan(v) && !is_int_kind(e.kinds[ai]) && !excepted(e, argn)) rep.fail(key + "|nanthrow", e.name + " with " + argn + " = NaN threw " + ts.what + " (NaN arguments must propagate, not throw)", FF("nan-throws"));
    return;
  }
  if (!std::isnan(v) || is_int_kind(e.kinds[ai]) || excepted(e, argn)) return;
  // NaN: measure the dependency relation for this argument, then judge every floating / string slot
  bool dep[NSLOT] = {false}; int nper = 0;
  std::vector<double> probes = perturb(e.kinds[ai], base[ai]);
  if (sp) for (double pv : far_probes(e.kinds[ai], base[ai])) probes.push_back(pv);
  for (double pv : probes) {
    std::vector<double> ip = base; ip[ai] = pv; Out op;
    Thrown tp = fault::guarded([&] { e.call(ip.data(), op); });
    if (tp.threw()) continue;
    ++nper;
    for (int j = 0; j < NSLOT; ++j) {
      if (slot_same(op, ob, j)) continue;
      if (sp && j < ND) {
        // at a degenerate configuration an output that is constant there (x = 0 at the pole for every longitude) comes out as
        // +0, -0 or 1e-10 depending on the other argument: only a change well above round-off is a dependency, and a probe
        // whose result is not finite is no evidence
        double a0 = ob.d[j], a1 = op.d[j];
        if (!std::isfinite(a0) || !std::isfinite(a1)) continue;
        if (!(std::fabs(a1 - a0) > 1e-7 * std::fmax(1.0, std::fmax(std::fabs(a0), std::fabs(a1))))) continue;
      }
      dep[j] = true;
    }
  }
  if (nper == 0) { rep.fail(key + "|perturb", e.name + ": no valid perturbation of " + argn, FF("baseline")); return; }
  Out fresh;
  for (int j = 0; j < ND + NS; ++j) {
    bool used = !slot_same(ob, fresh, j);
    if (!used && slot_same(os, fresh, j)) continue;                 // slot not an output of this function
    if (sp && j < ND && used && !std::isfinite(ob.d[j])) continue;     // a singular value at the special configuration itself: nothing to compare with
    if (j < ND && used && !std::isfinite(ob.d[j])) { rep.fail(key + "|basenan|" + slot_name(e, j), e.name + " base call gives non-finite " + slot_name(e, j), FF("baseline")); continue; }
    if (dep[j]) {
      if (!nanlike(os, j)) { mc::Fields f = FF("nan-not-propagated"); f.push_back({"out", slot_name(e, j)}); rep.fail(key + "|dep|" + slot_name(e, j), e.name + (sp ? "(" + btxt + ")" : "") + " with " + argn + " = NaN: output " + slot_name(e, j) + " depends on " + argn + " (measured) but is " + slot_val(os, j) + " instead of NaN", f); }
    } else {
      // at a special configuration an output that is constant along the degenerate set (S12 = 0 on a meridian, x = 0 at
      // the pole) is only accidentally independent: the "keeps its base value" rule is for base calls in general position
      if (sp) continue;
      if (excepted(e, argn, "skip-indep")) continue;
      if (j >= ND && nanlike(os, j)) continue;    // codes depend on their inputs through step functions that 6 perturbations need not cross: a marker is accepted
      if (!slot_same(os, ob, j)) { mc::Fields f = FF("nan-leaks"); f.push_back({"out", slot_name(e, j)}); rep.fail(key + "|indep|" + slot_name(e, j), e.name + " with " + argn + " = NaN: output " + slot_name(e, j) + " does not depend on " + argn + " (measured) but changed from " + slot_val(ob, j) + " to " + slot_val(os, j), f); }
    }
  }
}

int main(int argc, char** argv) {
  Ctx ctx(argc, argv);
  const bool T = ctx.thorough();
  g_dir = fault::tmp_dir("C13");
  fault::write_file(g_dir + "/tiny.pgm", tiny::geoid_image());
  fault::write_file(g_dir + "/tiny.wmm", tiny::wmm_meta()); fault::write_file(g_dir + "/tiny.wmm.cof", tiny::wmm_cof());
  fault::write_file(g_dir + "/tiny.egm", tiny::egm_meta()); fault::write_file(g_dir + "/tiny.egm.cof", tiny::egm_cof());
  build_registry();
  const std::vector<fault::Special> SP = fault::specials(T);
  const std::vector<long long> ISP = fault::int_specials(T);
  ctx.bound("entry.functions", (long long)g_reg.size());
  { std::string s; for (auto& x : SP) s += std::string(x.name) + " "; ctx.bound("entry.specials", std::to_string(SP.size()) + " floating-point specials per argument: " + s); }
  { std::string s; for (auto x : ISP) s += std::to_string(x) + " "; ctx.bound("entry.int_specials", std::to_string(ISP.size()) + " integer specials per integer argument: " + s); }
  ctx.bound("entry.perturbations", "6 valid perturbations per argument to measure the dependency relation; 2 base calls per function (a few have 1 or 3)");
  { size_t ns = 0, ne = 0; for (auto& e : g_reg) if (e.first_special != (size_t)-1) { ++ne; ns += e.bases.size() - e.first_special; }
    ctx.bound("entry.special_geometry", std::to_string(ns) + " special-geometry base calls on " + std::to_string(ne) + " entry points (same / opposite meridian, equator, pole, coincident, nearly antipodal; azi 0/90/180, s12 = 0; central meridian, pole, origin; axis, equatorial plane, centre; vertex at a pole / on the antimeridian), each argument <- NaN (thorough: every special); dependency measured with the 6 local steps plus 3-8 far-away values per argument; only the rule 'dependent => NaN' is applied there"); }
  for (auto& x : exceptions()) ctx.list("documented exceptions to the NaN rules", std::string(x.fn) + " arg " + x.arg + ": " + x.what + " -- " + x.why);
  fault::Isolator iso(g_dir, "entry");
  iso.batch = 128; iso.slot_bytes = 8192;
  std::string family;
  for (auto& e : g_reg) {
    std::string fam = e.name.substr(0, e.name.find_first_of(":(+ "));
    if (fam != family) { family = fam; ctx.sub("entry-" + fam); }       // the registry is ordered by class
    ctx.count("entry-points");
    for (size_t bi = 0; bi < e.bases.size(); ++bi) for (size_t ai = 0; ai < e.kinds.size(); ++ai) {
      if (e.kinds[ai] == 'b') continue;
      if (!ctx.take()) continue;                                       // unit = (entry point, base call, argument)
      struct Cs { size_t bi, ai; double v; std::string vname; };
      std::vector<Cs> cases;
      const bool spb = bi >= e.first_special;      // special-geometry base: quick = NaN only, thorough = every special
      if (spb && !T && e.kinds[ai] == 'i') continue;
      if (e.kinds[ai] == 'i') { for (long long x : ISP) if ((double)x != e.bases[bi][ai]) cases.push_back({bi, ai, (double)x, std::to_string(x)}); }
      else for (auto& x : SP) { if (spb && !T && !std::isnan(x.v)) continue; if (excepted(e, e.in_names[ai], "work-scales") && std::isfinite(x.v) && std::fabs(x.v) >= 1e9 && std::fabs(x.v) < 1e300) { ctx.count("skipped:work-scales"); continue; } cases.push_back({bi, ai, x.v, x.name}); }
      auto fields = [&](const Cs& c, const char* kind) { return mc::Fields{{"kind", kind}, {"family", family}, {"fn", e.name}, {"arg", e.in_names[c.ai]}, {"value", c.vname}, {"class", is_int_kind(e.kinds[c.ai]) ? "int" : fault::value_class(c.v)}}; };
      iso.skip_confirm = [&](size_t i) { return fault::matches_known(ctx, "hang", fields(cases[i], "hang")); };
      double t_unit = ctx.elapsed();
      struct Tm { Ctx& c; double t0; std::string what; ~Tm() { if (getenv("C13_DEBUG") && c.elapsed() - t0 > 1.0) fprintf(stderr, "TIME %.1fs %s\n", c.elapsed() - t0, what.c_str()); } } tm{ctx, t_unit, e.name + " base" + std::to_string(bi) + " " + e.in_names[ai]};
      iso.run(cases.size(),
        [&](size_t i, Report& rep) { run_case(e, cases[i].bi, cases[i].ai, cases[i].v, cases[i].vname, rep); },
        [&](size_t i, const Result& r) {
          Ctx::Case cs(ctx);
          const Cs& c = cases[i];
          ctx.sig(r.oc); for (auto s : r.sigs) ctx.sig(s);
          for (auto& f : r.fails) { if (getenv("C13_DEBUG")) fprintf(stderr, "DBG %s :: %s\n", f.key.c_str(), f.msg.c_str()); ctx.fail(f.key, f.msg, f.fields); }
          if (r.slow) { ctx.count("slow-cases"); ctx.list("slow-cases (exceeded the 2 s watchdog, finished when re-run alone)", e.name + " " + e.in_names[c.ai] + "=" + c.vname); }
          if (r.overflow) ctx.note("report slot overflow in " + e.name);
          if (r.fatal()) {
            mc::Fields f = fields(c, r.oc == fault::SANITIZER ? "sanitizer" : r.oc == fault::HANG ? "hang" : r.oc == fault::FOREIGN ? "foreign-exception" : "crash");
            f.push_back({"check", r.check}); f.push_back({"func", r.func}); f.push_back({"where", r.where});
            std::string key = e.name + "|base" + std::to_string(c.bi) + "|" + e.in_names[c.ai] + "=" + c.vname + "|fatal";
            if (getenv("C13_DEBUG")) fprintf(stderr, "DBG %s :: %s\n", key.c_str(), r.describe().c_str());
            ctx.fail(key, e.name + " with " + e.in_names[c.ai] + " = " + c.vname + " (base " + std::to_string(c.bi) + ") -> " + r.describe(), f);
          }
          if (ctx.want_sample() && i == 3) ctx.sample(e.name + " " + e.in_names[c.ai] + "=" + c.vname + " -> " + r.describe());
        });
    }
  }
  ctx.count("forks", iso.forks);
  ctx.note("allocation requests above 512 MiB fail with std::bad_alloc (operator new replaced in the harness)");
  fault::rm_tmp_dir(g_dir);
  return ctx.finish();
}

// =========================================================================================== registry
#define EP_(NAME, SPEC, BASES, ...) add(NAME, SPEC, BASES, [](const double* a, Out& o) { __VA_ARGS__; })
// composite entries (several library calls): outputs are committed only when all calls returned, so that the
// "outputs untouched on throw" predicate judges the library and not the sequence written here
#define EPC_(NAME, SPEC, BASES, ...) add(NAME, SPEC, BASES, [](const double* a, Out& oo) { Out o; __VA_ARGS__; oo = o; })
typedef std::vector<std::vector<double>> BB;
static const Geodesic& GD() { return Geodesic::WGS84(); }
static const GeodesicExact& GX() { return GeodesicExact::WGS84(); }
static const Geodesic& GE() { static const Geodesic g(6.4e6, 0.1, true); return g; }

static void reg_math() {
  BB g1 = {{33.25}, {-127.5}}, r1 = {{0.75}, {-2.5}};
  EP_("Math::sind", "x:g -> r", g1, o.d[0] = Math::sind(a[0]));
  EP_("Math::cosd", "x:g -> r", g1, o.d[0] = Math::cosd(a[0]));
  EP_("Math::tand", "x:g -> r", g1, o.d[0] = Math::tand(a[0]));
  EP_("Math::sincosd", "x:g -> s c", g1, Math::sincosd(a[0], o.d[0], o.d[1]));
  EP_("Math::sincosde", "x:g t:r -> s c", (BB{{33.25, 1e-9}, {-127.5, -2e-10}}), Math::sincosde(a[0], a[1], o.d[0], o.d[1]));
  EP_("Math::atand", "x:r -> r", r1, o.d[0] = Math::atand(a[0]));
  EP_("Math::atan2d", "y:r x:r -> r", (BB{{0.75, 1.5}, {-2.5, -0.3}}), o.d[0] = Math::atan2d(a[0], a[1]));
  EP_("Math::AngNormalize", "x:g -> r", (BB{{33.25}, {-527.5}}), o.d[0] = Math::AngNormalize(a[0]));
  EP_("Math::AngRound", "x:g -> r", (BB{{33.25}, {1e-3}}), o.d[0] = Math::AngRound(a[0]));
  EP_("Math::LatFix", "x:a -> r", (BB{{33.25}, {-70.5}}), o.d[0] = Math::LatFix(a[0]));
  EP_("Math::AngDiff(x,y)", "x:g y:g -> d", (BB{{33.251234567891234, 60.507654321098765}, {-170.50123456789012, 175.00987654321098}}), o.d[0] = Math::AngDiff(a[0], a[1]));
  EP_("Math::AngDiff(x,y,e)", "x:g y:g -> d e", (BB{{33.251234567891234, 60.507654321098765}, {-170.50123456789012, 175.00987654321098}}), o.d[0] = Math::AngDiff(a[0], a[1], o.d[1]));
  EP_("Math::sum", "u:r v:r -> s t", (BB{{0.75123456789012345, 1.0123456789012345e-3}, {-2.5012345678901234, 3.2509876543210987}}), o.d[0] = Math::sum(a[0], a[1], o.d[1]));
  EP_("Math::taupf", "tau:r es:u -> r", (BB{{0.75, 0.08}, {-2.5, 0.3}}), o.d[0] = Math::taupf(a[0], a[1]));
  EP_("Math::tauf", "taup:r es:u -> r", (BB{{0.75, 0.08}, {-2.5, 0.3}}), o.d[0] = Math::tauf(a[0], a[1]));
  EP_("Math::eatanhe", "x:u es:u -> r", (BB{{0.5, 0.08}, {-0.25, 0.3}}), o.d[0] = Math::eatanhe(a[0], a[1]));
  EP_("Math::polyval", "x:r -> r", r1, static const double p[] = {1, -2, 3, 0.5}; o.d[0] = Math::polyval(3, p, a[0]));
  EP_("Math::sq+hypot-free", "x:r -> r", r1, o.d[0] = Math::sq(a[0]));
  EPC_("Accumulator::Add+Sum", "s0:r y:r z:r -> sum sumz", (BB{{0.75, 1e-3, 5}, {-2.5, 3.25, 1e10}}), Accumulator<> acc(a[0]); acc += a[1]; o.d[0] = acc(); o.d[1] = acc(a[2]));
  EP_("Accumulator::remainder", "s0:r y:r -> r", (BB{{725.5, 360}, {-2.5, 0.75}}), Accumulator<> acc(a[0]); acc.remainder(a[1]); o.d[0] = acc());
  EP_("Accumulator::operator*=", "s0:r y:r -> r", (BB{{725.5, 3}, {-2.5, 0.75}}), Accumulator<> acc(a[0]); acc *= a[1]; o.d[0] = acc());
  EPC_("AuxAngle(y,x)", "y:r x:r -> degrees radians lam lamd tan ny nx", (BB{{0.75, 1.5}, {-2.5, 0.3}}), AuxAngle t(a[0], a[1]); o.d[0] = t.degrees(); o.d[1] = t.radians(); o.d[2] = t.lam(); o.d[3] = t.lamd(); o.d[4] = t.tan(); AuxAngle n = t.normalized(); o.d[5] = n.y(); o.d[6] = n.x());
  EP_("AuxAngle::degrees(d)", "d:g -> y x", g1, AuxAngle t = AuxAngle::degrees(a[0]); o.d[0] = t.y(); o.d[1] = t.x());
  EP_("AuxAngle::radians(r)", "r:q -> y x", (BB{{0.5}, {-2.5}}), AuxAngle t = AuxAngle::radians(a[0]); o.d[0] = t.y(); o.d[1] = t.x());
  EP_("AuxAngle::lam(psi)", "psi:r -> y x", r1, AuxAngle t = AuxAngle::lam(a[0]); o.d[0] = t.y(); o.d[1] = t.x());
  EP_("AuxAngle::lamd(psid)", "psid:g -> y x", g1, AuxAngle t = AuxAngle::lamd(a[0]); o.d[0] = t.y(); o.d[1] = t.x());
}

template <class G> static void direct_(const G& g, const double* a, Out& o) { o.d[7] = g.Direct(a[0], a[1], a[2], a[3], o.d[0], o.d[1], o.d[2], o.d[3], o.d[4], o.d[5], o.d[6]); }
template <class G> static void arcdirect_(const G& g, const double* a, Out& o) { g.ArcDirect(a[0], a[1], a[2], a[3], o.d[0], o.d[1], o.d[2], o.d[3], o.d[4], o.d[5], o.d[6], o.d[7]); }
template <class G> static void inverse_(const G& g, const double* a, Out& o) { o.d[0] = g.Inverse(a[0], a[1], a[2], a[3], o.d[1], o.d[2], o.d[3], o.d[4], o.d[5], o.d[6], o.d[7]); }
template <class G> static void linepos_(const G& g, const double* a, Out& o) { auto l = g.Line(a[0], a[1], a[2]); o.d[7] = l.Position(a[3], o.d[0], o.d[1], o.d[2], o.d[3], o.d[4], o.d[5], o.d[6]); }
static void reg_geodesic() {
  BB dir = {{10.5, 20.25, 30.75, 1.5e6}, {-41.25, 170.5, -100.125, 1.21e7}};
  BB arc = {{10.5, 20.25, 30.75, 13.5}, {-41.25, 170.5, -100.125, 200.5}};
  BB inv = {{10.5, 20.25, 33.75, 47.125}, {-41.25, 170.5, 38.5, -20.75}};
  const char* dsp = "lat1:a lon1:o azi1:z s12:l -> lat2 lon2 azi2 m12 M12 M21 S12 a12";
  const char* asp = "lat1:a lon1:o azi1:z a12:g -> lat2 lon2 azi2 s12 m12 M12 M21 S12";
  const char* isp = "lat1:a lon1:o lat2:a lon2:o -> a12 s12 azi1 azi2 m12 M12 M21 S12";
  EP_("Geodesic::Direct", dsp, dir, direct_(GD(), a, o));
  EP_("Geodesic::ArcDirect", asp, arc, arcdirect_(GD(), a, o));
  EP_("Geodesic::Inverse", isp, inv, inverse_(GD(), a, o));
  EP_("Geodesic::Direct[exact]", dsp, dir, direct_(GE(), a, o));
  EP_("Geodesic::Inverse[exact]", isp, inv, inverse_(GE(), a, o));
  EP_("Geodesic::Direct[sphere]", dsp, dir, static const Geodesic g(6.4e6, 0); direct_(g, a, o));
  EP_("Geodesic::Inverse[sphere]", isp, inv, static const Geodesic g(6.4e6, 0); inverse_(g, a, o));
  EP_("Geodesic::Direct[prolate]", dsp, dir, static const Geodesic g(6.4e6, -0.05); direct_(g, a, o));
  EP_("Geodesic::Inverse[prolate]", isp, inv, static const Geodesic g(6.4e6, -0.05); inverse_(g, a, o));
  EP_("Geodesic::Direct(lat2,lon2)", "lat1:a lon1:o azi1:z s12:l -> lat2 lon2", dir, GD().Direct(a[0], a[1], a[2], a[3], o.d[0], o.d[1]));
  EP_("Geodesic::Inverse(s12)", "lat1:a lon1:o lat2:a lon2:o -> s12", inv, GD().Inverse(a[0], a[1], a[2], a[3], o.d[0]));
  EP_("Geodesic::Inverse(azi1,azi2)", "lat1:a lon1:o lat2:a lon2:o -> azi1 azi2", inv, GD().Inverse(a[0], a[1], a[2], a[3], o.d[0], o.d[1]));
  EP_("Geodesic::GenDirect(mask)", "lat1:a lon1:o azi1:z arcmode:b s12_a12:l outmask:i -> a12 lat2 lon2 azi2 s12 m12 M12 M21 S12", (BB{{10.5, 20.25, 30.75, 0, 1.5e6, (double)Geodesic::ALL}, {-41.25, 170.5, -100.125, 1, 200.5, (double)(Geodesic::LATITUDE | Geodesic::AREA)}}),
    o.d[0] = GD().GenDirect(a[0], a[1], a[2], a[3] != 0, a[4], (unsigned)(int)a[5], o.d[1], o.d[2], o.d[3], o.d[4], o.d[5], o.d[6], o.d[7], o.d[8]));
  EP_("Geodesic::GenInverse(mask)", "lat1:a lon1:o lat2:a lon2:o outmask:i -> a12 s12 azi1 azi2 m12 M12 M21 S12", (BB{{10.5, 20.25, 33.75, 47.125, (double)Geodesic::ALL}, {-41.25, 170.5, 38.5, -20.75, (double)(Geodesic::DISTANCE | Geodesic::AZIMUTH)}}),
    o.d[0] = GD().GenInverse(a[0], a[1], a[2], a[3], (unsigned)(int)a[4], o.d[1], o.d[2], o.d[3], o.d[4], o.d[5], o.d[6], o.d[7]));
  EPC_("Geodesic::Line+Position", dsp, dir, linepos_(GD(), a, o));
  EPC_("Geodesic::InverseLine+Position", "lat1:a lon1:o lat2:a lon2:o frac:u -> lat lon azi dist arc", (BB{{10.5, 20.25, 33.75, 47.125, 0.5}, {-41.25, 170.5, 38.5, -20.75, 0.25}}),
    GeodesicLine l = GD().InverseLine(a[0], a[1], a[2], a[3]); o.d[3] = l.Distance(); o.d[4] = l.Arc(); l.Position(a[4] * 1e6, o.d[0], o.d[1], o.d[2]));
  EPC_("Geodesic::DirectLine+Position", "lat1:a lon1:o azi1:z s12:l -> lat lon azi dist arc", dir, GeodesicLine l = GD().DirectLine(a[0], a[1], a[2], a[3]); o.d[3] = l.Distance(); o.d[4] = l.Arc(); l.Position(l.Distance(), o.d[0], o.d[1], o.d[2]));
  EPC_("Geodesic::ArcDirectLine+ArcPosition", "lat1:a lon1:o azi1:z a12:g -> lat lon azi dist arc", arc, GeodesicLine l = GD().ArcDirectLine(a[0], a[1], a[2], a[3]); o.d[3] = l.Distance(); o.d[4] = l.Arc(); l.ArcPosition(l.Arc(), o.d[0], o.d[1], o.d[2]));
  EP_("GeodesicLine::Position", "s12:l -> lat2 lon2 azi2 m12 M12 M21 S12 a12", (BB{{1.5e6}, {-2.21e7}}), static const GeodesicLine l(GD(), 10.5, 20.25, 30.75); o.d[7] = l.Position(a[0], o.d[0], o.d[1], o.d[2], o.d[3], o.d[4], o.d[5], o.d[6]));
  EP_("GeodesicLine::ArcPosition", "a12:g -> lat2 lon2 azi2 s12 m12 M12 M21 S12", (BB{{13.5}, {-200.5}}), static const GeodesicLine l(GD(), 10.5, 20.25, 30.75); l.ArcPosition(a[0], o.d[0], o.d[1], o.d[2], o.d[3], o.d[4], o.d[5], o.d[6], o.d[7]));
  EP_("GeodesicLine::GenPosition(mask)", "arcmode:b s12_a12:l outmask:i -> a12 lat2 lon2 azi2 s12 m12 M12 M21 S12", (BB{{0, 1.5e6, (double)GeodesicLine::ALL}, {1, 200.5, (double)(GeodesicLine::LONGITUDE | GeodesicLine::LONG_UNROLL)}}),
    static const GeodesicLine l(GD(), 10.5, 20.25, 30.75); o.d[0] = l.GenPosition(a[0] != 0, a[1], (unsigned)(int)a[2], o.d[1], o.d[2], o.d[3], o.d[4], o.d[5], o.d[6], o.d[7], o.d[8]));
  EPC_("GeodesicLine::SetDistance/SetArc", "s13:l a13:g -> dist1 arc1 dist2 arc2", (BB{{1.5e6, 13.5}, {2.21e7, 200.5}}), GeodesicLine l(GD(), 10.5, 20.25, 30.75); l.SetDistance(a[0]); o.d[0] = l.Distance(); o.d[1] = l.Arc(); l.SetArc(a[1]); o.d[2] = l.Distance(); o.d[3] = l.Arc());
  EP_("GeodesicExact::Direct", dsp, dir, direct_(GX(), a, o));
  EP_("GeodesicExact::ArcDirect", asp, arc, arcdirect_(GX(), a, o));
  EP_("GeodesicExact::Inverse", isp, inv, inverse_(GX(), a, o));
  EPC_("GeodesicExact::Line+Position", dsp, dir, linepos_(GX(), a, o));
  EP_("GeodesicExact::Inverse[sphere]", isp, inv, static const GeodesicExact g(6.4e6, 0); inverse_(g, a, o));
  EP_("GeodesicExact::Inverse[prolate]", isp, inv, static const GeodesicExact g(6.4e6, -0.05); inverse_(g, a, o));
  EP_("GeodesicLineExact::Position", "s12:l -> lat2 lon2 azi2 m12 M12 M21 S12 a12", (BB{{1.5e6}, {-2.21e7}}), static const GeodesicLineExact l(GX(), 10.5, 20.25, 30.75); o.d[7] = l.Position(a[0], o.d[0], o.d[1], o.d[2], o.d[3], o.d[4], o.d[5], o.d[6]));
  EP_("GeodesicLineExact::ArcPosition", "a12:g -> lat2 lon2 azi2 s12 m12 M12 M21 S12", (BB{{13.5}, {-200.5}}), static const GeodesicLineExact l(GX(), 10.5, 20.25, 30.75); l.ArcPosition(a[0], o.d[0], o.d[1], o.d[2], o.d[3], o.d[4], o.d[5], o.d[6], o.d[7]));
  EP_("Rhumb::Direct", "lat1:a lon1:o azi12:z s12:l -> lat2 lon2 S12", dir, Rhumb::WGS84().Direct(a[0], a[1], a[2], a[3], o.d[0], o.d[1], o.d[2]));
  EP_("Rhumb::Inverse", "lat1:a lon1:o lat2:a lon2:o -> s12 azi12 S12", inv, Rhumb::WGS84().Inverse(a[0], a[1], a[2], a[3], o.d[0], o.d[1], o.d[2]));
  EP_("Rhumb::Direct[exact]", "lat1:a lon1:o azi12:z s12:l -> lat2 lon2 S12", dir, static const Rhumb r(6.4e6, 0.1, true); r.Direct(a[0], a[1], a[2], a[3], o.d[0], o.d[1], o.d[2]));
  EP_("Rhumb::Inverse[exact]", "lat1:a lon1:o lat2:a lon2:o -> s12 azi12 S12", inv, static const Rhumb r(6.4e6, 0.1, true); r.Inverse(a[0], a[1], a[2], a[3], o.d[0], o.d[1], o.d[2]));
  EP_("Rhumb::GenDirect(mask)", "lat1:a lon1:o azi12:z s12:l outmask:i -> lat2 lon2 S12", (BB{{10.5, 20.25, 30.75, 1.5e6, (double)Rhumb::ALL}, {-41.25, 170.5, -100.125, 1.21e7, (double)Rhumb::LATITUDE}}), Rhumb::WGS84().GenDirect(a[0], a[1], a[2], a[3], (unsigned)(int)a[4], o.d[0], o.d[1], o.d[2]));
  EPC_("Rhumb::Line+Position", "lat1:a lon1:o azi12:z s12:l -> lat2 lon2 S12", dir, RhumbLine l = Rhumb::WGS84().Line(a[0], a[1], a[2]); l.Position(a[3], o.d[0], o.d[1], o.d[2]));
  EP_("RhumbLine::Position", "s12:l -> lat2 lon2 S12", (BB{{1.5e6}, {-1.21e7}}), static const RhumbLine l = Rhumb::WGS84().Line(10.5, 20.25, 30.75); l.Position(a[0], o.d[0], o.d[1], o.d[2]));
}

template <class P> static void pfwd_(const P& p, const double* a, Out& o) { p.Forward(a[0], a[1], a[2], o.d[0], o.d[1], o.d[2], o.d[3]); }
template <class P> static void prev_(const P& p, const double* a, Out& o) { p.Reverse(a[0], a[1], a[2], o.d[0], o.d[1], o.d[2], o.d[3]); }
// base calls of a Reverse: the images of the Forward base calls (so that they lie inside the projection's range)
template <class P> static BB rb_(const P& p, const BB& f) { BB r; for (auto& b : f) { double x, y; p.Forward(b[0], b[1], b[2], x, y); r.push_back({b[0], x, y}); } return r; }
static void reg_proj() {
  BB llh = {{40.5, 10.25, 1200}, {-72.75, -150.5, -300}};
  BB xyz = {{4.2e6, 1.1e6, 4.6e6}, {-1.5e6, -0.9e6, -6.0e6}};
  EP_("Geocentric::Forward", "lat:a lon:o h:h -> X Y Z", llh, Geocentric::WGS84().Forward(a[0], a[1], a[2], o.d[0], o.d[1], o.d[2]));
  EP_("Geocentric::Forward(M)", "lat:a lon:o h:h -> X Y Z M0 M1 M2 M3 M4 M5 M6 M7 M8", llh, std::vector<double> M(9, DS); Thrown t = fault::guarded([&] { Geocentric::WGS84().Forward(a[0], a[1], a[2], o.d[0], o.d[1], o.d[2], M); }); for (int i = 0; i < 9; ++i) o.d[3 + i] = M[i]; if (t.oc == fault::GEOERR) throw GeographicErr(t.what); if (t.threw()) throw std::runtime_error(t.what));
  EP_("Geocentric::Reverse", "X:x Y:x Z:x -> lat lon h", xyz, Geocentric::WGS84().Reverse(a[0], a[1], a[2], o.d[0], o.d[1], o.d[2]));
  EP_("Geocentric::Reverse(M)", "X:x Y:x Z:x -> lat lon h M0 M1 M2 M3 M4 M5 M6 M7 M8", xyz, std::vector<double> M(9, DS); Thrown t = fault::guarded([&] { Geocentric::WGS84().Reverse(a[0], a[1], a[2], o.d[0], o.d[1], o.d[2], M); }); for (int i = 0; i < 9; ++i) o.d[3 + i] = M[i]; if (t.oc == fault::GEOERR) throw GeographicErr(t.what); if (t.threw()) throw std::runtime_error(t.what));
  EP_("Geocentric::Reverse[prolate]", "X:x Y:x Z:x -> lat lon h", xyz, static const Geocentric g(6.4e6, -0.1); g.Reverse(a[0], a[1], a[2], o.d[0], o.d[1], o.d[2]));
  EP_("LocalCartesian::Forward", "lat:a lon:o h:h -> x y z", llh, static const LocalCartesian l(36.5, 3.25, 100); l.Forward(a[0], a[1], a[2], o.d[0], o.d[1], o.d[2]));
  EP_("LocalCartesian::Reverse", "x:x y:x z:x -> lat lon h", (BB{{1.2e5, -3.4e5, 5.6e4}, {-2.5e6, 1.5e6, -8e5}}), static const LocalCartesian l(36.5, 3.25, 100); l.Reverse(a[0], a[1], a[2], o.d[0], o.d[1], o.d[2]));
  EPC_("LocalCartesian::Reset+Forward", "lat0:a lon0:o h0:h -> x y z", llh, LocalCartesian l(a[0], a[1], a[2]); l.Forward(36.5, 3.25, 100, o.d[0], o.d[1], o.d[2]));
  BB f3 = {{9, 40.5, 10.25}, {-150, -52.75, -148.5}};
  BB r3 = {{9, 1.2e5, 4.5e6}, {-150, -2.5e5, -5.8e6}};
  const char* fs = "lon0:o lat:a lon:o -> x y gamma k"; const char* rs = "lon0:o x:x y:x -> lat lon gamma k";
  EP_("TransverseMercator::Forward", fs, f3, pfwd_(TransverseMercator::UTM(), a, o));
  EP_("TransverseMercator::Reverse", rs, rb_(TransverseMercator::UTM(), f3), prev_(TransverseMercator::UTM(), a, o));
  EP_("TransverseMercator::Forward[exact]", fs, f3, static const TransverseMercator t(6378137, 1 / 298.257223563, 0.9996, true, true); pfwd_(t, a, o));
  EP_("TransverseMercator::Reverse[exact]", rs, rb_(TransverseMercator(6378137, 1 / 298.257223563, 0.9996, true, true), f3), static const TransverseMercator t(6378137, 1 / 298.257223563, 0.9996, true, true); prev_(t, a, o));
  EP_("TransverseMercatorExact::Forward", fs, f3, pfwd_(TransverseMercatorExact::UTM(), a, o));
  EP_("TransverseMercatorExact::Reverse", rs, rb_(TransverseMercatorExact::UTM(), f3), prev_(TransverseMercatorExact::UTM(), a, o));
  EP_("TransverseMercatorExact::Forward[extendp]", fs, f3, static const TransverseMercatorExact t(6378137, 1 / 298.257223563, 0.9996, true); pfwd_(t, a, o));
  EP_("TransverseMercatorExact::Reverse[extendp]", rs, rb_(TransverseMercatorExact(6378137, 1 / 298.257223563, 0.9996, true), f3), static const TransverseMercatorExact t(6378137, 1 / 298.257223563, 0.9996, true); prev_(t, a, o));
  EP_("PolarStereographic::Forward", "northp:b lat:a lon:o -> x y gamma k", (BB{{1, 80.5, 10.25}, {0, -62.75, -148.5}}), PolarStereographic::UPS().Forward(a[0] != 0, a[1], a[2], o.d[0], o.d[1], o.d[2], o.d[3]));
  EP_("PolarStereographic::Reverse", "northp:b x:x y:x -> lat lon gamma k", (BB{{1, 1.2e5, -4.5e5}, {0, -2.5e6, 1.8e6}}), PolarStereographic::UPS().Reverse(a[0] != 0, a[1], a[2], o.d[0], o.d[1], o.d[2], o.d[3]));
  EP_("LambertConformalConic::Forward", fs, f3, static const LambertConformalConic p(6378137, 1 / 298.257223563, 33, 45, 1); pfwd_(p, a, o));
  EP_("LambertConformalConic::Reverse", rs, rb_(LambertConformalConic(6378137, 1 / 298.257223563, 33, 45, 1), f3), static const LambertConformalConic p(6378137, 1 / 298.257223563, 33, 45, 1); prev_(p, a, o));
  EP_("LambertConformalConic::Forward[Mercator]", fs, f3, pfwd_(LambertConformalConic::Mercator(), a, o));
  EP_("LambertConformalConic::Reverse[Mercator]", rs, rb_(LambertConformalConic::Mercator(), f3), prev_(LambertConformalConic::Mercator(), a, o));
  EP_("LambertConformalConic::Forward[polar]", fs, f3, static const LambertConformalConic p(6378137, 1 / 298.257223563, 90, 1); pfwd_(p, a, o));
  EP_("AlbersEqualArea::Forward", fs, f3, static const AlbersEqualArea p(6378137, 1 / 298.257223563, 33, 45, 1); pfwd_(p, a, o));
  EP_("AlbersEqualArea::Reverse", rs, rb_(AlbersEqualArea(6378137, 1 / 298.257223563, 33, 45, 1), f3), static const AlbersEqualArea p(6378137, 1 / 298.257223563, 33, 45, 1); prev_(p, a, o));
  EP_("AlbersEqualArea::Forward[cylindrical]", fs, f3, pfwd_(AlbersEqualArea::CylindricalEqualArea(), a, o));
  EP_("AlbersEqualArea::Reverse[cylindrical]", rs, rb_(AlbersEqualArea::CylindricalEqualArea(), f3), prev_(AlbersEqualArea::CylindricalEqualArea(), a, o));
  EP_("AlbersEqualArea::Forward[azimuthal-north]", fs, f3, pfwd_(AlbersEqualArea::AzimuthalEqualAreaNorth(), a, o));
  EP_("AlbersEqualArea::Reverse[azimuthal-south]", rs, rb_(AlbersEqualArea::AzimuthalEqualAreaSouth(), f3), prev_(AlbersEqualArea::AzimuthalEqualAreaSouth(), a, o));
  BB f4 = {{36.5, 3.25, 40.5, 10.25}, {-50, -150, -52.75, -148.5}};
  BB r4 = {{36.5, 3.25, 1.2e5, -4.5e5}, {-50, -150, -2.5e6, 1.8e6}};
  EP_("AzimuthalEquidistant::Forward", "lat0:a lon0:o lat:a lon:o -> x y azi rk", f4, static const AzimuthalEquidistant p(GD()); p.Forward(a[0], a[1], a[2], a[3], o.d[0], o.d[1], o.d[2], o.d[3]));
  EP_("AzimuthalEquidistant::Reverse", "lat0:a lon0:o x:x y:x -> lat lon azi rk", r4, static const AzimuthalEquidistant p(GD()); p.Reverse(a[0], a[1], a[2], a[3], o.d[0], o.d[1], o.d[2], o.d[3]));
  EP_("Gnomonic::Forward", "lat0:a lon0:o lat:a lon:o -> x y azi rk", f4, static const Gnomonic p(GD()); p.Forward(a[0], a[1], a[2], a[3], o.d[0], o.d[1], o.d[2], o.d[3]));
  EP_("Gnomonic::Reverse", "lat0:a lon0:o x:x y:x -> lat lon azi rk", r4, static const Gnomonic p(GD()); p.Reverse(a[0], a[1], a[2], a[3], o.d[0], o.d[1], o.d[2], o.d[3]));
  EP_("CassiniSoldner::Forward", "lat:a lon:o -> x y azi rk", (BB{{40.5, 10.25}, {-52.75, 48.5}}), static const CassiniSoldner p(36.5, 3.25, GD()); p.Forward(a[0], a[1], o.d[0], o.d[1], o.d[2], o.d[3]));
  EP_("CassiniSoldner::Reverse", "x:x y:x -> lat lon azi rk", (BB{{1.2e5, -4.5e5}, {-2.5e6, 1.8e6}}), static const CassiniSoldner p(36.5, 3.25, GD()); p.Reverse(a[0], a[1], o.d[0], o.d[1], o.d[2], o.d[3]));
  EPC_("CassiniSoldner::Reset+Forward", "lat0:a lon0:o -> x y", (BB{{36.5, 3.25}, {-50, 40}}), CassiniSoldner p(GD()); p.Reset(a[0], a[1]); p.Forward(40.5, 10.25, o.d[0], o.d[1]));
  EP_("OSGB::Forward", "lat:a lon:o -> x y gamma k", (BB{{52.5, -1.25}, {57.75, -5.5}}), OSGB::Forward(a[0], a[1], o.d[0], o.d[1], o.d[2], o.d[3]));
  EP_("OSGB::Reverse", "x:x y:x -> lat lon gamma k", (BB{{451000, 312000}, {251500, 851500}}), OSGB::Reverse(a[0], a[1], o.d[0], o.d[1], o.d[2], o.d[3]));
  EP_("OSGB::GridReference(x,y,prec)", "x:x y:x prec:i -> s:gridref", (BB{{451000, 312000, 3}, {251500, 851500, 5}}), OSGB::GridReference(a[0], a[1], (int)a[2], o.s[0]));
}

static void reg_grid() {
  EP_("UTMUPS::StandardZone", "lat:a lon:o setzone:i -> i:zone", (BB{{40.5, 10.25, (double)UTMUPS::STANDARD}, {-52.75, -148.5, (double)UTMUPS::UTM}}), o.i[0] = UTMUPS::StandardZone(a[0], a[1], (int)a[2]));
  EP_("UTMUPS::Forward", "lat:a lon:o setzone:i mgrslimits:b -> x y gamma k i:zone b:northp", (BB{{40.5, 10.25, (double)UTMUPS::STANDARD, 0}, {-52.75, -148.5, (double)UTMUPS::STANDARD, 1}, {84.5, 30.5, (double)UTMUPS::STANDARD, 0}}), UTMUPS::Forward(a[0], a[1], o.i[0], o.b[0], o.d[0], o.d[1], o.d[2], o.d[3], (int)a[2], a[3] != 0));
  EP_("UTMUPS::Reverse", "zone:i northp:b x:x y:x mgrslimits:b -> lat lon gamma k", (BB{{32, 1, 436000, 4483000, 0}, {6, 0, 466500, 4156000, 1}, {0, 1, 2100000, 1600000, 0}}), UTMUPS::Reverse((int)a[0], a[1] != 0, a[2], a[3], o.d[0], o.d[1], o.d[2], o.d[3], a[4] != 0));
  EP_("UTMUPS::Transfer", "zonein:i northpin:b xin:x yin:x zoneout:i northpout:b -> xout yout i:zone", (BB{{32, 1, 436000, 4483000, 31, 1}, {6, 0, 466500, 4156000, 5, 0}}), UTMUPS::Transfer((int)a[0], a[1] != 0, a[2], a[3], (int)a[4], a[5] != 0, o.d[0], o.d[1], o.i[0]));
  EP_("UTMUPS::EncodeZone", "zone:i northp:b abbrev:b -> s:zonestr", (BB{{32, 1, 1}, {0, 0, 0}}), o.s[0] = UTMUPS::EncodeZone((int)a[0], a[1] != 0, a[2] != 0));
  EP_("UTMUPS::EncodeEPSG", "zone:i northp:b -> i:epsg", (BB{{32, 1}, {0, 0}}), o.i[0] = UTMUPS::EncodeEPSG((int)a[0], a[1] != 0));
  EP_("UTMUPS::DecodeEPSG", "epsg:i -> i:zone b:northp", (BB{{32632}, {32761}}), UTMUPS::DecodeEPSG((int)a[0], o.i[0], o.b[0]));
  EP_("MGRS::Forward", "zone:i northp:b x:x y:x prec:i -> s:mgrs", (BB{{32, 1, 436000, 4483000, 3}, {6, 0, 466500, 4156000, 5}, {0, 1, 2100000, 1600000, 0}}), MGRS::Forward((int)a[0], a[1] != 0, a[2], a[3], (int)a[4], o.s[0]));
  EP_("MGRS::Forward(lat)", "zone:i northp:b x:x y:x lat:a prec:i -> s:mgrs", (BB{{32, 1, 436000, 4483000, 40.5, 3}, {6, 0, 466500, 4156000, -52.75, 5}}), MGRS::Forward((int)a[0], a[1] != 0, a[2], a[3], a[4], (int)a[5], o.s[0]));
  EPC_("GeoCoords(lat,lon,zone)", "lat:a lon:o zone:i -> rlat rlon easting northing conv scale alteasting altnorthing altconv altscale s:geo s:mgrs s:utmups s:dms i:zone i:altzone b:northp", (BB{{40.5, 10.25, (double)UTMUPS::STANDARD}, {-52.75, -148.5, 5}}),
    GeoCoords g(a[0], a[1], (int)a[2]); o.d[0] = g.Latitude(); o.d[1] = g.Longitude(); o.d[2] = g.Easting(); o.d[3] = g.Northing(); o.d[4] = g.Convergence(); o.d[5] = g.Scale(); o.d[6] = g.AltEasting(); o.d[7] = g.AltNorthing(); o.d[8] = g.AltConvergence(); o.d[9] = g.AltScale();
    o.i[0] = g.Zone(); o.i[1] = g.AltZone(); o.b[0] = g.Northp(); o.s[0] = g.GeoRepresentation(3); o.s[1] = g.MGRSRepresentation(2); o.s[2] = g.UTMUPSRepresentation(1); o.s[3] = g.DMSRepresentation(1));
  EPC_("GeoCoords(zone,northp,x,y)", "zone:i northp:b x:x y:x -> rlat rlon easting northing conv scale s:geo s:mgrs s:utmups s:altmgrs i:zone b:northp", (BB{{32, 1, 436000, 4483000}, {6, 0, 466500, 4156000}}),
    GeoCoords g((int)a[0], a[1] != 0, a[2], a[3]); o.d[0] = g.Latitude(); o.d[1] = g.Longitude(); o.d[2] = g.Easting(); o.d[3] = g.Northing(); o.d[4] = g.Convergence(); o.d[5] = g.Scale(); o.i[0] = g.Zone(); o.b[0] = g.Northp(); o.s[0] = g.GeoRepresentation(3); o.s[1] = g.MGRSRepresentation(2); o.s[2] = g.UTMUPSRepresentation(1); o.s[3] = g.AltMGRSRepresentation(0));
  EPC_("GeoCoords::SetAltZone+representations", "zone:i prec:i -> alteasting altnorthing s:geo s:dms s:mgrs s:altutmups i:altzone", (BB{{33, 2}, {(double)UTMUPS::STANDARD, -1}}),
    GeoCoords g(40.5, 10.25); g.SetAltZone((int)a[0]); o.d[0] = g.AltEasting(); o.d[1] = g.AltNorthing(); o.i[0] = g.AltZone(); o.s[0] = g.GeoRepresentation((int)a[1]); o.s[1] = g.DMSRepresentation((int)a[1]); o.s[2] = g.MGRSRepresentation((int)a[1]); o.s[3] = g.AltUTMUPSRepresentation((int)a[1]));
  EP_("DMS::Encode(angle,trailing,prec,ind)", "angle:g trailing:i prec:i ind:i -> s:dms", (BB{{40.5125, 2, 3, 1}, {-148.25, 0, 5, 2}}), int tr = (int)a[1]; int ind = (int)a[3]; if (tr < 0 || tr > 2) tr = 2; if (ind < 0 || ind > 4) ind = 0; o.s[0] = DMS::Encode(a[0], DMS::component(tr), (unsigned)(int)a[2], DMS::flag(ind)));
  EPC_("DMS::Encode(angle,prec,ind)", "angle:g prec:i -> s:dms s:dmsc", (BB{{40.5125, 3}, {-148.25, 9}}), o.s[0] = DMS::Encode(a[0], (unsigned)(int)a[1], DMS::LONGITUDE); o.s[1] = DMS::Encode(a[0], (unsigned)(int)a[1], DMS::AZIMUTH, ':'));
  EPC_("DMS::Encode(ang,d,m,s)", "ang:g -> d m d2 m2 s2", (BB{{40.5125}, {-148.25}}), DMS::Encode(a[0], o.d[0], o.d[1]); DMS::Encode(a[0], o.d[2], o.d[3], o.d[4]));
  EP_("DMS::Decode(d,m,s)", "d:g m:r s:r -> r", (BB{{40, 30, 45.5}, {-148, 15, 0.25}}), o.d[0] = DMS::Decode(a[0], a[1], a[2]));
  EP_("Geohash::Forward", "lat:a lon:o len:i -> s:geohash", (BB{{40.5, 10.25, 6}, {-52.75, -148.5, 12}}), Geohash::Forward(a[0], a[1], (int)a[2], o.s[0]));
  EPC_("Geohash::resolutions", "len:i -> latres lonres i:decprec", (BB{{6}, {12}}), o.d[0] = Geohash::LatitudeResolution((int)a[0]); o.d[1] = Geohash::LongitudeResolution((int)a[0]); o.i[0] = Geohash::DecimalPrecision((int)a[0]));
  EPC_("Geohash::GeohashLength", "res:r lonres:r -> i:len i:len2", (BB{{0.01, 0.02}, {1e-6, 5e-7}}), o.i[0] = Geohash::GeohashLength(a[0]); o.i[1] = Geohash::GeohashLength(a[0], a[1]));
  EP_("GARS::Forward", "lat:a lon:o prec:i -> s:gars", (BB{{40.5, 10.25, 2}, {-52.75, -148.5, 0}}), GARS::Forward(a[0], a[1], (int)a[2], o.s[0]));
  EPC_("GARS::Resolution+Precision", "prec:i res:r -> resol i:prec", (BB{{1, 0.3}, {2, 0.01}}), o.d[0] = GARS::Resolution((int)a[0]); o.i[0] = GARS::Precision(a[1]));
  EP_("Georef::Forward", "lat:a lon:o prec:i -> s:georef", (BB{{40.5, 10.25, 2}, {-52.75, -148.5, 5}}), Georef::Forward(a[0], a[1], (int)a[2], o.s[0]));
  EPC_("Georef::Resolution+Precision", "prec:i res:r -> resol i:prec", (BB{{1, 0.3}, {4, 1e-4}}), o.d[0] = Georef::Resolution((int)a[0]); o.i[0] = Georef::Precision(a[1]));
  EPC_("Utility::day+dow", "y:i m:i d:i -> i:day i:daycheck i:dow", (BB{{2020, 2, 29}, {1752, 9, 14}}), o.i[0] = Utility::day((int)a[0], (int)a[1], (int)a[2]); o.i[2] = Utility::dow((int)a[0], (int)a[1], (int)a[2]); o.i[1] = Utility::day((int)a[0], (int)a[1], (int)a[2], true));
  EP_("Utility::date(s)", "s:i -> i:y i:m i:d", (BB{{737484}, {639799}}), Utility::date((int)a[0], o.i[0], o.i[1], o.i[2]));
  EP_("Utility::str(x,p)", "x:r p:i -> s:str", (BB{{0.75, 3}, {-2.5e10, -1}}), o.s[0] = Utility::str(a[0], (int)a[1]));
}

static void reg_ellipsoid() {
  BB p1 = {{40.5}, {-72.75}};
#define ELL1(FN) EP_("Ellipsoid::" #FN, "phi:a -> r", p1, o.d[0] = Ellipsoid::WGS84().FN(a[0]))
  ELL1(ParametricLatitude); ELL1(InverseParametricLatitude); ELL1(GeocentricLatitude); ELL1(InverseGeocentricLatitude);
  ELL1(RectifyingLatitude); ELL1(InverseRectifyingLatitude); ELL1(AuthalicLatitude); ELL1(InverseAuthalicLatitude);
  ELL1(ConformalLatitude); ELL1(InverseConformalLatitude); ELL1(IsometricLatitude); ELL1(InverseIsometricLatitude);
  ELL1(CircleRadius); ELL1(CircleHeight); ELL1(MeridianDistance); ELL1(MeridionalCurvatureRadius); ELL1(TransverseCurvatureRadius);
  EP_("Ellipsoid::NormalCurvatureRadius", "phi:a azi:z -> r", (BB{{40.5, 30.75}, {-72.75, -100.125}}), o.d[0] = Ellipsoid::WGS84().NormalCurvatureRadius(a[0], a[1]));
  EP_("Ellipsoid::IsometricLatitude[prolate]", "phi:a -> r", p1, static const Ellipsoid e(6.4e6, -0.1); o.d[0] = e.IsometricLatitude(a[0]));
  EPC_("Ellipsoid::flattening-conversions", "f:u -> fp f1 n f2 e2 f3 ep2 f4 epp2 f5", (BB{{0.0033}, {-0.05}}),
    o.d[0] = Ellipsoid::FlatteningToSecondFlattening(a[0]); o.d[1] = Ellipsoid::SecondFlatteningToFlattening(a[0]); o.d[2] = Ellipsoid::FlatteningToThirdFlattening(a[0]); o.d[3] = Ellipsoid::ThirdFlatteningToFlattening(a[0]);
    o.d[4] = Ellipsoid::FlatteningToEccentricitySq(a[0]); o.d[5] = Ellipsoid::EccentricitySqToFlattening(a[0]); o.d[6] = Ellipsoid::FlatteningToSecondEccentricitySq(a[0]); o.d[7] = Ellipsoid::SecondEccentricitySqToFlattening(a[0]);
    o.d[8] = Ellipsoid::FlatteningToThirdEccentricitySq(a[0]); o.d[9] = Ellipsoid::ThirdEccentricitySqToFlattening(a[0]));
  EP_("AuxLatitude::Convert", "auxin:i auxout:i zeta:a exact:b -> r", (BB{{0, 2, 40.5, 0}, {4, 1, -72.75, 1}, {5, 0, 33.25, 0}}), o.d[0] = AuxLatitude::WGS84().Convert((int)a[0], (int)a[1], a[2], a[3] != 0));
  EP_("AuxLatitude::Convert(AuxAngle)", "auxin:i auxout:i y:r x:r exact:b -> degrees", (BB{{0, 2, 0.75, 1.5, 0}, {3, 1, -2.5, 0.3, 1}}), AuxAngle r = AuxLatitude::WGS84().Convert((int)a[0], (int)a[1], AuxAngle(a[2], a[3]), a[4] != 0); o.d[0] = r.degrees());
  EP_("AuxLatitude::Clenshaw", "szeta:u czeta:u -> r", (BB{{0.6, 0.8}, {-0.28, 0.96}}), static const double c[] = {0.1, -0.02, 0.003, 1e-4}; o.d[0] = AuxLatitude::Clenshaw(true, a[0], a[1], c, 4));
  EP_("DAuxLatitude::DRectifying", "phi1:a phi2:a -> r", (BB{{40.5, 10.25}, {-72.75, -72.5}}), static const DAuxLatitude d(6378137, 1 / 298.257223563); o.d[0] = d.DRectifying(AuxAngle::degrees(a[0]), AuxAngle::degrees(a[1])));
  EP_("DAuxLatitude::DIsometric", "phi1:a phi2:a -> r", (BB{{40.5, 10.25}, {-72.75, -72.5}}), static const DAuxLatitude d(6378137, 1 / 298.257223563); o.d[0] = d.DIsometric(AuxAngle::degrees(a[0]), AuxAngle::degrees(a[1])));
  EP_("DAuxLatitude::DParametric", "phi1:a phi2:a -> r", (BB{{40.5, 10.25}, {-72.75, -72.5}}), static const DAuxLatitude d(6378137, 1 / 298.257223563); o.d[0] = d.DParametric(AuxAngle::degrees(a[0]), AuxAngle::degrees(a[1])));
  EP_("DAuxLatitude::DConvert", "auxin:i auxout:i phi1:a phi2:a -> r", (BB{{0, 2, 40.5, 10.25}, {0, 4, -72.75, -72.5}}), static const DAuxLatitude d(6378137, 1 / 298.257223563); o.d[0] = d.DConvert((int)a[0], (int)a[1], AuxAngle::degrees(a[2]), AuxAngle::degrees(a[3])));
  EPC_("DAuxLatitude::Dlam+Dp0Dpsi", "x:r y:r -> dlam dp0", (BB{{0.75, 1.5}, {-2.5, -0.3}}), o.d[0] = DAuxLatitude::Dlam(a[0], a[1]); o.d[1] = DAuxLatitude::Dp0Dpsi(a[0], a[1]));

#define ELF1(NM, KIND, ...) EP_("EllipticFunction::" NM, KIND, (BB{{0.7}, {-2.5}}), static const EllipticFunction e(0.3, 0.2); __VA_ARGS__)
  ELF1("F(phi)", "phi:q -> r", o.d[0] = e.F(a[0])); ELF1("E(phi)", "phi:q -> r", o.d[0] = e.E(a[0])); ELF1("D(phi)", "phi:q -> r", o.d[0] = e.D(a[0]));
  ELF1("Pi(phi)", "phi:q -> r", o.d[0] = e.Pi(a[0])); ELF1("G(phi)", "phi:q -> r", o.d[0] = e.G(a[0])); ELF1("H(phi)", "phi:q -> r", o.d[0] = e.H(a[0]));
  ELF1("Ed(ang)", "ang:g -> r", o.d[0] = e.Ed(a[0] * 40)); ELF1("Einv(x)", "x:q -> r", o.d[0] = e.Einv(a[0])); ELF1("am(x)", "x:q -> am sn cn dn", o.d[0] = e.am(a[0], o.d[1], o.d[2], o.d[3]));
  ELF1("sncndn(x)", "x:q -> sn cn dn", e.sncndn(a[0], o.d[0], o.d[1], o.d[2]));
  EPC_("EllipticFunction::F,E,Pi,D,G,H(sn,cn,dn)", "sn:u cn:u dn:u -> F E Pi D G H dF dE dPi dD dG dH Delta", (BB{{0.6, 0.8, 0.94}, {-0.28, 0.96, 0.99}}), static const EllipticFunction e(0.3, 0.2);
    o.d[0] = e.F(a[0], a[1], a[2]); o.d[1] = e.E(a[0], a[1], a[2]); o.d[2] = e.Pi(a[0], a[1], a[2]); o.d[3] = e.D(a[0], a[1], a[2]); o.d[4] = e.G(a[0], a[1], a[2]); o.d[5] = e.H(a[0], a[1], a[2]);
    o.d[6] = e.deltaF(a[0], a[1], a[2]); o.d[7] = e.deltaE(a[0], a[1], a[2]); o.d[8] = e.deltaPi(a[0], a[1], a[2]); o.d[9] = e.deltaD(a[0], a[1], a[2]); o.d[10] = e.deltaG(a[0], a[1], a[2]); o.d[11] = e.deltaH(a[0], a[1], a[2]); o.d[12] = e.Delta(a[0], a[1]));
  EP_("EllipticFunction::deltaEinv", "stau:u ctau:u -> r", (BB{{0.6, 0.8}, {-0.28, 0.96}}), static const EllipticFunction e(0.3, 0.2); o.d[0] = e.deltaEinv(a[0], a[1]));
  EP_("EllipticFunction::RF(x,y,z)", "x:r y:r z:r -> r", (BB{{0.5, 1.5, 2.5}, {3, 0.25, 7}}), o.d[0] = EllipticFunction::RF(a[0], a[1], a[2]));
  EP_("EllipticFunction::RF(x,y)", "x:r y:r -> r", (BB{{0.5, 1.5}, {3, 0.25}}), o.d[0] = EllipticFunction::RF(a[0], a[1]));
  EP_("EllipticFunction::RC", "x:r y:r -> r", (BB{{0.5, 1.5}, {3, 0.25}}), o.d[0] = EllipticFunction::RC(a[0], a[1]));
  EP_("EllipticFunction::RG(x,y,z)", "x:r y:r z:r -> r", (BB{{0.5, 1.5, 2.5}, {3, 0.25, 7}}), o.d[0] = EllipticFunction::RG(a[0], a[1], a[2]));
  EP_("EllipticFunction::RG(x,y)", "x:r y:r -> r", (BB{{0.5, 1.5}, {3, 0.25}}), o.d[0] = EllipticFunction::RG(a[0], a[1]));
  EP_("EllipticFunction::RJ", "x:r y:r z:r p:r -> r", (BB{{0.5, 1.5, 2.5, 1.25}, {3, 0.25, 7, 0.75}}), o.d[0] = EllipticFunction::RJ(a[0], a[1], a[2], a[3]));
  EP_("EllipticFunction::RD", "x:r y:r z:r -> r", (BB{{0.5, 1.5, 2.5}, {3, 0.25, 7}}), o.d[0] = EllipticFunction::RD(a[0], a[1], a[2]));
}

static const std::vector<double>& SHC() { static const std::vector<double> c = [] { std::vector<double> v; for (int k = 0; k < 10; ++k) v.push_back(0.5 + 0.37 * k * ((k % 3) ? 1 : -1)); v.shrink_to_fit(); return v; }(); return c; }
static const std::vector<double>& SHS() { static const std::vector<double> c = [] { std::vector<double> v; for (int k = 0; k < 6; ++k) v.push_back(0.25 - 0.21 * k * ((k % 2) ? 1 : -1)); v.shrink_to_fit(); return v; }(); return c; }
static void reg_models() {
  EP_("NormalGravity::SurfaceGravity", "lat:a -> r", (BB{{40.5}, {-72.75}}), o.d[0] = NormalGravity::WGS84().SurfaceGravity(a[0]));
  EP_("NormalGravity::Gravity", "lat:a h:h -> g gammay gammaz", (BB{{40.5, 1200}, {-72.75, -300}}), o.d[0] = NormalGravity::WGS84().Gravity(a[0], a[1], o.d[1], o.d[2]));
  BB xyz = {{4.2e6, 1.1e6, 4.6e6}, {-1.5e6, -0.9e6, -6.0e6}};
  EP_("NormalGravity::U", "X:x Y:x Z:x -> U gX gY gZ", xyz, o.d[0] = NormalGravity::WGS84().U(a[0], a[1], a[2], o.d[1], o.d[2], o.d[3]));
  EP_("NormalGravity::V0", "X:x Y:x Z:x -> V GX GY GZ", xyz, o.d[0] = NormalGravity::WGS84().V0(a[0], a[1], a[2], o.d[1], o.d[2], o.d[3]));
  EP_("NormalGravity::Phi", "X:x Y:x -> Phi fX fY", (BB{{4.2e6, 1.1e6}, {-1.5e6, -0.9e6}}), o.d[0] = NormalGravity::WGS84().Phi(a[0], a[1], o.d[1], o.d[2]));
  EP_("NormalGravity::J2ToFlattening", "a:r GM:r omega:r J2:r -> f", (BB{{6378137, 3.986004418e14, 7.292115e-5, 1.08263e-3}, {6.4e6, 4e14, 7e-5, 2e-3}}), o.d[0] = NormalGravity::J2ToFlattening(a[0], a[1], a[2], a[3]));
  EP_("NormalGravity::FlatteningToJ2", "a:r GM:r omega:r f:r -> J2", (BB{{6378137, 3.986004418e14, 7.292115e-5, 1 / 298.257223563}, {6.4e6, 4e14, 7e-5, 0.01}}), o.d[0] = NormalGravity::FlatteningToJ2(a[0], a[1], a[2], a[3]));
  EP_("NormalGravity::DynamicalFormFactor", "n:i -> r", (BB{{2}, {8}}), o.d[0] = NormalGravity::WGS84().DynamicalFormFactor((int)a[0]));
  EP_("SphericalHarmonic::operator()", "x:x y:x z:x -> v", xyz, static const SphericalHarmonic h(SHC(), SHS(), 3, 6.4e6); o.d[0] = h(a[0], a[1], a[2]));
  EP_("SphericalHarmonic::operator()(grad)", "x:x y:x z:x -> v gx gy gz", xyz, static const SphericalHarmonic h(SHC(), SHS(), 3, 6.4e6, SphericalHarmonic::SCHMIDT); o.d[0] = h(a[0], a[1], a[2], o.d[1], o.d[2], o.d[3]));
  EPC_("SphericalHarmonic::Circle+operator()", "p:x z:x lon:o -> v gx gy gz", (BB{{4.2e6, 4.6e6, 10.25}, {1.5e6, -6.0e6, -148.5}}), static const SphericalHarmonic h(SHC(), SHS(), 3, 6.4e6); CircularEngine c = h.Circle(a[0], a[1], true); o.d[0] = c(a[2], o.d[1], o.d[2], o.d[3]));
  EPC_("CircularEngine::operator()(sinlon,coslon)", "sinlon:u coslon:u -> v gx gy gz v0", (BB{{0.6, 0.8}, {-0.28, 0.96}}), static const SphericalHarmonic h(SHC(), SHS(), 3, 6.4e6); static const CircularEngine c = h.Circle(4.2e6, 4.6e6, true); o.d[0] = c(a[0], a[1], o.d[1], o.d[2], o.d[3]); o.d[4] = c(a[0], a[1]));
  EP_("SphericalHarmonic1::operator()", "tau:u x:x y:x z:x -> v gx gy gz", (BB{{0.5, 4.2e6, 1.1e6, 4.6e6}, {-0.25, -1.5e6, -0.9e6, -6.0e6}}), static const SphericalHarmonic1 h(SHC(), SHS(), 3, SHC(), SHS(), 2, 6.4e6); o.d[0] = h(a[0], a[1], a[2], a[3], o.d[1], o.d[2], o.d[3]));
  EP_("SphericalHarmonic2::operator()", "tau1:u tau2:u x:x y:x z:x -> v gx gy gz", (BB{{0.5, 0.125, 4.2e6, 1.1e6, 4.6e6}, {-0.25, 2, -1.5e6, -0.9e6, -6.0e6}}), static const SphericalHarmonic2 h(SHC(), SHS(), 3, SHC(), SHS(), 2, SHC(), SHS(), 1, 6.4e6); o.d[0] = h(a[0], a[1], a[2], a[3], a[4], o.d[1], o.d[2], o.d[3]));
  EPC_("SphericalHarmonic1::Circle+operator()", "tau:u p:x z:x lon:o -> v gx gy gz", (BB{{0.5, 4.2e6, 4.6e6, 10.25}, {-0.25, 1.5e6, -6.0e6, -148.5}}), static const SphericalHarmonic1 h(SHC(), SHS(), 3, SHC(), SHS(), 2, 6.4e6); CircularEngine c = h.Circle(a[0], a[1], a[2], true); o.d[0] = c(a[3], o.d[1], o.d[2], o.d[3]));
  BB llh = {{40.5, 10.25, 1200}, {-72.75, -150.5, -300}};
#define GM_ static const GravityModel g("tiny", g_dir)
  EP_("GravityModel::Gravity", "lat:a lon:o h:h -> W gx gy gz", llh, GM_; o.d[0] = g.Gravity(a[0], a[1], a[2], o.d[1], o.d[2], o.d[3]));
  EP_("GravityModel::Disturbance", "lat:a lon:o h:h -> T dx dy dz", llh, GM_; o.d[0] = g.Disturbance(a[0], a[1], a[2], o.d[1], o.d[2], o.d[3]));
  EP_("GravityModel::GeoidHeight", "lat:a lon:o -> N", (BB{{40.5, 10.25}, {-72.75, -150.5}}), GM_; o.d[0] = g.GeoidHeight(a[0], a[1]));
  EP_("GravityModel::SphericalAnomaly", "lat:a lon:o h:h -> Dg01 xi eta", llh, GM_; g.SphericalAnomaly(a[0], a[1], a[2], o.d[0], o.d[1], o.d[2]));
  EP_("GravityModel::W", "X:x Y:x Z:x -> W gX gY gZ", xyz, GM_; o.d[0] = g.W(a[0], a[1], a[2], o.d[1], o.d[2], o.d[3]));
  EP_("GravityModel::V", "X:x Y:x Z:x -> V GX GY GZ", xyz, GM_; o.d[0] = g.V(a[0], a[1], a[2], o.d[1], o.d[2], o.d[3]));
  EPC_("GravityModel::T", "X:x Y:x Z:x -> T dX dY dZ T0", xyz, GM_; o.d[0] = g.T(a[0], a[1], a[2], o.d[1], o.d[2], o.d[3]); o.d[4] = g.T(a[0], a[1], a[2]));
  EPC_("GravityModel::U+Phi", "X:x Y:x Z:x -> U gX gY gZ Phi fX fY", xyz, GM_; o.d[0] = g.U(a[0], a[1], a[2], o.d[1], o.d[2], o.d[3]); o.d[4] = g.Phi(a[0], a[1], o.d[5], o.d[6]));
  EPC_("GravityModel::Circle+GravityCircle", "lat:a h:h caps:i lon:o -> W gx gy gz T dx dy dz Dg01 xi eta", (BB{{40.5, 1200, (double)GravityModel::ALL, 10.25}, {-72.75, -300, (double)(GravityModel::GRAVITY | GravityModel::GEOID_HEIGHT | GravityModel::DISTURBANCE | GravityModel::SPHERICAL_ANOMALY), -150.5}}), GM_;
    GravityCircle c = g.Circle(a[0], a[1], (unsigned)(int)a[2]); o.d[0] = c.Gravity(a[3], o.d[1], o.d[2], o.d[3]); o.d[4] = c.Disturbance(a[3], o.d[5], o.d[6], o.d[7]); c.SphericalAnomaly(a[3], o.d[8], o.d[9], o.d[10]));
  EP_("GravityCircle::GeoidHeight", "lon:o -> N", (BB{{10.25}, {-150.5}}), GM_; static const GravityCircle c = g.Circle(40.5, 0, GravityModel::GEOID_HEIGHT); o.d[0] = c.GeoidHeight(a[0]));
  EPC_("GravityCircle::W,V,T", "lon:o -> W gX gY gZ V GX GY GZ T dX dY dZ T0", (BB{{10.25}, {-150.5}}), GM_; static const GravityCircle c = g.Circle(40.5, 1200); o.d[0] = c.W(a[0], o.d[1], o.d[2], o.d[3]); o.d[4] = c.V(a[0], o.d[5], o.d[6], o.d[7]); o.d[8] = c.T(a[0], o.d[9], o.d[10], o.d[11]); o.d[12] = c.T(a[0]));
#define MM_ static const MagneticModel m("tiny", g_dir)
  BB tllh = {{2022.5, 40.5, 10.25, 1200}, {2027.25, -72.75, -150.5, -300}};
  EP_("MagneticModel::operator()", "t:t lat:a lon:o h:h -> Bx By Bz", tllh, MM_; m(a[0], a[1], a[2], a[3], o.d[0], o.d[1], o.d[2]));
  EP_("MagneticModel::operator()(rates)", "t:t lat:a lon:o h:h -> Bx By Bz Bxt Byt Bzt", tllh, MM_; m(a[0], a[1], a[2], a[3], o.d[0], o.d[1], o.d[2], o.d[3], o.d[4], o.d[5]));
  EP_("MagneticModel::FieldGeocentric", "t:t X:x Y:x Z:x -> BX BY BZ BXt BYt BZt", (BB{{2022.5, 4.2e6, 1.1e6, 4.6e6}, {2027.25, -1.5e6, -0.9e6, -6.0e6}}), MM_; m.FieldGeocentric(a[0], a[1], a[2], a[3], o.d[0], o.d[1], o.d[2], o.d[3], o.d[4], o.d[5]));
  EPC_("MagneticModel::Circle+MagneticCircle", "t:t lat:a h:h lon:o -> Bx By Bz Bxt Byt Bzt BX BY BZ", (BB{{2022.5, 40.5, 1200, 10.25}, {2027.25, -72.75, -300, -150.5}}), MM_; MagneticCircle c = m.Circle(a[0], a[1], a[2]); c(a[3], o.d[0], o.d[1], o.d[2], o.d[3], o.d[4], o.d[5]); double t1, t2, t3; c.FieldGeocentric(a[3], o.d[6], o.d[7], o.d[8], t1, t2, t3));
  EP_("MagneticModel::FieldComponents", "Bx:r By:r Bz:r -> H F D I", (BB{{1500, 21000, -43000}, {-300, 9000, 52000}}), MagneticModel::FieldComponents(a[0], a[1], a[2], o.d[0], o.d[1], o.d[2], o.d[3]));
  EP_("MagneticModel::FieldComponents(rates)", "Bx:r By:r Bz:r Bxt:r Byt:r Bzt:r -> H F D I Ht Ft Dt It", (BB{{1500, 21000, -43000, 10, -20, 30}, {-300, 9000, 52000, -5, 2.5, 40}}), MagneticModel::FieldComponents(a[0], a[1], a[2], a[3], a[4], a[5], o.d[0], o.d[1], o.d[2], o.d[3], o.d[4], o.d[5], o.d[6], o.d[7]));
  BB ll = {{40.5, 10.25}, {-72.75, -150.5}};
  EP_("Geoid::operator()[cubic]", "lat:a lon:o -> h", ll, static const Geoid g("tiny", g_dir, true); o.d[0] = g(a[0], a[1]));
  EP_("Geoid::operator()[bilinear]", "lat:a lon:o -> h", ll, static const Geoid g("tiny", g_dir, false); o.d[0] = g(a[0], a[1]));
  EP_("Geoid::operator()[threadsafe]", "lat:a lon:o -> h", ll, static const Geoid g("tiny", g_dir, true, true); o.d[0] = g(a[0], a[1]));
  EP_("Geoid::ConvertHeight", "lat:a lon:o h:h d:i -> r", (BB{{40.5, 10.25, 1200, 1}, {-72.75, -150.5, -300, -1}}), static const Geoid g("tiny", g_dir, true); int d = (int)a[3]; if (d != 1 && d != -1 && d != 0) d = 1; o.d[0] = g.ConvertHeight(a[0], a[1], a[2], Geoid::convertflag(d)));
  EPC_("Geoid::CacheArea+operator()", "south:a west:o north:a east:o -> h west east north south", (BB{{20.5, -10.25, 60.5, 40.75}, {-80.5, 150.5, -10.25, 200.5}}), Geoid g("tiny", g_dir, true); g.CacheArea(a[0], a[1], a[2], a[3]); o.d[0] = g(30.5, 170.25); o.d[1] = g.CacheWest(); o.d[2] = g.CacheEast(); o.d[3] = g.CacheNorth(); o.d[4] = g.CacheSouth());
  EP_("Geoid::CacheArea(active cache)+operator()", "south:a west:o north:a east:o -> h", (BB{{20.5, -10.25, 60.5, 40.75}, {-80.5, 150.5, -10.25, 200.5}}), Geoid g("tiny", g_dir, false); g.CacheArea(-30, 0, 30, 90); Thrown t = fault::guarded([&] { g.CacheArea(a[0], a[1], a[2], a[3]); }); double h = g(30.5, 170.25) + g(0.5, 45.25); if (t.oc == fault::GEOERR) throw GeographicErr(t.what); if (t.oc == fault::BADALLOC) throw std::bad_alloc(); if (t.threw()) throw std::runtime_error(t.what); o.d[0] = h);
}

struct Dist1 { double operator()(double a, double b) const { return std::fabs(a - b); } };
static void reg_misc() {
  EPC_("PolygonArea::AddPoint+Compute", "lat:a lon:o -> perimeter area tperimeter tarea i:num", (BB{{40.5, 10.25}, {-72.75, -150.5}}), PolygonArea p(GD()); p.AddPoint(10.5, 20.25); p.AddPoint(-5.25, 60.5); p.AddPoint(a[0], a[1]); o.i[0] = (int)p.Compute(false, true, o.d[0], o.d[1]); p.TestPoint(3.5, 4.5, true, false, o.d[2], o.d[3]));
  EPC_("PolygonArea::TestPoint", "lat:a lon:o -> perimeter area", (BB{{40.5, 10.25}, {-72.75, -150.5}}), PolygonArea p(GD()); p.AddPoint(10.5, 20.25); p.AddPoint(-5.25, 60.5); p.AddPoint(30.5, 100.25); p.TestPoint(a[0], a[1], false, true, o.d[0], o.d[1]));
  EPC_("PolygonArea::AddEdge+Compute", "azi:z s:l -> perimeter area lat lon", (BB{{30.75, 1.5e6}, {-100.125, 4.21e6}}), PolygonArea p(GD()); p.AddPoint(10.5, 20.25); p.AddEdge(80, 2e6); p.AddEdge(a[0], a[1]); p.Compute(false, true, o.d[0], o.d[1]); p.CurrentPoint(o.d[2], o.d[3]));
  EPC_("PolygonArea::TestEdge", "azi:z s:l -> perimeter area", (BB{{30.75, 1.5e6}, {-100.125, 4.21e6}}), PolygonArea p(GD()); p.AddPoint(10.5, 20.25); p.AddEdge(80, 2e6); p.TestEdge(a[0], a[1], false, true, o.d[0], o.d[1]));
  EPC_("PolygonArea::AddPoint+Compute[polyline]", "lat:a lon:o -> perimeter", (BB{{40.5, 10.25}, {-72.75, -150.5}}), PolygonArea p(GD(), true); p.AddPoint(10.5, 20.25); p.AddPoint(a[0], a[1]); double ar; p.Compute(false, true, o.d[0], ar));
  EPC_("PolygonAreaExact::AddPoint+Compute", "lat:a lon:o -> perimeter area", (BB{{40.5, 10.25}, {-72.75, -150.5}}), PolygonAreaExact p(GX()); p.AddPoint(10.5, 20.25); p.AddPoint(-5.25, 60.5); p.AddPoint(a[0], a[1]); p.Compute(false, true, o.d[0], o.d[1]));
  EPC_("PolygonAreaRhumb::AddPoint+Compute", "lat:a lon:o -> perimeter area", (BB{{40.5, 10.25}, {-72.75, -150.5}}), PolygonAreaRhumb p(Rhumb::WGS84()); p.AddPoint(10.5, 20.25); p.AddPoint(-5.25, 60.5); p.AddPoint(a[0], a[1]); p.Compute(false, true, o.d[0], o.d[1]));
  EP_("Intersect::Closest", "latX:a lonX:o aziX:z latY:a lonY:o aziY:z -> x y i:c", (BB{{10.5, 20.25, 30.75, 12.5, 22.25, -50.5}, {-41.25, 170.5, -100.125, -35.5, 160.25, 170.5}}), static const Intersect x(GD()); auto p = x.Closest(a[0], a[1], a[2], a[3], a[4], a[5], Intersect::Point(0, 0), &o.i[0]); o.d[0] = p.first; o.d[1] = p.second);
  EP_("Intersect::Segment", "latX1:a lonX1:o latX2:a lonX2:o latY1:a lonY1:o latY2:a lonY2:o -> x y i:segmode", (BB{{10.5, 20.25, 14.5, 26.25, 14.25, 20.5, 10.25, 26.5}, {-41.25, 170.5, -35.5, -175.25, -35.25, 171.5, -42.5, -178.5}}), static const Intersect x(GD()); auto p = x.Segment(a[0], a[1], a[2], a[3], a[4], a[5], a[6], a[7], o.i[0]); o.d[0] = p.first; o.d[1] = p.second);
  EP_("Intersect::Next", "latX:a lonX:o aziX:z aziY:z -> x y i:c", (BB{{10.5, 20.25, 30.75, -50.5}, {-41.25, 170.5, -100.125, 170.5}}), static const Intersect x(GD()); auto p = x.Next(a[0], a[1], a[2], a[3], &o.i[0]); o.d[0] = p.first; o.d[1] = p.second);
  EP_("Intersect::All", "latX:a lonX:o aziX:z latY:a lonY:o aziY:z maxdist:l -> x0 y0 i:n", (BB{{10.5, 20.25, 30.75, 12.5, 22.25, -50.5, 2.5e7}, {-41.25, 170.5, -100.125, -35.5, 160.25, 170.5, 3.1e7}}), static const Intersect x(GD()); auto v = x.All(a[0], a[1], a[2], a[3], a[4], a[5], a[6]); o.i[0] = (int)v.size(); if (!v.empty()) { o.d[0] = v[0].first; o.d[1] = v[0].second; } else { o.d[0] = o.d[1] = Math::NaN(); });
  EPC_("DST::eval+integral", "sinx:u cosx:u siny:u cosy:u -> eval integral integral2", (BB{{0.6, 0.8, 0.28, 0.96}, {-0.28, 0.96, 0.8, -0.6}}), static const double F[] = {1, -0.3, 0.05, 0.002}; o.d[0] = DST::eval(a[0], a[1], F, 4); o.d[1] = DST::integral(a[0], a[1], F, 4); o.d[2] = DST::integral(a[0], a[1], a[2], a[3], F, 4));
  EP_("NearestNeighbor::Search", "query:r k:i maxdist:r mindist:r exhaustive:b tol:r -> d i:n i:first", (BB{{3.5, 2, 1e300, -1, 1, 0}, {8.25, 3, 4, 0.5, 0, 0.125}}), static const std::vector<double> pts = {0.5, 3.25, 7, 1.5, 9.75, 2, 2, 11}; static const NearestNeighbor<double, double, Dist1> t(pts, Dist1(), 2); std::vector<int> ind; o.d[0] = t.Search(pts, Dist1(), a[0], ind, (int)a[1], a[2], a[3], a[4] != 0, a[5]); o.i[0] = (int)ind.size(); o.i[1] = ind.empty() ? -1 : ind[0]);
}

// ---- special-geometry base calls (NaN x special geometry).  A tuple shorter than the function's arity is completed
// with the tail of its first generic base call (masks, flags, fractions).
static void special(std::initializer_list<const char*> names, const BB& tuples) {
  for (const char* nm : names) {
    bool found = false;
    for (auto& e : g_reg) if (e.name == nm) {
      found = true;
      if (e.first_special == (size_t)-1) e.first_special = e.bases.size();
      for (auto t : tuples) { for (size_t i = t.size(); i < e.kinds.size(); ++i) t.push_back(e.bases[0][i]); if (t.size() != e.kinds.size()) { fprintf(stderr, "registry error: special base arity %s\n", nm); exit(2); } e.bases.push_back(t); }
    }
    if (!found) { fprintf(stderr, "registry error: special(): no entry point %s\n", nm); exit(2); }
  }
}
// the sphere is a degenerate ellipsoid (a12 = s12 / R, M12 = cos(a12) do not depend on the starting point at all): every
// base call of a [sphere] entry point is a special configuration
static void sphere_is_special() { for (auto& e : g_reg) if (e.name.find("[sphere]") != std::string::npos) e.first_special = 0; }
static void reg_special() {
  // inverse problems (lat1 lon1 lat2 lon2): same meridian, opposite meridians, both on the equator, a pole, coincident, nearly antipodal
  const BB INV = {{10, 0, 30, 0}, {10.5, 20.25, -33.75, 20.25}, {10, 0, 30, 180}, {-20.5, -60, 40.25, 120}, {0, 0, 0, 30}, {0, 10, 0, -150.5},
                  {90, 0, 30, 40}, {10, 50, -90, 20}, {10, 20, 10, 20}, {10, 0, -10, 179.5}, {0, 0, 0, 179.7}, {0, 0, 0, 180}, {0, 0, 0, 0}};
  special({"Geodesic::Inverse", "Geodesic::Inverse[exact]", "Geodesic::Inverse[sphere]", "Geodesic::Inverse[prolate]", "Geodesic::Inverse(s12)", "Geodesic::Inverse(azi1,azi2)",
           "Geodesic::GenInverse(mask)", "Geodesic::InverseLine+Position", "GeodesicExact::Inverse", "GeodesicExact::Inverse[sphere]", "GeodesicExact::Inverse[prolate]",
           "Rhumb::Inverse", "Rhumb::Inverse[exact]"}, INV);
  // direct problems / lines (lat1 lon1 azi1 s12): azi = 0, 90, 180, lat1 = +-90, 0, s12 = 0
  const BB DIR = {{10, 20, 0, 1.5e6}, {10, 20, 90, 1.5e6}, {10, 20, 180, 1.5e6}, {90, 20, 30, 1.5e6}, {-90, 20, 30, 1.5e6}, {0, 20, 90, 1.5e6}, {0, 20, 0, 1.5e6}, {10.5, 20.25, 30.75, 0}, {0, 0, 90, 0}};
  special({"Geodesic::Direct", "Geodesic::Direct[exact]", "Geodesic::Direct[sphere]", "Geodesic::Direct[prolate]", "Geodesic::Direct(lat2,lon2)", "Geodesic::Line+Position",
           "Geodesic::DirectLine+Position", "GeodesicExact::Direct", "GeodesicExact::Line+Position", "Rhumb::Direct", "Rhumb::Direct[exact]", "Rhumb::GenDirect(mask)", "Rhumb::Line+Position"}, DIR);
  const BB ARC = {{10, 20, 0, 13.5}, {10, 20, 90, 13.5}, {10, 20, 180, 13.5}, {90, 20, 30, 13.5}, {-90, 20, 30, 13.5}, {0, 20, 90, 13.5}, {10.5, 20.25, 30.75, 0}, {10.5, 20.25, 30.75, 90}, {10.5, 20.25, 30.75, 180}};
  special({"Geodesic::ArcDirect", "GeodesicExact::ArcDirect", "Geodesic::ArcDirectLine+ArcPosition"}, ARC);
  special({"GeodesicLine::Position", "GeodesicLineExact::Position", "RhumbLine::Position"}, {{0}});
  special({"GeodesicLine::ArcPosition", "GeodesicLineExact::ArcPosition"}, {{0}, {90}, {180}});
  // projections (lon0 lat lon): on the central meridian, at the poles, at the origin / on the equator
  const BB PF = {{9, 40.5, 9}, {9, 90, 10.25}, {9, -90, 10.25}, {9, 0, 9}, {9, 0, 10.25}, {0, 40.5, 180}};
  special({"TransverseMercator::Forward", "TransverseMercator::Forward[exact]", "TransverseMercatorExact::Forward", "TransverseMercatorExact::Forward[extendp]",
           "LambertConformalConic::Forward", "LambertConformalConic::Forward[Mercator]", "LambertConformalConic::Forward[polar]",
           "AlbersEqualArea::Forward", "AlbersEqualArea::Forward[cylindrical]", "AlbersEqualArea::Forward[azimuthal-north]"}, PF);
  const BB PR = {{9, 0, 4.5e6}, {9, 0, 0}, {9, 1.2e5, 0}};
  special({"TransverseMercator::Reverse", "TransverseMercator::Reverse[exact]", "TransverseMercatorExact::Reverse", "TransverseMercatorExact::Reverse[extendp]",
           "LambertConformalConic::Reverse", "LambertConformalConic::Reverse[Mercator]", "AlbersEqualArea::Reverse", "AlbersEqualArea::Reverse[cylindrical]", "AlbersEqualArea::Reverse[azimuthal-south]"}, PR);
  special({"PolarStereographic::Forward"}, {{1, 90, 10.25}, {1, 80.5, 0}, {0, -90, 0}, {1, 80.5, 180}, {0, -80.5, 90}});
  special({"PolarStereographic::Reverse"}, {{1, 0, 0}, {1, 0, -4.5e5}, {1, 1.2e5, 0}, {0, 0, 0}});
  special({"AzimuthalEquidistant::Forward", "Gnomonic::Forward"}, {{36.5, 3.25, 36.5, 3.25}, {36.5, 3.25, 50, 3.25}, {90, 0, 50, 10}, {0, 0, 0, 30}, {-90, 0, -60, 40}});
  special({"AzimuthalEquidistant::Reverse", "Gnomonic::Reverse"}, {{36.5, 3.25, 0, 0}, {36.5, 3.25, 0, 1e5}, {36.5, 3.25, 1e5, 0}, {90, 0, 1e5, 1e5}});
  special({"CassiniSoldner::Forward"}, {{36.5, 3.25}, {50, 3.25}, {0, 3.25}, {90, 10}});
  special({"CassiniSoldner::Reverse"}, {{0, 0}, {0, 1e5}, {1e5, 0}});
  special({"UTMUPS::Forward"}, {{0, 9}, {40.5, 9}, {90, 0}, {-90, 0}, {84, 0}, {0, 0}, {-80, 177}});
  // geocentric: on the axis, in the equatorial plane, at the centre
  special({"Geocentric::Reverse", "Geocentric::Reverse(M)", "Geocentric::Reverse[prolate]"}, {{0, 0, 6.4e6}, {0, 0, -6.3e6}, {4.2e6, 1.1e6, 0}, {0, 0, 0}, {6378137, 0, 0}, {0, 6378137, 0}, {1e-3, 0, 1e-3}});
  special({"Geocentric::Forward", "Geocentric::Forward(M)"}, {{90, 0, 0}, {0, 0, 0}, {-90, 10, 100}, {0, 180, 0}});
  special({"LocalCartesian::Forward"}, {{36.5, 3.25, 100}, {90, 0, 0}, {-36.5, -176.75, 0}});
  special({"LocalCartesian::Reverse"}, {{0, 0, 0}, {0, 0, 1e4}, {0, 0, -6.4e6}});
  // polygons: the third vertex at a pole, on the antimeridian, on the equator, equal to the previous vertex
  special({"PolygonArea::AddPoint+Compute", "PolygonArea::TestPoint", "PolygonAreaExact::AddPoint+Compute", "PolygonAreaRhumb::AddPoint+Compute", "PolygonArea::AddPoint+Compute[polyline]"},
          {{90, 0}, {-90, 50}, {20, 180}, {20, -180}, {0, 40}, {-5.25, 60.5}, {10.5, 20.25}});
  special({"PolygonArea::AddEdge+Compute", "PolygonArea::TestEdge"}, {{0, 1e6}, {90, 1e6}, {180, 2e6}, {30.75, 0}});
  // latitude functions at the equator and the poles; angle functions at the quadrant boundaries
  special({"Ellipsoid::ParametricLatitude", "Ellipsoid::GeocentricLatitude", "Ellipsoid::RectifyingLatitude", "Ellipsoid::AuthalicLatitude", "Ellipsoid::ConformalLatitude", "Ellipsoid::IsometricLatitude",
           "Ellipsoid::CircleRadius", "Ellipsoid::CircleHeight", "Ellipsoid::MeridianDistance", "Ellipsoid::MeridionalCurvatureRadius", "Ellipsoid::TransverseCurvatureRadius"}, {{0}, {90}, {-90}});
  special({"Math::sind", "Math::cosd", "Math::tand", "Math::sincosd", "Math::AngNormalize", "Math::AngRound", "Math::LatFix"}, {{0}, {90}, {-90}, {180}});
  special({"Math::atan2d"}, {{0, 1}, {0, -1}, {1, 0}, {0, 0}});
  special({"Math::AngDiff(x,y)"}, {{0, 180}, {-180, 180}, {10, 10}});
}

static void build_registry() { reg_math(); reg_geodesic(); reg_proj(); reg_grid(); reg_ellipsoid(); reg_models(); reg_misc(); reg_special(); sphere_is_special(); }
