// C03 part "interference": engine E2x (mc/interfere.hpp) over the call alphabet ift::tables_C03 (mc/interfere_tables.hpp)
#include "mc/interfere_tables.hpp"
int main(int argc, char** argv) { return ifr::run(argc, argv, ift::tables_C03); }
