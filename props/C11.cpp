// C11 -- polar stereographic, Lambert conformal conic (incl. Mercator / polar limits) and Albers equal area (incl.
// cylindrical / azimuthal limits) agree with the textbook closed forms, are mutually inverse, conformal resp. equal-area.
// Engine E1: exhaustive enumeration of ellipsoid x scale x standard parallels x constructor form x lat x dlon x lon0 on the
// compiled library.  Reference: oracle/proj_cf.hpp (Snyder's closed forms evaluated naively in __float128; rotation and
// magnification by central differences of the closed-form map).
#include "mc/ctx.hpp"
#include "oracle/proj_cf.hpp"
#include <GeographicLib/PolarStereographic.hpp>
#include <GeographicLib/LambertConformalConic.hpp>
#include <GeographicLib/AlbersEqualArea.hpp>
#include <functional>
#include <memory>
#include <string>
#include <vector>
#include <algorithm>

using namespace GeographicLib;
using mc::Ctx; using mc::fx; using mc::fmt; using mc::fmti;
using proj_cf::Q; using proj_cf::Lat; using proj_cf::XY; using proj_cf::Ell;

static const double WGS84_A = 6378137.0, WGS84_F = 1 / 298.257223563;
static std::string fq(Q x) { char b[64]; quadmath_snprintf(b, sizeof b, "%.22Qg", x); return b; }
static double D(Q x) { return (double)x; }
static Q angdiff(Q a, Q b) { Q d = fmodq(a - b, 360); if (d > 180) d -= 360; if (d <= -180) d += 360; return d; }
static double eff_dlon(double lon0, double lon) { long double d = (long double)lon - (long double)lon0; d = remainderl(d, 360.0L); return (double)d; }

// ------------------------------------------------------------------ object under test + its oracle
typedef std::function<void(double, double, double, double&, double&, double&, double&)> Fn7;
struct Under {
  std::string name;
  Fn7 fwd, rev;                      // (lon0, lat, lon) -> (x, y, gamma, k);  (lon0, x, y) -> (lat, lon, gamma, k)
  bool has_lon0 = true;
  bool has_origin = false; double lat0 = 0, k0c = 0;
  // a known defect of this object, described precisely so that only results that ARE that defect are classified as such
  std::string defect;                                   // value of the failure field "defect"
  std::function<XY(Lat, Q)> defect_image;               // what Forward returns if (and only if) the defect is what we see
  std::function<Q(Lat)> defect_k;
  bool defect_in_reverse = false;                       // the defect also affects Reverse (then Reverse-only predicates carry the field too)
  double pole_pair = 0;                                 // +-90: AlbersEqualArea built from that pole plus a DIFFERENT second standard parallel (incl. after SetScale)
  bool defect_blanket = false;                          // the object was BUILT through the defective call (SetScale evaluating a defective Forward): every failure carries the field
};
struct Oracle {
  std::function<XY(Lat, Q)> fwd;
  std::function<Q(Lat)> k;           // closed-form (azimuthal) scale
  std::function<Q(Q)> gamma;         // closed-form convergence (radians) as a function of lam
  bool conformal = true;
  Q phi0 = 0, n = 0;                 // origin latitude (radians), cone constant (0 cylindrical)
  int regular_pole = 0;              // +1 / -1: that pole is a regular point (apex with |n| = 1); 0 none
  double kpole = 0;                  // scale at the regular pole
  Q rho0 = 0; bool conic = false;    // for the ray test at singular poles
};

struct Axes { std::vector<double> lats, dlons, lon0s; };

struct Family {             // which defect classes may be attached to failures
  bool prolate = false;     // f < 0 and the projection's Reverse goes through Math::tauf
};

// ------------------------------------------------------------------ the generic predicate set
static void check_projection(Ctx& ctx, const Ell& E, const Under& U, const Oracle& O, const Axes& A, const Family& fam, const std::vector<double>& stdlats, double k1,
                             bool do_jacobian) {
  const Q ascale = E.a / WGS84_A;
  const Q TOLP = 20e-9Q * ascale;                   // 2 x 10 nm
  const Q KREL = 1.6e-14Q;                          // scale, relative: calibrated (4 x worst observed 3.8e-15; >= 16 eps)
  const Q GTOL = 7e-13Q;                            // convergence, degrees: calibrated (4 x worst observed 1.7e-13 = 1 ulp of 179 deg x n)
  // round-off allowance in the plane, in ulp of the working size: 16 for |f| <= 0.01 ("close to full accuracy", calibrated 4 x worst observed), 64 beyond
  // (documented only as "reasonably accurate" for |f| <= 0.1; larger |f| "verify independently")
  const Q ULPS = fabsq(E.f) <= 0.0100001Q ? 16 : 64;
  const bool clean_obj = U.defect.empty();          // per-predicate worst cases are recorded only for objects without a known defect
  // Math::tauf on prolate ellipsoids (defect found by this check, repaired in /repo, kept as a recognised class): Reverse errors up to about a (2.2 |e^2|)^6
  const Q tauf_gross = fam.prolate ? (2.2Q * fabsq(E.e2) < 0.9Q ? 4 * E.a * powq(2.2Q * fabsq(E.e2), 6) : HUGE_VALQ) : Q(0);
  for (double lat : A.lats) for (double lon0 : A.lon0s) for (double dnom : A.dlons) {
    if (!U.has_lon0 && lon0 != 0) continue;
    const bool far0 = std::fabs(lon0) > 1000 || lon0 == -77.75;                      // far-out central meridian (exactly representable -77.75 + 360 m): reduced longitude-offset subset
    if (far0 && !(dnom == 0 || dnom == 30 || dnom == -179 || dnom == 180)) continue;
    const double lon = lon0 + dnom, dlon = eff_dlon(lon0, lon);
    mc::Ctx::Case cs(ctx);
    auto WH = [&]() { return U.name + " lat=" + fx(lat) + " lon0=" + fmt(lon0) + " lon=" + fx(lon) + " dlon=" + fx(dlon); };   // built only when needed
#define where WH()
    auto WORST = [&](const std::string& nm, double v, int /*the case description is built lazily*/) { if (clean_obj) ctx.worstf(nm, v, WH); };
    auto FAIL = [&](const char* kind, const std::string& msg, mc::Fields extra = {}) {
      mc::Fields f = {{"kind", kind}, {"proj", U.name}, {"lat", fmt(lat)}, {"dlon", fmt(dlon)}, {"lon0", fmt(lon0)}};
      for (auto& t : extra) f.push_back(t);
      if (U.defect_blanket) { bool has = false; for (auto& t : extra) if (t.first == "defect") has = true; if (!has) f.push_back({"defect", U.defect}); }
      ctx.fail(where + " " + kind, where + ": " + msg, f);
    };
    double x = NAN, y = NAN, gam = NAN, k = NAN; int sg = 0;
    try { sg = mc::crashed([&] { U.fwd(lon0, lat, lon, x, y, gam, k); }); } catch (const std::exception& e) { FAIL("fwd-exception", e.what()); continue; }
    if (sg) { FAIL("fwd-crash", "signal " + fmti(sg)); continue; }
    if (!(std::isfinite(x) && std::isfinite(y) && std::isfinite(gam) && std::isfinite(k))) {
      // open finding: AlbersEqualArea with a pole as one of two different standard parallels: Forward AT that pole (the origin, rho0 = 0) returns NaN on many ellipsoids
      const bool res = !O.conformal && U.pole_pair != 0 && lat == U.pole_pair;
      FAIL("fwd-nonfinite", "x=" + fmt(x) + " y=" + fmt(y) + " gamma=" + fmt(gam) + " k=" + fmt(k), res ? mc::Fields{{"defect", "albers-pole-parallel-forward-nan-at-pole"}} : mc::Fields{});
      continue;
    }

    if (far0 && U.has_lon0 && lon0 != -77.75) {
      // invariance under lon0 -> lon0 + 360 m: the same exact longitude difference from the central meridian -77.75 (the difference is a multiple of ulp(lon), so -77.75 + dlon is exact)
      const double lonb = -77.75 + dlon;
      if ((long double)lonb - (long double)(-77.75) == (long double)dlon) {
        double xb, yb, gb, kb; U.fwd(-77.75, lat, lonb, xb, yb, gb, kb);
        if (!(xb == x && yb == y && kb == k && (gb == gam || (std::fabs(gb) == std::fabs(gam) && fabsq(O.n * Q(dlon)) >= 180))))
          FAIL("wrap-lon0-forward", "Forward(lon0=" + fmt(lon0) + ") = " + fx(x) + "," + fx(y) + "," + fx(gam) + "," + fx(k) + " but Forward(lon0=-77.75) = " + fx(xb) + "," + fx(yb) + "," + fx(gb) + "," + fx(kb));
        double la1, lo1, g1, k1r, la2, lo2, g2, k2r; U.rev(lon0, x, y, la1, lo1, g1, k1r); U.rev(-77.75, x, y, la2, lo2, g2, k2r);
        Q dl = fabsq(angdiff(Q(lo1), Q(lo2)));
        if (!(la1 == la2 && g1 == g2 && k1r == k2r && dl <= 4 * 2.2e-16Q * 180))
          FAIL("wrap-lon0-reverse", "Reverse(lon0=" + fmt(lon0) + ") = " + fx(la1) + "," + fx(lo1) + "," + fx(g1) + "," + fx(k1r) + " but Reverse(lon0=-77.75) = " + fx(la2) + "," + fx(lo2) + "," + fx(g2) + "," + fx(k2r));
      }
    }
    const Lat L = proj_cf::latd(lat);
    const Q lam = Q(dlon) * proj_cf::deg();
    const Q Mr = E.Mrad(L.s), Pr = E.Nrad(L.s) * L.c;
    const bool pole = std::fabs(lat) == 90;
    const bool regpole = pole && O.regular_pole == (lat > 0 ? 1 : -1);
    const XY P = O.fwd(L, lam);
    Q kk = regpole ? Q(O.kpole) : (pole ? HUGE_VALQ : O.k(L));
    const bool singular = pole && !regpole;
    const Q gref = O.gamma(lam) / proj_cf::deg();
    ctx.sig((uint64_t)singular + 2 * (uint64_t)regpole + 4 * (uint64_t)(P.finite ? 1 : 0));
    // conditioning: results are doubles, so a plane error of ULPS ulp of the working size (a, |x|, |y|) is unavoidable; on the ground it is amplified by 1/k
    // (conformal) resp. max(k, 1/k) (equal area: east-west plane errors shrink by k, north-south ones grow by k)
    Q size = std::max(std::max(fabsq(Q(x)), fabsq(Q(y))), E.a);        // NOT rho0: the library's divided differences never form rho0 - rho, and nearly cylindrical cones (rho0 ~ a/n) must be held to the same accuracy
    // AlbersEqualArea works at unit scale and divides x, y by the central scale k0 at the end: the working size is a/k0 (matters after SetScale to an extreme scale)
    if (!O.conformal && U.has_origin && U.k0c > 0) size = std::max(size, E.a / Q(U.k0c));
    const Q eps_plane = ULPS * 1.1e-16Q * size;
    const Q amp = !finiteq(kk) ? Q(1) : (O.conformal ? 1 / kk : (kk > 1 ? kk : 1 / kk));
    // equal area near a pole: the radial plane coordinate is stationary in latitude (d rho ~ sin(colat) d colat): a plane error eps maps to at most sqrt(2 a eps) on the ground
    const Q sqb = O.conformal ? HUGE_VALQ : sqrtq(2 * E.a * 2 * eps_plane);
    const Q TOLF = TOLP + eps_plane * amp;                                   // forward position, ground
    const Q TOLR = TOLP + std::min(eps_plane * amp, sqb);                    // positions obtained through Reverse, ground
    const Q rapex = (O.conic && !singular) ? hypotq(P.x, O.rho0 - P.y) : HUGE_VALQ;     // distance to the apex: k = rho n/(a m) and gamma = atan2(..) are relative to it
    const Q tplane_r = TOLP * (finiteq(kk) ? (O.conformal ? kk : 1 / kk) : 1) + eps_plane;   // radial plane tolerance
    const Q TK = KREL + tplane_r / rapex;                                     // scale, relative

    bool defect_hit = false;                   // the forward result is exactly what the object's described known defect produces
    auto is_defect = [&]() -> bool {
      if (U.defect.empty() || U.defect_blanket) return false;
      XY Pd = U.defect_image(L, lam); Q kd = U.defect_k(L);
      Q exd = Q(x) - Pd.x, eyd = Q(y) - Pd.y;
      if (!finiteq(kd) || !(kd > 0)) return hypotq(exd, eyd) <= TOLP + 64 * 1.1e-16Q * hypotq(Pd.x, Pd.y);     // the defect image is a singular pole: plane comparison
      Q gd, ampd = O.conformal ? 1 / kd : (kd > 1 ? kd : 1 / kd);
      if (O.conformal) gd = hypotq(exd, eyd) / kd;
      else { Q g = O.gamma(lam), ce = cosq(g), se = sinq(g); gd = hypotq((exd * ce + eyd * se) / kd, (-exd * se + eyd * ce) * kd); }
      // classification only: position within the tolerance + 64 ulp of the plane coordinates mapped to the ground, scale to 1e-9
      return gd <= TOLP + 64 * 1.1e-16Q * hypotq(Pd.x, Pd.y) * ampd && fabsq(Q(k) / kd - 1) <= 1e-9Q;
    };
    auto DT = [&]() -> mc::Fields { return defect_hit ? mc::Fields{{"defect", U.defect}} : mc::Fields{}; };
    auto DR = [&]() -> mc::Fields { return (defect_hit || (!U.defect.empty() && U.defect_in_reverse)) ? mc::Fields{{"defect", U.defect}} : mc::Fields{}; };

    // ---- forward position
    Q gerr = 0;
    if (!singular) {
      Q ex = Q(x) - P.x, ey = Q(y) - P.y;
      if (O.conformal) gerr = hypotq(ex, ey) / kk;
      else {               // equal area: east-west plane errors shrink by k, north-south ones grow by k on the ground
        Q g = O.gamma(lam), ce = cosq(g), se = sinq(g);
        Q e_ew = ex * ce + ey * se, e_ns = -ex * se + ey * ce;
        gerr = hypotq(e_ew / kk, e_ns * kk);
      }
      const char* cls = O.conformal ? "conformal" : "albers";
      if (gerr > TOLF) defect_hit = is_defect();
      WORST(std::string(cls) + ".fwd.pos/tol", D(gerr / TOLF), 0);
      if (O.n != 0 && fabsq(O.n) < 0.02Q) {          // nearly cylindrical cones (|stdlat| <= 1 deg or nearly symmetric pairs): reported separately
        WORST(std::string("nearly-cylindrical.") + cls + ".fwd.pos/tol", D(gerr / TOLF), 0);
        if (eps_plane * amp < TOLP) WORST(std::string("nearly-cylindrical.") + cls + ".fwd.pos-wellconditioned_nm", D(gerr / ascale * 1e9Q), 0);
      }
      if (eps_plane * amp < TOLP) WORST(std::string(cls) + ".fwd.pos-wellconditioned_nm", D(gerr / ascale * 1e9Q), 0);
      if (gerr > TOLF) FAIL("fwd-oracle", "ground error " + fq(gerr) + " m > " + fq(TOLF) + " (x=" + fx(x) + " y=" + fx(y) + " closed form " + fq(P.x) + "," + fq(P.y) + " k=" + fq(kk) + ")", DT());
      Q eg = fabsq(angdiff(Q(gam), gref)), ek = fabsq(Q(k) / kk - 1);
      WORST(std::string(cls) + ".fwd.gamma/tol", D(eg / GTOL), 0);
      WORST(std::string(cls) + ".fwd.k/tol", D(ek / TK), 0);
      if (eg > GTOL) FAIL("fwd-convergence", "gamma=" + fx(gam) + " closed form " + fq(gref));
      if (ek > TK) FAIL("fwd-scale", "k=" + fx(k) + " closed form " + fq(kk) + " tol " + fq(TK), DT());
    } else {
      // singular pole (image at infinity, or apex of a cone with k = inf): documented "large but finite"; the point must lie on the ray of its meridian, beyond
      // the image of |lat| = 90 - 1e-9, and the convergence is still n*lam
      ctx.count("singular-pole.cases");
      defect_hit = is_defect();
      Q eg = fabsq(angdiff(Q(gam), gref));
      if (eg > GTOL) FAIL("fwd-convergence", "gamma=" + fx(gam) + " closed form " + fq(gref) + " (singular pole)");
      Lat Ln = proj_cf::latd(lat > 0 ? 89.999999999 : -89.999999999);
      XY Pn = O.fwd(Ln, lam);
      if (!O.conformal) {            // equal area: the pole is a finite arc (or line) with k = inf: plane tolerance
        Q e = hypotq(Q(x) - P.x, Q(y) - P.y), t = TOLP + 2 * eps_plane;
        WORST("albers.singular-pole.plane/tol", D(e / t), 0);
        if (e > t) FAIL("singular-pole", "pole arc: x=" + fx(x) + " y=" + fx(y) + " closed form " + fq(P.x) + "," + fq(P.y), DT());
      } else if (O.conic) {
        Q rl = hypotq(Q(x), O.rho0 - Q(y)), rn = hypotq(Pn.x, O.rho0 - Pn.y);
        bool toward_apex = (O.n > 0) == (lat > 0);
        bool ok = toward_apex ? rl <= rn * (1 + 1e-12Q) : rl >= rn * (1 - 1e-12Q);
        Q th = atan2q(Q(x) * (O.n > 0 ? 1 : -1), (O.rho0 - Q(y)) * (O.n > 0 ? 1 : -1));     // x = rho sin theta, rho0 - y = rho cos theta (rho carries the sign of n)
        Q eth = rl > 0 ? fabsq(remainderq(th - O.n * lam, 2 * proj_cf::pi())) : Q(0);
        if (rl * eth > TOLP * 1e3Q && eth > 1e-12Q) ok = false;
        if (!ok) FAIL("singular-pole", "x=" + fx(x) + " y=" + fx(y) + " not on the meridian ray beyond the image of |lat|=90-1e-9 (" + fq(Pn.x) + "," + fq(Pn.y) + ")", DT());
      } else if (O.conformal) {      // Mercator: x exact, |y| beyond the neighbour
        Q ex = fabsq(Q(x) - P.x);
        if (ex > TOLP * (1 + fabsq(P.x) * 1e-8Q) || !(fabsq(Q(y)) >= fabsq(Pn.y)) || (y > 0) != (lat > 0)) FAIL("singular-pole", "Mercator pole: x=" + fx(x) + " y=" + fx(y));
      }
    }

    // ---- scale prescribed on the standard parallels
    for (double sl : stdlats) if (lat == sl && !singular) {
      Q ek = fabsq(Q(k) / Q(k1) - 1);
      WORST("std-parallel.k/tol", D(ek / TK), 0);
      if (ek > TK) FAIL("std-parallel-scale", "k=" + fx(k) + " on the standard parallel, prescribed " + fmt(k1), DT());
    }

    // ---- rotation and magnification of the oracle map (central differences of the closed-form map)
    if (do_jacobian && std::fabs(lat) <= 89.9 && lon0 == 0 && !singular) {
      Q phi = Q(lat) * proj_cf::deg();
      const Q h = ldexpq(Q(1), -30);
      XY a = O.fwd(proj_cf::latr(phi + h), lam), b = O.fwd(proj_cf::latr(phi - h), lam), c = O.fwd(L, lam + h), d = O.fwd(L, lam - h);
      Q nx = (a.x - b.x) / (2 * h * Mr), ny = (a.y - b.y) / (2 * h * Mr), exx = (c.x - d.x) / (2 * h * Pr), eyy = (c.y - d.y) / (2 * h * Pr);
      Q mN = hypotq(nx, ny), mE = hypotq(exx, eyy), dot = (nx * exx + ny * eyy) / (mN * mE), det = exx * ny - eyy * nx;
      Q rot = -atan2q(nx, ny) / proj_cf::deg();
      const Q JT = 1e-12Q;
      Q e1 = fabsq(Q(k) / mE - 1), e2 = O.conformal ? fabsq(mN / mE - 1) : fabsq(mN * mE - 1), e3 = fabsq(dot), e4 = fabsq(angdiff(Q(gam), rot)), e5 = O.conformal ? Q(0) : fabsq(det - 1);
      WORST("jacobian.k-vs-magnification/tol", D(e1 / JT), 0);
      WORST(O.conformal ? "jacobian.isotropy/tol" : "jacobian.area/tol", D((O.conformal ? e2 : std::max(e2, e5)) / JT), 0);
      WORST("jacobian.gamma-vs-rotation/tol", D(e4 / (GTOL + 1e-10Q)), 0);
      if (e1 > JT) FAIL("jacobian-scale", "k=" + fx(k) + " but the closed-form map stretches east-west by " + fq(mE), DT());
      if (e2 > JT || e3 > JT || e5 > JT) FAIL("jacobian-oracle", "closed-form map not conformal/equal-area here: |N|=" + fq(mN) + " |E|=" + fq(mE) + " cos=" + fq(dot) + " det=" + fq(det));
      if (e4 > GTOL + 1e-10Q) FAIL("jacobian-rotation", "gamma=" + fx(gam) + " but the closed-form map rotates north by " + fq(rot));
    }

    // ---- round trip, Reverse's gamma and k
    {
      double la2 = NAN, lo2 = NAN, g2 = NAN, k2 = NAN; int sg2 = 0;
      try { sg2 = mc::crashed([&] { U.rev(lon0, x, y, la2, lo2, g2, k2); }); } catch (const std::exception& e) { FAIL("rev-exception", e.what()); continue; }
      if (sg2) { FAIL("rev-crash", "signal " + fmti(sg2)); continue; }
      if (!(std::isfinite(la2) && std::isfinite(lo2) && std::isfinite(g2) && std::isfinite(k2))) {
        // finding: LambertConformalConic::Reverse of the image of the apex pole: t^n - 1 = _t0nm1 + n drho/_scale can round to just below -1 and Dlog1p then yields NaN
        const bool apex = singular && O.conformal && O.conic && (O.n > 0) == (lat > 0) && fabsq(O.n) != 1;
        FAIL("rev-nonfinite", "lat=" + fmt(la2) + " lon=" + fmt(lo2) + " gamma=" + fmt(g2) + " k=" + fmt(k2), apex ? mc::Fields{{"defect", "lcc-reverse-nan-at-apex-pole"}} : mc::Fields{});
        continue;
      }
      if (!(std::fabs(la2) <= 90 && lo2 >= -180 && lo2 <= 180)) FAIL("rev-range", "lat=" + fx(la2) + " lon=" + fx(lo2));
      Q dN = (Q(la2) - Q(lat)) * proj_cf::deg() * Mr;
      Q dE = pole ? Q(0) : angdiff(angdiff(Q(lo2), Q(lon0)), Q(dlon)) * proj_cf::deg() * Pr;
      if (fabsq(O.n * Q(dlon)) >= 180 && !pole) dE = 0;         // the cone's cut: longitudes +-180 coincide only for |n| = 1; compared through the plane below
      Q err = hypotq(dN, dE);
      Q trt = singular ? (O.conformal ? TOLP : TOLP + sqb) : TOLR;
      // convergence returned by Reverse = atan2 of plane coordinates relative to the apex: position tolerance and rounding over the distance to the apex
      const Q tgr = 2 * GTOL + (tplane_r / rapex) / proj_cf::deg();
      if (singular) {
        WORST(O.conformal ? "roundtrip.singular-pole.conformal_m" : "roundtrip.singular-pole.albers/tol", D(O.conformal ? err : err / trt), 0);
        if (!(err <= trt)) FAIL("roundtrip-singular-pole", "reverse(forward(pole)) = lat " + fx(la2) + ", " + fq(err) + " m from the pole", DR());
      } else {
        WORST(std::string(O.conformal ? "conformal" : "albers") + ".roundtrip/tol", D(err / trt), 0);
        if (O.n != 0 && fabsq(O.n) < 0.02Q) { WORST(std::string("nearly-cylindrical.") + (O.conformal ? "conformal" : "albers") + ".roundtrip/tol", D(err / trt), 0);
          if (eps_plane * amp < TOLP) WORST(std::string("nearly-cylindrical.") + (O.conformal ? "conformal" : "albers") + ".roundtrip-wellconditioned_nm", D(err / ascale * 1e9Q), 0); }
        if (!(err <= trt)) {
          if (fam.prolate && err <= tauf_gross) FAIL("roundtrip", "reverse(forward) = lat " + fx(la2) + " lon " + fx(lo2) + ", ground error " + fq(err) + " m > " + fq(trt), {{"tauf", "prolate-reverse"}});
          else FAIL("roundtrip", "reverse(forward) = lat " + fx(la2) + " lon " + fx(lo2) + ", ground error " + fq(err) + " m > " + fq(trt), DR());
        }
        Q eg = fabsq(angdiff(Q(g2), Q(gam))), ek = fabsq(Q(k2) / Q(k) - 1);
        const Q pdist = E.a * (L.c > 1e-30Q ? L.c : 1e-30Q);                    // ~ distance to the pole
        Q tk2 = 4 * TK + 2 * trt / pdist;                                        // scale varies like 1/cos(lat) near a singular pole: latitude tolerance over the polar distance
        if (trt >= pdist / 4) tk2 = HUGE_VALQ;                                   // latitude tolerance reaches the pole: k unconstrained
        WORST("rev-vs-fwd.gamma/tol", D(eg / tgr), 0);
        WORST("rev-vs-fwd.k/tol", D(ek / tk2), 0);
        if (eg > tgr && fabsq(O.n * Q(dlon)) < 180 && !regpole) FAIL("rev-convergence", "Reverse gamma=" + fx(g2) + " Forward gamma=" + fx(gam));
        if (ek > tk2) { if (fam.prolate && err <= tauf_gross) FAIL("rev-scale", "Reverse k=" + fx(k2) + " Forward k=" + fx(k), {{"tauf", "prolate-reverse"}}); else FAIL("rev-scale", "Reverse k=" + fx(k2) + " Forward k=" + fx(k), DR()); }
      }
    }

    // ---- Reverse of the closed-form image (independent of the library's Forward)
    if (!singular && P.finite && fabsq(O.n * Q(dlon)) < 180) {
      double X = D(P.x), Y = D(P.y), la2, lo2, g2, k2;
      U.rev(lon0, X, Y, la2, lo2, g2, k2);
      Q dN = (Q(la2) - Q(lat)) * proj_cf::deg() * Mr, dE = pole ? Q(0) : angdiff(angdiff(Q(lo2), Q(lon0)), Q(dlon)) * proj_cf::deg() * Pr;
      Q err = hypotq(dN, dE);
      Q trt = TOLR;
      const Q tgr = 2 * GTOL + (tplane_r / rapex) / proj_cf::deg();
      WORST(std::string(O.conformal ? "conformal" : "albers") + ".rev-oracle.pos/tol", D(err / trt), 0);
      if (!(err <= trt)) {
        if (fam.prolate && err <= tauf_gross) FAIL("rev-oracle", "Reverse(closed-form image) = lat " + fx(la2) + " lon " + fx(lo2) + ", ground error " + fq(err) + " m", {{"tauf", "prolate-reverse"}});
        else FAIL("rev-oracle", "Reverse(closed-form image) = lat " + fx(la2) + " lon " + fx(lo2) + ", ground error " + fq(err) + " m > " + fq(trt), (!U.defect.empty() && U.defect_in_reverse) ? mc::Fields{{"defect", U.defect}} : mc::Fields{});
      }
      Q eg = fabsq(angdiff(Q(g2), gref)), ek = fabsq(Q(k2) / kk - 1);
      const Q pdist = E.a * (L.c > 1e-30Q ? L.c : 1e-30Q);
      Q tk2 = 4 * TK + 2 * trt / pdist;
      if (trt >= pdist / 4) tk2 = HUGE_VALQ;
      WORST("rev-oracle.gamma/tol", D(eg / tgr), 0);
      WORST("rev-oracle.k/tol", D(ek / tk2), 0);
      if (eg > tgr && !regpole) FAIL("rev-oracle-convergence", "gamma=" + fx(g2) + " closed form " + fq(gref), (!U.defect.empty() && U.defect_in_reverse) ? mc::Fields{{"defect", U.defect}} : mc::Fields{});
      if (ek > tk2) { if (fam.prolate && err <= tauf_gross) FAIL("rev-oracle-scale", "k=" + fx(k2) + " closed form " + fq(kk), {{"tauf", "prolate-reverse"}}); else FAIL("rev-oracle-scale", "k=" + fx(k2) + " closed form " + fq(kk), (!U.defect.empty() && U.defect_in_reverse) ? mc::Fields{{"defect", U.defect}} : mc::Fields{}); }
    }
    if (ctx.want_sample()) ctx.sample(where + " -> x=" + fmt(x) + " y=" + fmt(y) + " gamma=" + fmt(gam) + " k=" + fmt(k) + " | closed form x=" + fq(P.x) + " y=" + fq(P.y));
#undef where
  }
}

// agreement of two library objects that describe the same projection
static void check_same(Ctx& ctx, const Ell& E, const Under& A_, const Under& B_, const Oracle& O, const Axes& A, Q tol_ground) {
  const Q ULPS = fabsq(E.f) <= 0.0100001Q ? 16 : 64;
  for (double lat : A.lats) for (double dlon : A.dlons) {
    mc::Ctx::Case cs(ctx);
    const std::string where = A_.name + " vs " + B_.name + " lat=" + fx(lat) + " dlon=" + fx(dlon);
    double x1, y1, g1, k1, x2, y2, g2, k2;
    A_.fwd(0, lat, dlon, x1, y1, g1, k1); B_.fwd(0, lat, dlon, x2, y2, g2, k2);
    Lat L = proj_cf::latd(lat);
    bool pole = std::fabs(lat) == 90;
    Q kk = pole ? Q(1e30) : O.k(L); if (!(kk > 0) || !finiteq(kk)) kk = 1e30Q;
    Q amp = O.conformal ? 1 / kk : (kk > 1 ? kk : 1 / kk);
    Q err = hypotq(Q(x1) - Q(x2), Q(y1) - Q(y2)) * amp;
    if (pole && !(std::fabs(x1) < 1e25 && std::fabs(y1) < 1e25)) continue;
    const Q size = std::max(std::max(fabsq(Q(x1)), fabsq(Q(y1))), E.a);
    const Q eps_plane = ULPS * 1.1e-16Q * size;
    Q t = tol_ground + eps_plane * amp;
    const Q rapex = (O.conic && !pole) ? hypotq(Q(x1), O.rho0 - Q(y1)) : HUGE_VALQ;
    const Q tk = 2 * (1.6e-14Q + (tol_ground * (O.conformal ? kk : 1 / kk) + eps_plane) / rapex);
    ctx.worst("same-projection.pos/tol", D(err / t), where);
    bool bad = err > t || fabsq(angdiff(Q(g1), Q(g2))) > 7e-13Q || (!pole && fabsq(Q(k1) / Q(k2) - 1) > tk);
    if (bad) ctx.fail(where + " same", where + ": (" + fx(x1) + "," + fx(y1) + "," + fx(g1) + "," + fx(k1) + ") vs (" + fx(x2) + "," + fx(y2) + "," + fx(g2) + "," + fx(k2) + ")",
                      (A_.defect_blanket || B_.defect_blanket) ? mc::Fields{{"kind", "ctor-forms-differ"}, {"a", A_.name}, {"b", B_.name}, {"lat", fmt(lat)}, {"dlon", fmt(dlon)}, {"defect", A_.defect_blanket ? A_.defect : B_.defect}}
                                                               : mc::Fields{{"kind", "ctor-forms-differ"}, {"a", A_.name}, {"b", B_.name}, {"lat", fmt(lat)}, {"dlon", fmt(dlon)}});
  }
}

// ------------------------------------------------------------------ builders
static Oracle make_ps_oracle(const Ell& E, double k0, bool northp) {
  auto p = std::make_shared<proj_cf::PolarStereo>(E, k0, northp);
  Oracle O; O.fwd = [p](Lat L, Q lam) { return p->fwd(L, lam); }; O.k = [p](Lat L) { return p->k(L); }; O.gamma = [p](Q lam) { return p->gamma(lam); };
  O.conformal = true; O.n = northp ? 1 : -1; O.phi0 = O.n * proj_cf::pi() / 2; O.regular_pole = northp ? 1 : -1; O.kpole = k0; O.conic = true; O.rho0 = 0;
  return O;
}
static Oracle make_lcc_oracle(const Ell& E, Lat L1, Lat L2, double k1) {
  auto p = std::make_shared<proj_cf::LCC>(E, L1, L2, k1);
  Oracle O; O.fwd = [p](Lat L, Q lam) { return p->fwd(L, lam); }; O.k = [p](Lat L) { return p->k(L); }; O.gamma = [p](Q lam) { return p->gamma(lam); };
  O.conformal = true; O.n = p->n; O.phi0 = p->phi0; O.conic = p->kind != 1; O.rho0 = p->rho0;
  if (p->kind == 2) { O.regular_pole = p->n > 0 ? 1 : -1; O.kpole = k1; }
  return O;
}
static Oracle make_albers_oracle(const Ell& E, Lat L1, Lat L2, double k1) {
  auto p = std::make_shared<proj_cf::Albers>(E, L1, L2, k1);
  Oracle O; O.fwd = [p](Lat L, Q lam) { return p->fwd(L, lam); }; O.k = [p](Lat L) { return p->k(L); }; O.gamma = [p](Q lam) { return p->gamma(lam); };
  O.conformal = false; O.n = p->n; O.phi0 = p->phi0; O.conic = p->kind != 1; O.rho0 = p->rho0;
  if (p->kind == 0 && L1.c == 0 && L2.c == 0) { O.regular_pole = L1.s > 0 ? 1 : -1; O.kpole = k1; }
  return O;
}
template <class T> static void bind(Under& U, std::shared_ptr<T> t) {
  U.fwd = [t](double l0, double la, double lo, double& x, double& y, double& g, double& k) { t->Forward(l0, la, lo, x, y, g, k); };
  U.rev = [t](double l0, double x, double y, double& la, double& lo, double& g, double& k) { t->Reverse(l0, x, y, la, lo, g, k); };
  U.has_origin = true; U.lat0 = t->OriginLatitude(); U.k0c = t->CentralScale();
}
static void bind_ps(Under& U, std::shared_ptr<PolarStereographic> t, bool northp) {
  U.fwd = [t, northp](double, double la, double lo, double& x, double& y, double& g, double& k) { t->Forward(northp, la, lo, x, y, g, k); };
  U.rev = [t, northp](double, double x, double y, double& la, double& lo, double& g, double& k) { t->Reverse(northp, x, y, la, lo, g, k); };
  U.has_lon0 = false;
}
static void sincos_deg(double lat, double& s, double& c) { Q qs, qc; Lat L = proj_cf::latd(lat); s = (double)L.s; c = (double)L.c; (void)qs; (void)qc; }

struct EllP { const char* name; double a, f; bool quick; };
static const EllP ELLS[] = {
  {"WGS84", WGS84_A, WGS84_F, true}, {"sphere", WGS84_A, 0.0, true}, {"f=+0.1", WGS84_A, 0.1, false}, {"f=-0.1", WGS84_A, -0.1, true},
  {"f=+0.5,a=1", 1.0, 0.5, true}, {"f=-0.2", WGS84_A, -0.2, false},
  // deep thorough tier
  {"Intl1924", 6378388.0, 1 / 297.0, false}, {"f=-1/298.257", WGS84_A, -WGS84_F, false}, {"f=+1/150,a=1", 1.0, 1 / 150.0, false}, {"f=-1/150", WGS84_A, -1 / 150.0, false},
  {"f=+0.01", WGS84_A, 0.01, false}, {"f=-0.01", WGS84_A, -0.01, false}, {"f=+0.05", WGS84_A, 0.05, false}, {"f=-0.05", WGS84_A, -0.05, false}, {"f=+0.2", WGS84_A, 0.2, false},
};
struct Pair { double l1, l2; };

int main(int argc, char** argv) {
  Ctx ctx(argc, argv);
  const bool T = ctx.thorough();
  const std::vector<double> K1 = {1.0, 0.994};
  std::vector<double> SINGLE = {-90, -60, -1e-9, 0, 1e-9, 45, 89.999, 90};
  std::vector<Pair> PAIRS = {{30, 60}, {45, 45 + 1e-9}, {45, 45 + 1e-5}, {-30, 30}, {0, 1e-9}, {89, 89.9}, {-60, -20}};
  // nearly cylindrical cones (n from 2e-2 down to denormal): the library must use its divided-difference forms there (the direct (t^n - t0^n)/n loses eps a / tan(lat0))
  for (double v : {1.0, 0.1, 0.01, 0.001, 1e-6, 1e-10, 1e-200, 1e-310}) { SINGLE.push_back(v); SINGLE.push_back(-v); }
  for (double v : {5.0, -5.0, 10.0, -10.0, 20.0, -20.0, -25.0, 30.0}) SINGLE.push_back(v);      // cones with 0 < |n| <= 1/2 for the apex probes of LambertConformalConic::Reverse
  for (Pair q : {Pair{-10, 10.01}, Pair{-30, 30 + 1e-6}, Pair{30, -30 - 1e-10}, Pair{-1e-6, 3e-6}}) PAIRS.push_back(q);
  std::vector<Pair> ALBERS_ONLY;           // one parallel at a pole: admissible for Albers, documented GeographicErr for LambertConformalConic
  // incl. the Math::tauf thresholds: one vs two Newton steps at 3.35 deg, asymptotic start value for |taup| > 70 (lat > 89.18)
  std::vector<double> LATBASE = {-90, -89.999999999, -89.5, -89, -60, -45, -4, -1, -1e-9, 0, 1e-9, 1, 3, 30, 45, 60, 75, 89, 89.5, 89.999999999, 90};
  Axes AX; AX.dlons = {0, 1e-9, 30, 90, 179, 180, -180, -30, -179}; AX.lon0s = {0, -170, 190, -77.75, -77.75 + 360.0 * 7, -77.75 + 360.0 * 10000, -77.75 - 360.0 * 250000};
  if (!T) AX.dlons = {0, 1e-9, 30, 179, 180, -180, -30};
  std::vector<double> SETSCALE_LATS = {-89.0, -60.0, 0.0, 1e-9, 45.0, 89.0};
  const size_t NQ_SINGLE = SINGLE.size(), NQ_PAIRS = PAIRS.size();      // the quick-tier standard parallels come first
  if (T) {   // deep thorough tier
    for (double v : {-89.999, -89.0, -75.0, -45.0, -30.0, 60.0, 75.0, 89.0, 89.9}) SINGLE.push_back(v);
    // nearly equal parallels at several separations (mid, equator, near the pole; both hemispheres), wide and asymmetric pairs, pairs across the equator
    for (Pair q : {Pair{45, 45 + 1e-7}, Pair{45, 45.001}, Pair{45, 45.1}, Pair{45, 46}, Pair{0, 1e-5}, Pair{-1e-5, 2e-5}, Pair{-1e-9, 1e-9}, Pair{1e-9, 1e-5}, Pair{89.9, 89.99}, Pair{89.99, 89.999},
                   Pair{-45, -45 - 1e-9}, Pair{-45, -45.00001}, Pair{-45, -45.001}, Pair{-45, -46}, Pair{-30, -60}, Pair{-89, -89.9}, Pair{-89.9, -89.99}, Pair{-80, -20}, Pair{-1e-5, -1e-9},
                   Pair{-10, 40}, Pair{-40, 10}, Pair{-60, 60}, Pair{-5, 85}, Pair{-85, 5}, Pair{20, 80}, Pair{0, 45}, Pair{-45, 0}, Pair{5, 85}, Pair{-85, -5}, Pair{10, 10.5}, Pair{-70, -69.5}})
      PAIRS.push_back(q);
    ALBERS_ONLY = {{90, 45}, {-90, -30}, {90, -30}, {90, 89.9}, {-90, -89.99}, {0, 90}};
    for (double v : {-89.9, -89.2, -89.1, -85.0, -80.0, -70.0, -50.0, -30.0, -20.0, -10.0, -3.4, -3.3, -0.1, 0.1, 3.3, 3.4, 10.0, 20.0, 40.0, 50.0, 70.0, 80.0, 85.0, 89.1, 89.2, 89.9, 89.99, -89.99}) LATBASE.push_back(v);
    AX.dlons = {0, 1e-9, -1e-9, 1, 30, 60, 90, 120, 150, 179, 179.999999999, 180, -180, -30, -90, -150, -179};
    SETSCALE_LATS = {-89.0, -60.0, -30.0, -1e-9, 0.0, 1e-9, 10.0, 45.0, 75.0, 89.0};
  }
  ctx.bound("ellipsoids", T ? "WGS84, sphere, Intl1924, f=+-1/298.257, (a=1,f=1/150), f=-1/150, f=+-0.01, f=+-0.05, f=+-0.1, f=+-0.2, (a=1,f=0.5)" : "WGS84, sphere, f=-0.1, (a=1,f=0.5)");
  ctx.bound("scales", T ? "k0/k1 in {1, 0.994}; SetScale(lat, k): polar stereographic at every latitude of the alphabet, conics at lat {-89,-60,-30,-1e-9,0,1e-9,10,45,75,89}, k in {1, 0.9}, each followed by the FULL lat x dlon x lon0 lattice"
                          : "k0/k1 in {1, 0.994}; SetScale(lat, k): polar stereographic at every latitude of the alphabet, conics at lat {-89,-60,0,1e-9,45,89}, k in {1, 0.9, 0.01, 0.1, 3, 10, 100, 1e4} and SetScale(lat,7) followed by SetScale(lat,100), each followed by the lattice lat {ls, +-89.99, +-89, -45, 30, 60} x dlon {0, 30, -179}");
  ctx.bound("parallels", std::string("single {-90,-60,0,45,89.999,90, +-{1, 0.1, 0.01, 0.001, 1e-6, 1e-9, 1e-10, 1e-200, 1e-310}, +-5, +-10, +-20, -25, 30 (+ apex probes of LambertConformalConic::Reverse: y = rho0 and its +-1, +-2 ulp, +-1e-9, +-1e-3 m neighbours x x in {0, +-1e-9, +-1e-3})}; pairs {(30,60),(45,45+1e-9),(45,45+1e-5),(-30,30),(0,1e-9),(89,89.9),(-60,-20),(-10,10.01),(-30,30+1e-6),(30,-30-1e-10),(-1e-6,3e-6)} in both orders; constructor forms: 1-parallel, 2-parallel, sin/cos") +
            (T ? "; deep tier: 12 more singles {+-89.999.., +-75, +-45 .. +-10, 89.9}, 31 more pairs (separations 1e-9, 1e-7, 1e-5, 1e-3, 0.1, 1 deg at 45, 0, -45 and near both poles; southern pairs; pairs across the equator incl. (-60,60); "
                 "wide pairs to (-85,5)/(5,85)), 6 pole+parallel pairs (Albers; LambertConformalConic must throw), sin/cos constructors also with un-normalised (x0.5, x0.25) arguments" : ""));
  ctx.bound("lat", std::string("{+-90, +-(90-1e-9), +-89.5, +-89, -60, -45, -4, -1, +-1e-9, 0, 1, 3, 30, 45, 60, 75} + each standard parallel, the origin latitude and their +-1e-9 neighbours") +
            (T ? "; deep tier adds +-{0.1, 3.3, 3.4, 10, 20, 50, 70, 80, 85, 89.1, 89.2, 89.9, 89.99}, -30, 40" : ""));
  ctx.bound("dlon", T ? "{0, +-1e-9, 1, 30, 60, 90, 120, 150, 179, 180-1e-9, 180, -180, -30, -90, -150, -179}" : "{0, 1e-9, 30, 179, 180, -180, -30}");
  ctx.bound("lon0", "{0, -170, 190, -77.75} and the far-out, exactly representable -77.75 + 360 m for m in {7, 10000, -250000} (with dlon {0, 30, -179, 180}): oracle comparison, round trip, and invariance of Forward/Reverse under lon0 -> lon0 + 360 m; polar stereographic: lon = dlon + 360 m");
  ctx.bound("oracle", "Snyder closed forms in __float128; Jacobian by central differences (h = 2^-30 rad)");
  ctx.note("tolerances: position 2 x 10 nm ground distance (LambertConformalConic.hpp; the C11 statement extends it to the other two classes); conformal maps: plane distance / k; "
           "Albers: east-west plane error / k, north-south plane error x k; round trips additionally allow 8 ulp of the plane coordinates mapped back to the ground (the inverse is ill-conditioned where k or 1/k is large)");
  ctx.note("scale and convergence: no figure documented ('consistent with 10 nm'): calibrated 8e-15 relative and 2e-13 deg (>= 4 x worst observed)");
  ctx.note("poles that are singular points of the map (image at infinity or k = inf): documented only as 'large but finite'; checked: finite, on the ray of the meridian, beyond the image of |lat| = 90-1e-9, convergence n*lam, round trip returns the pole");

  for (const EllP& EP : ELLS) {
    if (!T && !EP.quick) continue;
    const Ell E(EP.a, EP.f);
    Family famc; famc.prolate = EP.f < 0;      // PS and LCC invert through Math::tauf
    Family fama;                                // Albers has its own inversion

    // ===================================================================== polar stereographic
    ctx.sub(std::string("polar-stereographic/") + EP.name);
    for (double k0 : K1) for (int np = 1; np >= 0; --np) {
      if (!ctx.take()) continue;
      auto ps = std::make_shared<PolarStereographic>(EP.a, EP.f, k0);
      Under U; U.name = std::string("PolarStereographic(") + EP.name + ",k0=" + fmt(k0) + (np ? ",north)" : ",south)"); bind_ps(U, ps, np != 0);
      Oracle O = make_ps_oracle(E, k0, np != 0);
      Axes A = AX; A.lats = LATBASE; A.lon0s = {0};
      for (double v : {30 + 360.0 * 10000, -77.75 - 360.0 * 250000, -77.75 + 360.0 * 7}) A.dlons.push_back(v);      // far-out longitudes (no lon0 in this class)
      check_projection(ctx, E, U, O, A, famc, {np ? 90.0 : -90.0}, k0, true);
      // the static UPS() object
      if (std::string(EP.name) == "WGS84" && k0 == 0.994) {
        Under S; S.name = std::string("PolarStereographic::UPS()") + (np ? " north" : " south"); S.has_lon0 = false;
        bool northp = np != 0;
        S.fwd = [northp](double, double la, double lo, double& x, double& y, double& g, double& k) { PolarStereographic::UPS().Forward(northp, la, lo, x, y, g, k); };
        S.rev = [northp](double, double x, double y, double& la, double& lo, double& g, double& k) { PolarStereographic::UPS().Reverse(northp, x, y, la, lo, g, k); };
        check_projection(ctx, E, S, O, A, famc, {np ? 90.0 : -90.0}, k0, false);
      }
    }
    // SetScale: scale k at latitude lat (northp = true convention)
    ctx.sub(std::string("polar-stereographic-setscale/") + EP.name);
    for (double ls : LATBASE) for (double ks : {1.0, 0.9, 0.01, 0.1, 3.0, 10.0, 100.0, 1e4}) {
      if (!ctx.take()) continue;
      if (!(ls > -90)) {            // documented: lat must be in (-90, 90]
        mc::Ctx::Case cs(ctx);
        PolarStereographic ps(EP.a, EP.f, 1.0); bool threw = false;
        try { ps.SetScale(ls, ks); } catch (const GeographicErr&) { threw = true; }
        if (!threw) ctx.fail("ps-setscale-accepts--90 " + fmt(ks), "PolarStereographic::SetScale(-90) accepted", {{"kind", "setscale-domain"}});
        continue;
      }
      auto ps = std::make_shared<PolarStereographic>(EP.a, EP.f, 0.7);
      ps->SetScale(ls, ks);
      Q k0o = proj_cf::PolarStereo::k0_for(E, proj_cf::latd(ls), ks);
      { mc::Ctx::Case cs(ctx);
        Q e = fabsq(Q(ps->CentralScale()) / k0o - 1);
        ctx.worst("ps.setscale.k0/tol", D(e / 1.6e-14Q), "lat=" + fmt(ls));
        if (e > 1.6e-14Q) ctx.fail("ps-setscale-k0 " + fmt(ls) + " " + fmt(ks) + " " + EP.name, "SetScale(" + fmt(ls) + "," + fmt(ks) + "): CentralScale " + fx(ps->CentralScale()) + " closed form " + fq(k0o), {{"kind", "setscale-k0"}, {"lat", fmt(ls)}}); }
      Under U; U.name = std::string("PolarStereographic(") + EP.name + ").SetScale(" + fmt(ls) + "," + fmt(ks) + ")"; bind_ps(U, ps, true);
      Oracle O = make_ps_oracle(E, (double)k0o, true);
      // the oracle uses the closed-form k0 in quad precision (not rounded): rebuild with exact value
      { auto p = std::make_shared<proj_cf::PolarStereo>(E, 1.0, true); p->k0 = k0o; O.fwd = [p](Lat L, Q lam) { return p->fwd(L, lam); }; O.k = [p](Lat L) { return p->k(L); }; O.kpole = (double)k0o; }
      Axes A; A.lats = {ls, 90, 89.99, 45, -30, -89, -89.99}; A.dlons = {0, 30, -179}; A.lon0s = {0};
      check_projection(ctx, E, U, O, A, famc, {}, 1.0, false);
      { mc::Ctx::Case cs(ctx); double x, y, g, k; ps->Forward(true, ls, 20, x, y, g, k);
        Q e = fabsq(Q(k) / Q(ks) - 1);
        if (e > 1.6e-14Q) ctx.fail("ps-setscale-k " + fmt(ls) + " " + fmt(ks) + " " + EP.name, "after SetScale(" + fmt(ls) + "," + fmt(ks) + ") Forward gives k=" + fx(k), {{"kind", "setscale-k"}, {"lat", fmt(ls)}}); }
    }

    // ===================================================================== conics: LCC (conformal) and Albers (equal area)
    for (int albers = 0; albers < 2; ++albers) {
      const char* fname = albers ? "albers" : "lcc";
      ctx.sub(std::string(fname) + "/" + EP.name);
      struct Spec { double l1, l2; bool single; bool quick; };
      std::vector<Spec> specs;
      for (size_t i = 0; i < SINGLE.size(); ++i) specs.push_back({SINGLE[i], SINGLE[i], true, i < NQ_SINGLE});
      for (size_t i = 0; i < PAIRS.size(); ++i) specs.push_back({PAIRS[i].l1, PAIRS[i].l2, false, i < NQ_PAIRS});
      if (albers) for (const Pair& p : ALBERS_ONLY) specs.push_back({p.l1, p.l2, false, false});
      // documented constructor errors: LambertConformalConic with one parallel at a pole and a different second one; AlbersEqualArea with opposite poles
      if (T) {
        if (ctx.take()) {
          auto must_throw = [&](const std::string& nm, std::function<void()> mk) {
            mc::Ctx::Case cs(ctx); bool threw = false;
            try { mk(); } catch (const GeographicErr&) { threw = true; } catch (...) {}
            if (!threw) ctx.fail(nm + " accepted " + EP.name, nm + " (" + EP.name + "): documented GeographicErr not thrown", {{"kind", "ctor-accepts-inadmissible"}, {"proj", nm}, {"ctor", nm.find("sincos") != std::string::npos ? "sincos" : (nm.find("Lambert") == 0 ? "lcc-degrees" : "degrees")}});
          };
          if (!albers) for (const Pair& q : ALBERS_ONLY) for (int ord = 0; ord < 2; ++ord) {
            double a1 = ord ? q.l2 : q.l1, a2 = ord ? q.l1 : q.l2, s1, c1, s2, c2; sincos_deg(a1, s1, c1); sincos_deg(a2, s2, c2);
            must_throw("LambertConformalConic(" + fmt(a1) + "," + fmt(a2) + ")", [&] { LambertConformalConic t(EP.a, EP.f, a1, a2, 1.0); });
            must_throw("LambertConformalConic(sincos " + fmt(a1) + "," + fmt(a2) + ")", [&] { LambertConformalConic t(EP.a, EP.f, s1, c1, s2, c2, 1.0); });
          }
          if (albers) for (int ord = 0; ord < 2; ++ord) {
            must_throw("AlbersEqualArea(sincos +-pole)", [&] { AlbersEqualArea t(EP.a, EP.f, ord ? -1.0 : 1.0, 0.0, ord ? 1.0 : -1.0, 0.0, 1.0); });
            must_throw("AlbersEqualArea(91)", [&] { AlbersEqualArea t(EP.a, EP.f, ord ? 91.0 : -91.0, 1.0); });
          }
          if (!albers) must_throw("LambertConformalConic(91)", [&] { LambertConformalConic t(EP.a, EP.f, 91.0, 1.0); });
        }
      }
      for (const Spec& sp : specs) for (double k1 : K1) {
        if (!ctx.take()) continue;
        // admissibility (documented): LCC: a pole only with equal parallels; Albers: not opposite poles
        Lat L1 = proj_cf::latd(sp.l1), L2 = proj_cf::latd(sp.l2);
        Oracle O = albers ? make_albers_oracle(E, L1, L2, k1) : make_lcc_oracle(E, L1, L2, k1);
        Family fam = albers ? fama : famc;
        const bool albers_south = albers && (L1.s + L2.s < 0);
        // latitude alphabet: base + standard parallels + origin and their neighbours
        Axes A = AX; A.lats = LATBASE;
        double lat0d = D(O.phi0 / proj_cf::deg());
        for (double v : {sp.l1, sp.l2, lat0d}) for (double dv : {0.0, 1e-9, -1e-9}) { double w = v + dv; if (std::fabs(w) <= 90 && std::find(A.lats.begin(), A.lats.end(), w) == A.lats.end()) A.lats.push_back(w); }
        std::vector<Under> forms;
        auto add = [&](const std::string& nm, std::function<void(Under&)> mk) {
          Under U; U.name = std::string(albers ? "AlbersEqualArea(" : "LambertConformalConic(") + EP.name + "," + nm + ",k1=" + fmt(k1) + ")";
          try { mk(U); forms.push_back(U); } catch (const std::exception& e) {
            mc::Ctx::Case cs(ctx);
            ctx.fail(U.name + " ctor", U.name + ": constructor threw: " + e.what(), {{"kind", "ctor-exception"}, {"proj", U.name}});
          }
        };
        double s1, c1, s2, c2; sincos_deg(sp.l1, s1, c1); sincos_deg(sp.l2, s2, c2);
        const double fac2 = (std::fabs(sp.l1) == 90 || std::fabs(sp.l2) == 90) ? 0.5 : 0.25;
        if (albers) {
          if (sp.single) add(fmt(sp.l1), [&](Under& U) { bind(U, std::make_shared<AlbersEqualArea>(EP.a, EP.f, sp.l1, k1)); });
          add(fmt(sp.l1) + "," + fmt(sp.l2), [&](Under& U) { bind(U, std::make_shared<AlbersEqualArea>(EP.a, EP.f, sp.l1, sp.l2, k1)); });
          if (!sp.single) add(fmt(sp.l2) + "," + fmt(sp.l1), [&](Under& U) { bind(U, std::make_shared<AlbersEqualArea>(EP.a, EP.f, sp.l2, sp.l1, k1)); });
          add("sincos " + fmt(sp.l1) + "," + fmt(sp.l2), [&](Under& U) { bind(U, std::make_shared<AlbersEqualArea>(EP.a, EP.f, s1, c1, s2, c2, k1)); });
          if (T) add("sincos(x0.5,x0.25) " + fmt(sp.l1) + "," + fmt(sp.l2), [&](Under& U) { bind(U, std::make_shared<AlbersEqualArea>(EP.a, EP.f, s1 * 0.5, c1 * 0.5, s2 * fac2, c2 * fac2, k1)); });
        } else {
          if (sp.single) add(fmt(sp.l1), [&](Under& U) { bind(U, std::make_shared<LambertConformalConic>(EP.a, EP.f, sp.l1, k1)); });
          add(fmt(sp.l1) + "," + fmt(sp.l2), [&](Under& U) { bind(U, std::make_shared<LambertConformalConic>(EP.a, EP.f, sp.l1, sp.l2, k1)); });
          if (!sp.single) add(fmt(sp.l2) + "," + fmt(sp.l1), [&](Under& U) { bind(U, std::make_shared<LambertConformalConic>(EP.a, EP.f, sp.l2, sp.l1, k1)); });
          add("sincos " + fmt(sp.l1) + "," + fmt(sp.l2), [&](Under& U) { bind(U, std::make_shared<LambertConformalConic>(EP.a, EP.f, s1, c1, s2, c2, k1)); });
          if (T) add("sincos(x0.5,x0.25) " + fmt(sp.l1) + "," + fmt(sp.l2), [&](Under& U) { bind(U, std::make_shared<LambertConformalConic>(EP.a, EP.f, s1 * 0.5, c1 * 0.5, s2 * fac2, c2 * fac2, k1)); });
        }
        // static instances
        if (std::string(EP.name) == "WGS84" && k1 == 1.0 && sp.single) {
          Under S; bool have = false;
          if (!albers && sp.l1 == 0) { S.name = "LambertConformalConic::Mercator()"; have = true;
            S.fwd = [](double l0, double la, double lo, double& x, double& y, double& g, double& k) { LambertConformalConic::Mercator().Forward(l0, la, lo, x, y, g, k); };
            S.rev = [](double l0, double x, double y, double& la, double& lo, double& g, double& k) { LambertConformalConic::Mercator().Reverse(l0, x, y, la, lo, g, k); };
            S.has_origin = true; S.lat0 = LambertConformalConic::Mercator().OriginLatitude(); S.k0c = LambertConformalConic::Mercator().CentralScale(); }
          if (albers && (sp.l1 == 0 || std::fabs(sp.l1) == 90)) { have = true;
            const AlbersEqualArea* p = sp.l1 == 0 ? &AlbersEqualArea::CylindricalEqualArea() : sp.l1 > 0 ? &AlbersEqualArea::AzimuthalEqualAreaNorth() : &AlbersEqualArea::AzimuthalEqualAreaSouth();
            S.name = sp.l1 == 0 ? "AlbersEqualArea::CylindricalEqualArea()" : sp.l1 > 0 ? "AlbersEqualArea::AzimuthalEqualAreaNorth()" : "AlbersEqualArea::AzimuthalEqualAreaSouth()";
            S.fwd = [p](double l0, double la, double lo, double& x, double& y, double& g, double& k) { p->Forward(l0, la, lo, x, y, g, k); };
            S.rev = [p](double l0, double x, double y, double& la, double& lo, double& g, double& k) { p->Reverse(l0, x, y, la, lo, g, k); };
            S.has_origin = true; S.lat0 = p->OriginLatitude(); S.k0c = p->CentralScale(); }
          if (have) forms.push_back(S);
        }
        std::vector<double> stds = {sp.l1, sp.l2};
        const bool pole_plus_parallel = albers && !sp.single && (std::fabs(sp.l1) == 90 || std::fabs(sp.l2) == 90) && sp.l1 != sp.l2;
        // open finding: a standard parallel so close to the equator that n is a denormal number (|stdlat| < ~1e-306 deg): n*lam and tan(xi) tan(xi0) underflow
        const bool denormal_n = O.n != 0 && fabsq(O.n) < 1e-300Q;
        const double the_pole = pole_plus_parallel ? (std::fabs(sp.l1) == 90 ? sp.l1 : sp.l2) : 0.0;
        const bool near_polar_pair = pole_plus_parallel && std::fabs(sp.l1 - sp.l2) < 1;
        if (pole_plus_parallel) for (Under& U : forms) U.pole_pair = the_pole;
        if (near_polar_pair) for (Under& U : forms) {
          // open finding: pole + a parallel within 1 deg of it: the cone constant is only accurate to ~1.5e-9 relative (2 cm at the far pole)
          U.defect = "albers-pole-plus-near-polar-parallel-inaccurate"; U.defect_blanket = true;
        }
        if (pole_plus_parallel && !near_polar_pair) for (Under& U : forms) {
          // defect found by this check (repaired in /repo, kept as a recognised class): AlbersEqualArea::Init set polar = (cphi1 == 0) before ordering the parallels, so with
          // the pole given FIRST the second parallel was ignored and the azimuthal projection of that pole resulted
          const bool pole_first = U.name.find(std::string(",") + fmt(sp.l2) + "," + fmt(sp.l1) + ",k1") != std::string::npos ? std::fabs(sp.l2) == 90 : std::fabs(sp.l1) == 90;
          if (!pole_first) continue;
          Lat Lp = std::fabs(sp.l1) == 90 ? L1 : L2;
          Oracle Oaz = make_albers_oracle(E, Lp, Lp, k1);
          U.defect = "albers-pole-first-second-parallel-ignored";
          U.defect_image = Oaz.fwd; U.defect_k = Oaz.k;
        }
        if (albers_south && !pole_plus_parallel) for (Under& U : forms) {
          // defect found by this check (repaired in /repo, kept as a recognised class): AlbersEqualArea::Forward applied _sign twice to the latitude, so on a southern cone it returned the image of -lat
          U.defect = "albers-south-forward-uses-minus-lat";
          U.defect_image = [O](Lat L, Q lam) { Lat Lm = L; Lm.s = -L.s; return O.fwd(Lm, lam); };
          U.defect_k = [O](Lat L) { Lat Lm = L; Lm.s = -L.s; return O.k(Lm); };
        }
        if (denormal_n) for (Under& U : forms) { U.defect = "denormal-standard-parallel"; U.defect_blanket = true; }      // takes precedence over the recognised (repaired) classes
        for (size_t fi = 0; fi < forms.size(); ++fi) {
          const Under& U = forms[fi];
          // origin latitude and central scale against the closed forms
          { mc::Ctx::Case cs(ctx);
            Q el = fabsq(Q(U.lat0) - O.phi0 / proj_cf::deg());
            Q k0o = O.k(proj_cf::latr(O.phi0)); if (std::fabs(lat0d) == 90) k0o = albers ? sqrtq(fabsq(O.n)) : Q(k1);     // Albers at an apex pole: k -> sqrt(|n|) (= k1 for the azimuthal case)
            Q ek = fabsq(Q(U.k0c) / k0o - 1);
            // documented: 4.5e-14 deg for |dlat| <= 160 and parallels not within ~0.0002 deg of a pole (sin/cos form); 7e-15 relative in the scale (LCC)
            Q tl = 2 * 4.5e-14Q, tk = 2 * 7e-15Q;
            if (fabsq(E.f) > 0.1000001Q) { tl *= 4; tk *= 4; }       // outside the flattening range for which any accuracy is documented ("verify independently")
            bool nearpole = std::max(std::fabs(sp.l1), std::fabs(sp.l2)) > 90 - 0.0002 && !sp.single;
            ctx.worst("origin-latitude/tol", D(el / tl), U.name);
            ctx.worst("central-scale/tol", D(ek / tk), U.name);
            if ((el > tl || ek > tk) && !nearpole) { mc::Fields ff = {{"kind", "origin"}, {"proj", U.name}}; if (U.defect_blanket) ff.push_back({"defect", U.defect});
              ctx.fail(U.name + " origin", U.name + ": OriginLatitude " + fx(U.lat0) + " CentralScale " + fx(U.k0c) + " closed form " + fq(O.phi0 / proj_cf::deg()) + " " + fq(k0o), ff); } }
          check_projection(ctx, E, U, O, A, fam, stds, k1, fi == 0);
          // apex probes (LambertConformalConic, non-polar cone): Reverse at, beyond and just inside the apex (x = 0, y = rho0).  A point at distance rho from the apex has
          // t = t0 (rho/|rho0|)^(1/|n|); for the probes below t < 1e-18, so the latitude is the apex pole to double precision (t^n == 0 is replaced by a large finite dpsi)
          if (!albers && O.conic && O.n != 0 && fabsq(O.n) < 1 && !denormal_n && finiteq(O.rho0) && fabsq(O.rho0) < 1e300Q) {
            const double ya = (double)O.rho0, pole = O.n > 0 ? 90.0 : -90.0;
            std::vector<double> ys = {ya, std::nextafter(ya, INFINITY), std::nextafter(ya, -INFINITY), std::nextafter(std::nextafter(ya, INFINITY), INFINITY), std::nextafter(std::nextafter(ya, -INFINITY), -INFINITY),
                                      ya + 1e-9, ya - 1e-9, ya + 1e-3, ya - 1e-3};
            for (double yy : ys) for (double xx : {0.0, 1e-9, -1e-9, 1e-3, -1e-3}) {
              Q rho = hypotq(Q(xx), O.rho0 - Q(yy));
              if (!(rho == 0 || expq(logq(rho / fabsq(O.rho0)) / fabsq(O.n)) < 1e-18Q)) continue;
              mc::Ctx::Case cs(ctx);
              double la, lo, g, k; int sg = 0;
              try { sg = mc::crashed([&] { U.rev(0, xx, yy, la, lo, g, k); }); } catch (const std::exception& e) { sg = -1; }
              Q err = sg ? HUGE_VALQ : fabsq(Q(pole) - Q(la)) * proj_cf::deg() * E.a;          // ground distance from the apex pole
              ctx.worst("lcc.apex-probe.distance-from-pole_m", D(err), U.name);
              if (!(err <= 20e-9Q * (E.a / WGS84_A)) || !(std::fabs(la) <= 90)) {
                mc::Fields ff = {{"kind", "apex-reverse"}, {"proj", U.name}, {"x", fmt(xx)}, {"y", fmt(yy)}}; if (U.defect_blanket) ff.push_back({"defect", U.defect});
                ctx.fail(U.name + " apex " + fx(xx) + " " + fx(yy), U.name + ": Reverse(0, " + fx(xx) + ", " + fx(yy) + ") (apex at y = " + fq(O.rho0) + ", " + fq(rho) + " m from it) = lat " + fx(la) + " lon " + fx(lo) + ", expected the pole " + fmt(pole), ff);
              }
            }
          }
          if (fi > 0) { Axes As; As.lats = {-89, -45, 0, 1e-9, 30, 60, 89.999999999, 90, -90}; As.dlons = {0, 30, -179}; check_same(ctx, E, forms[0], U, O, As, 2e-9Q * (E.a / WGS84_A)); }
        }
        // SetScale on the first form
        // AlbersEqualArea::SetScale evaluates Forward; on southern cones that was the defective call.  Probe: is that defect present in this build?
        bool south_defect_present = false; const Q ascale0 = E.a / WGS84_A;
        if (albers_south && !forms.empty()) {
          double x, y, g, k; forms[0].fwd(0, -50, 20, x, y, g, k);
          XY Pt = O.fwd(proj_cf::latd(-50), Q(20) * proj_cf::deg()), Pm = O.fwd(proj_cf::latd(50), Q(20) * proj_cf::deg());
          Q dt = hypotq(Q(x) - Pt.x, Q(y) - Pt.y), dm = hypotq(Q(x) - Pm.x, Q(y) - Pm.y);
          south_defect_present = dm < 1e-3Q * ascale0 && dt > 1e3Q * ascale0;       // Forward(-50) is the image of +50
          if (south_defect_present) ctx.list("degraded", "AlbersEqualArea::SetScale on southern-hemisphere cones evaluates the defective Forward (known finding albers-south-forward-uses-minus-lat): all its failures are attributed to that finding");
        }
        // scale ratios far from 1 (Reverse clamps drho with a constant that must be rescaled too) and SetScale applied twice (code -k: first SetScale(ls, 7), then SetScale(ls, k))
        if (!forms.empty()) for (double ls : SETSCALE_LATS) for (double ksc : {1.0, 0.9, 0.01, 0.1, 3.0, 10.0, 100.0, 1e4, -100.0}) {
          const double ks = std::fabs(ksc); const bool twice = ksc < 0;
          // the scale values added in round e (everything except 1 and 0.9) are enumerated in the thorough tier on exactly the quick-tier combinations
          // (quick ellipsoids, quick standard parallels, quick SetScale latitudes, the small post-SetScale lattice); the older values keep the full thorough lattice
          const bool round_e = !(ksc == 1.0 || ksc == 0.9);
          const bool quick_ls = ls == -89.0 || ls == -60.0 || ls == 0.0 || ls == 1e-9 || ls == 45.0 || ls == 89.0;
          if (round_e && T && !(EP.quick && sp.quick && quick_ls)) continue;
          if (albers && (ks < 0.05 || ks > 5)) { ctx.list("skipped", "AlbersEqualArea::SetScale to k in {0.01, 10, 100, 1e4}: with such azimuthal scales on the cones of the alphabet the plane errors reach 1e3..1e4 ulp of |x| "
                                                         "(e.g. (-30,30+1e-6), SetScale(-89,1e4): y off by 2.5e-4 m at |x| = 5.8e8 m); no documented accuracy applies and the round-off model of this check does not cover it; "
                                                         "k in {0.1, 3} and the LambertConformalConic / PolarStereographic extremes are checked"); continue; }
          mc::Ctx::Case cs0(ctx);
          std::shared_ptr<LambertConformalConic> lc; std::shared_ptr<AlbersEqualArea> al;
          Under U; U.name = forms[0].name + (twice ? ".SetScale(" + fmt(ls) + ",7)" : std::string()) + ".SetScale(" + fmt(ls) + "," + fmt(ks) + ")";
          Q kold = O.k(proj_cf::latd(ls));
          double k1s = (double)(Q(k1) * Q(ks) / kold);
          try {
            if (albers) { al = std::make_shared<AlbersEqualArea>(sp.single ? AlbersEqualArea(EP.a, EP.f, sp.l1, k1) : AlbersEqualArea(EP.a, EP.f, sp.l1, sp.l2, k1)); if (twice) al->SetScale(ls, 7.0); al->SetScale(ls, ks); bind(U, al); }
            else { lc = std::make_shared<LambertConformalConic>(sp.single ? LambertConformalConic(EP.a, EP.f, sp.l1, k1) : LambertConformalConic(EP.a, EP.f, sp.l1, sp.l2, k1)); if (twice) lc->SetScale(ls, 7.0); lc->SetScale(ls, ks); bind(U, lc); }
          } catch (const std::exception& e) { ctx.fail(U.name + " setscale-exception", U.name + ": " + e.what(), {{"kind", "setscale-exception"}, {"proj", U.name}}); continue; }
          Oracle Os = albers ? make_albers_oracle(E, L1, L2, k1s) : make_lcc_oracle(E, L1, L2, k1s);
          if (albers && fabsq(Os.n) > 1) { ctx.count("albers.setscale: resulting cone constant k^2 n > 1 (the plane is covered more than once: not a map), not compared"); continue; }
          // SetScale derives the new scale from Forward's k at lat = ls; an error of that k within ITS tolerance (round-off + position tolerance over the distance to
          // the apex) becomes a systematic scale error of the whole map.  So (1) the resulting CentralScale is held to that conditioned tolerance against the closed
          // form, and (2) the lattice below is judged against the closed form carrying the library's own central scale.
          if (!south_defect_present) {
            Lat Ls = proj_cf::latd(ls); XY Ps = Os.fwd(Ls, Q(0)); Q ks_o = Os.k(Ls);
            Q k0o = std::fabs(lat0d) == 90 ? (albers ? sqrtq(fabsq(Os.n)) : Q(k1s)) : Os.k(proj_cf::latr(Os.phi0));
            const Q ULPS = fabsq(E.f) <= 0.0100001Q ? 16 : 64;
            Q size = std::max(std::max(fabsq(Ps.x), fabsq(Ps.y)), E.a), eps_plane = ULPS * 1.1e-16Q * size;
            Q rapex = Os.conic ? hypotq(Ps.x, Os.rho0 - Ps.y) : HUGE_VALQ;
            Q tk0 = 4 * (1.6e-14Q + (20e-9Q * (E.a / WGS84_A) * (albers ? 1 / ks_o : ks_o) + eps_plane) / rapex);
            Q ek0 = fabsq(Q(U.k0c) / k0o - 1);
            ctx.worst("setscale.central-scale/tol", D(ek0 / tk0), U.name);
            if (ek0 > tk0) { mc::Fields ff = {{"kind", "setscale-k0"}, {"proj", U.name}}; if (near_polar_pair) ff.push_back({"defect", "albers-pole-plus-near-polar-parallel-inaccurate"}); else if (denormal_n) ff.push_back({"defect", "denormal-standard-parallel"}); else if (!albers && fabsq(Q(ks) / kold - 1) > 1e-15Q) ff.push_back({"defect", "lcc-setscale-stale-nrho0"});
              ctx.fail(U.name + " setscale-k0", U.name + ": CentralScale " + fx(U.k0c) + " closed form " + fq(k0o) + " tol " + fq(tk0), ff); }
            else if (ek0 > 0) { k1s = (double)(Q(k1s) * (Q(U.k0c) / k0o)); Os = albers ? make_albers_oracle(E, L1, L2, k1s) : make_lcc_oracle(E, L1, L2, k1s); }
          }
          Family f2 = fam;
          if (south_defect_present) { U.defect = "albers-south-forward-uses-minus-lat"; U.defect_blanket = true; }
          U.pole_pair = the_pole;
          if (near_polar_pair) { U.defect = "albers-pole-plus-near-polar-parallel-inaccurate"; U.defect_blanket = true; }
          const Q r = Q(ks) / kold;                                 // factor by which SetScale changes the scale
          if (!albers && fabsq(r - 1) > 1e-15Q && Os.n != 0 && fabsq(Os.n) != 1) {
            // defect found by this check (repaired in /repo, kept as a recognised class): LambertConformalConic::SetScale rescaled _scale and _k0 but not _nrho0 (= n rho0) and _drhomax: Forward then returned
            // (x, y) + (rho0_old - rho0_new) (sin theta, 1 - cos theta)
            U.defect = "lcc-setscale-stale-nrho0"; U.defect_in_reverse = true;
            U.defect_image = [Os, r](Lat L, Q lam) { XY p = Os.fwd(L, lam); Q d = Os.rho0 / r - Os.rho0, th = Os.n * lam; p.x += d * sinq(th); p.y += d * (1 - cosq(th)); return p; };
            U.defect_k = Os.k;
          } else if (!albers && fabsq(r - 1) > 1e-15Q && Os.n == 0) {
            U.defect = "lcc-setscale-stale-nrho0"; U.defect_in_reverse = true;     // Mercator limit: x = _nrho0 * lam is not rescaled
            U.defect_image = [Os, r](Lat L, Q lam) { XY p = Os.fwd(L, lam); p.x /= r; return p; };
            U.defect_k = Os.k;
          }
          if (denormal_n) { U.defect = "denormal-standard-parallel"; U.defect_blanket = true; U.defect_in_reverse = false; }
          Axes As; As.lats = {ls, -89.99, -89, -45, 30, 60, 89, 89.99}; As.dlons = {0, 30, -179}; As.lon0s = {0};
          if (T && !round_e) { As = A; if (std::find(As.lats.begin(), As.lats.end(), ls) == As.lats.end()) As.lats.push_back(ls); }      // deep tier: the full lattice
          check_projection(ctx, E, U, Os, As, f2, {}, 1.0, false);
          { double x, y, g, k; U.fwd(0, ls, 20, x, y, g, k); Q e = fabsq(Q(k) / Q(ks) - 1);
            if (e > 1.6e-14Q) { mc::Fields ff = {{"kind", "setscale-k"}, {"proj", U.name}}; if (U.defect_blanket) ff.push_back({"defect", U.defect}); ctx.fail(U.name + " setscale-k", U.name + ": Forward gives k=" + fx(k) + " at the SetScale latitude", ff); } }
        }
      }
    }
  }
  return ctx.finish();
}
